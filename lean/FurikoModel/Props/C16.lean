/-
C16 — Admission defaulting is idempotent, patch-faithful, expands configName correctly.

Property theorems only (helper lemmas: Proofs/MutationLemmas.lean).  Model: Model/Mutation.lean
(`mutation.Mutator`, `JobPatcher`, `JobConfigPatcher`, `NewJobFromJobConfig`,
`ValidateLookupJobOwner`, the accept / reject decision of `Webhook.Handle`), reusing
Model/Options.lean for option evaluation and defaulting.

`admitted (patchX env x) = some x'` reads: the webhook accepted the request and its response patch
leads to the defaulted object `x'`.  Everything is quantified over all model inputs: all Jobs /
JobConfigs (every optional field present or absent), all JobConfig caches, all dynamic
configurations (including a load error), all clock readings, all oracle answers.

Go maps are association lists (first binding wins) and are compared extensionally (`MapEq`,
`JobEq`): that is what JSON shows of them.

Limits (see `patch_faithful_partial`): faithfulness of the patch against the RAW submitted bytes
is outside the model (it depends on which optional objects the submitter's JSON spells out) and
is judged by the harness monitor `patch-faithful` only; see finding F20.
-/
import FurikoModel.Proofs.MutationLemmas

namespace Furiko.Props.C16
open Furiko Furiko.Options Furiko.Mutation Furiko.MutationLemmas

/-! ## Part 1 — idempotence: submitting the defaulted object again changes nothing -/

/-- two Jobs that JSON cannot tell apart: equal field by field, maps extensionally -/
structure JobEq (a b : Job) : Prop where
  namespace_ : a.namespace_ = b.namespace_
  createTime : a.createTime = b.createTime
  finalizers : a.finalizers = b.finalizers
  labels : MapEq a.labels b.labels
  annotations : MapEq a.annotations b.annotations
  owners : a.owners = b.owners
  configName : a.configName = b.configName
  type_ : a.type_ = b.type_
  startPolicy : a.startPolicy = b.startPolicy
  template : a.template = b.template
  optionValues : a.optionValues = b.optionValues
  substitutions : MapEq a.substitutions b.substitutions
  ttl : a.ttl = b.ttl
  rest : a.rest = b.rest

/-- Job UPDATE: the defaulted object is a fixed point (same clock, cache and configuration). -/
theorem mutate_idempotent_job_update (env : Env) (j j' : Job)
    (h : admitted (patchUpdateJob env j) = some j') : admitted (patchUpdateJob env j') = some j' := by
  rw [admitted_some, patchUpdateJob_eq] at h
  obtain ⟨he, ho⟩ := h
  have hd := mutateJob_defaulted env j he
  rw [ho] at hd
  rw [admitted_some, patchUpdateJob_eq, mutateJob_fixed env j' hd]
  exact ⟨rfl, rfl⟩

/-- JobConfig CREATE: a fixed point at a fixed clock (a later re-create re-stamps `lastUpdated`,
by design). -/
theorem mutate_idempotent_jobconfig_create (env : Env) (c c' : JobConfig)
    (h : admitted (patchCreateJobConfig env c) = some c') : admitted (patchCreateJobConfig env c') = some c' := by
  rw [admitted_some, patchCreateJobConfig_eq] at h
  obtain ⟨he, ho⟩ := h
  simp only [mutateCreateJobConfig_eq, List.nil_append] at he ho
  have hi := mutateJobConfig_idem env _ he
  rw [ho] at hi
  rw [admitted_some, patchCreateJobConfig_eq]
  simp only [mutateCreateJobConfig_eq, List.nil_append]
  -- the schedule of the defaulted object is already stamped
  have hs : c'.schedule.map (stamp env) = c'.schedule := by
    rw [← ho, mutateJobConfig_obj]
    cases c.schedule <;> simp [stamp_idem]
  rw [hs]
  have h2 := hi c'.schedule
  have hc : ({ c' with schedule := c'.schedule } : JobConfig) = c' := by cases c'; rfl
  rw [hc] at h2
  exact h2

/-- JobConfig UPDATE against the same old object: a fixed point. -/
theorem mutate_idempotent_jobconfig_update (env : Env) (old c c' : JobConfig)
    (h : admitted (patchUpdateJobConfig env old c) = some c') :
    admitted (patchUpdateJobConfig env old c') = some c' := by
  rw [admitted_some, patchUpdateJobConfig_eq] at h
  obtain ⟨he, ho⟩ := h
  simp only [mutateUpdateJobConfig_eq, List.append_nil] at he ho
  have hi := mutateJobConfig_idem env _ he
  rw [admitted_some, patchUpdateJobConfig_eq]
  simp only [mutateUpdateJobConfig_eq, List.append_nil]
  have h2 := hi c'.schedule
  have hc : ({ (mutateJobConfig env c).obj with schedule := c'.schedule } : JobConfig) = c' := by
    rw [← ho]
  rw [hc] at h2
  refine ⟨h2.1, ?_⟩
  rw [h2.2]
  have hs : c'.schedule.map (updateSchedule env old.schedule) = c'.schedule := by
    rw [← ho]
    cases (mutateJobConfig env c).obj.schedule <;> simp [updateSchedule_idem]
  rw [hs]

/-- Job CREATE: resubmitting the defaulted Job is accepted again and yields the same Job (maps
compared extensionally), given the JSON library contract `ParseStable` for `optionValues`. -/
theorem mutate_idempotent_job_create (env : Env) (hP : ParseStable env.parseOV) (j j' : Job)
    (h : admitted (patchCreateJob env j) = some j') :
    ∃ j'', admitted (patchCreateJob env j') = some j'' ∧ JobEq j'' j' := by
  rw [admitted_some, patchCreateJob_eq] at h
  obtain ⟨he, ho⟩ := h
  simp only [List.append_eq_nil_iff] at he ho
  obtain ⟨he1, he2⟩ := he
  -- first pass, phase by phase
  obtain ⟨rjc, hcn, hown, hov, hobj⟩ := mutateCreateJob_ok env j he1
  have hdef := mutateJob_defaulted env _ he2
  rw [ho] at hdef
  obtain ⟨ty, ttl, tm, hmj⟩ := mutateJob_obj env (mutateCreateJob env j).obj
  rw [ho, hobj] at hmj
  generalize hj2 : (evaluateConfigName env (addFinalizer j)).obj = j2 at hown hov hmj
  have hfin2 : Facts.admFinalizer ∈ j2.finalizers := by
    rw [← hj2]; exact evaluateConfigName_finalizer env _ hcn (addFinalizer_mem j)
  have hcn2 : j2.configName = [] := by rw [← hj2]; exact evaluateConfigName_configName env _ hcn
  obtain ⟨ov, ann, subs, hfr⟩ := evaluateOptionValues_frame env j2 rjc
  -- second pass on j': the first three phases are no-ops / find the same owner
  have hj'fin : j'.finalizers = j2.finalizers := by rw [hmj, hfr]; cases rjc <;> rfl
  have hj'cn : j'.configName = [] := by rw [hmj, hfr]; cases rjc <;> exact hcn2
  have hj'own : j'.owners = j2.owners := by rw [hmj, hfr]; cases rjc <;> rfl
  have hj'ns : j'.namespace_ = j2.namespace_ := by rw [hmj, hfr]; cases rjc <;> rfl
  have hj'lab : j'.labels = j2.labels := by rw [hmj, hfr]; cases rjc <;> rfl
  have hadd : addFinalizer j' = j' := addFinalizer_fixed j' (hj'fin ▸ hfin2)
  have hecn : evaluateConfigName env j' = { obj := j' } := evaluateConfigName_nil env j' hj'cn
  have hown' : validateLookupJobOwner env.store j' = .ok rjc := by
    rw [validateLookupJobOwner_congr env.store j' j2 hj'own hj'ns (hj'lab ▸ MapEq.refl _)]; exact hown
  -- assemble the second pass from its phases
  have key : ∀ j3' : Job, (evaluateOptionValues env j' rjc).errors = [] →
      (evaluateOptionValues env j' rjc).obj = j3' →
      j3'.type_ = j'.type_ → j3'.ttl = j'.ttl → j3'.template = j'.template →
      admitted (patchCreateJob env j') = some (mergeCtx rjc j3') := by
    intro j3' herr hobj3 h1 h2 h3
    have hstep : (mutateCreateJob env j').errors = [] ∧ (mutateCreateJob env j').obj = mergeCtx rjc j3' := by
      unfold mutateCreateJob
      simp only [Facts.admCreateJobSteps, List.foldl, createStep, CreateSt.merge, Bool.false_eq_true, if_false]
      have hadd' : (if (!containsFinalizer j'.finalizers Facts.admFinalizer) = true then
          ({ job := { j' with finalizers := mergeFinalizers j'.finalizers [Facts.admFinalizer] } } : CreateSt)
          else { job := j' }) = { job := j' } := by
        have : containsFinalizer j'.finalizers Facts.admFinalizer = true :=
          (containsFinalizer_iff _ _).2 (hj'fin ▸ hfin2)
        simp [this]
      simp only [hadd', hecn, hown', List.append_nil, List.nil_append, Bool.false_eq_true, if_false]
      cases rjc with
      | none => simp only [herr, hobj3, mergeCtx, and_self]
      | some c => simp only [herr, hobj3, mergeCtx, and_self]
    have hd3 : JobDefaulted env (mergeCtx rjc j3') := by
      refine hdef.congr ?_ ?_ ?_ <;> cases rjc <;> simp [mergeCtx, h1, h2, h3]
    rw [admitted_some, patchCreateJob_eq]
    simp only [hstep.1, hstep.2, mutateJob_fixed env _ hd3, List.append_nil, and_self]
  cases rjc with
  | none =>
    -- no parent JobConfig: nothing is evaluated, literally the same object
    refine ⟨j', ?_, ⟨rfl, rfl, rfl, MapEq.refl _, MapEq.refl _, rfl, rfl, rfl, rfl, rfl, rfl, MapEq.refl _, rfl, rfl⟩⟩
    have := key j' rfl rfl rfl rfl rfl
    simpa [mergeCtx] using this
  | some c =>
    obtain ⟨hev, hcase⟩ := evaluateOptionValues_some_ok env j2 c hov
    rcases hcase with ⟨hov0, hobj2⟩ | ⟨hovne, p, hp, hobj2⟩
    · -- no option values submitted: the same evaluation runs again
      rw [hobj2] at hmj
      simp only [mergeCtx] at hmj
      have hj'ov : j'.optionValues = [] := by rw [hmj]; exact hov0
      have hsv : submittedValues env j' = submittedValues env j2 := by
        simp [submittedValues, hj'ov, hov0]
      have hev' : (evaluateOptionValues env j' (some c)).errors = [] ∧
          (evaluateOptionValues env j' (some c)).obj =
            { j' with substitutions := mmerge (evaluateOptions env.date (submittedValues env j2) c.option).1 j'.substitutions } := by
        unfold evaluateOptionValues
        simp only [hj'ov, ne_eq, not_true_eq_false, if_false]
        have : submittedValues env j2 = [] := by simp [submittedValues, hov0]
        rw [this] at hev ⊢
        simp [hev]
      refine ⟨_, key _ hev'.1 hev'.2 rfl rfl rfl, ?_⟩
      simp only [mergeCtx]
      refine ⟨rfl, rfl, rfl, MapEq.refl _, MapEq.refl _, rfl, rfl, rfl, rfl, rfl, rfl, ?_, rfl, rfl⟩
      simp only
      rw [hmj]
      exact merge_absorb _ _ _
    · -- option values submitted: the normalised text parses to the same values
      rw [hobj2] at hmj
      simp only [mergeCtx] at hmj
      obtain ⟨p', hp', hnorm, hvals⟩ := hP.stable _ _ hp
      have hne := hP.nonempty _ _ hp
      have hj'ov : j'.optionValues = p.normalised := by rw [hmj]
      have hsv2 : submittedValues env j2 = p.values := by simp [submittedValues, hovne, hp]
      have hev' : (evaluateOptionValues env j' (some c)).errors = [] ∧
          (evaluateOptionValues env j' (some c)).obj =
            { j' with optionValues := p.normalised,
                      annotations := mset j'.annotations Facts.admAnnOptionSpecHash c.optionHash,
                      substitutions := mmerge (evaluateOptions env.date (submittedValues env j2) c.option).1 j'.substitutions } := by
        unfold evaluateOptionValues
        simp only [hj'ov, ne_eq, hne, not_false_eq_true, if_true, hp', hnorm, hvals]
        rw [hsv2] at hev ⊢
        simp [hev]
      refine ⟨_, key _ hev'.1 hev'.2 rfl rfl rfl, ?_⟩
      simp only [mergeCtx]
      refine ⟨rfl, rfl, rfl, MapEq.refl _, ?_, rfl, rfl, rfl, rfl, rfl, hj'ov.symm, ?_, rfl, rfl⟩
      · simp only
        rw [hmj]
        exact mset_same _ _ _
      · simp only
        rw [hmj]
        exact merge_absorb _ _ _

/-! ## Part 2 — configName expansion -/

/-- first binding among prioritised sources -/
def firstOf (a b : Option Str) : Option Str :=
  match a with
  | some v => some v
  | none => b

/-- A Job created with `configName` is accepted only if that JobConfig exists in the Job's
namespace, and then: `configName` is cleared; the owner references are exactly one controller
reference to that JobConfig; the template is the JobConfig's (defaulted like any Job template);
the uid label is the JobConfig's uid whatever the submitter or the template said; every other
label / annotation is the submitter's if given, else the template's (annotations: plus the
schedule time of a Scheduled Job; the option-spec hash is the one key written later); the
concurrency policy is the submitter's if given, else the JobConfig's, `startAfter` kept; the
delete-dependents finalizer is present and no submitted finalizer is lost. -/
theorem configName_expansion (env : Env) (j j' : Job) (hcn : j.configName ≠ [])
    (h : admitted (patchCreateJob env j) = some j') :
    ∃ c, lookupJobConfig env.store j.namespace_ j.configName = some c ∧
      j'.configName = [] ∧
      j'.owners = [controllerRef c] ∧
      j'.template = some (mutateJobTemplateSpec env.cfg c.template Facts.admJobMutatesTaskTemplate).1 ∧
      mget j'.labels Facts.admLabelUID = some c.uid ∧
      (∀ k, k ≠ Facts.admLabelUID → mget j'.labels k = firstOf (mget j.labels k) (mget c.tmplLabels k)) ∧
      (∀ k, k ≠ Facts.admAnnOptionSpecHash →
        mget j'.annotations k = firstOf (mget j.annotations k) (mget (baseAnnotations c j.type_ j.createTime) k)) ∧
      (∃ sp, j'.startPolicy = some sp ∧
        sp.concurrencyPolicy = (if (j.startPolicy.getD {}).concurrencyPolicy = [] then c.policy
                                else (j.startPolicy.getD {}).concurrencyPolicy) ∧
        sp.startAfter = (j.startPolicy.getD {}).startAfter) ∧
      Facts.admFinalizer ∈ j'.finalizers ∧ (∀ f ∈ j.finalizers, f ∈ j'.finalizers) := by
  obtain ⟨rjc, j2, j3, hecn, hj2, hown, hov, hj3, hok, hj'⟩ := patchCreateJob_ok env j j' h
  have hcn1 : (addFinalizer j).configName ≠ [] := by rw [addFinalizer_frame]; exact hcn
  rcases evaluateConfigName_ok env _ hecn with ⟨h0, _⟩ | ⟨_, c, base, hl, hn, hobj⟩
  · exact absurd h0 hcn1
  obtain ⟨hbl, hba, hbf, hbo, hbt⟩ := newJobFromJobConfig_some _ _ _ _ hn
  rw [hj2] at hobj
  obtain ⟨ov, ann, subs, hfr⟩ := evaluateOptionValues_frame env j2 rjc
  rw [hj3] at hfr
  have hns : (addFinalizer j).namespace_ = j.namespace_ := by rw [addFinalizer_frame]
  have hnm : (addFinalizer j).configName = j.configName := by rw [addFinalizer_frame]
  have hlab : (addFinalizer j).labels = j.labels := by rw [addFinalizer_frame]
  have hann : (addFinalizer j).annotations = j.annotations := by rw [addFinalizer_frame]
  have hsp : (addFinalizer j).startPolicy = j.startPolicy := by rw [addFinalizer_frame]
  have hty : (addFinalizer j).type_ = j.type_ := by rw [addFinalizer_frame]
  have hct : (addFinalizer j).createTime = j.createTime := by rw [addFinalizer_frame]
  rw [hns, hnm] at hl
  rw [hty, hct] at hba
  refine ⟨c, hl, ?_, ?_, ?_, ?_, ?_, ?_, ?_, ?_, ?_⟩
  · rw [hj', hfr, hobj]; cases rjc <;> rfl
  · rw [hj', hfr, hobj, hbo]; cases rjc <;> rfl
  · have : j3.template = some c.template := by rw [hfr, hobj, hbt]
    rw [hj']; cases rjc <;> simp [mergeCtx, this]
  · have : j'.labels = j2.labels := by rw [hj', hfr]; cases rjc <;> rfl
    rw [this, hobj, hbl]
    simp [mget_mset]
  · intro k hk
    have : j'.labels = j2.labels := by rw [hj', hfr]; cases rjc <;> rfl
    rw [this, hobj, hbl, hlab]
    simp only [mget_mset, mget_mmerge, Ne.symm hk, if_false, firstOf]
    cases mget j.labels k <;> rfl
  · intro k hk
    have h1 : mget j'.annotations k = mget j3.annotations k := by rw [hj']; cases rjc <;> rfl
    rw [h1, ← hj3, evaluateOptionValues_annotations env j2 rjc k hk, hobj, hba, hann]
    simp only [mget_mmerge, firstOf]
    cases mget j.annotations k <;> rfl
  · have hspj : j'.startPolicy = j2.startPolicy := by rw [hj', hfr]; cases rjc <;> rfl
    rw [hspj, hobj, hsp]
    refine ⟨_, rfl, ?_, ?_⟩
    · by_cases hc : (j.startPolicy.getD {}).concurrencyPolicy = [] <;> simp [hc]
    · by_cases hc : (j.startPolicy.getD {}).concurrencyPolicy = [] <;> simp [hc]
  · have : j'.finalizers = j2.finalizers := by rw [hj', hfr]; cases rjc <;> rfl
    rw [this, ← hj2]
    exact evaluateConfigName_finalizer env _ hecn (addFinalizer_mem j)
  · intro f hf
    have : j'.finalizers = j2.finalizers := by rw [hj', hfr]; cases rjc <;> rfl
    rw [this, hobj]
    exact mem_mergeFinalizers_of_right _ _ _ (addFinalizer_keeps j f hf)

/-- Without `configName` nothing of the expansion happens: owner references, labels, start
policy are the submitter's. -/
theorem no_configName_no_expansion (env : Env) (j j' : Job) (hcn : j.configName = [])
    (h : admitted (patchCreateJob env j) = some j') :
    j'.owners = j.owners ∧ j'.labels = j.labels ∧ j'.startPolicy = j.startPolicy ∧ j'.configName = [] := by
  obtain ⟨rjc, j2, j3, hecn, hj2, hown, hov, hj3, hok, hj'⟩ := patchCreateJob_ok env j j' h
  have hcn1 : (addFinalizer j).configName = [] := by rw [addFinalizer_frame]; exact hcn
  rw [evaluateConfigName_nil env _ hcn1] at hj2
  obtain ⟨ov, ann, subs, hfr⟩ := evaluateOptionValues_frame env j2 rjc
  rw [hj3] at hfr
  simp only at hj2
  rw [hj', hfr, ← hj2, addFinalizer_frame]
  cases rjc <;> exact ⟨rfl, rfl, rfl, hcn⟩

/-! ## Part 3 — substitutions: explicit > evaluated option > JobConfig context -/

/-- For an accepted Job creation, let `c` be the JobConfig the defaulted Job's controller
reference resolves to.  Every substitution is the submitter's explicit value if there is one,
else the evaluated option (`option.<name>`: submitted value, or the option's default), else the
JobConfig context variable.  Without such a JobConfig the substitutions are the submitter's. -/
theorem substitution_precedence (env : Env) (j j' : Job) (h : admitted (patchCreateJob env j) = some j') :
    (∃ c, validateLookupJobOwner env.store j' = .ok (some c) ∧
      ∀ k, mget j'.substitutions k =
        firstOf (mget j.substitutions k)
          (firstOf (mget (evaluateOptions env.date (submittedValues env j) c.option).1 k)
            (mget (jobConfigVars c) k))) ∨
    (validateLookupJobOwner env.store j' = .ok none ∧ j'.substitutions = j.substitutions) := by
  obtain ⟨rjc, j2, j3, hecn, hj2, hown, hov, hj3, hok, hj'⟩ := patchCreateJob_ok env j j' h
  obtain ⟨ov, ann, subs, hfr⟩ := evaluateOptionValues_frame env j2 rjc
  rw [hj3] at hfr
  have hown' : validateLookupJobOwner env.store j' = .ok rjc := by
    rw [validateLookupJobOwner_congr env.store j' j2 _ _ _]
    · exact hown
    · rw [hj', hfr]; cases rjc <;> rfl
    · rw [hj', hfr]; cases rjc <;> rfl
    · rw [hj', hfr]; cases rjc <;> exact MapEq.refl _
  -- evaluateConfigName and the finalizer phase leave optionValues and substitutions alone
  have hpre : j2.optionValues = j.optionValues ∧ j2.substitutions = j.substitutions := by
    rcases evaluateConfigName_ok env _ hecn with ⟨_, he⟩ | ⟨_, c, base, _, _, he⟩
    · rw [← hj2, he, addFinalizer_frame]; exact ⟨rfl, rfl⟩
    · rw [← hj2, he, addFinalizer_frame]; exact ⟨rfl, rfl⟩
  cases rjc with
  | none =>
    right
    refine ⟨hown', ?_⟩
    rw [hj', ← hj3]
    exact hpre.2
  | some c =>
    left
    refine ⟨c, hown', ?_⟩
    have hsv : submittedValues env j2 = submittedValues env j := by simp [submittedValues, hpre.1]
    obtain ⟨_, hcase⟩ := evaluateOptionValues_some_ok env j2 c hov
    intro k
    have hs : j'.substitutions = mmerge (jobConfigVars c)
        (mmerge (evaluateOptions env.date (submittedValues env j) c.option).1 j.substitutions) := by
      rcases hcase with ⟨_, ho⟩ | ⟨_, p, _, ho⟩ <;>
        (rw [hj', ← hj3, ho, hsv, hpre.2]; rfl)
    rw [hs]
    simp only [mget_mmerge, firstOf]
    cases mget j.substitutions k <;> rfl

/-! ## Part 4 — defaults -/

/-- what `defaults_present` says about the defaulted template `t` -/
structure TemplateDefaults (cfg : Cfg) (t : JobTemplate) : Prop where
  maxAttempts : t.maxAttempts.isSome = true
  pendingTimeout : cfg.defaultPendingTimeout.isSome = true → t.pendingTimeout.isSome = true
  restartPolicy : ∀ p, t.pod = some p → p.restartPolicy ≠ []
  completionStrategy : ∀ p, t.parallelism = some p → p.completionStrategy ≠ []

/-- a given template's values survive in `t` -/
structure TemplateKept (t0 t : JobTemplate) : Prop where
  maxAttempts : ∀ v, t0.maxAttempts = some v → t.maxAttempts = some v
  pendingTimeout : ∀ v, t0.pendingTimeout = some v → t.pendingTimeout = some v
  pod : ∀ p, t0.pod = some p → p.restartPolicy ≠ [] → t.pod = some p
  parallelism : ∀ p, t0.parallelism = some p → p.completionStrategy ≠ [] → t.parallelism = some p
  retryDelaySeconds : t.retryDelaySeconds = t0.retryDelaySeconds
  forbidForceDeletion : t.forbidForceDeletion = t0.forbidForceDeletion
  podPresence : t.pod.isSome = t0.pod.isSome
  parallelismPresence : t.parallelism.isSome = t0.parallelism.isSome

theorem templateDefaults_of (cfg : Cfg) (hok : cfg.ok = true) (t : JobTemplate) :
    TemplateDefaults cfg (mutateJobTemplateSpec cfg t Facts.admJobMutatesTaskTemplate).1 ∧
    TemplateKept t (mutateJobTemplateSpec cfg t Facts.admJobMutatesTaskTemplate).1 := by
  have hflag : Facts.admJobMutatesTaskTemplate = true := rfl
  obtain ⟨h1, h2, h3, h4, h5, h6, h7⟩ := mutateJobTemplateSpec_values cfg Facts.admJobMutatesTaskTemplate t
  rw [if_pos hflag] at h7
  constructor
  · constructor
    · rw [h1]; rfl
    · intro hd
      cases hp : t.pendingTimeout with
      | some v => rw [h2 v hp]; rfl
      | none => rw [h3 hp hok]; exact hd
    · intro p hp
      rw [h7] at hp
      cases hq : t.pod with
      | none => simp [hq] at hp
      | some q => simp [hq] at hp; subst hp; exact mutatePod_ne q
    · intro p hp
      rw [h6] at hp
      cases hq : t.parallelism with
      | none => simp [hq] at hp
      | some q => simp [hq] at hp; subst hp; exact mutateParallelism_ne q
  · constructor
    · intro v hv; rw [h1, hv]; rfl
    · exact h2
    · intro p hp hne; rw [h7, hp]; simp [mutatePod_fixed p hne]
    · intro p hp hne; rw [h6, hp]; simp [mutateParallelism_fixed p hne]
    · exact h4
    · exact h5
    · rw [h7]; cases t.pod <;> rfl
    · rw [h6]; cases t.parallelism <;> rfl

/-- After CREATE: the delete-dependents finalizer is present, `type` is set (the submitter's if
given), a given `ttlSecondsAfterFinished` is kept, and the template has maxAttempts, a pending
timeout whenever the configuration has a default, a restart policy on the pod, a completion
strategy on the parallelism spec.  If the Job did not name a JobConfig, every value given in its
template is kept (with `configName` the template is the JobConfig's: `configName_expansion`). -/
theorem defaults_present (env : Env) (j j' : Job) (h : admitted (patchCreateJob env j) = some j') :
    Facts.admFinalizer ∈ j'.finalizers ∧
    j'.type_ ≠ [] ∧ (j.type_ ≠ [] → j'.type_ = j.type_) ∧
    (∀ v, j.ttl = some v → j'.ttl = some v) ∧ (j.ttl = none → j'.ttl = env.cfg.defaultTTL) ∧
    ∃ t, j'.template = some t ∧ TemplateDefaults env.cfg t ∧
      (j.configName = [] → TemplateKept (j.template.getD {}) t) := by
  obtain ⟨rjc, j2, j3, hecn, hj2, hown, hov, hj3, hok, hj'⟩ := patchCreateJob_ok env j j' h
  obtain ⟨ov, ann, subs, hfr⟩ := evaluateOptionValues_frame env j2 rjc
  rw [hj3] at hfr
  have hpre : j2.type_ = j.type_ ∧ j2.ttl = j.ttl := by
    rcases evaluateConfigName_ok env _ hecn with ⟨_, he⟩ | ⟨_, c, base, _, _, he⟩
    · rw [← hj2, he, addFinalizer_frame]; exact ⟨rfl, rfl⟩
    · rw [← hj2, he, addFinalizer_frame]; exact ⟨rfl, rfl⟩
  have h3ty : j3.type_ = j.type_ := by rw [hfr]; exact hpre.1
  have h3ttl : j3.ttl = j.ttl := by rw [hfr]; exact hpre.2
  have hfin : j'.finalizers = j2.finalizers := by rw [hj', hfr]; cases rjc <;> rfl
  have hty : j'.type_ = if j.type_ = [] then Facts.admDefaultJobType else j.type_ := by
    rw [hj', h3ty]; try (cases rjc <;> rfl)
  have httl : j'.ttl = if j.ttl.isNone then env.cfg.defaultTTL else j.ttl := by
    rw [hj', h3ttl]; try (cases rjc <;> rfl)
  have htm : j'.template = some (mutateJobTemplateSpec env.cfg (j3.template.getD {}) Facts.admJobMutatesTaskTemplate).1 := by
    rw [hj']; try (cases rjc <;> rfl)
  refine ⟨?_, ?_, ?_, ?_, ?_, _, htm, (templateDefaults_of env.cfg hok _).1, ?_⟩
  · rw [hfin, ← hj2]
    exact evaluateConfigName_finalizer env _ hecn (addFinalizer_mem j)
  · rw [hty]; split
    · exact defaultJobType_ne
    · assumption
  · intro hne; rw [hty]; simp [hne]
  · intro v hv; rw [httl, hv]; rfl
  · intro hv; rw [httl, hv]; rfl
  · intro hcn
    have hcn1 : (addFinalizer j).configName = [] := by rw [addFinalizer_frame]; exact hcn
    have : j3.template = j.template := by
      rw [hfr, ← hj2, evaluateConfigName_nil env _ hcn1, addFinalizer_frame]
    rw [this]
    exact (templateDefaults_of env.cfg hok _).2

/-- After UPDATE: the same defaults except the finalizer (adding it on update would interfere
with deletion); nothing else is touched and given values are kept. -/
theorem defaults_present_update (env : Env) (j j' : Job) (h : admitted (patchUpdateJob env j) = some j') :
    j'.type_ ≠ [] ∧ (j.type_ ≠ [] → j'.type_ = j.type_) ∧
    (∀ v, j.ttl = some v → j'.ttl = some v) ∧
    (∃ t, j'.template = some t ∧ TemplateDefaults env.cfg t ∧ TemplateKept (j.template.getD {}) t) ∧
    j'.finalizers = j.finalizers ∧ j'.labels = j.labels ∧ j'.annotations = j.annotations ∧
    j'.owners = j.owners ∧ j'.configName = j.configName ∧ j'.startPolicy = j.startPolicy ∧
    j'.optionValues = j.optionValues ∧ j'.substitutions = j.substitutions ∧ j'.rest = j.rest := by
  rw [admitted_some, patchUpdateJob_eq] at h
  obtain ⟨he, ho⟩ := h
  obtain ⟨hok, hobj⟩ := mutateJob_ok env j he
  rw [← ho, hobj]
  refine ⟨?_, ?_, ?_, ⟨_, rfl, templateDefaults_of env.cfg hok _⟩, rfl, rfl, rfl, rfl, rfl, rfl, rfl, rfl, rfl⟩
  · simp only; split
    · exact defaultJobType_ne
    · assumption
  · intro hne; simp [hne]
  · intro v hv; simp [hv]

/-- JobConfigs: the template gets maxAttempts and (when configured) the pending timeout, but no
restart policy (`Facts.admJobConfigMutatesTaskTemplate = false`: task-template defaults are
added when the Job is created); Bool options get a format. -/
theorem defaults_present_jobconfig (env : Env) (c c' : JobConfig)
    (h : admitted (patchCreateJobConfig env c) = some c') :
    c'.template.maxAttempts.isSome = true ∧ c'.template.pod = c.template.pod ∧
    c'.option = c.option.map (fun os => os.map defaultingOption) ∧
    c'.tmplLabels = c.tmplLabels ∧ c'.tmplAnnotations = c.tmplAnnotations ∧ c'.policy = c.policy ∧ c'.rest = c.rest := by
  rw [admitted_some, patchCreateJobConfig_eq] at h
  obtain ⟨he, ho⟩ := h
  simp only [mutateCreateJobConfig_eq, List.nil_append] at he ho
  rw [mutateJobConfig_obj] at ho
  rw [← ho]
  obtain ⟨h1, _, _, _, _, _, h7⟩ := mutateJobTemplateSpec_values env.cfg Facts.admJobConfigMutatesTaskTemplate c.template
  have hflag : Facts.admJobConfigMutatesTaskTemplate = false := rfl
  simp only [hflag, Bool.false_eq_true, if_false] at h7
  refine ⟨?_, ?_, rfl, rfl, rfl, rfl, rfl⟩
  · simp only; rw [h1]; rfl
  · simp only; rw [hflag]; exact h7

/-! ## Part 5 — `lastUpdated` -/

/-- the `lastUpdated` written by a stamp: a value later than now is kept, else now -/
def stampedLU (env : Env) (s : Schedule) : Option Int :=
  if isTimeSetAndLaterThan s.lastUpdated env.nowNs then s.lastUpdated else some (floorSec env.nowNs)

/-- a schedule with `lastUpdated` erased -/
def eraseLU (s : Schedule) : Schedule := { s with lastUpdated := none }

theorem stamp_eq (env : Env) (s : Schedule) : stamp env s = { s with lastUpdated := stampedLU env s } := by
  unfold stamp stampedLU
  by_cases h : isTimeSetAndLaterThan s.lastUpdated env.nowNs = true
  · simp [h]
  · simp [h]

theorem scheduleChanged_iff (old : Option Schedule) (s : Schedule) :
    scheduleChanged old s = true ↔ old.map eraseLU ≠ some (eraseLU s) := by
  unfold scheduleChanged eraseLU
  cases old with
  | none => simp
  | some os =>
    obtain ⟨c1, d1, k1, l1⟩ := os
    obtain ⟨c2, d2, k2, l2⟩ := s
    simp only [bne_iff_ne, ne_eq, Option.some.injEq, Schedule.mk.injEq, Option.map_some, not_and]
    all_goals try (constructor <;> intro h hc hd hk _ <;> exact h hc.symm hd.symm hk.symm rfl)

/-- CREATE: a JobConfig with a schedule gets `lastUpdated = now` (in whole seconds; a value
that lies after now is never moved backwards), no schedule is invented, nothing else of the
schedule changes.  UPDATE: exactly the same stamp iff the schedule, ignoring `lastUpdated`,
differs from the old object's (created counts as changed); otherwise the submitted schedule,
including its `lastUpdated`, is left as it is. -/
theorem lastUpdated_stamped_iff (env : Env) (old c c' : JobConfig) :
    (admitted (patchCreateJobConfig env c) = some c' →
      c'.schedule = c.schedule.map (fun s => { s with lastUpdated := stampedLU env s })) ∧
    (admitted (patchUpdateJobConfig env old c) = some c' →
      c'.schedule = c.schedule.map (fun s =>
        if old.schedule.map eraseLU ≠ some (eraseLU s) then { s with lastUpdated := stampedLU env s } else s)) := by
  constructor
  · intro h
    rw [admitted_some, patchCreateJobConfig_eq] at h
    obtain ⟨_, ho⟩ := h
    simp only [mutateCreateJobConfig_eq] at ho
    rw [mutateJobConfig_obj] at ho
    rw [← ho]
    simp only
    cases c.schedule <;> simp [stamp_eq]
  · intro h
    rw [admitted_some, patchUpdateJobConfig_eq] at h
    obtain ⟨_, ho⟩ := h
    simp only [mutateUpdateJobConfig_eq] at ho
    rw [← ho]
    simp only
    rw [mutateJobConfig_obj]
    simp only
    cases hs : c.schedule with
    | none => rfl
    | some s =>
      simp only [Option.map_some, updateSchedule, Option.some.injEq]
      by_cases hc : scheduleChanged old.schedule s = true
      · have := (scheduleChanged_iff old.schedule s).1 hc
        simp [hc, this, stamp_eq]
      · have : ¬ (old.schedule.map eraseLU ≠ some (eraseLU s)) := fun hne => hc ((scheduleChanged_iff _ _).2 hne)
        simp [hc, this]

/-- the stamp is `now` exactly when the submitted value does not lie after now -/
theorem stampedLU_now (env : Env) (s : Schedule) (h : isTimeSetAndLaterThan s.lastUpdated env.nowNs = false) :
    stampedLU env s = some (floorSec env.nowNs) := by
  simp [stampedLU, h]

/-! ## Part 6 — patch faithfulness, relative to the JSON-patch library contract -/

section PatchFaithful
variable {α Doc Patch : Type}

/-- library contract of `gomodules.xyz/jsonpatch` (create) + `evanphx/json-patch` (apply) -/
def PatchContract (createPatch : Doc → Doc → Patch) (apply : Patch → Doc → Option Doc) : Prop :=
  ∀ a b, apply (createPatch a b) a = some b

/-- JSON round trip of the typed object (`json.Marshal` then `json.Unmarshal`) -/
def RoundTrip (enc : α → Doc) (dec : Doc → Option α) : Prop := ∀ x, dec (enc x) = some x

/-- `Webhook.Handle`'s response: no patch when rejected; otherwise the patch between the typed
re-encoding of the request and the encoding of the mutated copy (`cmp.CreateJSONPatch`) -/
def responsePatch (enc : α → Doc) (createPatch : Doc → Doc → Patch) (x : α) (r : Result α) : Option Patch :=
  if r.errors = [] then some (createPatch (enc x) (enc r.obj)) else none

/-- PARTIAL.  Given the library contract and the JSON round trip of the typed object, the
response patch applied to the typed re-encoding of the request decodes to exactly the defaulted
object, for all four operations (`patch` = any of the four patchers).
Full statement (not provable in this model, judged by the monitor `patch-faithful`): the same
with the RAW submitted bytes in place of `enc x`.  That statement is false for the code as it
is when the submitted JSON omits an object that `enc` always emits (finding F20). -/
theorem patch_faithful_partial (enc : α → Doc) (dec : Doc → Option α)
    (createPatch : Doc → Doc → Patch) (apply : Patch → Doc → Option Doc)
    (hC : PatchContract createPatch apply) (hR : RoundTrip enc dec)
    (patch : α → Result α) (x x' : α) (h : admitted (patch x) = some x') :
    ∃ p, responsePatch enc createPatch x (patch x) = some p ∧ (apply p (enc x)).bind dec = some x' := by
  rw [admitted_some] at h
  refine ⟨createPatch (enc x) (enc (patch x).obj), by simp [responsePatch, h.1], ?_⟩
  rw [hC, Option.bind_some, hR, h.2]

end PatchFaithful

/-! ## The idempotence clause in one statement -/

/-- Submitting the defaulted object again (same operation, clock, JobConfig cache, dynamic
configuration) is accepted and yields no further change — for create and update of both kinds.
(Job creation: maps compared extensionally, under the JSON library contract `ParseStable`.) -/
theorem mutate_idempotent (env : Env) (hP : ParseStable env.parseOV) :
    (∀ j j', admitted (patchCreateJob env j) = some j' →
      ∃ j'', admitted (patchCreateJob env j') = some j'' ∧ JobEq j'' j') ∧
    (∀ j j', admitted (patchUpdateJob env j) = some j' → admitted (patchUpdateJob env j') = some j') ∧
    (∀ c c', admitted (patchCreateJobConfig env c) = some c' → admitted (patchCreateJobConfig env c') = some c') ∧
    (∀ old c c', admitted (patchUpdateJobConfig env old c) = some c' →
      admitted (patchUpdateJobConfig env old c') = some c') :=
  ⟨mutate_idempotent_job_create env hP, mutate_idempotent_job_update env,
   mutate_idempotent_jobconfig_create env, mutate_idempotent_jobconfig_update env⟩

/-! ## Non-vacuity: concrete, non-trivial instances of every theorem's hypotheses -/

section Examples

/-- a JobConfig with template labels, a pod template without restart policy, a schedule and a
String option with a default -/
def exJC : JobConfig :=
  { namespace_ := ['n', 's'], name := ['j', 'c'], uid := ['u', '1'],
    tmplLabels := [(['a', 'p', 'p'], ['t'])], tmplAnnotations := [(['n'], ['t'])],
    template := { pod := some { restartPolicy := [], rest := ['r'] }, retryDelaySeconds := some 10 },
    policy := ['F', 'o', 'r', 'b', 'i', 'd'],
    schedule := some { cron := some { expression := ['*'], expressions := [], timezone := [] },
                       disabled := false, constraints := none, lastUpdated := some 1600000000 },
    option := some [{ type := .string, name := ['s'], string := some { default := ['d'] } },
                    { type := .bool, name := ['b'], bool := some { default := true, format := Facts.boolFormatDefault } }],
    optionHash := ['h'], rest := [] }

def exParse : Str → Option OVParse := fun s =>
  if s = ['{', '}'] then some { normalised := ['{', '}'], values := [] }
  else if s = ['y'] then some { normalised := ['{', '}'], values := [] }
  else none

def exEnv : Env :=
  { nowNs := 1700000000500000000,
    cfg := { ok := true, defaultTTL := some 3600, defaultPendingTimeout := some 900 },
    store := [exJC], parseOV := exParse,
    date := { parse := fun _ => none, format := fun _ _ => none } }

/-- a Job naming `exJC`, with an own finalizer, an explicit label that collides with the
template's, YAML-ish option values and an explicit substitution -/
def exJob : Job :=
  { namespace_ := ['n', 's'], createTime := 5, finalizers := [['x']],
    labels := [(['a', 'p', 'p'], ['e'])], annotations := [], owners := [],
    configName := ['j', 'c'], type_ := [], startPolicy := none, template := some {},
    optionValues := ['y'], substitutions := [(['o', 'p', 't', 'i', 'o', 'n', '.', 's'], ['e'])],
    ttl := none, rest := [] }

theorem exParse_stable : ParseStable exParse := by
  constructor
  · intro s p h
    unfold exParse at h
    split at h
    · cases h; decide
    · split at h
      · cases h; decide
      · cases h
  · intro s p h
    unfold exParse at h
    split at h
    · cases h; exact ⟨_, rfl, rfl, rfl⟩
    · split at h
      · cases h; exact ⟨_, rfl, rfl, rfl⟩
      · cases h

/-- `mutate_idempotent` (Job create), `configName_expansion`, `substitution_precedence`,
`defaults_present`: the request is accepted, names a JobConfig, and the oracle is stable -/
example : (admitted (patchCreateJob exEnv exJob)).isSome = true ∧ exJob.configName ≠ [] ∧
    ParseStable exEnv.parseOV := ⟨by decide, by decide, exParse_stable⟩

/-- and what the theorems then say on this instance (uid label, cleared configName, policy) -/
example : ∃ j', admitted (patchCreateJob exEnv exJob) = some j' ∧
    mget j'.labels Facts.admLabelUID = some ['u', '1'] ∧ j'.configName = [] ∧
    mget j'.labels ['a', 'p', 'p'] = some ['e'] := by
  have h : (admitted (patchCreateJob exEnv exJob)).isSome = true := by decide
  obtain ⟨j', hj'⟩ := Option.isSome_iff_exists.1 h
  obtain ⟨c, hl, hcn, _, _, huid, hlab, _⟩ := configName_expansion exEnv exJob j' (by decide) hj'
  have hc : c = exJC := by
    have : lookupJobConfig exEnv.store exJob.namespace_ exJob.configName = some exJC := by decide
    rw [this] at hl; exact (Option.some.inj hl).symm
  subst hc
  refine ⟨j', hj', huid, hcn, ?_⟩
  rw [hlab _ (by decide)]
  decide

/-- `mutate_idempotent` / `defaults_present_update` (Job update) -/
example : (admitted (patchUpdateJob exEnv exJob)).isSome = true := by decide

/-- a load error of the dynamic configuration rejects (the hypotheses are not always true) -/
example : admitted (patchUpdateJob { exEnv with cfg := { ok := false } } exJob) = none := by decide

/-- `lastUpdated_stamped_iff`, `mutate_idempotent` (JobConfig create): accepted, stamped with now -/
example : ∃ c', admitted (patchCreateJobConfig exEnv exJC) = some c' ∧
    c'.schedule.map (·.lastUpdated) = some (some 1700000000) := by
  have h : (admitted (patchCreateJobConfig exEnv exJC)).isSome = true := by decide
  obtain ⟨c', hc'⟩ := Option.isSome_iff_exists.1 h
  refine ⟨c', hc', ?_⟩
  rw [(lastUpdated_stamped_iff exEnv exJC exJC c').1 hc']
  decide

/-- `defaults_present_jobconfig`: a Bool option submitted without a config gets its format -/
example : (admitted (patchCreateJobConfig exEnv
    { exJC with option := some [{ type := .bool, name := ['b'], bool := none }] })).map (·.option) =
    some (some [{ type := .bool, name := ['b'], bool := some { format := Facts.boolFormatDefault } }]) := by
  decide

/-- `lastUpdated_stamped_iff`, `mutate_idempotent` (JobConfig update): a changed schedule is
stamped, an unchanged one keeps its `lastUpdated` -/
example :
    (admitted (patchUpdateJobConfig exEnv exJC
      { exJC with schedule := exJC.schedule.map fun s => { s with disabled := true } })).isSome = true ∧
    (admitted (patchUpdateJobConfig exEnv exJC exJC)).isSome = true := ⟨by decide, by decide⟩

/-- `patch_faithful_partial`: a (trivial) patch library satisfying the contract -/
example : PatchContract (fun (_ b : Job) => b) (fun p _ => some p) ∧ RoundTrip (id : Job → Job) some ∧
    (admitted (patchCreateJob exEnv exJob)).isSome = true :=
  ⟨fun _ _ => rfl, fun _ => rfl, by decide⟩

end Examples

end Furiko.Props.C16
