/-
C11 — known finding F29: FLAPPING POD STATUS changes the result and the finish time of a FINISHED Job.

C11 says that, unless the user edits or deletes it, the recorded result and finish time of a finished Job
never change, over histories that include "flapping pod status".  The stability theorems of
`Props/C11Hist.lean` are proved under the kubelet contract `KubeletOK` (`E-PodTerminalImmutable`: a pod
never leaves a terminal phase), which excludes exactly such histories.  Without it the clause is FALSE on
the model, and — the model agreeing with the code line by line on the replay — on the real controller
(corpus scenarios `f29-flap-after-finish-changes-result`, `f29b-flap-after-success-fails-job`).

Mechanism (`GetTaskRef`): a finished ref that is seen unfinished again keeps its finish time but takes
`Status` from the pod (pinned by the upstream test "existing task transitioned from finished back to
running"); the guard of fix 6ab84c2 ("keep the final status that was recorded") looks at
`existing.Status.State`, which the flap has just overwritten, so the next terminal observation is taken
as the task's outcome; and the aggregation (`getIndexStatus`) counts finished attempts by
`FinishTimestamp` while it reads success from `Status.Result`.
-/
import FurikoModel.Props.SideCommon

namespace Furiko.Props.C11Side
open Furiko Furiko.JobCtl Furiko.Props.Side

-- the equalities below compare nested tuples; their `DecidableEq` instances exceed the default search size
set_option synthInstance.maxSize 1024

/-! ### Failed (t1) → Running → Succeeded (t2): Finished/Failed(t1) becomes Finished/Success(t2) -/

/-- from `Ex.tA` (one attempt; `job-h-0` created and recorded): the creation event is delivered; at 10 s
the pod is reported Failed (container terminated at 10 s); the pass records it: Finished / Failed (10 s) -/
def flapRun1 : List Action :=
  [.deliverPod, .advance (sec 10),
   .kubelet (withStatus (podOf Ex.tA "job-h-0") .failed (some 0)
     [{ terminated := some { startedAt := some 0, finishedAt := some (secs 10) } }]),
   .deliverPod, .work, .deliverJob]
def flapK1 : Sys := runActs Ex.tA flapRun1

/-- the pod status FLAPS: Running again (outside `KubeletOK`) -/
def flapPod : PodObj := withStatus (podOf flapK1 "job-h-0") .running (some 0) [{ running := some (some (secs 15)) }]
def flapRun2 : List Action := [.advance (sec 5), .kubelet flapPod, .deliverPod, .work, .deliverJob]
def flapK2 : Sys := runActs flapK1 flapRun2

/-- … and at 20 s the pod is reported Succeeded -/
def flapRun3 : List Action :=
  [.advance (sec 5),
   .kubelet (withStatus (podOf flapK2 "job-h-0") .succeeded (some 0)
     [{ terminated := some { startedAt := some (secs 15), finishedAt := some (secs 20) } }]),
   .deliverPod, .work]
def flapK3 : Sys := runActs flapK2 flapRun3

/-- witness (F29, first history).  `flapK1` is reachable with every action allowed and the Job is
Finished / Failed with finish time 10 s, the ref Terminated / Failed (10 s).  The flap is the ONLY step
outside the kubelet contract (`¬ Allowed`).  After it the Job is still Finished / Failed (10 s) but the ref
reads Running with finish time 10 s (its recorded outcome survives only in `deletedStatus`); after the
pod is reported Succeeded at 20 s the ref is Terminated / Succeeded (20 s) and the finished Job has been
REWRITTEN: Finished / Success, finish time 20 s.  No user action, no fault, no informer lag. -/
theorem flap_changes_result_witness :
    Reach anyAction Ex.job1 flapK1 ∧
    ¬ Allowed Ex.job1 (step flapK1 (.advance (sec 5))) (.kubelet flapPod) ∧
    (jobView flapK1 = some ("Failed", false, 1, some (.failed, some (secs 10))) ∧
      refsView flapK1 = [("job-h-0", .terminated, .failed, none, some (secs 10))] ∧
      marksView flapK1 = [some (.terminated, .failed, "")]) ∧
    (jobView flapK2 = some ("Failed", false, 1, some (.failed, some (secs 10))) ∧
      refsView flapK2 = [("job-h-0", .running, .none, some (secs 15), some (secs 10))] ∧
      marksView flapK2 = [some (.terminated, .failed, "")]) ∧
    (jobView flapK3 = some ("Succeeded", false, 1, some (.success, some (secs 20))) ∧
      refsView flapK3 = [("job-h-0", .terminated, .succeeded, some (secs 15), some (secs 20))] ∧
      marksView flapK3 = [some (.terminated, .succeeded, "")]) :=
  ⟨reach_run (Ex.tA_reach.mono (fun _ _ _ => trivial)) flapRun1 (by decide +kernel), by decide +kernel,
    ⟨by decide +kernel, by decide +kernel, by decide +kernel⟩, ⟨by decide +kernel, by decide +kernel, by decide +kernel⟩,
    ⟨by decide +kernel, by decide +kernel, by decide +kernel⟩⟩

/-! ### Succeeded (t1) → Running: Finished/Success becomes Finished/Failed at the flap itself -/

def flapBRun1 : List Action :=
  [.deliverPod, .advance (sec 10),
   .kubelet (withStatus (podOf Ex.tA "job-h-0") .succeeded (some 0)
     [{ terminated := some { startedAt := some 0, finishedAt := some (secs 10) } }]),
   .deliverPod, .work, .deliverJob]
def flapBK1 : Sys := runActs Ex.tA flapBRun1
def flapBPod : PodObj := withStatus (podOf flapBK1 "job-h-0") .running (some 0) [{ running := some (some (secs 15)) }]
def flapBRun2 : List Action := [.advance (sec 5), .kubelet flapBPod, .deliverPod, .work]
def flapBK2 : Sys := runActs flapBK1 flapBRun2

/-- witness (F29, second history; this one is NOT removed by a guard in `GetTaskRef` keyed on the
recorded status, because the step that changes the result is the one the upstream test pins): the Job is
Finished / Success (10 s); the pod status flaps to Running; the ref keeps the finish time and reads
Running without result; one attempt finished, none succeeded, `maxAttempts` 1: the finished Job is
rewritten Finished / FAILED. -/
theorem flap_after_success_fails_job_witness :
    Reach anyAction Ex.job1 flapBK1 ∧
    ¬ Allowed Ex.job1 (step flapBK1 (.advance (sec 5))) (.kubelet flapBPod) ∧
    (jobView flapBK1 = some ("Succeeded", false, 1, some (.success, some (secs 10))) ∧
      refsView flapBK1 = [("job-h-0", .terminated, .succeeded, none, some (secs 10))] ∧
      marksView flapBK1 = [some (.terminated, .succeeded, "")]) ∧
    (jobView flapBK2 = some ("Failed", false, 1, some (.failed, some (secs 10))) ∧
      refsView flapBK2 = [("job-h-0", .running, .none, some (secs 15), some (secs 10))] ∧
      marksView flapBK2 = [some (.terminated, .succeeded, "")]) :=
  ⟨reach_run (Ex.tA_reach.mono (fun _ _ _ => trivial)) flapBRun1 (by decide +kernel), by decide +kernel,
    ⟨by decide +kernel, by decide +kernel, by decide +kernel⟩, ⟨by decide +kernel, by decide +kernel, by decide +kernel⟩⟩

end Furiko.Props.C11Side
