/-
C06 property theorems: concurrency policies of the per-JobConfig pass (Forbid rejects, Enqueue
waits in FIFO order, Allow starts), abort on error, completeness of an ok pass, resync.
All statements are about the functions of `Model/Queue.lean` for every input.
-/
import FurikoModel.Proofs.QueueCor
import FurikoModel.Proofs.QueueSys

set_option linter.unusedSimpArgs false
set_option linter.unusedVariables false

namespace Furiko.Props.C06
open Furiko Furiko.Queue Furiko.WQ Furiko.Queue.Scen

/-! ### 1. Forbid over the limit is rejected, never started -/

/-- `canStartJob` on a due Forbid Job over the limit: never `start`; exactly one call is appended
and it is a `reject` of that Job; the verdict is `skip` exactly when the write was applied and
acknowledged (`res = "ok"` and no `applied-err` fault); an applied rejection sets the
admission-error annotation on the authoritative Job and keeps its `startTime`/`terminal`. -/
theorem forbid_rejected (s : Sys) (jc : JCV) (j : JobV) (ac : Int)
    (h1 : j.hasPolicy = true) (h2 : j.policy = 1) (h3 : ac + 1 > jc.maxConc)
    (h4 : startAfterLater j s.clock = false) :
    (canStartJob s jc j ac).2 ≠ .start ∧
    ∃ res, (canStartJob s jc j ac).1.calls = s.calls ++ [⟨"reject", j.name, res⟩] ∧
      ((canStartJob s jc j ac).2 = .skip ↔ (res = "ok" ∧ nextFault s ≠ "applied-err")) ∧
      (res ≠ "ok" → (canStartJob s jc j ac).1.jobs = s.jobs) ∧
      (res = "ok" → ∃ cur a, findJob s.jobs j.name = some cur ∧ cur.rv = j.rv ∧
          findJob (canStartJob s jc j ac).1.jobs j.name = some a ∧
          a.admErr = true ∧ a.startTime = cur.startTime ∧ a.terminal = cur.terminal) := by
  rcases canStartJob_forbid s jc j ac h1 h2 h3 h4 with ⟨res, hres, _, heq⟩ |
      ⟨cur, hf, hrv, _, _, heq⟩ | ⟨cur, hf, hrv, _, hnoop, heq⟩
  · rw [heq]
    exact ⟨by simp, res, rfl, by simp [hres], fun _ => rfl, fun h => absurd h hres⟩
  · rw [heq]
    refine ⟨by split <;> simp, "ok", rfl, by split <;> simp_all, fun h => absurd rfl h,
      fun _ => ⟨cur, rejectedJob s (rejMsg jc ac) j cur, hf, hrv, ?_, rfl, rfl, rfl⟩⟩
    have hn : (rejectedJob s (rejMsg jc ac) j cur).name = j.name :=
      (findJob_some_name hf : cur.name = j.name)
    simp [applyWrite, findJob_setJob, hn]
  · -- the write is a no-op: the authoritative Job already carries this rejection
    rw [heq]
    exact ⟨by split <;> simp, "ok", rfl, by split <;> simp_all, fun h => absurd rfl h,
      fun _ => ⟨cur, cur, hf, hrv, hf, rejectF_fix_admErr hnoop, rfl, rfl⟩⟩

/-- non-vacuous: Forbid Job `b` with one active Job under limit 1 is rejected and annotated -/
example :
    let jb : JobV := { mk "b" true 1 none with rv := 3 }
    findJob s4.jobCache "b" = some jb ∧
    (canStartJob s4 (jcN 1) jb 1).2 = .skip ∧
    (canStartJob s4 (jcN 1) jb 1).1.calls = s4.calls ++ [⟨"reject", "b", "ok"⟩] ∧
    ((findJob (canStartJob s4 (jcN 1) jb 1).1.jobs "b").map (·.admErr)) = some true := by decide

/-- the naive "verdict = skip iff the logged result is ok" is FALSE in the model: with the fault
`applied-err` the write is applied and logged `"ok"`, yet `RejectJob` returns an error and the
verdict is `error` (the pass aborts) -/
example :
    let jb : JobV := { mk "b" true 1 none with rv := 3 }
    let s := { s4 with faults := ["applied-err"] }
    (canStartJob s (jcN 1) jb 1).2 = .error ∧
    (canStartJob s (jcN 1) jb 1).1.calls = s.calls ++ [⟨"reject", "b", "ok"⟩] ∧
    ((findJob (canStartJob s (jcN 1) jb 1).1.jobs "b").map (·.admErr)) = some true := by decide

/-- rejecting a Job that already carries this very rejection (same message, nothing else to
change) is a no-op at the API: the call is logged "ok" and the verdict is as for an applied
write, but there is no new resourceVersion, no watch event, and the Jobs are untouched -/
theorem forbid_rejected_again_noop (s : Sys) (jc : JCV) (j cur : JobV) (ac : Int)
    (h1 : j.hasPolicy = true) (h2 : j.policy = 1) (h3 : ac + 1 > jc.maxConc)
    (h4 : startAfterLater j s.clock = false)
    (hf : findJob s.jobs j.name = some cur) (hrv : cur.rv = j.rv) (hnb : ¬ faultBlocks s)
    (hfix : rejectF (jc.name, ac) j cur = cur) :
    (canStartJob s jc j ac).1.calls = s.calls ++ [⟨"reject", j.name, "ok"⟩] ∧
    ((canStartJob s jc j ac).2 = .skip ↔ nextFault s ≠ "applied-err") ∧
    (canStartJob s jc j ac).1.jobs = s.jobs ∧ (canStartJob s jc j ac).1.rv = s.rv ∧
    (canStartJob s jc j ac).1.jobEvs = s.jobEvs ∧ cur.admErr = true := by
  have hfin : canStartJob s jc j ac = (failWrite s "reject" j.name "ok",
      if nextFault s = "applied-err" then .error else .skip) := by
    rcases canStartJob_forbid s jc j ac h1 h2 h3 h4 with ⟨res, _, hwhy, _⟩ |
        ⟨cur', hf', _, _, hne, _⟩ | ⟨_, _, _, _, _, heq⟩
    · rcases hwhy with h | h | ⟨c, hc, hne⟩
      · exact absurd h hnb
      · rw [hf] at h; cases h
      · rw [hf] at hc; cases hc; exact absurd hrv hne
    · rw [hf] at hf'; cases hf'; exact absurd hfix hne
    · exact heq
  rw [hfin]
  refine ⟨rfl, by split <;> simp_all, rfl, rfl, rfl, rejectF_fix_admErr hfix⟩

/-! ### 2. a rejected Job is not started in the same pass -/

/-- the new calls of a pass name Jobs of the list, at most one call per list position, in list
order -/
theorem pass_calls_sublist (jc : JCV) (rjs : List JobV) (s : Sys) (ac : Int) :
    ∃ cs, (passLoop jc rjs s ac).1.calls = s.calls ++ cs ∧
      (cs.map (·.job)).Sublist (rjs.map (·.name)) := by
  obtain ⟨cs, acf, h1, h2, _⟩ := passLoop_Run jc rjs s ac
  exact ⟨cs, h1, h2.sublist⟩

/-- with distinct names, a Job gets at most one call per pass -/
theorem pass_one_call (jc : JCV) (rjs : List JobV) (s : Sys) (ac : Int)
    (hnd : (rjs.map (·.name)).Nodup) (cs : List Call)
    (hcs : (passLoop jc rjs s ac).1.calls = s.calls ++ cs) (c1 c2 : Call)
    (h1 : c1 ∈ cs) (h2 : c2 ∈ cs) (hj : c1.job = c2.job) : c1 = c2 := by
  obtain ⟨acf, hr, _⟩ := passLoop_Run_of_calls hcs
  exact hr.one_call hnd h1 h2 hj

theorem rejected_never_started_in_pass (s : Sys) (hnd : (names s.jobCache).Nodup)
    (n r r' : String) (hrej : ⟨"reject", n, r⟩ ∈ (workConfig s).1.calls) :
    ⟨"start", n, r'⟩ ∉ (workConfig s).1.calls := by
  intro hst
  rcases workConfig_Run s with ⟨h, _⟩ | ⟨jc, ok, acf, hr, _⟩
  · rw [h] at hrej; simp at hrej
  · have := hr.one_call (nodup_names_listQueued jc hnd) hrej hst rfl
    simp at this

example : (names s4.jobCache).Nodup ∧ ⟨"reject", "b", "ok"⟩ ∈ (workConfig s4).1.calls ∧
    ∀ r', ⟨"start", "b", r'⟩ ∉ (workConfig s4).1.calls :=
  ⟨by decide, by decide, fun r' => rejected_never_started_in_pass s4 (by decide) "b" "ok" r' (by decide)⟩

/-! ### 3. only Forbid Jobs are rejected -/

theorem enqueue_never_rejected (s : Sys) (c : Call) (hc : c ∈ (workConfig s).1.calls)
    (hv : c.verb = "reject") :
    ∃ j ∈ s.jobCache, j.name = c.job ∧ j.hasPolicy = true ∧ j.policy = 1 ∧ j.isQueued = true := by
  rcases workConfig_Run s with ⟨h, _⟩ | ⟨jc, ok, acf, hr, _⟩
  · rw [h] at hc; simp at hc
  · obtain ⟨j, hj, hn, ac', _, ⟨_, hp, hpol, _, _⟩ | ⟨hs, _⟩⟩ := hr.call_spec c hc
    · have hm := mem_listQueued.mp hj
      exact ⟨j, hm.1, hn.symm, hp, hpol, hm.2.2⟩
    · rw [hv] at hs; exact absurd hs (by decide)

example : (⟨"reject", "b", "ok"⟩ : Call) ∈ (workConfig s4).1.calls ∧
    (findJob s4.jobCache "b").map (·.policy) = some 1 := by decide

/-- a due Enqueue Job over the limit is skipped without any effect -/
theorem enqueue_over_limit_waits (s : Sys) (jc : JCV) (j : JobV) (ac : Int)
    (h1 : j.hasPolicy = true) (h2 : j.policy = 2) (h3 : ac + 1 > jc.maxConc)
    (h4 : startAfterLater j s.clock = false) : canStartJob s jc j ac = (s, .skip) := by
  rcases canStartJob_cases s jc j ac with ⟨h, heq⟩ | ⟨h, hl, heq⟩ | ⟨h, hl, hpol, hlim, heq⟩ |
      ⟨h, hl, hpol, hlim, heq⟩ | ⟨h, hl, hn, heq⟩
  · rw [h1] at h; cases h
  · rw [h4] at hl; cases hl
  · omega
  · exact heq
  · exact absurd ⟨Or.inr h2, h3⟩ hn

example : (canStartJob s4 (jcN 1) (mk "c" true 2 none) 1).2 = .skip := by decide

/-! ### 4. Allow always starts -/

theorem allow_always_starts (s : Sys) (jc : JCV) (j : JobV) (ac : Int)
    (h : j.hasPolicy = false ∨
      (j.policy ≠ 1 ∧ j.policy ≠ 2 ∧ startAfterLater j s.clock = false)) :
    canStartJob s jc j ac = (s, .start) := by
  rcases canStartJob_cases s jc j ac with ⟨_, heq⟩ | ⟨hp, hl, _⟩ | ⟨hp, _, hpol, _⟩ |
      ⟨hp, _, hpol, _⟩ | ⟨_, _, _, heq⟩
  · exact heq
  · rcases h with h | ⟨_, _, h⟩
    · rw [hp] at h; cases h
    · rw [hl] at h; cases h
  · rcases h with h | ⟨h, _⟩
    · rw [hp] at h; cases h
    · exact absurd hpol h
  · rcases h with h | ⟨_, h, _⟩
    · rw [hp] at h; cases h
    · exact absurd hpol h
  · exact heq

example : (canStartJob s4 (jcN 1) (mk "d" false 0 none) 100).2 = .start ∧
    (canStartJob s4 (jcN 1) (mk "d" true 0 none) 100).2 = .start := by decide

/-! ### 5. Enqueue is FIFO -/

/-- within one pass: if a later Enqueue Job is started, so is every earlier due Enqueue Job -/
theorem enqueue_fifo (jc : JCV) (l1 l2 l3 : List JobV) (A B : JobV) (s : Sys) (ac : Int)
    (hnd : ((l1 ++ A :: l2 ++ B :: l3).map (·.name)).Nodup)
    (hA1 : A.hasPolicy = true) (hA2 : A.policy = 2) (hA3 : startAfterLater A s.clock = false)
    (hB1 : B.hasPolicy = true) (hB2 : B.policy = 2) (cs : List Call)
    (hcs : (passLoop jc (l1 ++ A :: l2 ++ B :: l3) s ac).1.calls = s.calls ++ cs)
    (hs : ⟨"start", B.name, "ok"⟩ ∈ cs) : ⟨"start", A.name, "ok"⟩ ∈ cs := by
  obtain ⟨acf, hr, _⟩ := passLoop_Run_of_calls hcs
  exact Run.fifo hA1 hA2 hA3 hB1 hB2 hnd hr hs

/-- `syncConfig`: order derived from the creation time of the cached queued Jobs -/
theorem enqueue_fifo_sync (s : Sys) (name : String) (jc : JCV) (A B : JobV)
    (hjc : findJC s.jcCache name = some jc) (hnd : (names s.jobCache).Nodup)
    (hA : A ∈ listQueued s.jobCache jc) (hB : B ∈ listQueued s.jobCache jc)
    (hlt : A.created < B.created)
    (hA1 : A.hasPolicy = true) (hA2 : A.policy = 2) (hA3 : startAfterLater A s.clock = false)
    (hB1 : B.hasPolicy = true) (hB2 : B.policy = 2) (cs : List Call)
    (hcs : (syncConfig s name).1.calls = s.calls ++ cs)
    (hs : ⟨"start", B.name, "ok"⟩ ∈ cs) : ⟨"start", A.name, "ok"⟩ ∈ cs := by
  obtain ⟨acf, hr, _⟩ := syncConfig_Run hjc hcs
  exact Run.fifo_sorted (listQueued_sorted _ _) (nodup_names_listQueued jc hnd) hA hB hlt
    hA1 hA2 hA3 hB1 hB2 hr hs

/-- `workConfig`: the same on the step's call log -/
theorem enqueue_fifo_work (s : Sys) (k : String) (q1 : WQ) (jc : JCV) (A B : JobV)
    (hg : (s.cfgQ.advance s.clock).get = some (k, q1))
    (hjc : findJC s.jcCache (keyName k) = some jc) (hnd : (names s.jobCache).Nodup)
    (hA : A ∈ listQueued s.jobCache jc) (hB : B ∈ listQueued s.jobCache jc)
    (hlt : A.created < B.created)
    (hA1 : A.hasPolicy = true) (hA2 : A.policy = 2) (hA3 : startAfterLater A s.clock = false)
    (hB1 : B.hasPolicy = true) (hB2 : B.policy = 2)
    (hs : ⟨"start", B.name, "ok"⟩ ∈ (workConfig s).1.calls) :
    ⟨"start", A.name, "ok"⟩ ∈ (workConfig s).1.calls :=
  enqueue_fifo_sync (cfgPre s q1) (keyName k) jc A B hjc hnd hA hB hlt hA1 hA2 hA3 hB1 hB2 _
    (workConfig_sync hg).1 hs

/-- non-vacuous: `a` (created 0 s) and `b` (created 2 s), both Enqueue under limit 2: both start -/
example :
    let A : JobV := { mk "a" true 2 none with rv := 2 }
    let B : JobV := { mk "b" true 2 none with rv := 3, created := 2 }
    (s2.cfgQ.advance s2.clock).get.map (·.1) = some "ns/c" ∧
    findJC s2.jcCache (keyName "ns/c") = some { jcN 2 with rv := 1 } ∧
    A ∈ listQueued s2.jobCache (jcN 2) ∧ B ∈ listQueued s2.jobCache (jcN 2) ∧
    ⟨"start", "b", "ok"⟩ ∈ (workConfig s2).1.calls ∧
    ⟨"start", "a", "ok"⟩ ∈ (workConfig s2).1.calls := by decide

/-- non-vacuous for `canStartJob`/limit: under limit 1 the later Enqueue Job `c` is NOT started -/
example : (⟨"start", "c", "ok"⟩ : Call) ∉ (workConfig s4).1.calls := by decide

/-! ### 6. abort on error -/

/-- new calls of a pass: a call that is not `"ok"` is the last one; an ok pass logged only
`"ok"`; an aborted pass stopped at a Job `j`: all earlier calls are `"ok"` calls for Jobs before
`j`, and `j` contributed the last call or none (CAS failure); nothing after `j` was touched. -/
theorem abort_on_error_keeps_order (jc : JCV) (rjs : List JobV) (s : Sys) (ac : Int)
    (cs : List Call) (hcs : (passLoop jc rjs s ac).1.calls = s.calls ++ cs) :
    (∀ pre c post, cs = pre ++ c :: post → c.res ≠ "ok" → post = []) ∧
    ((passLoop jc rjs s ac).2 = true → ∀ c ∈ cs, c.res = "ok") ∧
    ((passLoop jc rjs s ac).2 = false →
      ∃ l1 j l2 cs1, rjs = l1 ++ j :: l2 ∧
        (∀ c ∈ cs1, c.res = "ok" ∧ c.job ∈ l1.map (·.name)) ∧
        (cs = cs1 ∨ ∃ v r, cs = cs1 ++ [⟨v, j.name, r⟩])) := by
  obtain ⟨acf, hr, _⟩ := passLoop_Run_of_calls hcs
  refine ⟨hr.abort, hr.ok_all, fun hf => ?_⟩
  obtain ⟨l1, j, l2, cs1, hl, hr1, hc⟩ := hr.false_stop hf
  refine ⟨l1, j, l2, cs1, hl, fun c hc' => ⟨hr1.ok_all rfl c hc', hr1.job_mem hc'⟩, ?_⟩
  rcases hc with ⟨h, _⟩ | h
  · exact Or.inl h
  · exact Or.inr h

/-- worker step: "ok" ⇒ every call is `"ok"` -/
theorem work_ok_all_ok (s : Sys) (hok : (workConfig s).2 = "ok") :
    ∀ c ∈ (workConfig s).1.calls, c.res = "ok" := by
  rcases workConfig_Run s with ⟨h, _⟩ | ⟨jc, ok, acf, hr, hres, _⟩
  · rw [h]; simp
  · cases ok with
    | true => exact hr.ok_all rfl
    | false => rw [hres] at hok; simp at hok

/-- worker step: nothing follows a call that is not `"ok"` -/
theorem work_abort (s : Sys) (pre : List Call) (c : Call) (post : List Call)
    (h : (workConfig s).1.calls = pre ++ c :: post) (hne : c.res ≠ "ok") : post = [] := by
  rcases workConfig_Run s with ⟨h0, _⟩ | ⟨jc, ok, acf, hr, _⟩
  · rw [h0] at h; simp at h
  · exact hr.abort pre c post h hne

/-- worker step: "err" ⇒ the pass did log a call (the counter argument is accurate, so the CAS
cannot fail) -/
theorem work_err_has_call (s : Sys) (herr : (workConfig s).2 = "err") :
    (workConfig s).1.calls ≠ [] := by
  rcases workConfig_cases s with ⟨_, h, _⟩ | ⟨k, q1, jc, hg, hjc⟩
  · exact absurd herr h
  · obtain ⟨s1, ok, hp, hw⟩ := workConfig_Pass hg hjc
    rw [hw] at herr ⊢
    cases ok with
    | true => simp at herr
    | false => exact hp.no_cas_fail rfl rfl

example : (workConfig s4).2 = "ok" ∧ (workConfig s4).1.calls.map (·.res) = ["ok", "ok", "ok"] := by
  decide

/-- the first write fails: the pass stops there although three more Jobs are queued -/
example : (workConfig s4err).2 = "err" ∧
    (workConfig s4err).1.calls = [⟨"start", "a", "err"⟩] := by decide

/-! ### 7. an ok pass leaves no startable Job behind -/

/-- `syncConfig` returned nil: every cached queued Job of the JobConfig that is due was started
(Allow: always; Enqueue: unless the limit is reached at the end of the pass; Forbid: unless it
was rejected), and the authoritative state shows it. -/
theorem pass_leaves_no_startable (s : Sys) (name : String) (jc : JCV) (s' : Sys)
    (hs : syncConfig s name = (s', true)) (hjc : findJC s.jcCache name = some jc) :
    ∃ cs, s'.calls = s.calls ++ cs ∧
      ∀ j ∈ listQueued s.jobCache jc, due j s.clock →
        let started := ⟨"start", j.name, "ok"⟩ ∈ cs ∧
          ∃ a, findJob s'.jobs j.name = some a ∧ a.startTime = some (s.clock / 1000000000)
        ((j.hasPolicy = false ∨ (j.policy ≠ 1 ∧ j.policy ≠ 2)) → started) ∧
        ((j.hasPolicy = true ∧ j.policy = 2) →
          started ∨ getCtr s'.counter jc.uid + 1 > jc.maxConc) ∧
        ((j.hasPolicy = true ∧ j.policy = 1) →
          started ∨ (⟨"reject", j.name, "ok"⟩ ∈ cs ∧
            ∃ a, findJob s'.jobs j.name = some a ∧ a.admErr = true)) := by
  obtain ⟨cs, hcs⟩ := syncConfig_calls s name
  obtain ⟨acf, hr, hacf, hfr, hw⟩ := syncConfig_Run hjc hcs
  rw [hs] at hcs hr hacf hfr hw
  refine ⟨cs, hcs, fun j hj hdue => ?_⟩
  have hst : ⟨"start", j.name, "ok"⟩ ∈ cs → ⟨"start", j.name, "ok"⟩ ∈ cs ∧
      ∃ a, findJob s'.jobs j.name = some a ∧ a.startTime = some (s.clock / 1000000000) := by
    intro hm
    obtain ⟨a, ha, h1, _⟩ := hw _ hm rfl
    exact ⟨hm, a, ha, by rw [← hfr.clock]; exact h1 rfl⟩
  rcases hr.complete rfl j hj hdue with h | ⟨hp, hpol, hov⟩ | ⟨hp, hpol, hrej⟩
  · exact ⟨fun _ => hst h, fun _ => Or.inl (hst h), fun _ => Or.inl (hst h)⟩
  · refine ⟨fun h => ?_, fun _ => Or.inr (by rw [← hacf]; exact hov), fun h => ?_⟩
    · rcases h with h | h
      · rw [hp] at h; cases h
      · exact absurd hpol h.2
    · omega
  · refine ⟨fun h => ?_, fun h => ?_, fun _ => Or.inr ⟨hrej, ?_⟩⟩
    · rcases h with h | h
      · rw [hp] at h; cases h
      · exact absurd hpol h.1
    · omega
    · obtain ⟨a, ha, _, h2⟩ := hw _ hrej rfl
      exact ⟨a, ha, h2 rfl⟩

/-- non-vacuous: in `s4` the ok pass starts `a` and `d`, rejects `b`, leaves `c` waiting with the
counter at the limit -/
example :
    let r := syncConfig s4 "c"
    r.2 = true ∧ (listQueued s4.jobCache (jcN 1)).map (·.name) = ["a", "b", "c", "d"] ∧
    (r.1.jobs.map (fun j => (j.name, j.startTime.isSome, j.admErr))) =
      [("a", true, false), ("b", false, true), ("c", false, false), ("d", true, false)] ∧
    getCtr r.1.counter "u" = 2 := by decide

/-- liveness half: without faults and with the cache equal to the authoritative Jobs, a pass
cannot fail (earlier writes of the pass touch other names; the CAS always succeeds) -/
theorem quiet_pass_ok (s : Sys) (name : String) (hf : s.faults = [])
    (hcache : s.jobCache = s.jobs) (hnd : (names s.jobCache).Nodup) :
    (syncConfig s name).2 = true :=
  syncConfig_quiet s name hf hcache hnd

example : s4.faults = [] ∧ s4.jobCache = s4.jobs ∧ (names s4.jobCache).Nodup ∧
    (syncConfig s4 "c").1.calls.length = 3 := by decide

/-! ### 8. resync wakes every cached Job's key -/

theorem drain_empties (s : Sys) : (drainCtrl s).ctrlQ = [] := drainCtrl_empty s

/-- after a resync and the controller's handler running on all pending notifications, the key of
every cached Job's JobConfig (or of the Job itself when independent) is dirty -/
theorem resync_wakes_all (s : Sys) (j : JobV) (hj : j ∈ s.jobCache) :
    (∀ jc, lookupOwner s.jcCache j = some (some jc) →
      ("ns/" ++ jc.name) ∈ (drainCtrl (resync s)).cfgQ.dirty) ∧
    (lookupOwner s.jcCache j = some none →
      ("ns/" ++ j.name) ∈ (drainCtrl (resync s)).indQ.dirty) :=
  drainCtrl_wakes (resync s) (.update j j) (by simp [resync, hj])

/-- and the woken keys are really scheduled: with the work-queue invariant "dirty ⊆ queue ∪
processing" before, the key is in `queue` or `processing` afterwards -/
theorem resync_wakes_queued (s : Sys) (j : JobV) (hj : j ∈ s.jobCache)
    (h1 : DirtyQueued s.cfgQ) (h2 : DirtyQueued s.indQ) :
    (∀ jc, lookupOwner s.jcCache j = some (some jc) →
      ("ns/" ++ jc.name) ∈ (drainCtrl (resync s)).cfgQ.queue ∨
      ("ns/" ++ jc.name) ∈ (drainCtrl (resync s)).cfgQ.processing) ∧
    (lookupOwner s.jcCache j = some none →
      ("ns/" ++ j.name) ∈ (drainCtrl (resync s)).indQ.queue ∨
      ("ns/" ++ j.name) ∈ (drainCtrl (resync s)).indQ.processing) := by
  obtain ⟨a, b⟩ := dirtyQueued_drainN (resync s).ctrlQ.length (s := resync s) h1 h2
  obtain ⟨w1, w2⟩ := resync_wakes_all s j hj
  exact ⟨fun jc h => a _ (w1 jc h), fun h => b _ (w2 h)⟩

/-- non-vacuous: after the step the queue is clean; resync makes `ns/c` dirty again -/
example :
    let s := (workConfig s4).1
    s.cfgQ.dirty = [] ∧ (s.jobCache.map (·.name)) = ["a", "b", "c", "d"] ∧
    (s.jobCache.map (lookupOwner s.jcCache)).all (· == some (some { jcN 1 with rv := 1 })) = true ∧
    (drainCtrl (resync s)).cfgQ.dirty = ["ns/c"] ∧ (drainCtrl (resync s)).cfgQ.queue = ["ns/c"] := by
  decide

example : DirtyQueued (workConfig s4).1.cfgQ ∧ DirtyQueued (workConfig s4).1.indQ ∧
    DirtyQueued s4.cfgQ ∧ s4.cfgQ.dirty = ["ns/c"] := by
  unfold DirtyQueued; decide


/-! ### 9. reachable-state corollaries (envelope and `Reachable`: `Proofs/QueueEnv.lean`) -/

/-- concrete reachable histories for the examples below: JobConfig `c` (limit 1), Forbid Job `a`
started, Forbid Job `b` created and delivered -/
def jcC : JCV := { name := "c", uid := "u", maxConc := 1, rv := 0 }
def flush : List Act := [.deliverJob, .notifyStore, .notifyCtrl]
def histAB : List Act :=
  [.addJC jcC, .deliverJC, .addJob (mk "a" true 1 none)] ++ flush ++ [.workConfig] ++ flush ++
  [.addJob (mk "b" true 1 none)] ++ flush
def sAB : Sys := runActs {} histAB
theorem sAB_reachable : Reachable sAB := reachable_runB _ (by decide)

/-- `rejected_never_started_in_pass`, `enqueue_fifo_work` need distinct names in the cache: true in
every reachable state -/
theorem reachable_cache_nodup {s : Sys} (h : Reachable s) : (names s.jobCache).Nodup :=
  h.inv.cacheNodup

/-- `rejected_never_started_in_pass` on reachable states -/
theorem rejected_never_started_reachable {s : Sys} (h : Reachable s) (n r r' : String)
    (hrej : ⟨"reject", n, r⟩ ∈ (workConfig s).1.calls) :
    ⟨"start", n, r'⟩ ∉ (workConfig s).1.calls :=
  rejected_never_started_in_pass s h.inv.cacheNodup n r r' hrej

/-- `enqueue_fifo` on reachable states: in any worker step, if an Enqueue Job is started then so is
every cached, queued, due Enqueue Job of the same JobConfig with a strictly earlier creation time -/
theorem enqueue_fifo_reachable {s : Sys} (h : Reachable s) {k : String} {q1 : WQ} {jc : JCV}
    {A B : JobV} (hg : (s.cfgQ.advance s.clock).get = some (k, q1))
    (hjc : findJC s.jcCache (keyName k) = some jc)
    (hA : A ∈ listQueued s.jobCache jc) (hB : B ∈ listQueued s.jobCache jc)
    (hlt : A.created < B.created)
    (hA1 : A.hasPolicy = true) (hA2 : A.policy = 2) (hA3 : startAfterLater A s.clock = false)
    (hB1 : B.hasPolicy = true) (hB2 : B.policy = 2)
    (hs : ⟨"start", B.name, "ok"⟩ ∈ (workConfig s).1.calls) :
    ⟨"start", A.name, "ok"⟩ ∈ (workConfig s).1.calls :=
  enqueue_fifo_work s k q1 jc A B hg hjc h.inv.cacheNodup hA hB hlt hA1 hA2 hA3 hB1 hB2 hs

/-- `forbid_rejected` on reachable states: a rejection logged "ok" hit the authoritative Job, which
was the cached queued Forbid Job; afterwards that Job carries the admission-error annotation and is
still unstarted and not terminal (its spec is unchanged) -/
theorem reject_ok_sound {s : Sys} (h : Reachable s) (n : String)
    (hc : ⟨"reject", n, "ok"⟩ ∈ (workConfig s).1.calls) :
    ∃ j, findJob s.jobs n = some j ∧ j.isQueued = true ∧ j.hasPolicy = true ∧ j.policy = 1 ∧
      due j s.clock ∧
      ∃ a, findJob (workConfig s).1.jobs n = some a ∧ sameSpec j a ∧ a.admErr = true ∧
        a.isQueued = true := h.reject_ok_sound n hc

example : Reachable sAB ∧ ⟨"reject", "b", "ok"⟩ ∈ (workConfig sAB).1.calls :=
  ⟨sAB_reachable, by decide⟩

/-- corrected system-level form of "a refused Job never runs": once the authoritative Job is
terminal (the job controller turned the annotation into the AdmissionError phase) or started, no
worker step starts it, whatever the caches say -/
theorem not_queued_never_started {s : Sys} (h : Reachable s) {n : String} {cur : JobV}
    (hcur : findJob s.jobs n = some cur) (hnq : cur.isQueued = false) :
    ⟨"start", n, "ok"⟩ ∉ (workConfig s).1.calls ∧
    ⟨"start", n, "ok"⟩ ∉ (workIndependent s).1.calls := h.not_queued_never_started hcur hnq

/-- `b` rejected, marked terminal by the job controller while the cache still shows it queued, `a`
finished: the next pass tries to start `b` and gets a conflict -/
def histTerminal : List Act :=
  histAB ++ [.workConfig, .finishJob "a", .markRejected "b", .deliverJob, .notifyStore, .notifyCtrl,
    .deliverJob, .notifyStore, .notifyCtrl]
example :
    let s := runActs {} histTerminal
    allowedAllB {} histTerminal = true ∧
    (findJob s.jobs "b").map (fun j => (j.admErr, j.terminal)) = some (true, true) ∧
    (findJob s.jobCache "b").map (fun j => (j.admErr, j.terminal)) = some (true, false) ∧
    (workConfig s).1.calls = [⟨"start", "b", "conflict"⟩] := by decide

/-- SURPRISE (inside the envelope, every action allowed): "a Forbid Job refused at the limit never
runs" is FALSE across passes.  `b` is rejected (annotation written), then `a` finishes before the
job controller has made `b` terminal; the next pass lists `b` as queued (`IsQueued` ignores the
annotation) and starts it.  Also: the rejection's own update event re-triggers the pass, which
issues the rejection again (identical annotation: a no-op at the API, see the example below). -/
def histRejectThenStart : List Act :=
  histAB ++ [.workConfig] ++ flush ++ [.workConfig, .finishJob "a"] ++ flush ++ flush
theorem rejected_then_started_witness :
    let s := runActs {} histRejectThenStart
    allowedAllB {} histRejectThenStart = true ∧
    (runActs {} (histAB ++ [.workConfig])).calls = [⟨"reject", "b", "ok"⟩] ∧
    (runActs {} (histAB ++ [.workConfig] ++ flush ++ [.workConfig])).calls = [⟨"reject", "b", "ok"⟩] ∧
    (findJob s.jobs "b").map (fun j => (j.admErr, j.startTime, j.terminal)) = some (true, none, false) ∧
    (workConfig s).1.calls = [⟨"start", "b", "ok"⟩] ∧
    (findJob (workConfig s).1.jobs "b").map (fun j => (j.admErr, j.startTime.isSome))
      = some (true, true) := by decide

/-- non-vacuous for `forbid_rejected_again_noop`: the second rejection of `b` (same message) is
logged "ok" but leaves resourceVersion, Jobs and the watch stream untouched, so nothing re-queues
the key; the first one was a real update -/
example :
    let s1 := runActs {} histAB
    let s := runActs {} (histAB ++ [.workConfig] ++ flush)
    (workConfig s1).1.calls = [⟨"reject", "b", "ok"⟩] ∧ (workConfig s1).1.rv = s1.rv + 1 ∧
    (workConfig s1).1.jobEvs.length = 1 ∧
    (workConfig s).1.calls = [⟨"reject", "b", "ok"⟩] ∧ (workConfig s).2 = "ok" ∧
    (workConfig s).1.rv = s.rv ∧ (workConfig s).1.jobEvs = [] ∧
    (workConfig s).1.jobs.map (fun j => (j.name, j.rv, j.admErr, j.admMsg)) =
      s.jobs.map (fun j => (j.name, j.rv, j.admErr, j.admMsg)) ∧
    (findJob s.jobs "b").map (fun j => (j.admErr, j.admMsg)) = some (true, ("c", 1)) ∧
    (workConfig (workConfig s).1).2 = "idle" := by decide

/-- "once capacity is free and the system is quiet no due Job remains queued": in a reachable
quiet state (no undelivered events, store handler idle, no faults; then the cache equals the
authoritative list) a worker step for a JobConfig's key succeeds, keeps the counter exact, and
afterwards every due queued Job of the JobConfig is started, except Enqueue Jobs when the TRUE
number of active Jobs has reached the limit and Forbid Jobs that were rejected. -/
theorem quiet_no_due_left {s : Sys} (h : Reachable s) (hq : Quiet s) {k : String} {q1 : WQ}
    {jc : JCV} (hg : (s.cfgQ.advance s.clock).get = some (k, q1))
    (hjc : findJC s.jcCache (keyName k) = some jc) :
    s.jobCache = s.jobs ∧ (workConfig s).2 = "ok" ∧
    (∀ uid, getCtr (workConfig s).1.counter uid = trueActive (workConfig s).1 uid) ∧
    ∀ j ∈ listQueued s.jobs jc, due j s.clock →
      let started := ⟨"start", j.name, "ok"⟩ ∈ (workConfig s).1.calls ∧
        ∃ a, findJob (workConfig s).1.jobs j.name = some a ∧
          a.startTime = some (s.clock / 1000000000)
      ((j.hasPolicy = false ∨ (j.policy ≠ 1 ∧ j.policy ≠ 2)) → started) ∧
      ((j.hasPolicy = true ∧ j.policy = 2) →
        started ∨ (trueActive (workConfig s).1 jc.uid : Int) + 1 > jc.maxConc) ∧
      ((j.hasPolicy = true ∧ j.policy = 1) →
        started ∨ (⟨"reject", j.name, "ok"⟩ ∈ (workConfig s).1.calls ∧
          ∃ a, findJob (workConfig s).1.jobs j.name = some a ∧ a.admErr = true)) := by
  have hcache := h.inv.cache_eq_jobs hq.evs
  obtain ⟨hok, hex, hsync, hjobs, hctr, hcalls⟩ := h.inv.quiet_workConfig hq hg hjc
  refine ⟨hcache, hok, fun uid => hex uid, fun j hj hd => ?_⟩
  obtain ⟨cs, hcs, hall⟩ := pass_leaves_no_startable (cfgPre s q1) (keyName k) jc _ hsync hjc
  have hcs' : (workConfig s).1.calls = cs := by rw [hcalls, hcs]; rfl
  have := hall j (by rw [← hcache] at hj; exact hj) hd
  rw [← hctr, hex jc.uid] at this
  rw [hcs', hjobs]
  exact this

/-- non-vacuous: the quiet reachable state `sAB` (a running, b Forbid queued): the step rejects
`b`; after `a` finished and everything is delivered, the step starts `b` -/
example : Reachable sAB ∧ Quiet sAB ∧
    (sAB.cfgQ.advance sAB.clock).get.map (·.1) = some "ns/c" ∧
    (findJC sAB.jcCache (keyName "ns/c")).map (·.maxConc) = some 1 ∧
    (listQueued sAB.jobs { jcC with rv := 1 }).map (·.name) = ["b"] ∧
    (workConfig sAB).1.calls = [⟨"reject", "b", "ok"⟩] :=
  ⟨sAB_reachable, ⟨by decide, by decide, by decide⟩, by decide, by decide, by decide, by decide⟩

end Furiko.Props.C06
