/-
C08 — plan level: "Per parallel index: one live task, ordered bounded retries, then stop".
Theorems about the pod CREATE calls one reconcile pass of the job controller issues, for ALL
model states, cached Jobs and fault lists, over `Model/JobCtl.lean` (validated against
`jobcontroller.Reconciler` by the `jobctl` engine), connected to the pure theorems of
`Props/C08.lean` about `computeMissingIndexesForCreation`.

Vocabulary (Proofs/JobCtlPlan*.lean): `newCalls s s'` = the calls `s'` logged beyond `s`;
`refreshedSummary s rj tasks` = the completion summary on the refs refreshed from the task list;
`reqDueNow clk r` = the request's earliest time is Go's zero time (unset) or not after `clk`;
`TimerBy q k t` = a deferred add of key `k` is pending at a deadline `≤ t`; `dueAt s t` = the
deadline `AddAfter` uses for `t` (at least 1 s after the clock).  Times are nanoseconds.
-/
import FurikoModel.Generated.Facts
import FurikoModel.Props.C08
import FurikoModel.Props.C11
import FurikoModel.Proofs.JobCtlPlanPass

namespace Furiko.Props.C08Plan
open Furiko Furiko.JobCtl Furiko.JobCtlPlan Furiko.WQ Furiko.ParallelLemmas Furiko.Props.C08

-- ---------------------------------------------------------------- data of the examples

private def sec (n : Int) : Int := n * 1000000000
private def brief (c : Call) : String × String × String × String := (c.verb, c.res, c.name, c.out)

/-- two indexes `a`, `b`, up to 3 attempts, 60 s retry delay; `a` failed once at 100 s (retry 0),
`b` is running -/
private def retryJob : Job :=
  { template := some { parallelism := some { indexes := [{ hash := "a" }, { hash := "b" }] },
                       maxAttempts := some 3, retryDelaySeconds := some 60 },
    status := { startTime := some (sec 1),
                tasks := [{ name := "job-a-0", parallelIndex := some { hash := "a" }, creationTimestamp := some (sec 1),
                            finishTimestamp := some (sec 100), status := { state := .terminated, result := .failed },
                            deletedStatus := some { state := .terminated, result := .failed } },
                          { name := "job-b-0", parallelIndex := some { hash := "b" }, creationTimestamp := some (sec 1),
                            runningTimestamp := some (sec 2) }] } }

private def podB : PodObj :=
  { pod := { name := "job-b-0", creationTimestamp := some (sec 1), phase := .running, retryIndex := some 0,
             parallelIndex := some { hash := "b" }, startTime := some (sec 1),
             containers := [{ running := some (some (sec 2)) }] },
    ownerUid := some "u", ownerName := some "job", jobLabel := some "u" }

private def retrySys (clk : Int) : Sys :=
  { clock := clk, rv := 5, d := { hash := "d" }, job := some ⟨"job", "u", retryJob, true, 1⟩,
    jobCache := some ⟨"job", "u", retryJob, true, 1⟩, pods := [podB], podCache := [podB] }

/-- `create_only_missing`: every call appended by `syncCreateTasks` is a pod create; it is issued
only when `canCreateTask` holds and the refreshed summary is not complete; and it is for an
`(index, retry)` REQUEST of `computeMissingIndexesForCreation` evaluated on the CACHED refs
`rj.status.tasks` (Appendix A item 3) whose earliest time has come.  The created pod's name is
`taskName jo.name hash retry`. -/
theorem create_only_missing (s : Sys) (jo : JobObj) (rj : Job) (tasks : List Task) :
    ∀ c ∈ newCalls s (syncCreateTasks s jo rj tasks).1,
      c.verb = "create" ∧ c.res = "pods" ∧ canCreateTask rj = true ∧
      (refreshedSummary s rj tasks).complete = false ∧
      ∃ reqs, computeMissingIndexesForCreation s.d rj (rj.indexes s.d) = some reqs ∧
        ∃ r ∈ reqs, c.name = taskName jo.name r.index.hash r.retryIndex ∧ reqDueNow s.clock r := by
  obtain ⟨l, e, _, _, hall, _⟩ := syncCreateTasks_ext s jo rj tasks
  intro c hc
  rw [e.newCalls] at hc
  obtain ⟨hv, hr, _, hcan, hcomp, hreq⟩ := hall c hc
  exact ⟨hv, hr, hcan, hcomp, hreq⟩

/-- … hence, by the pure theorems of `Props/C08.lean`: the create is for an index of the spec
that (under `NoCollision`) has NO unfinished and NO succeeded recorded ref, its retry number is
the next one of that index, `0 ≤ retry < maxAttempts`, and it is not issued before
`finish + retryDelay` of any finished ref of that index: the request's earliest time is at least
that and is itself not after the clock (or is Go's zero time). -/
theorem create_respects_retries (s : Sys) (jo : JobObj) (rj : Job) (tasks : List Task)
    (hnc : NoCollision (rj.indexes s.d)) :
    ∀ c ∈ newCalls s (syncCreateTasks s jo rj tasks).1,
      ∃ r : CreationRequest, c.name = taskName jo.name r.index.hash r.retryIndex ∧
        r.index ∈ rj.indexes s.d ∧
        (∀ t ∈ rj.status.tasks, t.hash s.d = r.index.hash → ¬ Blocking t) ∧
        r.retryIndex = nextRetryIndex s.d rj.status.tasks r.index.hash ∧
        0 ≤ r.retryIndex ∧ r.retryIndex < rj.maxAttempts ∧
        (∀ t ∈ rj.status.tasks, t.hash s.d = r.index.hash → ∀ f, t.finishTimestamp = some f →
          f + rj.retryDelay ≤ r.earliest) ∧
        (r.earliest = zeroTime ∨ ¬ r.earliest > s.clock) := by
  intro c hc
  obtain ⟨_, _, _, _, reqs, hreqs, r, hr, hn, hdue⟩ := create_only_missing s jo rj tasks c hc
  obtain ⟨h1, h2, h3, h4, _⟩ := computeMissing_sound s.d rj (rj.indexes s.d) reqs hnc hreqs r hr
  obtain ⟨h5, _⟩ := no_missing_beyond_maxAttempts s.d rj (rj.indexes s.d) reqs hreqs r hr
  obtain ⟨h6, _⟩ := earliest_respects_delay s.d rj (rj.indexes s.d) reqs hreqs r hr
  exact ⟨r, hn, h1, h2, h3, h5, h4, h6, hdue⟩

/-- No create for an index that has a succeeded recorded ref (under `NoCollision`): the request a
create call is issued for never carries the hash of such a ref. -/
theorem no_create_for_succeeded_index (s : Sys) (jo : JobObj) (rj : Job) (tasks : List Task)
    (hnc : NoCollision (rj.indexes s.d)) (t : TaskRef) (ht : t ∈ rj.status.tasks)
    (hs : t.status.result = .succeeded) :
    ∀ c ∈ newCalls s (syncCreateTasks s jo rj tasks).1,
      ∃ r : CreationRequest, c.name = taskName jo.name r.index.hash r.retryIndex ∧ r.index.hash ≠ t.hash s.d := by
  intro c hc
  obtain ⟨r, hn, _, hfree, _⟩ := create_respects_retries s jo rj tasks hnc c hc
  exact ⟨r, hn, fun he => hfree t ht he.symm (Or.inr hs)⟩

/-- `retry_delay_respected`, timer part, and completeness of the loop: when `syncCreateTasks`
returns without error after attempting creation, every request whose earliest time has come got
its create call, and every request with an earliest time (deferred ones in particular) left a
timer for the Job's key at a deadline not later than that time (`dueAt`: at least 1 s ahead). -/
theorem create_all_due_and_timer (s : Sys) (jo : JobObj) (rj rj' : Job) (tasks tasks' : List Task)
    (reqs : List CreationRequest)
    (hok : (syncCreateTasks s jo rj tasks).2 = some (rj', tasks'))
    (hcan : canCreateTask rj = true) (hcomp : (refreshedSummary s rj tasks).complete = false)
    (hreqs : computeMissingIndexesForCreation s.d rj (rj.indexes s.d) = some reqs) :
    (∀ r ∈ reqs, reqDueNow s.clock r →
      ∃ c ∈ newCalls s (syncCreateTasks s jo rj tasks).1, c.verb = "create" ∧
        c.name = taskName jo.name r.index.hash r.retryIndex) ∧
    (∀ r ∈ reqs, r.earliest ≠ zeroTime →
      TimerBy (syncCreateTasks s jo rj tasks).1.q (jobKey jo) (dueAt s r.earliest)) := by
  obtain ⟨l, e, _, _, hall, hres⟩ := syncCreateTasks_ext s jo rj tasks
  obtain ⟨_, hon⟩ := hres rj' tasks' hok
  obtain ⟨hcov, htim, _⟩ := hon hcan hcomp reqs hreqs
  rw [e.newCalls]
  refine ⟨?_, htim⟩
  intro r hr hdue
  obtain ⟨c, hc, hn⟩ := hcov r hr hdue
  exact ⟨c, hc, (hall c hc).1, hn⟩

/-- `create_only_missing` / `create_respects_retries` / `create_all_due_and_timer`: at 160 s
(= finish 100 s + delay 60 s) the pass creates exactly `job-a-1` (retry 1 of index `a`; nothing
for the running index `b`); at 160 s − 1 ns it creates nothing and arms a timer for 160 s (1 s
floor ⇒ 161 s − 1 ns). -/
example :
    NoCollision (retryJob.indexes { hash := "d" }) ∧
    (newCalls (retrySys (sec 160)) (syncCreateTasks (retrySys (sec 160)) ⟨"job", "u", retryJob, true, 1⟩ retryJob
      (tasks0 (retrySys (sec 160)) ⟨"job", "u", retryJob, true, 1⟩ retryJob)).1).map brief = [("create", "pods", "job-a-1", "ok")] ∧
    newCalls (retrySys (sec 160 - 1)) (syncCreateTasks (retrySys (sec 160 - 1)) ⟨"job", "u", retryJob, true, 1⟩ retryJob
      (tasks0 (retrySys (sec 160 - 1)) ⟨"job", "u", retryJob, true, 1⟩ retryJob)).1 = [] ∧
    (syncCreateTasks (retrySys (sec 160 - 1)) ⟨"job", "u", retryJob, true, 1⟩ retryJob
      (tasks0 (retrySys (sec 160 - 1)) ⟨"job", "u", retryJob, true, 1⟩ retryJob)).1.q.delayed = [("ns/job", sec 161 - 1)] := by
  decide

/-- `no_create_when_stopped` (creation step): when `canCreateTask` is false (kill timestamp
present — even future — or admission-error annotation) or the refreshed summary is complete,
`syncCreateTasks` returns the system state untouched: no call at all.  The Job is returned as it
is, and the task list is extended only by the UNRECORDED tasks of the pod cache
(`adoptUnrecordedTasks`: fix 5671da6 for the first case, repair of F23 for the complete summary —
before it the list was returned as it was and a task created without being recorded was never
stopped once the Job was complete through other tasks). -/
theorem no_create_when_stopped (s : Sys) (jo : JobObj) (rj : Job) (tasks : List Task)
    (h : canCreateTask rj = false ∨ (refreshedSummary s rj tasks).complete = true) :
    (syncCreateTasks s jo rj tasks).1 = s ∧ newCalls s (syncCreateTasks s jo rj tasks).1 = [] ∧
    syncCreateTasks s jo rj tasks = (s, some (rj, adoptUnrecordedTasks s jo tasks)) := by
  obtain ⟨_, _, hoff, hdone, _⟩ := syncCreateTasks_ext s jo rj tasks
  have he : syncCreateTasks s jo rj tasks = (s, some (rj, adoptUnrecordedTasks s jo tasks)) := by
    by_cases hcan : canCreateTask rj = true
    · rcases h with h | h
      · rw [hcan] at h; cases h
      · exact hdone hcan h
    · exact hoff (by simpa using hcan)
  have hs : (syncCreateTasks s jo rj tasks).1 = s := by rw [he]
  exact ⟨hs, by rw [hs]; exact (Ext.refl s).newCalls, he⟩

/-- `no_create_when_stopped`: with index `a` at its third failure (`maxAttempts = 3` reached: the
summary is complete, Failed) nothing is created; and nothing for a Job that is not started. -/
example :
    let failed3 : Job := { retryJob with status := { retryJob.status with tasks :=
      [{ name := "job-a-0", parallelIndex := some { hash := "a" }, finishTimestamp := some (sec 10) },
       { name := "job-a-1", parallelIndex := some { hash := "a" }, retryIndex := 1, finishTimestamp := some (sec 20) },
       { name := "job-a-2", parallelIndex := some { hash := "a" }, retryIndex := 2, finishTimestamp := some (sec 30) }] } }
    let notStarted : Job := { retryJob with status := {} }
    let s : Sys := { clock := sec 1000, d := { hash := "d" } }
    (refreshedSummary s failed3 []).complete = true ∧
    newCalls s (syncCreateTasks s ⟨"job", "u", failed3, true, 1⟩ failed3 []).1 = [] ∧
    newCalls s (sync s ⟨"job", "u", notStarted, true, 1⟩).1 = [] := by
  decide

/-- `canCreateTask`, exactly -/
theorem canCreateTask_iff (rj : Job) :
    canCreateTask rj = true ↔ rj.killTimestamp = none ∧ rj.admissionError = false := by
  unfold canCreateTask
  cases rj.killTimestamp <;> cases rj.admissionError <;> simp

example : canCreateTask retryJob = true ∧ canCreateTask { retryJob with killTimestamp := some (sec 9999) } = false ∧
    canCreateTask { retryJob with admissionError := true } = false := by decide

/-- `no_create_when_stopped` (whole pass) and `create_only_missing` at the level of `sync`: a
create call of a pass exists only for a cached Job that is started, not being deleted, without
kill timestamp and without admission error, whose refreshed summary is not complete — and then it
is for a due request computed from the cached refs. -/
theorem sync_create_only_missing (s : Sys) (jo : JobObj) :
    ∀ c ∈ newCalls s (sync s jo).1, c.verb = "create" →
      isStarted jo.job = true ∧ isDeleted jo.job = false ∧
      jo.job.killTimestamp = none ∧ jo.job.admissionError = false ∧
      (refreshedSummary s jo.job (tasks0 s jo jo.job)).complete = false ∧ c.res = "pods" ∧
      ∃ reqs, computeMissingIndexesForCreation s.d jo.job (jo.job.indexes s.d) = some reqs ∧
        ∃ r ∈ reqs, c.name = taskName jo.name r.index.hash r.retryIndex ∧ reqDueNow s.clock r := by
  intro c hc hv
  obtain ⟨hst, hdel, hto⟩ := syncOrigin_create s jo c ((sync_origin s jo).2 c hc) hv
  obtain ⟨hr, hcan, hcomp, hreq⟩ := taskOrigin_create s jo jo.job c hto hv
  obtain ⟨hk, ha⟩ := (canCreateTask_iff jo.job).mp hcan
  exact ⟨hst, hdel, hk, ha, hcomp, hr, hreq⟩

/-- … and for `SyncOne`: the only other calls are the two final Job writes. -/
theorem syncOne_create_only_missing (s : Sys) :
    ∀ c ∈ newCalls s (syncOne s).1, c.verb = "create" →
      ∃ jo, s.jobCache = some jo ∧ isStarted jo.job = true ∧ isDeleted jo.job = false ∧
        canCreateTask jo.job = true ∧ c.res = "pods" ∧
        ∃ reqs, computeMissingIndexesForCreation s.d jo.job (jo.job.indexes s.d) = some reqs ∧
          ∃ r ∈ reqs, c.name = taskName jo.name r.index.hash r.retryIndex ∧ reqDueNow s.clock r := by
  intro c hc hv
  obtain ⟨jo, hj, ho | ⟨hu, _⟩⟩ := (syncOne_origin s).2 c hc
  · obtain ⟨hst, hdel, hto⟩ := syncOrigin_create s jo c ho hv
    obtain ⟨hr, hcan, _, hreq⟩ := taskOrigin_create s jo jo.job c hto hv
    exact ⟨jo, hj, hst, hdel, hcan, hr, hreq⟩
  · rw [hu] at hv; simp at hv

/-- `SyncOne` at 160 s on the retry scenario: the create for `job-a-1`, then the status write -/
example :
    (newCalls (retrySys (sec 160)) (syncOne (retrySys (sec 160))).1).map brief =
      [("create", "pods", "job-a-1", "ok"), ("update", "jobs", "job", "ok")] := by
  decide

/-- A pass creates pods only through its create calls: every pod on the server after `sync` was
there before (by name), or carries the name of a create call of this pass that was answered
`ok` — which by `sync_create_only_missing` is `taskName jo.name hash retry` of a due request. -/
theorem sync_new_pods_are_requested (s : Sys) (jo : JobObj) :
    ∀ p ∈ (sync s jo).1.pods, (∃ p0 ∈ s.pods, p0.pod.name = p.pod.name) ∨
      ∃ c ∈ newCalls s (sync s jo).1, c.verb = "create" ∧ c.out = "ok" ∧ c.name = p.pod.name := by
  obtain ⟨⟨l, e⟩, _⟩ := sync_origin s jo
  intro p hp
  rcases e.pods p hp with h | ⟨c, hc, hv, _, ho, hn⟩
  · exact Or.inl h
  · exact Or.inr ⟨c, by rw [e.newCalls]; exact hc, hv, ho, hn⟩

/-- `create_names`: a create call answered `ok` adds exactly one pod: named
`taskName jo.name idx.hash retry`, absent from the server before, controlled by the Job (owner
reference uid and name) and labelled with its uid, carrying the retry number and the parallel
index, created now; any other answer leaves the pods untouched. -/
theorem create_names (s : Sys) (jo : JobObj) (idx : PIndex) (retry : Int) :
    ∃ c, newCalls s (apiCreatePod s jo idx retry).1 = [c] ∧ c.verb = "create" ∧ c.res = "pods" ∧
      c.name = taskName jo.name idx.hash retry ∧
      (c.out = "ok" →
        findPod s.pods (taskName jo.name idx.hash retry) = none ∧
        ∃ p : PodObj, (apiCreatePod s jo idx retry).1.pods = s.pods ++ [p] ∧
          p.pod.name = taskName jo.name idx.hash retry ∧ p.ownerUid = some jo.uid ∧
          p.ownerName = some jo.name ∧ p.jobLabel = some jo.uid ∧
          p.pod.retryIndex = some retry ∧ p.pod.parallelIndex = some idx ∧
          p.pod.creationTimestamp = some (nowT s) ∧ p.pod.deletionTimestamp = none) ∧
      (c.out ≠ "ok" → (apiCreatePod s jo idx retry).1.pods = s.pods) := by
  obtain ⟨c, e, hv, hr, hn, _, _, _, hok, hnok, _⟩ := apiCreatePod_ext s jo idx retry
  refine ⟨c, e.newCalls, hv, hr, hn, ?_, hnok⟩
  intro ho
  obtain ⟨h0, p, h1, h2, h3, h4, h5, h6, h7, h8, h9, _⟩ := hok ho
  exact ⟨h0, p, h1, h2, h3, h4, h5, h6, h7, h8, h9⟩

/-- `sync_create_only_missing` / `sync_new_pods_are_requested` / `create_names`: the whole pass at
160 s creates the pod `job-a-1`, owned by and labelled with the Job's uid, retry 1, index `a`. -/
example :
    ((sync (retrySys (sec 160)) ⟨"job", "u", retryJob, true, 1⟩).1.pods.map
      (fun p => (p.pod.name, p.ownerUid, p.jobLabel, p.pod.retryIndex, p.pod.parallelIndex.map (·.hash)))) =
      [("job-b-0", some "u", some "u", some 0, some "b"), ("job-a-1", some "u", some "u", some 1, some "a")] ∧
    (newCalls (retrySys (sec 160)) (sync (retrySys (sec 160)) ⟨"job", "u", retryJob, true, 1⟩).1).map brief =
      [("create", "pods", "job-a-1", "ok")] := by
  decide

/-- A task appended to the list by `syncCreateTask` is the pod just created (call answered `ok`)
or — the call having created nothing — the pod CACHE entry of that name controlled by this Job
(adoption reads the cache and never creates). -/
theorem created_or_adopted (s : Sys) (jo : JobObj) (rj rj' : Job) (tasks tasks' : List Task)
    (idx : PIndex) (retry : Int)
    (h : (syncCreateTask s jo rj tasks idx retry).2 = some (rj', tasks')) :
    tasks' = tasks ∨ ∃ t, tasks' = tasks ++ [t] ∧ ∃ p : PodObj, podTask s.clock p = some t ∧
      p.pod.name = taskName jo.name idx.hash retry ∧ p.ownerUid = some jo.uid ∧
      ((syncCreateTask s jo rj tasks idx retry).1.pods = s.pods ++ [p] ∨
       ((syncCreateTask s jo rj tasks idx retry).1.pods = s.pods ∧
         findPod s.podCache (taskName jo.name idx.hash retry) = some p)) := by
  obtain ⟨c, _, _, _, hn, _, _, _, hres⟩ := syncCreateTask_ext s jo rj tasks idx retry
  rcases (hres rj' tasks' h).2 with h | ⟨t, ht, p, hp, hpn, hou, hor⟩
  · exact Or.inl h
  · refine Or.inr ⟨t, ht, p, hp, by rw [hpn, hn], hou, ?_⟩
    rcases hor with ⟨_, h1, _⟩ | ⟨_, h1, h2⟩
    · exact Or.inl h1
    · exact Or.inr ⟨h1, by rw [← hn]; exact h2⟩

/-- `created_or_adopted`: the pod `job-a-1` already exists on the server (created by an earlier
pass that failed before recording it) and is in the cache: the create is answered `exists`, the
pod set is unchanged, and the cached pod is adopted into the task list. -/
example :
    let podA1 : PodObj := { pod := { name := "job-a-1", creationTimestamp := some (sec 150), retryIndex := some 1,
                                      parallelIndex := some { hash := "a" } },
                            ownerUid := some "u", ownerName := some "job", jobLabel := some "u" }
    let s : Sys := { retrySys (sec 160) with pods := [podB, podA1], podCache := [podB, podA1] }
    let r := syncCreateTask s ⟨"job", "u", retryJob, true, 1⟩ retryJob [] { hash := "a" } 1
    (newCalls s r.1).map brief = [("create", "pods", "job-a-1", "exists")] ∧
    r.1.pods.map (·.pod.name) = ["job-b-0", "job-a-1"] ∧
    r.2.map (fun x => x.2.map (·.name)) = some ["job-a-1"] := by
  decide

/-! ### the finish time a pass records for an attempt (F30 repaired)

`earliest_respects_delay` (Props/C08) and `create_only_missing` count the retry delay from the finish time
RECORDED in the ref.  What is recorded: the time the pod reports (`GetFinishTimestamp`: a container
termination time, or the DeadlineExceeded computation) when it tells one — `Pod.hasFinishTimestamp` —,
and otherwise, since the repair of F30, the CLOCK OF THE PASS that reads the pod (before the repair: the
fallback of `GetFinishTimestamp`, the pod's start / creation time).  `GetTaskRef` of `jobutil` keeps the
finish time of a ref that is already finished with a final state (fix 6ab84c2), so the value that stays
recorded is the clock of the FIRST pass that saw the pod finished — not before the instant the pod
finished, whatever the kubelet reports (history form: `C08Hist.recorded_finish_not_before`). -/

/-- the tie for the repair of F30 (fact regenerated from the source on every run, section
`jobctl-finish-time` of `harness/cmd/extract/jobctl_finish.go`): `PodTask.GetTaskRef` ends with
`if t := p.GetFinishTimestamp(); !t.IsZero() { if !p.hasFinishTimestamp() { t = *ktime.Now() }; task.FinishTimestamp = &t }`
and `hasFinishTimestamp` is "a container termination time, or the condition of the DeadlineExceeded branch
of `GetFinishTimestamp`" (`Model/Task.lean`: `Pod.hasFinishTimestamp`, `Pod.recordedFinish`).  Reverting
the repair makes this theorem false. -/
theorem source_records_observation_time : Facts.taskRefRecordsObservationTime = true := by decide

/-- the model's `Pod.recordedFinish` is that shape -/
theorem recordedFinish_shape (now : Time) (p : Pod) (fin : Option Time) :
    p.recordedFinish now fin = (if fin.isSome && !p.hasFinishTimestamp then some now else fin) ∧
    p.hasFinishTimestamp = ((containerTerminateTime p).isSome ||
      (p.statusReason == reasonDeadlineExceeded && p.activeDeadlineSeconds.isSome)) := ⟨rfl, rfl⟩

/-- a pod that tells when it finished is read the same at every clock -/
theorem podTask_eq_of_reported {p : PodObj} (h : p.pod.hasFinishTimestamp = true) (now now' : Time) :
    podTask now p = podTask now' p := by
  unfold podTask Pod.task Pod.taskRef
  cases hf : p.pod.finishTimestamp with
  | none => rfl
  | some fin => simp [Pod.recordedFinish, h]

/-- … and so is a pod that is not finished -/
theorem podTask_eq_of_unfinished {p : PodObj} (h : p.pod.isFinished = false) (now now' : Time) :
    podTask now p = podTask now' p := by
  unfold podTask Pod.task Pod.taskRef Pod.finishTimestamp
  simp [h, Pod.recordedFinish]

/-- `finish_recorded_is_observation`: a finished pod that does not tell when it finished (no container
termination time, not the DeadlineExceeded case) and carries a start time or a creation timestamp is read
with finish time = the clock of the reading pass -/
theorem finish_recorded_is_observation {now : Time} {p : PodObj} {t : Task} (h : podTask now p = some t)
    (hfin : p.pod.isFinished = true) (hnr : p.pod.hasFinishTimestamp = false)
    (hst : p.pod.startTime.isSome = true ∨ p.pod.creationTimestamp.isSome = true) :
    t.ref.finishTimestamp = some now := by
  have hnr' := hnr
  unfold Pod.hasFinishTimestamp at hnr'
  simp only [Bool.or_eq_false_iff] at hnr'
  obtain ⟨hct, hdl⟩ := hnr'
  have hctn : containerTerminateTime p.pod = none := by
    cases hc : containerTerminateTime p.pod with
    | none => rfl
    | some x => rw [hc] at hct; cases hct
  have hfinTs : ∃ fin, p.pod.finishTimestamp = some fin ∧ fin.isSome = true := by
    unfold Pod.finishTimestamp
    simp only [hfin, Bool.not_true, Bool.false_eq_true, ↓reduceIte, hctn, hdl]
    cases hs : p.pod.startTime with
    | some st => exact ⟨_, rfl, rfl⟩
    | none =>
      rcases hst with h1 | h1
      · rw [hs] at h1; cases h1
      · exact ⟨_, rfl, h1⟩
  obtain ⟨fin, hf1, hf2⟩ := hfinTs
  unfold podTask Pod.task Pod.taskRef at h
  simp only [hf1, Option.some.injEq] at h
  subst h
  simp [Pod.recordedFinish, hf2, hnr]

/-- `first_observation_kept`: what `GetTaskRef` (jobutil) records for a task read with finish time `now`:
a ref that is already finished with a final state keeps ITS finish time, any other ref (and a task
recorded for the first time) gets `now` -/
theorem first_observation_kept (ex : TaskRef) (t : Task) (now : Time) (hf : t.ref.finishTimestamp = some now) :
    (getTaskRef (some ex) t).finishTimestamp =
      (if ex.finishTimestamp.isSome && isFinalTaskState ex.status.state then ex.finishTimestamp else some now) ∧
    (getTaskRef none t).finishTimestamp = some now := by
  refine ⟨?_, ?_⟩
  · have := (Furiko.Props.C11.getTaskRef_retains ex t).2.1
    rw [this, hf]; rfl
  · unfold getTaskRef
    simp [hf]

/-- the finish times `GenerateTaskRefs` records at clock `now`: for every generated ref a finish time
that was recorded before under that name, the one its task is read with, or `now` (a lost ref) -/
theorem generated_finish_sources (now : Time) (existing : List TaskRef) (tasks : List Task) :
    ∀ r ∈ generateTaskRefs now existing tasks, ∀ f, r.finishTimestamp = some f →
      (∃ ex ∈ existing, ex.finishTimestamp = some f) ∨ (∃ t ∈ tasks, t.ref.finishTimestamp = some f) ∨ f = now := by
  intro r hr f hf
  unfold generateTaskRefs at hr
  simp only at hr
  rw [Furiko.StatusLemmas.mem_sortTaskRefs] at hr
  rcases List.mem_append.mp hr with h | h
  · obtain ⟨t, ht, rfl⟩ := List.mem_map.mp h
    cases hl : lookupRef existing t.name with
    | none =>
      rw [hl] at hf
      have : (getTaskRef none t).finishTimestamp = t.ref.finishTimestamp := by
        unfold getTaskRef; simp only; split <;> rfl
      exact Or.inr (Or.inl ⟨t, ht, by rw [← this]; exact hf⟩)
    | some ex =>
      rw [hl] at hf
      have hex : ex ∈ existing := by
        unfold lookupRef at hl
        exact List.mem_reverse.mp (List.mem_of_find?_eq_some hl)
      rw [(Furiko.Props.C11.getTaskRef_retains ex t).2.1] at hf
      split at hf
      · split at hf
        · exact Or.inl ⟨ex, hex, hf⟩
        · exact Or.inr (Or.inl ⟨t, ht, hf⟩)
      · exact Or.inl ⟨ex, hex, hf⟩
  · obtain ⟨ex, hex, rfl⟩ := List.mem_map.mp h
    have hex' := (List.mem_filter.mp hex).1
    rw [(Furiko.Props.C11.lostRef_retains now ex).2.2.1] at hf
    split at hf
    · exact Or.inl ⟨ex, hex', hf⟩
    · exact Or.inr (Or.inr (Option.some.inj hf).symm)

end Furiko.Props.C08Plan
