/-
C12 — F32, REPAIRED (regression theorems; formerly the witnesses `running_task_reaped_as_pending_witness` and
`crashed_before_observed_reaped_as_pending_witness`); and an observed-not-claimed history: the kill marker is
lost when the status write fails after the delete.

F32.  C12: "a task that has not begun running within the pending timeout … is deleted".  Before the repair
`handlePendingTasks` took the running timestamp from the LIVE pod (`task.GetTaskRef()`), not from the ref
recorded in `status.tasks`, and `GetContainerStartTime` only read the container's CURRENT state
(`State.Running` / `State.Terminated`).  With restartPolicy OnFailure (admitted by validation: only Always is
refused) a container that failed and waits to be restarted (CrashLoopBackOff) is in `State.Waiting`; its
start time is only under `LastTerminationState`, the pod's phase stays Running (inside the kubelet contract
`KubeletOK`): a task that HAD begun running was reaped as `PendingTimeout`.  Repaired: the step judges a task
by the ref recorded in the Job's status (`jobutil.FindTaskRef`; `JobCtl.pendRef`), and
`GetContainerStartTime` also reads `LastTerminationState.Terminated.StartedAt` (`containerStartTime`).  The
same histories now reap nothing — theorems below; general statement `C12Hist.pending_only_never_ran`.
Replayed on the real controller by the corpus scenarios `f32-crashloop-task-reaped-as-pending` and
`f32b-crashloop-before-first-observation` (monitor `pending-only-never-ran`, ground truth: the simulated
kubelet started a container of the task), which fail on the tree before the repair.
-/
import FurikoModel.Props.SideCommon

namespace Furiko.Props.C12Side
open Furiko Furiko.JobCtl Furiko.Props.Side

set_option synthInstance.maxSize 1024

/-- one index, one attempt, pending timeout 900 s -/
def jobC : JobObj :=
  { Ex.job with job := { Ex.job.job with template := some { maxAttempts := some 1, taskPendingTimeoutSeconds := some 900 } } }
def c0 : Sys := initSys 0 {} Ex.d jobC
def cA : Sys := runActs c0 Ex.runA

/-- the container of a Running pod has exited (started `st`, exited `fi`) and waits to be restarted -/
def waitingForRestart (p : PodObj) (st fi : Time) : PodObj :=
  withStatus p .running (some st) [{ lastTerminated := some { startedAt := some st, finishedAt := some fi, reason := "Error" } }]

/-- the task starts running at 5 s, which the next pass RECORDS; 1000 s later … -/
def crashRun1 : List Action :=
  [.deliverPod, .advance (sec 5),
   .kubelet (withStatus (podOf cA "job-h-0") .running (some (secs 5)) [{ running := some (some (secs 5)) }]),
   .deliverPod, .work, .deliverJob, .advance (sec 1000)]
def cK1 : Sys := runActs cA crashRun1
/-- … its container fails and waits for the restart; the next pass runs -/
def crashRun2 : List Action := [.kubelet (waitingForRestart (podOf cK1 "job-h-0") (secs 5) (secs 1005)), .deliverPod, .work]
def cK2 : Sys := runActs cK1 crashRun2

/-- regression (F32, first history; before the repair this pass deleted `job-h-0` and marked it Killed /
`PendingTimeout`): no fault, no lag, no user action.  `status.tasks` records that `job-h-0` began running at
5 s; at 1005 s (creation 0 s + 900 s has passed) the pass issues NO call: the task is not reaped, no marker
is written, the pod carries no deletion timestamp, the ref keeps its running timestamp. -/
theorem running_task_not_reaped_as_pending :
    Reach lagAndLoss jobC cK2 ∧
    refsView cK1 = [("job-h-0", .running, .none, some (secs 5), none)] ∧
    callsOf cK2 = [] ∧
    refsView cK2 = [("job-h-0", .running, .none, some (secs 5), none)] ∧
    marksView cK2 = [none] ∧
    cK2.pods.map (fun p => (p.pod.name, p.pod.phase, p.pod.deletionTimestamp)) = [("job-h-0", .running, none)] :=
  ⟨reach_run (reach_run (reach_run (.init 0 {} Ex.d (by decide +kernel)) Ex.runA (by decide +kernel)) crashRun1
      (by decide +kernel)) crashRun2 (by decide +kernel),
    by decide +kernel, by decide +kernel, by decide +kernel, by decide +kernel, by decide +kernel⟩

/-- the first hunk of the repair alone: the pod stops reporting ANY container status after the running
timestamp was recorded (phase Running, no container statuses — nothing for `GetContainerStartTime` to read,
with or without `LastTerminationState`); the recorded ref decides: nothing is reaped -/
def crashRun2' : List Action := [.kubelet (withStatus (podOf cK1 "job-h-0") .running (some (secs 5)) []), .deliverPod, .work]
def cK2' : Sys := runActs cK1 crashRun2'

theorem recorded_running_decides :
    (cK2'.podCache.map (fun p => containerStartTime p.pod)) = [none] ∧
    callsOf cK2' = [] ∧
    refsView cK2' = [("job-h-0", .running, .none, some (secs 5), none)] ∧
    marksView cK2' = [none] :=
  ⟨by decide +kernel, by decide +kernel, by decide +kernel, by decide +kernel⟩

/-- second history: the container starts at 5 s and fails at 8 s, BETWEEN two passes: no pass ever sees
it Running; at 1008 s the pending-timeout pass runs -/
def crashBRun : List Action :=
  [.deliverPod, .advance (sec 5),
   .kubelet (withStatus (podOf cA "job-h-0") .running (some (secs 5)) [{ running := some (some (secs 5)) }]),
   .advance (sec 3), .kubelet (waitingForRestart (podOf cA "job-h-0") (secs 5) (secs 8)),
   .deliverPod, .deliverPod, .work, .deliverJob, .advance (sec 1000), .work]
def cK3 : Sys := runActs cA crashBRun

/-- regression (F32, second history; before the repair the pass at 1008 s reaped the task and no running
timestamp was ever recorded): the kubelet started the task's container at 5 s (the second action of
`crashBRun` after the delivery) and it failed at 8 s, between two passes.  The first pass after that reads the
start from `LastTerminationState` and RECORDS the running timestamp 5 s; the pass at 1008 s issues no call.
Using the recorded ref in `handlePendingTasks` alone would not have prevented this one. -/
theorem crashed_before_observed_not_reaped :
    Reach lagAndLoss jobC cK3 ∧
    callsOf cK3 = [] ∧
    refsView cK3 = [("job-h-0", .running, .none, some (secs 5), none)] ∧
    marksView cK3 = [none] ∧
    cK3.pods.map (fun p => (p.pod.name, p.pod.phase, p.pod.deletionTimestamp)) = [("job-h-0", .running, none)] :=
  ⟨reach_run (reach_run (.init 0 {} Ex.d (by decide +kernel)) Ex.runA (by decide +kernel)) crashBRun (by decide +kernel),
    by decide +kernel, by decide +kernel, by decide +kernel, by decide +kernel⟩

/-! ### observed, not claimed: the kill marker is lost when the status write fails after the delete

`handleKillJob` marks the tasks it deletes (`DeletedStatus` = Terminated / Killed) in the Job value it
returns; the pods are deleted at once, the marker reaches the server only with the status write at the end
of `SyncOne`.  When that write fails, the retry sees the pod with a deletion timestamp and skips it (no
marker); when the pod goes away the ref ends `DeletedFinalStateUnknown` without a Killed marker, the Job
Finished / Killed.  This contradicts NO theorem: `C12Hist.deletion_marker_kept` and
`marked_task_lost_is_killed` are about a marker that some authoritative version of the Job carried, and
here none ever does (`marksView` is `[none]` in every state of the run); no clause of C09 / C12 says that a
task stopped by the kill sweep is recorded Killed.  Corpus scenario `kill-marker-lost-on-conflict`
(counter `jc.observed.kill-marker-lost`). -/

def markRun1 : List Action :=
  [.deliverPod,
   .kubelet (withStatus (podOf Ex.tA "job-h-0") .running (some 0) [{ running := some (some (secs 1)) }]),
   .deliverPod, .work, .deliverJob, .kill 0, .deliverJob, .setFaults ["", "conflict"], .work]
def mK1 : Sys := runActs Ex.tA markRun1
def markRun2 : List Action := [.deliverPod, .work]
def mK2 : Sys := runActs mK1 markRun2
def markRun3 : List Action := [.podGone "job-h-0", .deliverPod, .deliverJob, .work]
def mK3 : Sys := runActs mK2 markRun3

/-- the kill pass deletes the pod and its status write conflicts (one injected fault); the retry skips the
terminating pod; the pod goes away: the ref is lost WITHOUT marker, the Job Finished / Killed -/
theorem kill_marker_lost_on_conflict_witness :
    Reach anyAction Ex.job1 mK3 ∧
    callsOf mK1 = [("delete", "pods", "job-h-0", "ok", false), ("update", "jobs", "job", "conflict", true)] ∧
    (marksView mK1 = [none] ∧ marksView mK2 = [none] ∧ marksView mK3 = [none]) ∧
    refsView mK2 = [("job-h-0", .killing, .none, some (secs 1), none)] ∧
    jobView mK3 = some ("Killed", false, 1, some (.killed, some 0)) ∧
    refsView mK3 = [("job-h-0", .deletedFinalStateUnknown, .none, some (secs 1), some 0)] :=
  ⟨reach_run (reach_run (reach_run (Ex.tA_reach.mono (fun _ _ _ => trivial)) markRun1 (by decide +kernel)) markRun2
      (by decide +kernel)) markRun3 (by decide +kernel),
    by decide +kernel, ⟨by decide +kernel, by decide +kernel, by decide +kernel⟩, by decide +kernel, by decide +kernel,
    by decide +kernel⟩

end Furiko.Props.C12Side
