/-
C12 — "Kill and pending-timeout deadlines stop tasks, never early, and end the Job": HISTORY-level
theorems over every state reachable in the transition system of `Proofs/JobCtlSys.lean` (conventions as
in `Props/C11Hist.lean`: `Reach ok j0 s`, action filter `ok`; a theorem stated for an arbitrary `ok` allows
EVERY action — any fault pattern, informer lag, resync, restart, clock, kubelet, external pod deletion,
user kill / delete, foreign pods).

`Props/C12Plan.lean` justifies the calls of ONE pass started in ANY state.  Here the claims are made
explicit for histories: which steps issue calls at all, that the clock they are judged against never goes
backwards, and that what the controller has once seen of a kill request is never unseen.
A theorem about `(step s .work).calls` for every reachable `s` is a theorem about every step of every
history: `Reach` is closed under steps, and `Steps ok j0 s s'` makes `s'` reachable (`Reach.steps`).
-/
import FurikoModel.Proofs.JobCtlInvC12Calls
import FurikoModel.Proofs.JobCtlInvC12Chain
import FurikoModel.Proofs.JobCtlInvC12Marker
import FurikoModel.Proofs.JobCtlInvCreate
import FurikoModel.Proofs.JobCtlInvExamples
import FurikoModel.Props.C12Plan

namespace Furiko.Props.C12Hist
open Furiko Furiko.JobCtl Furiko.JobCtlPlan

/-! ### which steps issue calls, and the clock -/

/-- `calls_only_from_passes`: the only action of the transition system that issues API calls on behalf of
the job controller is a controller pass; informer deliveries, resync, restart, the clock, the kubelet,
the user and foreign writers leave the controller's call log as it is — and a pass starts by clearing it,
so `(step s .work).calls` is exactly what that pass issued. -/
theorem calls_only_from_passes (s : Sys) (a : Action) (h : a ≠ .work) : (step s a).calls = s.calls :=
  calls_only_in_work s a h

/-- `clock_never_goes_back`: along every history the clock is non-decreasing (`E-MonotoneClock`: the
only action that changes it is `advance d` with `d ≥ 0`), so a deadline that has passed at some state of a
history has passed at every later state. -/
theorem clock_never_goes_back {ok : Sys → Action → Prop} {j0 : JobObj} {s s' : Sys} (hs : Steps ok j0 s s') :
    s.clock ≤ s'.clock :=
  steps_clock_le hs

/-- … in particular a kill timestamp that has passed stays passed -/
theorem kill_passed_stays_passed {ok : Sys → Action → Prop} {j0 : JobObj} {s s' : Sys} (hs : Steps ok j0 s s')
    (k : Int) (hk : k ≤ s.clock) : k ≤ s'.clock :=
  Int.le_trans hk (steps_clock_le hs)

example : Steps anyAction Ex.job Ex.u1 Ex.u2 ∧ Ex.u1.clock = 0 ∧ Ex.u2.clock = 10000000000 :=
  ⟨steps_run _ _ (by decide +kernel), by decide +kernel, by decide +kernel⟩

/-! ### every delete of every step is justified -/

/-- `pod_delete_justified`: every pod delete issued in ANY step of ANY history (all actions allowed, any
fault pattern) — the step is then a controller pass — is issued for a task `t`
(`t.name = c.name`) that the pass read from a pod CONTROLLED BY THE JOB, and has exactly one of the five
reasons of `PodDeleteWhy`, each judged against the clock and configuration of the state `s` the step
starts in and the Job `jo` in the controller's cache at that moment:
* `pendingTimeout T t' p'`: graceful; `T = GetPendingTimeout(jo) > 0`; `t` has no deletion timestamp; `t'`,
  the task the pass read under that name from the pod `p'` controlled by the Job, reports no running and no
  finish timestamp (`LastTerminationState` included) and `creation(t') + T ≤ s.clock`; the ref the cached
  Job records under that name, if any, shows neither timestamp (repair of F32);
* `killPassed k`: graceful; `jo.spec.killTimestamp = k ≤ s.clock`; `t` unfinished, not being deleted;
* `decided rj'`: graceful; a Job value of the pass with `jo`'s kill timestamp and template whose parallel
  summary is decided against continuing, or that carries the admission error; `t` as before;
* `forceDelete dts`: FORCED; force-delete timeout `F > 0`, not forbidden by `jo`'s template,
  `t.deletionTimestamp = dts`, `dts + F ≤ s.clock`;
* `finalizer`: graceful; `jo` is being deleted and carries the delete-dependents finalizer.
In the first four cases `jo` is started and not being deleted. -/
theorem pod_delete_justified {ok : Sys → Action → Prop} {j0 : JobObj} {s : Sys} (hr : Reach ok j0 s)
    (c : Call) (hc : c ∈ (step s .work).calls) (hv : c.verb = "delete") (hres : c.res = "pods") :
    ∃ jo t p, s.jobCache = some jo ∧ t.name = c.name ∧ podTask s.clock p = some t ∧ p.ownerUid = some j0.uid ∧
      PodDeleteWhy s jo c t := by
  obtain ⟨jo, t, p, hjo, hn, hpt, ho, hwhy⟩ := pod_delete_why s c hc hv hres
  have hu := ((base_of_reach hr).seenOK jo (mem_seenVers_cache hjo)).1.uid
  exact ⟨jo, t, p, hjo, hn, hpt, hu ▸ ho, hwhy⟩

/-- the hypotheses are met: the finalizer pass that leads to `Ex.sE` issues a pod delete -/
example :
    let s := runActs Ex.sB [.userDelete, .deliverJob, .deliverJob]
    Reach anyAction Ex.job s ∧
    (step s .work).calls.map (fun c => (c.verb, c.res, c.name, c.force)) = [("delete", "pods", "job-h-0", false)] :=
  ⟨reach_run Ex.sB_reach _ (by decide +kernel), by decide +kernel⟩

/-- `kill_not_early` (history level): in every step of every history, a graceful pod delete issued while
the cached Job is not being deleted and has the pending timeout disabled (`GetPendingTimeout` ≤ 0 or
undefined) is issued because the cached Job's kill timestamp is set and NOT LATER than the clock of that
step — or because the completion strategy is decided / the Job was refused (the two other triggers of the
kill sweep).  Before a Job's kill timestamp no task is deleted because of it. -/
theorem kill_not_early {ok : Sys → Action → Prop} {j0 : JobObj} {s : Sys} (hr : Reach ok j0 s)
    (c : Call) (hc : c ∈ (step s .work).calls) (hv : c.verb = "delete") (hres : c.res = "pods") (hf : c.force = false) :
    ∃ jo, s.jobCache = some jo ∧
      (jo.job.deletionTimestamp = none →
        (getPendingTimeout jo.job s.cfg = none ∨ ∃ T, getPendingTimeout jo.job s.cfg = some T ∧ T ≤ 0) →
        (∃ k : Int, jo.job.killTimestamp = some k ∧ k ≤ s.clock) ∨
        ∃ rj' : Job, rj'.killTimestamp = jo.job.killTimestamp ∧ rj'.template = jo.job.template ∧
          (shouldKillJobForParallel rj' = true ∨ rj'.admissionError = true)) := by
  obtain ⟨jo, t, p, hjo, _, _, _, hwhy⟩ := pod_delete_justified hr c hc hv hres
  refine ⟨jo, hjo, ?_⟩
  intro hnd hpt
  cases hwhy with
  | pendingTimeout T _ _ _ _ _ hT hpos _ _ _ _ _ _ _ _ =>
    exfalso
    rcases hpt with h | ⟨T', h, hle⟩
    · rw [h] at hT; cases hT
    · rw [h] at hT; cases hT; omega
  | killPassed k _ _ _ _ _ hk hle => exact Or.inl ⟨k, hk, hle⟩
  | decided rj' _ _ _ _ _ h1 h2 h3 => exact Or.inr ⟨rj', h1, h2, h3⟩
  | forceDelete dts hft _ _ _ _ _ _ => rw [hf] at hft; cases hft
  | finalizer _ hd _ => rw [hnd] at hd; cases hd

/-- `pending_not_early` (history level): in every step of every history, a graceful pod delete issued
while the cached Job is not being deleted and its kill timestamp has NOT passed (unset, or later than the
clock of the step) is the pending-timeout reaper's — timeout `T > 0`, the task neither running nor
finished nor being deleted, and `creation + T ≤ clock` of that step — or the completion / admission-error
sweep.  A task is never reaped before its pending deadline.  (`t'`: the task the pass read under the
call's name; the creation time and the two timestamps are the ones its pod reports in that pass.) -/
theorem pending_not_early {ok : Sys → Action → Prop} {j0 : JobObj} {s : Sys} (hr : Reach ok j0 s)
    (c : Call) (hc : c ∈ (step s .work).calls) (hv : c.verb = "delete") (hres : c.res = "pods") (hf : c.force = false) :
    ∃ (jo : JobObj) (t : Task), s.jobCache = some jo ∧ t.name = c.name ∧
      (jo.job.deletionTimestamp = none → (¬ ∃ k : Int, jo.job.killTimestamp = some k ∧ k ≤ s.clock) →
        (∃ (T : Int) (t' : Task), getPendingTimeout jo.job s.cfg = some T ∧ 0 < T ∧ t'.name = c.name ∧
          t'.ref.runningTimestamp = none ∧
          t'.ref.finishTimestamp = none ∧ t.deletionTimestamp = none ∧
          (t'.ref.creationTimestamp.getD zeroTime : Int) + T ≤ s.clock) ∨
        ∃ rj' : Job, rj'.killTimestamp = jo.job.killTimestamp ∧ rj'.template = jo.job.template ∧
          (shouldKillJobForParallel rj' = true ∨ rj'.admissionError = true)) := by
  obtain ⟨jo, t, p, hjo, hn, _, _, hwhy⟩ := pod_delete_justified hr c hc hv hres
  refine ⟨jo, t, hjo, hn, ?_⟩
  intro hnd hnk
  cases hwhy with
  | pendingTimeout T t' p' _ _ _ hT hpos hdt hn' _ _ h1 h2 hd _ => exact Or.inl ⟨T, t', hT, hpos, hn', h1, h2, hdt, hd⟩
  | killPassed k _ _ _ _ _ hk hle => exact absurd ⟨k, hk, hle⟩ hnk
  | decided rj' _ _ _ _ _ h1 h2 h3 => exact Or.inr ⟨rj', h1, h2, h3⟩
  | forceDelete dts hft _ _ _ _ _ _ => rw [hf] at hft; cases hft
  | finalizer _ hd _ => rw [hnd] at hd; cases hd

/-- **`pending_only_never_ran`** (history level; the property's sentence "a task that has not begun running
within the pending timeout … is deleted", at the strength the repair of F32 makes available; monitor
`C12:pending-only-never-ran`).  In every step of every history (all actions allowed, any fault pattern), a
graceful pod delete issued while the cached Job is not being deleted, its kill timestamp has not passed and
neither the completion sweep nor the admission-error sweep applies, is issued for a task of which NEITHER
the record NOR the pod shows that it has begun running:
* the ref the controller's cached Job RECORDS under the task's name, if any, carries neither a running nor a
  finish timestamp — a task recorded as running is never reaped as `PendingTimeout`, even when its container
  has since failed and waits to be restarted (CrashLoopBackOff: no running container);
* the pod of that name controlled by the Job, as the pass read it (`podTask s.clock p' = some t'`), reports no
  container start — `GetContainerStartTime` now also reads `LastTerminationState.Terminated.StartedAt`, so a
  container that started and failed between two passes counts as started — and no finish time. -/
theorem pending_only_never_ran {ok : Sys → Action → Prop} {j0 : JobObj} {s : Sys} (hr : Reach ok j0 s)
    (c : Call) (hc : c ∈ (step s .work).calls) (hv : c.verb = "delete") (hres : c.res = "pods") (hf : c.force = false) :
    ∃ jo : JobObj, s.jobCache = some jo ∧
      (jo.job.deletionTimestamp = none → (¬ ∃ k : Int, jo.job.killTimestamp = some k ∧ k ≤ s.clock) →
        (∃ (t' : Task) (p' : PodObj), t'.name = c.name ∧ podTask s.clock p' = some t' ∧ p'.ownerUid = some j0.uid ∧
          t'.ref.runningTimestamp = none ∧ t'.ref.finishTimestamp = none ∧
          (∀ e, lookupRef jo.job.status.tasks c.name = some e → e.runningTimestamp = none ∧ e.finishTimestamp = none)) ∨
        ∃ rj' : Job, rj'.killTimestamp = jo.job.killTimestamp ∧ rj'.template = jo.job.template ∧
          (shouldKillJobForParallel rj' = true ∨ rj'.admissionError = true)) := by
  obtain ⟨jo, t, p, hjo, hn, _, _, hwhy⟩ := pod_delete_why s c hc hv hres
  have hu := ((base_of_reach hr).seenOK jo (mem_seenVers_cache hjo)).1.uid
  refine ⟨jo, hjo, ?_⟩
  intro hnd hnk
  cases hwhy with
  | pendingTimeout T t' p' _ _ _ _ _ _ hn' hpt' hpo' h1 h2 _ hrec =>
    exact Or.inl ⟨t', p', hn', hpt', hu ▸ hpo', h1, h2, hrec⟩
  | killPassed k _ _ _ _ _ hk hle => exact absurd ⟨k, hk, hle⟩ hnk
  | decided rj' _ _ _ _ _ h1 h2 h3 => exact Or.inr ⟨rj', h1, h2, h3⟩
  | forceDelete dts hft _ _ _ _ _ _ => rw [hf] at hft; cases hft
  | finalizer _ hd _ => rw [hnd] at hd; cases hd

/-- the pod → task mapping of `pending_only_never_ran`: a pod whose only trace of a container start is under
`LastTerminationState` (the container failed and waits to be restarted) reports that start as its running
timestamp — before the repair of F32 it reported none -/
theorem crashloop_pod_reports_start (p : Pod) (st fi : Time) (hst : isUnixZero (some st) = false)
    (hc : p.containers = [{ lastTerminated := some { startedAt := some st, finishedAt := some fi, reason := "Error" } }]) :
    containerStartTime p = some st := by
  unfold containerStartTime
  rw [hc]
  simp [hst, timeMax]

/-- `force_delete_gated` (history level): in every step of every history, every FORCED pod delete is
issued with the force-delete timeout `F > 0` configured, force deletion not forbidden by the cached Job's
template, for a task that carries a deletion timestamp `dts` with `dts + F ≤ clock` of that step.  Tasks
that ignore deletion are force-deleted only after the timeout, and never when the Job forbids it. -/
theorem force_delete_gated {ok : Sys → Action → Prop} {j0 : JobObj} {s : Sys} (hr : Reach ok j0 s)
    (c : Call) (hc : c ∈ (step s .work).calls) (hv : c.verb = "delete") (hres : c.res = "pods") (hf : c.force = true) :
    ∃ (jo : JobObj) (t : Task), s.jobCache = some jo ∧ t.name = c.name ∧ 0 < getForceDeleteTimeout s.cfg ∧
      (jo.job.template.map (·.forbidTaskForceDeletion)).getD false = false ∧
      ∃ dts : Int, t.deletionTimestamp = some dts ∧ dts + getForceDeleteTimeout s.cfg ≤ s.clock := by
  obtain ⟨jo, t, p, hjo, hn, _, _, hwhy⟩ := pod_delete_justified hr c hc hv hres
  refine ⟨jo, t, hjo, hn, ?_⟩
  cases hwhy with
  | pendingTimeout T _ _ hf' _ _ _ _ _ _ _ _ _ _ _ _ => rw [hf] at hf'; cases hf'
  | killPassed k hf' _ _ _ _ _ _ => rw [hf] at hf'; cases hf'
  | decided rj' hf' _ _ _ _ _ _ _ => rw [hf] at hf'; cases hf'
  | forceDelete dts _ _ _ hpos hfb hdt hd => exact ⟨hpos, hfb, dts, hdt, hd⟩
  | finalizer hf' _ _ => rw [hf] at hf'; cases hf'

/-- `ttl_not_early` (history level): in every step of every history, every Job delete call is the TTL
deletion: the cached Job is not being deleted, and the Job value the pass has just refreshed from it (same
spec) is `Finished` with `finishTimestamp + TTL ≤ clock` of that step, `TTL` the EFFECTIVE value
(`GetTTLAfterFinished`: job-level `ttlSecondsAfterFinished`, else the controller default, else 0). -/
theorem ttl_not_early {ok : Sys → Action → Prop} {j0 : JobObj} {s : Sys} (_hr : Reach ok j0 s)
    (c : Call) (hc : c ∈ (step s .work).calls) (hv : c.verb = "delete") (hres : c.res = "jobs") :
    ∃ jo rj' fin, s.jobCache = some jo ∧ c.name = jo.name ∧ jo.job.deletionTimestamp = none ∧
      SpecLe jo.job rj' ∧ rj'.status.condition.finished = some fin ∧
      fin.finishTimestamp.getD zeroTime + getTTLAfterFinished jo.job s.cfg ≤ s.clock :=
  job_delete_why s c hc hv hres

/-- the hypotheses of `ttl_not_early` are met: `Ex.sC` (Job Finished at 0 s, TTL 1000 s, everything
delivered); 1000 s later the timer fires and the pass deletes the Job -/
example :
    let s := runActs Ex.sC [.deliverJob, .advance (Ex.sec 1000)]
    Reach anyAction Ex.job s ∧
    ((step s .work).calls.map (fun c => (c.verb, c.res, c.name))).head? = some ("delete", "jobs", "job") :=
  ⟨reach_run Ex.sC_reach _ (by decide +kernel), by decide +kernel⟩

/-- `create_justified` (history level): in every step of every history, every create call is a pod create
for a due request of `ComputeMissingIndexesForCreation` on the CACHED refs, and the cached Job is
started, not being deleted, and carries NO kill timestamp and no admission error. -/
theorem create_justified {ok : Sys → Action → Prop} {j0 : JobObj} {s : Sys} (_hr : Reach ok j0 s)
    (c : Call) (hc : c ∈ (step s .work).calls) (hv : c.verb = "create") :
    ∃ jo, s.jobCache = some jo ∧ c.res = "pods" ∧ isStarted jo.job = true ∧ jo.job.deletionTimestamp = none ∧
      jo.job.killTimestamp = none ∧ jo.job.admissionError = false ∧
      ∃ reqs, computeMissingIndexesForCreation s.d jo.job (jo.job.indexes s.d) = some reqs ∧
        ∃ r ∈ reqs, c.name = taskName jo.name r.index.hash r.retryIndex ∧ reqDueNow s.clock r :=
  create_why s c hc hv

example : (step (step Ex.s0 .deliverJob) .work).calls.map (fun c => (c.verb, c.res, c.name)) =
    [("create", "pods", "job-h-0"), ("update", "jobs", "job")] := by decide +kernel

/-! ### `no_create_after_kill_seen` -/

/-- `kill_never_removed` (every reachable state, ALL actions allowed): no action removes a kill timestamp
from the authoritative Job — the only user action on it, `kill t`, SETS one (it may replace the value:
the model does not enforce the webhook's "immutable once passed", C17), `userDelete` and the controller's
writes keep it.  So once the authoritative Job carries a kill timestamp it carries one for as long as the
object exists. -/
theorem kill_never_removed {ok : Sys → Action → Prop} {j0 : JobObj} {s s' : Sys} (hr : Reach ok j0 s)
    (hs : Steps ok j0 s s') (j j' : JobObj) (hj : s.job = some j) (hj' : s'.job = some j')
    (hk : j.job.killTimestamp.isSome = true) : j'.job.killTimestamp.isSome = true := by
  have key := steps_rel (ok := ok) (j0 := j0) (fun x y => x.killTimestamp.isSome = true → y.killTimestamp.isSome = true)
    (fun _ h => h) (fun _ _ _ h1 h2 h => h2 (h1 h))
    (fun s1 a _ hr1 _ hal j1 j1' h1 h1' => by
      have hm := job_moves (base_of_reach hr1) a hal
      rw [h1, h1'] at hm
      suffices hgen : ∀ o o', JobMoves s1 a o o' → ∀ x y, o = some x → o' = some y →
          x.job.killTimestamp.isSome = true → y.job.killTimestamp.isSome = true from hgen _ _ hm j1 j1' rfl rfl
      intro o o' hmv
      induction hmv with
      | refl => intro x y h1 h2 h; rw [h1] at h2; cases h2; exact h
      | tail hms hmv ih =>
        intro x y hx hy h
        cases hmv with
        | goneUser => cases hy
        | goneTTL => cases hy
        | goneSpec => cases hy
        | delMark cur t rv _ _ _ _ => cases hy; exact ih x cur hx rfl h
        | kill cur t rv _ _ => cases hy; rfl
        | ctlSpec jo sp rv _ _ _ _ _ =>
          cases hy
          have := ih x jo hx rfl h
          show (specWrite jo _ rv).job.killTimestamp.isSome = true
          unfold specWrite
          simp only
          rw [(sync_spec sp jo sp (CreatePhase.refl _)).2.kill]; exact this
        | ctlStatus jo sp rv _ _ _ _ => cases hy; exact ih x jo hx rfl h
        | ctlStatusOn jo sp rv0 rv _ _ _ _ =>
          cases hy
          exact ih x (specWrite jo { jo with job := (sync sp jo).2.1, finalizer := (sync sp jo).2.2.1 } rv0) hx rfl h)
    hr hs j j' hj hj'
  exact key hk

/-- `kill_seen_is_final` (every reachable state, ALL actions allowed): once the controller's CACHED
copy of the Job carries a kill timestamp, whatever its cache holds at ANY later state of the history
carries one too — a later watch event, the relisted object after a restart — and so does the
authoritative object.  (Cache versions only move forward along the versions of the one Job object,
`C11Hist.rv_identifies_cached`; no write removes a kill timestamp, `kill_never_removed`; the Job object,
once removed, never reappears, `C09Hist.job_gone_stays_gone`, so "the same incarnation" is automatic.) -/
theorem kill_seen_is_final {ok : Sys → Action → Prop} {j0 : JobObj} {s s' : Sys} (hr : Reach ok j0 s)
    (hs : Steps ok j0 s s') (c : JobObj) (hc : s.jobCache = some c) (hk : c.job.killTimestamp.isSome = true) :
    (∀ c', s'.jobCache = some c' → c'.job.killTimestamp.isSome = true) ∧
    (∀ j', s'.job = some j' → j'.job.killTimestamp.isSome = true) :=
  ⟨fun _ hc' => kill_seen_stays hr hs hc hk hc', fun _ hj' => kill_seen_job hr hs hc hk hj'⟩

/-- `no_create_after_kill_seen` (every reachable state, ALL actions allowed, any fault pattern): once
the controller's cached copy of the Job carries a kill timestamp — even one that is still in the future
— NO later step of the history issues a create call, and no later controller pass adds a pod to the
server: every pod name on the server after the pass was there before it.  (Other actions add pods only
as `createForeign`, `C08Hist.pods_created_only_by_pass_or_foreign`.) -/
theorem no_create_after_kill_seen {ok : Sys → Action → Prop} {j0 : JobObj} {s s' : Sys} (hr : Reach ok j0 s)
    (hs : Steps ok j0 s s') (c : JobObj) (hc : s.jobCache = some c) (hk : c.job.killTimestamp.isSome = true) :
    (∀ call ∈ (step s' .work).calls, call.verb ≠ "create") ∧
    (∀ n ∈ podNames (step s' .work).pods, n ∈ podNames s'.pods) := by
  have hfinal := (kill_seen_is_final hr hs c hc hk).1
  refine ⟨?_, ?_⟩
  · intro call hcall hv
    obtain ⟨jo, hjo, _, _, _, hnk, _⟩ := create_why s' call hcall hv
    have := hfinal jo hjo
    rw [hnk] at this; cases this
  · intro n hn
    by_cases hnew : n ∈ podNames s'.pods
    · exact hnew
    · exfalso
      obtain ⟨jo, idx, retry, hjo, hreq, _⟩ := work_new_pod_names s' n hn hnew
      obtain ⟨_, _, hcan, _⟩ := hreq
      have := hfinal jo hjo
      unfold canCreateTask at hcan
      simp [this] at hcan

/-- the hypotheses are met on a concrete history: from `Ex.sA` (task `job-h-0` recorded, its pod alive)
the user sets a kill timestamp in the FUTURE (500 s) and the event is delivered: the cached copy carries
it; then the pod is lost, its events are delivered, a pass records the loss and the status update is
delivered — the index has no live task and an attempt left — yet the next pass creates nothing (whereas
without the kill timestamp the same pass creates the retry `job-h-1`). -/
example :
    let s := runActs Ex.sA [.kill 500000000000, .deliverJob]
    let tail : List Action := [.externalDelete "job-h-0", .deliverPod, .deliverPod, .work, .deliverJob]
    let s' := runActs s tail
    let t' := runActs (runActs Ex.sA [.deliverJob]) tail
    Reach anyAction Ex.job s ∧ Steps anyAction Ex.job s s' ∧
    (s.jobCache.map (fun c => c.job.killTimestamp)) = some (some 500000000000) ∧ s'.clock = 0 ∧
    (step s' .work).calls = [] ∧ (step s' .work).pods = [] ∧
    ((step t' .work).calls.map (fun c => (c.verb, c.res, c.name))).head? = some ("create", "pods", "job-h-1") :=
  ⟨reach_run Ex.sA_reach _ (by decide +kernel), steps_run _ _ (by decide +kernel), by decide +kernel,
    by decide +kernel, by decide +kernel, by decide +kernel, by decide +kernel⟩

/-! ### `kill_sweep_monotone`: deletion markers are kept -/

/-- `marker_is_killed_unless_finished` (every reachable state, ALL actions allowed): in the authoritative
status, the `deletedStatus` of a ref that carries NO finish timestamp is a `Terminated / Killed` marker —
written by the pending-timeout reaper (`PendingTimeout`), the kill sweep, the force-delete step
(`ForceDeleted`) or the finalizer (`JobDeleted`).  (On a finished ref `GetTaskRef` stores the task's own
terminal status there.) -/
theorem marker_is_killed_unless_finished {ok : Sys → Action → Prop} {j0 : JobObj} {s : Sys} (hr : Reach ok j0 s)
    (j : JobObj) (hj : s.job = some j) (r : TaskRef) (hrm : r ∈ j.job.status.tasks) (ds : TaskStatus)
    (hds : r.deletedStatus = some ds) (hnf : r.finishTimestamp = none) :
    ds.state = .terminated ∧ ds.result = .killed := by
  rcases markerOK_of_reach hr j hj r hrm ds hds with h | h
  · exact h
  · rw [hnf] at h; cases h

/-- `deletion_marker_kept` (`kill_sweep_monotone` / `killed_stays_killed`): once a task's ref carries a
deletion marker, later passes never un-mark it while it is unfinished.  Every reachable state, ALL
actions allowed: faults, informer lag, restart, later passes on stale copies, user kill / delete, foreign
pods; index hashes `WF2`.  Once a ref of the authoritative status carries a deletion marker `ds` (a pass
marked the task `Killed` when it deleted it), then in EVERY later state of the history in which the Job
object exists the ref of that name
* still carries a finish timestamp if it carried one, and
* still carries a `deletedStatus` with the same state and result (only the reason may change, to
  `ForceDeleted`) — unless that ref is finished by then: when the task's pod is observed terminal,
  `GetTaskRef` replaces the marker by the pod's own terminal status.
No later pass un-marks a task that is still unfinished: whatever copy of the Job or of the pod it works
from, `GetTaskRef` carries `existing.DeletedStatus` over and the handlers only re-mark. -/
theorem deletion_marker_kept {ok : Sys → Action → Prop} {j0 : JobObj} {s s' : Sys} (hr : Reach ok j0 s)
    (hwf : WF2 j0 s.d) (hs : Steps ok j0 s s') (j j' : JobObj) (hj : s.job = some j) (hj' : s'.job = some j')
    (ex : TaskRef) (hex : ex ∈ j.job.status.tasks) (ds : TaskStatus) (hds : ex.deletedStatus = some ds) :
    ∃ r ∈ j'.job.status.tasks, r.name = ex.name ∧
      (ex.finishTimestamp.isSome = true → r.finishTimestamp.isSome = true) ∧
      ∃ ds', r.deletedStatus = some ds' ∧
        ((ds'.state = ds.state ∧ ds'.result = ds.result) ∨ r.finishTimestamp.isSome = true) := by
  have hm := marked_steps hr hs j j' hj hj'
  obtain ⟨r, hrm, hrn⟩ := hm.names ex hex
  obtain ⟨ex', hex', hn', hk⟩ := hm.keep r hrm ⟨ex, hex, hrn.symm⟩
  have hnd := ((inv2_of_reach hr hwf).job j hj).nodup
  have : ex' = ex := inj_on_of_nodup_map (f := fun r : TaskRef => r.name) hnd hex' hex (hn'.trans hrn)
  subst this
  exact ⟨r, hrm, hk.1, hk.2.1, hk.2.2 ds hds⟩

/-- … hence a task that was marked and then VANISHES (its pod is removed before it is ever observed
terminal) is recorded as a finished, KILLED attempt — `GenerateTaskRefs` gives a vanished task its
`deletedStatus` as status — and never as `DeletedFinalStateUnknown` (pure step, for every unfinished ref
that satisfies `marker_is_killed_unless_finished`). -/
theorem marked_task_lost_is_killed (now : Time) (ex : TaskRef) (ds : TaskStatus) (hds : ex.deletedStatus = some ds)
    (hk : ds.state = .terminated ∧ ds.result = .killed) :
    (lostRef now ex).status.state = .terminated ∧ (lostRef now ex).status.result = .killed ∧
    (lostRef now ex).finishTimestamp.isSome = true := by
  have h := Furiko.Props.C11.lostRef_retains now ex
  have hst : (lostRef now ex).status = ds := by
    have := h.2.2.2.2
    rw [hds] at this
    exact this
  rw [hst]
  exact ⟨hk.1, hk.2, h.2.2.2.1⟩

/-- the hypotheses are met on a kill history: from `Ex.sA` the user sets a kill timestamp that has passed
(0 s), the event is delivered and the pass sweeps: `job-h-0` gets its graceful delete and the marker
(`k1`: phase Killing); then the kubelet removes the pod, the events are delivered, a pass runs (`k2`): the
ref keeps the marker, is recorded Terminated / Killed with a finish time, and the Job is `Killed`. -/
example :
    let k1 := runActs Ex.sA [.kill 0, .deliverJob, .work]
    let k2 := runActs k1 [.deliverJob, .podGone "job-h-0", .deliverPod, .deliverPod, .deliverPod, .work]
    Reach anyAction Ex.job k1 ∧ Steps anyAction Ex.job k1 k2 ∧ WF2 Ex.job k1.d ∧
    k1.calls.map (fun c => (c.verb, c.res, c.name, c.force)) =
      [("delete", "pods", "job-h-0", false), ("update", "jobs", "job", false)] ∧
    (k1.job.map (fun j => (j.job.status.phase, j.job.status.tasks.map (fun r =>
      (r.name, r.finishTimestamp.isSome, r.deletedStatus.map (·.result))))) =
      some ("Killing", [("job-h-0", false, some TaskResult.killed)])) ∧
    (k2.job.map (fun j => (j.job.status.phase, j.job.status.tasks.map (fun r =>
      (r.name, r.finishTimestamp.isSome, r.deletedStatus.map (·.result))))) =
      some ("Killed", [("job-h-0", true, some TaskResult.killed)])) ∧
    (k2.job.map (fun j => j.job.status.tasks.map (fun r => (r.status.state, r.status.result))) =
      some [(TaskState.terminated, TaskResult.killed)]) ∧
    k2.pods = [] :=
  ⟨reach_run Ex.sA_reach _ (by decide +kernel), steps_run _ _ (by decide +kernel),
    ⟨by decide +kernel, by decide +kernel⟩, by decide +kernel, by decide +kernel, by decide +kernel, by decide +kernel,
    by decide +kernel⟩

/-! ### `Finished / Killed` is NOT stable over all histories

The candidate "a Job that reached Finished / Killed stays Finished" cannot be obtained by instantiating
`C11Hist.finished_stays_finished_partial`: its envelope (`stabEnvF`) excludes the user's `kill` action and
its Job (`WF3`) is created without kill timestamp, so no history it covers ever shows the result `Killed`
on a Job that is not being deleted (the only other source of `Killed` is the deletion override, and the
stability clause exempts deleting Jobs).  And over ALL histories the statement is false on the model: -/

def reopenRun4 : List Action :=
  [.deliverPod, .kubelet (Ex.withPhase Ex.podA .failed), .deliverPod, .work, .kill 0, .deliverJob, .work]
def reopenRun5 : List Action := [.deliverJob, .work]
def reopenRun6 : List Action := [.deliverPod, .deliverJob, .work]
def reopenK4 : Sys := runActs Ex.sA reopenRun4
def reopenK5 : Sys := runActs reopenK4 reopenRun5
def reopenK6 : Sys := runActs reopenK5 reopenRun6

/-- witness: the user's kill races a pass that still works from a PRE-KILL copy of the Job.
From `Ex.sA` (two attempts; `job-h-0` recorded, alive): the pod's creation event is delivered; `job-h-0`
FAILS and is recorded (version v5; the Job cache lags at v3); the user sets a kill timestamp that has
passed (`kill 0`: v6); the Job cache catches up to v5 only — no kill timestamp in it — and the pass creates
the retry `job-h-1`, its status write conflicts with v6 (`reopenK4`); the cache reaches v6 and the pass, which
may no longer create, finds every recorded ref finished: the Job is written Finished / `Killed` (`reopenK5`) while
`job-h-1` — created, unrecorded, its event undelivered — is alive; once that event and the status update
are delivered the next pass adopts `job-h-1`, sweeps it, and the Job is UNFINISHED again, phase `Killing`
(`reopenK6`).  (`E-OrphanVisible` of the harness excludes this run; `deletion_marker_kept`, `kill_seen_is_final`
and `no_create_after_kill_seen` hold on it.) -/
theorem killed_reopened_witness :
    Reach anyAction Ex.job reopenK5 ∧ Steps anyAction Ex.job reopenK5 reopenK6 ∧
    reopenK4.calls.map (fun c => (c.verb, c.res, c.name, c.out)) =
      [("create", "pods", "job-h-1", "ok"), ("update", "jobs", "job", "conflict")] ∧
    (reopenK5.job.map (fun j => (j.job.deletionTimestamp, j.job.killTimestamp, j.job.status.phase,
      j.job.status.condition.finished.map (·.result)))) = some (none, some 0, "Killed", some .killed) ∧
    reopenK5.pods.map (fun p => (p.pod.name, p.pod.isFinished, p.pod.deletionTimestamp)) =
      [("job-h-0", true, none), ("job-h-1", false, none)] ∧
    (reopenK6.job.map (fun j => (j.job.deletionTimestamp, j.job.status.phase, j.job.status.condition.finished.isSome))) =
      some (none, "Killing", false) :=
  ⟨reach_run (reach_run Ex.sA_reach reopenRun4 (by decide +kernel)) reopenRun5 (by decide +kernel),
    steps_run reopenK5 reopenRun6 (by decide +kernel), by decide +kernel, by decide +kernel, by decide +kernel,
    by decide +kernel⟩

end Furiko.Props.C12Hist
