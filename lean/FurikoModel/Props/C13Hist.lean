/-
C13 — "A Job disappears only after its tasks are gone": HISTORY-level theorem over every state
reachable in the transition system of `Proofs/JobCtlSys.lean` (conventions as in `Props/C11Hist.lean`;
ALL actions are allowed: any fault pattern, informer lag, restart, kubelet, external pod deletion,
user kill / delete, foreign pods).
-/
import FurikoModel.Proofs.JobCtlInvExamples

namespace Furiko.Props.C13Hist
open Furiko Furiko.JobCtl

/-- `job_gone_implies_tasks_gone`: in every reachable state, if a step makes the authoritative Job
object disappear and that object carries the delete-dependents finalizer, then
* the step is a controller pass (`work`) whose cached Job IS the authoritative object, and it has a
  deletion timestamp;
* that pass found no task listed in `status.tasks`: not in the pod cache and, confirmed by a live GET
  for EVERY listed task whether recorded finished or not (fix 27db662), not on the server — so no pod
  CONTROLLED BY THE JOB that is named in `status.tasks` exists in `s.pods` (other than one whose
  `GetTaskRef` would panic, which the kubelet model of the engine never produces).  Since the repair of
  F22 a pod of that name that is NOT controlled by the Job is not the task: it does not keep the
  finalizer (`foreign_pod_does_not_block_removal` below) and is not deleted;
* (repair of F-C20-1) that pass found no UNRECORDED task of the Job in the pod cache either: no cached
  pod labelled with and controlled by the Job that `status.tasks` does not name (a task that was
  created while the status update recording it failed) — `finalizerTasks s j j.job = []`;
* the pass issued no pod call: the server's pods are the same before and after.
(A Job WITHOUT the finalizer goes as soon as the user or the TTL deletes it; the property does not
speak about those.) -/
theorem job_gone_implies_tasks_gone {ok : Sys → Action → Prop} {j0 : JobObj} {s : Sys} (hr : Reach ok j0 s)
    (a : Action) (hal : Allowed j0 s a) (j : JobObj) (hj : s.job = some j) (hfin : j.finalizer = true)
    (hgone : (step s a).job = none) :
    a = .work ∧ s.jobCache = some j ∧ j.job.deletionTimestamp.isSome = true ∧
    (∀ r ∈ j.job.status.tasks, getTaskForRef s j r = none ∧ liveGetTask s j r.name = none ∧
      ∀ p, findPod s.pods r.name = some p → p.ownerUid = some j.uid → podTask s.clock p = none) ∧
    (∀ p ∈ s.podCache, p.jobLabel = some j.uid → p.ownerUid = some j.uid →
      (∀ r ∈ j.job.status.tasks, r.name ≠ p.pod.name) → podTask s.clock p = none) ∧
    finalizerTasks s j j.job = [] ∧
    (step s a).pods = s.pods := by
  obtain ⟨h1, h2, h3, h4', h5⟩ := gone_only_when_no_task (base_of_reach hr) a hal j hj hfin hgone
  obtain ⟨h4, hun⟩ := (Furiko.Props.C13.finalizerTasks_nil_iff s j j.job).mp h4'
  refine ⟨h1, h2, h3, ?_, fun p hp hl ho hn => hun p hp ⟨hl, ho, hn⟩, h4', h5⟩
  intro r hr'
  have hlive := Furiko.Props.C13.confirmed_empty_means_gone s j _ h4 r hr'
  refine ⟨?_, hlive, ?_⟩
  · unfold tasksForRefsConfirmed at h4
    rw [List.filterMap_eq_nil_iff] at h4
    have := h4 r hr'
    unfold getTaskForRefConfirmed at this
    cases hg : getTaskForRef s j r with
    | none => rfl
    | some t => rw [hg] at this; cases this
  · intro p hp ho
    unfold liveGetTask isControlledByJob at hlive
    rw [hp] at hlive
    simpa [ho] using hlive

/-- … and until that pass the finalizer stays on the object, whatever happens. -/
theorem finalizer_stays_until_gone {ok : Sys → Action → Prop} {j0 : JobObj} {s : Sys} (hr : Reach ok j0 s)
    (a : Action) (hal : Allowed j0 s a) (j j' : JobObj) (hj : s.job = some j) (hfin : j.finalizer = true)
    (hj' : (step s a).job = some j') : j'.finalizer = true :=
  finalizer_kept (base_of_reach hr) a hal j j' hj hfin hj'

/-- the hypotheses are met: in `Ex.sF` (Job finished, deleted by the user, its pod deleted by the
finalizer pass and removed by the kubelet, all events delivered) the next pass removes the Job -/
example : Reach anyAction Ex.job Ex.sF ∧ Ex.sF.job.map (·.finalizer) = some true ∧
    (step Ex.sF .work).job = none ∧ Ex.sF.pods = [] :=
  ⟨Ex.sF_reach, by decide +kernel, by decide +kernel, by decide +kernel⟩

/-- F22, the finalizer, on a history: from `Ex.sF` (Job deleted by the user, its pod `job-h-0` deleted by
the finalizer pass and gone) a pod controlled by ANOTHER Job is created under the recorded name
`job-h-0` and reaches the pod cache; the next pass still removes the Job — the foreign pod does not keep
the finalizer — and issues no pod call: the foreign pod is still there. -/
theorem foreign_pod_does_not_block_removal :
    let s := runActs Ex.sF [.createForeign Ex.foreignPod, .deliverPod]
    Reach anyAction Ex.job s ∧ s.job.map (fun j => (j.finalizer, refNames j.job)) = some (true, ["job-h-0"]) ∧
    s.podCache.map (fun p => (p.pod.name, p.ownerUid)) = [("job-h-0", some "other-uid")] ∧
    (step s .work).job = none ∧
    (step s .work).pods.map (fun p => (p.pod.name, p.ownerUid)) = [("job-h-0", some "other-uid")] ∧
    (step s .work).calls.map (fun c => (c.verb, c.res, c.name, c.out)) = [("update", "jobs", "job", "ok")] :=
  ⟨reach_run Ex.sF_reach _ (by decide +kernel), by decide +kernel, by decide +kernel, by decide +kernel,
    by decide +kernel, by decide +kernel⟩

/-- F18 regression.  Before commit 27db662 the finalizer pass trusted the pod cache for FINISHED refs:
from `Ex.sB` (Job Finished / Success; `job-h-0` recorded finished by a live GET, never seen by the pod
cache) the run `userDelete, deliverJob, deliverJob, work` dropped the finalizer and the Job object
disappeared while pod `job-h-0` still existed and no delete had been issued for it.  On the current
model the same pass confirms the absence with a live GET, finds the pod, issues its delete and keeps
the finalizer. -/
theorem f18_regression :
    Reach anyAction Ex.job Ex.sE ∧
    Ex.sE.job.map (fun j => (j.finalizer, j.job.deletionTimestamp.isSome)) = some (true, true) ∧
    Ex.sE.pods.map (fun p => (p.pod.name, p.pod.deletionTimestamp.isSome)) = [("job-h-0", true)] ∧
    Ex.sE.calls.map (fun c => (c.verb, c.res, c.name, c.out)) = [("delete", "pods", "job-h-0", "ok")] :=
  ⟨Ex.sE_reach, by decide +kernel, by decide +kernel, by decide +kernel⟩

/-- F-C20-1 regression.  Before the repair the finalizer swept only the tasks LISTED in the status:
from the start, the run `deliverJob, setFaults ["", "conflict"], work` creates pod `job-h-0` while the
status update that records it fails; after `deliverPod, userDelete, deliverJob` the finalizer pass
(`work`) found nothing listed, dropped the finalizer, and the Job object disappeared while `job-h-0`
still existed with no delete issued (only the garbage collector would have removed it).  On the
current model the same pass adopts the unrecorded task from the pod cache, issues its delete, records
it and KEEPS the finalizer (`Ex.sG`); once the kubelet has removed the pod and the events are delivered
(`Ex.sH`) the next pass removes the Job: it is gone only after its task is gone. -/
theorem f_c20_1_regression :
    Reach anyAction Ex.job Ex.sG ∧
    Ex.sG.job.map (fun j => (j.finalizer, j.job.deletionTimestamp.isSome, j.job.status.tasks.map (·.name))) =
      some (true, true, ["job-h-0"]) ∧
    Ex.sG.pods.map (fun p => (p.pod.name, p.pod.deletionTimestamp.isSome)) = [("job-h-0", true)] ∧
    Ex.sG.calls.map (fun c => (c.verb, c.res, c.name, c.out)) =
      [("delete", "pods", "job-h-0", "ok"), ("update", "jobs", "job", "ok")] ∧
    Reach anyAction Ex.job Ex.sH ∧ Ex.sH.job.map (·.finalizer) = some true ∧ Ex.sH.pods = [] ∧
    (step Ex.sH .work).job = none :=
  ⟨Ex.sG_reach, by decide +kernel, by decide +kernel, by decide +kernel, Ex.sH_reach, by decide +kernel,
    by decide +kernel, by decide +kernel⟩

end Furiko.Props.C13Hist
