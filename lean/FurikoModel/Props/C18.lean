/-
C18 — Option evaluation and variable substitution are total, ordered and deterministic.

Property theorems only (helper lemmas: Proofs/OptionsLemmas.lean, Proofs/SubstTokens.lean).
Model: Model/Options.lean (evaluators, defaults, validation) and Model/Subst.lean
(`strings.ReplaceAll` fold, reserved-prefix cleanup, merges, pod-time order of sources).

Part 1: evaluation.  Part 2: substitution (priority, reserved prefixes, untouched text).
Part 3: determinism — VARIANT A (the code as it is: map iteration order, finding F4) and
VARIANT B (the code after fix_F4.diff: keys visited in sorted order), clearly separated.
-/
import FurikoModel.Proofs.OptionsLemmas
import FurikoModel.Proofs.SubstTokens

namespace Furiko.Props.C18
open Furiko Furiko.Options Furiko.Subst Furiko.SubstTokens Furiko.OptionsLemmas

/-! ## Part 1 — evaluation -/

/-- Evaluation is total: every (value, option) pair is either rejected with one of the three
error kinds or yields a value (the model is a total function; that the Go code never panics is
the correspondence check's `panic` output, which the model never predicts). -/
theorem evaluate_total (D : DateOracle) (v : Value) (o : Opt) :
    (∃ s, evaluateOption D v o = .ok s) ∨ (∃ e, evaluateOption D v o = .error e) := by
  cases h : evaluateOption D v o with
  | ok s => exact Or.inl ⟨s, rfl⟩
  | error e => exact Or.inr ⟨e, rfl⟩

/-- what it means for an evaluated value to respect the option's constraints -/
def Respects (D : DateOracle) (o : Opt) (s : Str) : Prop :=
  match o.type with
  | .bool => ∃ b, formatValue (o.bool.getD {}) b = some s
  | .string =>
    (o.required = true → s ≠ []) ∧ ((o.string.getD {}).trimSpaces = true → trimSpace s = s)
  | .select =>
    (o.required = true → s ≠ []) ∧
    (s = [] ∨ (o.select.getD {}).allowCustom = true ∨ s ∈ (o.select.getD {}).values)
  | .multi =>
    ∃ vs, s = join (o.multi.getD {}).delimiter vs ∧ (o.required = true → vs ≠ [] ∧ s ≠ []) ∧
      ∀ x ∈ vs, x ≠ [] ∧ ((o.multi.getD {}).allowCustom = true ∨ x ∈ (o.multi.getD {}).values)
  | .date =>
    (s = [] ∧ o.required = false) ∨
    ∃ t, t.zero = false ∧ D.format t (o.date.getD {}).format = some s
  | .unknown _ => False

/-- Whatever evaluation yields respects the option's constraints: allowed values unless custom
values are allowed, required ⇒ non-empty, trimming, bool / multi / date formatting. -/
theorem evaluate_respects_constraints (D : DateOracle) (v : Value) (o : Opt) (s : Str)
    (h : evaluateOption D v o = .ok s) : Respects D o s := by
  unfold evaluateOption at h
  unfold Respects
  split at h
  · -- bool
    next ht =>
    simp only [ht]
    simp only [evaluateBool] at h
    split at h
    · next b _ =>
      split at h
      · next r hr => cases h; exact ⟨b, hr⟩
      · cases h
    · cases h
  · -- string
    next ht =>
    simp only [ht]
    simp only [evaluateString] at h
    split at h
    · next x _ =>
      by_cases htrim : (o.string.getD {}).trimSpaces = true
      · simp only [htrim, if_true] at h
        split at h
        · cases h
        · next hreq =>
          cases h
          exact ⟨fun hr he => hreq (by simp [hr, he]), fun _ => trimSpace_idem x⟩
      · simp only [htrim, Bool.false_eq_true, if_false] at h
        split at h
        · cases h
        · next hreq =>
          cases h
          exact ⟨fun hr he => hreq (by simp [hr, he]), fun ht => absurd ht htrim⟩
    · cases h
  · -- select
    next ht =>
    simp only [ht]
    simp only [evaluateSelect] at h
    split at h
    · next x _ =>
      split at h
      · cases h
      · next h1 =>
        split at h
        · cases h
        · next h2 =>
          cases h
          constructor
          · intro hr he
            apply h2
            simp [hr, he]
          · by_cases he : s = []
            · exact Or.inl he
            · by_cases hc : (o.select.getD {}).allowCustom = true
              · exact Or.inr (Or.inl hc)
              · right; right
                apply (containsString_iff _ _).mp
                cases hcs : containsString (o.select.getD {}).values s with
                | true => rfl
                | false =>
                  exfalso; apply h1
                  have : s.isEmpty = false := by cases s <;> simp_all
                  simp [this, hc, hcs]
    · cases h
  · -- multi
    next ht =>
    simp only [ht]
    simp only [evaluateMulti] at h
    split at h
    · split at h
      · cases h
      · exact multi_finish_respects o _ _ s h
    · exact multi_finish_respects o _ _ s h
    · cases h
  · -- date
    next ht =>
    simp only [ht]
    simp only [evaluateDate] at h
    split at h
    · cases h
    · next t _ =>
      split at h
      · next hz =>
        split at h
        · cases h
        · next hr => cases h; exact Or.inl ⟨rfl, by simpa using hr⟩
      · next hz =>
        split at h
        · next r hr => cases h; exact Or.inr ⟨t, by simpa using hz, hr⟩
        · cases h
  · cases h

/-- If `EvaluateOptions` reports no error (the Job is not rejected), the result holds exactly one
value per option of an accepted spec (names pairwise distinct): the keys are the options'
variable names, once each and nothing else, and each value is that option's evaluation of the
submitted value (`nil` when the key is missing). -/
theorem one_value_per_option (D : DateOracle) (vals : List (Str × Value)) (opts : List Opt)
    (m : List (Str × Str)) (hnd : (opts.map (·.name)).Nodup)
    (h : evaluateOptions D vals (some opts) = (m, [])) :
    m.map Prod.fst = opts.map optionVariableName ∧ (m.map Prod.fst).Nodup ∧
    ∀ o ∈ opts, ∃ s, evaluateOption D ((lookupS o.name vals).getD Value.null) o = .ok s ∧
      lookupS (optionVariableName o) m = some s := by
  rw [evaluateOptions_eq] at h
  obtain ⟨_, hkeys, _, hall⟩ := fold_ok D vals opts [] [] m hnd (fun _ _ => by simp [keysOf]) h
  simp only [keysOf, List.map_nil, List.nil_append] at hkeys
  refine ⟨hkeys, ?_, hall⟩
  rw [hkeys]
  exact nodup_variableNames opts hnd

/-- and conversely a rejected Job has no evaluated map to speak of: any evaluation error of any
option is reported (the error list is non-empty) -/
theorem rejects_if_some_option_fails (D : DateOracle) (vals : List (Str × Value)) (opts : List Opt)
    (m : List (Str × Str)) (hnd : (opts.map (·.name)).Nodup)
    (h : evaluateOptions D vals (some opts) = (m, [])) (o : Opt) (ho : o ∈ opts) (e : EvalErr) :
    evaluateOption D ((lookupS o.name vals).getD Value.null) o ≠ .error e := by
  obtain ⟨_, _, hall⟩ := one_value_per_option D vals opts m hnd h
  obtain ⟨s, hs, _⟩ := hall o ho
  rw [hs]; intro hc; cases hc

/-- The default is used exactly when no value is given, and it is what the JobConfig's defaults
produce: for an option accepted by `ValidateOption`, `EvaluateOptionDefault` succeeds with some
`d`, and evaluating an absent value gives `d` — unless the option is required and `d` is empty,
in which case the Job is rejected. -/
theorem absent_equals_default (D : DateOracle) (o : Opt) (ha : accepted o = true) :
    ∃ d, evaluateOptionDefault o = some d ∧
      evaluateOption D Value.null o = (if o.required && d.isEmpty then .error .required else .ok d) := by
  have hv : validateOption o = 0 := by simpa [accepted] using ha
  unfold validateOption at hv
  unfold evaluateOptionDefault evaluateOption
  cases ht : o.type with
  | bool =>
    simp only [ht] at hv ⊢
    have hreq : o.required = false := by
      cases hr : o.required with
      | false => rfl
      | true => simp [hr, b2n] at hv
    have hfmt : Facts.boolFormatsAll.contains (o.bool.getD {}).format = true := by
      have : validateBoolCfg o.bool = 0 := by omega
      simp only [validateBoolCfg] at this
      split at this
      · cases this
      · split at this
        · cases this
        · next h2 => simpa using h2
    obtain ⟨d, hd⟩ := formatValue_of_valid (o.bool.getD {}) (o.bool.getD {}).default hfmt
    refine ⟨d, by simp [evaluateDefaultBool, hd], ?_⟩
    simp [evaluateBool, hd, hreq]
  | string =>
    refine ⟨_, rfl, ?_⟩
    simp only [evaluateString, defaultStringValue]
    by_cases htrim : (o.string.getD {}).trimSpaces = true
    · simp only [htrim, if_true, trimSpace_idem]
    · simp only [htrim, Bool.false_eq_true, if_false]
  | select =>
    simp only [ht] at hv
    refine ⟨_, rfl, ?_⟩
    have hsel : validateSelectCfg o.select = 0 := by omega
    simp only [validateSelectCfg] at hsel
    have hdef : (!(o.select.getD {}).default.isEmpty && !containsString (o.select.getD {}).values (o.select.getD {}).default) = false := by
      cases hb : (!(o.select.getD {}).default.isEmpty && !containsString (o.select.getD {}).values (o.select.getD {}).default) with
      | false => rfl
      | true => simp [hb, b2n] at hsel
    simp only [evaluateSelect]
    have h1 : (!(o.select.getD {}).default.isEmpty && !(o.select.getD {}).allowCustom &&
        !containsString (o.select.getD {}).values (o.select.getD {}).default) = false := by
      cases hA : (o.select.getD {}).default.isEmpty <;> cases hB : (o.select.getD {}).allowCustom <;>
        cases hC : containsString (o.select.getD {}).values (o.select.getD {}).default <;> simp_all
    simp only [h1, Bool.false_eq_true, if_false]
    by_cases hc : (o.required && (o.select.getD {}).default.isEmpty) = true
    · have : ((o.select.getD {}).default.isEmpty && o.required) = true := by rw [Bool.and_comm]; exact hc
      simp [hc, this]
    · have : ((o.select.getD {}).default.isEmpty && o.required) = false := by
        rw [Bool.and_comm]; simpa using hc
      simp [hc, this]
  | multi =>
    simp only [ht] at hv
    refine ⟨_, rfl, ?_⟩
    have hmul : validateMultiCfg o.multi = 0 := by omega
    simp only [validateMultiCfg] at hmul
    have hall : ∀ x ∈ (o.multi.getD {}).default, x ≠ [] ∧ x ∈ (o.multi.getD {}).values := by
      intro x hx
      have h1 : ((o.multi.getD {}).default.filter fun d => !containsString (o.multi.getD {}).values d) = [] := by
        apply List.eq_nil_of_length_eq_zero; omega
      have h2 : ((o.multi.getD {}).default.filter (·.isEmpty)) = [] := by
        apply List.eq_nil_of_length_eq_zero; omega
      rw [List.filter_eq_nil_iff] at h1 h2
      refine ⟨?_, (containsString_iff _ _).mp (by simpa using h1 x hx)⟩
      intro he; subst he
      exact h2 [] hx rfl
    have hmc := multiCheck_of_all (o.multi.getD {}) _ hall
    simp only [evaluateMulti, evaluateMulti.finish, List.isEmpty_nil, if_true, hmc]
    cases hd : (o.multi.getD {}).default with
    | nil => cases o.required <;> simp [join]
    | cons x xs =>
      have hx : x ≠ [] := (hall x (by rw [hd]; exact List.mem_cons_self)).1
      have hj : (join (o.multi.getD {}).delimiter (x :: xs)).isEmpty = false := by
        have := join_ne_nil (o.multi.getD {}).delimiter x xs hx
        cases hjj : join (o.multi.getD {}).delimiter (x :: xs) with
        | nil => exact absurd hjj this
        | cons _ _ => rfl
      simp [hj]
  | date =>
    refine ⟨[], rfl, ?_⟩
    simp only [evaluateDate, TimeV.zeroTime]
    cases o.required <;> simp
  | unknown b =>
    simp only [ht] at hv
    cases b <;> simp [validateOptionType] at hv

/-! ## Part 2 — substitution: priority of sources, reserved prefixes, untouched text

Templates are *tame*: `render T` for a token list `T` (`Tok.lit c` with `c ≠ '$'`, `Tok.var n`
with `n` free of `$ { }`), i.e. every `$` of the template starts a well-formed `${name}`
reference; braces, and unknown `${NAME}` references, are ordinary content.  Maps have keys free of
`$ { }`, values free of `$`, and pairwise distinct keys (`mapsOk`); prefixes are literal
(`plainPrefix`, true of the four prefixes the code uses).  Outside these hypotheses the statement
is false for the code as it is (Part 3, variant A). -/

/-- **Priority, reserved prefixes, untouched text.** `SubstituteVariableMaps` (either variant of
`SubstituteVariables`) rewrites a tame template token by token (`resolveTok`): `${n}` becomes the
value of the FIRST map that binds `n`; otherwise it becomes empty if `n` is `<prefix>.<non-empty>`
for a reserved prefix; otherwise it is left as it is; literal text is never changed. -/
theorem priority_first_wins (sorted : Bool) (maps : List (List (Str × Str))) (prefixes : List Str)
    (hm : mapsOk maps) (hps : ∀ p ∈ prefixes, plainPrefix (trimSuffixDot p) = true)
    (T : List Tok) (hT : wfToks T = true) :
    substituteVariableMaps sorted (render T) maps prefixes =
      render (T.flatMap (resolveTok maps prefixes)) :=
  substituteVariableMaps_render sorted maps prefixes hm hps T hT

/-- reading `resolveTok`: a bound variable takes the value of the first map binding it -/
theorem resolve_bound (m : List (Str × Str)) (ms : List (List (Str × Str))) (ps : List Str) (n v : Str)
    (h : lookupS n m = some v) : resolveTok (m :: ms) ps (.var n) = lits v := by
  simp [resolveTok, firstBinding, h]

/-- … a map that does not bind it is skipped -/
theorem resolve_skip (m : List (Str × Str)) (ms : List (List (Str × Str))) (ps : List Str) (n : Str)
    (h : lookupS n m = none) : resolveTok (m :: ms) ps (.var n) = resolveTok ms ps (.var n) := by
  simp [resolveTok, firstBinding, h]

/-- … an unbound variable of a reserved prefix becomes empty, any other unbound variable and all
literal text stay -/
theorem resolve_unbound (ps : List Str) (n : Str) :
    resolveTok [] ps (.var n) =
      if ps.any (fun p => reservedBy (trimSuffixDot p) n) then [] else [.var n] := rfl
theorem resolve_lit (maps : List (List (Str × Str))) (ps : List Str) (c : Char) :
    resolveTok maps ps (.lit c) = [.lit c] := rfl

/-- the prefixes `SubstitutePodSpec` cleans up (`GetAllPrefixes()` + `"option."`, regenerated from
the source) are literal, and the order of its sources is substitutions, job, task -/
theorem pod_prefixes_plain : ∀ p ∈ podRemovePrefixes, plainPrefix (trimSuffixDot p) = true := by decide
theorem pod_sources_order (subs jobVars taskVars : List (Str × Str)) (hne : subs ≠ []) :
    podSubMaps subs jobVars taskVars = [subs, jobVars, taskVars] := by
  have : 0 < subs.length := by cases subs <;> simp_all
  simp only [podSubMaps, Facts.podSubstSources, List.flatMap_cons, List.flatMap_nil]
  simp [this]

/-- **Pod time.** In the pod that is created, each `${n}` of a tame field takes the value from
the Job's stored substitutions, else the job context, else the task context; leftovers of the
prefixes `jobconfig. job. task. option.` become empty; everything else is untouched. -/
theorem pod_priority (sorted : Bool) (subs jobVars taskVars : List (Str × Str)) (hne : subs ≠ [])
    (hm : mapsOk [subs, jobVars, taskVars]) (T : List Tok) (hT : wfToks T = true) :
    podSub sorted subs jobVars taskVars (render T) =
      render (T.flatMap (resolveTok [subs, jobVars, taskVars] podRemovePrefixes)) := by
  simp only [podSub, pod_sources_order subs jobVars taskVars hne]
  exact priority_first_wins sorted _ _ hm pod_prefixes_plain T hT

/-- **Admission time.** The substitutions stored on an admitted Job bind `n` to the explicit
substitution, else the evaluated option value (= the JobConfig default when no value was given,
`absent_equals_default`), else the JobConfig context variable. -/
theorem admission_priority (jc ev ex : List (Str × Str)) (hjc : (keys jc).Nodup) (hev : (keys ev).Nodup)
    (hex : (keys ex).Nodup) (n : Str) :
    lookupS n (admissionSubstitutions jc ev ex) =
      (lookupS n ex).orElse fun _ => (lookupS n ev).orElse fun _ => lookupS n jc := by
  unfold admissionSubstitutions
  rw [lookupS_merge_two jc _ hjc (keys_merge_nodup _), lookupS_merge_two ev ex hev hex]
  cases lookupS n ex <;> simp

/-- the merge orders in mutation.go are the ones `admissionSubstitutions` models (regenerated) -/
theorem facts_admission_merges :
    Facts.admissionMerges = [["jobconfig".toList, "explicit".toList], ["evaluated".toList, "explicit".toList]] := by
  decide

/-! ## Part 3 — determinism

### Variant A — the code as it is (`substituteVariables false`: Go map iteration order)

FULL STATEMENT (what C18 asks for; FALSE for the code as it is, see the witnesses below):
  `∀ t es es', es.Perm es' → (keys es).Nodup →
     substituteVariables false t es = substituteVariables false t es'`.
Proved: the restriction to tame templates, keys free of `$ { }` and values free of `$`.
Missing: templates with a stray `$`, values containing `$`, keys containing `$ { }`. -/

theorem subst_order_independent_partial (T : List Tok) (hT : wfToks T = true)
    (es es' : List (Str × Str)) (hk : keysClean es = true) (hv : valuesDollarFree es = true)
    (hnd : (keys es).Nodup) (hp : es.Perm es') :
    substituteVariables false (render T) es = substituteVariables false (render T) es' := by
  have hnd' : (keys es').Nodup := (hp.map Prod.fst).nodup_iff.mp hnd
  rw [substituteVariables_render false es hk hv hnd T hT,
    substituteVariables_render false es' (by rw [← keysClean_perm hp]; exact hk)
      (by rw [← valuesDollarFree_perm hp]; exact hv) hnd' T hT,
    rho_perm hp hnd]

/-- the same maps, each enumerated in a possibly different order -/
inductive MapsPerm : List (List (Str × Str)) → List (List (Str × Str)) → Prop where
  | nil : MapsPerm [] []
  | cons {m m' : List (Str × Str)} {ms ms' : List (List (Str × Str))} :
      m.Perm m' → MapsPerm ms ms' → MapsPerm (m :: ms) (m' :: ms')

/-- the same for the whole pipeline: the result does not depend on the iteration order of any
of the maps (corollary of `priority_first_wins`, whose right-hand side mentions no order) -/
theorem substMaps_order_independent_partial (maps maps' : List (List (Str × Str))) (prefixes : List Str)
    (hm : mapsOk maps) (hperm : MapsPerm maps maps')
    (hps : ∀ p ∈ prefixes, plainPrefix (trimSuffixDot p) = true) (T : List Tok) (hT : wfToks T = true) :
    substituteVariableMaps false (render T) maps prefixes =
      substituteVariableMaps false (render T) maps' prefixes := by
  have hm' : mapsOk maps' := by
    intro m' hm'
    obtain ⟨m, hmem, hp⟩ : ∃ m, m ∈ maps ∧ m.Perm m' := by
      clear hm
      induction hperm with
      | nil => cases hm'
      | cons h _ ih =>
        cases List.mem_cons.mp hm' with
        | inl e => subst e; exact ⟨_, List.mem_cons_self, h⟩
        | inr e => obtain ⟨m, h1, h2⟩ := ih e; exact ⟨m, List.mem_cons_of_mem _ h1, h2⟩
    obtain ⟨h1, h2, h3⟩ := hm m hmem
    exact ⟨by rw [← keysClean_perm hp]; exact h1, by rw [← valuesDollarFree_perm hp]; exact h2,
      (hp.map Prod.fst).nodup_iff.mp h3⟩
  rw [priority_first_wins false maps prefixes hm hps T hT,
    priority_first_wins false maps' prefixes hm' hps T hT]
  congr 2
  funext t
  cases t with
  | lit c => rfl
  | var n =>
    have : firstBinding n maps = firstBinding n maps' := by
      clear hm'
      induction hperm with
      | nil => rfl
      | cons h _ ih =>
        simp only [firstBinding]
        rw [lookupS_perm h (hm _ List.mem_cons_self).2.2 n,
          ih (fun x hx => hm x (List.mem_cons_of_mem _ hx))]
    simp [resolveTok, this]

/-- **F4 witness**: a value that contains another variable of the same map.  Two iteration orders
of `{a ↦ "${b}", b ↦ "x"}` on `v=${a}` give `v=x` and `v=${b}` (replayed on the real code by the
corpus scenario `f4-subst-order`). -/
theorem subst_order_dependent_witness :
    ∃ (t : Str) (es es' : List (Str × Str)), es.Perm es' ∧ (keys es).Nodup ∧
      substituteVariables false t es ≠ substituteVariables false t es' :=
  ⟨"v=${a}".toList, [(['a'], "${b}".toList), (['b'], ['x'])], [(['b'], ['x']), (['a'], "${b}".toList)],
    List.Perm.swap _ _ _, by decide, by decide⟩

/-- the same defect with inert values: a nested reference in the template … -/
theorem subst_order_dependent_witness_nested :
    substituteVariables false "${a${b}}".toList [(['b'], ['1']), ("a1".toList, ['x'])] ≠
    substituteVariables false "${a${b}}".toList [("a1".toList, ['x']), (['b'], ['1'])] := by decide

/-- … and an empty value that glues `$` to `{b}` (scenario `f4-inert-values`) -/
theorem subst_order_dependent_witness_empty_value :
    substituteVariables false "$${a}{b}".toList [(['a'], []), (['b'], ['x'])] ≠
    substituteVariables false "$${a}{b}".toList [(['b'], ['x']), (['a'], [])] := by decide

/-- what the regenerated fact says about the source today: if `SubstituteVariables` still ranges
over the map, the model of the current code is order dependent -/
theorem subst_order_dependent_current (h : Facts.substSortsKeys = false) :
    ∃ (t : Str) (es es' : List (Str × Str)), es.Perm es' ∧ (keys es).Nodup ∧
      substituteVariables Facts.substSortsKeys t es ≠ substituteVariables Facts.substSortsKeys t es' := by
  rw [h]; exact subst_order_dependent_witness

/-! ### Variant B — the code after `fix_F4.diff` (`substituteVariables true`: keys sorted)

The full determinism clause, for ALL templates, keys and values. -/

/-- **Determinism (after the fix).** Whatever order the map is enumerated in, the result of
`SubstituteVariables` is the same. -/
theorem subst_deterministic (t : Str) (es es' : List (Str × Str)) (hp : es.Perm es')
    (hnd : (keys es).Nodup) :
    substituteVariables true t es = substituteVariables true t es' := by
  simp only [substituteVariables, if_true]
  rw [sortByKey_perm_eq hp hnd]

/-- … and so is the whole pipeline -/
theorem substMaps_deterministic (t : Str) (maps maps' : List (List (Str × Str))) (prefixes : List Str)
    (hnd : ∀ m ∈ maps, (keys m).Nodup) (hperm : MapsPerm maps maps') :
    substituteVariableMaps true t maps prefixes = substituteVariableMaps true t maps' prefixes := by
  simp only [substituteVariableMaps]
  congr 1
  induction hperm generalizing t with
  | nil => rfl
  | cons h _ ih =>
    simp only [List.foldl_cons]
    rw [subst_deterministic t _ _ h (hnd _ List.mem_cons_self)]
    exact ih _ (fun m hm => hnd m (List.mem_cons_of_mem _ hm))

/-- as soon as the regenerated fact says the source sorts the keys, the model of the current
code is deterministic -/
theorem subst_deterministic_current (h : Facts.substSortsKeys = true) (t : Str)
    (es es' : List (Str × Str)) (hp : es.Perm es') (hnd : (keys es).Nodup) :
    substituteVariables Facts.substSortsKeys t es = substituteVariables Facts.substSortsKeys t es' := by
  rw [h]; exact subst_deterministic t es es' hp hnd

/-! ## Non-vacuity: concrete, non-trivial instances of every hypothesis set -/
section Examples

def D0 : DateOracle := { parse := fun _ => none, format := fun _ _ => none }
/-- a required Select without default and without custom values -/
def exSelect : Opt :=
  { type := .select, name := ['e', 'n', 'v'], required := true,
    select := some { default := [], values := [['d', 'e', 'v'], ['p', 'r', 'o', 'd']], allowCustom := false } }
/-- a trimmed String with a default -/
def exString : Opt :=
  { type := .string, name := ['u'], string := some { default := " bob ".toList, trimSpaces := true } }
/-- a Multi with default and delimiter -/
def exMulti : Opt :=
  { type := .multi, name := ['m'], required := true,
    multi := some { default := [['a'], ['b']], delimiter := [','], values := [['a'], ['b'], ['c']], allowCustom := false } }
def exBool : Opt :=
  { type := .bool, name := ['f'], bool := some { default := true, format := "YesNo".toList } }

-- evaluate_total: all three outcomes occur
example : evaluateOption D0 (.str ['d', 'e', 'v']) exSelect = .ok ['d', 'e', 'v'] := by rfl
example : evaluateOption D0 (.str ['q', 'a']) exSelect = .error .notSupported := by rfl
example : evaluateOption D0 .null exSelect = .error .required := by rfl
example : evaluateOption D0 (.bool true) exSelect = .error .invalid := by rfl
-- evaluate_respects_constraints
example : Respects D0 exSelect ['d', 'e', 'v'] := evaluate_respects_constraints D0 (.str ['d', 'e', 'v']) _ _ (by rfl)
example : Respects D0 exString ['x'] := evaluate_respects_constraints D0 (.str " x\t".toList) _ _ (by rfl)
example : Respects D0 exMulti "c,a".toList :=
  evaluate_respects_constraints D0 (.list [some ['c'], some ['a']]) _ _ (by rfl)
-- one_value_per_option: three options, one value submitted, two defaults
example : evaluateOptions D0 [(['e', 'n', 'v'], .str ['d', 'e', 'v'])] (some [exSelect, exString, exMulti]) =
    ([("option.env".toList, "dev".toList), ("option.u".toList, "bob".toList), ("option.m".toList, "a,b".toList)], []) := by
  rfl
example := one_value_per_option D0 [(['e', 'n', 'v'], .str ['d', 'e', 'v'])] [exSelect, exString, exMulti] _
  (by decide) (by rfl)
-- absent_equals_default: accepted options of four types (one of them required-and-empty)
example : accepted exSelect = true ∧ accepted exString = true ∧ accepted exMulti = true ∧ accepted exBool = true := by
  decide
example : evaluateOption D0 .null exMulti = .ok "a,b".toList ∧ evaluateOptionDefault exMulti = some "a,b".toList := by
  exact ⟨by rfl, by rfl⟩
example : evaluateOption D0 .null exBool = .ok "yes".toList := by rfl

/-- `echo ${option.a} ${job.name} ${task.none} ${HOME} {}` -/
def exT : List Tok :=
  lits "echo ".toList ++ [.var "option.a".toList, .lit ' ', .var "job.name".toList, .lit ' ',
    .var "task.none".toList, .lit ' ', .var "HOME".toList, .lit ' ', .lit '{', .lit '}']
def exMaps : List (List (Str × Str)) :=
  [[("option.a".toList, "explicit".toList)],
   [("job.name".toList, ['j']), ("option.a".toList, "low".toList)],
   [("job.name".toList, "lower".toList), ("task.name".toList, ['t'])]]

-- priority_first_wins / pod_priority: the hypotheses hold and the result is the expected string
example : wfToks exT = true := by decide
example : mapsOk exMaps := by unfold mapsOk; decide
example : substituteVariableMaps false (render exT) exMaps podRemovePrefixes =
    "echo explicit j  ${HOME} {}".toList := by decide
example : render (exT.flatMap (resolveTok exMaps podRemovePrefixes)) = "echo explicit j  ${HOME} {}".toList := by
  decide
-- admission_priority: explicit beats the evaluated option beats the JobConfig context
example : lookupS "option.a".toList (admissionSubstitutions
    [("jobconfig.name".toList, ['c'])] [("option.a".toList, ['e']), ("option.b".toList, ['d'])]
    [("option.a".toList, ['x'])]) = some ['x'] := by decide
-- subst_order_independent_partial: a non-trivial permutation of a two-entry map
example : substituteVariables false (render exT) [("job.name".toList, ['j']), ("option.a".toList, ['v'])] =
    substituteVariables false (render exT) [("option.a".toList, ['v']), ("job.name".toList, ['j'])] :=
  subst_order_independent_partial exT (by decide) _ _ (by decide) (by decide) (by decide) (List.Perm.swap _ _ _)
-- subst_deterministic: on the F4 witness both enumeration orders now agree
example : substituteVariables true "v=${a}".toList [(['a'], "${b}".toList), (['b'], ['x'])] =
    substituteVariables true "v=${a}".toList [(['b'], ['x']), (['a'], "${b}".toList)] :=
  subst_deterministic _ _ _ (List.Perm.swap _ _ _) (by decide)

end Examples

end Furiko.Props.C18
