/-
C01 — "While the schedule is unchanged, a run is requested for time t iff t matches and lies inside
the window; every such t exactly once, in increasing order, never before t has arrived.  If the
controller falls behind by more than the missed-schedule limit it requests only the earliest overdue
times up to that limit and resumes from the present."

Every `Pop` of a tick uses the tick's reference time `now`; `floorSec now` is the tick's whole
second.  Vocabulary (Proofs/CronLemmas.lean, CronDue.lean, CronTick.lean):
* `jc.M t`  : `t` matches one of the JobConfig's cron expressions (`∃ l ∈ exprs, t ∈ l`);
* `jc.M' t` : `jc.M t`, `notBefore ≤ t` when set and `t ≤ notAfter` when set;
* `jc.nextAfter s = getNext jc.nxt notBefore notAfter (s*10^9)` (`getNext_sec_eq_nextAfter`);
* `dueList jc.nextAfter nowS e` : iterate `nextAfter` from the entry `e` while `≤ nowS`;
* `outk fired k = (fired.filter (·.1 = k)).map (·.2)` : the requests for key `k`, in order.
-/
import FurikoModel.Proofs.CronKey
import FurikoModel.Proofs.CronTerm
import FurikoModel.Proofs.CronRunWork
import FurikoModel.Proofs.CronExamples

namespace Furiko.Cron.C01
open Furiko Furiko.Cron

/-! ## 1. the `Next` contract -/

theorem nextInList_spec {l : List Int} (hl : SortedStrict l) (s : Int) :
    (∀ m, nextInList l s = some m → s < m ∧ m ∈ l ∧ ∀ u ∈ l, s < u → m ≤ u) ∧
    (nextInList l s = none → ∀ u ∈ l, u ≤ s) :=
  Cron.nextInList_spec hl s

example : SortedStrict [10, 20, 30] := by unfold SortedStrict; decide

theorem nextInList_NextSpec {l : List Int} (hl : SortedStrict l) :
    NextSpec (fun t => t ∈ l) (nextInList l) :=
  Cron.nextInList_NextSpec hl

/-- the multiExpression fold meets the contract for the union of its members' match sets -/
theorem multiNext_spec {ps : List ((Int → Prop) × (Int → Option Int))}
    (h : ∀ p ∈ ps, NextSpec p.1 p.2) :
    NextSpec (fun t => ∃ p ∈ ps, p.1 t) (multiNext (ps.map Prod.snd)) :=
  Cron.multiNext_spec h

example : ∀ p ∈ [((fun t => t ∈ [10, 20] : Int → Prop), nextInList [10, 20]),
                 ((fun t => t ∈ [15] : Int → Prop), nextInList [15])], NextSpec p.1 p.2 := by
  intro p hp
  rcases List.mem_cons.1 hp with rfl | hp
  · exact Cron.nextInList_NextSpec (l := [10, 20]) (by unfold SortedStrict; decide)
  · rcases List.mem_singleton.1 hp with rfl
    exact Cron.nextInList_NextSpec (l := [15]) (by unfold SortedStrict; decide)

/-- the model's `JC.nxt` (multiExpression over the per-expression oracles) meets the contract
for `jc.M` -/
theorem jc_nxt_spec {jc : JC} (h : ∀ l ∈ jc.sched.exprs, SortedStrict l) :
    NextSpec (fun t => ∃ l ∈ jc.sched.exprs, t ∈ l) jc.nxt :=
  JC.nxt_spec h

example : ∀ l ∈ Ex.jcA.sched.exprs, SortedStrict l := Ex.jcA_sorted

/-- `getNext` returns the least time after `floorSec fromNs` that matches and lies inside the
`[notBefore, notAfter]` window, or `none` if there is none -/
theorem getNext_spec {M : Int → Prop} {nxt : Int → Option Int} (h : NextSpec M nxt)
    (nbf naf : Option Int) (fromNs : Int) :
    NextAt (fun t => M t ∧ (∀ n, nbf = some n → n ≤ t) ∧ ∀ n, naf = some n → t ≤ n)
      (floorSec fromNs) (getNext nxt nbf naf fromNs) :=
  Cron.getNext_spec h nbf naf fromNs

/-- every entry a `Bump` puts into the heap matches and lies inside the window -/
theorem bump_entry_in_window {jc : JC} (h : ∀ l ∈ jc.sched.exprs, SortedStrict l) (fromNs e : Int)
    (he : getNext jc.nxt jc.sched.notBefore jc.sched.notAfter fromNs = some e) :
    jc.M' e ∧ fromNs < e * 1000000000 :=
  ⟨((Cron.getNext_spec (JC.nxt_spec h) _ _ fromNs).1 e he).2.1,
    getNext_after (JC.nxt_spec h) _ _ _ _ he⟩

/-- non-vacuity: `Ex.jcW` (window [12, 35]); a Bump from 5 s yields 15, not the match 10 -/
example : (∀ l ∈ Ex.jcW.sched.exprs, SortedStrict l) ∧
    getNext Ex.jcW.nxt Ex.jcW.sched.notBefore Ex.jcW.sched.notAfter 5000000000 = some 15 :=
  ⟨Ex.jcA_sorted, by decide⟩

/-! ## 2. the per-key tick theorem -/

/-- One tick, one well-formed key `k` (lister entry `jc` enabled and parsing, heap entry `e`).
`L := dueList jc.nextAfter nowS e` is strictly increasing and consists exactly of `e` (if
`e ≤ nowS`) and the `M'`-times in `(e, nowS]`.  The requests for `k` are the first `cap`
elements of `L`; the new entry is `Next(last fired)` if the cap was not exceeded,
`Next(now)` if it was, and unchanged if nothing was due. -/
theorem work_key_stream {w : Worker} {now cap : Int} {flushLimit fuel : Nat}
    (hInv : Heap.Inv w.heap) (hL : ListerOK w.lister) (hchan : w.chan = [])
    (hdone : (work w now cap flushLimit fuel).2.2 = true)
    {k : String} {jc : JC} (hlk : lookup w.lister k = some jc)
    (hen : jc.sched.enabled = true) (hpe : jc.sched.parseErr = false)
    {e : Int} (he : Heap.search w.heap k = some e) :
    let nowS := floorSec now
    let w' := (work w now cap flushLimit fuel).1
    let fired := (work w now cap flushLimit fuel).2.1
    let L := dueList jc.nextAfter nowS e
    SortedStrict L ∧
    (∀ m, m ∈ L ↔ e ≤ m ∧ m ≤ nowS ∧ (m = e ∨ jc.M' m)) ∧
    (fired.filter (fun p => p.1 = k)).map (fun p => p.2) = L.take cap.toNat ∧
    (L = [] → Heap.search w'.heap k = some e) ∧
    (∀ lf, L.getLast? = some lf → L.length ≤ cap.toNat →
      Heap.search w'.heap k = getNext jc.nxt jc.sched.notBefore jc.sched.notAfter (lf * 1000000000)) ∧
    (cap.toNat < L.length → Heap.search w'.heap k = getNext jc.nxt jc.sched.notBefore jc.sched.notAfter now) ∧
    Heap.Inv w'.heap := by
  intro nowS w' fired L
  have hsp := JC.nextAfter_spec (lookup_ok hL hlk).2
  have hd := dueList_spec hsp nowS e
  obtain ⟨h1, h2, h3⟩ := work_key_stream_lemma flushLimit fuel hInv hL hchan hdone hlk ⟨hen, hpe⟩ he
  refine ⟨hd.1, hd.2, h1, fun hnil => ?_, fun lf hlf hle => ?_,
    fun hlt => (getNext_eq_nextAfter jc now).symm ▸ h3 hlt,
    (work_keywise flushLimit fuel hInv hL hchan (fun _ _ => True) (fun _ _ _ _ _ _ => trivial)
      (fun _ => trivial)).1⟩
  · have := h2 (by show L.length ≤ _; rw [hnil]; exact Nat.zero_le _)
    rw [this]; show (match L.getLast? with | none => some e | some lf => jc.nextAfter lf) = _
    rw [hnil]; rfl
  · have := h2 hle
    rw [this, getNext_sec_eq_nextAfter]
    show (match L.getLast? with | none => some e | some lf => jc.nextAfter lf) = _
    rw [hlf]

/-- non-vacuity: `Ex.w0` (entry 10, matches 10,15,20,30,40, tick at 25.5 s, cap 5, fuel 10) -/
example : Heap.Inv Ex.w0.heap ∧ ListerOK Ex.w0.lister ∧ Ex.w0.chan = [] ∧
    (work Ex.w0 25500000000 5 1000 10).2.2 = true ∧
    lookup Ex.w0.lister "a" = some Ex.jcA ∧ Ex.jcA.sched.enabled = true ∧
    Ex.jcA.sched.parseErr = false ∧ Heap.search Ex.w0.heap "a" = some 10 ∧
    (work Ex.w0 25500000000 5 1000 10).2.1
      = [("a", 10), ("a", 15), ("a", 20)] :=
  ⟨Ex.w0_inv, Ex.w0_lister, rfl, by decide, by simp [lookup, Ex.w0], rfl, rfl, by decide,
    by decide⟩

/-- In every case where something was due, the new entry is `Next(now)`: the least `M'`-time
strictly after the tick's second. -/
theorem work_key_entry_after_tick {w : Worker} {now cap : Int} {flushLimit fuel : Nat}
    (hInv : Heap.Inv w.heap) (hL : ListerOK w.lister) (hchan : w.chan = [])
    (hdone : (work w now cap flushLimit fuel).2.2 = true)
    {k : String} {jc : JC} (hlk : lookup w.lister k = some jc)
    (hen : jc.sched.enabled = true) (hpe : jc.sched.parseErr = false)
    {e : Int} (he : Heap.search w.heap k = some e) (hdue : e ≤ floorSec now) :
    Heap.search (work w now cap flushLimit fuel).1.heap k
      = getNext jc.nxt jc.sched.notBefore jc.sched.notAfter now ∧
    NextAt jc.M' (floorSec now) (getNext jc.nxt jc.sched.notBefore jc.sched.notAfter now) := by
  have hs := (lookup_ok hL hlk).2
  have hsp := JC.nextAfter_spec hs
  rw [getNext_eq_nextAfter]
  refine ⟨?_, hsp (floorSec now)⟩
  obtain ⟨_, h2, h3⟩ := work_key_stream_lemma flushLimit fuel hInv hL hchan hdone hlk ⟨hen, hpe⟩ he
  by_cases hle : (dueList jc.nextAfter (floorSec now) e).length ≤ cap.toNat
  · rw [h2 hle]
    cases hl : (dueList jc.nextAfter (floorSec now) e).getLast? with
    | none =>
      have := List.getLast?_eq_none_iff.1 hl
      rw [dueList_of_le hsp hdue] at this; cases this
    | some lf => exact nextAfter_last_eq_now hs _ _ _ hl
  · exact h3 (by omega)

/-- keys whose lister entry is missing are dropped from the heap without firing (once due) -/
theorem work_key_missing {w : Worker} {now cap : Int} {flushLimit fuel : Nat}
    (hInv : Heap.Inv w.heap) (hL : ListerOK w.lister) (hchan : w.chan = [])
    (hdone : (work w now cap flushLimit fuel).2.2 = true)
    {k : String} (hlk : lookup w.lister k = none) {e : Int}
    (he : Heap.search w.heap k = some e) :
    ((work w now cap flushLimit fuel).2.1.filter (fun p => p.1 = k)).map
      (fun p => p.2) = [] ∧
    Heap.search (work w now cap flushLimit fuel).1.heap k
      = if e ≤ floorSec now then none else some e :=
  Cron.work_key_missing flushLimit fuel hInv hL hchan hdone hlk he

example : let w : Worker := { Ex.w0 with lister := [] }
    Heap.Inv w.heap ∧ ListerOK w.lister ∧ w.chan = [] ∧
    (work w 25500000000 5 1000 10).2.2 = true ∧
    lookup w.lister "a" = none ∧ Heap.search w.heap "a" = some 10 :=
  ⟨Ex.w0_inv, ⟨fun _ h => (by cases h), List.Pairwise.nil⟩, rfl, by decide, rfl, by decide⟩

/-- keys not in the heap fire nothing and stay out of the heap -/
theorem work_key_absent {w : Worker} {now cap : Int} {flushLimit fuel : Nat}
    (hInv : Heap.Inv w.heap) (hL : ListerOK w.lister) (hchan : w.chan = [])
    {k : String} (he : Heap.search w.heap k = none) :
    ((work w now cap flushLimit fuel).2.1.filter (fun p => p.1 = k)).map
      (fun p => p.2) = [] ∧
    Heap.search (work w now cap flushLimit fuel).1.heap k = none :=
  Cron.work_key_absent flushLimit fuel hInv hL hchan he

example : Heap.Inv Ex.w0.heap ∧ ListerOK Ex.w0.lister ∧ Ex.w0.chan = [] ∧
    Heap.search Ex.w0.heap "b" = none :=
  ⟨Ex.w0_inv, Ex.w0_lister, rfl, by decide⟩

/-- keys whose lister entry is disabled or unparsable: the popped time is still requested once
(cap permitting) and the key leaves the heap.  (Model behaviour worth noting: `syncOne` does
not re-check `enabled`.) -/
theorem work_key_inactive {w : Worker} {now cap : Int} {flushLimit fuel : Nat}
    (hInv : Heap.Inv w.heap) (hL : ListerOK w.lister) (hchan : w.chan = [])
    (hdone : (work w now cap flushLimit fuel).2.2 = true)
    {k : String} {jc : JC} (hlk : lookup w.lister k = some jc)
    (hact : ¬ (jc.sched.enabled = true ∧ jc.sched.parseErr = false)) {e : Int}
    (he : Heap.search w.heap k = some e) :
    ((work w now cap flushLimit fuel).2.1.filter (fun p => p.1 = k)).map
      (fun p => p.2) = (if e ≤ floorSec now ∧ 0 < cap then [e] else []) ∧
    Heap.search (work w now cap flushLimit fuel).1.heap k
      = if e ≤ floorSec now then none else some e :=
  Cron.work_key_inactive flushLimit fuel hInv hL hchan hdone hlk hact he

/-! ## 4. corollaries -/

/-- nothing is requested before its time has arrived (any key, any fuel) -/
theorem fired_never_early {w : Worker} {now cap : Int} {flushLimit fuel : Nat}
    (hInv : Heap.Inv w.heap) (hL : ListerOK w.lister) (hchan : w.chan = []) :
    ∀ k t, (k, t) ∈ (work w now cap flushLimit fuel).2.1 →
      t * 1000000000 ≤ now := by
  intro k t h
  have := work_out_arrived (now := now) (cap := cap) flushLimit fuel hInv hL hchan k t
    (mem_outk.2 h)
  exact (le_floorSec_iff _ _).1 this

/-- every request for a well-formed key is the key's entry or a matching time in the window -/
theorem fired_on_schedule {w : Worker} {now cap : Int} {flushLimit fuel : Nat}
    (hInv : Heap.Inv w.heap) (hL : ListerOK w.lister) (hchan : w.chan = [])
    (hdone : (work w now cap flushLimit fuel).2.2 = true)
    {k : String} {jc : JC} (hlk : lookup w.lister k = some jc)
    (hen : jc.sched.enabled = true) (hpe : jc.sched.parseErr = false)
    {e : Int} (he : Heap.search w.heap k = some e) :
    ∀ t, (k, t) ∈ (work w now cap flushLimit fuel).2.1 →
      e ≤ t ∧ (t = e ∨ jc.M' t) := by
  intro t ht
  obtain ⟨_, hmem, hout, _⟩ := work_key_stream hInv hL hchan hdone hlk hen hpe he
  have h1 : t ∈ (dueList jc.nextAfter (floorSec now) e).take cap.toNat := by
    rw [← hout]; exact mem_outk.2 ht
  have := (hmem t).1 (List.mem_of_mem_take h1)
  exact ⟨this.1, this.2.2⟩

/-- "lies inside the window", in full: if the key's entry matches and lies inside the
`[notBefore, notAfter]` window (as every entry produced by a `Bump` does, `bump_entry_in_window`;
in particular under `EntryOK`), so does every time requested in the tick -/
theorem fired_in_window {w : Worker} {now cap : Int} {flushLimit fuel : Nat}
    (hInv : Heap.Inv w.heap) (hL : ListerOK w.lister) (hchan : w.chan = [])
    (hdone : (work w now cap flushLimit fuel).2.2 = true)
    {k : String} {jc : JC} (hlk : lookup w.lister k = some jc)
    (hen : jc.sched.enabled = true) (hpe : jc.sched.parseErr = false)
    {e lo : Int} (he : Heap.search w.heap k = some e) (hE : EntryOK jc lo e) :
    ∀ t, (k, t) ∈ (work w now cap flushLimit fuel).2.1 →
      jc.M t ∧ (∀ nbf, jc.sched.notBefore = some nbf → nbf ≤ t) ∧
      (∀ naf, jc.sched.notAfter = some naf → t ≤ naf) ∧ t * 1000000000 ≤ now := by
  intro t ht
  have h1 := fired_on_schedule hInv hL hchan hdone hlk hen hpe he t ht
  have h2 := fired_never_early (cap := cap) (flushLimit := flushLimit) (fuel := fuel)
    hInv hL hchan k t ht
  have hM : jc.M' t := by
    rcases h1.2 with rfl | h
    · exact hE.1
    · exact h
  exact ⟨hM.1, hM.2.1, hM.2.2, h2⟩

/-- non-vacuity: `Ex.wW` (window [12, 35], entry 15): tick at 45 s requests 15, 20, 30 — neither
the match 10 before the window nor 40 after it -/
example : Heap.Inv Ex.wW.heap ∧ ListerOK Ex.wW.lister ∧ Ex.wW.chan = [] ∧
    (work Ex.wW 45000000000 5 1000 10).2 = ([("a", 15), ("a", 20), ("a", 30)], true) ∧
    Heap.search Ex.wW.heap "a" = some 15 ∧ EntryOK Ex.jcW 5 15 := by
  refine ⟨Ex.wW_inv, Ex.wW_lister, rfl, by decide, by decide, ?_⟩
  refine ⟨⟨⟨[15, 30], by simp [Ex.jcW, Ex.jcA], by simp⟩, fun n hn => ?_, fun n hn => ?_⟩,
    by omega, ?_⟩
  · cases hn; omega
  · cases hn; omega
  · rintro u ⟨⟨l, hl, hu⟩, hnb, _⟩ ⟨h1, h2⟩
    have := hnb 12 rfl
    simp only [Ex.jcW, Ex.jcA, List.mem_cons, List.not_mem_nil, or_false] at hl
    rcases hl with rfl | rfl <;> simp at hu <;> omega

/-- the requests for any key are strictly increasing (in particular: no duplicates) -/
theorem fired_strictly_increasing {w : Worker} {now cap : Int} {flushLimit fuel : Nat}
    (hInv : Heap.Inv w.heap) (hL : ListerOK w.lister) (hchan : w.chan = [])
    (hdone : (work w now cap flushLimit fuel).2.2 = true) (k : String) :
    SortedStrict (((work w now cap flushLimit fuel).2.1.filter
      (fun p => p.1 = k)).map (fun p => p.2)) := by
  show SortedStrict (outk _ k)
  cases he : Heap.search w.heap k with
  | none =>
    rw [(Cron.work_key_absent flushLimit fuel hInv hL hchan he).1]; exact List.Pairwise.nil
  | some e =>
    cases hlk : lookup w.lister k with
    | none =>
      rw [(Cron.work_key_missing flushLimit fuel hInv hL hchan hdone hlk he).1]
      exact List.Pairwise.nil
    | some jc =>
      by_cases hact : jc.sched.enabled = true ∧ jc.sched.parseErr = false
      · obtain ⟨hs, _, hout, _⟩ := work_key_stream hInv hL hchan hdone hlk hact.1 hact.2 he
        have hout' : outk (work w now cap flushLimit fuel).2.1 k
            = (dueList jc.nextAfter (floorSec now) e).take cap.toNat := hout
        rw [hout']
        exact List.Pairwise.sublist (List.take_sublist _ _) hs
      · rw [(Cron.work_key_inactive flushLimit fuel hInv hL hchan hdone hlk hact he).1]
        split
        · exact List.pairwise_singleton _ _
        · exact List.Pairwise.nil

/-- at most `cap` requests per key and tick (any key, any fuel) -/
theorem fired_at_most_cap {w : Worker} {now cap : Int} {flushLimit fuel : Nat}
    (hInv : Heap.Inv w.heap) (hL : ListerOK w.lister) (hchan : w.chan = []) (k : String) :
    (((work w now cap flushLimit fuel).2.1.filter
      (fun p => p.1 = k)).map (fun p => p.2)).length ≤ cap.toNat :=
  work_out_le_cap flushLimit fuel hInv hL hchan k

/-- if the cap is not exceeded, the entry (when due) and every matching in-window time in
`(e, nowS]` is requested exactly once -/
theorem fired_complete_when_cap_not_hit {w : Worker} {now cap : Int} {flushLimit fuel : Nat}
    (hInv : Heap.Inv w.heap) (hL : ListerOK w.lister) (hchan : w.chan = [])
    (hdone : (work w now cap flushLimit fuel).2.2 = true)
    {k : String} {jc : JC} (hlk : lookup w.lister k = some jc)
    (hen : jc.sched.enabled = true) (hpe : jc.sched.parseErr = false)
    {e : Int} (he : Heap.search w.heap k = some e)
    (hcap : (dueList jc.nextAfter (floorSec now) e).length ≤ cap.toNat) :
    ∀ m, e ≤ m → m ≤ floorSec now → (m = e ∨ jc.M' m) →
      (((work w now cap flushLimit fuel).2.1.filter
        (fun p => p.1 = k)).map (fun p => p.2)).count m = 1 := by
  intro m h1 h2 h3
  obtain ⟨hs, hmem, hout, _⟩ := work_key_stream hInv hL hchan hdone hlk hen hpe he
  rw [hout, List.take_of_length_le hcap]
  have hin : m ∈ dueList jc.nextAfter (floorSec now) e := (hmem m).2 ⟨h1, h2, h3⟩
  have hnd : (dueList jc.nextAfter (floorSec now) e).Nodup :=
    List.Pairwise.imp (fun h => by omega) hs
  have hle := List.nodup_iff_count.1 hnd m
  have hpos := List.count_pos_iff.2 hin
  omega

/-- non-vacuity of the cap hypothesis for `Ex.w0`: three times are due, cap 5 -/
example : (dueList Ex.jcA.nextAfter (floorSec 25500000000) 10) = [10, 15, 20] := by decide

/-! ## 3. termination, and the livelock of the pre-fix loop -/

/-- The pop loop exits by itself (every `Pop` uses the tick's `now`; no assumption on any clock):
any fuel above the potential
`totalPot = Σ_{k in heap} keyPot k` suffices, where `keyPot k` is the number of due times
`(dueList …).length` of a well-formed key, and 1 (if due) for a key that will be dropped. -/
theorem work_terminates {w : Worker} {now cap : Int} {flushLimit fuel : Nat}
    (hInv : Heap.Inv w.heap) (hL : ListerOK w.lister) (hchan : w.chan = [])
    (hfuel : totalPot w.lister (floorSec now) (heapKeys w.heap) w.heap < fuel) :
    (work w now cap flushLimit fuel).2.2 = true := by
  rw [work_eq w now cap flushLimit fuel hchan]
  exact workLoop_terminates hL (heapKeys w.heap) fuel w.heap [] [] hInv
    (fun k p hk => heap_extra_keys_cover hInv hk) hfuel

example : Heap.Inv Ex.w0.heap ∧ ListerOK Ex.w0.lister ∧ Ex.w0.chan = [] ∧
    totalPot Ex.w0.lister (floorSec 25500000000) (heapKeys Ex.w0.heap) Ex.w0.heap = 3 :=
  ⟨Ex.w0_inv, Ex.w0_lister, rfl, by decide⟩

theorem work_terminates_exists {w : Worker} {now cap : Int} {flushLimit : Nat}
    (hInv : Heap.Inv w.heap) (hL : ListerOK w.lister) (hchan : w.chan = []) :
    ∃ fuel, (work w now cap flushLimit fuel).2.2 = true :=
  ⟨_, work_terminates hInv hL hchan (Nat.lt_succ_self _)⟩

/-- Witness of the repaired defect F7, on the pre-fix loop `workLoopDrifting` (the i-th `Pop`
read the clock again while the cap-bump used the tick's `now`).  One JobConfig matching every
second, cap 1, clock advancing 1 s per pop: after the single allowed request the loop keeps
popping and re-bumping the key to `Next(now)`, which the moving clock has already passed — fuel 50
is exhausted (`done = false`) with exactly `cap` = 1 request. -/
theorem work_livelock_witness : (workLoopDrifting Ex.wEvery.lister 1000000000
      (fun i => 1000000000 + i * 1000000000) 1 50 0 Ex.wEvery.heap [] []).2
    = ([("e", 1)], false) := by decide

/-- the fixed loop on the same worker exits by itself after the one request -/
example : (workLoop Ex.wEvery.lister 1000000000 1 50 Ex.wEvery.heap [] []).2
    = ([("e", 1)], true) := by decide

/-! ## 5. several ticks -/

/-- A tick keeps the entry "first matching time after a reference": the reference moves to the
last requested time, or to `nowS` when the cap was exceeded; it stays put when nothing was due.
If there is no entry afterwards, no matching in-window time lies after the reference. -/
theorem work_preserves_entryOK {w : Worker} {now cap : Int} {flushLimit fuel : Nat}
    (hInv : Heap.Inv w.heap) (hL : ListerOK w.lister) (hchan : w.chan = [])
    (hdone : (work w now cap flushLimit fuel).2.2 = true)
    {k : String} {jc : JC} (hlk : lookup w.lister k = some jc)
    (hen : jc.sched.enabled = true) (hpe : jc.sched.parseErr = false)
    {e lo : Int} (he : Heap.search w.heap k = some e) (hE : EntryOK jc lo e) :
    let L := dueList jc.nextAfter (floorSec now) e
    let ref := match L.getLast? with
      | none => lo
      | some lf => if L.length ≤ cap.toNat then lf else floorSec now
    let ent' := Heap.search (work w now cap flushLimit fuel).1.heap k
    lo ≤ ref ∧ (∀ e', ent' = some e' → EntryOK jc ref e') ∧
    (ent' = none → ∀ u, jc.M' u → u ≤ ref) := by
  intro L ref ent'
  have hs := (lookup_ok hL hlk).2
  have hsp := JC.nextAfter_spec hs
  obtain ⟨_, h2, h3⟩ := work_key_stream_lemma flushLimit fuel hInv hL hchan hdone hlk ⟨hen, hpe⟩ he
  cases hl : L.getLast? with
  | none =>
    have hnil : L = [] := List.getLast?_eq_none_iff.1 hl
    have hent : ent' = some e := by
      have := h2 (by show L.length ≤ _; rw [hnil]; exact Nat.zero_le _)
      show Heap.search _ k = some e
      rw [this]
      show (match L.getLast? with | none => some e | some lf => jc.nextAfter lf) = _
      rw [hl]
    have href : ref = lo := by show (match L.getLast? with | none => lo | some lf => _) = lo; rw [hl]
    rw [href, hent]
    exact ⟨Int.le_refl _, fun e' he' => by cases he'; exact hE, fun h => by cases h⟩
  | some lf =>
    have hlast := dueList_getLast_max hsp _ _ _ hl
    by_cases hle : L.length ≤ cap.toNat
    · have href : ref = lf := by
        show (match L.getLast? with | none => lo | some lf => if L.length ≤ cap.toNat then lf else _) = lf
        rw [hl]; simp [hle]
      have hent : ent' = jc.nextAfter lf := by
        show Heap.search _ k = _
        rw [h2 hle]
        show (match L.getLast? with | none => some e | some lf => jc.nextAfter lf) = _
        rw [hl]
      rw [href, hent]
      exact ⟨by have := hE.2.1; omega, nextAt_entryOK (hsp lf)⟩
    · have href : ref = floorSec now := by
        show (match L.getLast? with | none => lo | some lf => if L.length ≤ cap.toNat then lf else _) = _
        rw [hl]; simp [hle]
      have hent : ent' = jc.nextAfter (floorSec now) := h3 (by show cap.toNat < L.length; omega)
      rw [href, hent]
      exact ⟨by have := hE.2.1; omega, nextAt_entryOK (hsp _)⟩

/-- non-vacuity: entry 10 of `Ex.w0` is the first match of `Ex.jcA` after 0 -/
example : EntryOK Ex.jcA 0 10 := by
  refine ⟨⟨⟨[10, 20, 30, 40], by simp [Ex.jcA], by simp⟩, fun n hn => ?_, fun n hn => ?_⟩,
    by omega, ?_⟩
  · cases hn
  · cases hn; omega
  · rintro u ⟨⟨l, hl, hu⟩, _⟩ ⟨h1, h2⟩
    simp only [Ex.jcA, List.mem_cons, List.not_mem_nil, or_false] at hl
    rcases hl with rfl | rfl <;> simp at hu <;> omega

/-- the requests for a well-formed key over a run of non-decreasing ticks are strictly
increasing -/
theorem run_in_order {w : Worker} {cap : Int} {flushLimit fuel : Nat}
    (hInv : Heap.Inv w.heap) (hL : ListerOK w.lister) (hchan : w.chan = [])
    {k : String} {jc : JC} (hlk : lookup w.lister k = some jc)
    (hen : jc.sched.enabled = true) (hpe : jc.sched.parseErr = false)
    {e0 : Int} (he : Heap.search w.heap k = some e0)
    (ts : List Int) (hts : List.Pairwise (· ≤ ·) ts)
    (hdone : (runTicks cap flushLimit fuel w ts).2.2 = true) :
    SortedStrict (((runTicks cap flushLimit fuel w ts).2.1.flatten.filter
      (fun p => p.1 = k)).map (fun p => p.2)) :=
  (run_stream_inv cap flushLimit fuel hInv hL hchan hlk ⟨hen, hpe⟩ he ts hts hdone).2.1.sorted

/-- every request of the run is the initial entry or a matching in-window time after it, and
is made exactly once -/
theorem run_exactly_once {w : Worker} {cap : Int} {flushLimit fuel : Nat}
    (hInv : Heap.Inv w.heap) (hL : ListerOK w.lister) (hchan : w.chan = [])
    {k : String} {jc : JC} (hlk : lookup w.lister k = some jc)
    (hen : jc.sched.enabled = true) (hpe : jc.sched.parseErr = false)
    {e0 : Int} (he : Heap.search w.heap k = some e0)
    (ts : List Int) (hts : List.Pairwise (· ≤ ·) ts)
    (hdone : (runTicks cap flushLimit fuel w ts).2.2 = true) :
    ∀ t, (k, t) ∈ (runTicks cap flushLimit fuel w ts).2.1.flatten →
      e0 ≤ t ∧ (t = e0 ∨ jc.M' t) ∧
      (((runTicks cap flushLimit fuel w ts).2.1.flatten.filter
        (fun p => p.1 = k)).map (fun p => p.2)).count t = 1 := by
  intro t ht
  have hr := (run_stream_inv cap flushLimit fuel hInv hL hchan hlk ⟨hen, hpe⟩ he ts hts hdone).2.1
  have hmem : t ∈ outk (runTicks cap flushLimit fuel w ts).2.1.flatten k := mem_outk.2 ht
  have hs := hr.sound t hmem
  refine ⟨hs.1, hs.2.2, ?_⟩
  have hnd : (outk (runTicks cap flushLimit fuel w ts).2.1.flatten k).Nodup :=
    List.Pairwise.imp (fun h => by omega) hr.sorted
  have hle := List.nodup_iff_count.1 hnd t
  have hpos := List.count_pos_iff.2 hmem
  show (outk _ k).count t = 1
  omega

/-- over a whole run: if the initial entry matches and lies inside the window (e.g. `EntryOK`),
every requested time matches and lies inside `[notBefore, notAfter]` -/
theorem run_in_window {w : Worker} {cap : Int} {flushLimit fuel : Nat}
    (hInv : Heap.Inv w.heap) (hL : ListerOK w.lister) (hchan : w.chan = [])
    {k : String} {jc : JC} (hlk : lookup w.lister k = some jc)
    (hen : jc.sched.enabled = true) (hpe : jc.sched.parseErr = false)
    {e0 lo : Int} (he : Heap.search w.heap k = some e0) (hE : EntryOK jc lo e0)
    (ts : List Int) (hts : List.Pairwise (· ≤ ·) ts)
    (hdone : (runTicks cap flushLimit fuel w ts).2.2 = true) :
    ∀ t, (k, t) ∈ (runTicks cap flushLimit fuel w ts).2.1.flatten →
      jc.M t ∧ (∀ nbf, jc.sched.notBefore = some nbf → nbf ≤ t) ∧
      (∀ naf, jc.sched.notAfter = some naf → t ≤ naf) := by
  intro t ht
  have h := run_exactly_once hInv hL hchan hlk hen hpe he ts hts hdone t ht
  have hM : jc.M' t := by
    rcases h.2.1 with rfl | h'
    · exact hE.1
    · exact h'
  exact hM

/-- nothing is requested before the clock reading of its own tick (all keys, any fuel) -/
theorem run_never_early {w : Worker} {cap : Int} {flushLimit fuel : Nat}
    (hInv : Heap.Inv w.heap) (hL : ListerOK w.lister) (hchan : w.chan = []) (ts : List Int) :
    ∀ p ∈ List.zip ts (runTicks cap flushLimit fuel w ts).2.1,
      ∀ q ∈ p.2, q.2 * 1000000000 ≤ p.1 :=
  runTicks_arrived cap flushLimit fuel ts w hInv hL hchan

/-- if no tick exceeds the cap for `k`, the requests are exactly the initial entry and the
matching in-window times after it up to the last tick's second — each exactly once
(`run_exactly_once`), in order (`run_in_order`) -/
theorem run_complete {w : Worker} {cap : Int} {flushLimit fuel : Nat}
    (hInv : Heap.Inv w.heap) (hL : ListerOK w.lister) (hchan : w.chan = [])
    {k : String} {jc : JC} (hlk : lookup w.lister k = some jc)
    (hen : jc.sched.enabled = true) (hpe : jc.sched.parseErr = false)
    {e0 : Int} (he : Heap.search w.heap k = some e0)
    (ts : List Int) (hts : List.Pairwise (· ≤ ·) ts)
    (hdone : (runTicks cap flushLimit fuel w ts).2.2 = true)
    (hno : NoCapHit jc.nextAfter cap.toNat (some e0) (ts.map floorSec))
    {nl : Int} (hlast : ts.getLast? = some nl) :
    ∀ t, (k, t) ∈ (runTicks cap flushLimit fuel w ts).2.1.flatten ↔
      e0 ≤ t ∧ t ≤ floorSec nl ∧ (t = e0 ∨ jc.M' t) := by
  intro t
  have hr := run_stream_inv cap flushLimit fuel hInv hL hchan hlk ⟨hen, hpe⟩ he ts hts hdone
  have hhz : (ts.map floorSec).getLast?.getD (e0 - 1) = floorSec nl := by
    rw [List.getLast?_map, hlast]; rfl
  rw [hhz] at hr
  rw [← mem_outk]
  exact ⟨fun h => hr.2.1.sound t h, fun h => hr.2.2 hno t h.1 h.2.1 h.2.2⟩

/-- observable sufficient condition for `NoCapHit`: every tick made fewer than `cap` requests
for the key -/
theorem noCapHit_of_fewer_than_cap {w : Worker} {cap : Int} {flushLimit fuel : Nat}
    (hInv : Heap.Inv w.heap) (hL : ListerOK w.lister) (hchan : w.chan = [])
    {k : String} {jc : JC} (hlk : lookup w.lister k = some jc)
    (hen : jc.sched.enabled = true) (hpe : jc.sched.parseErr = false)
    {e0 : Int} (he : Heap.search w.heap k = some e0) (ts : List Int)
    (hdone : (runTicks cap flushLimit fuel w ts).2.2 = true)
    (hlt : ∀ l ∈ (runTicks cap flushLimit fuel w ts).2.1,
      ((l.filter (fun p => p.1 = k)).map (fun p => p.2)).length < cap.toNat) :
    NoCapHit jc.nextAfter cap.toNat (some e0) (ts.map floorSec) := by
  have hk := (runTicks_key cap flushLimit fuel (k := k) ⟨hen, hpe⟩ ts w hInv hL hchan hlk hdone).1
  rw [he] at hk
  apply noCapHit_of_lt
  intro l hl
  rw [← hk] at hl
  obtain ⟨l', hl', rfl⟩ := List.mem_map.1 hl
  exact hlt l' hl'

/-- the entry after the run: the first matching in-window time after the last tick's second
(none iff there is none) once the initial entry has arrived; the untouched initial entry before -/
theorem run_entry {w : Worker} {cap : Int} {flushLimit fuel : Nat}
    (hInv : Heap.Inv w.heap) (hL : ListerOK w.lister) (hchan : w.chan = [])
    {k : String} {jc : JC} (hlk : lookup w.lister k = some jc)
    (hen : jc.sched.enabled = true) (hpe : jc.sched.parseErr = false)
    {e0 : Int} (he : Heap.search w.heap k = some e0)
    (ts : List Int) (hts : List.Pairwise (· ≤ ·) ts)
    (hdone : (runTicks cap flushLimit fuel w ts).2.2 = true)
    {nl : Int} (hlast : ts.getLast? = some nl) :
    (floorSec nl < e0 →
      Heap.search (runTicks cap flushLimit fuel w ts).1.heap k = some e0) ∧
    (e0 ≤ floorSec nl →
      NextAt jc.M' (floorSec nl) (Heap.search (runTicks cap flushLimit fuel w ts).1.heap k)) := by
  have hr := run_stream_inv cap flushLimit fuel hInv hL hchan hlk ⟨hen, hpe⟩ he ts hts hdone
  have hhz : (ts.map floorSec).getLast?.getD (e0 - 1) = floorSec nl := by
    rw [List.getLast?_map, hlast]; rfl
  rw [hhz] at hr
  refine ⟨fun h => ?_, fun h => ?_⟩
  · rcases hr.2.1.phase with ⟨_, h2⟩ | ⟨h1, _⟩
    · exact h2
    · omega
  · rcases hr.2.1.phase with ⟨h1, _⟩ | ⟨_, h2⟩
    · omega
    · exact h2

/-- non-vacuity of the run theorems: `Ex.w0`, ticks at 12, 25.5, 41 s, cap 5 (never reached) -/
example : Heap.Inv Ex.w0.heap ∧ ListerOK Ex.w0.lister ∧ Ex.w0.chan = [] ∧
    lookup Ex.w0.lister "a" = some Ex.jcA ∧ Heap.search Ex.w0.heap "a" = some 10 ∧
    List.Pairwise (· ≤ ·) [12000000000, 25500000000, (41000000000 : Int)] ∧
    (runTicks 5 1000 10 Ex.w0 [12000000000, 25500000000, 41000000000]).2
      = ([[("a", 10)], [("a", 15), ("a", 20)], [("a", 30), ("a", 40)]], true) ∧
    (∀ l ∈ (runTicks 5 1000 10 Ex.w0 [12000000000, 25500000000, 41000000000]).2.1,
      ((l.filter (fun p => p.1 = "a")).map (fun p => p.2)).length < (5 : Int).toNat) :=
  ⟨Ex.w0_inv, Ex.w0_lister, rfl, by simp [lookup, Ex.w0], by decide, by decide, by decide,
    by decide⟩

end Furiko.Cron.C01
