/- C01 property theorems (placeholder set until the full per-key stream theorems are merged). -/
import FurikoModel.Model.Cron
import FurikoModel.Proofs.HeapSpec

namespace Furiko.Props.C01
open Furiko Furiko.Cron

/-- `Schedule.Pop` never hands out an entry whose time has not arrived. -/
theorem pop_never_early (pq pq' : Heap.PQ) (now : Int) (k : String) (t : Int)
    (h : schedPop pq now = some (pq', k, t)) : t * 1000000000 ≤ now := by
  unfold schedPop at h
  split at h
  · simp at h
  · split at h
    · simp at h
    · split at h
      · simp at h
      · rename_i item _ _ _ _ _
        simp only [Option.some.injEq, Prod.mk.injEq] at h
        obtain ⟨_, _, rfl⟩ := h
        omega

example : schedPop (Heap.new [("a", 5)]) 5000000000 ≠ none := by decide

/-- the heap wrapper refines a finite map: `Peek` yields an entry of minimal priority -/
theorem heap_peek_min {pq : Heap.PQ} (h : Heap.Inv pq) {it : Heap.Item} (hp : Heap.peek pq = some it) :
    Heap.search pq it.name = some it.prio ∧ ∀ k p, Heap.search pq k = some p → it.prio ≤ p :=
  Heap.peek_min h hp

/-- `Pop` removes exactly the entry `Peek` showed and keeps the invariant -/
theorem heap_pop_spec {pq : Heap.PQ} (h : Heap.Inv pq) {it : Heap.Item} (hp : Heap.peek pq = some it) :
    ∃ pq' it', Heap.pop pq = some (pq', it') ∧ it'.name = it.name ∧ it'.prio = it.prio ∧ Heap.Inv pq' ∧
      ∀ k, Heap.search pq' k = if k = it.name then none else Heap.search pq k :=
  Heap.pop_spec h hp

theorem heap_push_spec {pq : Heap.PQ} (h : Heap.Inv pq) (n : String) (p : Int)
    (hfresh : Heap.search pq n = none) :
    Heap.Inv (Heap.push pq n p) ∧
      ∀ k, Heap.search (Heap.push pq n p) k = if k = n then some p else Heap.search pq k :=
  ⟨Heap.inv_push h n p hfresh, Heap.search_push h n p hfresh⟩

theorem heap_update_spec {pq : Heap.PQ} (h : Heap.Inv pq) (n : String) (p : Int)
    (hk : Heap.search pq n ≠ none) :
    Heap.Inv (Heap.update pq n p).1 ∧
      ∀ k, Heap.search (Heap.update pq n p).1 k = if k = n then some p else Heap.search pq k :=
  ⟨Heap.inv_update h n p, Heap.search_update h n p hk⟩

theorem heap_delete_spec {pq : Heap.PQ} (h : Heap.Inv pq) (n : String) :
    Heap.Inv (Heap.delete pq n).1 ∧
      ∀ k, Heap.search (Heap.delete pq n).1 k = if k = n then none else Heap.search pq k :=
  ⟨Heap.inv_delete h n, Heap.search_delete h n⟩

theorem heap_new_spec (items : List (String × Int)) (hnd : (items.map Prod.fst).Nodup) :
    Heap.Inv (Heap.new items) ∧ ∀ k, Heap.search (Heap.new items) k = Heap.lookupItems items k :=
  ⟨Heap.inv_new items hnd, Heap.search_new items hnd⟩

example : Heap.Inv (Heap.new [("a", 5), ("b", 3)]) := Heap.inv_new _ (by decide)

end Furiko.Props.C01
