/- C01 property theorems (placeholder set until the full per-key stream theorems are merged). -/
import FurikoModel.Model.Cron

namespace Furiko.Props.C01
open Furiko Furiko.Cron

/-- `Schedule.Pop` never hands out an entry whose time has not arrived. -/
theorem pop_never_early (pq pq' : Heap.PQ) (now : Int) (k : String) (t : Int)
    (h : schedPop pq now = some (pq', k, t)) : t * 1000000000 ≤ now := by
  unfold schedPop at h
  split at h
  · simp at h
  · split at h
    · simp at h
    · split at h
      · simp at h
      · rename_i item _ _ _ _ _
        simp only [Option.some.injEq, Prod.mk.injEq] at h
        obtain ⟨_, _, rfl⟩ := h
        omega

example : schedPop (Heap.new [("a", 5)]) 5000000000 ≠ none := by decide

end Furiko.Props.C01
