/-
C11 — coherence of every status the pure layer computes, and retention of recorded timestamps
(pure clauses, every input).  The monotonicity clauses over histories belong to the
job-controller slice.

Finding F13 (fixed in /repo by commit 4c102ea): `UpdateJobStatusFromTaskRefs` used to assign
`State` from the computed condition and only then override the condition with `Finished(Killed)`
for a deleting, unfinished Job.  The model follows the source as it is now (State assigned after
the override), for which `state_matches_condition` holds in full.  The old order is kept as the
counterfactual `updateJobStatusFromTaskRefsPreFix` with the witness
`state_mismatch_when_deleting_prefix_witness`; the witness Job is replayed on the real code in
corpus scenario `f13-deleting-state` as a regression case (KNOWN_FINDINGS.jsonl: fixed).
-/
import FurikoModel.Model.JobStatus
import FurikoModel.Proofs.StatusLemmas
import FurikoModel.Proofs.ConditionLemmas
import FurikoModel.Proofs.TaskfnFacts

namespace Furiko.Props.C11
open Furiko Furiko.StatusLemmas Furiko.ConditionLemmas

/-- Exactly one of the queueing / waiting / running / finished conditions is set in what
`GetCondition` returns, and in what `UpdateJobStatusFromTaskRefs` writes (either order). -/
theorem exactly_one_condition (now : Time) (d : PIndex) (rj : Job) :
    (getCondition now d rj).count = 1 ∧
    (∀ preFix nj, updateJobStatusFromTaskRefsWith preFix now d rj = some nj → nj.status.condition.count = 1) := by
  refine ⟨getCondition_count now d rj, ?_⟩
  intro preFix nj h
  obtain ⟨t, _, hc, _⟩ := update_some preFix now d rj nj h
  rw [hc]
  exact sbp_condition_count preFix now d rj t

/-- The coarse state equals the condition that is set, for every Job value
(`StateMatches s c`: `s = Queued ↔ queueing set`, … `s = Finished ↔ finished set`). -/
theorem state_matches_condition (now : Time) (d : PIndex) (rj nj : Job)
    (h : updateJobStatusFromTaskRefs now d rj = some nj) :
    StateMatches nj.status.state nj.status.condition := by
  obtain ⟨t, _, hc, hs, _⟩ := update_some false now d rj nj h
  rw [hc, hs, sbp_state]
  simp only [Bool.false_eq_true, if_false]
  exact stateMatches_of_count_one _ (sbp_condition_count false now d rj t)

/-- the deletion-override branch of `UpdateJobStatusFromTaskRefs` (the F13 class) -/
def DeletionOverride (now : Time) (d : PIndex) (rj : Job) : Prop :=
  rj.deletionTimestamp.isSome = true ∧ (getCondition now d rj).finished.isNone = true

/-- COUNTERFACTUAL (order before commit 4c102ea): coherent outside the deletion-override branch … -/
theorem state_matches_condition_prefix_partial (now : Time) (d : PIndex) (rj nj : Job)
    (h : updateJobStatusFromTaskRefsPreFix now d rj = some nj)
    (hno : ¬ DeletionOverride now d rj) :
    StateMatches nj.status.state nj.status.condition := by
  obtain ⟨t, _, hc, hs, _⟩ := update_some true now d rj nj h
  rw [hc, hs, sbp_state, sbp_condition]
  have hov : deletionOverrides rj (getCondition now d rj) = false := by
    rw [Bool.eq_false_iff]
    intro hov
    unfold deletionOverrides at hov
    simp only [Bool.and_eq_true] at hov
    exact hno hov
  simp only [hov, Bool.false_eq_true, if_false, if_true]
  exact stateMatches_of_count_one _ (getCondition_count now d rj)

/-- the F13 witness: started, one running task, deletion timestamp set -/
def f13Job : Job :=
  { template := some {}, deletionTimestamp := some 99,
    status := { startTime := some 1, createdTasks := 1,
                tasks := [{ name := "j-gezdqo-0", creationTimestamp := some 40, runningTimestamp := some 50,
                            status := { state := .running } }] } }

/-- COUNTERFACTUAL … and incoherent inside it: with the pre-fix order the witness Job is written
with state `Running`, a `Finished(Killed)` condition and phase `Killed`. -/
theorem state_mismatch_when_deleting_prefix_witness :
    (updateJobStatusFromTaskRefsPreFix 100 { hash := "gezdqo" } f13Job).map
        (fun nj => (nj.status.state, nj.status.condition.finished.map (·.result), nj.status.condition.running.isSome, nj.status.phase)) =
      some (.running, some .killed, false, "Killed") := by
  decide

/-- the same Job under the source as it is: state `Finished`, phase `Killed` -/
theorem f13_regression :
    (updateJobStatusFromTaskRefs 100 { hash := "gezdqo" } f13Job).map
        (fun nj => (nj.status.state, nj.status.condition.finished.map (·.result), nj.status.phase)) =
      some (.finished, some .killed, "Killed") := by
  decide

/-- The phase is terminal exactly when the finished condition is set: for `GetPhase` on every
Job value, hence for everything `UpdateJobStatusFromTaskRefs` writes.  Rests on `decide` over the
regenerated tables (`ConditionLemmas.result_phases_terminal`, `nonfinished_phases_not_terminal`). -/
theorem phase_terminal_iff_finished (now : Time) (d : PIndex) (rj : Job) :
    phaseIsTerminal (getPhase now rj) = rj.status.condition.finished.isSome ∧
    (∀ preFix nj, updateJobStatusFromTaskRefsWith preFix now d rj = some nj →
      phaseIsTerminal nj.status.phase = nj.status.condition.finished.isSome) := by
  refine ⟨getPhase_terminal_iff now rj, ?_⟩
  intro preFix nj h
  obtain ⟨t, _, hc, _, hp, _⟩ := update_some preFix now d rj nj h
  rw [hp, hc]
  exact getPhase_terminal_iff now _

/-- The task counters equal what the task list shows: after `UpdateJobTaskRefs`,
`createdTasks = |tasks|` and `runningTasks = |{running ∧ ¬finished}|`; and every per-index
`createdTasks` of the parallel status is the number of refs of that index. -/
theorem counters_match_tasks (now : Time) (d : PIndex) (rj : Job) (tasks : List Task) :
    ((updateJobTaskRefs now rj tasks).status.createdTasks = (updateJobTaskRefs now rj tasks).status.tasks.length) ∧
    ((updateJobTaskRefs now rj tasks).status.runningTasks =
      ((updateJobTaskRefs now rj tasks).status.tasks.countP
        (fun r => r.runningTimestamp.isSome && r.finishTimestamp.isNone) : Nat)) ∧
    (∀ s ∈ (getParallelStatus d rj rj.status.tasks).indexes,
      s.createdTasks = ((rj.status.tasks.countP (fun t => t.hash d == s.hash) : Nat) : Int)) := by
  refine ⟨rfl, ?_, ?_⟩
  · unfold updateJobTaskRefs
    simp only
    rw [List.countP_eq_length_filter]
    rfl
  · intro s hs
    unfold getParallelStatus indexStatuses at hs
    simp only at hs
    obtain ⟨i, _, rfl⟩ := List.mem_map.mp hs
    unfold getIndexStatus tasksOfHash
    simp only
    rw [List.countP_eq_length_filter]

/-- `GetTaskRef` never clears a recorded running / finish timestamp: it keeps the task's own
value when the task reports one, the previously recorded value otherwise — except that a finish
time recorded together with a final state is never replaced (see `getTaskRef_final_kept`). -/
theorem getTaskRef_retains (ex : TaskRef) (task : Task) :
    ((getTaskRef (some ex) task).runningTimestamp =
      if task.ref.runningTimestamp.isSome then task.ref.runningTimestamp else ex.runningTimestamp) ∧
    ((getTaskRef (some ex) task).finishTimestamp =
      if task.ref.finishTimestamp.isSome then
        (if ex.finishTimestamp.isSome && isFinalTaskState ex.status.state then ex.finishTimestamp
         else task.ref.finishTimestamp)
      else ex.finishTimestamp) ∧
    (ex.runningTimestamp.isSome = true → (getTaskRef (some ex) task).runningTimestamp.isSome = true) ∧
    (ex.finishTimestamp.isSome = true → (getTaskRef (some ex) task).finishTimestamp.isSome = true) := by
  unfold getTaskRef
  cases hr : task.ref.runningTimestamp <;> cases hf : task.ref.finishTimestamp <;>
    cases hx : ex.finishTimestamp <;> cases hfs : isFinalTaskState ex.status.state <;>
    simp [hr, hf, hx, hfs]

/-- first terminal observation wins: once a ref is finished with a final state (Terminated /
DeletedFinalStateUnknown), a task that reports a (possibly different) terminal status no longer
changes its status, finish time or deleted status — whatever copy of the task the cache serves. -/
theorem getTaskRef_final_kept (ex : TaskRef) (task : Task)
    (hfin : ex.finishTimestamp.isSome = true) (hst : isFinalTaskState ex.status.state = true)
    (ht : task.ref.finishTimestamp.isSome = true) :
    (getTaskRef (some ex) task).status = ex.status ∧
    (getTaskRef (some ex) task).finishTimestamp = ex.finishTimestamp ∧
    (getTaskRef (some ex) task).deletedStatus = ex.deletedStatus := by
  unfold getTaskRef
  simp [hfin, hst, ht]

/-- a ref recorded lost at 9 … -/
def lostAt9 : TaskRef :=
  { name := "t", finishTimestamp := some 9, status := { state := .deletedFinalStateUnknown } }
/-- … and a stale cached copy of its pod that reports success at 12 -/
def staleSucceeded : Task :=
  { name := "t", ref := { name := "t", finishTimestamp := some 12, status := { state := .terminated, result := .succeeded } } }

example : (getTaskRef (some lostAt9) staleSucceeded).status.state = .deletedFinalStateUnknown ∧
    (getTaskRef (some lostAt9) staleSucceeded).finishTimestamp = some 9 := by decide

/-- … and neither does the tombstone of a vanished task: it keeps the recorded timestamps and
always carries a finish timestamp; its status is `DeletedStatus` if set, else
`DeletedFinalStateUnknown`. -/
theorem lostRef_retains (now : Time) (ex : TaskRef) :
    (lostRef now ex).name = ex.name ∧
    (lostRef now ex).runningTimestamp = ex.runningTimestamp ∧
    (lostRef now ex).finishTimestamp = (if ex.finishTimestamp.isSome then ex.finishTimestamp else some now) ∧
    (lostRef now ex).finishTimestamp.isSome = true ∧
    (match ex.deletedStatus with
     | some ds => (lostRef now ex).status = ds
     | none => (lostRef now ex).status.state = .deletedFinalStateUnknown) := by
  unfold lostRef
  cases hf : ex.finishTimestamp <;> cases hd : ex.deletedStatus <;> simp [hf]

/-- Every existing ref whose task vanished is still listed by `GenerateTaskRefs`, as its
tombstone; every listed task yields the ref `GetTaskRef` computes against the last existing ref
of that name. -/
theorem generateTaskRefs_members (now : Time) (existing : List TaskRef) (tasks : List Task) :
    (∀ ex ∈ existing, ex.name ∉ tasks.map (·.name) → lostRef now ex ∈ generateTaskRefs now existing tasks) ∧
    (∀ t ∈ tasks, getTaskRef (lookupRef existing t.name) t ∈ generateTaskRefs now existing tasks) ∧
    (generateTaskRefs now existing tasks).length =
      tasks.length + (existing.filter (fun ex => !(tasks.map (·.name)).contains ex.name)).length := by
  unfold generateTaskRefs
  simp only
  refine ⟨?_, ?_, ?_⟩
  · intro ex hex hn
    rw [mem_sortTaskRefs]
    apply List.mem_append_right
    apply List.mem_map_of_mem
    rw [List.mem_filter]
    refine ⟨hex, ?_⟩
    simp only [Bool.not_eq_true', ← Bool.not_eq_true]
    rw [List.contains_iff_mem]
    exact hn
  · intro t ht
    rw [mem_sortTaskRefs]
    apply List.mem_append_left
    exact List.mem_map.mpr ⟨t, ht, rfl⟩
  · rw [length_sortTaskRefs]
    simp

/-- No ref is forgotten and no recorded timestamp is cleared by `GenerateTaskRefs`: when the
recorded names are pairwise distinct and every task's `GetTaskRef().Name` is its `GetName()`
(true for `PodTask`), every existing ref reappears under its name with its running / finish
timestamps still set. -/
theorem generateTaskRefs_retains (now : Time) (existing : List TaskRef) (tasks : List Task)
    (hnames : (existing.map (·.name)).Nodup)
    (htask : ∀ t ∈ tasks, t.ref.name = t.name) :
    ∀ ex ∈ existing, ∃ r ∈ generateTaskRefs now existing tasks, r.name = ex.name ∧
      (ex.runningTimestamp.isSome = true → r.runningTimestamp.isSome = true) ∧
      (ex.finishTimestamp.isSome = true → r.finishTimestamp.isSome = true) := by
  intro ex hex
  have hm := generateTaskRefs_members now existing tasks
  by_cases hin : ex.name ∈ tasks.map (·.name)
  · obtain ⟨t, ht, htn⟩ := List.mem_map.mp hin
    refine ⟨getTaskRef (lookupRef existing t.name) t, hm.2.1 t ht, ?_, ?_⟩
    · rw [getTaskRef_name, htask t ht, htn]
    · rw [htn, lookupRef_of_nodup existing hnames ex hex]
      have := getTaskRef_retains ex t
      exact ⟨this.2.2.1, this.2.2.2⟩
  · refine ⟨lostRef now ex, hm.1 ex hex hin, ?_⟩
    have := lostRef_retains now ex
    refine ⟨this.1, ?_, fun _ => this.2.2.2.1⟩
    intro h; rw [this.2.1]; exact h

/-- Tie to the source: the model's `getJobStateFromCondition` is, for every condition value, the
case list regenerated from `jobcontroller/util.go` read as a first-match switch. -/
theorem state_case_order_matches_source (c : Condition) :
    getJobStateFromCondition c =
      TaskfnFacts.evalStateCases Facts.jobStateCases Facts.jobStateDefault c :=
  TaskfnFacts.getJobStateFromCondition_agrees c

/-- Tie to the source: phase names used by the model exist, and terminal phases are exactly the
values of `GetPhase`'s head switch. -/
theorem phase_tables_match_source :
    (∀ p ∈ [phaseKilling, phaseTerminating, phaseRunning, phaseStarting, phaseRetryBackoff, phaseRetrying,
             phasePending, phaseQueued], p ∈ Facts.allPhases) ∧
    (∀ p ∈ Facts.terminalPhases, p ∈ Facts.resultToPhase.map (·.2) ++ [Facts.resultDefaultPhase]) ∧
    (∀ r : JobResult, r ≠ .other → r.str ∈ Facts.allResults) :=
  TaskfnFacts.phase_names_known

-- ---------------------------------------------------------------- non-vacuity

example : ¬ DeletionOverride 100 { hash := "gezdqo" } { f13Job with deletionTimestamp := none } := by
  unfold DeletionOverride; decide
example : DeletionOverride 100 { hash := "gezdqo" } f13Job := by
  unfold DeletionOverride; decide
example : (updateJobStatusFromTaskRefs 100 { hash := "gezdqo" } { f13Job with deletionTimestamp := none }).map
    (fun nj => (nj.status.state, nj.status.phase)) = some (.running, "Running") := by decide
example : (getTaskRef (some { name := "t", runningTimestamp := some 5, finishTimestamp := some 9 })
    { name := "t", ref := { name := "t" } }).finishTimestamp = some 9 := by decide

end Furiko.Props.C11
