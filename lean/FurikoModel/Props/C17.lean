/-
C17 — Whatever admission accepts the controllers can process; immutable fields stay so.

Property theorems over `Model/Validation.lean` (the executable model of the admission validators, of the
scheduler-side load `cronschedule.New` and of `NewJobFromJobConfig`; tied to the Go code by the `validate`
engine).  Everything is universally quantified over specs, dynamic configurations, library oracles and
(old,new) pairs.  Finite tables come from `Generated/Facts.lean` (regenerated from the Go source on every
run): the lists of `ValidateImmutableField` calls, the numeric bounds, the guard of the startPolicy check.

Named hypotheses (envelopes):
  `ParseHashIndependent P`  the cron library's verdict on a line does not depend on the hash id.
                            FALSE for cronexpr v0.1.3 (finding F-C17-1).  Since fix d9dad79 the validator
                            re-parses the schedule with the JobConfig's namespaced name
                            (`Facts.valJobConfigScheduleRecheck`), so `accepted_loadable` no longer needs it
                            for a JobConfig admitted with a non-empty name; it is still needed for an
                            object admitted with an empty name (generateName), see
                            `accepted_not_loadable_unnamed_witness`; `f_c17_1_regression` shows the old
                            witness is now rejected.
  `DefaultTzValid E`        the timezone the scheduler falls back to (dynamic configuration, else "UTC")
                            parses.  Without it the clause fails (finding F-C17-2),
                            see `accepted_not_loadable_default_tz_witness`.
-/
import FurikoModel.Model.Validation
import FurikoModel.Proofs.ValidationLemmas

namespace Furiko.Props.C17
open Furiko Furiko.Validation Furiko.ValidationLemmas

/-- cron library contract (sampled by the monitor `parse-hash-independent`) -/
abbrev ParseHashIndependent := ValidationLemmas.ParseHashIndependent

/-- the timezone `getTimezone` falls back to when the JobConfig names none -/
def effectiveDefaultTz (cfg : CronCfg) : String := getTimezone {} cfg

abbrev DefaultTzValid (E : Env) : Prop := E.parseTz (effectiveDefaultTz E.cfg) = true

/-- an admitted JobConfig (the validating webhook answered "allowed") -/
abbrev Accepted (E : Env) (jc : JobConfig) : Prop := validateJobConfig E jc = some []

/-! ## 1. accepted ⇒ loadable -/

/-- the timezone half shared by both versions below -/
theorem accepted_timezone_ok (E : Env) (c : CronSchedule) (hTz : DefaultTzValid E)
    (acc : CronAccepted E c) : E.parseTz (getTimezone c E.cfg) = true := by
  by_cases hz : c.timezone = ""
  · have : getTimezone c E.cfg = effectiveDefaultTz E.cfg := by
      unfold effectiveDefaultTz getTimezone
      simp [hz]
    rw [this]; exact hTz
  · have : getTimezone c E.cfg = c.timezone := by unfold getTimezone; simp [hz]
    rw [this]; exact acc.tz hz

/-- common skeleton: an accepted JobConfig parses on the scheduler side as soon as its cron lines parse
with the scheduler's hash id -/
theorem accepted_parses_of (E : Env) (jc : JobConfig) (hTz : DefaultTzValid E) (h : Accepted E jc)
    (hexpr : ∀ s c, jc.schedule = some s → s.cron = some c → CronAccepted E c →
      newExpression E.P (newParserFromConfig E.cfg) jc.key (getExpressions c) = .ok) :
    parseCronAndTimezone E jc = .ok ∨ parseCronAndTimezone E jc = .skip := by
  obtain ⟨_, _, _, _, hs, _⟩ := validateJobConfig_some_nil E jc h
  unfold parseCronAndTimezone
  cases hsch : jc.schedule with
  | none => right; rfl
  | some s =>
    simp only
    by_cases hd : s.disabled = true
    · right; simp [hd]
    · simp only [hd]
      cases hc : s.cron with
      | none => right; rfl
      | some c =>
        left
        rw [hsch] at hs
        simp only [validateScheduleSpec, hc] at hs
        have acc := validateCronSchedule_nil E c _ hs
        simp only [Bool.false_eq_true, ↓reduceIte, hexpr s c hsch hc acc, accepted_timezone_ok E c hTz acc]

/-- Every JobConfig accepted under a non-empty name is parsed without error by
`Schedule.parseCronAndTimezone` (it is either scheduled or skipped as disabled / without cron schedule) —
WITHOUT any assumption on the cron library: the validator itself parsed the lines with the scheduler's
hash id (fix d9dad79). -/
theorem accepted_parses (E : Env) (jc : JobConfig) (hname : jc.name ≠ "")
    (hTz : DefaultTzValid E) (h : Accepted E jc) :
    parseCronAndTimezone E jc = .ok ∨ parseCronAndTimezone E jc = .skip :=
  accepted_parses_of E jc hTz h fun s c hs hc _ =>
    recheck_newExpression_ok E jc s c hs hc hname (validateJobConfig_recheck E jc (by decide) h)

/-- the version for any name (also the empty one of generateName), under the library contract -/
theorem accepted_parses_of_hash_independent (E : Env) (jc : JobConfig)
    (hP : ParseHashIndependent E.P) (hTz : DefaultTzValid E) (h : Accepted E jc) :
    parseCronAndTimezone E jc = .ok ∨ parseCronAndTimezone E jc = .skip :=
  accepted_parses_of E jc hTz h fun _ c _ _ acc => by
    apply newExpression_ok
    intro l hl
    rw [parse_hash_irrelevant E.P hP _ l jc.key Facts.valCronHashID]
    exact acc.lines l (getExpressions_subset c l hl)

/-- `accepted_loadable`: `validateJobConfig cfg jc = ok → scheduleLoad cfg [jc] ≠ error` (in fact `= ok`),
for every JobConfig admitted under a non-empty name. -/
theorem accepted_loadable (E : Env) (jc : JobConfig) (hname : jc.name ≠ "")
    (hTz : DefaultTzValid E) (h : Accepted E jc) :
    scheduleLoad E [jc] = .ok :=
  (scheduleLoad_ok_iff E [jc]).mpr (by
    intro x hx
    rw [List.mem_singleton.mp hx]
    exact accepted_parses E jc hname hTz h)

/-- … and any set of accepted, named JobConfigs loads together (`cronschedule.New` on the whole cache). -/
theorem accepted_loadable_all (E : Env) (jcs : List JobConfig)
    (hTz : DefaultTzValid E) (h : ∀ jc ∈ jcs, jc.name ≠ "" ∧ Accepted E jc) :
    scheduleLoad E jcs = .ok :=
  (scheduleLoad_ok_iff E jcs).mpr fun jc hjc => accepted_parses E jc (h jc hjc).1 hTz (h jc hjc).2

/-- the old statement (any names, under `ParseHashIndependent`) -/
theorem accepted_loadable_all_of_hash_independent (E : Env) (jcs : List JobConfig)
    (hP : ParseHashIndependent E.P) (hTz : DefaultTzValid E) (h : ∀ jc ∈ jcs, Accepted E jc) :
    scheduleLoad E jcs = .ok :=
  (scheduleLoad_ok_iff E jcs).mpr fun jc hjc => accepted_parses_of_hash_independent E jc hP hTz (h jc hjc)

/-- `one_bad_aborts_all`: `cronschedule.New` fails as soon as one element fails — whatever the others are
(which is why `accepted_loadable` matters: one object would wedge scheduling for everyone). -/
theorem one_bad_aborts_all (E : Env) (jcs : List JobConfig) (bad : JobConfig) (hm : bad ∈ jcs)
    (hbad : parseCronAndTimezone E bad = .error) : scheduleLoad E jcs ≠ .ok := by
  intro hok
  have := (scheduleLoad_ok_iff E jcs).mp hok bad hm
  rw [hbad] at this
  rcases this with h | h <;> cases h

/-- the same with the exact outcome, when the library does not panic -/
theorem one_bad_aborts_all_error (E : Env) (jcs : List JobConfig) (bad : JobConfig) (hm : bad ∈ jcs)
    (hbad : parseCronAndTimezone E bad = .error)
    (hnp : ∀ jc ∈ jcs, parseCronAndTimezone E jc ≠ .panic) : scheduleLoad E jcs = .error :=
  scheduleLoad_error_of_mem E jcs bad hm hbad hnp

/-! ### the hypotheses cannot be dropped: concrete witnesses (replayed on the real code) -/

/-- a JobConfig with one cron line and nothing else of interest -/
def wJC (ns name line tz : String) : JobConfig :=
  { ns := ns, name := name, uid := "u",
    template := { pod := some { k8sValid := true, restartAlways := false, restartEmpty := true, id := 1 } },
    concurrency := { policy := "Forbid" },
    schedule := some { cron := some { expression := line, timezone := tz } } }

/-- a library whose verdict on `0 0 H/5 * *` depends on the hash id, as cronexpr v0.1.3 does
(`H/5` in day-of-month: offset `hash mod 5`, rejected when it is 0 because days start at 1) -/
def wHashDependent : ParseFn := fun _ id line =>
  if line = "0 0 H/5 * *" then (if id = some "default/b" ∨ id = some "default/" then .err else .ok) else .ok

def wEnv (P : ParseFn) (cfg : CronCfg) (tzOk : String → Bool) : Env :=
  { cfg := cfg, P := P, parseTz := tzOk,
    hash := fun ix => match ix.num with | some n => toString n | none => ix.key }

def wE1 : Env := wEnv wHashDependent {} (fun _ => true)
def wGood1 : JobConfig := wJC "default" "a" "0 * * * *" ""
def wGood2 : JobConfig := wJC "prod" "report" "0 0 H/5 * *" ""
def wBad : JobConfig := wJC "default" "b" "0 0 H/5 * *" ""
/-- the same object as it reaches admission with `generateName: b-` (no name yet) -/
def wUnnamed : JobConfig := wJC "default" "" "0 0 H/5 * *" ""

/-- F-C17-1, regression (fixed by d9dad79): the former witness — `default/b`, which the validator's parse
with hash id "" accepts and the scheduler's parse with `default/b` refuses — is now REJECTED by the
validator, at `spec.schedule.cron`, also when its schedule is disabled; the same line under a name for
which it parses is still admitted and loads. -/
theorem f_c17_1_regression :
    validateJobConfig wE1 wBad = some [⟨"spec.schedule.cron", .invalid⟩] ∧
    validateJobConfig wE1 { wBad with schedule := wBad.schedule.map fun s => { s with disabled := true } } =
      some [⟨"spec.schedule.cron", .invalid⟩] ∧
    Accepted wE1 wGood1 ∧ Accepted wE1 wGood2 ∧ scheduleLoad wE1 [wGood1, wGood2] = .ok ∧
    scheduleLoad wE1 [wGood1, wGood2, wBad] = .error := by
  decide

/-- What remains of F-C17-1: an object admitted with an empty name (generateName).  The scheduler-style
parse is skipped for it (the final name is not known at admission), so without `ParseHashIndependent`
the clause is still false there. -/
theorem accepted_not_loadable_unnamed_witness :
    wUnnamed.name = "" ∧ Accepted wE1 wUnnamed ∧ DefaultTzValid wE1 ∧
    scheduleLoad wE1 [wUnnamed] = .error ∧ scheduleLoad wE1 [wGood1, wGood2, wUnnamed] = .error := by
  decide

def wE2 : Env :=
  wEnv (fun _ _ _ => .ok) { defaultTimezone := some "Mars/Olympus" } (fun tz => tz != "Mars/Olympus")
def wExplicit : JobConfig := wJC "default" "explicit" "0 * * * *" "Asia/Singapore"
def wImplicit : JobConfig := wJC "default" "implicit" "0 * * * *" ""

/-- F-C17-2: without `DefaultTzValid`, `accepted_loadable` is false: a JobConfig that names no timezone is
admitted whatever the dynamic configuration's `defaultTimezone` is; the scheduler then fails on it. -/
theorem accepted_not_loadable_default_tz_witness :
    ParseHashIndependent wE2.P ∧ Accepted wE2 wExplicit ∧ Accepted wE2 wImplicit ∧
    scheduleLoad wE2 [wExplicit] = .ok ∧ scheduleLoad wE2 [wExplicit, wImplicit] = .error := by
  refine ⟨fun _ _ _ _ => rfl, ?_⟩
  decide

/-! ## 2. accepted ⇒ instantiable -/

/-- `NewJobFromJobConfig` succeeds on every accepted JobConfig (the default value of every option
evaluates: Bool formats are valid by validation), for every job type and time. -/
theorem accepted_instantiable (E : Env) (jc : JobConfig) (jobType : String) (ts : Int) (h : Accepted E jc) :
    ∃ j, newJobFromJobConfig jc jobType ts = some j ∧
      j.template = some jc.template ∧ j.type = jobType ∧ j.uidLabel = jc.uid ∧ j.startPolicy = none ∧
      j.name = generateName jc.name ts := by
  obtain ⟨_, _, _, _, _, ho⟩ := validateJobConfig_some_nil E jc h
  obtain ⟨r, hr⟩ := makeDefaultOptions_of_accepted jc.option _ ho
  unfold newJobFromJobConfig
  rw [hr]
  exact ⟨_, rfl, rfl, rfl, rfl, rfl, rfl⟩

/-- hypotheses on the dynamic Job configuration and on Kubernetes' validator under which the produced Job
is valid: the configured defaults are not negative, and defaulting an empty `restartPolicy` to `Never`
does not turn a valid pod template into an invalid one -/
structure InstEnvelope (E : Env) (k8sAfter : PodT → Bool) : Prop where
  pending : ∀ v, E.defaultPendingTimeout = some v → 0 ≤ v
  ttl : ∀ v, E.defaultTTL = some v → 0 ≤ v
  pod : ∀ p : PodT, p.k8sValid = true → k8sAfter p = true

/-- the defaulted template of an accepted template is accepted -/
theorem mutated_template_ok (E : Env) (k8sAfter : PodT → Bool) (env : InstEnvelope E k8sAfter)
    (t : JobTemplate) (h : templateOk E.hash t) : templateOk E.hash (mutateJobTemplate E k8sAfter t) := by
  obtain ⟨⟨p, hp, hk, ha⟩, h2, h3, h4, h5⟩ := h
  refine ⟨?_, ?_, ?_, ?_, ?_⟩
  · refine ⟨mutatePodTemplate k8sAfter p, by simp [mutateJobTemplate, hp], ?_, ?_⟩
    · unfold mutatePodTemplate
      split
      · exact env.pod p hk
      · exact hk
    · unfold mutatePodTemplate
      split <;> exact ha
  · intro sp hsp
    simp only [mutateJobTemplate] at hsp
    cases hpar : t.parallelism with
    | none => rw [hpar] at hsp; cases hsp
    | some sp0 =>
      rw [hpar] at hsp
      simp only [Option.map_some, Option.some.injEq] at hsp
      have h0 := h2 sp0 hpar
      by_cases hs : sp0.strategy = ""
      · -- an empty strategy is rejected by validation, so this case cannot be accepted
        exfalso
        have hne : Indexes.validateSpecWith Indexes.validateMatrixFixed sp0 ≠ [] := by
          unfold Indexes.validateSpecWith
          simp [Indexes.validateStrategy, hs]
        unfold Indexes.validateParallelismSpecFixed at h0
        by_cases hlen : (Indexes.validateSpecWith Indexes.validateMatrixFixed sp0).length = 0
        · exact hne (List.length_eq_zero_iff.mp hlen)
        · simp only [hlen, ↓reduceIte] at h0
          exact hne h0
      · rw [if_neg hs] at hsp
        rw [← hsp]; exact h0
  · intro v hv
    simp only [mutateJobTemplate] at hv
    cases hpt : t.pendingTimeout with
    | none => rw [hpt] at hv; exact env.pending v hv
    | some v0 =>
      rw [hpt] at hv
      simp only [Option.some.injEq] at hv
      subst hv
      exact h3 _ hpt
  · intro v hv
    simp only [mutateJobTemplate, Option.some.injEq] at hv
    cases hma : t.maxAttempts with
    | none =>
      rw [hma] at hv
      simp only [Option.getD_none] at hv
      subst hv
      decide
    | some v0 =>
      rw [hma] at hv
      simp only [Option.getD_some] at hv
      subst hv
      exact h4 v0 hma
  · intro v hv
    simp only [mutateJobTemplate] at hv
    exact h5 v hv

/-- `accepted_instantiable_partial`: the Job produced from an accepted JobConfig passes defaulting
(`MutateJob`) and then `ValidateJob`, for the two job types the controllers use, when its generated name
fits (the timestamp renders in at most 10 bytes: any time before the year 2286) and under `InstEnvelope`.

Partial with respect to the property's sentence in three ways: (1) the option-evaluation half of
`MutateCreateJob` ("given values for its required options") is C16/C18's model, not this one — the
monitor `accepted-instantiable` runs the real mutator with such values; (2) Kubernetes' validator is the
opaque bit `k8sValid`, so "defaulting keeps the pod template valid" is the hypothesis `InstEnvelope.pod`;
(3) `NewPod` is total in the model by construction (`Indexes.newPod`, C14), so "turned into task objects
without error" has no separate statement here and is judged by the monitor on the real code. -/
theorem accepted_instantiable_partial (E : Env) (k8sAfter : PodT → Bool) (env : InstEnvelope E k8sAfter)
    (jc : JobConfig) (jobType : String) (ts : Int)
    (hty : jobType = Facts.jobTypeAdhoc ∨ jobType = Facts.jobTypeScheduled)
    (hts : (toString ts).utf8ByteSize ≤ 10)
    (h : Accepted E jc) :
    ∃ j, newJobFromJobConfig jc jobType ts = some j ∧ validateJob E.hash (mutateJob E k8sAfter j) = [] := by
  obtain ⟨j, hj, htpl, hjt, _, _, hname⟩ := accepted_instantiable E jc jobType ts h
  refine ⟨j, hj, ?_⟩
  obtain ⟨_, hlen, ht, _, _, _⟩ := validateJobConfig_some_nil E jc h
  have htok := (validateJobTemplateSpec_nil_iff E.hash jc.template _).mp ht
  have hmut := mutated_template_ok E k8sAfter env jc.template htok
  unfold validateJob validateJobSpec
  simp only [append_eq_nil]
  refine ⟨?_, ⟨⟨?_, ?_⟩, ?_⟩, ?_⟩
  · -- name: |jc.name| ≤ 49, one separator, ≤ 10 digits
    have hn : (mutateJob E k8sAfter j).name = generateName jc.name ts := by simp [mutateJob, hname]
    rw [hn]
    unfold validateMaxLength at hlen ⊢
    have h49 : ¬ cmpOp Facts.valMaxLengthRejectOp jc.name.utf8ByteSize Facts.valJobConfigNameMaxLen = true := by
      intro hc; rw [if_pos hc] at hlen; cases hlen
    have hsz : (generateName jc.name ts).utf8ByteSize = jc.name.utf8ByteSize + 1 + (toString ts).utf8ByteSize := by
      unfold generateName
      rw [String.utf8ByteSize_append, String.utf8ByteSize_append]
      rfl
    have : ¬ cmpOp Facts.valMaxLengthRejectOp (generateName jc.name ts).utf8ByteSize Facts.valJobNameMaxLen = true := by
      rw [hsz]
      simp only [cmpOp, Facts.valMaxLengthRejectOp, Facts.valJobConfigNameMaxLen, Facts.valJobNameMaxLen] at h49 ⊢
      simp at h49 hts ⊢
      omega
    rw [if_neg this]
  · -- type
    have : (mutateJob E k8sAfter j).type = jobType := by
      simp only [mutateJob, hjt]
      rcases hty with h | h <;> simp [h, Facts.jobTypeAdhoc, Facts.jobTypeScheduled]
    rw [this]
    unfold validateJobType
    rw [if_pos hty]
  · -- start policy: none
    have : (mutateJob E k8sAfter j).startPolicy = none := by simp [mutateJob, *]
    rw [this]; rfl
  · -- template
    have : (mutateJob E k8sAfter j).template = some (mutateJobTemplate E k8sAfter jc.template) := by
      simp [mutateJob, htpl]
    rw [this]
    exact (validateJobTemplateSpec_nil_iff E.hash _ _).mpr hmut
  · -- ttl
    cases httl : (mutateJob E k8sAfter j).ttl with
    | none => rfl
    | some v =>
      simp only
      apply (validateNonnegative_nil _ _).mpr
      have hj0 : j.ttl = none := by
        unfold newJobFromJobConfig at hj
        split at hj
        · cases hj
        · cases hj; rfl
      simp only [mutateJob, hj0] at httl
      exact env.ttl v httl

/-- … and it passes `ValidateJobCreate` when the lister holds its JobConfig (same uid) and the queue of
that JobConfig is not full. -/
theorem accepted_instantiable_create (E : Env) (k8sAfter : PodT → Bool) (jc : JobConfig) (jobType : String)
    (ts : Int) (j : Job) (lister : List JCEntry) (e : JCEntry)
    (hj : newJobFromJobConfig jc jobType ts = some j)
    (hfind : lister.find? (·.name = jc.name) = some e) (huid : e.uid = jc.uid)
    (hq : ∀ max, E.maxEnqueuedJobs = some max → e.queued < max) :
    validateJobCreate E (mutateJob E k8sAfter j) lister = [] := by
  unfold newJobFromJobConfig at hj
  split at hj
  · cases hj
  · cases hj
    simp only [validateJobCreate, validateLookupJobOwner, controllerOf, mutateJob, List.find?_cons_of_pos,
      ne_eq, not_true_eq_false, ↓reduceIte, hfind, huid, validateJobCreateWithJobConfig, List.nil_append]
    cases hm : E.maxEnqueuedJobs with
    | none => rfl
    | some max =>
      have := hq max hm
      simp only
      rw [if_neg (by omega)]

/-! ## 3. immutable fields -/

/-- `immutable_fields`: an accepted update changes none of: task template, parallelism, maxAttempts,
retry delay, type, option values, substitutions, configName, the JobConfig uid label; nor the start policy
if the (new) object is started; nor the kill timestamp if the old one lies strictly before the clock.
(The lists of immutable fields and the guard object are read from the Go source through `Facts`.) -/
theorem immutable_fields (now : Int) (old new : Job) (h : validateJobUpdate now old new = some []) :
    (∃ ot nt, old.template = some ot ∧ new.template = some nt ∧
        ot.pod = nt.pod ∧ ot.parallelism = nt.parallelism ∧ ot.maxAttempts = nt.maxAttempts ∧
        ot.retryDelay = nt.retryDelay) ∧
    old.type = new.type ∧ old.optionValues = new.optionValues ∧ old.substitutions = new.substitutions ∧
    old.configName = new.configName ∧ old.uidLabel = new.uidLabel ∧
    (new.started = true → old.startPolicy = new.startPolicy) ∧
    (∀ k, old.killTimestamp = some k → k * 1000000000 < now → new.killTimestamp = some k) := by
  unfold validateJobUpdate at h
  cases hs : validateJobSpecUpdate now old new "spec" with
  | none => rw [hs] at h; cases h
  | some e2 =>
    rw [hs] at h
    simp only [Option.some.injEq, append_eq_nil] at h
    obtain ⟨⟨hmeta, he2⟩, hsp⟩ := h
    subst he2
    unfold validateJobSpecUpdate at hs
    cases hot : old.template with
    | none => rw [hot] at hs; cases hs
    | some ot =>
      cases hnt : new.template with
      | none => rw [hot, hnt] at hs; cases hs
      | some nt =>
        rw [hot, hnt] at hs
        simp only [Option.some.injEq, append_eq_nil] at hs
        obtain ⟨⟨hspec, htpl⟩, hkill⟩ := hs
        have hS := fun fp hfp => specImmutable_of_nil old new "spec" fp hfp hspec
        have hT := fun fp hfp => templateImmutable_of_nil ot nt _ fp hfp htpl
        refine ⟨⟨ot, nt, rfl, rfl, ?_, ?_, ?_, ?_⟩, ?_, ?_, ?_, ?_, ?_, ?_, ?_⟩
        · simpa [templateFieldEq] using hT ("TaskTemplate", "taskTemplate") (by simp [Facts.valJobTemplateImmutable])
        · simpa [templateFieldEq] using hT ("Parallelism", "parallelism") (by simp [Facts.valJobTemplateImmutable])
        · simpa [templateFieldEq] using hT ("MaxAttempts", "maxAttempts") (by simp [Facts.valJobTemplateImmutable])
        · simpa [templateFieldEq] using hT ("RetryDelaySeconds", "retryDelaySeconds") (by simp [Facts.valJobTemplateImmutable])
        · simpa [specFieldEq] using hS ("Type", "type") (by simp [Facts.valJobSpecImmutable])
        · simpa [specFieldEq] using hS ("OptionValues", "optionValues") (by simp [Facts.valJobSpecImmutable])
        · simpa [specFieldEq] using hS ("Substitutions", "substitutions") (by simp [Facts.valJobSpecImmutable])
        · simpa [specFieldEq] using hS ("ConfigName", "configName") (by simp [Facts.valJobSpecImmutable])
        · unfold validateJobMetadataUpdate at hmeta
          split at hmeta
          · rename_i heq; exact heq.symm
          · cases hmeta
        · intro hstarted
          simp only [startGuard, Facts.valStartPolicyGuardObject] at hsp
          simp [hstarted] at hsp
          exact hsp.symm
        · intro k hk hlt
          unfold validateKillTimestampUpdate at hkill
          rw [hk] at hkill
          simp only at hkill
          by_cases hx : new.killTimestamp = some k
          · exact hx
          · have : k * 1000000000 < now ∧ some k ≠ new.killTimestamp := ⟨hlt, fun hc => hx hc.symm⟩
            rw [if_pos this] at hkill
            cases hkill

/-- the same for the whole Job validating webhook on UPDATE (`ValidateJob` + `ValidateJobUpdate`) -/
theorem immutable_fields_webhook (E : Env) (old new : Job) (h : webhookJobUpdate E old new = some []) :
    validateJobUpdate E.now old new = some [] := by
  unfold webhookJobUpdate at h
  cases hu : validateJobUpdate E.now old new with
  | none => rw [hu] at h; cases h
  | some e =>
    rw [hu] at h
    simp only [Option.some.injEq, append_eq_nil] at h
    rw [h.2]

/-- start policy under the API server's status-subresource semantics (a spec update carries the stored
status, so `new.started = old.started`): immutable once the stored Job is started. -/
theorem startPolicy_immutable_once_started (now : Int) (old new : Job)
    (h : validateJobUpdate now old new = some []) (hapi : new.started = old.started)
    (hstarted : old.started = true) : old.startPolicy = new.startPolicy :=
  (immutable_fields now old new h).2.2.2.2.2.2.1 (hapi.trans hstarted)

/-- The guard of the startPolicy check reads the NEW object's start time: a bare request whose new object
drops `status.startTime` changes the start policy of a started Job and is accepted.  (Not reachable
through an API server with the status subresource enabled, as furiko's CRDs have; corpus scenario
`startpolicy-guard-reads-new-status`.) -/
theorem startPolicy_guard_reads_new_status :
    ∃ (now : Int) (old new : Job), old.started = true ∧ new.started = false ∧
      old.startPolicy ≠ new.startPolicy ∧ validateJobUpdate now old new = some [] :=
  ⟨0, { template := some {}, started := true, startPolicy := some { policy := "Enqueue" } },
      { template := some {}, started := false, startPolicy := some { policy := "Allow" } }, by decide⟩

/-- Boundary: a kill timestamp EQUAL to the clock has not "passed" for the validator (`Before` is strict)
and can still be moved or removed — while the job controller already acts on it
(`IsTimeSetAndEarlierOrEqual`).  Corpus scenario `kill-timestamp-boundary`. -/
theorem killTimestamp_equal_now_is_mutable :
    ∃ (now : Int) (old new : Job), old.killTimestamp = some 5 ∧ 5 * 1000000000 = now ∧
      new.killTimestamp = none ∧ validateJobUpdate now old new = some [] :=
  ⟨5000000000, { template := some {}, killTimestamp := some 5 }, { template := some {} }, by decide⟩

/-- … and one nanosecond later it is locked -/
theorem killTimestamp_locked_after (old new : Job) (k : Int) (now : Int)
    (hk : old.killTimestamp = some k) (hlt : k * 1000000000 < now) (hne : new.killTimestamp ≠ some k) :
    validateJobUpdate now old new ≠ some [] := by
  intro h
  exact hne ((immutable_fields now old new h).2.2.2.2.2.2.2 k hk hlt)

/-! ## facts the statements above rest on (re-proved against today's source on every run) -/

/-- the validator parses with the empty hash id -/
theorem fact_validator_hash_id : Facts.valCronHashID = "" := by decide

/-- … and, when nothing else was rejected, once more the way the scheduler will (fix d9dad79): the call is
there, skipped exactly as modelled, and uses the scheduler's hash id -/
theorem fact_schedule_recheck :
    Facts.valJobConfigScheduleRecheck = true ∧
    Facts.valScheduleRecheckSkipGuard = "schedule == nil || schedule.Cron == nil || rjc.Name == \"\"" ∧
    Facts.valScheduleRecheckHashID = "cache.MetaNamespaceKeyFunc(rjc)" := by decide

/-- every field the property lists is declared immutable in the source -/
theorem fact_immutable_lists :
    (Facts.valJobSpecImmutable.map (·.1)) = ["ConfigName", "Type", "OptionValues", "Substitutions"] ∧
    (Facts.valJobTemplateImmutable.map (·.1)) = ["TaskTemplate", "Parallelism", "MaxAttempts", "RetryDelaySeconds"] ∧
    Facts.valJobSpecUpdateDelegates.map (·.1) = ["ValidateJobTemplateSpecImmutable", "ValidateKillTimestampUpdate"] := by
  decide

/-- the condition of `ValidateKillTimestampUpdate`, as modelled -/
theorem fact_kill_guard :
    Facts.valKillTimestampGuard = "!oldTimestamp.IsZero() && oldTimestamp.Before(&now) && !oldTimestamp.Equal(timestamp)" := by
  decide

/-- the early return of `parseCronAndTimezone`, as modelled -/
theorem fact_sched_skip_guard :
    Facts.schedSkipGuard = "schedule == nil || schedule.Disabled || schedule.Cron == nil" := by decide

/-- maxAttempts: accepted exactly for 1 ≤ n ≤ 50 (the bounds of the source) -/
theorem maxAttempts_bounds (n : Int) (p : String) : validateMaxRetryAttempts n p = [] ↔ 1 ≤ n ∧ n ≤ 50 := by
  unfold validateMaxRetryAttempts boundChecks
  simp only [Facts.valMaxAttemptsChecks, List.filterMap_cons, List.filterMap_nil, boundRejects,
    Facts.valBoundRejectOp, List.lookup, cmpOp]
  simp
  by_cases h1 : n ≤ 0 <;> by_cases h2 : 50 < n <;> simp [h1, h2] <;> omega

/-! ## non-vacuity: the hypotheses of every theorem are satisfiable by concrete instances -/

def exEnv : Env := wEnv (fun _ _ _ => .ok) {} (fun _ => true)

def exJC : JobConfig :=
  { wJC "default" "hourly" "0 * * * *" "Asia/Singapore" with
    option := some [{ type := .bool, name := "flag".toList, bool := some { format := "TrueFalse".toList } },
                    { type := .string, name := "who".toList, required := true }],
    template := { pod := some { k8sValid := true, restartAlways := false, restartEmpty := true, id := 1 },
                  parallelism := some { withCount := some 3, strategy := "AllSuccessful" },
                  maxAttempts := some 50, retryDelay := some 0 } }

example : ParseHashIndependent exEnv.P ∧ DefaultTzValid exEnv ∧ Accepted exEnv exJC :=
  ⟨fun _ _ _ _ => rfl, by decide, by decide⟩

/-- accepted_parses / accepted_loadable / accepted_loadable_all — with a library whose verdicts DO depend
on the hash id (`wHashDependent`): no contract on the library is needed for named JobConfigs -/
example : scheduleLoad wE1 [exJC, wGood2] = .ok :=
  accepted_loadable_all wE1 _ (by decide) (by
    intro jc hjc
    simp only [List.mem_cons, List.not_mem_nil, or_false] at hjc
    rcases hjc with rfl | rfl <;> exact ⟨by decide, by decide⟩)

/-- accepted_parses_of_hash_independent / accepted_loadable_all_of_hash_independent: an unnamed object -/
example : scheduleLoad exEnv [wUnnamed, exJC] = .ok :=
  accepted_loadable_all_of_hash_independent exEnv _ (fun _ _ _ _ => rfl) (by decide) (by
    intro jc hjc
    simp only [List.mem_cons, List.not_mem_nil, or_false] at hjc
    rcases hjc with rfl | rfl <;> decide)

/-- one_bad_aborts_all: an element on which the scheduler's parse fails -/
example : let E := wEnv wHashDependent {} (fun _ => true)
    parseCronAndTimezone E (wJC "default" "b" "0 0 H/5 * *" "") = .error ∧
    scheduleLoad E [exJC, wJC "default" "b" "0 0 H/5 * *" ""] ≠ .ok :=
  ⟨by decide, one_bad_aborts_all _ _ (wJC "default" "b" "0 0 H/5 * *" "") (by simp) (by decide)⟩

/-- accepted_instantiable(_partial/_create): concrete envelope and JobConfig -/
example : InstEnvelope { exEnv with defaultPendingTimeout := some 900, defaultTTL := some 3600 } (fun _ => true) :=
  ⟨(by intro v h; cases h; decide), (by intro v h; cases h; decide), fun _ _ => rfl⟩

example : ∃ j, newJobFromJobConfig exJC "Scheduled" 1715000000 = some j ∧
    validateJob exEnv.hash (mutateJob exEnv (fun _ => true) j) = [] :=
  accepted_instantiable_partial exEnv (fun _ => true)
    ⟨(by intro v h; cases h), (by intro v h; cases h), fun _ _ => rfl⟩ exJC "Scheduled" 1715000000
    (Or.inr rfl) (by decide) (by decide)

example : ∃ j, newJobFromJobConfig exJC "Adhoc" 0 = some j ∧
    validateJobCreate exEnv (mutateJob exEnv (fun _ => true) j) [{ name := "hourly", uid := "u", queued := 3 }] = [] := by
  obtain ⟨j, hj, _⟩ := accepted_instantiable exEnv exJC "Adhoc" 0 (by decide)
  exact ⟨j, hj, accepted_instantiable_create exEnv _ exJC "Adhoc" 0 j _ { name := "hourly", uid := "u", queued := 3 }
    hj (by decide) rfl (by intro max h; cases h)⟩

/-- immutable_fields: an accepted update that does change something (a mutable field and the clock-guarded
kill timestamp in the future) -/
example : validateJobUpdate 1000 { template := some { maxAttempts := some 2 }, killTimestamp := some 7, started := true }
    { template := some { maxAttempts := some 2, pendingTimeout := some 5 }, killTimestamp := some 9, ttl := some 1,
      started := true } = some [] := by decide

/-- … and a rejected one for every class of rule -/
example : validateJobUpdate 8000000000 { template := some { maxAttempts := some 2 }, killTimestamp := some 7, type := "Adhoc" }
    { template := some { maxAttempts := some 3 }, killTimestamp := some 9, type := "Scheduled", uidLabel := "x" } =
    some [⟨"metadata.labels[execution.furiko.io/job-config-uid]", .invalid⟩, ⟨"spec.type", .invalid⟩,
          ⟨"spec.template.maxAttempts", .invalid⟩, ⟨"spec.killTimestamp", .invalid⟩] := by decide

end Furiko.Props.C17
