/-
C09 — known finding F31: a task can be CREATED, DELETED and NEVER LISTED.

C09: "every task the Job ever created stays listed in its status with its last known state even after the
task object is gone".  `C09Hist.refs_monotone` is about names that WERE recorded.  `SyncOne` sends
`Update` (metadata) and then `UpdateStatus` with the object it read from the cache, discarding what
`Update` returned: whenever one pass changes both the metadata and the status, the status write carries a
resourceVersion that the pass itself has just made stale and is refused as a Conflict — with no fault
injected.  Parallel Job over two indexes, the task name of index `b` taken by a foreign pod: the pass
creates the pod of index `a`, marks the admission error for `b` (annotation: metadata), sweeps the pod of
`a` in the same pass (`shouldKillJob`: the annotation), writes the annotation, and its status write — which
would have listed `job-a-0` with the marker Killed — conflicts.  The pod had not been acknowledged by any
kubelet, so the API server removes it at once; the later passes see `status.tasks = []` and no pod.
Replayed on the real controller by the corpus scenario `f31-created-task-deleted-and-never-listed`
(monitor `created-stays-listed`).
-/
import FurikoModel.Props.SideCommon

namespace Furiko.Props.C09Side
open Furiko Furiko.JobCtl Furiko.Props.Side

set_option synthInstance.maxSize 1024

/-- two indexes `a`, `b`, one attempt each -/
def jobP : JobObj :=
  { Ex.job with job := { Ex.job.job with
      template := some { parallelism := some { indexes := [{ hash := "a" }, { hash := "b" }] } } } }
def p0 : Sys := initSys 0 {} Ex.d jobP
/-- a pod that is not controlled by the Job holds the task name of index `b` -/
def foreignB : PodObj := { pod := { name := "job-b-0", creationTimestamp := some 0 } }
def unlistedRun1 : List Action := [.createForeign foreignB, .deliverPod, .deliverJob, .work]
def pK1 : Sys := runActs p0 unlistedRun1
/-- the deleted pod goes away; every event is delivered; two more passes -/
def unlistedRun2 : List Action :=
  [.podGone "job-a-0", .deliverJob, .deliverPod, .deliverPod, .deliverPod, .work, .deliverJob, .work]
def pK2 : Sys := runActs pK1 unlistedRun2

/-- witness (F31): every action allowed, NO fault in the oracle.  The first pass creates `job-a-0`, gets
AlreadyExists for `job-b-0`, deletes `job-a-0`, writes the annotation (ok) and has its status write refused
as a Conflict; the authoritative status lists no task.  After the pod is gone and everything is delivered
the Job is Finished / AdmissionError with `createdTasks` = 0 and `status.tasks = []`, nothing is queued, no
event is pending and the last pass issues no call: the created task is never listed. -/
theorem created_task_never_listed_witness :
    Reach anyAction jobP pK2 ∧ pK1.faults = [] ∧
    callsOf pK1 = [("create", "pods", "job-a-0", "ok", false), ("create", "pods", "job-b-0", "exists", false),
                   ("delete", "pods", "job-a-0", "ok", false), ("update", "jobs", "job", "ok", false),
                   ("update", "jobs", "job", "conflict", true)] ∧
    (jobView pK1 = some ("", true, 0, none) ∧ refsView pK1 = []) ∧
    pK1.pods.map (fun p => (p.pod.name, p.pod.deletionTimestamp.isSome)) = [("job-b-0", false), ("job-a-0", true)] ∧
    (jobView pK2 = some ("AdmissionError", true, 0, some (.admissionError, some 0)) ∧ refsView pK2 = []) ∧
    pK2.pods.map (·.pod.name) = ["job-b-0"] ∧
    (pK2.calls = [] ∧ pK2.q.queue = [] ∧ pK2.jobEvs.length = 0 ∧ pK2.podEvs.length = 0) :=
  ⟨reach_run (reach_run (.init 0 {} Ex.d (by decide +kernel)) unlistedRun1 (by decide +kernel)) unlistedRun2
      (by decide +kernel),
    by decide +kernel, by decide +kernel, ⟨by decide +kernel, by decide +kernel⟩, by decide +kernel,
    ⟨by decide +kernel, by decide +kernel⟩, by decide +kernel,
    ⟨by decide +kernel, by decide +kernel, by decide +kernel, by decide +kernel⟩⟩

end Furiko.Props.C09Side
