/-
C09 — F31 (REPAIRED): the run in which a task was CREATED, DELETED and NEVER LISTED, as a regression.

C09: "every task the Job ever created stays listed in its status with its last known state even after the
task object is gone".  `C09Hist.refs_monotone` is about names that WERE recorded.  Before the repair
`SyncOne` sent `Update` (metadata) and then `UpdateStatus` with the object it read from the cache,
discarding what `Update` returned: whenever one pass changed both the metadata and the status, the status
write carried a resourceVersion that the pass itself had just made stale and was refused as a Conflict —
with no fault injected.  Parallel Job over two indexes, the task name of index `b` taken by a foreign pod:
the pass creates the pod of index `a`, marks the admission error for `b` (annotation: metadata), sweeps the
pod of `a` in the same pass (`shouldKillJob`: the annotation), writes the annotation, and its status write —
which lists `job-a-0` with the marker Killed — conflicted; the pod had not been acknowledged by any kubelet,
so the API server removes it at once, and the later passes saw `status.tasks = []` and no pod.
Now (`ExecutionControl.UpdateJobAndStatus`) the status write is submitted on top of the object `Update`
returned and is applied: the task is listed.  Replayed on the real controller by the corpus scenario
`f31-created-task-deleted-and-never-listed` (monitor `created-stays-listed`; fails on the tree before the
repair).  The general statement is `C09Hist.created_stays_listed`.
-/
import FurikoModel.Props.SideCommon
import FurikoModel.Props.C09Hist

namespace Furiko.Props.C09Side
open Furiko Furiko.JobCtl Furiko.Props.Side

set_option synthInstance.maxSize 1024

/-- two indexes `a`, `b`, one attempt each -/
def jobP : JobObj :=
  { Ex.job with job := { Ex.job.job with
      template := some { parallelism := some { indexes := [{ hash := "a" }, { hash := "b" }] } } } }
def p0 : Sys := initSys 0 {} Ex.d jobP
/-- a pod that is not controlled by the Job holds the task name of index `b` -/
def foreignB : PodObj := { pod := { name := "job-b-0", creationTimestamp := some 0 } }
def unlistedRun1 : List Action := [.createForeign foreignB, .deliverPod, .deliverJob, .work]
def pK1 : Sys := runActs p0 unlistedRun1
/-- the deleted pod goes away; every event is delivered; two more passes -/
def unlistedRun2 : List Action :=
  [.podGone "job-a-0", .deliverJob, .deliverPod, .deliverPod, .deliverPod, .work, .deliverJob, .work]
def pK2 : Sys := runActs pK1 unlistedRun2

/-- two more steps: the status the last pass wrote is delivered and the pass it triggers is idle -/
def pK3 : Sys := runActs pK2 [.deliverJob, .work]

/-- **regression (F31, repaired)**: the run of the former witness `created_task_never_listed_witness` —
every action allowed, NO fault in the oracle.  The first pass creates `job-a-0`, gets AlreadyExists for
`job-b-0`, deletes `job-a-0`, writes the annotation (ok) and — on top of the object that write returned —
the status (ok; it was `conflict` before the repair): the authoritative status lists `job-a-0` with
`createdTasks` = 1 and the deleted-status marker Killed.  After the pod is gone and everything is
delivered the Job is Finished / AdmissionError, `job-a-0` is listed as Terminated / Killed, nothing is
queued, no event is pending and the last pass issues no call: the created task stays listed. -/
theorem created_task_listed_regression :
    Reach anyAction jobP pK3 ∧ pK1.faults = [] ∧
    callsOf pK1 = [("create", "pods", "job-a-0", "ok", false), ("create", "pods", "job-b-0", "exists", false),
                   ("delete", "pods", "job-a-0", "ok", false), ("update", "jobs", "job", "ok", false),
                   ("update", "jobs", "job", "ok", true)] ∧
    (jobView pK1 = some ("AdmissionError", true, 1, some (.admissionError, some 0)) ∧
      pK1.job.map (fun j => j.job.status.tasks.map (fun r => (r.name, r.deletedStatus.map (·.result)))) =
        some [("job-a-0", some .killed)]) ∧
    pK1.pods.map (fun p => (p.pod.name, p.pod.deletionTimestamp.isSome)) = [("job-b-0", false), ("job-a-0", true)] ∧
    (jobView pK3 = some ("AdmissionError", true, 1, some (.admissionError, some 0)) ∧
      refsView pK3 = [("job-a-0", .terminated, .killed, none, some 0)]) ∧
    pK3.pods.map (·.pod.name) = ["job-b-0"] ∧
    (pK3.calls = [] ∧ pK3.q.queue = [] ∧ pK3.jobEvs.length = 0 ∧ pK3.podEvs.length = 0) :=
  ⟨reach_run (reach_run (reach_run (.init 0 {} Ex.d (by decide +kernel)) unlistedRun1 (by decide +kernel))
      unlistedRun2 (by decide +kernel)) [.deliverJob, .work] (by decide +kernel),
    by decide +kernel, by decide +kernel, ⟨by decide +kernel, by decide +kernel⟩, by decide +kernel,
    ⟨by decide +kernel, by decide +kernel⟩, by decide +kernel,
    ⟨by decide +kernel, by decide +kernel, by decide +kernel, by decide +kernel⟩⟩

/-- non-vacuity: the pass of the run does write BOTH the annotation and the status (the case the repair is
about), and the pod it created is gone from the server when the run ends -/
example : (callsOf pK1).filter (fun c => c.1 = "update") =
    [("update", "jobs", "job", "ok", false), ("update", "jobs", "job", "ok", true)] ∧
    (pK3.pods.map (·.pod.name)).contains "job-a-0" = false := ⟨by decide +kernel, by decide +kernel⟩

/-- the state in which the first pass of the run starts -/
def pK0 : Sys := runActs p0 [.createForeign foreignB, .deliverPod, .deliverJob]

/-- non-vacuity of `C09Hist.created_stays_listed` for the case the repair is about: the first pass of this
run satisfies its premises (`sync` returns without error, no fault is pending for the two writes, the cached
Job carries the stored resourceVersion), it is a pass that SETS the admission-error annotation (the cached
Job does not carry it, the computed one does) and changes the status, and the pod it creates is new. -/
example :
    (match (pK0.q.advance pK0.clock).get with
      | some (_, q1) =>
        decide ((sync (C09Hist.passState pK0 q1) (Ex.cachedOf pK0)).2.2.2.1 = true) &&
        decide ((sync (C09Hist.passState pK0 q1) (Ex.cachedOf pK0)).1.faults = []) &&
        decide (((sync (C09Hist.passState pK0 q1) (Ex.cachedOf pK0)).1.job.map (·.rv)) = some (Ex.cachedOf pK0).rv) &&
        decide ((sync (C09Hist.passState pK0 q1) (Ex.cachedOf pK0)).2.1.admissionError = true) &&
        decide ((sync (C09Hist.passState pK0 q1) (Ex.cachedOf pK0)).2.1.status ≠ (Ex.cachedOf pK0).job.status)
      | none => false) = true ∧
    pK0.jobCache = some (Ex.cachedOf pK0) ∧ (Ex.cachedOf pK0).job.admissionError = false ∧
    pK0.pods.map (·.pod.name) = ["job-b-0"] ∧ step pK0 .work = pK1 :=
  ⟨by decide +kernel, by decide +kernel, by decide +kernel, by decide +kernel, rfl⟩

end Furiko.Props.C09Side
