/-
C03 — "scheduling follows create/update/enable/disable/delete; after a change the controller
fires according to the new schedule only, nothing back-dated before the change".

A flush for key `k` is Delete(k) followed by Bump(cur, now) of the version `cur` the LISTER holds
for `k` at that moment (nothing is added back when the lister no longer has `k`); the object that
sits in the channel only names the key.
`flushEntryOf cur now = if cur enabled ∧ parses then getNext cur.nxt cur.notBefore cur.notAfter now
else none`; `flushEntry lister k now = match lookup lister k with none => none | some cur =>
flushEntryOf cur now` (Proofs/CronFlush.lean: `flushEntry_of_lookup`, `flushEntry_of_missing`).
`runTicks cap flushLimit fuel w ts` (Proofs/CronRunWork.lean) runs ticks at the reference times
`ts`.  The informer handler registrations come from `Generated/Facts.lean`.
-/
import FurikoModel.Generated.Facts
import FurikoModel.Proofs.CronRunFlush
import FurikoModel.Proofs.CronExamples
import FurikoModel.Proofs.CronSource

namespace Furiko.Cron.C03
open Furiko Furiko.Cron
open Furiko.Cron.Ex (jcNew wUpd jcNew_sorted wUpd_lister jcDis wDis jcB jcB_sorted)

/-- all three informer handlers are registered in the source (breaks if one is removed) -/
theorem handlers_registered :
    Facts.cronHandlerAdd = true ∧ Facts.cronHandlerUpdate = true ∧ Facts.cronHandlerDelete = true :=
  ⟨rfl, rfl, rfl⟩

/-- After `refresh` (i.e. at the start of the pop loop) the key named by the last flushed object
`jc` is re-based to the LISTER's current version: entry `getNext cur… now` if the lister holds an
enabled, parsing `cur`; no entry if the key is gone from the lister, disabled or unparsable —
independent of which (possibly stale) object sits in the channel.  A new entry is strictly after
`now`. -/
theorem flush_rebases {w : Worker} {now : Int} {flushLimit : Nat} (hInv : Heap.Inv w.heap)
    (hL : ListerOK w.lister) {jc : JC} {pre post : List JC}
    (hchan : w.chan = pre ++ [jc] ++ post) (hpost : ∀ jc' ∈ post, jc'.key ≠ jc.key)
    (hlim : pre.length + 1 ≤ flushLimit) :
    Heap.Inv (refresh w.heap w.lister w.chan now flushLimit).1 ∧
    Heap.search (refresh w.heap w.lister w.chan now flushLimit).1 jc.key
      = flushEntry w.lister jc.key now ∧
    (∀ cur, lookup w.lister jc.key = some cur → flushEntry w.lister jc.key now =
      if cur.sched.enabled && !cur.sched.parseErr then
        getNext cur.nxt cur.sched.notBefore cur.sched.notAfter now else none) ∧
    (lookup w.lister jc.key = none → flushEntry w.lister jc.key now = none) ∧
    ∀ e, flushEntry w.lister jc.key now = some e → now < e * 1000000000 := by
  have hr := refresh_rebases hL now hpost pre w.heap flushLimit hInv hlim
  rw [← hchan] at hr
  refine ⟨hr.1, by rw [flushEntry_eq]; exact hr.2, fun cur h => flushEntry_of_lookup h now,
    fun h => flushEntry_of_missing h now, fun e he => ?_⟩
  rw [flushEntry_eq] at he
  exact (floorSec_lt_iff _ _).1 (listerEnt_gt hL _ _ _ he)

/-- non-vacuity, with a STALE channel object: key "a" has the overdue entry 10, the lister already
holds `jcNew` (matches 50, 60) but the channel still carries the old object `Ex.jcA` -/
example : let w : Worker := { Ex.w0 with lister := wUpd.lister, chan := [Ex.jcA] }
    Heap.Inv w.heap ∧ ListerOK w.lister ∧ w.chan = [] ++ [Ex.jcA] ++ [] ∧
    ([] : List JC).length + 1 ≤ 1000 ∧
    Heap.search (refresh w.heap w.lister w.chan 25500000000 1000).1 "a" = some 50 :=
  ⟨Ex.w0_inv, wUpd_lister, rfl, by decide, by decide⟩

/-- In the tick that processes the flush nothing is requested for the key, whatever its old entry
was, and the key ends the tick with the re-based entry (any fuel). -/
theorem flush_drops_overdue {w : Worker} {now cap : Int} {flushLimit fuel : Nat}
    (hInv : Heap.Inv w.heap) (hL : ListerOK w.lister)
    {jc : JC} {pre post : List JC}
    (hchan : w.chan = pre ++ [jc] ++ post) (hpost : ∀ jc' ∈ post, jc'.key ≠ jc.key)
    (hlim : pre.length + 1 ≤ flushLimit)
    {eold : Int} (_hold : Heap.search w.heap jc.key = some eold)
    (_hover : eold * 1000000000 ≤ now) :
    ((work w now cap flushLimit fuel).2.1.filter (fun p => p.1 = jc.key)).map
      (fun p => p.2) = [] ∧
    Heap.search (work w now cap flushLimit fuel).1.heap jc.key
      = flushEntry w.lister jc.key now := by
  have := flush_tick (now := now) (cap := cap) flushLimit fuel hInv hL hchan hpost hlim
  exact ⟨this.2.1, by rw [flushEntry_eq]; exact this.2.2.1⟩

example : Heap.Inv wUpd.heap ∧ ListerOK wUpd.lister ∧ wUpd.chan = [] ++ [jcNew] ++ [] ∧
    Heap.search wUpd.heap "a" = some 10 ∧ (10 : Int) * 1000000000 ≤ 25500000000 ∧
    (work wUpd 25500000000 5 1000 10).2.1 = [] :=
  ⟨Ex.w0_inv, wUpd_lister, rfl, by decide, by decide, by decide⟩

/-- Nothing back-dated: after the flush for a key whose lister version `cur` is enabled and parses
(channel fully drained), every time requested for the key in any later sequence of non-decreasing
ticks matches the NEW schedule `cur`, lies inside its `[notBefore, notAfter]` window and is
strictly after `now`; the stream is strictly increasing. -/
theorem flush_no_backdating {w : Worker} {now cap : Int} {flushLimit fuel : Nat}
    (hInv : Heap.Inv w.heap) (hL : ListerOK w.lister)
    {jc cur : JC} (hlk : lookup w.lister jc.key = some cur)
    (hen : cur.sched.enabled = true) (hpe : cur.sched.parseErr = false)
    {pre post : List JC}
    (hchan : w.chan = pre ++ [jc] ++ post) (hpost : ∀ jc' ∈ post, jc'.key ≠ jc.key)
    (hlen : w.chan.length ≤ flushLimit)
    (ts : List Int) (hts : List.Pairwise (· ≤ ·) ts)
    (hdone : (runTicks cap flushLimit fuel (work w now cap flushLimit fuel).1 ts).2.2 = true) :
    let fired0 := (work w now cap flushLimit fuel).2.1
    let later := (runTicks cap flushLimit fuel (work w now cap flushLimit fuel).1 ts).2.1
    (fired0.filter (fun p => p.1 = jc.key)).map (fun p => p.2) = [] ∧
    SortedStrict ((later.flatten.filter (fun p => p.1 = jc.key)).map (fun p => p.2)) ∧
    ∀ t, (jc.key, t) ∈ later.flatten → cur.M' t ∧ now < t * 1000000000 := by
  intro fired0 later
  have hs := (lookup_ok hL hlk).2
  have hsp := JC.nextAfter_spec hs
  have hlim : pre.length + 1 ≤ flushLimit := by
    rw [hchan] at hlen; simp at hlen; omega
  have hft := flush_tick (now := now) (cap := cap) flushLimit fuel hInv hL hchan hpost hlim
  have hle : listerEnt w.lister jc.key (floorSec now) = bumpEnt cur (floorSec now) := by
    unfold listerEnt; rw [hlk]
  rw [hle] at hft
  have hi := work_inv_general (now := now) (cap := cap) flushLimit fuel hInv hL
  have hc : (work w now cap flushLimit fuel).1.chan = [] := by
    rw [work_chan_eq _ _ _ _ _ hInv hL]; exact List.drop_eq_nil_iff.2 hlen
  have hk := runTicks_key cap flushLimit fuel (k := jc.key) ⟨hen, hpe⟩ ts _ hi hL hc hlk hdone
  have hstream : outk later.flatten jc.key
      = (keyRun cur.nextAfter cap.toNat (bumpEnt cur (floorSec now))
          (ts.map floorSec)).1.flatten := by
    rw [outk_flatten, hk.1, hft.2.2.1]
  refine ⟨hft.2.1, ?_⟩
  show SortedStrict (outk later.flatten jc.key) ∧ _
  rw [hstream]
  cases hb : bumpEnt cur (floorSec now) with
  | none =>
    rw [(keyRun_none _ _ _).1]
    refine ⟨List.Pairwise.nil, fun t ht => ?_⟩
    have : t ∈ outk later.flatten jc.key := mem_outk.2 ht
    rw [hstream, hb, (keyRun_none _ _ _).1] at this
    cases this
  | some e =>
    have hgt := bumpEnt_gt hs _ _ hb
    have hMe : cur.M' e := by
      rw [bumpEnt_active ⟨hen, hpe⟩] at hb
      exact ((hsp (floorSec now)).1 e hb).2.1
    have hrun := (keyRun_inv hsp cap.toNat e (ts.map floorSec) (e - 1) (some e) []
      (runInv_init _ e)
      (by
        rw [List.pairwise_map]
        exact List.Pairwise.imp (fun h => floorSec_mono h) hts)
      (fun h => by omega)).1
    simp only [List.nil_append] at hrun
    refine ⟨hrun.sorted, fun t ht => ?_⟩
    have hmem : t ∈ outk later.flatten jc.key := mem_outk.2 ht
    rw [hstream, hb] at hmem
    have := hrun.sound t hmem
    refine ⟨?_, (floorSec_lt_iff _ _).1 (by omega)⟩
    rcases this.2.2 with rfl | h
    · exact hMe
    · exact h

/-- non-vacuity: after the update of `wUpd` at 25.5 s, ticks at 30, 40, 55, 70 s request 50, 60 -/
example : Heap.Inv wUpd.heap ∧ ListerOK wUpd.lister ∧ lookup wUpd.lister jcNew.key = some jcNew ∧
    wUpd.chan = [] ++ [jcNew] ++ [] ∧ wUpd.chan.length ≤ 1000 ∧
    (runTicks 5 1000 10 (work wUpd 25500000000 5 1000 10).1
      [30000000000, 40000000000, 55000000000, 70000000000]).2
      = ([[], [], [("a", 50)], [("a", 60)]], true) :=
  ⟨Ex.w0_inv, wUpd_lister, rfl, rfl, by decide, by decide⟩

/-- Update: the update handler is registered (`Facts.cronHandlerUpdate`); an update that changes
the schedule spec is flushed, and after the next tick the key's entry is the NEW version's
`getNext … now` (none if it is disabled / unparsable / has no further match); nothing is requested
for the key in that tick. -/
theorem update_follows {w : Worker} {now cap : Int} {flushLimit fuel : Nat}
    (hInv : Heap.Inv w.heap) (hL : ListerOK w.lister)
    {old new : JC} (hs : ∀ l ∈ new.sched.exprs, SortedStrict l)
    (hspec : old.sched.specId ≠ new.sched.specId) (hlim : w.chan.length + 1 ≤ flushLimit) :
    let w' := onUpdate w old new Facts.cronHandlerUpdate
    Heap.search (work w' now cap flushLimit fuel).1.heap new.key = flushEntryOf new now ∧
    ((work w' now cap flushLimit fuel).2.1.filter (fun p => p.1 = new.key)).map (fun p => p.2)
      = [] := by
  intro w'
  have hreg : Facts.cronHandlerUpdate = true := rfl
  have hw' : w' = { w with lister := listerSet w.lister new.key new, chan := w.chan ++ [new] } := by
    show onUpdate w old new Facts.cronHandlerUpdate = _
    unfold onUpdate
    simp [hreg, hspec]
  have hL' : ListerOK w'.lister := by rw [hw']; exact listerOK_set hL hs
  have hlk : lookup w'.lister new.key = some new := by rw [hw']; simp [lookup_listerSet]
  have := flush_tick (w := w') (now := now) (cap := cap) flushLimit fuel (by rw [hw']; exact hInv)
    hL' (jc := new) (pre := w.chan) (post := []) (by rw [hw']; simp) (fun _ h => by cases h) hlim
  have hle : listerEnt w'.lister new.key (floorSec now) = flushEntryOf new now := by
    rw [← flushEntry_eq, flushEntry_of_lookup hlk]
  rw [hle] at this
  exact ⟨this.2.2.1, this.2.1⟩

example : Heap.Inv Ex.w0.heap ∧ ListerOK Ex.w0.lister ∧ (∀ l ∈ jcNew.sched.exprs, SortedStrict l) ∧
    Ex.jcA.sched.specId ≠ jcNew.sched.specId ∧ Ex.w0.chan.length + 1 ≤ 1000 ∧
    flushEntryOf jcNew 25500000000 = some 50 :=
  ⟨Ex.w0_inv, Ex.w0_lister, jcNew_sorted, by decide, by decide, by decide⟩

/-- Disable (or a spec that stops parsing, or a key gone from the lister): the flush removes the
key; nothing is requested for it in that tick or in any later tick until another flush for the
key arrives (any fuel). -/
theorem disable_stops {w : Worker} {now cap : Int} {flushLimit fuel : Nat}
    (hInv : Heap.Inv w.heap) (hL : ListerOK w.lister) {jc : JC}
    (hoff : ∀ cur, lookup w.lister jc.key = some cur →
      cur.sched.enabled = false ∨ cur.sched.parseErr = true) {pre post : List JC}
    (hchan : w.chan = pre ++ [jc] ++ post) (hpost : ∀ jc' ∈ post, jc'.key ≠ jc.key)
    (hlim : pre.length + 1 ≤ flushLimit) (ts : List Int) :
    Heap.search (refresh w.heap w.lister w.chan now flushLimit).1 jc.key = none ∧
    (∀ l ∈ (runTicks cap flushLimit fuel w (now :: ts)).2.1,
      (l.filter (fun p => p.1 = jc.key)).map (fun p => p.2) = []) ∧
    Heap.search (runTicks cap flushLimit fuel w (now :: ts)).1.heap jc.key = none := by
  have hft := flush_tick (now := now) (cap := cap) flushLimit fuel hInv hL hchan hpost hlim
  have hnone : listerEnt w.lister jc.key (floorSec now) = none := by
    rw [← flushEntry_eq]
    cases hlk : lookup w.lister jc.key with
    | none => exact flushEntry_of_missing hlk now
    | some cur => rw [flushEntry_of_lookup hlk]; exact flushEntryOf_off (hoff cur hlk) now
  have hi := work_inv_general (now := now) (cap := cap) flushLimit fuel hInv hL
  have hrest := runTicks_absent cap flushLimit fuel jc.key ts
    (work w now cap flushLimit fuel).1 hi hL hft.2.2.2 (hft.2.2.1.trans hnone)
  refine ⟨hft.1.trans hnone, fun l hl => ?_, ?_⟩
  · simp only [runTicks] at hl
    rcases List.mem_cons.1 hl with rfl | hl
    · exact hft.2.1
    · exact hrest.1 l hl
  · simp only [runTicks]; exact hrest.2

example : Heap.Inv wDis.heap ∧ ListerOK wDis.lister ∧
    (∀ cur, lookup wDis.lister jcDis.key = some cur →
      cur.sched.enabled = false ∨ cur.sched.parseErr = true) ∧
    wDis.chan = [] ++ [jcDis] ++ [] ∧ Heap.search wDis.heap "a" = some 10 ∧
    (runTicks 5 1000 10 wDis [25500000000, 40000000000]).2 = ([[], []], true) := by
  refine ⟨Ex.w0_inv, ?_, ?_, rfl, by decide, by decide⟩
  · have : wDis.lister = listerSet Ex.w0.lister jcDis.key jcDis := rfl
    rw [this]; exact listerOK_set Ex.w0_lister Ex.jcA_sorted
  · intro cur h
    have : lookup wDis.lister jcDis.key = some jcDis := rfl
    rw [this] at h; cases h; exact Or.inl rfl

/-- Delete, unconditionally: the delete handler is registered (`Facts.cronHandlerDelete`); once
the delete event has been delivered (lister entry gone, flush enqueued) the flush REMOVES the key
from the heap, and nothing is requested for the key in that tick or in any later tick, whatever
the heap held before and whatever object the channel carries (any fuel). -/
theorem delete_stops {w : Worker} {now cap : Int} {flushLimit fuel : Nat}
    (hInv : Heap.Inv w.heap) (hL : ListerOK w.lister) (jc : JC)
    (hlim : w.chan.length + 1 ≤ flushLimit) (ts : List Int) :
    let w' := onDelete w jc Facts.cronHandlerDelete
    lookup w'.lister jc.key = none ∧
    Heap.search (refresh w'.heap w'.lister w'.chan now flushLimit).1 jc.key = none ∧
    (∀ l ∈ (runTicks cap flushLimit fuel w' (now :: ts)).2.1,
      (l.filter (fun p => p.1 = jc.key)).map (fun p => p.2) = []) ∧
    Heap.search (runTicks cap flushLimit fuel w' (now :: ts)).1.heap jc.key = none := by
  intro w'
  have hw' : w' = { w with lister := listerDel w.lister jc.key, chan := w.chan ++ [jc] } := rfl
  have hL' : ListerOK w'.lister := by rw [hw']; exact listerOK_del hL _
  have hlk : lookup w'.lister jc.key = none := by rw [hw']; simp [lookup_listerDel]
  have hInv' : Heap.Inv w'.heap := by rw [hw']; exact hInv
  have hd := disable_stops (now := now) (cap := cap) (flushLimit := flushLimit) (fuel := fuel)
    hInv' hL' (jc := jc) (fun cur h => by rw [hlk] at h; cases h) (pre := w.chan) (post := [])
    (by rw [hw']; simp) (fun _ h => by cases h) hlim ts
  exact ⟨hlk, hd⟩

/-- non-vacuity: "a" (overdue entry 10) is deleted; the flush at 5 s removes it, later ticks
request nothing -/
example : let wDel := onDelete Ex.w0 Ex.jcA Facts.cronHandlerDelete
    Heap.Inv Ex.w0.heap ∧ ListerOK Ex.w0.lister ∧ Ex.w0.chan.length + 1 ≤ 1000 ∧
    Heap.search wDel.heap "a" = some 10 ∧
    Heap.search (refresh wDel.heap wDel.lister wDel.chan 5000000000 1000).1 "a" = none ∧
    (runTicks 5 1000 10 wDel [5000000000, 12000000000, 22000000000]).2 = ([[], [], []], true) :=
  ⟨Ex.w0_inv, Ex.w0_lister, by decide, by decide, by decide, by decide⟩

/-- (Worker level: both events flushed; `recreate_follows_new_schedule_only` below shows that they
are.)  Delete then re-create under the same key with a different schedule: after the next tick the
key's entry is the NEW version's `getNext … now`, and nothing is requested for the key in that
tick — whatever the old version's entry was (with `flush_no_backdating`: afterwards only the new
schedule fires, strictly after `now`). -/
theorem recreate_follows_new_schedule_only_of_flush {w : Worker} {now cap : Int} {flushLimit fuel : Nat}
    (hInv : Heap.Inv w.heap) (hL : ListerOK w.lister) {jc jcN : JC} (hkey : jcN.key = jc.key)
    (hs : ∀ l ∈ jcN.sched.exprs, SortedStrict l) (hlim : w.chan.length + 2 ≤ flushLimit) :
    let w' := onAdd (onDelete w jc Facts.cronHandlerDelete) jcN Facts.cronHandlerAdd
    lookup w'.lister jc.key = some jcN ∧
    Heap.search (work w' now cap flushLimit fuel).1.heap jc.key = flushEntryOf jcN now ∧
    ((work w' now cap flushLimit fuel).2.1.filter (fun p => p.1 = jc.key)).map (fun p => p.2)
      = [] := by
  intro w'
  have hw' : w' = { w with lister := listerSet (listerDel w.lister jc.key) jcN.key jcN,
                           chan := (w.chan ++ [jc]) ++ [jcN] } := rfl
  have hL' : ListerOK w'.lister := by rw [hw']; exact listerOK_set (listerOK_del hL _) hs
  have hlk : lookup w'.lister jc.key = some jcN := by
    rw [hw']; simp [lookup_listerSet, hkey]
  have := flush_tick (w := w') (now := now) (cap := cap) flushLimit fuel (by rw [hw']; exact hInv)
    hL' (jc := jcN) (pre := w.chan ++ [jc]) (post := []) (by rw [hw']; simp)
    (fun _ h => by cases h) (by simp; omega)
  rw [hkey] at this
  have hle : listerEnt w'.lister jc.key (floorSec now) = flushEntryOf jcN now := by
    rw [← flushEntry_eq, flushEntry_of_lookup hlk]
  rw [hle] at this
  exact ⟨hlk, this.2.2.1, this.2.1⟩

/-- non-vacuity: "a" (old schedule 10,15,20,…, overdue entry 10) is deleted and re-created with
`jcNew` (50, 60): ticks at 25.5, 40, 55 s request only 50 -/
example : let w' := onAdd (onDelete Ex.w0 Ex.jcA Facts.cronHandlerDelete) jcNew Facts.cronHandlerAdd
    Heap.Inv Ex.w0.heap ∧ ListerOK Ex.w0.lister ∧ jcNew.key = Ex.jcA.key ∧
    Ex.w0.chan.length + 2 ≤ 1000 ∧
    (runTicks 5 1000 10 w' [25500000000, 40000000000, 55000000000]).2
      = ([[], [], [("a", 50)]], true) :=
  ⟨Ex.w0_inv, Ex.w0_lister, rfl, by decide, by decide⟩

/-! ### informer handlers -/

/-- an update is flushed iff the handler is registered and the schedule specs differ -/
theorem onUpdate_flushes_iff (w : Worker) (old new : JC) (updateRegistered : Bool) :
    (onUpdate w old new updateRegistered).chan =
      (if updateRegistered = true ∧ old.sched.specId ≠ new.sched.specId then w.chan ++ [new]
       else w.chan) ∧
    ((onUpdate w old new true).chan = w.chan ++ [new] ↔ old.sched.specId ≠ new.sched.specId) ∧
    (onUpdate w old new updateRegistered).heap = w.heap ∧
    (onUpdate w old new updateRegistered).lister = listerSet w.lister new.key new := by
  unfold onUpdate
  by_cases h : old.sched.specId = new.sched.specId
  · cases updateRegistered <;> simp [h]
  · cases updateRegistered <;> simp [h]

theorem onDelete_flushes_iff (w : Worker) (jc : JC) (deleteRegistered : Bool) :
    (onDelete w jc deleteRegistered).chan = (if deleteRegistered then w.chan ++ [jc] else w.chan) ∧
    ((onDelete w jc deleteRegistered).chan = w.chan ++ [jc] ↔ deleteRegistered = true) := by
  unfold onDelete
  cases deleteRegistered <;> simp

theorem onAdd_flushes_iff (w : Worker) (jc : JC) (addRegistered : Bool) :
    (onAdd w jc addRegistered).chan = (if addRegistered then w.chan ++ [jc] else w.chan) ∧
    ((onAdd w jc addRegistered).chan = w.chan ++ [jc] ↔ addRegistered = true) := by
  unfold onAdd
  cases addRegistered <;> simp

/-- Counterfactual (the repaired defect F1): WITHOUT an add handler a JobConfig created after
start-up would never be scheduled: it is never put into the heap and nothing is ever requested
for it, for any number of ticks. -/
theorem create_starts_needs_add_handler {w : Worker} {cap : Int} {flushLimit fuel : Nat}
    (hInv : Heap.Inv w.heap) (hL : ListerOK w.lister)
    {jc : JC} (hs : ∀ l ∈ jc.sched.exprs, SortedStrict l)
    (hfresh : Heap.search w.heap jc.key = none) (hnopend : ∀ jc' ∈ w.chan, jc'.key ≠ jc.key)
    (ts : List Int) :
    lookup (onAdd w jc false).lister jc.key = some jc ∧
    (∀ l ∈ (runTicks cap flushLimit fuel (onAdd w jc false) ts).2.1,
      (l.filter (fun p => p.1 = jc.key)).map (fun p => p.2) = []) ∧
    Heap.search (runTicks cap flushLimit fuel (onAdd w jc false) ts).1.heap jc.key = none := by
  have hL' : ListerOK (onAdd w jc false).lister := listerOK_set hL hs
  refine ⟨by simp [onAdd, lookup_listerSet], ?_⟩
  exact runTicks_absent cap flushLimit fuel jc.key ts (onAdd w jc false) hInv hL' hnopend hfresh

/-- non-vacuity: "b" (every 5 s) is created into `Ex.w0`; three ticks request nothing for it -/
example : Heap.Inv Ex.w0.heap ∧ ListerOK Ex.w0.lister ∧ Heap.search Ex.w0.heap jcB.key = none ∧
    (∀ jc' ∈ Ex.w0.chan, jc'.key ≠ jcB.key) ∧
    (runTicks 5 1000 10 (onAdd Ex.w0 jcB false) [7000000000, 12000000000, 31000000000]).2.1
      = [[], [("a", 10)], [("a", 15), ("a", 20), ("a", 30)]] :=
  ⟨Ex.w0_inv, Ex.w0_lister, by decide, fun _ h => (by cases h), by decide⟩

/-- (Worker level: the add is flushed; `create_starts` below shows when it is.)  Create: the add
handler is registered (`Facts.cronHandlerAdd`), so the new JobConfig is scheduled: after `onAdd`
and one tick at `now` its entry is `getNext … now` (and nothing is requested for it in that
tick). -/
theorem create_starts_of_flush {w : Worker} {now cap : Int} {flushLimit fuel : Nat}
    (hInv : Heap.Inv w.heap) (hL : ListerOK w.lister)
    {jc : JC} (hs : ∀ l ∈ jc.sched.exprs, SortedStrict l)
    (hen : jc.sched.enabled = true) (hpe : jc.sched.parseErr = false)
    (hlim : w.chan.length + 1 ≤ flushLimit) :
    let w' := onAdd w jc Facts.cronHandlerAdd
    Heap.search (work w' now cap flushLimit fuel).1.heap jc.key
      = getNext jc.nxt jc.sched.notBefore jc.sched.notAfter now ∧
    ((work w' now cap flushLimit fuel).2.1.filter (fun p => p.1 = jc.key)).map (fun p => p.2)
      = [] := by
  intro w'
  have hw' : w' = { w with lister := listerSet w.lister jc.key jc, chan := w.chan ++ [jc] } := rfl
  have hL' : ListerOK w'.lister := by rw [hw']; exact listerOK_set hL hs
  have hlk : lookup w'.lister jc.key = some jc := by rw [hw']; simp [lookup_listerSet]
  have := flush_tick (w := w') (now := now) (cap := cap) flushLimit fuel (by rw [hw']; exact hInv)
    hL' (jc := jc) (pre := w.chan) (post := []) (by rw [hw']; simp) (fun _ h => by cases h) hlim
  have hle : listerEnt w'.lister jc.key (floorSec now)
      = getNext jc.nxt jc.sched.notBefore jc.sched.notAfter now := by
    rw [← flushEntry_eq, flushEntry_of_lookup hlk, flushEntryOf_active hen hpe]
  rw [hle] at this
  exact ⟨this.2.2.1, this.2.1⟩

example : Heap.Inv Ex.w0.heap ∧ ListerOK Ex.w0.lister ∧ jcB.sched.enabled = true ∧
    jcB.sched.parseErr = false ∧ Ex.w0.chan.length + 1 ≤ 1000 ∧
    (runTicks 5 1000 10 (onAdd Ex.w0 jcB Facts.cronHandlerAdd) [7000000000, 12000000000]).2.1
      = [[], [("a", 10), ("b", 10)]] :=
  ⟨Ex.w0_inv, Ex.w0_lister, rfl, rfl, by decide, by decide⟩

/-! ### the handlers next to the record of what `Init` loaded (F24)

`handleAdd` ignores the add of a JobConfig that `CronWorker.Init` loaded (recorded key with the
recorded UID): that is the informer's notification for an object that existed at boot.  The
theorems below show that this does not take back the repairs of F1 and F12: every OTHER add is
flushed.  They are stated for the shapes the source has (`Facts.…`) and proved for either value of
`takes` (before the repair of F24 every add is flushed). -/

/-- an add is flushed (the worker sees exactly `onAdd`) unless `handleAdd` consults the record and
the record holds the key with this UID -/
theorem ctlAdd_flushes {c : Ctl} {jc : JC} {takes : Bool}
    (h : takes = true → lookupUid c.loaded jc.key ≠ some jc.uid) :
    (ctlAdd c jc true takes).worker = onAdd c.worker jc true := by
  cases takes with
  | false => simp [ctlAdd, handleAdd, onAdd]
  | true =>
    have hn := h rfl
    unfold ctlAdd
    rw [handleAdd_not_loaded (c := { c with worker := { c.worker with
      lister := listerSet c.worker.lister jc.key jc } }) hn]
    simp [onAdd]

/-- … and conversely the add of a recorded JobConfig with the recorded UID is not: only the cache
changes -/
theorem ctlAdd_of_loaded {c : Ctl} {jc : JC} (h : lookupUid c.loaded jc.key = some jc.uid) :
    (ctlAdd c jc true true).worker = onAdd c.worker jc false ∧
    lookupUid (ctlAdd c jc true true).loaded jc.key = none := by
  unfold ctlAdd
  rw [handleAdd_loaded (c := { c with worker := { c.worker with
    lister := listerSet c.worker.lister jc.key jc } }) h]
  exact ⟨by simp [onAdd], lookupUid_forget_self _ _⟩

/-- delete and update events reach the worker as before; a delete also forgets the record -/
theorem ctlDelete_worker (c : Ctl) (jc : JC) (reg forgets : Bool) :
    (ctlDelete c jc reg forgets).worker = onDelete c.worker jc reg ∧
    (reg = true → forgets = true → lookupUid (ctlDelete c jc reg forgets).loaded jc.key = none) := by
  refine ⟨rfl, fun h1 h2 => ?_⟩
  subst h1; subst h2
  exact lookupUid_forget_self _ _

/-- an update event reaches the worker as before and does not look at the record -/
theorem ctlUpdate_worker (c : Ctl) (old new : JC) (reg : Bool) :
    (ctlUpdate c old new reg).worker = onUpdate c.worker old new reg ∧
    (ctlUpdate c old new reg).loaded = c.loaded := ⟨rfl, rfl⟩

/-- A JobConfig whose key `Init` did not load is never in the record, whatever happened since
(ticks, initial adds, creations, updates, deletions; any shapes): its creation is always flushed. -/
theorem never_loaded_never_recorded (sh : Shapes) (cap : Int) (flushLimit fuel : Nat)
    {jcs : List JC} (pq : Heap.PQ) (acts : List CtlAct) {k : String}
    (hk : ∀ jc ∈ jcs, jc.key ≠ k) :
    lookupUid (ctlRun sh cap flushLimit fuel (bootCtl jcs pq) acts).1.loaded k = none := by
  cases h : lookupUid (ctlRun sh cap flushLimit fuel (bootCtl jcs pq) acts).1.loaded k with
  | none => rfl
  | some u =>
    have := ctlRun_loaded_shrinks sh cap flushLimit fuel acts (bootCtl jcs pq) h
    rw [show (bootCtl jcs pq).loaded = recordLoaded jcs from rfl,
      lookupUid_recordLoaded_none hk] at this
    cases this

/-- **Create** (F1 stays repaired): the add handler is registered, and the add of a JobConfig that
is not recorded as loaded under its UID — any JobConfig created while the controller runs: a new
name is never recorded (`never_loaded_never_recorded`), a re-used name was forgotten by the delete
(`recreate_follows_new_schedule_only`) or carries another UID — is flushed: after one tick at `now`
its entry is `getNext … now`, and nothing is requested for it in that tick. -/
theorem create_starts {c : Ctl} {now cap : Int} {flushLimit fuel : Nat}
    (hInv : Heap.Inv c.worker.heap) (hL : ListerOK c.worker.lister)
    {jc : JC} (hs : ∀ l ∈ jc.sched.exprs, SortedStrict l)
    (hen : jc.sched.enabled = true) (hpe : jc.sched.parseErr = false)
    (hlim : c.worker.chan.length + 1 ≤ flushLimit)
    (hnl : lookupUid c.loaded jc.key ≠ some jc.uid) :
    let c' := ctlAdd c jc Facts.cronHandlerAdd Facts.cronHandleAddTakesLoaded
    Heap.search (ctlWork c' now cap flushLimit fuel).1.worker.heap jc.key
      = getNext jc.nxt jc.sched.notBefore jc.sched.notAfter now ∧
    ((ctlWork c' now cap flushLimit fuel).2.1.filter (fun p => p.1 = jc.key)).map (fun p => p.2)
      = [] := by
  intro c'
  have hw : c'.worker = onAdd c.worker jc Facts.cronHandlerAdd :=
    ctlAdd_flushes (takes := Facts.cronHandleAddTakesLoaded) (fun _ => hnl)
  have := create_starts_of_flush (now := now) (cap := cap) (fuel := fuel) hInv hL hs hen hpe hlim
  simp only [ctlWork]
  rw [hw]
  exact this

/-- non-vacuity: "b" is created into the state `Init` left after loading "a" (record: a ↦ "") -/
example : let c0 := bootCtl [Ex.jcA] (Heap.new [("a", 10)])
    lookupUid c0.loaded jcB.key ≠ some jcB.uid ∧
    (ctlRun Shapes.source 5 1000 10 c0 [.add jcB, .tick 7000000000, .tick 12000000000]).2.1
      = [[], [("a", 10), ("b", 10)]] :=
  ⟨by decide, by decide⟩

/-- **Delete then re-create** under the same key (F12 stays repaired) — also under the SAME UID,
and also when the record of the deleted JobConfig was never consumed by an add: the delete handler
forgets the record (`Facts.cronHandleDeleteForgetsLoaded`, needed only if `handleAdd` consults it),
so the re-creation is flushed and the key follows the NEW version only. -/
theorem recreate_follows_new_schedule_only {c : Ctl} {now cap : Int} {flushLimit fuel : Nat}
    (hInv : Heap.Inv c.worker.heap) (hL : ListerOK c.worker.lister) {jc jcN : JC}
    (hkey : jcN.key = jc.key)
    (hs : ∀ l ∈ jcN.sched.exprs, SortedStrict l) (hlim : c.worker.chan.length + 2 ≤ flushLimit) :
    let c' := ctlAdd (ctlDelete c jc Facts.cronHandlerDelete Facts.cronHandleDeleteForgetsLoaded) jcN
      Facts.cronHandlerAdd Facts.cronHandleAddTakesLoaded
    lookup c'.worker.lister jc.key = some jcN ∧
    Heap.search (ctlWork c' now cap flushLimit fuel).1.worker.heap jc.key = flushEntryOf jcN now ∧
    ((ctlWork c' now cap flushLimit fuel).2.1.filter (fun p => p.1 = jc.key)).map (fun p => p.2)
      = [] := by
  intro c'
  have hshape : Facts.cronHandleAddTakesLoaded = true → Facts.cronHandleDeleteForgetsLoaded = true := by
    decide
  have hw : c'.worker
      = onAdd (onDelete c.worker jc Facts.cronHandlerDelete) jcN Facts.cronHandlerAdd := by
    have := ctlAdd_flushes (c := ctlDelete c jc Facts.cronHandlerDelete
      Facts.cronHandleDeleteForgetsLoaded) (jc := jcN) (takes := Facts.cronHandleAddTakesLoaded)
      (fun ht => by
        have hnone := (ctlDelete_worker c jc Facts.cronHandlerDelete
          Facts.cronHandleDeleteForgetsLoaded).2 rfl (hshape ht)
        rw [hkey, hnone]
        exact fun h => by cases h)
    exact this
  have := recreate_follows_new_schedule_only_of_flush (now := now) (cap := cap) (fuel := fuel)
    hInv hL hkey hs hlim
  simp only [ctlWork]
  rw [hw]
  exact this

/-- non-vacuity: "a" is loaded by `Init` (record a ↦ ""), its initial add is never handled; it is
deleted and re-created under the same (empty) UID with `jcNew` (50, 60): only 50 is requested -/
example : let c0 := bootCtl [Ex.jcA] (Heap.new [("a", 10)])
    lookupUid c0.loaded "a" = some jcNew.uid ∧
    (ctlRun Shapes.source 5 1000 10 c0
      [.delete Ex.jcA, .add jcNew, .tick 25500000000, .tick 40000000000, .tick 55000000000]).2
      = ([[], [], [("a", 50)]], true) :=
  ⟨by decide, by decide⟩

end Furiko.Cron.C03
