/-
C03 — "scheduling follows create/update/enable/disable/delete; after a change the controller
fires according to the new schedule only, nothing back-dated before the change".

A flush of `jc` is Delete(jc.key) followed by Bump(jc, now).  `runTicks cap flushLimit fuel w ts`
(Proofs/CronRunWork.lean) runs frozen-clock ticks at the clock readings `ts`.
-/
import FurikoModel.Proofs.CronRunFlush
import FurikoModel.Proofs.CronExamples

namespace Furiko.Cron.C03
open Furiko Furiko.Cron
open Furiko.Cron.Ex (jcNew wUpd jcNew_sorted wUpd_lister jcDis wDis jcB jcB_sorted)

/-- After `refresh` (i.e. at the start of the pop loop) the key of the last flushed version `jc`
is re-based: entry `getNext … now` if `jc` is enabled and parses, no entry otherwise.  The new
entry is strictly after `now`. -/
theorem flush_rebases {w : Worker} {now : Int} {flushLimit : Nat} (hInv : Heap.Inv w.heap)
    {jc : JC} (hs : ∀ l ∈ jc.sched.exprs, SortedStrict l) {pre post : List JC}
    (hchan : w.chan = pre ++ [jc] ++ post) (hpost : ∀ jc' ∈ post, jc'.key ≠ jc.key)
    (hlim : pre.length + 1 ≤ flushLimit) :
    Heap.Inv (refresh w.heap w.chan now flushLimit).1 ∧
    Heap.search (refresh w.heap w.chan now flushLimit).1 jc.key = flushEntry jc now ∧
    ∀ e, flushEntry jc now = some e → now < e * 1000000000 := by
  have hr := refresh_rebases now hs hpost pre w.heap flushLimit hInv hlim
  rw [← hchan] at hr
  exact ⟨hr.1, hr.2, fun e he => (floorSec_lt_iff _ _).1 (bumpEnt_gt hs _ _ he)⟩

/-- non-vacuity: key "a" has the overdue entry 10; at 25.5 s the spec is replaced by one matching
only 50 and 60 -/
example : Heap.Inv wUpd.heap ∧ (∀ l ∈ jcNew.sched.exprs, SortedStrict l) ∧
    wUpd.chan = [] ++ [jcNew] ++ [] ∧ (∀ jc' ∈ ([] : List JC), jc'.key ≠ jcNew.key) ∧
    ([] : List JC).length + 1 ≤ 1000 ∧
    Heap.search (refresh wUpd.heap wUpd.chan 25500000000 1000).1 "a" = some 50 :=
  ⟨Ex.w0_inv, jcNew_sorted, rfl, fun _ h => (by cases h), by decide, by decide⟩

/-- In the tick that processes the flush nothing is requested for the key, whatever its old entry
was, and the key ends the tick with the re-based entry (any lister, any fuel). -/
theorem flush_drops_overdue {w : Worker} {now cap : Int} {flushLimit fuel : Nat}
    (hInv : Heap.Inv w.heap) (hL : ListerOK w.lister)
    {jc : JC} (hs : ∀ l ∈ jc.sched.exprs, SortedStrict l) {pre post : List JC}
    (hchan : w.chan = pre ++ [jc] ++ post) (hpost : ∀ jc' ∈ post, jc'.key ≠ jc.key)
    (hlim : pre.length + 1 ≤ flushLimit)
    {eold : Int} (_hold : Heap.search w.heap jc.key = some eold)
    (_hover : eold * 1000000000 ≤ now) :
    ((work w now (fun _ => now) cap flushLimit fuel).2.1.filter (fun p => p.1 = jc.key)).map
      (fun p => p.2) = [] ∧
    Heap.search (work w now (fun _ => now) cap flushLimit fuel).1.heap jc.key
      = flushEntry jc now := by
  have := flush_tick (now := now) (cap := cap) flushLimit fuel hInv hL hs hchan hpost hlim
  exact ⟨this.2.1, this.2.2.1⟩

example : Heap.search wUpd.heap "a" = some 10 ∧ (10 : Int) * 1000000000 ≤ 25500000000 ∧
    (work wUpd 25500000000 (fun _ => 25500000000) 5 1000 10).2.1 = [] := by
  refine ⟨by decide, by decide, by decide⟩

/-- Nothing back-dated: after the flush of an enabled, parsing `jc` at `now` (channel fully
drained, lister holding `jc`), every time requested for the key in any later sequence of
non-decreasing ticks matches the NEW schedule, lies inside its window and is strictly after
`now`; the stream is strictly increasing. -/
theorem flush_no_backdating {w : Worker} {now cap : Int} {flushLimit fuel : Nat}
    (hInv : Heap.Inv w.heap) (hL : ListerOK w.lister)
    {jc : JC} (hlk : lookup w.lister jc.key = some jc)
    (hen : jc.sched.enabled = true) (hpe : jc.sched.parseErr = false)
    {pre post : List JC}
    (hchan : w.chan = pre ++ [jc] ++ post) (hpost : ∀ jc' ∈ post, jc'.key ≠ jc.key)
    (hlen : w.chan.length ≤ flushLimit)
    (ts : List Int) (hts : List.Pairwise (· ≤ ·) ts)
    (hdone : (runTicks cap flushLimit fuel
      (work w now (fun _ => now) cap flushLimit fuel).1 ts).2.2 = true) :
    let fired0 := (work w now (fun _ => now) cap flushLimit fuel).2.1
    let later := (runTicks cap flushLimit fuel
      (work w now (fun _ => now) cap flushLimit fuel).1 ts).2.1
    (fired0.filter (fun p => p.1 = jc.key)).map (fun p => p.2) = [] ∧
    SortedStrict ((later.flatten.filter (fun p => p.1 = jc.key)).map (fun p => p.2)) ∧
    ∀ t, (jc.key, t) ∈ later.flatten → jc.M' t ∧ now < t * 1000000000 := by
  intro fired0 later
  have hs := (lookup_ok hL hlk).2
  have hsp := JC.nextAfter_spec hs
  have hlim : pre.length + 1 ≤ flushLimit := by
    rw [hchan] at hlen; simp at hlen; omega
  have hft := flush_tick (now := now) (cap := cap) flushLimit fuel hInv hL hs hchan hpost hlim
  have hi := work_inv_general (now := now) (cap := cap) flushLimit fuel hInv hL
  have hc : (work w now (fun _ => now) cap flushLimit fuel).1.chan = [] := by
    rw [work_chan_eq _ _ _ _ _ _ hInv]; exact List.drop_eq_nil_iff.2 hlen
  have hk := runTicks_key cap flushLimit fuel (k := jc.key) ⟨hen, hpe⟩ ts _ hi hL hc hlk hdone
  have hstream : outk later.flatten jc.key
      = (keyRun jc.nextAfter cap.toNat (bumpEnt jc (floorSec now)) (ts.map floorSec)).1.flatten := by
    rw [outk_flatten, hk.1, hft.2.2.1]
  refine ⟨hft.2.1, ?_⟩
  show SortedStrict (outk later.flatten jc.key) ∧ _
  rw [hstream]
  cases hb : bumpEnt jc (floorSec now) with
  | none =>
    rw [(keyRun_none _ _ _).1]
    refine ⟨List.Pairwise.nil, fun t ht => ?_⟩
    have : t ∈ outk later.flatten jc.key := mem_outk.2 ht
    rw [hstream, hb, (keyRun_none _ _ _).1] at this
    cases this
  | some e =>
    have hgt := bumpEnt_gt hs _ _ hb
    have hMe : jc.M' e := by
      rw [bumpEnt_active ⟨hen, hpe⟩] at hb
      exact ((hsp (floorSec now)).1 e hb).2.1
    have hrun := (keyRun_inv hsp cap.toNat e (ts.map floorSec) (e - 1) (some e) []
      (runInv_init _ e)
      (by
        rw [List.pairwise_map]
        exact List.Pairwise.imp (fun h => floorSec_mono h) hts)
      (fun h => by omega)).1
    simp only [List.nil_append] at hrun
    refine ⟨hrun.sorted, fun t ht => ?_⟩
    have hmem : t ∈ outk later.flatten jc.key := mem_outk.2 ht
    rw [hstream, hb] at hmem
    have := hrun.sound t hmem
    refine ⟨?_, (floorSec_lt_iff _ _).1 (by omega)⟩
    rcases this.2.2 with rfl | h
    · exact hMe
    · exact h

/-- non-vacuity: after the update of `wUpd` at 25.5 s, ticks at 30, 40, 55, 70 s request 50, 60 -/
example : Heap.Inv wUpd.heap ∧ ListerOK wUpd.lister ∧ lookup wUpd.lister jcNew.key = some jcNew ∧
    wUpd.chan = [] ++ [jcNew] ++ [] ∧ wUpd.chan.length ≤ 1000 ∧
    (runTicks 5 1000 10 (work wUpd 25500000000 (fun _ => 25500000000) 5 1000 10).1
      [30000000000, 40000000000, 55000000000, 70000000000]).2
      = ([[], [], [("a", 50)], [("a", 60)]], true) := by
  exact ⟨Ex.w0_inv, wUpd_lister, rfl, rfl, by decide, by decide⟩

/-- Disable (or a spec that stops parsing): the flush removes the key; nothing is requested for
it in that tick or in any later tick until another flush for the key arrives (any lister state,
any fuel). -/
theorem disable_stops {w : Worker} {now cap : Int} {flushLimit fuel : Nat}
    (hInv : Heap.Inv w.heap) (hL : ListerOK w.lister)
    {jc : JC} (hs : ∀ l ∈ jc.sched.exprs, SortedStrict l)
    (hoff : jc.sched.enabled = false ∨ jc.sched.parseErr = true) {pre post : List JC}
    (hchan : w.chan = pre ++ [jc] ++ post) (hpost : ∀ jc' ∈ post, jc'.key ≠ jc.key)
    (hlim : pre.length + 1 ≤ flushLimit) (ts : List Int) :
    Heap.search (refresh w.heap w.chan now flushLimit).1 jc.key = none ∧
    (∀ l ∈ (runTicks cap flushLimit fuel w (now :: ts)).2.1,
      (l.filter (fun p => p.1 = jc.key)).map (fun p => p.2) = []) ∧
    Heap.search (runTicks cap flushLimit fuel w (now :: ts)).1.heap jc.key = none := by
  have hft := flush_tick (now := now) (cap := cap) flushLimit fuel hInv hL hs hchan hpost hlim
  have hnone : bumpEnt jc (floorSec now) = none := by
    unfold bumpEnt
    rcases hoff with h | h <;> simp [h]
  have hi := work_inv_general (now := now) (cap := cap) flushLimit fuel hInv hL
  have hrest := runTicks_absent cap flushLimit fuel jc.key ts
    (work w now (fun _ => now) cap flushLimit fuel).1 hi hL hft.2.2.2
    (hft.2.2.1.trans hnone)
  refine ⟨hft.1.trans hnone, fun l hl => ?_, ?_⟩
  · simp only [runTicks] at hl
    rcases List.mem_cons.1 hl with rfl | hl
    · exact hft.2.1
    · exact hrest.1 l hl
  · simp only [runTicks]; exact hrest.2

example : Heap.Inv wDis.heap ∧ (jcDis.sched.enabled = false ∨ jcDis.sched.parseErr = true) ∧
    wDis.chan = [] ++ [jcDis] ++ [] ∧ Heap.search wDis.heap "a" = some 10 ∧
    (runTicks 5 1000 10 wDis [25500000000, 40000000000]).2 = ([[], []], true) :=
  ⟨Ex.w0_inv, Or.inl rfl, rfl, by decide, by decide⟩

/-- Delete: once the lister no longer has the key, nothing is ever requested for it — whatever the
heap and the channel contain, for any number of ticks and any fuel.  (The delete flush itself
RE-INSERTS the key from the last known object; the entry is dropped by the lister miss when it
next comes due — see `delete_flush_reinserts`.) -/
theorem delete_stops {w : Worker} {cap : Int} {flushLimit fuel : Nat}
    (hInv : Heap.Inv w.heap) (hL : ListerOK w.lister) (jc : JC) (deleteRegistered : Bool)
    (ts : List Int) :
    Heap.Inv (onDelete w jc deleteRegistered).heap ∧ ListerOK (onDelete w jc deleteRegistered).lister ∧
    lookup (onDelete w jc deleteRegistered).lister jc.key = none ∧
    ∀ l ∈ (runTicks cap flushLimit fuel (onDelete w jc deleteRegistered) ts).2.1,
      (l.filter (fun p => p.1 = jc.key)).map (fun p => p.2) = [] := by
  have h1 : (onDelete w jc deleteRegistered).heap = w.heap := by
    unfold onDelete; cases deleteRegistered <;> rfl
  have h2 : (onDelete w jc deleteRegistered).lister = listerDel w.lister jc.key := by
    unfold onDelete; cases deleteRegistered <;> rfl
  have hL' : ListerOK (onDelete w jc deleteRegistered).lister := h2 ▸ listerOK_del hL _
  have hlk : lookup (onDelete w jc deleteRegistered).lister jc.key = none := by
    rw [h2, lookup_listerDel]; simp
  exact ⟨h1 ▸ hInv, hL', hlk,
    runTicks_missing cap flushLimit fuel jc.key ts _ (h1 ▸ hInv) hL' hlk⟩

/-- the delete flush of a still-enabled last-known object leaves the key IN the heap
(at `Next(now)`); it disappears only via the lister miss when that time arrives -/
theorem delete_flush_reinserts {w : Worker} {now : Int} {flushLimit : Nat}
    (hInv : Heap.Inv w.heap) {jc : JC} (hs : ∀ l ∈ jc.sched.exprs, SortedStrict l)
    (hlim : w.chan.length + 1 ≤ flushLimit) :
    Heap.search (refresh (onDelete w jc true).heap (onDelete w jc true).chan now flushLimit).1
      jc.key = flushEntry jc now := by
  have hr := refresh_rebases now hs (post := []) (fun _ h => by cases h) w.chan w.heap flushLimit
    hInv hlim
  simpa [onDelete, flushEntry_eq] using hr.2

example : let wDel := onDelete Ex.w0 Ex.jcA true
    Heap.search (refresh wDel.heap wDel.chan 5000000000 1000).1 "a" = some 10 ∧
    (runTicks 5 1000 10 wDel [5000000000, 12000000000, 22000000000]).2 = ([[], [], []], true) ∧
    Heap.search (runTicks 5 1000 10 wDel [5000000000, 12000000000, 22000000000]).1.heap "a"
      = none := by
  refine ⟨by decide, by decide, by decide⟩

/-! ### informer handlers -/

/-- an update is flushed iff the handler is registered and the schedule specs differ -/
theorem onUpdate_flushes_iff (w : Worker) (old new : JC) (updateRegistered : Bool) :
    (onUpdate w old new updateRegistered).chan =
      (if updateRegistered = true ∧ old.sched.specId ≠ new.sched.specId then w.chan ++ [new]
       else w.chan) ∧
    ((onUpdate w old new true).chan = w.chan ++ [new] ↔ old.sched.specId ≠ new.sched.specId) ∧
    (onUpdate w old new updateRegistered).heap = w.heap ∧
    (onUpdate w old new updateRegistered).lister = listerSet w.lister new.key new := by
  unfold onUpdate
  by_cases h : old.sched.specId = new.sched.specId
  · cases updateRegistered <;> simp [h]
  · cases updateRegistered <;> simp [h]

theorem onDelete_flushes_iff (w : Worker) (jc : JC) (deleteRegistered : Bool) :
    (onDelete w jc deleteRegistered).chan = (if deleteRegistered then w.chan ++ [jc] else w.chan) ∧
    ((onDelete w jc deleteRegistered).chan = w.chan ++ [jc] ↔ deleteRegistered = true) := by
  unfold onDelete
  cases deleteRegistered <;> simp

theorem onAdd_flushes_iff (w : Worker) (jc : JC) (addRegistered : Bool) :
    (onAdd w jc addRegistered).chan = (if addRegistered then w.chan ++ [jc] else w.chan) ∧
    ((onAdd w jc addRegistered).chan = w.chan ++ [jc] ↔ addRegistered = true) := by
  unfold onAdd
  cases addRegistered <;> simp

/-- DEFECT (F1): without an add handler a JobConfig created after start-up is never scheduled:
it is never put into the heap and nothing is ever requested for it, for any number of ticks. -/
theorem create_starts_needs_add_handler {w : Worker} {cap : Int} {flushLimit fuel : Nat}
    (hInv : Heap.Inv w.heap) (hL : ListerOK w.lister)
    {jc : JC} (hs : ∀ l ∈ jc.sched.exprs, SortedStrict l)
    (hfresh : Heap.search w.heap jc.key = none) (hnopend : ∀ jc' ∈ w.chan, jc'.key ≠ jc.key)
    (ts : List Int) :
    lookup (onAdd w jc false).lister jc.key = some jc ∧
    (∀ l ∈ (runTicks cap flushLimit fuel (onAdd w jc false) ts).2.1,
      (l.filter (fun p => p.1 = jc.key)).map (fun p => p.2) = []) ∧
    Heap.search (runTicks cap flushLimit fuel (onAdd w jc false) ts).1.heap jc.key = none := by
  have hL' : ListerOK (onAdd w jc false).lister := listerOK_set hL hs
  refine ⟨by simp [onAdd, lookup_listerSet], ?_⟩
  exact runTicks_absent cap flushLimit fuel jc.key ts (onAdd w jc false) hInv hL' hnopend hfresh

/-- non-vacuity: "b" (every 5 s) is created into `Ex.w0`; three ticks request nothing for it -/
example : Heap.Inv Ex.w0.heap ∧ ListerOK Ex.w0.lister ∧ Heap.search Ex.w0.heap jcB.key = none ∧
    (∀ jc' ∈ Ex.w0.chan, jc'.key ≠ jcB.key) ∧
    (runTicks 5 1000 10 (onAdd Ex.w0 jcB false) [7000000000, 12000000000, 31000000000]).2.1
      = [[], [("a", 10)], [("a", 15), ("a", 20), ("a", 30)]] :=
  ⟨Ex.w0_inv, Ex.w0_lister, by decide, fun _ h => (by cases h), by decide⟩

/-- With an add handler the new JobConfig is scheduled: after `onAdd` and one tick at `now` its
entry is `getNext … now` (and nothing is requested for it in that tick). -/
theorem create_starts {w : Worker} {now cap : Int} {flushLimit fuel : Nat}
    (hInv : Heap.Inv w.heap) (hL : ListerOK w.lister)
    {jc : JC} (hs : ∀ l ∈ jc.sched.exprs, SortedStrict l)
    (hen : jc.sched.enabled = true) (hpe : jc.sched.parseErr = false)
    (hlim : w.chan.length + 1 ≤ flushLimit) :
    Heap.search (work (onAdd w jc true) now (fun _ => now) cap flushLimit fuel).1.heap jc.key
      = getNext jc.nxt jc.sched.notAfter now ∧
    ((work (onAdd w jc true) now (fun _ => now) cap flushLimit fuel).2.1.filter
      (fun p => p.1 = jc.key)).map (fun p => p.2) = [] := by
  have hL' : ListerOK (onAdd w jc true).lister := listerOK_set hL hs
  have := flush_tick (w := onAdd w jc true) (now := now) (cap := cap) flushLimit fuel hInv hL' hs
    (pre := w.chan) (post := []) (by simp [onAdd]) (fun _ h => by cases h) hlim
  refine ⟨?_, this.2.1⟩
  rw [this.2.2.1, bumpEnt_active ⟨hen, hpe⟩]
  rfl

example : Heap.Inv Ex.w0.heap ∧ ListerOK Ex.w0.lister ∧ jcB.sched.enabled = true ∧
    jcB.sched.parseErr = false ∧ Ex.w0.chan.length + 1 ≤ 1000 ∧
    (runTicks 5 1000 10 (onAdd Ex.w0 jcB true) [7000000000, 12000000000]).2.1
      = [[], [("a", 10), ("b", 10)]] :=
  ⟨Ex.w0_inv, Ex.w0_lister, rfl, rfl, by decide, by decide⟩

end Furiko.Cron.C03
