/-
C12 — pure clauses (every input): which timeout values the controller uses (job value, else
controller default, else 0) and when `GetCondition` reports Killed.  The clauses about delete
calls, timers and eventual termination belong to the job-controller slice.
-/
import FurikoModel.Model.JobStatus
import FurikoModel.Proofs.StatusLemmas
import FurikoModel.Proofs.ConditionLemmas

namespace Furiko.Props.C12
open Furiko Furiko.StatusLemmas Furiko.ConditionLemmas

/-- Pending timeout: the job value if set and `≥ 0`; otherwise the controller default if set;
otherwise 0 (disabled).  A Job without template makes the source dereference nil (`none`). -/
theorem pending_timeout_value (rj : Job) (cfg : ExecConfig) :
    (rj.template = none → getPendingTimeout rj cfg = none) ∧
    (∀ t, rj.template = some t →
      (∀ p, t.taskPendingTimeoutSeconds = some p → 0 ≤ p → getPendingTimeout rj cfg = some (secs p)) ∧
      ((t.taskPendingTimeoutSeconds = none ∨ ∃ p, t.taskPendingTimeoutSeconds = some p ∧ p < 0) →
        (∀ c, cfg.defaultPendingTimeoutSeconds = some c → getPendingTimeout rj cfg = some (secs c)) ∧
        (cfg.defaultPendingTimeoutSeconds = none → getPendingTimeout rj cfg = some 0))) := by
  unfold getPendingTimeout
  refine ⟨fun h => by rw [h], ?_⟩
  intro t ht
  rw [ht]
  refine ⟨?_, ?_⟩
  · intro p hp h0
    simp [hp, h0]
  · rintro (hn | ⟨p, hp, hneg⟩)
    · refine ⟨fun c hc => by simp [hn, hc], fun hc => by simp [hn, hc, secs]⟩
    · have : ¬ p ≥ 0 := by omega
      refine ⟨fun c hc => by simp [hp, hc, this], fun hc => by simp [hp, hc, this, secs]⟩

/-- Force-delete timeout: the controller value if set, else 0 (never force delete). -/
theorem force_delete_timeout_value (cfg : ExecConfig) :
    (∀ c, cfg.forceDeleteTaskTimeoutSeconds = some c → getForceDeleteTimeout cfg = secs c) ∧
    (cfg.forceDeleteTaskTimeoutSeconds = none → getForceDeleteTimeout cfg = 0) := by
  unfold getForceDeleteTimeout
  exact ⟨fun c hc => by simp [hc], fun hc => by simp [hc, secs]⟩

/-- TTL after finished: the job value if set (any value), else the controller default, else 0. -/
theorem ttl_value (rj : Job) (cfg : ExecConfig) :
    (∀ v, rj.ttlSecondsAfterFinished = some v → getTTLAfterFinished rj cfg = secs v) ∧
    (rj.ttlSecondsAfterFinished = none →
      (∀ c, cfg.defaultTTLSecondsAfterFinished = some c → getTTLAfterFinished rj cfg = secs c) ∧
      (cfg.defaultTTLSecondsAfterFinished = none → getTTLAfterFinished rj cfg = 0)) := by
  unfold getTTLAfterFinished
  refine ⟨fun v hv => by simp [hv], fun hn => ⟨fun c hc => by simp [hn, hc], fun hc => by simp [hn, hc, secs]⟩⟩

/-- Killed: a started Job without admission error whose kill timestamp has passed and all of
whose indexes are terminated (every ref of every spec index is finished) has condition
`Finished` with result `Killed` — and nothing else set. -/
theorem killed_condition (now : Time) (d : PIndex) (rj : Job)
    (hadm : rj.admissionError = false) (hstarted : rj.status.startTime.isSome = true)
    (hkill : isTimeSetAndEarlierOrEqual now rj.killTimestamp = true)
    (hterm : ∀ i ∈ rj.indexes d, IndexAllFinished d rj.status.tasks i) :
    ∃ f, (getCondition now d rj).finished = some f ∧ f.result = .killed ∧
      (getCondition now d rj).queueing = none ∧ (getCondition now d rj).waiting = none ∧
      (getCondition now d rj).running = none := by
  have ht : (getParallelStatusCounters (getParallelStatus d rj rj.status.tasks).indexes).terminated ≥ ((rj.indexes d).length : Int) :=
    (terminated_ge_iff d rj rj.status.tasks).mpr hterm
  have hs : ¬ rj.status.startTime.isNone = true := by cases h : rj.status.startTime <;> simp_all
  unfold getCondition
  simp only
  rw [if_neg (by simp [hadm]), if_neg hs, if_pos hkill, if_pos ht]
  exact ⟨_, rfl, rfl, rfl, rfl, rfl⟩

/-- … and while some index still has an unfinished ref, the same Job is `Waiting` (DeletingTasks),
never finished. -/
theorem killing_waits (now : Time) (d : PIndex) (rj : Job)
    (hadm : rj.admissionError = false) (hstarted : rj.status.startTime.isSome = true)
    (hkill : isTimeSetAndEarlierOrEqual now rj.killTimestamp = true)
    (hlive : ¬ ∀ i ∈ rj.indexes d, IndexAllFinished d rj.status.tasks i) :
    (getCondition now d rj).waiting = some .deletingTasks ∧ (getCondition now d rj).finished = none := by
  have ht : ¬ (getParallelStatusCounters (getParallelStatus d rj rj.status.tasks).indexes).terminated ≥ ((rj.indexes d).length : Int) :=
    fun h => hlive ((terminated_ge_iff d rj rj.status.tasks).mp h)
  have hs : ¬ rj.status.startTime.isNone = true := by cases h : rj.status.startTime <;> simp_all
  unfold getCondition
  simp only
  rw [if_neg (by simp [hadm]), if_neg hs, if_pos hkill, if_neg ht]
  exact ⟨rfl, rfl⟩

/-- the kill timestamp counts as passed exactly when it is set and `≤ now` -/
theorem kill_passed_iff (now : Int) (k : Option Int) :
    isTimeSetAndEarlierOrEqual now k = true ↔ ∃ t, k = some t ∧ t ≤ now := by
  unfold isTimeSetAndEarlierOrEqual
  cases k with
  | none => simp
  | some t =>
    simp only [Bool.or_eq_true, decide_eq_true_eq, Option.some.injEq, exists_eq_left']
    exact Int.le_iff_lt_or_eq.symm

/-- An admission error wins over everything else, kill included (`Finished(AdmissionError)`). -/
theorem admission_error_condition (now : Time) (d : PIndex) (rj : Job) (hadm : rj.admissionError = true) :
    ∃ f, (getCondition now d rj).finished = some f ∧ f.result = .admissionError := by
  unfold getCondition
  simp only
  rw [if_pos hadm]
  exact ⟨_, rfl, rfl⟩

-- ---------------------------------------------------------------- non-vacuity

example : getPendingTimeout { template := some { taskPendingTimeoutSeconds := some 0 } } { defaultPendingTimeoutSeconds := some 900 } = some 0 := by decide
example : getPendingTimeout { template := some { taskPendingTimeoutSeconds := some (-1) } } { defaultPendingTimeoutSeconds := some 900 } = some (900 * 1000000000) := by decide
example : getPendingTimeout { template := some {} } {} = some 0 := by decide
example : getTTLAfterFinished { ttlSecondsAfterFinished := some 0 } { defaultTTLSecondsAfterFinished := some 3600 } = 0 := by decide

private def killedJob : Job :=
  { template := some { parallelism := some { indexes := [{ hash := "a" }, { hash := "b" }] } },
    killTimestamp := some 100,
    status := { startTime := some 1,
                tasks := [{ name := "a0", parallelIndex := some { hash := "a" }, finishTimestamp := some 90 }] } }

/-- kill timestamp equal to the clock, one index finished, the other never created ⇒ Killed -/
example : ((getCondition 100 { hash := "d" } killedJob).finished.map (·.result)) = some .killed := by decide
/-- one nanosecond earlier the kill timestamp has not passed -/
example : isTimeSetAndEarlierOrEqual 99 killedJob.killTimestamp = false := by decide
/-- with a live ref the same Job waits for the deletion -/
example : (getCondition 100 { hash := "d" }
    { killedJob with status := { killedJob.status with tasks := [{ name := "b0", parallelIndex := some { hash := "b" } }] } }).waiting
      = some .deletingTasks := by decide

end Furiko.Props.C12
