/-
C10 — pure clauses (every input): what `GetParallelTaskSummary` / `GetCondition` report versus
what the task refs and the completion strategy imply, and the Pod → task-result mapping.
`Satisfied`, `Unsatisfiable`, `IndexSucceeded`, `IndexExhausted`, `IndexAllFinished` are
statements about the refs only (Proofs/StatusLemmas.lean).  System-level theorems
(`decided_then_reached`, `finished_no_live_task_partial`) belong to the job-controller slice.
-/
import FurikoModel.Model.JobStatus
import FurikoModel.Proofs.StatusLemmas
import FurikoModel.Proofs.ConditionLemmas
import FurikoModel.Proofs.TaskfnFacts

namespace Furiko.Props.C10
open Furiko Furiko.StatusLemmas Furiko.ConditionLemmas

/-- Result `Success` ⇒ no kill timestamp, and the strategy is satisfied by refs whose result is
Succeeded (AllSuccessful: every index has one; AnySuccessful: some index has one). -/
theorem succeeded_sound (now : Time) (d : PIndex) (rj : Job) (f : CondFinished)
    (h : (getCondition now d rj).finished = some f) (hr : f.result = .success) :
    rj.killTimestamp = none ∧ Satisfied d rj rj.status.tasks := by
  rcases getCondition_finished now d rj f h with ⟨_, h2⟩ | ⟨_, _, _, ⟨_, h2⟩ | ⟨_, _, h2⟩⟩
  · rw [hr] at h2; cases h2
  · rw [hr] at h2; cases h2
  · rw [hr] at h2
    unfold finishedResult at h2
    cases hk : rj.killTimestamp with
    | some k => simp [hk] at h2
    | none =>
      refine ⟨rfl, ?_⟩
      simp only [hk, Option.isSome_none, Bool.false_eq_true, if_false] at h2
      apply (summary_iff d rj rj.status.tasks).1.mp
      show (getParallelStatus d rj rj.status.tasks).summary.successful = some true
      cases hs : (getParallelStatus d rj rj.status.tasks).summary.successful with
      | none => simp [hs] at h2
      | some b => cases b <;> simp [hs] at h2 ⊢

/-- Result `Failed` ⇒ the strategy can no longer be satisfied (AllSuccessful: some index has at
least `maxAttempts` finished refs and none succeeded; AnySuccessful: every index does). -/
theorem failed_sound (now : Time) (d : PIndex) (rj : Job) (f : CondFinished)
    (h : (getCondition now d rj).finished = some f) (hr : f.result = .failed) :
    Unsatisfiable d rj rj.status.tasks ∧ ¬ Satisfied d rj rj.status.tasks := by
  have hx := not_satisfied_and_unsatisfiable d rj rj.status.tasks
  rcases getCondition_finished now d rj f h with ⟨_, h2⟩ | ⟨_, _, _, ⟨_, h2⟩ | ⟨_, _, h2⟩⟩
  · rw [hr] at h2; cases h2
  · rw [hr] at h2; cases h2
  · rw [hr] at h2
    unfold finishedResult at h2
    have hu : Unsatisfiable d rj rj.status.tasks := by
      apply (summary_iff d rj rj.status.tasks).2.1.mp
      show (getParallelStatus d rj rj.status.tasks).summary.successful = some false
      cases hk : rj.killTimestamp with
      | some k => simp [hk] at h2
      | none =>
        simp only [hk, Option.isSome_none, Bool.false_eq_true, if_false] at h2
        cases hs : (getParallelStatus d rj rj.status.tasks).summary.successful with
        | none => simp [hs] at h2
        | some b => cases b <;> simp [hs] at h2 ⊢
    exact ⟨hu, fun hs => hx ⟨hs, hu⟩⟩

/-- `successful` and `failed` of `GetParallelTaskSummary` are never both true; on the refs:
the strategy is never both satisfied and unsatisfiable. -/
theorem summary_exclusive (d : PIndex) (job : Job) (tasks : List TaskRef) :
    ¬ (Satisfied d job tasks ∧ Unsatisfiable d job tasks) ∧
    ¬ ((strategyOutcome job.strategy (getParallelStatusCounters (indexStatuses d job tasks)) (job.indexes d).length).1 = true ∧
       (strategyOutcome job.strategy (getParallelStatusCounters (indexStatuses d job tasks)) (job.indexes d).length).2 = true) := by
  have hx := not_satisfied_and_unsatisfiable d job tasks
  have ho := outcome_iff d job tasks
  exact ⟨hx, fun ⟨a, b⟩ => hx ⟨ho.1.mp a, ho.2.mp b⟩⟩

/-- `Complete` iff one of them; `Successful` is set iff complete, is `true` iff the strategy is
satisfied and `false` iff it is unsatisfiable. -/
theorem summary_complete_iff (d : PIndex) (job : Job) (tasks : List TaskRef) :
    ((getParallelTaskSummary d job tasks).complete = true ↔ Satisfied d job tasks ∨ Unsatisfiable d job tasks) ∧
    ((getParallelTaskSummary d job tasks).complete = true ↔ (getParallelTaskSummary d job tasks).successful ≠ none) ∧
    ((getParallelTaskSummary d job tasks).successful = some true ↔ Satisfied d job tasks) ∧
    ((getParallelTaskSummary d job tasks).successful = some false ↔ Unsatisfiable d job tasks) := by
  have h := summary_iff d job tasks
  exact ⟨h.2.2.1, h.2.2.2, h.1, h.2.1⟩

/-- Outside the admission-error branch, a Finished condition means every ref of every index of
the spec carries a finish timestamp (and the Job is started). -/
theorem finished_means_all_terminated (now : Time) (d : PIndex) (rj : Job) (f : CondFinished)
    (hadm : rj.admissionError = false)
    (h : (getCondition now d rj).finished = some f) :
    rj.status.startTime.isSome = true ∧ ∀ i ∈ rj.indexes d, IndexAllFinished d rj.status.tasks i := by
  rcases getCondition_finished now d rj f h with ⟨h1, _⟩ | ⟨_, hs, ht, _⟩
  · rw [hadm] at h1; cases h1
  · exact ⟨hs, (terminated_ge_iff d rj rj.status.tasks).mp ht⟩

/-- The result in the final branch is never `FinalStateUnknown`: complete implies `Successful`
is set (the `FinalStateUnknown` default of `GetCondition` is dead code). -/
theorem finished_result_known (now : Time) (d : PIndex) (rj : Job) (f : CondFinished)
    (h : (getCondition now d rj).finished = some f) : f.result ≠ .finalStateUnknown ∧ f.result ≠ .other := by
  rcases getCondition_finished now d rj f h with ⟨_, h2⟩ | ⟨_, _, _, ⟨_, h2⟩ | ⟨_, hc, h2⟩⟩
  · rw [h2]; simp
  · rw [h2]; simp
  · have := (summary_iff d rj rj.status.tasks).2.2.2.mp hc
    rw [h2]
    unfold finishedResult
    cases rj.killTimestamp with
    | some k => simp
    | none =>
      simp only [Option.isSome_none, Bool.false_eq_true, if_false]
      have e : (getParallelStatus d rj rj.status.tasks).summary.successful = (getParallelTaskSummary d rj rj.status.tasks).successful := rfl
      rw [e]
      cases hs : (getParallelTaskSummary d rj rj.status.tasks).successful with
      | none => exact absurd hs this
      | some b => cases b <;> simp

/-- A Pod maps to task result `Succeeded` only for phase Succeeded without an OOMKilled
container (current or last termination state); an OOMKilled container always gives `Failed`. -/
theorem pod_result_mapping (p : Pod) :
    (p.result = .succeeded ↔ p.phase = .succeeded ∧ p.isOOMKilled = false) ∧
    (p.isOOMKilled = true → p.result = .failed) ∧
    (p.result = .failed ↔ p.isOOMKilled = true ∨ p.phase = .failed) := by
  unfold Pod.result
  cases ho : p.isOOMKilled <;> cases hp : p.phase <;> simp

/-- the finish timestamp of a Pod task is set only for a terminal phase -/
theorem pod_finish_only_terminal (p : Pod) (t : Time) (h : p.finishTimestamp = some (some t)) :
    p.phase = .succeeded ∨ p.phase = .failed := by
  unfold Pod.finishTimestamp at h
  split at h
  · cases h
  · rename_i hf
    simp only [Pod.isFinished, Bool.not_eq_true] at hf
    by_cases h1 : p.phase = .succeeded
    · exact Or.inl h1
    · by_cases h2 : p.phase = .failed
      · exact Or.inr h2
      · simp_all

/-- Tie to the source: one iteration of `GetParallelStatusCounters` in the model equals the
increment tables regenerated from `parallel/status.go`, for every index status. -/
theorem counters_match_source (c : Counters) (s : IndexStatus) :
    c.add s = TaskfnFacts.evalIncr Facts.counterIncrByResult (TaskfnFacts.taskResultStr s.result)
                (TaskfnFacts.evalIncr Facts.counterIncrByState (TaskfnFacts.indexStateStr s.state) c) :=
  TaskfnFacts.countersAdd_agrees c s

/-- Tie to the source: the model's Pod → state / result mapping equals the phase switches
regenerated from `podtaskexecutor/pod_task.go`, for every Pod. -/
theorem pod_mapping_matches_source (p : Pod) :
    (p.state = if p.deletionTimestamp.isSome && !p.isFinished then .killing
               else TaskfnFacts.taskStateOfStr
                 ((Facts.podStateByPhase.lookup (TaskfnFacts.podPhaseStr p.phase)).getD Facts.podStateDefault)) ∧
    (p.result = if p.isOOMKilled then .failed
                else TaskfnFacts.taskResultOfStr ((Facts.podResultByPhase.lookup (TaskfnFacts.podPhaseStr p.phase)).getD "")) :=
  ⟨TaskfnFacts.podState_agrees p, TaskfnFacts.podResult_agrees p⟩

-- ---------------------------------------------------------------- non-vacuity

private def dIdx : PIndex := { hash := "d" }
private def okRef (h : String) : TaskRef :=
  { name := h, parallelIndex := some { hash := h }, finishTimestamp := some 10,
    status := { state := .terminated, result := .succeeded } }
private def badRef (h : String) (n : String) : TaskRef :=
  { name := n, parallelIndex := some { hash := h }, finishTimestamp := some 10,
    status := { state := .terminated, result := .failed } }
private def jobAll (tasks : List TaskRef) : Job :=
  { template := some { parallelism := some { strategy := .allSuccessful, indexes := [{ hash := "a" }, { hash := "b" }] },
                       maxAttempts := some 2 },
    status := { startTime := some 1, tasks := tasks } }

/-- two indexes both succeeded ⇒ Finished(Success) -/
example : ((getCondition 100 dIdx (jobAll [okRef "a", okRef "b"])).finished.map (·.result)) = some .success := by decide
/-- index b failed twice (maxAttempts 2), a succeeded ⇒ Finished(Failed) -/
example : ((getCondition 100 dIdx (jobAll [okRef "a", badRef "b" "b0", badRef "b" "b1"])).finished.map (·.result)) = some .failed := by decide
/-- index b failed once only ⇒ not finished (retry back-off) -/
example : (getCondition 100 dIdx (jobAll [okRef "a", badRef "b" "b0"])).waiting = some .retryBackoff := by decide
private def oomPod : Pod :=
  { name := "p", phase := PodPhase.succeeded, containers := [{ lastTerminated := some { reason := "OOMKilled" } }] }
example : oomPod.result = .failed := by decide

end Furiko.Props.C10
