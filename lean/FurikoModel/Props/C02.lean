/-
C02 — At most one Job exists per JobConfig and schedule time, whatever is retried.

Property theorems over `Model/CronRec.lean` (+ `Model/Str.lean`); helper lemmas live in
`Proofs/StrLemmas.lean` and `Proofs/CronRecLemmas.lean`.  Every theorem is followed by an `example`
showing that its hypotheses are met by a concrete non-trivial instance.

Conventions: `Str = List Char`; `InInt64 t` is the range of `time.Time.Unix()`; `zeroUnix` is the
Unix time of Go's zero `time.Time` (for which `GenerateName` substitutes the wall clock).
-/
import FurikoModel.Proofs.CronRecLemmas

namespace Furiko.Props.C02
open Furiko Furiko.Str Furiko.CronRec

/-! ## Key codec -/

/-- `SplitJobConfigKeyName (JoinJobConfigKeyName k t) = (k, t)` for every key string `k` (dots,
empty tokens, anything) and every `t` that a `time.Time` can carry, negative ones included. -/
theorem split_join (k : Str) (t : Int) (ht : InInt64 t) : splitKey (joinKey k t) = .ok (k, t) :=
  splitKey_joinKey k ht

example : splitKey (joinKey "team.a.job..x".toList (-5)) = .ok ("team.a.job..x".toList, -5) := by rfl
example : joinKey "a.b".toList (-5) = "a.b.-5".toList := by decide

/-- The statement for *all* `Int` is false only because `strconv.Atoi` range-checks: outside int64
the key is rejected (never produced: `ts.Unix()` is an int64).  The sign-and-digits reading itself
round-trips for every integer. -/
theorem split_join_unbounded (t : Int) : atoiU (showInt t) = some t := atoiU_showInt t

theorem split_join_out_of_range (k : Str) (t : Int) (ht : ¬ InInt64 t) :
    splitKey (joinKey k t) = .error .badTs := splitKey_joinKey_out_of_range k ht

example : splitKey (joinKey "a".toList 9223372036854775808) = .error .badTs := by rfl
example : atoiU (showInt 9223372036854775808) = some 9223372036854775808 := by decide

/-- Through the work queue: `JobConfigKeyFunc` builds `ns/name.t`; `SplitMetaNamespaceKey` (applied
by the reconciler framework) gives back `ns` and `name.t`; `SplitJobConfigKeyName` gives back
`name` and `t` — for every namespace and name without `/` (dots allowed, empty namespace allowed). -/
theorem split_join_namespaced (ns name : Str) (t : Int) (hns : '/' ∉ ns) (hname : '/' ∉ name)
    (ht : InInt64 t) :
    ∃ rest, splitNsKey (jobConfigKey ns name t) = some (ns, rest) ∧ splitKey rest = .ok (name, t) :=
  ⟨joinKey name t, splitNsKey_jobConfigKey t hns hname, splitKey_joinKey name ht⟩

example : splitNsKey (jobConfigKey "prod".toList "a.5".toList 1646586360) = some ("prod".toList, "a.5.1646586360".toList) := by decide

/-- Decimal rendering (`%v` of an int64) is injective. -/
theorem showInt_injective (a b : Int) (h : showInt a = showInt b) : a = b := Str.showInt_injective h

example : showInt (-62135596800) = "-62135596800".toList := by decide

/-! ## The Job's name -/

/-- For every schedule time except the zero `time.Time`, the Job name does not depend on the clock:
it is the pure function `jobName` of (JobConfig name, time). -/
theorem name_is_function (now now' : Int) (c : Str) (t : Int) (ht : t ≠ zeroUnix) :
    generateName now c t = generateName now' c t := by
  rw [generateName_eq_jobName now c ht, generateName_eq_jobName now' c ht]

example : generateName 7 "job-sample".toList 1606987620 = "job-sample-1606987620".toList := by decide

/-- Exact characterisation of name collisions (so the side condition below is the weakest one):
two pairs get the same name iff they are equal, or one JobConfig name is the other plus a trailing
`-` and the times are `t > 0` and `-t`. -/
theorem name_collision_iff (now now' : Int) (c c' : Str) (t t' : Int) (ht : t ≠ zeroUnix) (ht' : t' ≠ zeroUnix) :
    generateName now c t = generateName now' c' t' ↔
      (c = c' ∧ t = t') ∨ (c = c' ++ ['-'] ∧ 0 < t ∧ t' = -t) ∨ (c' = c ++ ['-'] ∧ 0 < t' ∧ t = -t') := by
  rw [generateName_eq_jobName now c ht, generateName_eq_jobName now' c' ht']
  exact jobName_eq_iff c c' t t'

/-- `name_injective`, side condition: both times non-negative (every cron schedule time is). -/
theorem name_injective (now now' : Int) (c c' : Str) (t t' : Int) (h0 : 0 ≤ t) (h0' : 0 ≤ t')
    (h : generateName now c t = generateName now' c' t') : c = c' ∧ t = t' := by
  have ht : t ≠ zeroUnix := by unfold zeroUnix; omega
  have ht' : t' ≠ zeroUnix := by unfold zeroUnix; omega
  rcases (name_collision_iff now now' c c' t t' ht ht').mp h with h | ⟨_, h1, h2⟩ | ⟨_, h1, h2⟩
  · exact h
  · omega
  · omega

/-- `name_injective`, alternative side condition: neither JobConfig name ends in `-` (true for
every name the API server accepts), any times except the zero time. -/
theorem name_injective_valid_names (now now' : Int) (c c' : Str) (t t' : Int)
    (ht : t ≠ zeroUnix) (ht' : t' ≠ zeroUnix) (hc : c.getLast? ≠ some '-') (hc' : c'.getLast? ≠ some '-')
    (h : generateName now c t = generateName now' c' t') : c = c' ∧ t = t' := by
  rcases (name_collision_iff now now' c c' t t' ht ht').mp h with h | ⟨e, _, _⟩ | ⟨e, _, _⟩
  · exact h
  · exact absurd (by rw [e]; simp) hc
  · exact absurd (by rw [e]; simp) hc'

example : generateName 0 "a".toList 5 ≠ generateName 0 "b".toList 5 := by decide

/-- Witness that the side conditions cannot be dropped: a JobConfig name ending in `-` with a
positive time collides with the shorter name at the negated time … -/
theorem name_not_injective_in_general :
    generateName 0 "a-".toList 5 = generateName 0 "a".toList (-5) := by decide

/-- … and at the zero time the name is taken from the clock, so it is neither a function of
(name, time) nor distinct from the name of the pair (name, now). -/
theorem name_zero_time_uses_clock :
    generateName 100 "a".toList zeroUnix ≠ generateName 101 "a".toList zeroUnix ∧
    generateName 100 "a".toList zeroUnix = generateName 0 "a".toList 100 := by decide

/-! ## What the Job records -/

/-- The Job submitted for `(c, t)`: its schedule-time annotation reads back as `t`, its uid label
and its only (controller) owner reference are the JobConfig's, namespace and name are the
JobConfig's namespace and `generateName c.name t` — for *every* template label / annotation set
(`c` is arbitrary), so no template entry can override the reserved keys. -/
theorem job_records_identity (now : Int) (c : JobConfig) (t : Int) (ht : InInt64 t) (j : Job)
    (h : newJobFromJobConfig now c typeScheduled t = some j) :
    j.schedAnnot = some (showInt t) ∧ (j.schedAnnot.bind atoi) = some t ∧
    mapGet j.labels labelKeyUID = some c.uid ∧
    j.owners = [controllerRef c] ∧ j.ownerUid = some c.uid ∧
    j.ns = c.ns ∧ j.name = generateName now c.name t := by
  unfold newJobFromJobConfig at h
  cases hs : c.subst with
  | none => simp [hs] at h
  | some vars =>
    simp only [hs, Option.some.injEq] at h
    have hj : j = { scheduledJob now c t vars with startPolicy := none } := by rw [← h]; rfl
    have ha := schedAnnot_scheduledJob now c t vars
    have ho := ownerUid_scheduledJob now c t vars
    have hl := uidLabel_scheduledJob now c t vars
    subst hj
    refine ⟨ha, ?_, hl, rfl, ho, rfl, rfl⟩
    show (Job.schedAnnot (scheduledJob now c t vars)).bind atoi = some t
    rw [ha]; exact atoi_showInt ht

/-- Template labels / annotations other than the reserved keys are carried over unchanged
(only the last step of `makeLabels` / `makeAnnotations` is shown: the reserved key is written last). -/
theorem reserved_keys_written_last (m : KV) (k v k' : Str) (h : k' ≠ k) :
    mapGet (mapCopyInto m [(k, v)]) k = some v ∧ mapGet (mapCopyInto m [(k, v)]) k' = mapGet m k' :=
  ⟨mapGet_mapSet_self m k v, mapGet_mapSet_other m v h⟩

/-- a JobConfig whose template tries to override both reserved keys -/
def evilConfig : JobConfig :=
  { ns := "ns".toList, name := "jc".toList, uid := "uid-1".toList, policy := "Forbid".toList, maxConc := none,
    queued := 0, tmplLabels := [(labelKeyUID, "other-uid".toList), ("app".toList, "x".toList)],
    tmplAnnots := [(annKeySchedule, "12345".toList)], subst := some [], tmpl := some 3 }

example : ∃ j, newJobFromJobConfig 0 evilConfig typeScheduled 100 = some j ∧
    j.schedAnnot = some "100".toList ∧ mapGet j.labels labelKeyUID = some "uid-1".toList ∧
    mapGet j.labels "app".toList = some "x".toList := by
  refine ⟨_, rfl, ?_, ?_, ?_⟩ <;> decide

/-- Observation (not a clause of C02): for a non-Scheduled type the reserved annotation is not
written, so a template-supplied `schedule-time` annotation survives on an Adhoc Job. -/
example : ∃ j, newJobFromJobConfig 0 evilConfig Facts.jobTypeAdhoc.toList 100 = some j ∧
    j.schedAnnot = some "12345".toList := ⟨_, rfl, by decide⟩

/-! ## At most one Job per (JobConfig, schedule time) -/

/-- a JobConfig uid identifies one (namespace, name): uids are never reused by the API server -/
def UidFunctional (world : JobConfig → Prop) : Prop :=
  ∀ a b, world a → world b → a.uid = b.uid → a.ns = b.ns ∧ a.name = b.name

/-- Inductive invariant over every history of the transition system — requests in any order and
multiplicity, processing with arbitrary (stale, empty, fresh) JobConfig and Job caches, any store
count, any `MaxEnqueuedJobs`, any create fault (even one that is applied but reported as an
error, i.e. outside `E-ErrNotApplied`), crashes that lose the queue, deletions of Jobs:
for every JobConfig uid `u` and schedule time `t ≠ zeroUnix`, at most one Job on the server is
owned by `u` and carries annotation `t`, and such a Job lives in the JobConfig's namespace under
the name `jobName name t`. -/
theorem at_most_one (world : JobConfig → Prop) (hw : UidFunctional world) (s : Sys)
    (hr : Reachable world s) (u : Str) (t : Int) (ht : t ≠ zeroUnix) :
    (s.api.filter (fun j => j.ownerUid = some u ∧ j.schedAnnot = some (showInt t))).length ≤ 1 ∧
    ∀ j ∈ s.api, j.ownerUid = some u → j.schedAnnot = some (showInt t) →
      ∃ c, world c ∧ c.uid = u ∧ j.ns = c.ns ∧ j.name = jobName c.name t := by
  have inv := inv_reachable hr
  have key : ∀ j ∈ s.api, j.ownerUid = some u → j.schedAnnot = some (showInt t) →
      ∃ c, world c ∧ c.uid = u ∧ j.ns = c.ns ∧ j.name = jobName c.name t := by
    intro j hj ho ha
    obtain ⟨c, t0, now, vars, hwc, rfl⟩ := inv.made j hj
    rw [ownerUid_scheduledJob] at ho
    rw [schedAnnot_scheduledJob] at ha
    have hu : c.uid = u := Option.some.inj ho
    have htt : t0 = t := Str.showInt_injective (Option.some.inj ha)
    subst htt
    exact ⟨c, hwc, hu, rfl, generateName_eq_jobName now c.name ht⟩
  refine ⟨?_, key⟩
  apply length_le_one_of_pairwise (R := fun a b => ¬ sameKey a b)
  · exact inv.distinct.sublist List.filter_sublist
  · intro a ha b hb
    have ha' := List.mem_filter.mp ha
    have hb' := List.mem_filter.mp hb
    have pa := of_decide_eq_true ha'.2
    have pb := of_decide_eq_true hb'.2
    obtain ⟨ca, hwa, hua, hnsa, hna⟩ := key a ha'.1 pa.1 pa.2
    obtain ⟨cb, hwb, hub, hnsb, hnb⟩ := key b hb'.1 pb.1 pb.2
    obtain ⟨e1, e2⟩ := hw ca cb hwa hwb (hua.trans hub.symm)
    intro hne
    exact hne ⟨by rw [hnsa, hnsb, e1], by rw [hna, hnb, e2]⟩

/-- the same JobConfig in two versions (an update: same uid, different policy) -/
def cfgV1 : JobConfig :=
  { ns := "ns".toList, name := "a.5".toList, uid := "u1".toList, policy := "Allow".toList, maxConc := none,
    queued := 0, tmplLabels := [], tmplAnnots := [], subst := some [], tmpl := none }
def cfgV2 : JobConfig := { cfgV1 with policy := "Forbid".toList }
def demoWorld (c : JobConfig) : Prop := c = cfgV1 ∨ c = cfgV2

theorem demoWorld_functional : UidFunctional demoWorld := by
  intro a b ha hb _
  rcases ha with rfl | rfl <;> rcases hb with rfl | rfl <;> exact ⟨rfl, rfl⟩

/-- the history request · process (created) · process again with an empty Job cache (AlreadyExists)
· crash · deliver a stale JobConfig version · request · process: still exactly one Job -/
def demoKey : Str := jobConfigKey cfgV1.ns cfgV1.name 100
def demoS1 : Sys := { queue := [demoKey] }
def demoS2 : Sys := { demoS1 with jcCache := [cfgV1] }
def demoApi : Api := (syncItem 0 [] (listerGet [cfgV1]) (fun _ => 0) (some 20) (jobLister []) .none demoKey).api
def demoS3 : Sys := { demoS2 with api := demoApi }

theorem demoApi_eq : demoApi = [scheduledJob 0 cfgV1 100 []] := by decide

theorem demo_reachable : Reachable demoWorld demoS3 := by
  have r1 : Reachable demoWorld demoS1 :=
    .step (.request cfgV1 100) .init ⟨Or.inl rfl, rfl⟩
  have r2 : Reachable demoWorld demoS2 :=
    .step (.deliver [cfgV1] []) r1 ⟨by intro c hc; simp at hc; exact Or.inl hc, rfl⟩
  exact .step (.process demoKey 0 (fun _ => 0) (some 20) .none true) r2 ⟨by simp [demoS2, demoS1], rfl⟩

/-- non-vacuity of `at_most_one`: a reachable state in which the count is exactly one -/
example : (demoS3.api.filter (fun j => j.ownerUid = some "u1".toList ∧ j.schedAnnot = some (showInt 100))).length = 1 := by
  decide

/-- Without the exclusion of the zero time the invariant is false in the model (and in the code:
corpus scenario `zero-time-name`; observed, not a finding: `CronWorker.Work` never requests the zero time,
it skips `ts.IsZero()`): two syncs of the same work item one second apart
create two Jobs with the same owner and the same schedule-time annotation. -/
theorem at_most_one_fails_at_zero_time :
    let key := jobConfigKey cfgV1.ns cfgV1.name zeroUnix
    let api1 := (syncItem 1000 [] (listerGet [cfgV1]) (fun _ => 0) (some 20) (jobLister []) .none key).api
    let api2 := (syncItem 1001 api1 (listerGet [cfgV1]) (fun _ => 0) (some 20) (jobLister []) .none key).api
    (api2.filter (fun j => j.ownerUid = some cfgV1.uid ∧ j.schedAnnot = some (showInt zeroUnix))).length = 2 := by
  decide

/-! ## Idempotence -/

/-- Once the Job for `(c, t)` exists on the server, processing the work item again leaves the
server unchanged, whatever the caches, the store, the configuration and the injected fault are.
With a cache hit no API call is issued; with a cache miss the create is answered `AlreadyExists`
(unless the injected fault pre-empts the answer) and the sync returns an error (⇒ rate-limited
retry, again without effect). -/
theorem process_idempotent (now : Int) (api : Api) (lookup : Str → Str → Option JobConfig)
    (active : JobConfig → Int) (mx : Option Int) (inCache : Str → Str → Bool) (inj : Inject)
    (ns name cfgName : Str) (t : Int) (c : JobConfig)
    (hk : splitKey name = .ok (cfgName, t)) (hl : lookup ns cfgName = some c)
    (hex : api.has c.ns (generateName now c.name t) = true) :
    let o := syncOne now api lookup active mx inCache inj ns name
    o.api = api ∧
    (inCache c.ns (generateName now c.name t) = true → o.call = none) ∧
    (∀ j, o.call = some j → (inj = .none ∨ inj = .errApplied) → o.resp = some .exists ∧ o.result = .err) := by
  intro o
  have hapi : o.api = api := by
    rcases syncOne_api now api lookup active mx inCache inj ns name with h | ⟨n', t', c', vars, hk', hl', _, hfree⟩
    · exact h
    · rw [hk] at hk'
      injection hk' with e
      injection e with e1 e2
      subst e1; subst e2
      rw [hl] at hl'
      injection hl' with e3
      subst e3
      rw [hex] at hfree
      exact absurd hfree (by decide)
  refine ⟨hapi, ?_, ?_⟩
  · intro hin
    show (syncOne now api lookup active mx inCache inj ns name).call = none
    unfold syncOne
    simp only [hk, hl]
    cases hd : processCron now (some c) (active c) mx inCache t with
    | done r evs => rfl
    | create j =>
      obtain ⟨c', vars, hc', _, hj, hnot⟩ := processCron_create hd
      injection hc' with e; subst e
      rw [hj] at hnot
      simp only [scheduledJob] at hnot
      rw [hin] at hnot
      exact absurd hnot (by decide)
  · intro j hcall hinj
    have : o = syncOne now api lookup active mx inCache inj ns name := rfl
    rw [this] at hcall ⊢
    unfold syncOne at hcall ⊢
    simp only [hk, hl] at hcall ⊢
    cases hd : processCron now (some c) (active c) mx inCache t with
    | done r evs => simp [hd] at hcall
    | create j' =>
      obtain ⟨c', vars, hc', _, hj, _⟩ := processCron_create hd
      injection hc' with e; subst e
      have hhas : api.has j'.ns j'.name = true := by rw [hj]; exact hex
      simp only [hd] at hcall ⊢
      rcases hinj with rfl | rfl <;> simp [apiCreate, hhas, afterCreate]

/-- non-vacuity: the second processing of the demo key, with an empty Job cache -/
example :
    let o := syncItem 0 demoApi (listerGet [cfgV1]) (fun _ => 0) (some 20) (jobLister []) .none demoKey
    o.api = demoApi ∧ o.resp = some .exists ∧ o.result = .err := by decide

/-- … and with the Job delivered to the cache: no call at all -/
example :
    let o := syncItem 0 demoApi (listerGet [cfgV1]) (fun _ => 0) (some 20)
              (jobLister [("ns".toList, "a.5-100".toList)]) .none demoKey
    o.api = demoApi ∧ o.call = none ∧ o.result = .ok := by decide

/-- Liveness in the good case (makes the safety theorems non-vacuous): a work item for `(c, t)`
processed with `c` in the JobConfig cache, nothing skipped, valid option defaults, a Job cache
without the Job and a truthful server whose name is free creates exactly the Job of `(c, t)`. -/
theorem request_creates (now : Int) (api : Api) (cache : List JobConfig) (active : JobConfig → Int)
    (mx : Option Int) (jobs : List (Str × Str)) (c : JobConfig) (vars : KV) (t : Int)
    (hns : '/' ∉ c.ns) (hname : '/' ∉ c.name) (ht : InInt64 t)
    (hl : listerGet cache c.ns c.name = some c) (hsub : c.subst = some vars)
    (hforbid : ¬ (c.policy = policyForbid ∧ active c + 1 > c.maxConc.getD Facts.defaultMaxConcurrency))
    (hq : queueFull mx c.queued = false)
    (hcache : jobLister jobs c.ns (generateName now c.name t) = false)
    (hfree : api.has c.ns (generateName now c.name t) = false) :
    (syncItem now api (listerGet cache) active mx (jobLister jobs) .none (jobConfigKey c.ns c.name t)).api
      = api ++ [scheduledJob now c t vars] := by
  unfold syncItem
  rw [splitNsKey_jobConfigKey t hns hname]
  simp only
  unfold syncOne
  rw [splitKey_joinKey c.name ht]
  simp only [hl]
  unfold processCron
  simp only [hforbid, if_false, hq, Bool.false_eq_true, newJobFromJobConfig, hsub, hcache]
  simp only [apiCreate, hfree, Bool.false_eq_true, if_false]
  rfl

end Furiko.Props.C02
