/-
C09 — "Tasks are never forgotten, duplicated or wrongly adopted across crashes/faults":
HISTORY-level theorems, i.e. invariants over every state reachable in the transition system of
`Proofs/JobCtlSys.lean` (see `Props/C11Hist.lean` for the conventions: `Reach ok j0 s`, action filter
`ok`, envelopes `E-API` / `E-ErrNotApplied` / `E-SingleLeader` as built into the model).
-/
import FurikoModel.Proofs.JobCtlInvExamples
import FurikoModel.Props.C09
import FurikoModel.Props.C11

namespace Furiko.Props.C09Hist
open Furiko Furiko.JobCtl

/-- `refs_monotone`, one step: whatever the action (controller pass under any fault pattern, informer
lag, restart, kubelet, external deletion, user kill / delete, foreign pods), every task name listed in
`status.tasks` of the authoritative Job before the step is still listed after it — unless the Job
object itself disappeared (`(step s a).job = none`: deletion completed). -/
theorem refs_monotone_step {ok : Sys → Action → Prop} {j0 : JobObj} {s : Sys} (hr : Reach ok j0 s) (a : Action)
    (hal : Allowed j0 s a) (j j' : JobObj) (hj : s.job = some j) (hj' : (step s a).job = some j') :
    ∀ n ∈ refNames j.job, n ∈ refNames j'.job :=
  step_rel (fun x y => ∀ n ∈ refNames x, n ∈ refNames y) (fun _ _ h => h)
    (fun _ _ _ h1 h2 n hn => h2 n (h1 n hn)) (fun jo sp => (sync_spec sp jo sp (CreatePhase.refl _)).2.names)
    (fun _ _ _ h1 h2 n hn => by unfold refNames; rw [h2]; exact h1 n hn) hr a hal j j' hj hj'

/-- `refs_monotone`: along every continuation of a history the set of task names in the authoritative
`status.tasks` never shrinks while the Job object exists.  All actions allowed. -/
theorem refs_monotone {ok : Sys → Action → Prop} {j0 : JobObj} {s s' : Sys} (hr : Reach ok j0 s)
    (hs : Steps ok j0 s s') (j j' : JobObj) (hj : s.job = some j) (hj' : s'.job = some j') :
    ∀ n ∈ refNames j.job, n ∈ refNames j'.job :=
  steps_rel (fun x y => ∀ n ∈ refNames x, n ∈ refNames y) (fun _ _ h => h)
    (fun _ _ _ h1 h2 n hn => h2 n (h1 n hn))
    (fun s a _ hr _ hal j j' => refs_monotone_step hr a hal j j') hr hs j j' hj hj'

/-- … and the Job object, once removed, never reappears (so "unless the Job disappears" is final). -/
theorem job_gone_stays_gone {ok : Sys → Action → Prop} {j0 : JobObj} {s : Sys} (hr : Reach ok j0 s) (a : Action)
    (hal : Allowed j0 s a) (h : s.job = none) : (step s a).job = none :=
  step_job_none hr a hal h

example : ∃ j, Ex.sA.job = some j ∧ refNames j.job = ["job-h-0"] :=
  ⟨Ex.jobOf Ex.sA, by decide +kernel, by decide +kernel⟩
example : ∃ j j', Ex.sA.job = some j ∧ Ex.sC.job = some j' ∧ Steps anyAction Ex.job Ex.sA Ex.sC ∧ j.rv ≠ j'.rv :=
  ⟨Ex.jobOf Ex.sA, Ex.jobOf Ex.sC, by decide +kernel, by decide +kernel, Ex.sA_sC, by decide +kernel⟩

/-- `at_most_one_pod_per_name`: pod names on the server are pairwise distinct in every reachable
state (API name uniqueness; all actions allowed). -/
theorem at_most_one_pod_per_name {ok : Sys → Action → Prop} {j0 : JobObj} {s : Sys} (hr : Reach ok j0 s) :
    (s.pods.map (·.pod.name)).Nodup :=
  (base_of_reach hr).podsNodup

/-- `recorded_or_adoptable`: in every reachable state every pod controlled by the Job (owner uid =
the Job's uid) — recorded in the status or not — is named `taskName job.name hash retry` after the
parallel index and retry number it carries; that index is one of the Job's and `0 ≤ retry <
maxAttempts`.  (Pods of the Job are only ever created by `PodTaskClient.CreateIndex`; the kubelet
keeps name, owner and indexes.)  All actions allowed. -/
theorem recorded_or_adoptable {ok : Sys → Action → Prop} {j0 : JobObj} {s : Sys} (hr : Reach ok j0 s)
    (p : PodObj) (hp : p ∈ s.pods) (hown : p.ownerUid = some j0.uid) : PodNameOK j0 s.d p :=
  (base_of_reach hr).podsOK p hp hown

/-- … so an unrecorded pod of the Job is always re-discovered: whenever the controller (holding any
version `jo` of the Job) needs the `(index, retry)` such a pod stands for, its create call cannot
succeed a second time — it is answered `AlreadyExists` (or fails on a fault) and the set of pods is
unchanged; `C09.adopt_not_duplicate` then shows the existing pod is adopted once it is in the cache. -/
theorem unrecorded_pod_never_duplicated {j0 : JobObj} {s : Sys}
    (p : PodObj) (hp : p ∈ s.pods) (idx : PIndex) (retry : Int)
    (hname : p.pod.name = taskName j0.name idx.hash retry) (jo : JobObj) (hjo : jo.name = j0.name) :
    (apiCreatePod s jo idx retry).1.pods = s.pods ∧ ∀ q, (apiCreatePod s jo idx retry).2 ≠ .ok q := by
  rcases apiCreatePod_spec s jo idx retry with h | h
  · exact ⟨h.1.pods, h.2⟩
  · exfalso
    have := findPod_none h.1.fresh p hp
    apply this
    show p.pod.name = taskName jo.name idx.hash retry
    rw [hjo]; exact hname

example : ∃ p ∈ Ex.sA.pods, p.ownerUid = some Ex.job.uid ∧ p.pod.name = taskName Ex.job.name "h" 0 :=
  ⟨Ex.podA, by decide +kernel, by decide +kernel, by decide +kernel⟩
/-- the pod of `sA` exists while the CACHED status does not list it after a restart-free lag:
here the cache of `s0 + deliverJob + work` still holds the version without refs -/
example : ∃ c, (runActs Ex.s0 [.deliverJob, .work]).jobCache = some c ∧ c.job.status.tasks = [] ∧
    (runActs Ex.s0 [.deliverJob, .work]).pods ≠ [] :=
  ⟨Ex.cachedOf (runActs Ex.s0 [.deliverJob, .work]), by decide +kernel, by decide +kernel, by decide +kernel⟩

/-! ### `foreign_never_recorded`

Planned statement: a pod whose owner uid is not the Job's never has its name in the authoritative
`status.tasks`.  FALSE on the model: refs are keyed by NAME and `getTaskForRef` (cache `Lister().Get`,
live `Client().Get`) does not look at the owner, so a foreign object that takes the name of an already
recorded task — after that task's pod vanished — is read as that task. -/

/-- witness: `job-h-0` is recorded for the Job's own pod; the pod vanishes; a foreign pod (owner
`other-uid`, phase Succeeded) is created under that name; after its events are delivered the next pass
takes the foreign pod for the task and reports the Job Finished / Success. -/
theorem foreign_recorded_witness :
    Reach anyAction Ex.job Ex.sX ∧
    Ex.sX.pods.map (fun p => (p.pod.name, p.ownerUid)) = [("job-h-0", some "other-uid")] ∧
    Ex.sX.job.map (fun j => (refNames j.job, j.job.status.condition.finished.map (·.result))) =
      some (["job-h-0"], some .success) :=
  ⟨Ex.sX_reach, by decide +kernel, by decide +kernel⟩

/-- `recorded_refs_wellformed_partial` (histories WITHOUT foreign pods, index hashes pairwise distinct
and free of `-`; every other action allowed): in every reachable state every pod on the server and in
the pod cache is controlled by the Job and named after its index and retry number, and the
authoritative status lists pairwise distinct names, each ref carrying one of the Job's indexes and the
name `taskName job.name hash retryIndex` of ITS index and retry number (so `(hash, retry)` identifies
the ref: never two refs for one attempt), and `createdTasks = |tasks|`. -/
theorem recorded_refs_wellformed_partial {ok : Sys → Action → Prop} (hok : ∀ s a, ok s a → noForeign s a)
    {j0 : JobObj} {s : Sys} (hr : Reach ok j0 s) (hwf : WF2 j0 s.d) :
    (∀ p ∈ s.pods, PodOK2 j0 s.d p) ∧ (∀ p ∈ s.podCache, PodOK2 j0 s.d p) ∧
    ∀ j, s.job = some j → (refNames j.job).Nodup ∧ (∀ r ∈ j.job.status.tasks, RefOK j0 s.d r) ∧
      j.job.status.createdTasks = j.job.status.tasks.length := by
  have hi := inv2_of_reach hok hr hwf
  exact ⟨hi.pods.pods, hi.pods.cache, fun j hj => ⟨(hi.job j hj).nodup, (hi.job j hj).refs, (hi.job j hj).created⟩⟩

example : WF2 Ex.job Ex.sC.d ∧ Reach noForeign Ex.job Ex.sC ∧ (Ex.sC.job.map (fun j => refNames j.job)) = some ["job-h-0"] :=
  ⟨⟨by decide +kernel, by decide +kernel⟩, Ex.sC_reach_nf, by decide +kernel⟩

/-- `finished_ref_justified_partial` (one refresh of the recorded refs, every state `s` and Job value
`rj` — the step `updateTaskRefStatus` of a pass applies to the tasks `getTaskForRef` found): a ref that
carries a finish timestamp after the refresh
* carried one before, or
* its task was found (pod cache, or live GET) and that pod reports a finish time (terminal phase), or
* its task was NOT found: `getTaskForRef` returned nothing, which for an unfinished ref means the name
  is absent from the pod cache AND from the server (`C09.existing_task_never_lost`).
Restriction: this is the one-step form; it does not follow the ref through the other rewrites of a
pass (deletion markers keep timestamps, `C11Hist.timestamps_never_cleared_partial`). -/
theorem finished_ref_justified_partial (s : Sys) (rj : Job) (r : TaskRef)
    (hr : r ∈ (updateJobTaskRefs s.clock rj (tasksForRefs s rj.status.tasks)).status.tasks)
    (hfin : r.finishTimestamp.isSome = true) :
    (∃ ex ∈ rj.status.tasks, ex.name = r.name ∧ ex.finishTimestamp.isSome = true) ∨
    (∃ ex ∈ rj.status.tasks, ∃ t, ex.name = r.name ∧ getTaskForRef s ex = some t ∧
      t.ref.finishTimestamp.isSome = true) ∨
    (∃ ex ∈ rj.status.tasks, ex.name = r.name ∧ getTaskForRef s ex = none) := by
  rcases mem_generateTaskRefs hr with ⟨t, ht, rfl⟩ | ⟨ex, hex, hnot, rfl⟩
  · unfold tasksForRefs at ht
    obtain ⟨ex, hex, hget⟩ := List.mem_filterMap.mp ht
    have hok := getTaskForRef_ok hget
    have hname : ex.name = (getTaskRef (lookupRef rj.status.tasks t.name) t).name := by
      rw [(getTaskRef_fields _ t).1, hok.1, hok.2]
    by_cases htf : t.ref.finishTimestamp.isSome = true
    · exact Or.inr (Or.inl ⟨ex, hex, t, hname, hget, htf⟩)
    · left
      -- the task reports no finish time: the timestamp was retained from the existing ref of that name
      cases hl : lookupRef rj.status.tasks t.name with
      | none =>
        rw [hl] at hfin
        have hnone : (getTaskRef none t).finishTimestamp = t.ref.finishTimestamp := by
          unfold getTaskRef; simp only; split <;> rfl
        rw [hnone] at hfin
        exact absurd hfin htf
      | some ex' =>
        have hmem : ex' ∈ rj.status.tasks ∧ ex'.name = t.name := by
          unfold lookupRef at hl
          have h1 := List.mem_of_find?_eq_some hl
          have h2 := List.find?_some hl
          exact ⟨List.mem_reverse.mp h1, by simpa using h2⟩
        refine ⟨ex', hmem.1, by rw [(getTaskRef_fields _ t).1, hok.1]; exact hmem.2, ?_⟩
        rw [hl] at hfin
        have hret := (Furiko.Props.C11.getTaskRef_retains ex' t).2.1
        rw [hret] at hfin
        simp only [htf, Bool.false_eq_true, ↓reduceIte] at hfin
        exact hfin
  · by_cases hexf : ex.finishTimestamp.isSome = true
    · exact Or.inl ⟨ex, hex, (lostRef_fields _ ex).1.symm, hexf⟩
    · refine Or.inr (Or.inr ⟨ex, hex, (lostRef_fields _ ex).1.symm, ?_⟩)
      cases hg : getTaskForRef s ex with
      | none => rfl
      | some t =>
        exfalso
        apply hnot
        have hok := getTaskForRef_ok hg
        refine List.mem_map.mpr ⟨t, ?_, hok.2⟩
        unfold tasksForRefs
        exact List.mem_filterMap.mpr ⟨ex, hex, hg⟩

example : ∃ r ∈ (updateJobTaskRefs Ex.sA.clock (Ex.cachedOf Ex.sA).job
    (tasksForRefs Ex.sA (Ex.cachedOf Ex.sA).job.status.tasks)).status.tasks, r.finishTimestamp = none :=
  ⟨_, List.mem_cons_self, by decide +kernel⟩

end Furiko.Props.C09Hist
