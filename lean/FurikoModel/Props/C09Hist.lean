/-
C09 — "Tasks are never forgotten, duplicated or wrongly adopted across crashes/faults":
HISTORY-level theorems, i.e. invariants over every state reachable in the transition system of
`Proofs/JobCtlSys.lean` (see `Props/C11Hist.lean` for the conventions: `Reach ok j0 s`, action filter
`ok`, envelopes `E-API` / `E-ErrNotApplied` / `E-SingleLeader` as built into the model).
-/
import FurikoModel.Proofs.JobCtlInvExamples
import FurikoModel.Proofs.JobCtlInvNames
import FurikoModel.Proofs.JobCtlPlanPass
import FurikoModel.Proofs.JobCtlPlanListed
import FurikoModel.Generated.Facts
import FurikoModel.Props.C09
import FurikoModel.Props.C11

namespace Furiko.Props.C09Hist
open Furiko Furiko.JobCtl

/-- `refs_monotone`, one step: whatever the action (controller pass under any fault pattern, informer
lag, restart, kubelet, external deletion, user kill / delete, foreign pods), every task name listed in
`status.tasks` of the authoritative Job before the step is still listed after it — unless the Job
object itself disappeared (`(step s a).job = none`: deletion completed). -/
theorem refs_monotone_step {ok : Sys → Action → Prop} {j0 : JobObj} {s : Sys} (hr : Reach ok j0 s) (a : Action)
    (hal : Allowed j0 s a) (j j' : JobObj) (hj : s.job = some j) (hj' : (step s a).job = some j') :
    ∀ n ∈ refNames j.job, n ∈ refNames j'.job :=
  step_rel (fun x y => ∀ n ∈ refNames x, n ∈ refNames y) (fun _ _ h => h)
    (fun _ _ _ h1 h2 n hn => h2 n (h1 n hn)) (fun jo sp => (sync_spec sp jo sp (CreatePhase.refl _)).2.names)
    (fun _ _ _ h1 h2 n hn => by unfold refNames; rw [h2]; exact h1 n hn) hr a hal j j' hj hj'

/-- `refs_monotone`: along every continuation of a history the set of task names in the authoritative
`status.tasks` never shrinks while the Job object exists.  All actions allowed. -/
theorem refs_monotone {ok : Sys → Action → Prop} {j0 : JobObj} {s s' : Sys} (hr : Reach ok j0 s)
    (hs : Steps ok j0 s s') (j j' : JobObj) (hj : s.job = some j) (hj' : s'.job = some j') :
    ∀ n ∈ refNames j.job, n ∈ refNames j'.job :=
  steps_rel (fun x y => ∀ n ∈ refNames x, n ∈ refNames y) (fun _ _ h => h)
    (fun _ _ _ h1 h2 n hn => h2 n (h1 n hn))
    (fun s a _ hr _ hal j j' => refs_monotone_step hr a hal j j') hr hs j j' hj hj'

/-- … and the Job object, once removed, never reappears (so "unless the Job disappears" is final). -/
theorem job_gone_stays_gone {ok : Sys → Action → Prop} {j0 : JobObj} {s : Sys} (hr : Reach ok j0 s) (a : Action)
    (hal : Allowed j0 s a) (h : s.job = none) : (step s a).job = none :=
  step_job_none hr a hal h

example : ∃ j, Ex.sA.job = some j ∧ refNames j.job = ["job-h-0"] :=
  ⟨Ex.jobOf Ex.sA, by decide +kernel, by decide +kernel⟩
example : ∃ j j', Ex.sA.job = some j ∧ Ex.sC.job = some j' ∧ Steps anyAction Ex.job Ex.sA Ex.sC ∧ j.rv ≠ j'.rv :=
  ⟨Ex.jobOf Ex.sA, Ex.jobOf Ex.sC, by decide +kernel, by decide +kernel, Ex.sA_sC, by decide +kernel⟩

/-- `at_most_one_pod_per_name`: pod names on the server are pairwise distinct in every reachable
state (API name uniqueness; all actions allowed). -/
theorem at_most_one_pod_per_name {ok : Sys → Action → Prop} {j0 : JobObj} {s : Sys} (hr : Reach ok j0 s) :
    (s.pods.map (·.pod.name)).Nodup :=
  (base_of_reach hr).podsNodup

/-- `recorded_or_adoptable`: in every reachable state every pod controlled by the Job (owner uid =
the Job's uid) — recorded in the status or not — is named `taskName job.name hash retry` after the
parallel index and retry number it carries; that index is one of the Job's and `0 ≤ retry <
maxAttempts`.  (Pods of the Job are only ever created by `PodTaskClient.CreateIndex`; the kubelet
keeps name, owner and indexes.)  All actions allowed. -/
theorem recorded_or_adoptable {ok : Sys → Action → Prop} {j0 : JobObj} {s : Sys} (hr : Reach ok j0 s)
    (p : PodObj) (hp : p ∈ s.pods) (hown : p.ownerUid = some j0.uid) : PodNameOK j0 s.d p :=
  (base_of_reach hr).podsOK p hp hown

/-- … so an unrecorded pod of the Job is always re-discovered: whenever the controller (holding any
version `jo` of the Job) needs the `(index, retry)` such a pod stands for, its create call cannot
succeed a second time — it is answered `AlreadyExists` (or fails on a fault) and the set of pods is
unchanged; `C09.adopt_not_duplicate` then shows the existing pod is adopted once it is in the cache. -/
theorem unrecorded_pod_never_duplicated {j0 : JobObj} {s : Sys}
    (p : PodObj) (hp : p ∈ s.pods) (idx : PIndex) (retry : Int)
    (hname : p.pod.name = taskName j0.name idx.hash retry) (jo : JobObj) (hjo : jo.name = j0.name) :
    (apiCreatePod s jo idx retry).1.pods = s.pods ∧ ∀ q, (apiCreatePod s jo idx retry).2 ≠ .ok q := by
  rcases apiCreatePod_spec s jo idx retry with h | h
  · exact ⟨h.1.pods, h.2⟩
  · exfalso
    have := findPod_none h.1.fresh p hp
    apply this
    show p.pod.name = taskName jo.name idx.hash retry
    rw [hjo]; exact hname

example : ∃ p ∈ Ex.sA.pods, p.ownerUid = some Ex.job.uid ∧ p.pod.name = taskName Ex.job.name "h" 0 :=
  ⟨Ex.podA, by decide +kernel, by decide +kernel, by decide +kernel⟩
/-- the pod of `sA` exists while the CACHED status does not list it after a restart-free lag:
here the cache of `s0 + deliverJob + work` still holds the version without refs -/
example : ∃ c, (runActs Ex.s0 [.deliverJob, .work]).jobCache = some c ∧ c.job.status.tasks = [] ∧
    (runActs Ex.s0 [.deliverJob, .work]).pods ≠ [] :=
  ⟨Ex.cachedOf (runActs Ex.s0 [.deliverJob, .work]), by decide +kernel, by decide +kernel, by decide +kernel⟩

/-! ### `foreign_never_read`, `foreign_never_recorded` (repair of F22)

Before the repair the planned statement "a pod that is not controlled by the Job is never recorded" was
FALSE on the model (former witness `foreign_recorded_witness`): refs are keyed by NAME and `getTaskForRef`
(cache `Lister().Get`, live `Client().Get`) did not look at the owner, so a foreign object that took the
name of an already recorded task — after that task's pod vanished — was read as that task (a Succeeded
foreign pod made the Job Finished / Success).  Since the repair every lookup tests the controller owner
reference (`isControlledByJob`), and the positive theorems hold with ALL actions allowed, `createForeign`
on ANY name included.  (The NAME of a recorded task stays listed — it was recorded for the Job's own
pod — so the statement is about what is READ and what is ADDED, not about names in general.) -/

/-- `foreign_never_read` (every reachable state, all actions allowed; the Job value `rj` and the state
`sp` the lookups run in are arbitrary): every task a pass of the controller (cached Job `jo`) reads for a
recorded ref — `tasksForRefs` of `syncJobTasks`, and `finalizerTasks` of `handleFinishFinalizer`, i.e. the
tasks that are refreshed, killed, force-deleted, deleted by the finalizer, and waited for — is the task of
a pod (pod cache or server) that is CONTROLLED BY THE JOB.  A foreign pod is never read, whatever name
it carries: its fields are never copied into a ref and no delete is issued on its behalf. -/
theorem foreign_never_read {ok : Sys → Action → Prop} {j0 : JobObj} {s : Sys} (hr : Reach ok j0 s)
    (jo : JobObj) (hc : s.jobCache = some jo) (sp : Sys) (rj : Job) :
    (∀ t ∈ tasksForRefs sp jo rj.status.tasks, ∃ p, (p ∈ sp.podCache ∨ p ∈ sp.pods) ∧ p.ownerUid = some j0.uid ∧
      podTask sp.clock p = some t ∧ p.pod.name = t.name) ∧
    (∀ t ∈ finalizerTasks sp jo rj, ∃ p, (p ∈ sp.podCache ∨ p ∈ sp.pods) ∧ p.ownerUid = some j0.uid ∧
      podTask sp.clock p = some t ∧ p.pod.name = t.name) := by
  have hu : jo.uid = j0.uid := ((base_of_reach hr).seenOK jo (mem_seenVers_cache hc)).1.uid
  have conf : ∀ t ∈ tasksForRefsConfirmed sp jo rj.status.tasks, ∃ p, (p ∈ sp.podCache ∨ p ∈ sp.pods) ∧
      p.ownerUid = some j0.uid ∧ podTask sp.clock p = some t ∧ p.pod.name = t.name := by
    intro t ht
    unfold tasksForRefsConfirmed at ht
    obtain ⟨r, _, hg⟩ := List.mem_filterMap.mp ht
    obtain ⟨p, hp, hpt, ho⟩ := getTaskForRefConfirmed_owned hg
    refine ⟨p, ?_, hu ▸ ho, hpt, (podTask_ok hpt).2.symm⟩
    rcases hp with h | h
    · exact Or.inl (findPod_some h).1
    · exact Or.inr (findPod_some h).1
  refine ⟨?_, ?_⟩
  · intro t ht
    unfold tasksForRefs at ht
    obtain ⟨r, _, hg⟩ := List.mem_filterMap.mp ht
    obtain ⟨p, hp, hpt, ho⟩ := getTaskForRef_owned hg
    refine ⟨p, ?_, hu ▸ ho, hpt, (podTask_ok hpt).2.symm⟩
    rcases hp with h | h
    · exact Or.inl (findPod_some h).1
    · exact Or.inr (findPod_some h).1
  · intro t ht
    rcases (Furiko.JobCtlPlan.mem_finalizerTasks sp jo rj t).mp ht with h | ⟨p, hp, hpt, _, ho, _⟩
    · exact conf t h
    · exact ⟨p, Or.inl hp, hu ▸ ho, hpt, (podTask_ok hpt).2.symm⟩

example : ∃ jo, Ex.sA.jobCache = some jo ∧ (tasksForRefs Ex.sA jo jo.job.status.tasks).map (·.name) = ["job-h-0"] :=
  ⟨Ex.cachedOf Ex.sA, by decide +kernel, by decide +kernel⟩

/-- the names a pass may add to the status: the name of a pod of the pod cache that is controlled by
the Job (an unrecorded task is adopted), or the name of a creation request computed from the cached Job
that is FREE on the server when the pass starts (the pass's own create call makes that pod — `NewPod`:
controlled by the Job — or fails; a requested name that is occupied is adopted only from a cached pod
controlled by the Job, `C09.adopt_not_duplicate`, and otherwise ends in the admission error,
`C09.foreign_not_adopted`) -/
def AddableName (j0 : JobObj) (s : Sys) (n : String) : Prop :=
  ∃ jo, s.jobCache = some jo ∧
    ((∃ p ∈ s.podCache, p.pod.name = n ∧ p.ownerUid = some j0.uid) ∨
     (n ∉ podNames s.pods ∧ ∃ reqs, computeMissingIndexesForCreation s.d jo.job (jo.job.indexes s.d) = some reqs ∧
        ∃ r ∈ reqs, n = taskName j0.name r.index.hash r.retryIndex))

/-- `foreign_never_recorded` (every reachable state; ALL actions allowed: any fault pattern, informer
lag, restart, clock, kubelet, external pod deletion, user kill / delete, and `createForeign` on ANY
name, recorded ones included; index hashes `WF2`): a step adds a task name to the authoritative
`status.tasks` only if, when the step starts, that name is
* the name of a pod in the pod cache that is CONTROLLED BY THE JOB (the task was created by this Job's
  controller earlier and is adopted), or
* a task name the cached Job's creation requests ask for that is FREE on the server (the pass's own
  `apiCreatePod` makes the pod, controlled by the Job).
Together with `refs_monotone` (names are never removed): every name in the authoritative status was, at
the moment it was recorded, the name of a pod created by this Job's controller — never the name of an
object that merely exists.  A foreign pod is never adopted, whatever name it takes. -/
theorem foreign_never_recorded {ok : Sys → Action → Prop} {j0 : JobObj} {s : Sys} (hr : Reach ok j0 s)
    (hwf : WF2 j0 s.d) (a : Action) (hal : Allowed j0 s a) (j j' : JobObj) (hj : s.job = some j)
    (hj' : (step s a).job = some j') (n : String) (hn : n ∈ refNames j'.job) (hnew : n ∉ refNames j.job) :
    AddableName j0 s n := by
  have hb := base_of_reach hr
  have h2 := inv2_of_reach hr hwf
  have key := jobMoves_rel (s0 := s) (a := a) (fun x y => ∀ n ∈ refNames y, n ∈ refNames x ∨ AddableName j0 s n)
    (fun _ _ h => Or.inl h)
    (fun _ _ _ h1 h2 n hn => by
      rcases h2 n hn with h | h
      · exact h1 n h
      · exact Or.inr h)
    (fun _ _ h n hn => by unfold refNames at hn ⊢; rw [h] at hn; exact Or.inl hn)
    (fun jo sp hc hf n hn => by
      have hi := h2.frame hf
      have hcsp : sp.jobCache = some jo := hf.jobCache.trans hc
      have hjo := (hb.seenOK jo (mem_seenVers_cache hc)).1
      have hg := hi.seen jo (mem_seenVers_cache hcsp)
      have hnok := sync_nok sp jo (hf.d ▸ hwf) hi.pods hjo hg n hn
      unfold allowedNames at hnok
      rcases List.mem_append.mp hnok with hnok | hnok
      · rcases List.mem_append.mp hnok with hold | hreq
        · exact Or.inl hold
        · right
          unfold freshReqNames at hreq
          obtain ⟨hreq, hfree⟩ := List.mem_filter.mp hreq
          refine ⟨jo, hc, Or.inr ⟨by rw [← hf.pods]; simpa using hfree, ?_⟩⟩
          unfold reqNamesOf at hreq
          rw [hf.d] at hreq
          cases hreqs : computeMissingIndexesForCreation s.d jo.job (jo.job.indexes s.d) with
          | none => rw [hreqs] at hreq; cases hreq
          | some reqs =>
            rw [hreqs] at hreq
            obtain ⟨r, hr', hrn⟩ := List.mem_map.mp hreq
            exact ⟨reqs, rfl, r, hr', by rw [← hrn, ← hjo.name]; rfl⟩
      · right
        obtain ⟨p, hp, ho, hpn⟩ := ownedNames_mem hnok
        exact ⟨jo, hc, Or.inl ⟨p, hf.podCache ▸ hp, hpn, hjo.uid ▸ ho⟩⟩)
    (fun _ _ _ h1 h2 n hn => by unfold refNames at hn; rw [h2] at hn; exact h1 n hn)
    (job_moves hb a hal) j j' hj hj'
  rcases key n hn with h | h
  · exact absurd h hnew
  · exact h

/-- the hypotheses are met: the first pass of the example history adds `job-h-0`, a requested name that
is free on the server -/
example : ∃ j j', (step Ex.s0 .deliverJob).job = some j ∧ (step (step Ex.s0 .deliverJob) .work).job = some j' ∧
    "job-h-0" ∈ refNames j'.job ∧ "job-h-0" ∉ refNames j.job :=
  ⟨Ex.jobOf (step Ex.s0 .deliverJob), Ex.jobOf (step (step Ex.s0 .deliverJob) .work), by decide +kernel,
    by decide +kernel, by decide +kernel, by decide +kernel⟩

/-- `foreign_never_recorded_refs` (one refresh of the recorded refs — the step `updateTaskRefStatus` of a
pass applies to the tasks `getTaskForRef` found —, every state `s`, cached Job `jo` and Job value `rj`):
every ref after the refresh is
* `GetTaskRef` of a task that was read from a pod (pod cache or server) CONTROLLED BY THE JOB `jo`, or
* the lost / final-state form (`lostRef`, computed from the existing ref alone) of a ref whose task was
  not found.
No field of a pod that is not controlled by the Job enters a ref. -/
theorem foreign_never_recorded_refs (s : Sys) (jo : JobObj) (rj : Job) (r : TaskRef)
    (hr : r ∈ (updateJobTaskRefs s.clock rj (tasksForRefs s jo rj.status.tasks)).status.tasks) :
    (∃ t p, (p ∈ s.podCache ∨ p ∈ s.pods) ∧ p.ownerUid = some jo.uid ∧ podTask s.clock p = some t ∧
      r = getTaskRef (lookupRef rj.status.tasks t.name) t) ∨
    (∃ ex ∈ rj.status.tasks, getTaskForRef s jo ex = none ∧ r = lostRef s.clock ex) := by
  rcases mem_generateTaskRefs hr with ⟨t, ht, rfl⟩ | ⟨ex, hex, hnot, rfl⟩
  · left
    unfold tasksForRefs at ht
    obtain ⟨ex, _, hg⟩ := List.mem_filterMap.mp ht
    obtain ⟨p, hp, hpt, ho⟩ := getTaskForRef_owned hg
    refine ⟨t, p, ?_, ho, hpt, rfl⟩
    rcases hp with h | h
    · exact Or.inl (findPod_some h).1
    · exact Or.inr (findPod_some h).1
  · right
    refine ⟨ex, hex, ?_, rfl⟩
    cases hg : getTaskForRef s jo ex with
    | none => rfl
    | some t =>
      exfalso
      apply hnot
      refine List.mem_map.mpr ⟨t, ?_, (getTaskForRef_ok hg).2⟩
      unfold tasksForRefs
      exact List.mem_filterMap.mpr ⟨ex, hex, hg⟩

/-- … in particular the F22 situation: when, under the name of a recorded task, the pod cache holds a
pod that is NOT controlled by the Job and the server holds no pod controlled by the Job either (the
task's own pod vanished; a foreign pod took its name, or nothing did), the refreshed ref of that name is
the lost / final-state form of the recorded ref — what a vanished task gets —, whatever the foreign
pod reports.  (With the Job's own pod on the server the cached foreign object is a cache miss and the
task is found: `stale_foreign_cache_regression`.) -/
theorem foreign_on_recorded_name_means_lost (s : Sys) (jo : JobObj) (rj : Job) (q : PodObj) (r : TaskRef)
    (hq : findPod s.podCache r.name = some q) (hown : q.ownerUid ≠ some jo.uid)
    (hsrv : ∀ p, findPod s.pods r.name = some p → p.ownerUid ≠ some jo.uid)
    (hr : r ∈ (updateJobTaskRefs s.clock rj (tasksForRefs s jo rj.status.tasks)).status.tasks) :
    ∃ ex ∈ rj.status.tasks, ex.name = r.name ∧ r = lostRef s.clock ex := by
  rcases mem_generateTaskRefs hr with ⟨t, ht, rfl⟩ | ⟨ex, hex, _, rfl⟩
  · exfalso
    -- `t` was found for a recorded ref of that name: impossible, every object of that name is foreign
    unfold tasksForRefs at ht
    obtain ⟨ex, _, hg⟩ := List.mem_filterMap.mp ht
    have hok := getTaskForRef_ok hg
    have hname : ex.name = (getTaskRef (lookupRef rj.status.tasks t.name) t).name := by
      rw [(getTaskRef_fields _ t).1, hok.1, hok.2]
    rw [Furiko.Props.C09.foreign_means_absent s jo ex q (hname ▸ hq) hown (hname ▸ hsrv)] at hg
    cases hg
  · exact ⟨ex, hex, (lostRef_fields _ ex).1.symm, rfl⟩

/-- `foreign_not_touched` (every state `s`, cached Job `jo`, Job value `rj`; any fault pattern): every
pod DELETE call a pass issues — pending timeout, kill sweep, force delete (`syncJobTasks`), finalizer
sweep (`handleFinishFinalizer`) — is issued for a task `t` (`c.name = t.name`) that the pass took from a
pod CONTROLLED BY THE JOB: read for a recorded ref (pod cache or live GET), adopted from the pod
cache, or created by the pass itself.  No delete is ever issued on behalf of a foreign pod.
(The call addresses the pod by NAME, without a uid precondition: when the task was read from a STALE
copy in the pod cache and a foreign pod has taken the name on the server meanwhile, the call hits
that pod — `stale_cache_delete_hits_foreign_witness`; what is read live or created in the pass is hit
itself.) -/
theorem foreign_not_touched (s : Sys) (jo : JobObj) (rj : Job) (fz : Bool) :
    (∀ c ∈ Furiko.JobCtlPlan.newCalls s (syncJobTasks s jo rj).1, c.verb = "delete" →
      c.res = "pods" ∧ ∃ t p, t.name = c.name ∧ podTask s.clock p = some t ∧ p.ownerUid = some jo.uid) ∧
    (∀ c ∈ Furiko.JobCtlPlan.newCalls s (handleFinalizer s jo rj fz).1,
      c.verb = "delete" ∧ c.res = "pods" ∧ ∃ t p, t.name = c.name ∧ podTask s.clock p = some t ∧ p.ownerUid = some jo.uid) := by
  open Furiko.JobCtlPlan in
  refine ⟨?_, ?_⟩
  · intro c hc hv
    obtain ⟨hr, s1, rj1, tasks1, hcr, _, t, ht, hn, _⟩ :=
      taskOrigin_delete s jo rj c ((syncJobTasks_origin s jo rj).2 c hc) hv
    refine ⟨hr, ?_⟩
    rcases syncCreateTasks_members s jo rj _ s1 rj1 tasks1 hcr t ht with h0 | ⟨p, hpt, ho⟩
    · unfold tasks0 tasksForRefs at h0
      obtain ⟨ex, _, hg⟩ := List.mem_filterMap.mp h0
      obtain ⟨p, _, hpt, ho⟩ := getTaskForRef_owned hg
      exact ⟨t, p, hn, hpt, ho⟩
    · exact ⟨t, p, hn, hpt, ho⟩
  · intro c hc
    obtain ⟨l, e, hall, _⟩ := handleFinalizer_ext s jo rj fz
    rw [e.newCalls] at hc
    obtain ⟨hv, hr, _, _, _, t, ht, hn, _⟩ := hall c hc
    refine ⟨hv, hr, ?_⟩
    rcases (mem_finalizerTasks s jo rj t).mp ht with h0 | ⟨p, _, hpt, _, ho, _⟩
    · unfold tasksForRefsConfirmed at h0
      obtain ⟨ex, _, hg⟩ := List.mem_filterMap.mp h0
      obtain ⟨p, _, hpt, ho⟩ := getTaskForRefConfirmed_owned hg
      exact ⟨t, p, hn, hpt, ho⟩
    · exact ⟨t, p, hn, hpt, ho⟩

/-- the hypotheses are met: the finalizer pass of `Ex.sE` deletes the Job's own pod `job-h-0` -/
example : Ex.sE.calls.map (fun c => (c.verb, c.res, c.name, c.out)) = [("delete", "pods", "job-h-0", "ok")] := by
  decide +kernel

/-- the hypotheses of `foreign_on_recorded_name_means_lost` are met in the state before the last pass of
the F22 run (`Ex.sX` without its final `work`): the pod cache holds the foreign pod under the recorded
name `job-h-0`, and the refreshed ref of that name is finished (lost) -/
example :
    let s := runActs Ex.sA (Ex.runX.take 5)
    let jo := Ex.cachedOf s
    (∃ q, findPod s.podCache "job-h-0" = some q ∧ q.ownerUid ≠ some jo.uid) ∧
    s.pods.map (fun p => (p.pod.name, p.ownerUid)) = [("job-h-0", some "other-uid")] ∧
    (updateJobTaskRefs s.clock jo.job (tasksForRefs s jo jo.job.status.tasks)).status.tasks.map
      (fun r => (r.name, r.status.state, r.finishTimestamp.isSome)) = [("job-h-0", .deletedFinalStateUnknown, true)] :=
  ⟨⟨Ex.foreignPod, by decide +kernel, by decide +kernel⟩, by decide +kernel, by decide +kernel⟩

/-- F22 regression: the run of the former witness `foreign_recorded_witness` — `job-h-0` is recorded for
the Job's own pod; the pod vanishes; a foreign pod (controlled by `other-uid`, phase Succeeded) is
created under that name; its events are delivered; a pass runs.  Before the repair that pass took the
foreign pod for the task and reported the Job Finished / Success.  Now the ref is LOST
(`DeletedFinalStateUnknown`, finished at the pass's clock), the Job is NOT finished (the index goes to
retry back-off: attempt 0 of 2 is spent), the foreign pod is still on the server, untouched, and the
pass issued no pod call. -/
theorem f22_regression :
    Reach anyAction Ex.job Ex.sX ∧
    Ex.sX.pods.map (fun p => (p.pod.name, p.ownerUid, p.pod.deletionTimestamp)) =
      [("job-h-0", some "other-uid", none)] ∧
    Ex.sX.job.map (fun j => (j.job.status.tasks.map (fun r => (r.name, r.status.state, r.status.result,
        r.finishTimestamp.isSome)), j.job.status.condition.finished.isSome, j.job.status.phase)) =
      some ([("job-h-0", .deletedFinalStateUnknown, .none, true)], false, phaseRetryBackoff) ∧
    Ex.sX.calls.map (fun c => (c.verb, c.res, c.name, c.out)) = [("update", "jobs", "job", "ok")] :=
  ⟨Ex.sX_reach, by decide +kernel, by decide +kernel, by decide +kernel⟩

/-- … and with ONE attempt (`Ex.job1`) the same run ends the Job Finished / FAILED (its only task is
lost) — not Success. -/
theorem f22_regression_one_attempt :
    Reach anyAction Ex.job1 Ex.tX ∧
    Ex.tX.pods.map (fun p => (p.pod.name, p.ownerUid)) = [("job-h-0", some "other-uid")] ∧
    Ex.tX.job.map (fun j => (refNames j.job, j.job.status.condition.finished.map (·.result))) =
      some (["job-h-0"], some .failed) :=
  ⟨Ex.tX_reach, by decide +kernel, by decide +kernel⟩

/-! ### a STALE foreign object in the pod cache is a cache miss

A first form of the repair answered "task absent" as soon as the CACHED object of the ref's name was not
controlled by the Job, without the live GET that confirms every other absence of an unfinished task
(repair of F8): a foreign pod that had already been removed from the server, but whose deletion had not
reached the pod cache yet, hid the Job's own, live task of that name (the task was recorded lost while
its pod existed).  The repair as built treats such a cached object as a cache MISS: the live GET finds
the Job's own pod (`C09.existing_task_never_lost` needs no hypothesis on foreign cached objects). -/

/-- regression (one index `h`, one attempt): a foreign pod `job-h-0` exists before the Job's first pass
and reaches the pod cache; it is removed from the server (its deletion event is still undelivered);
the first pass creates the Job's own `job-h-0` (the name is free) and records it; the next pass finds
the stale FOREIGN object in the pod cache, treats it as a cache miss, and finds the Job's own pod by the
live GET: the task stays `Starting`, the Job is not finished, nothing is written. -/
theorem stale_foreign_cache_regression :
    Reach anyAction Ex.job1 Ex.tY ∧
    Ex.tY.pods.map (fun p => (p.pod.name, p.ownerUid, p.pod.isFinished, p.pod.deletionTimestamp)) =
      [("job-h-0", some "u", false, none)] ∧
    Ex.tY.podCache.map (fun p => (p.pod.name, p.ownerUid)) = [("job-h-0", none)] ∧
    Ex.tY.job.map (fun j => (j.job.status.tasks.map (fun r => (r.name, r.status.state, r.finishTimestamp)),
        j.job.status.condition.finished.map (·.result))) =
      some ([("job-h-0", .starting, none)], none) ∧
    Ex.tY.calls = [] :=
  ⟨Ex.tY_reach, by decide +kernel, by decide +kernel, by decide +kernel, by decide +kernel⟩

/-- witness (outside the repair of F22: pod deletes are issued by NAME, without a uid precondition):
the Job's own `job-h-0` is in the pod cache; it vanishes from the server and a foreign pod (controlled
by `other-uid`) takes its name, both events undelivered; the user deletes the Job; the finalizer pass
reads the task from the STALE cached copy — a pod controlled by the Job, `foreign_not_touched` — and its
delete call hits the foreign pod, which now carries a deletion timestamp.  (The harness counts such
deletes as `jc.observed.foreign-deleted-through-stale-pod-cache`: observed under pod-cache lag, not
claimed.) -/
theorem stale_cache_delete_hits_foreign_witness :
    Reach anyAction Ex.job Ex.sZ ∧
    Ex.sZ.podCache.map (fun p => (p.pod.name, p.ownerUid)) = [("job-h-0", some "u")] ∧
    Ex.sZ.calls.map (fun c => (c.verb, c.res, c.name, c.out)) =
      [("delete", "pods", "job-h-0", "ok"), ("update", "jobs", "job", "ok")] ∧
    Ex.sZ.pods.map (fun p => (p.pod.name, p.ownerUid, p.pod.deletionTimestamp.isSome)) =
      [("job-h-0", some "other-uid", true)] :=
  ⟨Ex.sZ_reach, by decide +kernel, by decide +kernel, by decide +kernel⟩

/-- `recorded_refs_wellformed` (ALL actions allowed, foreign pods on any name included — before the
repair of F22 this was `recorded_refs_wellformed_partial`, proved only for histories without foreign
pods; index hashes pairwise distinct and free of `-`): in every reachable state every pod on the server
and in the pod cache that is CONTROLLED BY THE JOB is named after its index and retry number
(`PodOK2`: `ownerUid = some job.uid → PodNameOK ∧ creationTimestamp set`; a pod that is not controlled by
the Job is unconstrained), and the authoritative status lists pairwise distinct names, each ref carrying
one of the Job's indexes and the name `taskName job.name hash retryIndex` of ITS index and retry number
(so `(hash, retry)` identifies the ref: never two refs for one attempt), and `createdTasks = |tasks|`. -/
theorem recorded_refs_wellformed {ok : Sys → Action → Prop}
    {j0 : JobObj} {s : Sys} (hr : Reach ok j0 s) (hwf : WF2 j0 s.d) :
    (∀ p ∈ s.pods, PodOK2 j0 s.d p) ∧ (∀ p ∈ s.podCache, PodOK2 j0 s.d p) ∧
    ∀ j, s.job = some j → (refNames j.job).Nodup ∧ (∀ r ∈ j.job.status.tasks, RefOK j0 s.d r) ∧
      j.job.status.createdTasks = j.job.status.tasks.length := by
  have hi := inv2_of_reach hr hwf
  exact ⟨hi.pods.pods, hi.pods.cache, fun j hj => ⟨(hi.job j hj).nodup, (hi.job j hj).refs, (hi.job j hj).created⟩⟩

/-- … in a state with a foreign pod on a recorded name -/
example : WF2 Ex.job Ex.sX.d ∧ Reach anyAction Ex.job Ex.sX ∧ (Ex.sX.job.map (fun j => refNames j.job)) = some ["job-h-0"] :=
  ⟨⟨by decide +kernel, by decide +kernel⟩, Ex.sX_reach, by decide +kernel⟩

/-- `finished_ref_justified_partial` (one refresh of the recorded refs, every state `s` and Job value
`rj` — the step `updateTaskRefStatus` of a pass applies to the tasks `getTaskForRef` found): a ref that
carries a finish timestamp after the refresh
* carried one before, or
* its task was found (pod cache, or live GET; a pod controlled by the Job, `foreign_never_read`) and
  that pod reports a finish time (terminal phase), or
* its task was NOT found: `getTaskForRef` returned nothing, which for an unfinished ref means that no
  pod of that name controlled by the Job is in the pod cache or on the server
  (`C09.existing_task_never_lost`).
Restriction: this is the one-step form; it does not follow the ref through the other rewrites of a
pass (deletion markers keep timestamps, `C11Hist.timestamps_never_cleared`). -/
theorem finished_ref_justified_partial (s : Sys) (jo : JobObj) (rj : Job) (r : TaskRef)
    (hr : r ∈ (updateJobTaskRefs s.clock rj (tasksForRefs s jo rj.status.tasks)).status.tasks)
    (hfin : r.finishTimestamp.isSome = true) :
    (∃ ex ∈ rj.status.tasks, ex.name = r.name ∧ ex.finishTimestamp.isSome = true) ∨
    (∃ ex ∈ rj.status.tasks, ∃ t, ex.name = r.name ∧ getTaskForRef s jo ex = some t ∧
      t.ref.finishTimestamp.isSome = true) ∨
    (∃ ex ∈ rj.status.tasks, ex.name = r.name ∧ getTaskForRef s jo ex = none) := by
  rcases mem_generateTaskRefs hr with ⟨t, ht, rfl⟩ | ⟨ex, hex, hnot, rfl⟩
  · unfold tasksForRefs at ht
    obtain ⟨ex, hex, hget⟩ := List.mem_filterMap.mp ht
    have hok := getTaskForRef_ok hget
    have hname : ex.name = (getTaskRef (lookupRef rj.status.tasks t.name) t).name := by
      rw [(getTaskRef_fields _ t).1, hok.1, hok.2]
    by_cases htf : t.ref.finishTimestamp.isSome = true
    · exact Or.inr (Or.inl ⟨ex, hex, t, hname, hget, htf⟩)
    · left
      -- the task reports no finish time: the timestamp was retained from the existing ref of that name
      cases hl : lookupRef rj.status.tasks t.name with
      | none =>
        rw [hl] at hfin
        have hnone : (getTaskRef none t).finishTimestamp = t.ref.finishTimestamp := by
          unfold getTaskRef; simp only; split <;> rfl
        rw [hnone] at hfin
        exact absurd hfin htf
      | some ex' =>
        have hmem : ex' ∈ rj.status.tasks ∧ ex'.name = t.name := by
          unfold lookupRef at hl
          have h1 := List.mem_of_find?_eq_some hl
          have h2 := List.find?_some hl
          exact ⟨List.mem_reverse.mp h1, by simpa using h2⟩
        refine ⟨ex', hmem.1, by rw [(getTaskRef_fields _ t).1, hok.1]; exact hmem.2, ?_⟩
        rw [hl] at hfin
        have hret := (Furiko.Props.C11.getTaskRef_retains ex' t).2.1
        rw [hret] at hfin
        simp only [htf, Bool.false_eq_true, ↓reduceIte] at hfin
        exact hfin
  · by_cases hexf : ex.finishTimestamp.isSome = true
    · exact Or.inl ⟨ex, hex, (lostRef_fields _ ex).1.symm, hexf⟩
    · refine Or.inr (Or.inr ⟨ex, hex, (lostRef_fields _ ex).1.symm, ?_⟩)
      cases hg : getTaskForRef s jo ex with
      | none => rfl
      | some t =>
        exfalso
        apply hnot
        have hok := getTaskForRef_ok hg
        refine List.mem_map.mpr ⟨t, ?_, hok.2⟩
        unfold tasksForRefs
        exact List.mem_filterMap.mpr ⟨ex, hex, hg⟩

example : ∃ r ∈ (updateJobTaskRefs Ex.sA.clock (Ex.cachedOf Ex.sA).job
    (tasksForRefs Ex.sA (Ex.cachedOf Ex.sA) (Ex.cachedOf Ex.sA).job.status.tasks)).status.tasks, r.finishTimestamp = none :=
  ⟨_, List.mem_cons_self, by decide +kernel⟩

/-! ### `created_stays_listed` (repair of F31)

C09: "every task the Job ever created stays listed in its status with its last known state even after the
task object is gone".  `refs_monotone` is about names that WERE recorded; this section is about getting
recorded.  Before the repair `Reconciler.SyncOne` called `UpdateJob` and then `UpdateJobStatus` with the
object it had read from the cache: whenever one pass changed both the metadata and the status, its status
write carried the resourceVersion its own `Update` had just made stale and was refused as a Conflict, with
no fault injected — a pass that created a task, marked the admission error (annotation) and swept the task
again lost the one status that listed it (F31).  Now `ExecutionControl.UpdateJobAndStatus` submits the
status on top of the object `Update` returned (`Model/JobCtl.lean`: `statusBase`, `updatedRv`). -/

/-- tie to the source (regenerated from the source on every run, section `jobctl-status-write` of
`harness/cmd/extract/jobctl_writes.go`): `Reconciler.SyncOne` issues its writes through one call
`w.client.UpdateJobAndStatus(ctx, rj, newRj)`, and that function passes the resourceVersion of the object
`updateJob` returned — the one `c.client.Jobs(…).Update` returned — to `UpdateJobStatus`
(`Model/JobCtl.syncOne`, `statusBase`).  Reverting the repair makes this theorem false. -/
theorem source_writes_status_on_updated_object : Facts.syncOneWritesStatusOnUpdatedObject = true := by decide

/-- the state `SyncOne` runs in when `work` has popped a key: key popped, call log reset -/
def passState (s : Sys) (q1 : Furiko.WQ.WQ) : Sys := { s with q := q1, calls := [], delRun := none }

theorem work_objects (s : Sys) (k : String) (q1 : Furiko.WQ.WQ) (hg : (s.q.advance s.clock).get = some (k, q1)) :
    (work s).1.job = (syncOne (passState s q1)).1.job ∧ (work s).1.pods = (syncOne (passState s q1)).1.pods := by
  unfold JobCtl.work
  simp only [hg]
  exact ⟨rfl, rfl⟩

/-- the two Job writes of `SyncOne` leave the pods alone -/
theorem syncOne_pods_eq (s : Sys) (jo : JobObj) (hc : s.jobCache = some jo) :
    (syncOne s).1.pods = (sync s jo).1.pods := by
  unfold syncOne
  simp only [hc]
  generalize sync s jo = r1
  obtain ⟨s1, newJob, newFin, syncOk, nullTime⟩ := r1
  simp only
  have h2 : (if (newJob.admissionError ≠ jo.job.admissionError || newFin ≠ jo.finalizer) = true then
        apiUpdateJob s1 jo { jo with job := newJob, finalizer := newFin } else (s1, true)).1.pods = s1.pods := by
    split
    · rw [apiUpdateJob_pods]
    · rfl
  generalize (if (newJob.admissionError ≠ jo.job.admissionError || newFin ≠ jo.finalizer) = true then
        apiUpdateJob s1 jo { jo with job := newJob, finalizer := newFin } else (s1, true)) = r2 at h2 ⊢
  obtain ⟨s2, ok1⟩ := r2
  simp only at h2 ⊢
  cases ok1 with
  | false => simp only [Bool.not_false, ↓reduceIte]; exact h2
  | true =>
    simp only [Bool.not_true, Bool.false_eq_true, ↓reduceIte]
    have h3 : (if (decide (newJob.status ≠ jo.job.status) || nullTime) = true then
        apiUpdateJobStatus s2 (statusBase s2 jo (newJob.admissionError ≠ jo.job.admissionError || newFin ≠ jo.finalizer))
          { jo with job := newJob } else (s2, true)).1.pods = s1.pods := by
      split
      · rw [apiUpdateJobStatus_pods]; exact h2
      · exact h2
    generalize (if (decide (newJob.status ≠ jo.job.status) || nullTime) = true then
        apiUpdateJobStatus s2 (statusBase s2 jo (newJob.admissionError ≠ jo.job.admissionError || newFin ≠ jo.finalizer))
          { jo with job := newJob } else (s2, true)) = r3 at h3 ⊢
    obtain ⟨s3, ok2⟩ := r3
    simp only at h3 ⊢
    cases ok2 <;> exact h3

/-- **`created_stays_listed`** (every reachable state, ALL actions allowed; pass level).  A controller pass
(`work` popping a key, cached Job `jo`) such that
* `Reconciler.sync` returns without error (`hok`),
* no fault is injected into the two writes that follow (`hnf`: the fault oracle is empty when `sync` is
  done — whatever faults hit the calls of `sync` itself), and
* the cached Job is up to date when the pass comes to write (`hcur`: the stored object carries the
  resourceVersion of the cached one — no concurrent writer, no TTL deletion in this pass)
leaves — unless it completed the deletion of the Job (finalizer dropped: the object is gone) — an
authoritative Job that carries EXACTLY THE STATUS AND THE ADMISSION-ERROR ANNOTATION `sync` computed,
also when both changed in this pass, and in which every pod of the server is accounted for: **every pod
name on the server after the pass either was there before the pass or is listed in `status.tasks`**, i.e.
every pod the pass created is recorded by the pass itself — in particular the pod that the same pass
swept again because another index ran into an admission error (F31; graceful deletion keeps the object,
its removal is a step of its own).  Before the repair the conclusion failed for every pass that changed
both metadata and status (`C09Side.created_task_listed_regression` is the former counterexample).
Not claimed: a pass whose `sync` fails midway (a later create answered `AlreadyExists` for a pod the pod
cache does not hold yet, a faulted call) records nothing; the pod it created is then re-discovered by name
(`unrecorded_pod_never_duplicated`, `C09.adopt_not_duplicate`). -/
theorem created_stays_listed {ok : Sys → Action → Prop} {j0 : JobObj} {s : Sys} (hr : Reach ok j0 s)
    (k : String) (q1 : Furiko.WQ.WQ) (hg : (s.q.advance s.clock).get = some (k, q1)) (jo : JobObj) (hc : s.jobCache = some jo)
    (hok : (sync (passState s q1) jo).2.2.2.1 = true)
    (hnf : (sync (passState s q1) jo).1.faults = [])
    (hcur : ∃ cur, (sync (passState s q1) jo).1.job = some cur ∧ cur.rv = jo.rv) :
    ((work s).1.job = none ∧ jo.job.deletionTimestamp.isSome = true) ∨
    ∃ j', (work s).1.job = some j' ∧
      j'.job.status = (sync (passState s q1) jo).2.1.status ∧
      j'.job.admissionError = (sync (passState s q1) jo).2.1.admissionError ∧
      ∀ n ∈ podNames (work s).1.pods, n ∈ podNames s.pods ∨ n ∈ refNames j'.job := by
  have hb : Base j0 (passState s q1) :=
    (base_of_reach hr).frame ⟨⟨rfl, rfl, rfl, rfl, rfl⟩, rfl, rfl, rfl, rfl, rfl⟩
  have hcp : (passState s q1).jobCache = some jo := hc
  obtain ⟨cur, hcj, hrv⟩ := hcur
  have hcur' : (sync (passState s q1) jo).1.job = some jo := by
    rw [hcj, cachedIsCur_sync hb hcp cur hcj hrv]
  obtain ⟨hwj, hwp⟩ := work_objects s k q1 hg
  have hlist := sync_lists_created (passState s q1) jo hok
  rcases syncOne_writes (passState s q1) jo hcp hnf hcur' with ⟨hgone, hdel, _⟩ | ⟨_, j', hj', hst, hadm, _⟩
  · exact Or.inl ⟨hwj.trans hgone, hdel⟩
  · refine Or.inr ⟨j', hwj.trans hj', hst, hadm, ?_⟩
    intro n hn
    rw [hwp, syncOne_pods_eq _ jo hcp] at hn
    rcases hlist n hn with h | h
    · exact Or.inl h
    · right
      unfold refNames at h ⊢
      rw [hst]; exact h

/-- **… and stays listed** (history level): after such a pass, along every continuation of the history —
any actions, any faults, restarts, the pod object vanishing — every pod name that was on the server
right after the pass and had not been there before it is listed in `status.tasks` of the authoritative
Job for as long as the Job object exists (`created_stays_listed` + `refs_monotone`). -/
theorem created_stays_listed_later {ok : Sys → Action → Prop} {j0 : JobObj} {s s' : Sys} (hr : Reach ok j0 s)
    (hokw : ok s .work)
    (k : String) (q1 : Furiko.WQ.WQ) (hg : (s.q.advance s.clock).get = some (k, q1)) (jo : JobObj) (hc : s.jobCache = some jo)
    (hok : (sync (passState s q1) jo).2.2.2.1 = true)
    (hnf : (sync (passState s q1) jo).1.faults = [])
    (hcur : ∃ cur, (sync (passState s q1) jo).1.job = some cur ∧ cur.rv = jo.rv)
    (hs : Steps ok j0 (step s .work) s') (j'' : JobObj) (hj'' : s'.job = some j'') :
    ∀ n ∈ podNames (step s .work).pods, n ∈ podNames s.pods ∨ n ∈ refNames j''.job := by
  have hr1 : Reach ok j0 (step s .work) := .step .work hr hokw trivial
  rcases created_stays_listed hr k q1 hg jo hc hok hnf hcur with ⟨hgone, _⟩ | ⟨j', hj', _, _, hl⟩
  · -- the Job object is gone, and never reappears
    exfalso
    have hnone : ∀ {t : Sys}, Steps ok j0 (step s .work) t → t.job = none := by
      intro t ht
      induction ht with
      | refl => exact hgone
      | step a hs' _ hal ih => exact step_job_none (hr1.steps hs') a hal ih
    rw [hnone hs] at hj''; cases hj''
  · intro n hn
    rcases hl n hn with h | h
    · exact Or.inl h
    · exact Or.inr (refs_monotone hr1 hs j' j'' hj' hj'' n h)

/-- non-vacuity: the first pass of the example history creates `job-h-0` — the premises hold, the name is
new, and it is listed after the pass -/
example :
    (match ((step Ex.s0 .deliverJob).q.advance (step Ex.s0 .deliverJob).clock).get with
      | some (_, q1) =>
        decide ((sync (passState (step Ex.s0 .deliverJob) q1) (Ex.cachedOf (step Ex.s0 .deliverJob))).2.2.2.1 = true) &&
        decide ((sync (passState (step Ex.s0 .deliverJob) q1) (Ex.cachedOf (step Ex.s0 .deliverJob))).1.faults = []) &&
        decide (((sync (passState (step Ex.s0 .deliverJob) q1) (Ex.cachedOf (step Ex.s0 .deliverJob))).1.job.map (·.rv)) =
          some (Ex.cachedOf (step Ex.s0 .deliverJob)).rv)
      | none => false) = true ∧
    (step Ex.s0 .deliverJob).jobCache = some (Ex.cachedOf (step Ex.s0 .deliverJob)) ∧
    podNames (step Ex.s0 .deliverJob).pods = [] ∧
    podNames (step (step Ex.s0 .deliverJob) .work).pods = ["job-h-0"] ∧
    (step (step Ex.s0 .deliverJob) .work).job.map (fun j => refNames j.job) = some ["job-h-0"] :=
  ⟨by decide +kernel, by decide +kernel, by decide +kernel, by decide +kernel, by decide +kernel⟩


end Furiko.Props.C09Hist
