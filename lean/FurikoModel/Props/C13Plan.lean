/-
C13 — plan level: "A Job disappears only after its tasks are gone": what the finalizer step of a
reconcile pass does (`finalizer_sweeps_then_waits`), and that a Job being deleted gets nothing
else.  Theorems over `Model/JobCtl.lean` for ALL states, Jobs and faults.  Vocabulary as in
`Props/C12Plan.lean`; `tasksForRefs s refs` = the tasks of the status found by `getTaskForRef`: the
cached pod, or a live GET when the cache misses an unfinished ref or is staler than the ref.
-/
import FurikoModel.Proofs.JobCtlPlanPass

namespace Furiko.Props.C13Plan
open Furiko Furiko.JobCtl Furiko.JobCtlPlan Furiko.WQ

-- ---------------------------------------------------------------- data of the examples

private def sec (n : Int) : Int := n * 1000000000
private def brief (c : Call) : String × String × String × String × Bool := (c.verb, c.res, c.name, c.out, c.force)

private def pod : PodObj :=
  { pod := { name := "job-d-0", creationTimestamp := some (sec 1), phase := .running, retryIndex := some 0,
             startTime := some (sec 1), containers := [{ running := some (some (sec 2)) }] },
    ownerUid := some "u", ownerName := some "job", jobLabel := some "u" }

/-- a running Job deleted by the user at 90 s -/
private def deletedJob : Job :=
  { template := some {}, deletionTimestamp := some (sec 90),
    status := { startTime := some (sec 1), tasks := [{ name := "job-d-0", creationTimestamp := some (sec 1),
                                                       runningTimestamp := some (sec 2) }] } }

/-- `finalizer_sweeps_then_waits`.  For a Job with deletion timestamp that carries the
delete-dependents finalizer, with `finalizerTasks s jo rj` = the tasks of the status that were
FOUND (`getTaskForRef`: cache or live GET, absence confirmed by a live GET) followed by the
UNRECORDED tasks of the Job in the pod cache (repair of F-C20-1; `finalizerTasks_mem`):
* every call the finalizer step appends is a graceful pod delete of one of these tasks;
* if there is any, each of them gets its delete call (unless its deletion timestamp is already
  set and earlier than the clock), and the finalizer is KEPT in every successful result; with no
  fault pending the step succeeds;
* only if there is none the step issues no call and DROPS the finalizer.
For a Job without deletion timestamp, or without the finalizer, the step does nothing. -/
theorem finalizer_sweeps_then_waits (s : Sys) (jo : JobObj) (rj : Job) (fz : Bool) :
    (∀ c ∈ newCalls s (handleFinalizer s jo rj fz).1,
      c.verb = "delete" ∧ c.res = "pods" ∧ c.force = false ∧ rj.deletionTimestamp.isSome = true ∧ fz = true ∧
      ∃ t ∈ finalizerTasks s jo rj, t.name = c.name) ∧
    ((rj.deletionTimestamp = none ∨ fz = false) → handleFinalizer s jo rj fz = (s, some (rj, fz))) ∧
    (rj.deletionTimestamp.isSome = true → fz = true →
      (finalizerTasks s jo rj ≠ [] →
        (∀ t ∈ finalizerTasks s jo rj, (∀ ts, t.deletionTimestamp = some ts → ¬ ts < s.clock) →
          ∃ c ∈ newCalls s (handleFinalizer s jo rj fz).1, c.verb = "delete" ∧ c.res = "pods" ∧ c.name = t.name) ∧
        (∀ rj' f', (handleFinalizer s jo rj fz).2 = some (rj', f') → f' = true) ∧
        (NoFault s → ∃ rj', (handleFinalizer s jo rj fz).2 = some (rj', true))) ∧
      (finalizerTasks s jo rj = [] →
        newCalls s (handleFinalizer s jo rj fz).1 = [] ∧ ∃ rj', (handleFinalizer s jo rj fz).2 = some (rj', false))) := by
  obtain ⟨l, e, hall, hoff, hon⟩ := handleFinalizer_ext s jo rj fz
  rw [e.newCalls]
  refine ⟨?_, hoff, ?_⟩
  · intro c hc
    obtain ⟨hv, hr, hf, hd, hz, t, ht, hn, _⟩ := hall c hc
    exact ⟨hv, hr, hf, hd, hz, t, ht, hn⟩
  · intro hd hz
    obtain ⟨hfound, hnone⟩ := hon hd hz
    refine ⟨fun hne => ?_, hnone⟩
    obtain ⟨hcov, hkeep, hnf⟩ := hfound hne
    refine ⟨?_, hkeep, hnf⟩
    intro t ht hw
    obtain ⟨c, hc, hn⟩ := hcov t ht (Or.inr hw)
    exact ⟨c, hc, (hall c hc).1, (hall c hc).2.1, hn⟩

/-- what `finalizerTasks` consists of: a task of the status that could still be found, or the task
of a cached pod labelled with and controlled by the Job that is neither found nor recorded -/
theorem finalizerTasks_mem (s : Sys) (jo : JobObj) (rj : Job) (t : Task) :
    t ∈ finalizerTasks s jo rj ↔
      t ∈ tasksForRefsConfirmed s jo rj.status.tasks ∨
      ∃ p ∈ s.podCache, podTask s.clock p = some t ∧ p.jobLabel = some jo.uid ∧ p.ownerUid = some jo.uid ∧
        (∀ t' ∈ tasksForRefsConfirmed s jo rj.status.tasks, t'.name ≠ p.pod.name) ∧
        (∀ r ∈ rj.status.tasks, r.name ≠ p.pod.name) :=
  mem_finalizerTasks s jo rj t

/-- `unrecorded_task_swept`: a pod of the pod cache that the Job created but never recorded
(labelled with and controlled by the Job, named by no task of the status) and that is not being
deleted yet gets a graceful delete call from the finalizer step of a deleted Job, whatever the
faults, and the finalizer is kept. -/
theorem unrecorded_task_swept (s : Sys) (jo : JobObj) (rj : Job) (p : PodObj) (t : Task)
    (hd : rj.deletionTimestamp.isSome = true) (hp : p ∈ s.podCache) (ht : podTask s.clock p = some t)
    (hl : p.jobLabel = some jo.uid) (ho : p.ownerUid = some jo.uid)
    (hu : ∀ r ∈ rj.status.tasks, r.name ≠ p.pod.name) (hnd : t.deletionTimestamp = none) :
    (∃ c ∈ newCalls s (handleFinalizer s jo rj true).1, c.verb = "delete" ∧ c.res = "pods" ∧ c.force = false ∧ c.name = t.name) ∧
    (∀ rj' f', (handleFinalizer s jo rj true).2 = some (rj', f') → f' = true) := by
  have hmem : t ∈ finalizerTasks s jo rj := by
    by_cases hf : t ∈ tasksForRefsConfirmed s jo rj.status.tasks
    · exact (mem_finalizerTasks s jo rj t).mpr (Or.inl hf)
    · by_cases hn : ∀ t' ∈ tasksForRefsConfirmed s jo rj.status.tasks, t'.name ≠ p.pod.name
      · exact (mem_finalizerTasks s jo rj t).mpr (Or.inr ⟨p, hp, ht, hl, ho, hn, hu⟩)
      · -- a found task carries the name of a ref of the status, which `p` is not named after
        exfalso
        obtain ⟨t', hn⟩ := Classical.not_forall.mp hn
        obtain ⟨ht', hn'⟩ := Classical.not_imp.mp hn
        have hn' : t'.name = p.pod.name := Classical.not_not.mp hn'
        obtain ⟨r, hr, hname⟩ := tasksForRefsConfirmed_name ht'
        exact hu r hr (hname ▸ hn')
  have hne : finalizerTasks s jo rj ≠ [] := by intro h; rw [h] at hmem; cases hmem
  obtain ⟨hall, _, hon⟩ := finalizer_sweeps_then_waits s jo rj true
  obtain ⟨hcov, hkeep, _⟩ := (hon hd rfl).1 hne
  refine ⟨?_, hkeep⟩
  obtain ⟨c, hc, hv, hr, hn⟩ := hcov t hmem (by intro ts h; rw [hnd] at h; cases h)
  exact ⟨c, hc, hv, hr, (hall c hc).2.2.1, hn⟩

/-- `finalizer_sweeps_then_waits`: while the pod exists it is deleted gracefully and the finalizer
is kept; once it is gone (neither cached nor on the server) the finalizer is dropped. -/
example :
    let s : Sys := { clock := sec 100, d := { hash := "d" }, pods := [pod], podCache := [pod] }
    let gone : Sys := { clock := sec 100, d := { hash := "d" } }
    let jo : JobObj := ⟨"job", "u", deletedJob, true, 1⟩
    (newCalls s (handleFinalizer s jo deletedJob true).1).map brief = [("delete", "pods", "job-d-0", "ok", false)] ∧
    (handleFinalizer s jo deletedJob true).2.map (·.2) = some true ∧
    newCalls gone (handleFinalizer gone jo deletedJob true).1 = [] ∧
    (handleFinalizer gone jo deletedJob true).2.map (·.2) = some false := by
  decide

/-- `unrecorded_task_swept`: the deleted Job's status lists nothing, the pod cache holds the pod it
created (the recording status update failed): the finalizer step deletes it and keeps the
finalizer; once the pod is gone the finalizer is dropped. -/
example :
    let rj : Job := { deletedJob with status := { startTime := some (sec 1) } }
    let p : PodObj := { pod with pod := { pod.pod with phase := .pending, startTime := none, containers := [] } }
    let s : Sys := { clock := sec 100, d := { hash := "d" }, pods := [p], podCache := [p] }
    let jo : JobObj := ⟨"job", "u", rj, true, 1⟩
    (podTask s.clock p).isSome = true ∧ rj.status.tasks = [] ∧
    (newCalls s (handleFinalizer s jo rj true).1).map brief = [("delete", "pods", "job-d-0", "ok", false)] ∧
    (handleFinalizer s jo rj true).2.map (·.2) = some true ∧
    (handleFinalizer { s with pods := [], podCache := [] } jo rj true).2.map (·.2) = some false := by
  decide

/-- A Job that is being deleted gets no task handling at all (Appendix A item 7): every call of a
`sync` pass on it is a graceful pod delete issued by the finalizer step — no create, no forced
delete, no Job delete. -/
theorem deleting_job_only_finalizer_deletes (s : Sys) (jo : JobObj) (hdel : isDeleted jo.job = true) :
    ∀ c ∈ newCalls s (sync s jo).1, c.verb = "delete" ∧ c.res = "pods" ∧ c.force = false ∧ jo.finalizer = true := by
  intro c hc
  cases (sync_origin s jo).2 c hc with
  | tasks _ h _ => rw [hdel] at h; cases h
  | ttl s' rj' l _ hle h =>
    obtain ⟨l', e, _, _, hall⟩ := handleTTL_ext s' jo rj'
    rw [e.newCalls] at h
    have hnd := (hall c h).2.2.2.1
    unfold isDeleted at hnd hdel
    rw [hle.deletionTimestamp, hdel] at hnd
    cases hnd
  | finalizer s' rj' l _ _ h =>
    obtain ⟨l', e, hall, _⟩ := handleFinalizer_ext s' jo rj' jo.finalizer
    rw [e.newCalls] at h
    obtain ⟨hv, hr, hf, _, hz, _⟩ := hall c h
    exact ⟨hv, hr, hf, hz⟩

/-- `deleting_job_only_finalizer_deletes`: the whole pass on the deleted Job issues only that. -/
example :
    let s : Sys := { clock := sec 100, d := { hash := "d" }, pods := [pod], podCache := [pod] }
    (newCalls s (sync s ⟨"job", "u", deletedJob, true, 1⟩).1).map brief = [("delete", "pods", "job-d-0", "ok", false)] := by
  decide

end Furiko.Props.C13Plan
