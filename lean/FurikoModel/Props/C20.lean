/-
C20 — "Transient API failures and conflicts delay work but never lose or corrupt it: for any
finite pattern of failed, conflicting or timed-out API calls, once calls succeed again the system
converges to the same observable outcome it would have reached without the failures …, and none of
the safety guarantees above is violated along the way."

What is proved here (all over executable models tied to the Go code by the `retry`, `system`,
`cronrec`, `queue`, `jobctl` engines):

* `retry_until_success`, `retry_success_forgets`, `retry_run_converges`, `retry_clock_bound`:
  the retry loop `reconciler.Controller.work/syncItem` (Model/Retry.lean) never drops a key whose
  sync failed (every `MaxRequeues()` in /repo is ≤ 0: `all_reconcilers_retry_forever`, a
  regenerated fact), and for every finite fault list followed by successes every key is synced
  successfully within an explicit number of steps and an explicit amount of virtual time.
* `convergence_schema`, `convergence_same_outcome`, `convergence_not_applied`: an abstract
  theorem for level-triggered reconcilers under that retry loop; instantiated completely for the
  cron reconciler (`cron_converges`: idempotent create of the Job of (JobConfig, schedule time))
  and partially for the job-queue per-config pass (`queue_convergence_partial`).
* `safety_under_faults_*`: the fault-quantified safety theorems of C02, C05, C06, C09 restated
  under C20's name.

What is NOT proved: convergence of the COMPOSED system (feedback through informer events and
status writes between the four controllers).  It is explored differentially by the `system`
engine (fault-free run versus faulty runs of the same workload).
-/
import FurikoModel.Proofs.RetryLemmas
import FurikoModel.Props.C02
import FurikoModel.Props.C05
import FurikoModel.Props.C06
import FurikoModel.Props.C09

set_option linter.unusedVariables false
set_option linter.unusedSimpArgs false

namespace Furiko.Props.C20
open Furiko Furiko.WQ Furiko.Retry

/-! ## 1. The retry loop never drops failed work -/

/-- regenerated fact: every reconciler of /repo returns a non-positive `MaxRequeues()`, i.e. asks
for unlimited rate-limited retries -/
theorem all_reconcilers_retry_forever : ∀ p ∈ Facts.maxRequeues, p.2 ≤ 0 := by decide

/-- … including every `MaxRequeues()` method found anywhere under pkg/ (so that a reconciler added
later is not missed), and `syncItem`/`work` still have the shape the model mirrors -/
theorem retry_shape_recognised :
    (∀ p ∈ Facts.allMaxRequeues, p.2 ≤ 0) ∧ Facts.allMaxRequeues.length = Facts.maxRequeues.length ∧
    Facts.retryRequeueGuard = "w.handler.MaxRequeues() <= 0 || w.queue.NumRequeues(key) < w.handler.MaxRequeues()" ∧
    Facts.retryWorkShape = ["get", "defer-done", "sync", "on-error-return", "forget"] := by decide

/-- **retry_until_success** (one step).  For every queue state whose ready list starts with a
splittable key `k`, every oracle result `r` that reports a failed sync (whatever the handler did
to the queue during the sync) and every retry budget `≤ 0` — in particular every budget in
`Facts.maxRequeues` — after `work` the key has a deadline (it is never dropped) and its requeue
counter has grown by one. -/
theorem retry_until_success (q : WQ) (k : String) (rest : List String) (hq : q.queue = k :: rest)
    (mr now : Int) (r : SyncResult) (hs : splitOk k = true) (hf : r.ok = false) (hmr : mr ≤ 0) :
    k ∈ delayedKeys (work q mr now r) ∧
    numRequeues (work q mr now r).requeues k = numRequeues q.requeues k + 1 :=
  work_fail_delayed hq mr now r hs hf hmr

/-- the same for every reconciler of /repo by name -/
theorem retry_until_success_repo (name : String) (mr : Int) (hm : (name, mr) ∈ Facts.maxRequeues)
    (q : WQ) (k : String) (rest : List String) (hq : q.queue = k :: rest) (now : Int) (r : SyncResult)
    (hs : splitOk k = true) (hf : r.ok = false) : k ∈ delayedKeys (work q mr now r) :=
  (work_fail_delayed hq mr now r hs hf (all_reconcilers_retry_forever _ hm)).1

/-- after a succeeding sync the requeue counter of the key is 0 (`Forget`) -/
theorem retry_success_forgets (q : WQ) (k : String) (rest : List String) (hq : q.queue = k :: rest)
    (mr now : Int) (r : SyncResult) (hs : splitOk k = true) (hok : r.ok = true) :
    numRequeues (work q mr now r).requeues k = 0 :=
  work_ok_forgets hq mr now r hs hok

/-- a key that `cache.SplitMetaNamespaceKey` rejects is neither retried nor forgotten (the error is
returned before `AddRateLimited`): the documented hole of the loop; no controller of /repo produces
such keys (C02 `split_join_namespaced`) -/
theorem unsplittable_key_not_retried (q : WQ) (k : String) (rest : List String) (hq : q.queue = k :: rest)
    (mr now : Int) (r : SyncResult) (hs : splitOk k = false) :
    (work q mr now r).delayed = q.delayed ∧ (work q mr now r).requeues = q.requeues :=
  work_unsplittable hq mr now r hs

/-- with a positive budget (not used in /repo) the key is re-queued exactly while its counter is
below the budget — the complement that makes the `≤ 0` hypothesis above necessary -/
theorem bounded_budget_gives_up (q : WQ) (k : String) (rest : List String) (hq : q.queue = k :: rest)
    (mr now : Int) (hs : splitOk k = true) (hmr : 0 < mr) (hn : mr ≤ numRequeues q.requeues k) :
    (work q mr now { ok := false }).delayed = q.delayed := by
  rw [work_fail_bounded hq mr now _ hs rfl hmr rfl]
  have : ¬ (numRequeues q.requeues k : Int) < mr := by omega
  simp [this]

/-- non-vacuity of the three step theorems on one queue: a success forgets (counter 3 ↦ 0), a key
with two slashes is silently dropped, a budget of 3 gives up at counter 3 -/
example :
    let q : WQ := { queue := ["ns/a"], dirty := ["ns/a"], requeues := [("ns/a", 3)] }
    numRequeues (work q (-1) 0 { ok := true }).requeues "ns/a" = 0 ∧
    (work q 3 0 { ok := false }).delayed = [] ∧ (work q 4 0 { ok := false }).delayed ≠ [] ∧
    splitOk "x/y/z" = false ∧
    (work { queue := ["x/y/z"], dirty := ["x/y/z"] } (-1) 0 { ok := false }).delayed = [] := by decide

example : ∃ q k rest, q.queue = k :: rest ∧ splitOk k = true ∧
    delayedKeys (work q (-1) 1000 { ok := false }) = ["ns/a"] ∧
    (work q (-1) 1000 { ok := false }).queue = ["ns/b"] :=
  ⟨{ queue := ["ns/a", "ns/b"], dirty := ["ns/a", "ns/b"] }, "ns/a", ["ns/b"], rfl, by decide, by decide, by decide⟩

/-- **fuel_suffices / retry_run_converges**.  Runs: for every well-formed queue state (nothing in
flight) whose keys are splittable, every FINITE oracle list (`false` = the sync fails) followed by
successes, and a retry budget `≤ 0`: after `measure = 2·#faults + #ready + 2·#delayed` driver steps
(each step processes the head of the ready list, or — when nothing is ready — moves the clock to
the earliest deadline) the queue is empty and every key that was ready or delayed at the beginning
has been synced successfully. -/
theorem retry_run_converges (mr : Int) (hmr : mr ≤ 0) (s : Run) (h : RunOK s) (n : Nat)
    (hn : s.measure ≤ n) :
    (Run.drain mr n s).q.queue = [] ∧ (Run.drain mr n s).q.delayed = [] ∧
    ∀ k, (k ∈ s.q.queue ∨ k ∈ delayedKeys s.q) → k ∈ (Run.drain mr n s).synced := by
  obtain ⟨hq, hp⟩ := fuel_suffices' mr hmr n s h hn
  exact ⟨hq.1, hq.2, fun k hk => hp k (by rcases hk with hk | hk; exact Or.inl hk; exact Or.inr (Or.inl hk))⟩

theorem fuel_suffices (mr : Int) (hmr : mr ≤ 0) (s : Run) (h : RunOK s) :
    (Run.drain mr s.measure s).quiet := (fuel_suffices' mr hmr s.measure s h (Nat.le_refl _)).1

/-- **clock bound** = sum of (maximal) back-offs: if the clock and all deadlines are at most `U` at
the beginning, then at any point of the run the clock and all deadlines are at most
`U + 320 ms · #faults` (320 ms is the saturated back-off `5 ms · 2^6` of the rate limiter). -/
theorem retry_clock_bound (mr : Int) (s : Run) (h : WF s.q) (U : Int) (hnow : s.now ≤ U)
    (hdl : ∀ p ∈ s.q.delayed, p.2 ≤ U) (n : Nat) :
    (Run.drain mr n s).now ≤ U + 320000000 * (falses s.oracle : Int) :=
  (drain_bnd mr n s U h ⟨hnow, hdl⟩).1

/-- non-vacuity: one key, two faults; the run needs all of its fuel (the bound is tight), the clock
ends at 5 ms + 10 ms -/
def demoRun : Run := { q := { queue := ["ns/a"], dirty := ["ns/a"] }, now := 0, oracle := [false, false] }

example : RunOK demoRun ∧ demoRun.measure = 5 ∧
    (Run.drain (-1) 5 demoRun).synced = ["ns/a"] ∧ (Run.drain (-1) 5 demoRun).q.delayed = [] ∧
    (Run.drain (-1) 4 demoRun).q.queue ≠ [] ∧ (Run.drain (-1) 5 demoRun).now = 15000000 := by
  refine ⟨⟨⟨rfl, by decide, by decide⟩, by decide, by decide⟩, by decide, by decide, by decide, by decide, by decide⟩

/-- the clock bound on the demo run: 15 ms ≤ 0 + 2 · 320 ms -/
example : (Run.drain (-1) 5 demoRun).now ≤ 0 + 320000000 * (falses demoRun.oracle : Int) := by decide

/-- two keys, three faults interleaved with a success -/
example : (Run.drain (-1) 8 ⟨{ queue := ["ns/a", "ns/b"], dirty := ["ns/a", "ns/b"] }, 0,
    [false, false, true, false], []⟩).synced = ["ns/b", "ns/a"] := by decide

/-! ## 2. Convergence of a level-triggered reconciler under the retry loop (abstract) -/

section Schema
variable {S : Type}

/-- the retry loop around one key: run `sync` with the next fault flag (`true` = an API call of this
pass fails; beyond the finite list no call fails) until it returns ok (then `Forget`, the key
leaves the queue; `retry_until_success` is what guarantees the next iteration otherwise) -/
def runLoop (sync : S → Bool → S × Bool) : Nat → List Bool → S → S × Bool
  | 0, _, s => (s, false)
  | n + 1, fs, s =>
    let r := sync s (fs.headD false)
    if r.2 then (r.1, true) else runLoop sync n fs.tail r.1

/-- hypotheses on a level-triggered reconciler -/
structure LevelTriggered (sync : S → Bool → S × Bool) (Inv Fix : S → Prop) : Prop where
  /-- (H1) a faulted pass may leave the state unchanged or move it forward, but inside `Inv` … -/
  fault_inv : ∀ s, Inv s → Inv (sync s true).1
  /-- … and if it nevertheless reports success, the state is already at the fixpoint -/
  fault_ok_fix : ∀ s, Inv s → (sync s true).2 = true → Fix (sync s true).1
  /-- (H2) a fault-free pass from any `Inv` state reports success and reaches the fixpoint … -/
  quiet_ok : ∀ s, Inv s → (sync s false).2 = true ∧ Fix (sync s false).1
  /-- … where a further fault-free pass is the identity -/
  fix_id : ∀ s, Fix s → sync s false = (s, true)

/-- **convergence_schema**: for every finite fault pattern followed by fault-free passes, the run
driven by the retry loop ends with a successful pass in a fixpoint state, after at most
`#faults + 1` passes. -/
theorem convergence_schema {sync : S → Bool → S × Bool} {Inv Fix : S → Prop}
    (H : LevelTriggered sync Inv Fix) (fs : List Bool) (s : S) (hs : Inv s) :
    (runLoop sync (fs.length + 1) fs s).2 = true ∧ Fix (runLoop sync (fs.length + 1) fs s).1 := by
  induction fs generalizing s with
  | nil =>
    obtain ⟨h1, h2⟩ := H.quiet_ok s hs
    simp only [runLoop, List.length_nil, List.headD_nil, h1, if_true]
    exact ⟨trivial, h2⟩
  | cons f fs ih =>
    simp only [runLoop, List.length_cons, List.headD_cons, List.tail_cons]
    cases f with
    | false =>
      obtain ⟨h1, h2⟩ := H.quiet_ok s hs
      simp only [h1, if_true]
      exact ⟨trivial, h2⟩
    | true =>
      by_cases hok : (sync s true).2 = true
      · simp only [hok, if_true]
        exact ⟨trivial, H.fault_ok_fix s hs hok⟩
      · simp only [hok, if_false]
        exact ih _ (H.fault_inv s hs)

/-- the level (the input the reconciler reacts to) is not changed by the reconciler itself -/
theorem level_preserved {L : Type} {sync : S → Bool → S × Bool} {Inv Fix : S → Prop}
    (H : LevelTriggered sync Inv Fix) (level : S → L)
    (hlevel : ∀ s f, Inv s → level (sync s f).1 = level s) (n : Nat) (fs : List Bool) (s : S) (hs : Inv s) :
    level (runLoop sync n fs s).1 = level s := by
  induction n generalizing fs s with
  | zero => rfl
  | succ n ih =>
    simp only [runLoop]
    split
    · exact hlevel s _ hs
    · rename_i hnok
      cases hf : fs.headD false with
      | false =>
        rw [hf] at hnok
        exact absurd (H.quiet_ok s hs).1 hnok
      | true =>
        rw [ih fs.tail _ (H.fault_inv s hs)]
        exact hlevel s _ hs

/-- **same outcome**: when the observable part of a fixpoint is determined by the level input, the
faulty run ends with the same observable outcome as the run without faults. -/
theorem convergence_same_outcome {L O : Type} {sync : S → Bool → S × Bool} {Inv Fix : S → Prop}
    (H : LevelTriggered sync Inv Fix) (level : S → L) (obs : S → O)
    (hlevel : ∀ s f, Inv s → level (sync s f).1 = level s)
    (hdet : ∀ s s', Fix s → Fix s' → level s = level s' → obs s = obs s')
    (fs : List Bool) (s : S) (hs : Inv s) :
    obs (runLoop sync (fs.length + 1) fs s).1 = obs (runLoop sync 1 [] s).1 := by
  apply hdet
  · exact (convergence_schema H fs s hs).2
  · exact (convergence_schema H [] s hs).2
  · rw [level_preserved H level hlevel _ fs s hs, level_preserved H level hlevel _ [] s hs]

/-- the `E-ErrNotApplied` special case: if a faulted pass leaves the state as it was, the faulty run
ends in exactly the state of the single fault-free pass.  (Instance of `convergence_same_outcome`
with "what a fault-free pass would produce" as the level.) -/
theorem convergence_not_applied {sync : S → Bool → S × Bool} {Inv Fix : S → Prop}
    (H : LevelTriggered sync Inv Fix) (hnoop : ∀ s, Inv s → (sync s true).1 = s)
    (fs : List Bool) (s : S) (hs : Inv s) :
    (runLoop sync (fs.length + 1) fs s).1 = (sync s false).1 := by
  have h := convergence_same_outcome H (fun s => (sync s false).1) id
    (by
      intro s f hs
      cases f with
      | true => simp only [hnoop s hs]
      | false => rw [H.fix_id _ (H.quiet_ok s hs).2])
    (by
      intro s s' h1 h2 he
      simp only [H.fix_id s h1, H.fix_id s' h2] at he
      exact he)
    fs s hs
  simp only [id] at h
  rw [h]
  simp only [runLoop, List.headD_nil, (H.quiet_ok s hs).1, if_true]

end Schema

/-- a satisfiable instance of the schema that is not a no-op under faults: a counter that must reach
a target; a faulted pass makes half a step (moves forward inside the invariant), a fault-free pass
jumps to the target -/
def toySync (target : Nat) (s : Nat) (fault : Bool) : Nat × Bool :=
  if s = target then (s, true)
  else if fault then (if s + 1 < target then s + 1 else s, false) else (target, true)

theorem toy_level_triggered (target : Nat) :
    LevelTriggered (toySync target) (fun s => s ≤ target) (fun s => s = target) := by
  refine ⟨?_, ?_, ?_, ?_⟩
  · intro s hs
    simp only [toySync]
    by_cases h : s = target
    · simp [h]
    · simp only [h, if_false, if_true]
      split <;> omega
  · intro s hs hok
    simp only [toySync] at hok ⊢
    by_cases h : s = target
    · simp [h]
    · simp [h] at hok
  · intro s hs
    simp only [toySync]
    by_cases h : s = target
    · simp [h]
    · simp [h]
  · intro s hs
    simp [toySync, hs]

example : (runLoop (toySync 5) 4 [true, true, true] 0) = (5, true) := by decide

/-! ## 3. Instance: the cron reconciler (idempotent create of the Job of (JobConfig, time)) -/

open Furiko.CronRec Furiko.Str in
/-- the environment of one work item of the cron reconciler: clock reading, JobConfig lister,
store count, `MaxEnqueuedJobs`, and the (namespace, name) the queue key was split into -/
structure CronEnv where
  now    : Int
  lookup : Str → Str → Option CronRec.JobConfig
  active : CronRec.JobConfig → Int
  mx     : Option Int
  ns     : Str
  name   : Str

open Furiko.CronRec in
/-- one pass of `croncontroller.Reconciler.SyncOne` against the server's Job collection, with a
Job lister that has caught up with the server; `fault = true`: the create call (if one is issued)
fails without effect (server error, conflict or timeout: E-ErrNotApplied) -/
def cronSync (e : CronEnv) (api : Api) (fault : Bool) : Api × Bool :=
  let o := syncOne e.now api e.lookup e.active e.mx (fun ns n => api.has ns n) (if fault then .err else .none) e.ns e.name
  (o.api, decide (o.result = .ok))

open Furiko.CronRec in
theorem cronSync_cases (e : CronEnv) (api : Api) (cfgName : Str.Str) (t : Int)
    (hk : splitKey e.name = .ok (cfgName, t))
    (hsub : ∀ c, e.lookup e.ns cfgName = some c → c.subst ≠ none) :
    (∀ f, cronSync e api f = (api, true)) ∨
    (∃ j, api.has j.ns j.name = false ∧ cronSync e api true = (api, false) ∧
      cronSync e api false = (api ++ [j], true) ∧ ∀ f, cronSync e (api ++ [j]) f = (api ++ [j], true)) := by
  unfold cronSync syncOne
  simp only [hk]
  cases hl : e.lookup e.ns cfgName with
  | none => left; intro f; simp [processCron]
  | some c =>
    have hs := hsub c hl
    cases hsv : c.subst with
    | none => exact absurd hsv hs
    | some vars =>
      simp only [processCron, newJobFromJobConfig, hsv]
      by_cases h1 : c.policy = policyForbid ∧ e.active c + 1 > c.maxConc.getD Facts.defaultMaxConcurrency
      · left; intro f; simp [h1]
      · simp only [h1, if_false]
        by_cases h2 : queueFull e.mx c.queued = true
        · left; intro f; simp [h2]
        · simp only [h2, Bool.false_eq_true, if_false]
          by_cases h3 : api.has c.ns (generateName e.now c.name t) = true
          · left; intro f; simp [h3]
          · right
            have h3' : api.has c.ns (generateName e.now c.name t) = false := by simpa using h3
            have h4 : (api ++ [scheduledJob e.now c t vars]).has c.ns (generateName e.now c.name t) = true := by
              simp [Api.has, scheduledJob]
            refine ⟨scheduledJob e.now c t vars, h3', ?_, ?_, ?_⟩
            · simp [h3', apiCreate, afterCreate]
            · simp [h3', apiCreate, afterCreate, scheduledJob]
            · intro f
              simp [h4]

open Furiko.CronRec in
/-- the cron reconciler is level-triggered in the sense of the schema (any API state; fixpoint =
"a fault-free pass changes nothing and succeeds"), provided the key is well-formed and the
JobConfig's option defaults evaluate (otherwise the error is permanent, not transient) -/
theorem cron_level_triggered (e : CronEnv) (cfgName : Str.Str) (t : Int)
    (hk : splitKey e.name = .ok (cfgName, t))
    (hsub : ∀ c, e.lookup e.ns cfgName = some c → c.subst ≠ none) :
    LevelTriggered (cronSync e) (fun _ => True) (fun api => cronSync e api false = (api, true)) := by
  refine ⟨fun _ _ => trivial, ?_, ?_, fun s h => h⟩
  · intro api _ hok
    rcases cronSync_cases e api cfgName t hk hsub with h | ⟨j, _, h1, _, _⟩
    · rw [h true]; exact h false
    · rw [h1] at hok; cases hok
  · intro api _
    rcases cronSync_cases e api cfgName t hk hsub with h | ⟨j, _, _, h2, h3⟩
    · rw [h false]; exact ⟨rfl, h false⟩
    · rw [h2]; exact ⟨rfl, h3 false⟩

open Furiko.CronRec in
/-- **cron_converges**: for every server state, every work item of the cron reconciler and every
finite pattern of failed create calls (E-ErrNotApplied), the retry loop ends with a successful pass
and the server's Job collection is EXACTLY the one a single fault-free pass produces: the Job of
(JobConfig, schedule time) exists once (or the schedule was skipped by policy in both runs).

The fault alphabet is what the property names — a call that FAILS (server error, conflict, timeout;
`cronSync`'s `fault = true` injects `.err`).  An admission refusal (422 Invalid) is not a failure in
this sense: `ExecutionControl.CreateJob` swallows it and the pass returns nil, so the retry loop
never sees it.  When the refusal is itself transient — the webhook process' JobConfig cache lags —
the schedule time is lost: `cron_invalid_answer_drops_schedule_witness` (known finding F34). -/
theorem cron_converges (e : CronEnv) (cfgName : Str.Str) (t : Int)
    (hk : splitKey e.name = .ok (cfgName, t))
    (hsub : ∀ c, e.lookup e.ns cfgName = some c → c.subst ≠ none) (fs : List Bool) (api : Api) :
    (runLoop (cronSync e) (fs.length + 1) fs api).2 = true ∧
    (runLoop (cronSync e) (fs.length + 1) fs api).1 = (cronSync e api false).1 := by
  have H := cron_level_triggered e cfgName t hk hsub
  refine ⟨(convergence_schema H fs api trivial).1, convergence_not_applied H ?_ fs api trivial⟩
  intro api _
  rcases cronSync_cases e api cfgName t hk hsub with h | ⟨j, _, h1, _, _⟩
  · rw [h true]
  · rw [h1]

open Furiko.CronRec Furiko.Props.C02 in
/-- non-vacuity: the demo JobConfig of C02, three failed creates, then success: one Job -/
example :
    let e : CronEnv := { now := 0, lookup := listerGet [cfgV1], active := fun _ => 0, mx := some 20, ns := "ns".toList, name := "a.5.100".toList }
    (runLoop (cronSync e) 4 [true, true, true] []).2 = true ∧
    ((runLoop (cronSync e) 4 [true, true, true] []).1.map (·.name)) = ["a.5-100".toList] ∧
    (cronSync e [] true) = ([], false) := by decide

open Furiko.CronRec Furiko.Props.C02 in
/-- KNOWN FINDING F34 (environment audit G3; replayed on the real controllers + webhooks by the
`system` scenarios `f34-webhook-cache-lag-drops-schedule` / `f34-webhook-stale-uid-drops-schedule`,
monitor `converges-same-outcome`).  The admission webhooks are another process with their own
JobConfig informer; when the owner JobConfig of the new Job is not (yet) in THAT cache, or is there
with another UID, the create is answered 422 Invalid.  In the model: the create of the work item
`(a.5, 100)` is answered `.invalid` — the pass reports ok (`SyncOne` returns nil, one
`CreateJobFailed` event), the server has no Job, and since the sync succeeded `work` Forgets the key
(`retry_success_forgets`): nothing ever asks again, although the very next attempt — the webhook's
cache having caught up — creates the Job.  "Once calls succeed again … every due schedule time has
its Job" therefore fails for this transient refusal; `cron_converges` does not cover it because
`Invalid` is not in its fault alphabet. -/
theorem cron_invalid_answer_drops_schedule_witness :
    let e : CronEnv := { now := 0, lookup := listerGet [cfgV1], active := fun _ => 0, mx := some 20, ns := "ns".toList, name := "a.5.100".toList }
    let o := syncOne e.now [] e.lookup e.active e.mx (fun _ _ => false) .invalid e.ns e.name
    o.result = .ok ∧ o.api = [] ∧ o.events = [.createFailed] ∧ o.resp = some .invalid ∧
    ((cronSync e [] false).1.map (·.name)) = ["a.5-100".toList] ∧ (cronSync e [] false).2 = true := by
  decide

/-! ## 4. Instance (partial): the job-queue per-config pass -/

open Furiko.Queue in
/-- **queue_convergence_partial**.  For the per-config pass of the job-queue controller
(`Model/Queue.lean`, counter rollback on a failed start included) the hypotheses of the schema hold
in this form:
 (H1) from any reachable state, under ANY pending fault list, a pass leads to a reachable state
      again — so the counter invariant (`C05.reachable_inv`: counter + pending deltas = true active
      count; the rollback on a failed start is what makes this hold) survives every fault — and a
      pass that returned an error issued a failed call and leaves its key with a deadline;
 (H2) from a reachable quiet state (events delivered, store caught up, no fault pending) the pass
      returns ok, the counter is exact, and every due Job is started / waiting at the limit /
      rejected as its policy demands (`C06.quiet_no_due_left`).
MISSING for the full schema: the fixpoint clause.  After an ok pass the next pass is the identity
only once the informer has delivered the pass's own writes (otherwise it conflicts and retries);
that delivery is an action of the composed system, whose convergence is explored by the `system`
engine, not proved. -/
theorem queue_convergence_partial :
    (∀ s : Sys, Reachable s → Reachable (workConfig s).1) ∧
    (∀ s : Sys, Reachable s → Inv (workConfig s).1) ∧
    (∀ s : Sys, (workConfig s).2 = "err" → (workConfig s).1.calls ≠ [] ∧
        ∃ k, k ∈ delayedKeys (workConfig s).1.cfgQ) ∧
    (∀ s : Sys, Reachable s → Quiet s → ∀ k q1 jc, (s.cfgQ.advance s.clock).get = some (k, q1) →
        findJC s.jcCache (keyName k) = some jc →
        (workConfig s).2 = "ok" ∧ ∀ uid, getCtr (workConfig s).1.counter uid = trueActive (workConfig s).1 uid) := by
  refine ⟨?_, ?_, ?_, ?_⟩
  · intro s h; exact Reachable.step s .workConfig h trivial
  · intro s h; exact (Reachable.step s .workConfig h trivial).inv
  · intro s herr
    refine ⟨C06.work_err_has_call s herr, ?_⟩
    rcases workConfig_cases s with ⟨_, hne, _⟩ | ⟨k, q1, jc, hg, hjc⟩
    · exact absurd herr hne
    · rw [workConfig_get hg] at herr ⊢
      cases hok : (syncConfig (cfgPre s q1) (keyName k)).2 with
      | true => rw [hok] at herr; simp at herr
      | false =>
        refine ⟨k, ?_⟩
        simp only [cfgPost, Bool.false_eq_true, if_false, delayedKeys, done_delayed, WQ.addRateLimited]
        exact mem_keys_setDelayed_self _ _ _
  · intro s h hq k q1 jc hg hjc
    obtain ⟨_, hok, hex, _⟩ := C06.quiet_no_due_left h hq hg hjc
    exact ⟨hok, hex⟩

open Furiko.Queue Furiko.Props.C05 in
example : Reachable sQueued ∧ (workConfig sQueued).2 = "ok" := ⟨sQueued_reachable, by decide⟩

/-! ## 5. None of the safety guarantees is violated along the way -/

open Furiko.CronRec in
/-- C02 under faults: at most one Job per (JobConfig, schedule time) in every history — create
faults of every kind (even applied-but-reported-failed), duplicates, retries, crashes -/
theorem safety_under_faults_C02 (world : CronRec.JobConfig → Prop) (hw : C02.UidFunctional world) (s : CronRec.Sys)
    (hr : CronRec.Reachable world s) (u : Str.Str) (t : Int) (ht : t ≠ zeroUnix) :
    (s.api.filter (fun j => j.ownerUid = some u ∧ j.schedAnnot = some (Str.showInt t))).length ≤ 1 :=
  (C02.at_most_one world hw s hr u t ht).1

open Furiko.Queue in
/-- C05 under faults: in every reachable state (histories contain arbitrary `fault` actions inside
E-ErrNotApplied) every start write of a Forbid/Enqueue Job happens below `maxConcurrency`, and the
counter never undercounts -/
theorem safety_under_faults_C05 {s : Queue.Sys} (h : Queue.Reachable s) :
    (∀ o ∈ (workConfigObs s).2, o.job.hasPolicy = true → (o.job.policy = 1 ∨ o.job.policy = 2) →
      (o.activeBefore : Int) + 1 ≤ o.maxConc) ∧
    ∀ uid, (trueActive s uid : Int) ≤ getCtr s.counter uid :=
  ⟨C05.never_over_limit h, C05.counter_upper h⟩

open Furiko.Queue in
/-- C06 under faults: a pass that hits an error stops at the failed call (the start order is kept
for the retry) -/
theorem safety_under_faults_C06 (s : Queue.Sys) (herr : (workConfig s).2 = "err") :
    (workConfig s).1.calls ≠ [] := C06.work_err_has_call s herr

open Furiko.JobCtl in
/-- C09 under faults: a create answered AlreadyExists (the retry of a create whose result was
lost) creates nothing; the existing task is adopted instead of being duplicated -/
theorem safety_under_faults_C09 (s s1 : JobCtl.Sys) (jo : JobObj) (rj : Furiko.Job) (tasks : List Furiko.Task)
    (idx : PIndex) (retry : Int) (p : PodObj) (t : Furiko.Task)
    (hc : apiCreatePod s jo idx retry = (s1, .exists))
    (hp : findPod s1.podCache (taskName jo.name idx.hash retry) = some p)
    (hown : p.ownerUid = some jo.uid) (ht : podTask s.clock p = some t) :
    syncCreateTask s jo rj tasks idx retry = (s1, some (rj, tasks ++ [t])) ∧ s1.pods = s.pods :=
  C09.adopt_not_duplicate s s1 jo rj tasks idx retry p t hc hp hown ht

/-- non-vacuity of the re-exports: the witnesses of the original theorems -/
example : CronRec.Reachable C02.demoWorld C02.demoS3 ∧ Queue.Reachable C05.sStarted ∧
    (Queue.workConfig Queue.Scen.s4err).2 = "err" :=
  ⟨C02.demo_reachable, C05.sStarted_reachable, by decide⟩

end Furiko.Props.C20
