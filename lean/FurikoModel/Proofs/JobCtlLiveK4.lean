/-
Liveness of the job controller, kill part 4: the task list of a pass on a Job with a kill timestamp
(`killTasks`: the tasks of the recorded refs plus the adopted unrecorded ones) is, in a fresh state whose
pods are all the Job's, exactly the pods on the server (`killTasks_mem`, `killTasks_cover`); finish times
through `GenerateTaskRefs` (`gen_allFin`, `gen_lb`); `syncCreateTasks` creates nothing
(`syncCreateTasks_kill`); and `syncJobTasks` assembled (`syncJobTasks_kill`): the pods of all unfinished
listed tasks get the deletion timestamp, the Job handed on is a recomputed status.  Core Lean only.
-/
import FurikoModel.Proofs.JobCtlLiveK3
import FurikoModel.Proofs.JobCtlLive5

set_option linter.unusedSimpArgs false
set_option linter.unusedVariables false

namespace Furiko.JobCtl.Live
open Furiko Furiko.JobCtl Furiko.WQ Furiko.StatusLemmas Furiko.JobCtlPlan

/-! ### finish times through `GenerateTaskRefs` -/

theorem getTaskRef_finish (e : Option TaskRef) (t : Task) :
    ((getTaskRef e t).finishTimestamp = t.ref.finishTimestamp ∨
      ∃ ex, e = some ex ∧ (getTaskRef e t).finishTimestamp = ex.finishTimestamp) ∧
    (t.ref.finishTimestamp.isSome = true → (getTaskRef e t).finishTimestamp.isSome = true) := by
  cases e with
  | none =>
    have := (getTaskRef_none_fields t).2.1
    exact ⟨Or.inl this, fun h => by rw [this]; exact h⟩
  | some ex =>
    by_cases ht : t.ref.finishTimestamp.isSome = true
    · by_cases hex : ex.finishTimestamp.isSome = true
      · by_cases hfin : isFinalTaskState ex.status.state = true
        · have := (getTaskRef_some_frozen ex t hex ht hfin).2.1
          exact ⟨Or.inr ⟨ex, rfl, this⟩, fun _ => by rw [this]; exact hex⟩
        · have : (getTaskRef (some ex) t).finishTimestamp = t.ref.finishTimestamp := by
            unfold getTaskRef
            cases hf : t.ref.finishTimestamp with
            | none => simp [hf] at ht
            | some f => cases hr : t.ref.runningTimestamp <;> simp [hf, hr, hfin]
          exact ⟨Or.inl this, fun _ => by rw [this]; exact ht⟩
      · have hex' : ex.finishTimestamp.isSome = false := by simpa using hex
        have := (getTaskRef_some_fresh ex t hex' ht).2.1
        exact ⟨Or.inl this, fun _ => by rw [this]; exact ht⟩
    · have ht' : t.ref.finishTimestamp.isSome = false := by simpa using ht
      have := (getTaskRef_some_unfinished ex t ht').2.1
      exact ⟨Or.inr ⟨ex, rfl, this⟩, fun h => absurd h ht⟩

theorem lostRef_finish (now : Time) (ex : TaskRef) :
    (lostRef now ex).finishTimestamp.isSome = true ∧
    ((lostRef now ex).finishTimestamp = some now ∨ (lostRef now ex).finishTimestamp = ex.finishTimestamp) := by
  unfold lostRef
  cases hd : ex.deletedStatus <;> cases hf : ex.finishTimestamp <;> simp [hd, hf]

/-- every listed task finished: every ref `GenerateTaskRefs` returns is finished (a ref whose task is not
listed is recorded as finished) -/
theorem gen_allFin (now : Time) (ex : List TaskRef) (T : List Task)
    (h : ∀ t ∈ T, t.ref.finishTimestamp.isSome = true) : AllFin (generateTaskRefs now ex T) := by
  intro r hr
  rcases mem_generateTaskRefs hr with ⟨t, ht, rfl⟩ | ⟨e, _, _, rfl⟩
  · exact (getTaskRef_finish _ t).2 (h t ht)
  · exact (lostRef_finish now e).1

/-- a lower bound of all finish times is kept by `GenerateTaskRefs` -/
theorem gen_lb (F0 : Int) (now : Time) (ex : List TaskRef) (T : List Task)
    (hex : ∀ r ∈ ex, ∀ f, r.finishTimestamp = some f → F0 ≤ f)
    (hT : ∀ t ∈ T, ∀ f, t.ref.finishTimestamp = some f → F0 ≤ f) (hnow : F0 ≤ now) :
    ∀ r ∈ generateTaskRefs now ex T, ∀ f, r.finishTimestamp = some f → F0 ≤ f := by
  intro r hr f hf
  rcases mem_generateTaskRefs hr with ⟨t, ht, rfl⟩ | ⟨e, he, _, rfl⟩
  · rcases (getTaskRef_finish _ t).1 with h | ⟨e, he, h⟩
    · rw [h] at hf; exact hT t ht f hf
    · rw [h] at hf; exact hex e (lookupRef_mem he).1 f hf
  · rcases (lostRef_finish now e).2 with h | h
    · rw [h] at hf
      have : now = f := Option.some.inj hf
      rw [← this]; exact hnow
    · rw [h] at hf; exact hex e he f hf

/-- the latest finish time is one of the finish times -/
theorem latestFinished_mem (L : List TaskRef) (g : Time) (h : latestFinished L = some g) :
    ∃ r ∈ L, r.finishTimestamp = some g := by
  rw [latestFinished_eq_fold] at h
  obtain ⟨_, _, h3⟩ := foldl_timeMax_spec (L.map (·.finishTimestamp)) none
  rw [h] at h3
  rcases h3 with h3 | h3
  · cases h3
  · obtain ⟨r, hr, e⟩ := List.mem_map.mp h3
    exact ⟨r, hr, e⟩

/-! ### the task list of a pass in kill mode -/

/-- every pod on the server is a task of the Job (controlled by and labelled with it), readable, with
pairwise distinct names; unlike `PodsOK`, pods may carry a deletion timestamp -/
structure KPods (jo : JobObj) (s : Sys) : Prop where
  owned : ∀ p ∈ s.pods, p.ownerUid = some jo.uid ∧ p.ownerName = some jo.name ∧ p.jobLabel = some jo.uid
  sane : ∀ p ∈ s.pods, NoPanic p ∧ p.pod.creationTimestamp.isSome = true
  nodup : (podNames s.pods).Nodup

/-- the task list the handlers of a pass work on when nothing is created -/
def killTasks (s : Sys) (jo : JobObj) : List Task :=
  adoptUnrecordedTasks s jo (tasksForRefs s jo jo.job.status.tasks)

theorem killTasks_mem {s : Sys} {jo : JobObj} (hc : s.podCache = s.pods) (hp : KPods jo s) {t : Task}
    (h : t ∈ killTasks s jo) : ∃ p ∈ s.pods, podTask s.clock p = some t := by
  unfold killTasks adoptUnrecordedTasks at h
  rcases List.mem_append.mp h with h | h
  · rw [tasksForRefs_fresh hc (fun p hp' => (hp.owned p hp').1)] at h
    obtain ⟨r, _, hr⟩ := List.mem_filterMap.mp h
    obtain ⟨p, hf, hpt⟩ := lookTask_some hr
    exact ⟨p, (JobCtlPlan.findPod_some hf).1, hpt⟩
  · obtain ⟨p, hpm, hpt⟩ := List.mem_filterMap.mp h
    have := (List.mem_filter.mp hpm).1
    rw [JobCtlPlan.mem_sortPods, hc] at this
    exact ⟨p, this, hpt⟩

theorem killTasks_cover {s : Sys} {jo : JobObj} (hc : s.podCache = s.pods) (hp : KPods jo s) {p : PodObj}
    (hpm : p ∈ s.pods) : ∃ t ∈ killTasks s jo, podTask s.clock p = some t := by
  obtain ⟨t, ht⟩ := podTask_of_noPanic (hp.sane p hpm).1
  refine ⟨t, ?_, ht⟩
  unfold killTasks adoptUnrecordedTasks
  rw [tasksForRefs_fresh hc (fun p hp' => (hp.owned p hp').1)]
  apply List.mem_append.mpr
  by_cases hrec : jo.job.status.tasks.any (·.name = p.pod.name) = true
  · left
    obtain ⟨r, hr, hn⟩ := List.any_eq_true.mp hrec
    have hn' : r.name = p.pod.name := by simpa using hn
    apply List.mem_filterMap.mpr
    refine ⟨r, hr, ?_⟩
    unfold lookTask
    rw [hn', findPod_of_mem_nodup hp.nodup hpm]
    exact ht
  · by_cases hin : (jo.job.status.tasks.filterMap (fun r => lookTask s r.name)).any (·.name = p.pod.name) = true
    · left
      obtain ⟨t', ht', hn⟩ := List.any_eq_true.mp hin
      have hn' : t'.name = p.pod.name := by simpa using hn
      obtain ⟨r, hr, hl⟩ := List.mem_filterMap.mp ht'
      exfalso
      apply hrec
      apply List.any_eq_true.mpr
      refine ⟨r, hr, ?_⟩
      have := lookTask_name hl
      simp only [decide_eq_true_eq]
      rw [← this]; exact hn'
    · right
      apply List.mem_filterMap.mpr
      refine ⟨p, ?_, ht⟩
      apply List.mem_filter.mpr
      refine ⟨by rw [JobCtlPlan.mem_sortPods, hc]; exact hpm, ?_⟩
      have ho := hp.owned p hpm
      simp only [Bool.not_eq_true] at hrec hin
      simp [ho.1, ho.2.2, hrec, hin]

/-- facts about a listed task from its pod -/
theorem killTasks_facts {s : Sys} {jo : JobObj} (hc : s.podCache = s.pods) (hp : KPods jo s) {t : Task}
    (h : t ∈ killTasks s jo) : ∃ p ∈ s.pods, podTask s.clock p = some t ∧ t.name = p.pod.name ∧
      t.deletionTimestamp = p.pod.deletionTimestamp ∧ isTaskFinished t = p.pod.isFinished := by
  obtain ⟨p, hpm, hpt⟩ := killTasks_mem hc hp h
  have hf := podTask_fields hpt
  refine ⟨p, hpm, hpt, hf.1, hf.2.1, ?_⟩
  unfold isTaskFinished
  cases hfin : p.pod.isFinished with
  | true => exact podTask_finished (hp.sane p hpm).2 hpt hfin
  | false => rw [hf.2.2.2.2.2.2.2 hfin]; rfl

/-- in kill mode a name denotes one task value: every listed task is read from the pod of its name on the
server, and pod names are pairwise distinct -/
theorem killTasks_fn {s : Sys} {jo : JobObj} (hc : s.podCache = s.pods) (hp : KPods jo s) : TasksFn (killTasks s jo) := by
  refine ⟨fun t ht => ?_, fun t ht t' ht' hn => ?_⟩
  · obtain ⟨p, _, hpt⟩ := killTasks_mem hc hp ht
    exact podTask_refName hpt
  · obtain ⟨p, hpm, hpt⟩ := killTasks_mem hc hp ht
    obtain ⟨p', hpm', hpt'⟩ := killTasks_mem hc hp ht'
    have e1 := (podTask_fields hpt).1
    have e2 := (podTask_fields hpt').1
    have hpp : p' = p := by
      have f1 := findPod_of_mem_nodup hp.nodup hpm
      have f2 := findPod_of_mem_nodup hp.nodup hpm'
      rw [← e2, hn, e1, f1] at f2
      exact (Option.some.inj f2).symm
    rw [hpp, hpt] at hpt'
    exact (Option.some.inj hpt').symm

/-! ### the pass -/

theorem syncCreateTasks_kill (s : Sys) (jo : JobObj) (rj : Job) (T : List Task) (kt : Time)
    (hk : rj.killTimestamp = some kt) :
    syncCreateTasks s jo rj T = (s, some (rj, adoptUnrecordedTasks s jo T)) := by
  unfold syncCreateTasks canCreateTask
  simp [hk]

/-- **`syncJobTasks` on a Job whose kill timestamp has passed**, no fault pending, no listed task being
deleted yet: the pods of exactly the unfinished listed tasks get the deletion timestamp; the Job handed
on is a recomputed status of a Job with the same spec -/
theorem syncJobTasks_kill (sp : Sys) (jo : JobObj) (kt : Time) (hspec : KillSpec jo.job kt) (hle : kt ≤ sp.clock)
    (hnf : NoFault sp) (hnd : (podNames sp.pods).Nodup)
    (hdts : ∀ t ∈ killTasks sp jo, t.deletionTimestamp = none) (hfn : TasksFn (killTasks sp jo)) :
    ∃ s6 rj5 N, syncJobTasks sp jo jo.job = (s6, some (recompute sp.clock sp.d rj5 (killTasks sp jo))) ∧
      MarkedT (jobKey jo) sp s6 N ∧
      (∀ n, n ∈ N ↔ ∃ t ∈ killTasks sp jo, t.name = n ∧ isTaskFinished t = false) ∧
      KillSpec rj5 kt ∧ SameSpec jo.job rj5 ∧
      rj5.status.tasks.map (·.finishTimestamp) =
        (generateTaskRefs sp.clock jo.job.status.tasks (killTasks sp jo)).map (·.finishTimestamp) := by
  have hcreate : syncCreateTasks sp jo jo.job (tasksForRefs sp jo jo.job.status.tasks) =
      (sp, some (jo.job, killTasks sp jo)) :=
    syncCreateTasks_kill sp jo jo.job (tasksForRefs sp jo jo.job.status.tasks) kt hspec.kill
  -- first refresh
  have hU2 := updateTaskRefStatus_snd sp (jobKey jo) jo.job (killTasks sp jo)
  have hU1 := updateTaskRefStatus_fst sp (jobKey jo) jo.job (killTasks sp jo)
  generalize hU : updateTaskRefStatus sp (jobKey jo) jo.job (killTasks sp jo) = U at hU1 hU2
  obtain ⟨s2, rj2⟩ := U
  simp only at hU1 hU2
  subst hU2
  have hst2 := hU1.static
  have hm2 : MarkedT (jobKey jo) sp s2 [] := MarkedT.of_timers hU1
  have hnf2 : NoFault s2 := hm2.nofault hnf
  have hnd2 : (podNames s2.pods).Nodup := by rw [hst2.2.2.2.1]; exact hnd
  have hrc := recompute_sameSpec sp.clock sp.d jo.job (killTasks sp jo)
  have hk2 : KillSpec (recompute sp.clock sp.d jo.job (killTasks sp jo)) kt := hspec.recompute _ _ _
  -- pending tasks
  obtain ⟨s3, rj3, N3, hP, hm3, hN3, hs3, hn3, hst3, _⟩ :=
    handlePending_kill s2 jo (recompute sp.clock sp.d jo.job (killTasks sp jo)) (killTasks sp jo) hnf2 hnd2 hdts
      hfn sp.clock jo.job.status.tasks (recompute_sameSpec sp.clock sp.d jo.job (killTasks sp jo)).2.1
  have hnf3 : NoFault s3 := hm3.nofault hnf2
  have hnd3 : (podNames s3.pods).Nodup := by rw [hm3.pods, podNames_markDts]; exact hnd2
  have hk3 : KillSpec rj3 kt := hk2.congr hs3 hst3
  have hclk3 : s3.clock = sp.clock := hm3.clock.trans hst2.1
  -- kill
  obtain ⟨s4, rj4, N4, hK, hm4, hN4, hs4, hn4, hst4, _⟩ :=
    handleKill_sweep s3 jo rj3 (killTasks sp jo) kt hk3.kill (by rw [hclk3]; exact hle) hnf3 hnd3 hdts
  have hk4 : KillSpec rj4 kt := hk3.congr hs4 hst4
  -- second refresh
  have hV2 := updateTaskRefStatus_snd s4 (jobKey jo) rj4 (killTasks sp jo)
  have hV1 := updateTaskRefStatus_fst s4 (jobKey jo) rj4 (killTasks sp jo)
  generalize hV : updateTaskRefStatus s4 (jobKey jo) rj4 (killTasks sp jo) = V at hV1 hV2
  obtain ⟨s6, rj6⟩ := V
  simp only at hV1 hV2
  subst hV2
  have hclk4 : s4.clock = sp.clock := hm4.clock.trans hclk3
  have hd4 : s4.d = sp.d := hm4.d.trans (hm3.d.trans hst2.2.1)
  rw [hclk4, hd4] at hV
  have hall := ((hm2.trans hm3).trans hm4).trans (MarkedT.of_timers hV1)
  refine ⟨s6, rj4, N4, ?_, hall.congr ?_, hN4, hk4, (hrc.1.trans hs3).trans hs4, ?_⟩
  · unfold syncJobTasks
    simp only [hcreate, hU, hP, hK, handleForce_quiet s4 jo rj4 (killTasks sp jo) hdts, hV]
  · intro n
    simp only [List.nil_append, List.append_nil, List.mem_append]
    constructor
    · rintro (h | h)
      · exact (hN4 n).mpr (hN3 n h)
      · exact h
    · intro h; exact Or.inr h
  · rw [hn4, hn3, hrc.2.1]

end Furiko.JobCtl.Live
