/-
`dueList nx nowS e`: the times obtained by iterating a `Next` function from the entry `e`
while they have arrived (`≤ nowS`).  Under the `Next` contract it is the strictly increasing
enumeration of `{e} ∪ {m | M m ∧ e < m}` cut at `nowS`.
-/
import FurikoModel.Proofs.CronLemmas

namespace Furiko.Cron
open Furiko

def dueFrom (nx : Int → Option Int) (nowS : Int) : Nat → Int → List Int
  | 0, _ => []
  | f + 1, e =>
    if e ≤ nowS then
      e :: (match nx e with
            | none => []
            | some e' => dueFrom nx nowS f e')
    else []

/-- enough fuel to walk from `e` to `nowS` one second at a time -/
def dueFuel (nowS e : Int) : Nat := (nowS + 1 - e).toNat

def dueList (nx : Int → Option Int) (nowS e : Int) : List Int :=
  dueFrom nx nowS (dueFuel nowS e) e

/-- what is still due for an (optional) heap entry -/
def rem (nx : Int → Option Int) (nowS : Int) : Option Int → List Int
  | none => []
  | some t => dueList nx nowS t

theorem dueFrom_fuel_irrel {M : Int → Prop} {nx : Int → Option Int} (h : NextSpec M nx)
    (nowS : Int) :
    ∀ (f1 f2 : Nat) (e : Int), dueFuel nowS e ≤ f1 → dueFuel nowS e ≤ f2 →
      dueFrom nx nowS f1 e = dueFrom nx nowS f2 e := by
  intro f1
  induction f1 with
  | zero =>
    intro f2 e h1 h2
    have he : ¬ e ≤ nowS := by unfold dueFuel at h1; omega
    cases f2 with
    | zero => rfl
    | succ f2 => simp [dueFrom, he]
  | succ f1 ih =>
    intro f2 e h1 h2
    cases f2 with
    | zero =>
      have he : ¬ e ≤ nowS := by unfold dueFuel at h2; omega
      simp [dueFrom, he]
    | succ f2 =>
      unfold dueFrom
      by_cases he : e ≤ nowS
      · simp only [he, if_true]
        cases hn : nx e with
        | none => rfl
        | some e' =>
          have := ((h e).1 e' hn).1
          simp only []
          rw [ih f2 e' (by unfold dueFuel at *; omega) (by unfold dueFuel at *; omega)]
      · simp [he]

theorem dueList_of_gt (nx : Int → Option Int) {nowS e : Int} (h : nowS < e) :
    dueList nx nowS e = [] := by
  unfold dueList
  cases hf : dueFuel nowS e with
  | zero => rfl
  | succ f => simp [dueFrom, show ¬ e ≤ nowS by omega]

theorem dueList_of_le {M : Int → Prop} {nx : Int → Option Int} (h : NextSpec M nx)
    {nowS e : Int} (he : e ≤ nowS) :
    dueList nx nowS e = e :: rem nx nowS (nx e) := by
  unfold dueList
  have hf : dueFuel nowS e = (dueFuel nowS e - 1) + 1 := by unfold dueFuel; omega
  rw [hf]
  simp only [dueFrom, he, if_true]
  congr 1
  cases hn : nx e with
  | none => rfl
  | some e' =>
    have := ((h e).1 e' hn).1
    simp only [rem, dueList]
    exact dueFrom_fuel_irrel h nowS _ _ e' (by unfold dueFuel at *; omega) (Nat.le_refl _)

theorem rem_eq_nil_of_gt (nx : Int → Option Int) (nowS : Int) (ent : Option Int)
    (h : ∀ t, ent = some t → nowS < t) : rem nx nowS ent = [] := by
  cases ent with
  | none => rfl
  | some t => exact dueList_of_gt nx (h t rfl)

theorem dueFrom_spec {M : Int → Prop} {nx : Int → Option Int} (h : NextSpec M nx)
    (nowS : Int) :
    ∀ (f : Nat) (e : Int), dueFuel nowS e ≤ f →
      SortedStrict (dueFrom nx nowS f e) ∧
      ∀ m, m ∈ dueFrom nx nowS f e ↔ e ≤ m ∧ m ≤ nowS ∧ (m = e ∨ M m) := by
  intro f
  induction f with
  | zero =>
    intro e hf
    have he : ¬ e ≤ nowS := by unfold dueFuel at hf; omega
    refine ⟨List.Pairwise.nil, fun m => ?_⟩
    simp only [dueFrom, List.not_mem_nil, false_iff]
    omega
  | succ f ih =>
    intro e hf
    unfold dueFrom
    by_cases he : e ≤ nowS
    · simp only [he, if_true]
      cases hn : nx e with
      | none =>
        have hnone := (h e).2 hn
        refine ⟨List.pairwise_singleton _ _, fun m => ?_⟩
        simp only [List.mem_singleton]
        constructor
        · rintro rfl; exact ⟨Int.le_refl _, he, Or.inl rfl⟩
        · rintro ⟨h1, _, h3 | h3⟩
          · exact h3
          · have := hnone m h3; omega
      | some e' =>
        have hs := (h e).1 e' hn
        have hi := ih e' (by unfold dueFuel at *; omega)
        simp only []
        refine ⟨List.pairwise_cons.2 ⟨fun m hm => ?_, hi.1⟩, fun m => ?_⟩
        · have := ((hi.2 m).1 hm).1; omega
        · rw [List.mem_cons, hi.2 m]
          constructor
          · rintro (rfl | ⟨h1, h2, h3⟩)
            · exact ⟨Int.le_refl _, he, Or.inl rfl⟩
            · refine ⟨by omega, h2, Or.inr ?_⟩
              rcases h3 with rfl | h3
              · exact hs.2.1
              · exact h3
          · rintro ⟨h1, h2, h3 | h3⟩
            · exact Or.inl h3
            · by_cases hme : m = e
              · exact Or.inl hme
              · have := hs.2.2 m h3 (by omega)
                exact Or.inr ⟨this, h2, Or.inr h3⟩
    · simp only [he, if_false]
      refine ⟨List.Pairwise.nil, fun m => ?_⟩
      simp only [List.not_mem_nil, false_iff]
      omega

/-- `dueList` is the strictly increasing list whose members are exactly the entry `e` (if it has
arrived) and the `M`-times in `(e, nowS]`. -/
theorem dueList_spec {M : Int → Prop} {nx : Int → Option Int} (h : NextSpec M nx)
    (nowS e : Int) :
    SortedStrict (dueList nx nowS e) ∧
    ∀ m, m ∈ dueList nx nowS e ↔ e ≤ m ∧ m ≤ nowS ∧ (m = e ∨ M m) :=
  dueFrom_spec h nowS _ e (Nat.le_refl _)

/-- a strictly increasing list is determined by its members -/
theorem sortedStrict_ext : ∀ {l1 l2 : List Int}, SortedStrict l1 → SortedStrict l2 →
    (∀ m, m ∈ l1 ↔ m ∈ l2) → l1 = l2 := by
  intro l1
  induction l1 with
  | nil =>
    intro l2 _ _ hm
    cases l2 with
    | nil => rfl
    | cons b t => exact absurd ((hm b).2 (by simp)) (by simp)
  | cons a t ih =>
    intro l2 h1 h2 hm
    cases l2 with
    | nil => exact absurd ((hm a).1 (by simp)) (by simp)
    | cons b t2 =>
      have ha := List.pairwise_cons.1 h1
      have hb := List.pairwise_cons.1 h2
      have hab : a = b := by
        have h1' := (hm a).1 (by simp)
        have h2' := (hm b).2 (by simp)
        rcases List.mem_cons.1 h1' with h | h
        · exact h
        · rcases List.mem_cons.1 h2' with h' | h'
          · exact h'.symm
          · have := hb.1 a h; have := ha.1 b h'; omega
      subst hab
      congr 1
      apply ih ha.2 hb.2
      intro m
      constructor
      · intro hmt
        rcases List.mem_cons.1 ((hm m).1 (List.mem_cons_of_mem _ hmt)) with h | h
        · have := ha.1 m hmt; omega
        · exact h
      · intro hmt
        rcases List.mem_cons.1 ((hm m).2 (List.mem_cons_of_mem _ hmt)) with h | h
        · have := hb.1 m hmt; omega
        · exact h

/-- the last element of a non-empty `dueList`: nothing due lies after it -/
theorem dueList_getLast_max {M : Int → Prop} {nx : Int → Option Int} (h : NextSpec M nx)
    (nowS e lf : Int) (hl : (dueList nx nowS e).getLast? = some lf) :
    e ≤ lf ∧ lf ≤ nowS ∧ (lf = e ∨ M lf) ∧ ∀ u, M u → lf < u → nowS < u := by
  have hsp := dueList_spec h nowS e
  have hmem : lf ∈ dueList nx nowS e := List.mem_of_getLast? hl
  have hm := (hsp.2 lf).1 hmem
  refine ⟨hm.1, hm.2.1, hm.2.2, fun u hu hlu => ?_⟩
  by_cases hun : nowS < u
  · exact hun
  · exfalso
    have humem : u ∈ dueList nx nowS e := (hsp.2 u).2 ⟨by omega, by omega, Or.inr hu⟩
    -- lf is the last element of a strictly increasing list, so u ≤ lf
    obtain ⟨pre, hpre⟩ : ∃ pre, dueList nx nowS e = pre ++ [lf] := by
      rcases List.getLast?_eq_some_iff.1 hl with ⟨pre, hpre⟩
      exact ⟨pre, hpre⟩
    have hs := hsp.1
    rw [hpre] at humem hs
    rcases List.mem_append.1 humem with hu' | hu'
    · have := (List.pairwise_append.1 hs).2.2 u hu' lf (by simp)
      omega
    · simp at hu'; omega

end Furiko.Cron
