/-
Liveness of the job controller, part 2: the handlers of one reconcile pass (`Model/JobCtl.lean`) on a
SIMPLE Job when there is nothing for them to do — `handlePendingTasks` with no task past its pending
deadline, `handleKillJob` without kill timestamp, `handleForceDeleteKillingTasks` with no task being
deleted, `handleTTLAfterFinished` before the deadline, `handleFinishFinalizer` without deletion
timestamp — and `Reconciler.sync` assembled from them: the Job it returns is the recomputed status
(`recompute`) over the task list `syncCreateTasks` hands on, and the state changes by timers only.
Core Lean only.
-/
import FurikoModel.Proofs.JobCtlLive1
import FurikoModel.Proofs.JobCtlPlanSync

set_option linter.unusedSimpArgs false
set_option linter.unusedVariables false

namespace Furiko.JobCtl.Live
open Furiko Furiko.JobCtl Furiko.WQ Furiko.StatusLemmas Furiko.JobCtlPlan

/-! ### timers only -/

/-- `s'` is `s` with some deferred adds of `key` armed (nothing else changed) -/
def TimersOnly (key : String) (s s' : Sys) : Prop :=
  ∃ q', s' = { s with q := q' } ∧ q'.queue = s.q.queue ∧ q'.dirty = s.q.dirty ∧ q'.processing = s.q.processing ∧
    q'.requeues = s.q.requeues ∧ (∀ e ∈ q'.delayed, e ∈ s.q.delayed ∨ e.1 = key) ∧
    (∀ e ∈ s.q.delayed, ∃ e' ∈ q'.delayed, e'.1 = e.1 ∧ e'.2 ≤ e.2)

theorem TimersOnly.refl (key : String) (s : Sys) : TimersOnly key s s :=
  ⟨s.q, rfl, rfl, rfl, rfl, rfl, fun e h => Or.inl h, fun e h => ⟨e, h, rfl, Int.le_refl _⟩⟩

theorem TimersOnly.trans {key : String} {a b c : Sys} (h1 : TimersOnly key a b) (h2 : TimersOnly key b c) :
    TimersOnly key a c := by
  obtain ⟨q1, e1, a1, a2, a3, a4, a5, a6⟩ := h1
  obtain ⟨q2, e2, b1, b2, b3, b4, b5, b6⟩ := h2
  subst e1
  refine ⟨q2, by rw [e2], b1.trans a1, b2.trans a2, b3.trans a3, b4.trans a4, ?_, ?_⟩
  · intro e he
    rcases b5 e he with h | h
    · exact a5 e h
    · exact Or.inr h
  · intro e he
    obtain ⟨e', he', hk, hd⟩ := a6 e he
    obtain ⟨e'', he'', hk', hd'⟩ := b6 e' he'
    exact ⟨e'', he'', hk'.trans hk, Int.le_trans hd' hd⟩

theorem mem_setDelayed {d : List (String × Int)} {k : String} {t : Int} {e : String × Int}
    (h : e ∈ setDelayed d k t) : e ∈ d ∨ e.1 = k := by
  induction d with
  | nil =>
    simp only [setDelayed, List.mem_singleton] at h
    exact Or.inr (by rw [h])
  | cons x rest ih =>
    obtain ⟨k', dl⟩ := x
    unfold setDelayed at h
    by_cases hk : k' = k
    · simp only [hk, if_true] at h
      rcases List.mem_cons.mp h with h | h
      · exact Or.inr (by rw [h])
      · exact Or.inl (List.mem_cons_of_mem _ h)
    · simp only [hk, if_false] at h
      rcases List.mem_cons.mp h with h | h
      · exact Or.inl (by rw [h]; exact List.mem_cons_self)
      · rcases ih h with h' | h'
        · exact Or.inl (List.mem_cons_of_mem _ h')
        · exact Or.inr h'

theorem enqueueAfter_timersOnly (s : Sys) (key : String) (t : Int) : TimersOnly key s (enqueueAfter s key t) := by
  refine ⟨_, rfl, rfl, rfl, rfl, rfl, ?_, ?_⟩
  · intro e he
    exact mem_setDelayed he
  · intro e he
    obtain ⟨dl', hm, hle⟩ := setDelayed_mono s.q.delayed key
      (if t < s.clock + 1000000000 then s.clock + 1000000000 else t) e.1 e.2 he
    exact ⟨(e.1, dl'), hm, rfl, hle⟩

theorem TimersOnly.static {key : String} {s s' : Sys} (h : TimersOnly key s s') :
    s'.clock = s.clock ∧ s'.d = s.d ∧ s'.cfg = s.cfg ∧ s'.pods = s.pods ∧ s'.podCache = s.podCache ∧
    s'.job = s.job ∧ s'.jobCache = s.jobCache ∧ s'.jobEvs = s.jobEvs ∧ s'.podEvs = s.podEvs ∧ s'.rv = s.rv ∧
    s'.faults = s.faults ∧ s'.delRun = s.delRun ∧ s'.calls = s.calls := by
  obtain ⟨q', e, _⟩ := h
  subst e
  exact ⟨rfl, rfl, rfl, rfl, rfl, rfl, rfl, rfl, rfl, rfl, rfl, rfl, rfl⟩

/-! ### the status refresh -/

theorem syncJobStatus_fst (s : Sys) (key : String) (rj : Job) :
    TimersOnly key s (syncJobStatusFromTaskRefs s key rj).1 := by
  unfold syncJobStatusFromTaskRefs
  cases updateJobStatusFromTaskRefs s.clock s.d rj with
  | none => exact TimersOnly.refl key s
  | some nj =>
    simp only
    split
    · split
      · split
        · exact enqueueAfter_timersOnly _ _ _
        · exact TimersOnly.refl key s
      · exact TimersOnly.refl key s
    · exact TimersOnly.refl key s

/-- no TTL timer when the recomputed condition is not `Finished` -/
theorem syncJobStatus_fst_unfinished (s : Sys) (key : String) (rj : Job)
    (h : (statusOf s.clock s.d rj).status.condition.finished = none) :
    (syncJobStatusFromTaskRefs s key rj).1 = s := by
  apply syncJobStatus_unarmed
  right; right
  intro nj hu
  unfold statusOf at h
  rw [hu] at h
  exact h

theorem updateTaskRefStatus_fst (s : Sys) (key : String) (rj : Job) (T : List Task) :
    TimersOnly key s (updateTaskRefStatus s key rj T).1 := by
  unfold updateTaskRefStatus
  exact syncJobStatus_fst s key _

theorem updateTaskRefStatus_fst_unfinished (s : Sys) (key : String) (rj : Job) (T : List Task)
    (h : (recompute s.clock s.d rj T).status.condition.finished = none) :
    (updateTaskRefStatus s key rj T).1 = s := by
  unfold updateTaskRefStatus
  exact syncJobStatus_fst_unfinished s key _ h

/-! ### the ref `handlePendingTasks` judges a task by (repair of F32) -/

theorem _root_.inj_on_of_nodup_map_task : ∀ {l : List Task}, (l.map (·.name)).Nodup →
    ∀ {a b : Task}, a ∈ l → b ∈ l → a.name = b.name → a = b
  | [], _, _, _, h, _, _ => by cases h
  | x :: rest, hnd, a, b, ha, hb, e => by
    simp only [List.map_cons, List.nodup_cons] at hnd
    rcases List.mem_cons.mp ha with rfl | ha'
    · rcases List.mem_cons.mp hb with rfl | hb'
      · rfl
      · exact absurd (List.mem_map.mpr ⟨b, hb', e.symm⟩) hnd.1
    · rcases List.mem_cons.mp hb with rfl | hb'
      · exact absurd (List.mem_map.mpr ⟨a, ha', e⟩) hnd.1
      · exact inj_on_of_nodup_map_task hnd.2 ha' hb' e

/-- the task list of a pass: every task is read from a pod (`ref.name = name`) and a name denotes one
task value -/
structure TasksFn (T : List Task) : Prop where
  ok : ∀ t ∈ T, t.ref.name = t.name
  fn : ∀ t ∈ T, ∀ t' ∈ T, t'.name = t.name → t' = t

theorem TasksFn.of_nodup {T : List Task} (hnd : (T.map (·.name)).Nodup) (hok : ∀ t ∈ T, t.ref.name = t.name) : TasksFn T := by
  exact ⟨hok, fun t ht t' ht' hn => _root_.inj_on_of_nodup_map_task hnd ht' ht hn⟩

/-- a task read from a pod: its ref carries the task's name -/
theorem podTask_refName {now : Time} {p : PodObj} {t : Task} (h : podTask now p = some t) : t.ref.name = t.name := by
  unfold podTask Pod.task at h
  cases hr : p.pod.taskRef now with
  | none => simp [hr] at h
  | some r =>
    simp only [hr, Option.some.injEq] at h
    subst h
    unfold Pod.taskRef at hr
    cases hf : p.pod.finishTimestamp with
    | none => simp [hf] at hr
    | some fin =>
      simp only [hf, Option.some.injEq] at hr
      subst hr
      rfl

/-- what `GetTaskRef` records never shows less than the task itself reports -/
theorem getTaskRef_dom (e : Option TaskRef) (t : Task) :
    (t.ref.finishTimestamp.isSome = true → (getTaskRef e t).finishTimestamp.isSome = true) ∧
    (t.ref.runningTimestamp.isSome = true → (getTaskRef e t).runningTimestamp.isSome = true) ∧
    (getTaskRef e t).creationTimestamp = t.ref.creationTimestamp := by
  unfold getTaskRef
  cases e with
  | none =>
    simp only
    split <;> exact ⟨id, id, rfl⟩
  | some ex =>
    simp only
    cases hf : t.ref.finishTimestamp <;> cases hr : t.ref.runningTimestamp <;>
      cases hxf : ex.finishTimestamp <;> simp [hf, hr, hxf] <;> (try split) <;> simp_all

/-- the ref recorded by the status refresh under the name of a listed task is that task's `GetTaskRef` -/
theorem pendRef_refreshed {T : List Task} (hT : TasksFn T) (rj : Job) (now : Time) (ex : List TaskRef)
    (hrj : rj.status.tasks = generateTaskRefs now ex T) (t : Task) (ht : t ∈ T) :
    pendRef rj t = getTaskRef (lookupRef ex t.name) t := by
  unfold pendRef findTaskRef
  have hmem : getTaskRef (lookupRef ex t.name) t ∈ rj.status.tasks := by
    rw [hrj]; unfold generateTaskRefs
    rw [mem_sortTaskRefs]
    exact List.mem_append_left _ (List.mem_map.mpr ⟨t, ht, rfl⟩)
  cases hfind : rj.status.tasks.find? (fun r => r.name == t.name) with
  | none =>
    exfalso
    have := List.find?_eq_none.mp hfind _ hmem
    simp only [getTaskRef_name, hT.ok t ht, beq_self_eq_true, not_true_eq_false] at this
  | some r =>
    simp only [Option.getD_some]
    have hr : r ∈ rj.status.tasks := List.mem_of_find?_eq_some hfind
    have hn : r.name = t.name := by simpa using List.find?_some hfind
    rw [hrj] at hr
    rcases mem_generateTaskRefs hr with ⟨t', ht', rfl⟩ | ⟨e, _, hnot, rfl⟩
    · rw [getTaskRef_name, hT.ok t' ht'] at hn
      rw [hT.fn t ht t' ht' hn]
    · exfalso
      rw [(lostRef_fields now e).1] at hn
      exact hnot (List.mem_map.mpr ⟨t, ht, hn.symm⟩)

/-! ### the handlers with nothing to do -/

/-- the task is not past its pending deadline: finished, running, still within the timeout, or
already being deleted -/
def PendQuiet (clk : Int) (pt : Int) (t : Task) : Prop :=
  t.ref.finishTimestamp.isSome = true ∨ t.ref.runningTimestamp.isSome = true ∨
  t.ref.creationTimestamp.getD zeroTime + pt > clk ∨ t.deletionTimestamp.isSome = true

/-- `PendQuiet` for the ref `g t` the step judges the task by -/
def PendQuietG (g : Task → TaskRef) (clk : Int) (pt : Int) (t : Task) : Prop :=
  (g t).finishTimestamp.isSome = true ∨ (g t).runningTimestamp.isSome = true ∨
  (g t).creationTimestamp.getD zeroTime + pt > clk ∨ t.deletionTimestamp.isSome = true

theorem pendFold_quiet (key : String) (pt : Int) (g : Task → TaskRef) : ∀ (tasks : List Task) (s : Sys) (acc : List Task),
    (∀ t ∈ tasks, PendQuietG g s.clock pt t) →
    ∃ s', tasks.foldl (fun (acc : Sys × List Task) (t : Task) =>
        let ref := g t
        if ref.finishTimestamp.isSome then acc
        else if ref.runningTimestamp.isSome then acc
        else
          let deadline := ref.creationTimestamp.getD zeroTime + pt
          if deadline > acc.1.clock then (enqueueAfter acc.1 key deadline, acc.2)
          else if t.deletionTimestamp.isSome then acc
          else (acc.1, acc.2 ++ [t])) (s, acc) = (s', acc) ∧ TimersOnly key s s' ∧
      ((∀ t ∈ tasks, (g t).finishTimestamp.isSome = true ∨ (g t).runningTimestamp.isSome = true) → s' = s)
  | [], s, acc, _ => ⟨s, rfl, TimersOnly.refl key s, fun _ => rfl⟩
  | t :: rest, s, acc, h => by
    simp only [List.foldl_cons]
    have ht := h t List.mem_cons_self
    have hrest : ∀ s1 : Sys, s1.clock = s.clock → ∀ t ∈ rest, PendQuietG g s1.clock pt t := by
      intro s1 hc t' ht'
      rw [hc]; exact h t' (List.mem_cons_of_mem _ ht')
    by_cases h1 : (g t).finishTimestamp.isSome = true
    · simp only [h1, ↓reduceIte]
      obtain ⟨s', e, hto, hex⟩ := pendFold_quiet key pt g rest s acc (hrest s rfl)
      exact ⟨s', e, hto, fun hall => hex (fun t' ht' => hall t' (List.mem_cons_of_mem _ ht'))⟩
    · simp only [h1, Bool.false_eq_true, ↓reduceIte]
      by_cases h2 : (g t).runningTimestamp.isSome = true
      · simp only [h2, ↓reduceIte]
        obtain ⟨s', e, hto, hex⟩ := pendFold_quiet key pt g rest s acc (hrest s rfl)
        exact ⟨s', e, hto, fun hall => hex (fun t' ht' => hall t' (List.mem_cons_of_mem _ ht'))⟩
      · simp only [h2, Bool.false_eq_true, ↓reduceIte]
        by_cases h3 : (g t).creationTimestamp.getD zeroTime + pt > s.clock
        · simp only [h3, ↓reduceIte]
          obtain ⟨s', e, hto, _⟩ := pendFold_quiet key pt g rest (enqueueAfter s key _) acc (hrest _ rfl)
          refine ⟨s', e, (enqueueAfter_timersOnly s key _).trans hto, ?_⟩
          intro hall
          rcases hall t List.mem_cons_self with hx | hx
          · exact absurd hx h1
          · exact absurd hx h2
        · simp only [h3, ↓reduceIte]
          have h4 : t.deletionTimestamp.isSome = true := by
            rcases ht with hx | hx | hx | hx
            · exact absurd hx h1
            · exact absurd hx h2
            · exact absurd hx h3
            · exact hx
          simp only [h4, ↓reduceIte]
          obtain ⟨s', e, hto, hex⟩ := pendFold_quiet key pt g rest s acc (hrest s rfl)
          refine ⟨s', e, hto, ?_⟩
          intro hall
          rcases hall t List.mem_cons_self with hx | hx
          · exact absurd hx h1
          · exact absurd hx h2

/-- `handlePendingTasks` when no task is past its pending deadline: no delete, only timers -/
theorem handlePending_quiet (s : Sys) (jo : JobObj) (rj : Job) (tasks : List Task)
    (hT : TasksFn tasks) (now : Time) (ex : List TaskRef) (hrj : rj.status.tasks = generateTaskRefs now ex tasks)
    (h : ∀ pt, getPendingTimeout rj s.cfg = some pt → 0 < pt → ∀ t ∈ tasks, PendQuiet s.clock pt t) :
    ∃ s', handlePendingTasks s jo rj tasks = (s', some rj) ∧ TimersOnly (jobKey jo) s s' ∧
      ((∀ t ∈ tasks, t.ref.finishTimestamp.isSome = true ∨ t.ref.runningTimestamp.isSome = true) → s' = s) := by
  have hdom : ∀ t ∈ tasks, _ := fun t ht => by
    have := getTaskRef_dom (lookupRef ex t.name) t
    rw [← pendRef_refreshed hT rj now ex hrj t ht] at this
    exact this
  unfold handlePendingTasks
  cases hp : getPendingTimeout rj s.cfg with
  | none => exact ⟨s, rfl, TimersOnly.refl _ s, fun _ => rfl⟩
  | some pt =>
    simp only
    by_cases h0 : pt ≤ 0
    · rw [if_pos h0]; exact ⟨s, rfl, TimersOnly.refl _ s, fun _ => rfl⟩
    · rw [if_neg h0]
      obtain ⟨s', e, hto, hex⟩ := pendFold_quiet (jobKey jo) pt (pendRef rj) tasks s [] (by
        intro t ht
        obtain ⟨d1, d2, d3⟩ := hdom t ht
        rcases h pt hp (by omega) t ht with hx | hx | hx | hx
        · exact Or.inl (d1 hx)
        · exact Or.inr (Or.inl (d2 hx))
        · exact Or.inr (Or.inr (Or.inl (by rw [d3]; exact hx)))
        · exact Or.inr (Or.inr (Or.inr hx)))
      rw [e]
      refine ⟨s', by simp, hto, fun hall => hex (fun t ht => ?_)⟩
      rcases hall t ht with hx | hx
      · exact Or.inl ((hdom t ht).1 hx)
      · exact Or.inr ((hdom t ht).2.1 hx)

/-- `handleKillJob` on a simple Job: nothing -/
theorem handleKill_simple (s : Sys) (jo : JobObj) (rj : Job) (tasks : List Task) (h : SimpleSpec rj) :
    handleKillJob s jo rj tasks = (s, some rj) := by
  obtain ⟨t, ht, hp⟩ := h.tmpl
  have hk : shouldKillJob s.clock rj = false := by
    unfold shouldKillJob shouldKillJobForParallel
    simp [h.kill, h.adm, ht, hp, isTimeSetAndEarlierOrEqual]
  unfold handleKillJob
  simp [hk, h.kill]

theorem foldl_fixed {α β : Type} (f : β → α → β) (P : α → Prop) (hf : ∀ acc a, P a → f acc a = acc) :
    ∀ (l : List α) (acc : β), (∀ a ∈ l, P a) → l.foldl f acc = acc
  | [], acc, _ => rfl
  | a :: rest, acc, h => by
    simp only [List.foldl_cons, hf acc a (h a List.mem_cons_self)]
    exact foldl_fixed f P hf rest acc (fun a' ha' => h a' (List.mem_cons_of_mem _ ha'))

/-- `handleForceDeleteKillingTasks` when no task carries a deletion timestamp: nothing -/
theorem handleForce_quiet (s : Sys) (jo : JobObj) (rj : Job) (tasks : List Task)
    (h : ∀ t ∈ tasks, t.deletionTimestamp = none) : handleForceDelete s jo rj tasks = (s, some rj) := by
  unfold handleForceDelete
  simp only
  split
  · rfl
  · split
    · rfl
    · rw [foldl_fixed _ (fun t : Task => t.deletionTimestamp = none) (fun acc t ht => by simp only [ht]) tasks (s, []) h]
      simp

/-- `handleTTLAfterFinished` on a Job that is not finished: nothing -/
theorem handleTTL_unfinished (s : Sys) (jo : JobObj) (rj : Job) (h : rj.status.condition.finished = none) :
    handleTTL s jo rj = (s, true) := by
  unfold handleTTL
  simp [h]

/-- … on a finished Job before the TTL has elapsed: a timer -/
theorem handleTTL_early (s : Sys) (jo : JobObj) (rj : Job) (fin : CondFinished) (hd : rj.deletionTimestamp = none)
    (h : rj.status.condition.finished = some fin)
    (he : fin.finishTimestamp.getD zeroTime + getTTLAfterFinished rj s.cfg > s.clock) :
    handleTTL s jo rj = (enqueueAfter s (jobKey jo) (fin.finishTimestamp.getD zeroTime + getTTLAfterFinished rj s.cfg), true) := by
  unfold handleTTL
  simp [h, he, isDeleted, hd]

/-- `handleFinishFinalizer` on a Job that is not being deleted: nothing -/
theorem handleFinalizer_live (s : Sys) (jo : JobObj) (rj : Job) (fz : Bool) (h : rj.deletionTimestamp = none) :
    handleFinalizer s jo rj fz = (s, some (rj, fz)) := by
  unfold handleFinalizer
  simp [h]

theorem finalizerStatusInput_live (s : Sys) (jo : JobObj) (rj : Job) (fz : Bool) (h : rj.deletionTimestamp = none) :
    finalizerStatusInput s jo rj fz = none := by
  unfold finalizerStatusInput
  simp [h]

theorem statusHasNullTime_live (s : Sys) (rj : Job) (h : rj.deletionTimestamp = none) :
    statusHasNullTime s rj = false := by
  unfold statusHasNullTime deletionOverrides
  simp [h]

end Furiko.JobCtl.Live
