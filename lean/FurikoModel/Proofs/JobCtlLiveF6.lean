/-
Liveness of the job controller, force-delete part 6: the action filter of the runs with a dead kubelet
(`deadRunEnv`) and `kstate_after_kill_dead`: the invariant of the fair rounds of a single-task Job under
arbitrary fault lists, followed by the user's kill, gives a `KState` in which no pod is being deleted, with
the template and TTL of the original Job.  Core Lean only.
-/
import FurikoModel.Proofs.JobCtlLiveF5
import FurikoModel.Proofs.JobCtlLiveK10

set_option linter.unusedVariables false
set_option linter.unusedSimpArgs false

namespace Furiko.JobCtl.Live
open Furiko Furiko.JobCtl

/-- the actions of the runs with a dead kubelet after the kill: those of the fair rounds under faults (the
kubelet writes of the run BEFORE the kill included) and the user setting the kill timestamp; no pod ever
terminates on its own after the kill (`roundD` uses no kubelet action) -/
def deadRunEnv (_ : Sys) (a : Action) : Prop :=
  match a with
  | .work | .deliverJob | .deliverPod | .advance _ | .kubelet _ | .setFaults _ | .kill _ => True
  | _ => False

instance (s : Sys) (a : Action) : Decidable (deadRunEnv s a) := by cases a <;> unfold deadRunEnv <;> infer_instance

theorem fair_in_deadRunEnv : ∀ s a, fairEnv s a → deadRunEnv s a := fun _ a h => by cases a <;> first | exact h | trivial
theorem deadEnv_in_deadRunEnv : ∀ s a, deadEnv s a → deadRunEnv s a := fun _ a h => by cases a <;> first | exact h | trivial

theorem kstate_after_kill_dead (orc : String → Outcome) (clock : Int) (cfg : ExecConfig) (d : PIndex)
    (j0 : JobObj) (hwf : WF j0) (hspec : SimpleSpec j0.job) (hn : 1 ≤ j0.job.maxAttempts)
    (hunf : j0.job.status.condition.finished = none) (hdash : '-' ∉ d.hash.toList) (F0 : Int)
    (hF0 : F0 ≤ secs (clock / 1000000000)) (fss : List (List String))
    (hTF : ∀ pre suf, fss = pre ++ suf → pre ≠ [] →
      (roundsF orc pre (startState clock cfg d j0)).clock < F0 + getTTLAfterFinished j0.job cfg)
    (t : Time) (ht : t ≤ (roundsF orc fss (startState clock cfg d j0)).clock) (hFt : F0 ≤ t)
    (hTk : (roundsF orc fss (startState clock cfg d j0)).clock < F0 + getTTLAfterFinished j0.job cfg) :
    ∃ jo, jo.name = j0.name ∧ KState jo t F0 (killAt t (roundsF orc fss (startState clock cfg d j0))) ∧
      (killAt t (roundsF orc fss (startState clock cfg d j0))).q.queue ≠ [] ∧
      (killAt t (roundsF orc fss (startState clock cfg d j0))).pods = (roundsF orc fss (startState clock cfg d j0)).pods ∧
      (killAt t (roundsF orc fss (startState clock cfg d j0))).clock = (roundsF orc fss (startState clock cfg d j0)).clock ∧
      (killAt t (roundsF orc fss (startState clock cfg d j0))).cfg = (roundsF orc fss (startState clock cfg d j0)).cfg ∧
      (∀ p ∈ (killAt t (roundsF orc fss (startState clock cfg d j0))).pods, p.pod.deletionTimestamp = none) ∧
      jo.job.template = j0.job.template ∧
      getTTLAfterFinished jo.job (killAt t (roundsF orc fss (startState clock cfg d j0))).cfg = getTTLAfterFinished j0.job cfg := by
  obtain ⟨hcan, hbusy⟩ := init_canon fair_in_deadRunEnv clock cfg d j0 hwf hspec hn hunf hdash F0 hF0
  have hsound : Sound deadRunEnv j0 F0 orc (getTTLAfterFinished j0.job cfg) j0.name (startState clock cfg d j0) :=
    ⟨{ j0 with rv := 1 }, rfl, hcan, Or.inl hbusy, truth_start orc clock cfg d j0 hwf, rfl⟩
  obtain ⟨jo, hname, hcan', _, _, httl⟩ := roundsF_keep fair_in_deadRunEnv (fun _ _ => trivial) orc
    (getTTLAfterFinished j0.job cfg) j0.name fss _ hsound hTF
  obtain ⟨hks, hq, hpods, hclock, hcfg⟩ := kill_stage hcan' t ht hFt (by rw [httl]; exact hTk)
  refine ⟨killedObj jo t _, hname, hks, hq, hpods, hclock, hcfg, ?_, hcan'.ver.template, ?_⟩
  · intro p hp
    rw [hpods] at hp
    exact hcan'.pods.nodel p hp
  · rw [hcfg, ← httl]
    rfl

end Furiko.JobCtl.Live
