/- Helper lemmas about `getCondition` / `getPhase` / `updateJobStatusFromTaskRefs`. Core Lean only. -/
import FurikoModel.Proofs.StatusLemmas
namespace Furiko.ConditionLemmas
open Furiko Furiko.StatusLemmas

/-- shape of every `Finished` condition that `GetCondition` returns -/
theorem getCondition_finished (now : Time) (d : PIndex) (rj : Job) (f : CondFinished)
    (h : (getCondition now d rj).finished = some f) :
    (rj.admissionError = true ∧ f.result = .admissionError) ∨
    (rj.admissionError = false ∧ rj.status.startTime.isSome = true ∧
      (getParallelStatusCounters (getParallelStatus d rj rj.status.tasks).indexes).terminated ≥ ((rj.indexes d).length : Int) ∧
      ((isTimeSetAndEarlierOrEqual now rj.killTimestamp = true ∧ f.result = .killed) ∨
       (isTimeSetAndEarlierOrEqual now rj.killTimestamp = false ∧
        (getParallelStatus d rj rj.status.tasks).summary.complete = true ∧
        f.result = finishedResult rj (getParallelStatus d rj rj.status.tasks).summary))) := by
  unfold getCondition at h
  simp only at h
  by_cases ha : rj.admissionError = true
  · rw [if_pos ha] at h
    simp only [Option.some.injEq] at h
    exact Or.inl ⟨ha, by rw [← h]⟩
  · rw [if_neg ha] at h
    right
    by_cases hs : rj.status.startTime.isNone = true
    · rw [if_pos hs] at h; simp at h
    · rw [if_neg hs] at h
      refine ⟨by simpa using ha, by cases hst : rj.status.startTime <;> simp_all, ?_⟩
      by_cases hk : isTimeSetAndEarlierOrEqual now rj.killTimestamp = true
      · rw [if_pos hk] at h
        by_cases ht : (getParallelStatusCounters (getParallelStatus d rj rj.status.tasks).indexes).terminated ≥ ((rj.indexes d).length : Int)
        · rw [if_pos ht] at h
          simp only [Option.some.injEq] at h
          exact ⟨ht, Or.inl ⟨hk, by rw [← h]⟩⟩
        · rw [if_neg ht] at h; simp at h
      · rw [if_neg hk] at h
        by_cases hc : (!(getParallelStatus d rj rj.status.tasks).summary.complete) = true
        · rw [if_pos hc] at h
          repeat' split at h
          all_goals simp at h
        · rw [if_neg hc] at h
          by_cases ht : (getParallelStatusCounters (getParallelStatus d rj rj.status.tasks).indexes).terminated < ((rj.indexes d).length : Int)
          · rw [if_pos ht] at h; simp at h
          · rw [if_neg ht] at h
            simp only [Option.some.injEq] at h
            exact ⟨by omega, Or.inr ⟨by simpa using hk, by simpa using hc, by rw [← h]⟩⟩

theorem getCondition_count (now : Time) (d : PIndex) (rj : Job) : (getCondition now d rj).count = 1 := by
  unfold getCondition
  simp only
  repeat' split
  all_goals rfl

theorem deletionOverride_count (now : Time) (c : Condition) : (deletionOverride now c).count = 1 := by
  unfold deletionOverride
  cases c.running <;> rfl

/-- the coarse state names the one condition member that is set -/
def StateMatches (s : JobState) (c : Condition) : Prop :=
  (s = .queued ↔ c.queueing.isSome = true) ∧ (s = .waiting ↔ c.waiting.isSome = true) ∧
  (s = .running ↔ c.running.isSome = true) ∧ (s = .finished ↔ c.finished.isSome = true)

instance (s : JobState) (c : Condition) : Decidable (StateMatches s c) := by
  unfold StateMatches; infer_instance

theorem stateMatches_of_count_one (c : Condition) (h : c.count = 1) :
    StateMatches (getJobStateFromCondition c) c := by
  obtain ⟨q, w, r, f⟩ := c
  unfold Condition.count at h
  unfold StateMatches getJobStateFromCondition
  cases q <;> cases w <;> cases r <;> cases f <;> simp_all [Bool.toNat]

-- ---------------------------------------------------------------- UpdateJobStatusFromTaskRefs

theorem sbp_condition (preFix : Bool) (now : Time) (d : PIndex) (rj : Job) (t : Template) :
    (statusBeforePhase preFix now d rj t).condition =
      if deletionOverrides rj (getCondition now d rj) then deletionOverride now (getCondition now d rj)
      else getCondition now d rj := rfl

theorem sbp_state (preFix : Bool) (now : Time) (d : PIndex) (rj : Job) (t : Template) :
    (statusBeforePhase preFix now d rj t).state =
      if preFix then getJobStateFromCondition (getCondition now d rj)
      else getJobStateFromCondition (statusBeforePhase preFix now d rj t).condition := rfl

theorem sbp_tasks (preFix : Bool) (now : Time) (d : PIndex) (rj : Job) (t : Template) :
    (statusBeforePhase preFix now d rj t).tasks = rj.status.tasks := rfl

/-- what a successful `UpdateJobStatusFromTaskRefs` returns, field by field -/
theorem update_some (preFix : Bool) (now : Time) (d : PIndex) (rj nj : Job)
    (h : updateJobStatusFromTaskRefsWith preFix now d rj = some nj) :
    ∃ t, rj.template = some t ∧
      nj.status.condition = (statusBeforePhase preFix now d rj t).condition ∧
      nj.status.state = (statusBeforePhase preFix now d rj t).state ∧
      nj.status.phase = getPhase now { rj with status := statusBeforePhase preFix now d rj t } ∧
      nj.status.tasks = rj.status.tasks ∧
      nj.killTimestamp = rj.killTimestamp := by
  unfold updateJobStatusFromTaskRefsWith at h
  cases ht : rj.template with
  | none => rw [ht] at h; cases h
  | some t =>
    rw [ht] at h
    simp only [Option.some.injEq] at h
    subst h
    exact ⟨t, rfl, rfl, rfl, rfl, rfl, rfl⟩

theorem sbp_condition_count (preFix : Bool) (now : Time) (d : PIndex) (rj : Job) (t : Template) :
    (statusBeforePhase preFix now d rj t).condition.count = 1 := by
  rw [sbp_condition]
  split
  · exact deletionOverride_count now _
  · exact getCondition_count now d rj

/-- generic: a lookup with default lands in the table's values or the default -/
theorem lookup_getD_mem (l : List (String × String)) (k dflt : String) :
    (l.lookup k).getD dflt ∈ l.map (·.2) ++ [dflt] := by
  induction l with
  | nil => simp [List.lookup]
  | cons a as ih =>
    obtain ⟨k', v⟩ := a
    rw [List.lookup_cons]
    cases hk : (k == k')
    · simp only [List.map_cons, List.cons_append, List.mem_cons]
      exact Or.inr ih
    · simp

/-- every phase the head switch of `GetPhase` can return is terminal — by `decide` over the
regenerated tables `Facts.resultToPhase`, `Facts.resultDefaultPhase`, `Facts.terminalPhases` -/
theorem result_phases_terminal :
    ∀ p ∈ Facts.resultToPhase.map (·.2) ++ [Facts.resultDefaultPhase], phaseIsTerminal p = true := by
  decide

theorem phaseOfResult_terminal (r : JobResult) : phaseIsTerminal (phaseOfResult r) = true :=
  result_phases_terminal _ (lookup_getD_mem _ _ _)

/-- none of the phases `GetPhase` returns below the head switch is terminal — by `decide` over
`Facts.terminalPhases` -/
theorem nonfinished_phases_not_terminal :
    ∀ p ∈ [phaseKilling, phaseTerminating, phaseRunning, phaseStarting, phaseRetryBackoff, phaseRetrying,
            phasePending, phaseQueued], phaseIsTerminal p = false := by
  decide

theorem getPhase_terminal_iff (now : Time) (rj : Job) :
    phaseIsTerminal (getPhase now rj) = rj.status.condition.finished.isSome := by
  have hn := nonfinished_phases_not_terminal
  simp only [List.mem_cons, List.mem_nil_iff, or_false, forall_eq_or_imp, forall_eq] at hn
  obtain ⟨h1, h2, h3, h4, h5, h6, h7, h8⟩ := hn
  unfold getPhase
  cases hf : rj.status.condition.finished with
  | some f => simp only [Option.isSome_some]; exact phaseOfResult_terminal f.result
  | none =>
    simp only [Option.isSome_none]
    split
    · exact h1
    · split
      · split <;> assumption
      · split
        · split
          · exact h4
          · split
            · split
              · exact h5
              · split <;> assumption
            · unfold waitingPhaseParallel
              simp only
              split
              · exact h5
              · split <;> assumption
        · exact h8

end Furiko.ConditionLemmas
