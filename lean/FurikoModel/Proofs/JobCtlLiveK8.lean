/-
Liveness of the job controller, kill part 8: THE ROUND OF A JOB BEING KILLED (cooperative kubelet)

    roundK s  =  deliverAll ; reap ; deliverAll ; work ; deliverAll

and its effect on a `KState` whose key is ready (`roundK_spec`): the pods that were being deleted are
gone, every remaining unfinished pod now carries the deletion timestamp, the key is ready again whenever a
pod was marked, and when no unfinished pod was left without deletion timestamp the Job on the server is
`Finished`/`Killed` and every pod is finished.  Core Lean only.
-/
import FurikoModel.Proofs.JobCtlLiveK7

set_option linter.unusedSimpArgs false
set_option linter.unusedVariables false

namespace Furiko.JobCtl.Live
open Furiko Furiko.JobCtl Furiko.WQ Furiko.StatusLemmas Furiko.JobCtlPlan Furiko.Conv

/-- the actions of a kill round: controller passes, informer deliveries, the kubelet finishing the
termination of pods that carry a deletion timestamp -/
def killEnv (_ : Sys) (a : Action) : Prop :=
  match a with
  | .work | .deliverJob | .deliverPod | .podGone _ => True
  | _ => False

instance (s : Sys) (a : Action) : Decidable (killEnv s a) := by cases a <;> unfold killEnv <;> infer_instance

/-- one round of a Job being killed, with a cooperative kubelet -/
def roundK (s : Sys) : Sys := deliverAll (step (deliverAll (reap (deliverAll s))) .work)

def roundKN : Nat → Sys → Sys
  | 0, s => s
  | n + 1, s => roundKN n (roundK s)

theorem roundK_steps {ok : Sys → Action → Prop} {j0 : JobObj} (hok : ∀ s a, killEnv s a → ok s a)
    (s0 s : Sys) (h : Steps ok j0 s0 s) : Steps ok j0 s0 (roundK s) := by
  have hj : ∀ s, ok s .deliverJob := fun s => hok s _ trivial
  have hp : ∀ s, ok s .deliverPod := fun s => hok s _ trivial
  have hk : ∀ s n, ok s (.podGone n) := fun s n => hok s _ trivial
  unfold roundK
  refine deliverAll_steps hj hp s0 _ (.step .work ?_ (hok _ _ trivial) trivial)
  exact deliverAll_steps hj hp s0 _ (reap_steps hk s0 _ (deliverAll_steps hj hp s0 _ h))

theorem roundKN_steps {ok : Sys → Action → Prop} {j0 : JobObj} (hok : ∀ s a, killEnv s a → ok s a) :
    ∀ (n : Nat) (s0 s : Sys), Steps ok j0 s0 s → Steps ok j0 s0 (roundKN n s)
  | 0, _, _, h => h
  | n + 1, s0, s, h => roundKN_steps hok n s0 _ (roundK_steps hok s0 s h)

/-- the environment half of a kill round -/
def envK (s : Sys) : Sys := deliverAll (reap (deliverAll s))

theorem envK_stage {jo : JobObj} {kt : Time} {F0 : Int} {s : Sys} (h : KState jo kt F0 s) :
    KState jo kt F0 (envK s) ∧ (envK s).pods = s.pods.filter stays ∧ (∀ x ∈ s.q.queue, x ∈ (envK s).q.queue) ∧
    (envK s).clock = s.clock := by
  have hidle : deliverAll s = s := deliverAll_idle s h.fresh.jobEvs h.fresh.podEvs
  have hps : PSync s := by unfold PSync; rw [h.fresh.podEvs, h.fresh.podCache]; rfl
  obtain ⟨w1, w2, w3, w4, w5, w6, w7, w8, w9, w10, w11⟩ := reap_spec s h.pods.nodup
  have hjs : JSync (reap s) := by
    unfold JSync; rw [w3, w4, w2, h.fresh.jobEvs, h.fresh.jobCache, h.fresh.job]; rfl
  obtain ⟨d1, d2, d3, d4, d5, d6⟩ := deliverAll_spec (reap s) (w11 hps) hjs
  have he : envK s = deliverAll (reap s) := by unfold envK; rw [hidle]
  have hpods : (envK s).pods = s.pods.filter stays := by rw [he, d5.pods, w1]
  have hclock : (envK s).clock = s.clock := by rw [he, d5.clock, w6]
  have hcfg : (envK s).cfg = s.cfg := by rw [he, d5.cfg, w8]
  have hq : QGrow s.q (envK s).q := by rw [he, ← w10]; exact d6
  have hsub : ∀ p ∈ (envK s).pods, p ∈ s.pods := by
    intro p hp; rw [hpods] at hp; exact (List.mem_filter.mp hp).1
  refine ⟨⟨?_, h.spec, by rw [hclock]; exact h.passed, ?_, hq.wf h.wf, h.lbKill, h.lbRefs,
    fun p hp => h.lbPods p (hsub p hp), by rw [hclock, hcfg]; exact h.ttl⟩, hpods, hq.mono, hclock⟩
  · exact ⟨by rw [he, d3, w2]; exact h.fresh.job, by rw [he, d5.job, w2]; exact h.fresh.job, by rw [he, d4, d5.pods],
      by rw [he]; exact d1, by rw [he]; exact d2, by rw [he, d5.faults, w9]; exact h.fresh.faults⟩
  · exact ⟨fun p hp => h.pods.owned p (hsub p hp), fun p hp => h.pods.sane p (hsub p hp),
      by rw [hpods]; exact podNames_filter_nodup _ h.pods.nodup⟩

theorem map_eq_self {α : Type} (f : α → α) : ∀ (l : List α), l.map f = l → ∀ a ∈ l, f a = a
  | [], _, a, ha => by cases ha
  | x :: rest, h, a, ha => by
    simp only [List.map_cons, List.cons.injEq] at h
    rcases List.mem_cons.mp ha with rfl | ha
    · exact h.1
    · exact map_eq_self f rest h.2 a ha

/-- **one round of a Job being killed** -/
theorem roundK_spec {jo : JobObj} {kt : Time} {F0 : Int} {s : Sys} (h : KState jo kt F0 s) (hq : s.q.queue ≠ []) :
    ∃ jo', KState jo' kt F0 (roundK s) ∧ jo'.name = jo.name ∧ jo'.uid = jo.uid ∧ (roundK s).clock = s.clock ∧
      (∀ p' ∈ (roundK s).pods, ∃ p ∈ s.pods, p.pod.deletionTimestamp = none ∧ p'.pod.name = p.pod.name ∧
        p'.pod.isFinished = p.pod.isFinished ∧ (p.pod.isFinished = false → p'.pod.deletionTimestamp.isSome = true)) ∧
      ((∃ p ∈ s.pods, p.pod.deletionTimestamp = none ∧ p.pod.isFinished = false) → (roundK s).q.queue ≠ []) ∧
      ((∀ p ∈ s.pods, p.pod.deletionTimestamp = none → p.pod.isFinished = true) →
        (∃ f, jo'.job.status.condition.finished = some f ∧ f.result = .killed) ∧
        ∀ p ∈ (roundK s).pods, p.pod.isFinished = true) := by
  obtain ⟨h1, hpods1, hqmono, hclock1⟩ := envK_stage h
  have hnodel : ∀ p ∈ (envK s).pods, p.pod.deletionTimestamp = none := by
    intro p hp
    rw [hpods1] at hp
    have := (List.mem_filter.mp hp).2
    unfold stays at this
    cases hd : p.pod.deletionTimestamp with
    | none => rfl
    | some _ => rw [hd] at this; cases this
  obtain ⟨a1, _, _, _, a5, _, _⟩ := Retry.advance_facts (envK s).q (envK s).clock h1.wf
  obtain ⟨k, rest, hqk⟩ : ∃ k rest, ((envK s).q.advance (envK s).clock).queue = k :: rest := by
    cases hqq : s.q.queue with
    | nil => exact absurd hqq hq
    | cons x r =>
      have hx := a5 x (hqmono x (by rw [hqq]; exact List.mem_cons_self))
      cases hqa : ((envK s).q.advance (envK s).clock).queue with
      | nil => rw [hqa] at hx; cases hx
      | cons k rest => exact ⟨k, rest, rfl⟩
  obtain ⟨jo', N, hj, hname, huid, hspec', httl', _, hlb', hjs, hps, hpc, hpodsw, hN, hclk, hd, hcfg, hflt, hwf, hevs, hfin⟩ :=
    work_kill h1 hnodel k rest hqk
  have hround : roundK s = deliverAll (work (envK s)).1 := rfl
  obtain ⟨d1, d2, d3, d4, d5, d6⟩ := deliverAll_spec (work (envK s)).1 hps hjs
  have hpodsR : (roundK s).pods = (envK s).pods.map (markDts (nowT (envK s)) N) := by rw [hround, d5.pods, hpodsw]
  have hclockR : (roundK s).clock = s.clock := by rw [hround, d5.clock, hclk, hclock1]
  have hcfgR : (roundK s).cfg = (envK s).cfg := by rw [hround, d5.cfg, hcfg]
  -- a finished pod is not named in `N`
  have hNfin : ∀ p ∈ (envK s).pods, p.pod.isFinished = true → markDts (nowT (envK s)) N p = p := by
    intro p hp hf
    unfold markDts
    have : ¬ p.pod.name ∈ N := by
      intro hn
      obtain ⟨p2, hp2, hn2, hf2⟩ := (hN p.pod.name).mp hn
      have e1 := findPod_of_mem_nodup h1.pods.nodup hp
      have e2 := findPod_of_mem_nodup h1.pods.nodup hp2
      rw [hn2, e1] at e2
      have : p = p2 := Option.some.inj e2
      subst this
      rw [hf] at hf2; cases hf2
    simp [this]
  have hmark : ∀ p ∈ (envK s).pods, p.pod.isFinished = false →
      (markDts (nowT (envK s)) N p).pod.deletionTimestamp.isSome = true := by
    intro p hp hf
    have hn : p.pod.name ∈ N := (hN p.pod.name).mpr ⟨p, hp, rfl, hf⟩
    unfold markDts
    simp [hn, hnodel p hp]
  have hKS : KState jo' kt F0 (roundK s) := by
    refine ⟨?_, hspec', by rw [hclockR]; exact h.passed, ?_, d6.wf hwf, h.lbKill, hlb', ?_, ?_⟩
    · exact ⟨by rw [hround, d3, hj], by rw [hround, d5.job, hj], by rw [hround, d4, d5.pods], by rw [hround]; exact d1,
        by rw [hround]; exact d2, by rw [hround, d5.faults]; exact hflt⟩
    · refine ⟨?_, ?_, ?_⟩
      · intro p hp
        rw [hpodsR] at hp
        obtain ⟨p0, hp0, rfl⟩ := List.mem_map.mp hp
        obtain ⟨f1, f2, f3, _⟩ := markDts_fields (nowT (envK s)) N p0
        rw [f1, f2, f3, huid, hname]; exact h1.pods.owned p0 hp0
      · intro p hp
        rw [hpodsR] at hp
        obtain ⟨p0, hp0, rfl⟩ := List.mem_map.mp hp
        obtain ⟨_, _, _, _, _, _, f7, f8⟩ := markDts_fields (nowT (envK s)) N p0
        exact ⟨f8 (h1.pods.sane p0 hp0).1, by rw [f7]; exact (h1.pods.sane p0 hp0).2⟩
      · rw [hpodsR, podNames_markDts]; exact h1.pods.nodup
    · intro p hp f hf
      rw [hpodsR] at hp
      obtain ⟨p0, hp0, rfl⟩ := List.mem_map.mp hp
      rw [(markDts_fields (nowT (envK s)) N p0).2.2.2.2.2.1] at hf
      exact h1.lbPods p0 hp0 f hf
    · rw [hclockR, hcfgR]
      have : getTTLAfterFinished jo'.job (envK s).cfg = getTTLAfterFinished jo.job (envK s).cfg := by
        unfold getTTLAfterFinished; rw [httl']
      rw [this, ← hclock1]; exact h1.ttl
  refine ⟨jo', hKS, hname, huid, hclockR, ?_, ?_, ?_⟩
  · intro p' hp'
    rw [hpodsR] at hp'
    obtain ⟨p0, hp0, rfl⟩ := List.mem_map.mp hp'
    have hp0s : p0 ∈ s.pods := by rw [hpods1] at hp0; exact (List.mem_filter.mp hp0).1
    obtain ⟨_, _, _, f4, f5, _⟩ := markDts_fields (nowT (envK s)) N p0
    exact ⟨p0, hp0s, hnodel p0 hp0, f4, f5, hmark p0 hp0⟩
  · rintro ⟨p, hp, hdn, hfn⟩
    have hp1 : p ∈ (envK s).pods := by
      rw [hpods1]; exact List.mem_filter.mpr ⟨hp, by unfold stays; rw [hdn]; rfl⟩
    -- a pod was marked: a pod event is pending
    have hne : (work (envK s)).1.podEvs ≠ [] := by
      intro hnil
      have hsync := hps
      unfold PSync at hsync
      rw [hnil, hpc, hpodsw] at hsync
      have := map_eq_self _ _ hsync.symm p hp1
      have hm := hmark p hp1 hfn
      rw [this, hdn] at hm
      cases hm
    cases hev : (work (envK s)).1.podEvs with
    | nil => exact absurd hev hne
    | cons e rest' =>
      obtain ⟨p0, hp0, pe, e1, e2, e3⟩ := hevs e (by rw [hev]; exact List.mem_cons_self)
      subst e1
      have ho := h1.pods.owned p0 hp0
      rw [hround]
      exact deliverAll_ready_pod _ jo' pe rest' hev hjs hj (by rw [e2, huid]; exact ho.1) (by rw [e3, hname]; exact ho.2.1) hwf
  · intro hall
    have hall1 : ∀ p ∈ (envK s).pods, p.pod.isFinished = true := by
      intro p hp
      have hp0s : p ∈ s.pods := by rw [hpods1] at hp; exact (List.mem_filter.mp hp).1
      exact hall p hp0s (hnodel p hp)
    refine ⟨hfin hall1, ?_⟩
    intro p hp
    rw [hpodsR] at hp
    obtain ⟨p0, hp0, rfl⟩ := List.mem_map.mp hp
    rw [hNfin p0 hp0 (hall1 p0 hp0)]
    exact hall1 p0 hp0

end Furiko.JobCtl.Live
