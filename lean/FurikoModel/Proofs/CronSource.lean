/-
The shapes the SOURCE has (regenerated facts) as a `Shapes` value for the transition system of
Proofs/CronLoaded.lean.
-/
import FurikoModel.Generated.Facts
import FurikoModel.Proofs.CronLoaded

namespace Furiko.Cron
open Furiko

/-- handler registrations and F24 shapes as `harness/cmd/extract` found them in the source -/
def Shapes.source : Shapes :=
  ⟨Facts.cronHandlerAdd, Facts.cronHandlerUpdate, Facts.cronHandlerDelete,
   Facts.cronHandleAddTakesLoaded, Facts.cronHandleDeleteForgetsLoaded⟩

end Furiko.Cron
