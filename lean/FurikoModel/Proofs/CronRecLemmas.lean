/-
Helper lemmas for Props/C02.lean: key codec round trips, decomposition of generated names at the
last `-`, identity fields of a produced Job, and the inductive invariant of the transition system.
Core Lean only.
-/
import FurikoModel.Model.CronRec
import FurikoModel.Proofs.StrLemmas

namespace Furiko.CronRec
open Furiko.Str

/-! ### key codec -/

theorem dot_not_mem_showInt (t : Int) : '.' ∉ showInt t := not_mem_showInt t (by decide) (by decide)
theorem slash_not_mem_showInt (t : Int) : '/' ∉ showInt t := not_mem_showInt t (by decide) (by decide)

theorem getLastD_append_single {α} (l : List α) (a d : α) : (l ++ [a]).getLastD d = a := by
  simp [List.getLastD_eq_getLast?]

theorem splitKey_joinKey (k : Str) {t : Int} (ht : InInt64 t) : splitKey (joinKey k t) = .ok (k, t) := by
  unfold splitKey joinKey
  have hsep : Facts.cronKeyJoinSep = '.' := rfl
  have hsep2 : Facts.cronKeySplitSep = '.' := rfl
  have hsep3 : Facts.cronKeyRejoinSep = '.' := rfl
  have hmin : Facts.cronKeyMinTokens = 2 := rfl
  rw [hsep, hsep2, hsep3, hmin, splitOn_snoc_token k (showInt t) (dot_not_mem_showInt t)]
  have hne := splitOn_ne_nil '.' k
  have hlen : ¬ ((splitOn '.' k ++ [showInt t]).length < 2) := by
    cases h : splitOn '.' k with
    | nil => exact absurd h hne
    | cons a as => simp
  simp only [hlen, if_false, getLastD_append_single, parseUnix, atoi_showInt ht, List.dropLast_concat,
    join_splitOn]

/-- outside the int64 range the round trip fails (`time.Time.Unix()` never produces such a value) -/
theorem splitKey_joinKey_out_of_range (k : Str) {t : Int} (ht : ¬ InInt64 t) :
    splitKey (joinKey k t) = .error .badTs := by
  unfold splitKey joinKey
  have hsep : Facts.cronKeyJoinSep = '.' := rfl
  have hsep2 : Facts.cronKeySplitSep = '.' := rfl
  have hmin : Facts.cronKeyMinTokens = 2 := rfl
  rw [hsep, hsep2, hmin, splitOn_snoc_token k (showInt t) (dot_not_mem_showInt t)]
  have hne := splitOn_ne_nil '.' k
  have hlen : ¬ ((splitOn '.' k ++ [showInt t]).length < 2) := by
    cases h : splitOn '.' k with
    | nil => exact absurd h hne
    | cons a as => simp
  simp only [hlen, if_false, getLastD_append_single, parseUnix, atoi_showInt_out_of_range ht]

theorem splitNsKey_jobConfigKey {ns name : Str} (t : Int) (hns : '/' ∉ ns) (hname : '/' ∉ name) :
    splitNsKey (jobConfigKey ns name t) = some (ns, joinKey name t) := by
  have hj : '/' ∉ joinKey name t := by
    unfold joinKey
    have hsep : Facts.cronKeyJoinSep = '.' := rfl
    rw [hsep]
    intro h
    rcases List.mem_append.mp h with h | h
    · exact hname h
    · rcases List.mem_cons.mp h with h | h
      · exact absurd h (by decide)
      · exact slash_not_mem_showInt t h
  unfold splitNsKey jobConfigKey metaNsKey
  cases ns with
  | nil =>
    simp only [List.length_nil, Nat.lt_irrefl, if_false, gt_iff_lt]
    rw [splitOn_of_not_mem hj]
  | cons c cs =>
    simp only [List.length_cons, gt_iff_lt, Nat.zero_lt_succ, if_true]
    have : joinKey ((c :: cs) ++ '/' :: name) t = (c :: cs) ++ '/' :: joinKey name t := by
      simp [joinKey]
    rw [this, splitOn_append_sep, splitOn_of_not_mem hns, splitOn_of_not_mem hj]
    rfl

/-! ### names -/

/-- the name of the Job for a non-zero schedule time: a pure function of (JobConfig name, time) -/
def jobName (cfgName : Str) (t : Int) : Str := cfgName ++ '-' :: showInt t

theorem generateName_eq_jobName (now : Int) (c : Str) {t : Int} (h : t ≠ zeroUnix) :
    generateName now c t = jobName c t := by
  simp [generateName, jobName, h, show Facts.jobNameSep = '-' from rfl]

theorem generateName_zero (now : Int) (c : Str) : generateName now c zeroUnix = jobName c now := by
  simp [generateName, jobName, show Facts.jobNameSep = '-' from rfl]

/-- unique decomposition at the last `-`: if neither tail contains `-`, prefixes and tails agree -/
theorem split_at_last_dash {p p' d d' : Str} (hd : '-' ∉ d) (hd' : '-' ∉ d')
    (h : p ++ '-' :: d = p' ++ '-' :: d') : p = p' ∧ d = d' := by
  induction p generalizing p' with
  | nil =>
    cases p' with
    | nil => simpa using h
    | cons x q =>
      simp only [List.nil_append, List.cons_append, List.cons.injEq] at h
      exact absurd (h.2 ▸ (by simp : '-' ∈ q ++ '-' :: d')) hd
  | cons y r ih =>
    cases p' with
    | nil =>
      simp only [List.nil_append, List.cons_append, List.cons.injEq] at h
      exact absurd (h.2 ▸ (by simp : '-' ∈ r ++ '-' :: d)) hd'
    | cons x q =>
      simp only [List.cons_append, List.cons.injEq] at h
      obtain ⟨rfl, h2⟩ := h
      obtain ⟨rfl, rfl⟩ := ih h2
      exact ⟨rfl, rfl⟩

theorem dash_not_mem_natDigits (n : Nat) : '-' ∉ natDigits n :=
  fun h => ne_of_isDigit (natDigits_isDigit h) (by decide) rfl

/-- prefix of a name before the final `-<digits>`: the JobConfig name, plus the sign if negative -/
def namePrefix (c : Str) (t : Int) : Str := if t < 0 then c ++ ['-'] else c

theorem jobName_decomp (c : Str) (t : Int) : jobName c t = namePrefix c t ++ '-' :: natDigits t.natAbs := by
  unfold jobName namePrefix showInt
  by_cases h : t < 0 <;> simp [h]

/-- exact characterisation of when two (name, time) pairs get the same Job name -/
theorem jobName_eq_iff (c c' : Str) (t t' : Int) :
    jobName c t = jobName c' t' ↔
      (c = c' ∧ t = t') ∨ (c = c' ++ ['-'] ∧ 0 < t ∧ t' = -t) ∨ (c' = c ++ ['-'] ∧ 0 < t' ∧ t = -t') := by
  constructor
  · intro h
    rw [jobName_decomp, jobName_decomp] at h
    obtain ⟨hp, hdig⟩ := split_at_last_dash (dash_not_mem_natDigits _) (dash_not_mem_natDigits _) h
    have habs : t.natAbs = t'.natAbs := natDigits_injective hdig
    unfold namePrefix at hp
    by_cases h1 : t < 0 <;> by_cases h2 : t' < 0 <;> simp only [h1, h2, if_true, if_false] at hp
    · left; exact ⟨List.append_cancel_right hp, by omega⟩
    · right; right; exact ⟨hp.symm, by omega, by omega⟩
    · right; left; exact ⟨hp, by omega, by omega⟩
    · left; exact ⟨hp, by omega⟩
  · rintro (⟨rfl, rfl⟩ | ⟨rfl, h1, rfl⟩ | ⟨rfl, h1, rfl⟩)
    · rfl
    · rw [jobName_decomp, jobName_decomp]
      have a : ¬ (t < 0) := by omega
      simp [namePrefix, a, h1]
    · rw [jobName_decomp, jobName_decomp]
      have a : ¬ (t' < 0) := by omega
      simp [namePrefix, a, h1]

/-! ### association lists -/

theorem mapGet_mapSet_self (m : KV) (k v : Str) : mapGet (mapSet m k v) k = some v := by
  unfold mapGet mapSet
  have : (m.filter (fun e => e.1 ≠ k)).find? (fun e => decide (e.1 = k)) = none := by
    rw [List.find?_eq_none]
    intro x hx
    have := (List.mem_filter.mp hx).2
    simpa using this
  rw [List.find?_append, this]
  simp

theorem mapGet_mapSet_other (m : KV) {k k' : Str} (v : Str) (h : k' ≠ k) :
    mapGet (mapSet m k v) k' = mapGet m k' := by
  unfold mapGet mapSet
  have h1 : ([(k, v)] : KV).find? (fun e => decide (e.1 = k')) = none := by
    simp [h.symm]
  have hp : (fun a : Str × Str => decide (decide (a.1 ≠ k) = true ∧ decide (a.1 = k') = true)) = (fun a => decide (a.1 = k')) := by
    funext a
    by_cases hk' : a.1 = k' <;> simp [hk', h]
  rw [List.find?_append, h1, List.find?_filter, hp]
  simp

theorem mapCopyInto_single (m : KV) (k v : Str) : mapCopyInto m [(k, v)] = mapSet m k v := rfl
theorem mapCopyInto_nil (m : KV) : mapCopyInto m [] = m := rfl

/-! ### identity fields of a produced Job -/

/-- the Job that `processCron` submits for `(c, t)` when it reaches the create call -/
def scheduledJob (now : Int) (c : JobConfig) (t : Int) (vars : KV) : Job :=
  { ns := c.ns, name := generateName now c.name t, labels := makeLabels c,
    annots := makeAnnotations c typeScheduled t,
    finalizers := [Facts.deleteDependentsFinalizer.toList], owners := [controllerRef c],
    jobType := typeScheduled, startPolicy := some c.policy, subst := vars, tmpl := c.tmpl }

theorem schedAnnot_scheduledJob (now : Int) (c : JobConfig) (t : Int) (vars : KV) :
    (scheduledJob now c t vars).schedAnnot = some (showInt t) := by
  simp [scheduledJob, Job.schedAnnot, makeAnnotations, mapCopyInto_single, mapGet_mapSet_self]

theorem ownerUid_scheduledJob (now : Int) (c : JobConfig) (t : Int) (vars : KV) :
    (scheduledJob now c t vars).ownerUid = some c.uid := by
  simp [scheduledJob, Job.ownerUid, controllerRef]

theorem uidLabel_scheduledJob (now : Int) (c : JobConfig) (t : Int) (vars : KV) :
    mapGet (scheduledJob now c t vars).labels labelKeyUID = some c.uid := by
  simp [scheduledJob, makeLabels, mapCopyInto_single, mapGet_mapSet_self]

/-! ### processCron / syncOne: effect on the server -/

/-- a Job produced by the reconciler from a JobConfig version of the world -/
def Made (world : JobConfig → Prop) (j : Job) : Prop :=
  ∃ c t now vars, world c ∧ j = scheduledJob now c t vars

theorem processCron_create {now : Int} {jc : Option JobConfig} {active : Int} {mx : Option Int}
    {inCache : Str → Str → Bool} {t : Int} {j : Job}
    (h : processCron now jc active mx inCache t = .create j) :
    ∃ c vars, jc = some c ∧ c.subst = some vars ∧ j = scheduledJob now c t vars ∧ inCache j.ns j.name = false := by
  unfold processCron at h
  cases jc with
  | none => simp at h
  | some c =>
    simp only at h
    split at h
    · simp at h
    · split at h
      · simp at h
      · unfold newJobFromJobConfig at h
        cases hs : c.subst with
        | none => simp [hs] at h
        | some vars =>
          simp only [hs] at h
          split at h
          · simp at h
          · rename_i hc
            simp only [Decision.create.injEq] at h
            subst h
            refine ⟨c, vars, rfl, hs, rfl, ?_⟩
            simpa using hc

/-- the server's collection after `apiCreate`: unchanged, or extended by a Job whose name was free -/
theorem apiCreate_api (api : Api) (j : Job) (inj : Inject) :
    (apiCreate api j inj).1 = api ∨ ((apiCreate api j inj).1 = api ++ [j] ∧ api.has j.ns j.name = false) := by
  unfold apiCreate
  cases inj <;> simp only
  · by_cases h : api.has j.ns j.name = true
    · simp [h]
    · right; simp [h]
  · left; trivial
  · left; trivial
  · by_cases h : api.has j.ns j.name = true
    · simp [h]
    · right; simp [h]

theorem syncOne_api (now : Int) (api : Api) (lookup : Str → Str → Option JobConfig) (active : JobConfig → Int)
    (mx : Option Int) (inCache : Str → Str → Bool) (inj : Inject) (ns name : Str) :
    (syncOne now api lookup active mx inCache inj ns name).api = api ∨
    ∃ cfgName t c vars, splitKey name = .ok (cfgName, t) ∧ lookup ns cfgName = some c ∧
      (syncOne now api lookup active mx inCache inj ns name).api = api ++ [scheduledJob now c t vars] ∧
      api.has c.ns (generateName now c.name t) = false := by
  unfold syncOne
  cases hk : splitKey name with
  | error e => left; rfl
  | ok p =>
    obtain ⟨cfgName, t⟩ := p
    simp only
    cases hd : processCron now (lookup ns cfgName)
        (match lookup ns cfgName with | some c => active c | none => 0) mx inCache t with
    | done r evs => left; rfl
    | create j =>
      obtain ⟨c, vars, hjc, _, hj, _⟩ := processCron_create hd
      simp only
      rcases apiCreate_api api j inj with h | ⟨h, hfree⟩
      · left
        cases hc : apiCreate api j inj
        rw [hc] at h
        simpa using h
      · right
        refine ⟨cfgName, t, c, vars, rfl, hjc, ?_, ?_⟩
        · cases hc : apiCreate api j inj
          rw [hc] at h
          simp only at h ⊢
          rw [h, hj]
        · rw [hj] at hfree
          exact hfree

theorem syncItem_api (now : Int) (api : Api) (lookup : Str → Str → Option JobConfig) (active : JobConfig → Int)
    (mx : Option Int) (inCache : Str → Str → Bool) (inj : Inject) (key : Str) :
    (syncItem now api lookup active mx inCache inj key).api = api ∨
    ∃ ns cfgName t c vars, lookup ns cfgName = some c ∧
      (syncItem now api lookup active mx inCache inj key).api = api ++ [scheduledJob now c t vars] ∧
      api.has c.ns (generateName now c.name t) = false := by
  unfold syncItem
  cases hs : splitNsKey key with
  | none => left; rfl
  | some p =>
    obtain ⟨ns, name⟩ := p
    simp only
    rcases syncOne_api now api lookup active mx inCache inj ns name with h | ⟨cfgName, t, c, vars, _, hl, h, hf⟩
    · left; exact h
    · right; exact ⟨ns, cfgName, t, c, vars, hl, h, hf⟩

theorem listerGet_mem {cache : List JobConfig} {ns name : Str} {c : JobConfig}
    (h : listerGet cache ns name = some c) : c ∈ cache :=
  List.mem_of_find?_eq_some h

/-! ### the invariant -/

def sameKey (a b : Job) : Prop := a.ns = b.ns ∧ a.name = b.name

structure Inv (world : JobConfig → Prop) (s : Sys) : Prop where
  /-- the API server's name uniqueness -/
  distinct : s.api.Pairwise (fun a b => ¬ sameKey a b)
  /-- every Job on the server was produced by the reconciler from a JobConfig of the world -/
  made : ∀ j ∈ s.api, Made world j
  /-- the JobConfig lister only ever holds (possibly stale) versions of real JobConfigs -/
  cache : ∀ c ∈ s.jcCache, world c

theorem has_false_iff {api : Api} {ns name : Str} :
    api.has ns name = false ↔ ∀ a ∈ api, ¬ (a.ns = ns ∧ a.name = name) := by
  unfold Api.has
  rw [List.any_eq_false]
  constructor
  · intro h a ha; simpa using h a ha
  · intro h a ha; simpa using h a ha

theorem inv_init (world : JobConfig → Prop) : Inv world {} :=
  ⟨List.Pairwise.nil, (by intro j h; cases h), (by intro c h; cases h)⟩

theorem inv_step {world : JobConfig → Prop} {s s' : Sys} (a : Action)
    (hinv : Inv world s) (hstep : step world s a s') : Inv world s' := by
  cases a with
  | request c t =>
    obtain ⟨_, rfl⟩ := hstep
    exact ⟨hinv.distinct, hinv.made, hinv.cache⟩
  | crash =>
    have : s' = { s with queue := [] } := hstep
    subst this
    exact ⟨hinv.distinct, hinv.made, hinv.cache⟩
  | deliver jcs jobs =>
    obtain ⟨hw, rfl⟩ := hstep
    exact ⟨hinv.distinct, hinv.made, hw⟩
  | delete ns name =>
    have : s' = { s with api := s.api.filter (fun j => ¬ (j.ns = ns ∧ j.name = name)) } := hstep
    subst this
    refine ⟨hinv.distinct.sublist List.filter_sublist, ?_, hinv.cache⟩
    intro j hj
    exact hinv.made j (List.mem_filter.mp hj).1
  | process key now active mx inj requeue =>
    obtain ⟨_, rfl⟩ := hstep
    rcases syncItem_api now s.api (listerGet s.jcCache) active mx (jobLister s.jobCache) inj key with
      h | ⟨ns, cfgName, t, c, vars, hl, h, hfree⟩
    · refine ⟨?_, ?_, hinv.cache⟩
      · simp only [h]; exact hinv.distinct
      · simp only [h]; exact hinv.made
    · have hw : world c := hinv.cache c (listerGet_mem hl)
      refine ⟨?_, ?_, hinv.cache⟩
      · simp only [h]
        rw [List.pairwise_append]
        refine ⟨hinv.distinct, List.pairwise_singleton _ _, ?_⟩
        intro a ha b hb
        rw [List.mem_singleton] at hb
        subst hb
        exact has_false_iff.mp hfree a ha
      · simp only [h]
        intro j hj
        rcases List.mem_append.mp hj with hj | hj
        · exact hinv.made j hj
        · rw [List.mem_singleton] at hj
          exact ⟨c, t, now, vars, hw, hj⟩

theorem inv_reachable {world : JobConfig → Prop} {s : Sys} (h : Reachable world s) : Inv world s := by
  induction h with
  | init => exact inv_init world
  | step a _ hs ih => exact inv_step a ih hs

/-- a list whose elements are pairwise related by `R` but in which no two members are related
has at most one element -/
theorem length_le_one_of_pairwise {α} {R : α → α → Prop} {l : List α} (hp : l.Pairwise R)
    (hn : ∀ a ∈ l, ∀ b ∈ l, ¬ R a b) : l.length ≤ 1 := by
  match l, hp with
  | [], _ => simp
  | [_], _ => simp
  | a :: b :: r, hp =>
    have := (List.pairwise_cons.mp hp).1 b (by simp)
    exact absurd this (hn a (by simp) b (by simp))

end Furiko.CronRec
