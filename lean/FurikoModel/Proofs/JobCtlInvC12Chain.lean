/-
The controller's copies of the Job lag behind the authoritative object, never run ahead of it
(history level, ALL actions).

`versList s` lists the Job versions of a state in the order in which the controller will hold them: the
cached one, the undelivered upsert events (oldest first), the authoritative object.  Every step changes
that list by dropping members, by duplicating the authoritative object (restart), or by appending a
version that one of four writes put over the authoritative object (`Wrote`: user kill, deletion mark,
the controller's `Update` / `UpdateStatus` computed from the object it overwrites).  `VersInv` abstracts
what a property of the list needs to survive that (`versInv_step`).  Two instances:
* `Chain R`: a reflexive, transitive relation that every write respects holds from every earlier to
  every later member of the list (`chain_of_reach`: an invariant of every history);
* `AllVers Q`: a property that every write keeps holds of ALL members, once it holds of all
  (`allVers_steps`).
Used by `Props/C12Hist.lean` with "carries a kill timestamp": once ANY copy the controller holds shows a
kill timestamp, every copy it will ever hold later shows one too.  Core Lean only.
-/
import FurikoModel.Proofs.JobCtlInvJob

set_option linter.unusedSimpArgs false
set_option linter.unusedVariables false

namespace Furiko.JobCtl
open Furiko Furiko.WQ

/-- the Job versions of a state, oldest copy first: cache, undelivered upserts, authoritative object -/
def versList (s : Sys) : List JobObj := seenVers s ++ s.job.toList

/-- `nj` is what a write of the transition system puts over the authoritative object `cur` -/
inductive Wrote : JobObj → JobObj → Prop
  /-- user kill -/
  | kill (cur : JobObj) (t : Time) (rv : Nat) :
      Wrote cur { cur with job := { cur.job with killTimestamp := some t }, rv := rv }
  /-- deletion mark (user delete / TTL delete of a Job with the finalizer) -/
  | del (cur : JobObj) (t : Time) (rv : Nat) :
      Wrote cur { cur with job := { cur.job with deletionTimestamp := some t }, rv := rv }
  /-- the controller's `Update`, computed from the object it overwrites -/
  | spec (jo new : JobObj) (rv : Nat) : JobLe jo.job new.job → Wrote jo (specWrite jo new rv)
  /-- the controller's `UpdateStatus`, computed from the object it overwrites -/
  | status (jo new : JobObj) (rv : Nat) : JobLe jo.job new.job → Wrote jo (statusWrite jo new rv)

/-- a property of the version list that survives every step -/
structure VersInv (IL : List JobObj → Prop) : Prop where
  sub : ∀ l l' : List JobObj, l'.Sublist l → IL l → IL l'
  write : ∀ (A : List JobObj) (cur nj : JobObj), IL (A ++ [cur]) → Wrote cur nj → IL (A ++ [nj] ++ [nj])
  dup : ∀ j : JobObj, IL [j] → IL [j, j]

section generic
variable {IL : List JobObj → Prop}

theorem VersInv.of_eq (hI : VersInv IL) {s s' : Sys} (h : IL (versList s)) (hjob : s'.job = s.job)
    (hseen : seenVers s' = seenVers s) : IL (versList s') := by
  unfold versList at *
  rw [hjob, hseen]; exact h

theorem VersInv.frame (hI : VersInv IL) {s s' : Sys} (h : IL (versList s)) (hf : Frame s s') : IL (versList s') :=
  hI.of_eq h hf.job (seenVers_congr hf.jobCache hf.jobEvs)

theorem VersInv.podChange (hI : VersInv IL) {s s' : Sys} (h : IL (versList s)) (hst : Static s s')
    (hjob : s'.job = s.job) (hevs : s'.jobEvs = s.jobEvs) : IL (versList s') :=
  hI.of_eq h hjob (seenVers_congr hst.jobCache hevs)

theorem VersInv.jobWrite (hI : VersInv IL) {s s' : Sys} {cur nj : JobObj} (h : IL (versList s))
    (hcur : s.job = some cur) (hw : JobWrite s s' nj) (hrel : Wrote cur nj) : IL (versList s') := by
  have hseen : seenVers s' = seenVers s ++ [nj] := by
    unfold seenVers
    rw [hw.static.jobCache, hw.jobEvs, upserts_append, List.append_assoc]
    rfl
  unfold versList at *
  rw [hcur] at h
  rw [hw.job, hseen]
  exact hI.write _ cur nj h hrel

theorem VersInv.jobGone (hI : VersInv IL) {s s' : Sys} (h : IL (versList s)) (hg : JobGone s s') :
    IL (versList s') := by
  have hseen : seenVers s' = seenVers s := by
    obtain ⟨x, hx⟩ := hg.jobEvs
    unfold seenVers
    rw [hg.static.jobCache, hx, upserts_append]
    simp [upserts]
  refine hI.sub _ _ ?_ h
  unfold versList
  rw [hg.job, hseen]
  simp

theorem versList_deliverJob (s : Sys) : (versList (deliverJob s)).Sublist (versList s) := by
  unfold versList
  rw [(deliverJob_fields s).1]
  refine List.Sublist.append ?_ (List.Sublist.refl _)
  unfold deliverJob
  cases he : s.jobEvs with
  | nil => simp only [he]; exact List.Sublist.refl _
  | cons e rest =>
    cases e with
    | upsert j =>
      simp only
      unfold seenVers
      rw [he, upserts_cons_upsert]
      simp only [Option.toList_some, List.singleton_append]
      exact List.sublist_append_right _ _
    | delete j =>
      simp only
      cases hcache : s.jobCache with
      | none =>
        simp only
        unfold seenVers
        rw [he, upserts_cons_delete, hcache]
        exact List.Sublist.refl _
      | some old =>
        simp only
        unfold seenVers
        rw [he, upserts_cons_delete, hcache]
        simp only [Option.toList_none, List.nil_append, Option.toList_some, List.singleton_append]
        exact List.sublist_cons_self _ _

theorem VersInv.afterRestart (hI : VersInv IL) {s : Sys} (h : IL (versList s)) : IL (versList (restart s)) := by
  have hf : (restart s).job = s.job ∧ seenVers (restart s) = s.job.toList := by
    unfold restart
    cases hj : s.job <;> simp [seenVers, upserts, hj]
  have hsub : (s.job.toList).Sublist (versList s) := by
    unfold versList; exact List.sublist_append_right _ _
  have h1 := hI.sub _ _ hsub h
  unfold versList
  rw [hf.1, hf.2]
  cases hj : s.job with
  | none => rw [hj] at h1; exact h1
  | some j =>
    rw [hj] at h1
    exact hI.dup j h1

theorem VersInv.micro (hI : VersInv IL) {j0 jo : JobObj} {sp s s' : Sys}
    (hb : Base j0 s) (h : IL (versList s)) (hc : s.jobCache = some jo)
    (hid : CachedIsCur jo (sync sp jo).1) (hm : Micro jo sp s s') :
    IL (versList s') := by
  have hseen := mem_seenVers_cache hc
  cases hm with
  | frame hf => exact hI.frame h hf
  | create idx retry hreq _ =>
    rcases apiCreatePod_spec s jo idx retry with h' | h'
    · exact hI.frame h h'.1
    · exact hI.podChange h h'.1.static h'.1.job h'.1.jobEvs
  | delPod name force =>
    rcases apiDeletePod_spec s name force with h' | ⟨p, _, h', _⟩ | ⟨p, _, _, _, h'⟩
    · exact hI.frame h h'
    · exact hI.podChange h h'.static h'.job h'.jobEvs
    · exact hI.podChange h h'.static h'.job h'.jobEvs
  | delJob =>
    rcases apiDeleteJob_spec s jo with h' | ⟨c, hc', _, _, h'⟩ | ⟨c, _, _, h'⟩
    · exact hI.frame h h'
    · exact hI.jobWrite h hc' h' (.del c _ _)
    · exact hI.jobGone h h'
  | updJob _ =>
    rcases apiUpdateJob_spec s jo { jo with job := (sync sp jo).2.1, finalizer := (sync sp jo).2.2.1 } with
      h' | ⟨c, hc', hrv, h' | h'⟩
    · exact hI.frame h h'
    · have : jo = c := hb.rvId c hc' jo hseen hrv.symm
      subst this
      exact hI.jobWrite h hc' h'.1 (.spec jo _ _ (sync_spec sp jo sp (CreatePhase.refl _)).2)
    · exact hI.jobGone h h'.1
  | updStatus =>
    rcases apiUpdateJobStatus_spec s jo { jo with job := (sync sp jo).2.1 } with h' | ⟨c, hc', hrv, h'⟩
    · exact hI.frame h h'
    · have : jo = c := hb.rvId c hc' jo hseen hrv.symm
      subst this
      exact hI.jobWrite h hc' h' (.status jo _ _ (sync_spec sp jo sp (CreatePhase.refl _)).2)
  | updStatusOn s1 hs1 hs hok =>
    rcases apiUpdateJobStatus_spec s { jo with rv := updatedRv s jo } { jo with job := (sync sp jo).2.1 } with
      h' | ⟨c, hc', hrv, h'⟩
    · exact hI.frame h h'
    · have hcs := (apiUpdateJob_ok_cur (hs1 ▸ hid) hok c (hs ▸ hc')).1
      rw [hcs] at hc' h'
      exact hI.jobWrite h hc' h'
        (.status _ { jo with job := (sync sp jo).2.1 } _
          (JobLe.of_specWrite (sync_spec sp jo sp (CreatePhase.refl _)).2 _))

theorem VersInv.micros (hI : VersInv IL) {j0 jo : JobObj} {sp s s' : Sys}
    (hb : Base j0 s) (h : IL (versList s)) (hc : s.jobCache = some jo)
    (hid : CachedIsCur jo (sync sp jo).1) (hm : Micros jo sp s s') :
    IL (versList s') := by
  induction hm with
  | refl => exact h
  | tail hms hm ih =>
    have := hb.micros hc hms
    exact hI.micro this.1 ih this.2 hid hm

/-- the property of the version list survives every step -/
theorem versInv_step (hI : VersInv IL) {j0 : JobObj} {s : Sys} (hb : Base j0 s)
    (h : IL (versList s)) (a : Action) (hal : Allowed j0 s a) : IL (versList (step s a)) := by
  cases a with
  | setFaults fs => exact hI.of_eq h rfl rfl
  | work =>
    show IL (versList (work s).1)
    cases hc : s.jobCache with
    | none => exact hI.frame h (work_frame s hc)
    | some jo =>
      obtain ⟨sp, hf, hm⟩ := work_micros s jo hc
      exact hI.micros (hb.frame hf) (hI.frame h hf) (hf.jobCache.trans hc)
        (cachedIsCur_sync (hb.frame hf) (hf.jobCache.trans hc)) hm
  | deliverJob => exact hI.sub _ _ (versList_deliverJob s) h
  | deliverPod =>
    show IL (versList (deliverPod s))
    have := deliverPod_fields s
    exact hI.of_eq h this.1 (seenVers_congr this.2.2.2.2.2.1 this.2.2.2.2.1)
  | resync => exact hI.frame (s' := resync s) h (resync_frame s)
  | restart => exact hI.afterRestart h
  | advance d => exact hI.of_eq h rfl rfl
  | kubelet p =>
    show IL (versList (setPodState s p))
    rcases setPodState_spec s p with h' | ⟨old, h'⟩
    · rw [h']; exact h
    · exact hI.podChange h h'.static h'.job h'.jobEvs
  | podGone n =>
    show IL (versList (removePod s n))
    rcases removePod_spec s n with h' | ⟨p, _, h'⟩
    · rw [h']; exact h
    · exact hI.podChange h h'.static h'.job h'.jobEvs
  | externalDelete n =>
    show IL (versList (removePod s n))
    rcases removePod_spec s n with h' | ⟨p, _, h'⟩
    · rw [h']; exact h
    · exact hI.podChange h h'.static h'.job h'.jobEvs
  | kill t =>
    show IL (versList (mutateJobObj s _))
    rcases mutateJobObj_spec s (fun j => { j with job := { j.job with killTimestamp := some t } }) with h' | ⟨c, hc, h'⟩
    · rw [h'.2]; exact h
    · exact hI.jobWrite h hc h' (.kill c t _)
  | userDelete =>
    show IL (versList (userDeleteJob s))
    rcases userDeleteJob_spec s with h' | ⟨c, hc, _, _, h'⟩ | ⟨c, _, _, h'⟩
    · rw [h']; exact h
    · exact hI.jobWrite h hc h' (.del c _ _)
    · exact hI.jobGone h h'
  | createForeign p =>
    show IL (versList (createForeignPod s p))
    rcases createForeignPod_spec s p with h' | h'
    · rw [h']; exact h
    · exact hI.podChange h h'.static h'.job h'.jobEvs

/-- … and every continuation of a history -/
theorem versInv_steps (hI : VersInv IL) {ok : Sys → Action → Prop} {j0 : JobObj} {s s' : Sys}
    (hr : Reach ok j0 s) (hs : Steps ok j0 s s') (h : IL (versList s)) : IL (versList s') := by
  induction hs with
  | refl => exact h
  | step a hs' _ hal ih => exact versInv_step hI (base_of_reach (hr.steps hs')) ih a hal

end generic

/-! ### first instance: a relation along the list -/

def Chain (R : JobObj → JobObj → Prop) (s : Sys) : Prop := (versList s).Pairwise R

/-- reflexive, transitive, and every write moves forward along it -/
structure WriteMono (R : JobObj → JobObj → Prop) : Prop where
  refl : ∀ x, R x x
  trans : ∀ x y z, R x y → R y z → R x z
  wrote : ∀ cur nj, Wrote cur nj → R cur nj

theorem chain_versInv {R : JobObj → JobObj → Prop} (hR : WriteMono R) : VersInv (List.Pairwise R) where
  sub := fun l l' hs h => List.Pairwise.sublist hs h
  write := by
    intro A cur nj h hw
    have hrel := hR.wrote cur nj hw
    rw [List.pairwise_append] at h
    obtain ⟨h1, _, h3⟩ := h
    rw [List.pairwise_append]
    refine ⟨?_, List.pairwise_singleton _ _, ?_⟩
    · rw [List.pairwise_append]
      refine ⟨h1, List.pairwise_singleton _ _, ?_⟩
      intro a ha b hb
      simp only [List.mem_singleton] at hb; subst hb
      exact hR.trans _ _ _ (h3 a ha cur (by simp)) hrel
    · intro a ha b hb
      simp only [List.mem_singleton] at hb; subst hb
      rcases List.mem_append.mp ha with ha | ha
      · exact hR.trans _ _ _ (h3 a ha cur (by simp)) hrel
      · simp only [List.mem_singleton] at ha; subst ha; exact hR.refl _
  dup := fun j _ => List.pairwise_pair.mpr (hR.refl j)

theorem Chain.init {R : JobObj → JobObj → Prop} (hR : WriteMono R) (j0 : JobObj) (clock : Int) (cfg : ExecConfig)
    (d : PIndex) : Chain R (initSys clock cfg d j0) := by
  unfold Chain versList initSys userCreateJob seenVers upserts
  simp only [Option.toList_none, List.nil_append, List.filterMap_cons, List.filterMap_nil, Option.toList_some,
    List.singleton_append]
  exact List.pairwise_pair.mpr (hR.refl _)

/-- **the version chain is an invariant** of every history, all actions allowed -/
theorem chain_of_reach {R : JobObj → JobObj → Prop} (hR : WriteMono R) {ok : Sys → Action → Prop} {j0 : JobObj}
    {s : Sys} (hr : Reach ok j0 s) : Chain R s := by
  induction hr with
  | init c cfg d _ => exact Chain.init hR j0 c cfg d
  | step a hr' _ hal ih => exact versInv_step (chain_versInv hR) (base_of_reach hr') ih a hal

/-- the cached copy is related to the authoritative object -/
theorem Chain.cache_job {R : JobObj → JobObj → Prop} {s : Sys} (h : Chain R s) {c j : JobObj}
    (hc : s.jobCache = some c) (hj : s.job = some j) : R c j := by
  unfold Chain versList seenVers at h
  rw [hc, hj] at h
  simp only [Option.toList_some, List.singleton_append, List.cons_append] at h
  exact (List.pairwise_cons.mp h).1 j (by simp)

/-- … and to every undelivered upsert -/
theorem Chain.cache_event {R : JobObj → JobObj → Prop} {s : Sys} (h : Chain R s) {c v : JobObj}
    (hc : s.jobCache = some c) (hv : v ∈ upserts s.jobEvs) : R c v := by
  unfold Chain versList seenVers at h
  rw [hc] at h
  simp only [Option.toList_some, List.singleton_append, List.cons_append] at h
  exact (List.pairwise_cons.mp h).1 v (List.mem_append_left _ hv)

/-- every copy the controller can see is related to the authoritative object -/
theorem Chain.seen_job {R : JobObj → JobObj → Prop} {s : Sys} (h : Chain R s) {v j : JobObj}
    (hv : v ∈ seenVers s) (hj : s.job = some j) : R v j := by
  unfold Chain versList at h
  rw [hj] at h
  exact (List.pairwise_append.mp h).2.2 v hv j (by simp)

/-- the cached copy is related to every other member of the list -/
theorem Chain.cache_all {R : JobObj → JobObj → Prop} (hR : WriteMono R) {s : Sys} (h : Chain R s) {c : JobObj}
    (hc : s.jobCache = some c) : ∀ v ∈ versList s, R c v := by
  intro v hv
  unfold Chain at h
  unfold versList seenVers at h hv
  rw [hc] at h hv
  simp only [Option.toList_some, List.singleton_append, List.cons_append, List.mem_cons] at h hv
  rcases hv with rfl | hv
  · exact hR.refl _
  · exact (List.pairwise_cons.mp h).1 v hv

/-! ### second instance: a property of all members -/

def AllVers (Q : JobObj → Prop) (l : List JobObj) : Prop := ∀ v ∈ l, Q v

theorem allVers_versInv {Q : JobObj → Prop} (hQ : ∀ cur nj, Wrote cur nj → Q cur → Q nj) : VersInv (AllVers Q) where
  sub := fun l l' hs h v hv => h v (hs.subset hv)
  write := by
    intro A cur nj h hw v hv
    have hcur : Q cur := h cur (by simp)
    simp only [List.append_assoc, List.mem_append, List.mem_singleton, List.mem_cons, List.not_mem_nil,
      or_false] at hv
    rcases hv with hv | rfl | rfl
    · exact h v (List.mem_append_left _ hv)
    · exact hQ cur _ hw hcur
    · exact hQ cur _ hw hcur
  dup := fun j h v hv => by
    simp only [List.mem_cons, List.not_mem_nil, or_false] at hv
    rcases hv with rfl | rfl <;> exact h _ (by simp)

/-! ### "carries a kill timestamp" -/

/-- if `v` shows a kill timestamp so does `w` -/
def KillSeen (v w : JobObj) : Prop := v.job.killTimestamp.isSome = true → w.job.killTimestamp.isSome = true

theorem wrote_kill {cur nj : JobObj} (h : Wrote cur nj) : KillSeen cur nj := by
  cases h with
  | kill t rv => intro _; rfl
  | del t rv => intro h; exact h
  | spec new rv hle =>
    intro h
    show (specWrite cur new rv).job.killTimestamp.isSome = true
    unfold specWrite
    simp only
    rw [hle.kill]; exact h
  | status new rv _ => intro h; exact h

theorem killSeen_mono : WriteMono KillSeen where
  refl := fun _ h => h
  trans := fun _ _ _ h1 h2 h => h2 (h1 h)
  wrote := fun _ _ h => wrote_kill h

/-- if `v` is being deleted so is `w` -/
def DelSeen (v w : JobObj) : Prop := v.job.deletionTimestamp.isSome = true → w.job.deletionTimestamp.isSome = true

theorem wrote_del {cur nj : JobObj} (h : Wrote cur nj) : DelSeen cur nj := by
  cases h with
  | kill t rv => intro h; exact h
  | del t rv => intro _; rfl
  | spec new rv _ => intro h; exact h
  | status new rv _ => intro h; exact h

theorem delSeen_mono : WriteMono DelSeen where
  refl := fun _ h => h
  trans := fun _ _ _ h1 h2 h => h2 (h1 h)
  wrote := fun _ _ h => wrote_del h

/-- **once the cached copy shows a kill timestamp, every copy the controller holds later does**: along
every continuation of a history (all actions), whatever the cache holds afterwards carries one -/
theorem kill_seen_stays {ok : Sys → Action → Prop} {j0 : JobObj} {s s' : Sys} (hr : Reach ok j0 s)
    (hs : Steps ok j0 s s') {c c' : JobObj} (hc : s.jobCache = some c) (hk : c.job.killTimestamp.isSome = true)
    (hc' : s'.jobCache = some c') : c'.job.killTimestamp.isSome = true := by
  have hall : AllVers (fun v => v.job.killTimestamp.isSome = true) (versList s) :=
    fun v hv => (chain_of_reach killSeen_mono hr).cache_all killSeen_mono hc v hv hk
  have := versInv_steps (allVers_versInv (fun cur nj hw h => wrote_kill hw h)) hr hs hall
  exact this c' (by unfold versList seenVers; rw [hc']; simp)

/-- … and so does the authoritative object, as long as it exists -/
theorem kill_seen_job {ok : Sys → Action → Prop} {j0 : JobObj} {s s' : Sys} (hr : Reach ok j0 s)
    (hs : Steps ok j0 s s') {c j' : JobObj} (hc : s.jobCache = some c) (hk : c.job.killTimestamp.isSome = true)
    (hj' : s'.job = some j') : j'.job.killTimestamp.isSome = true := by
  have hall : AllVers (fun v => v.job.killTimestamp.isSome = true) (versList s) :=
    fun v hv => (chain_of_reach killSeen_mono hr).cache_all killSeen_mono hc v hv hk
  have := versInv_steps (allVers_versInv (fun cur nj hw h => wrote_kill hw h)) hr hs hall
  exact this j' (by unfold versList; rw [hj']; simp)

end Furiko.JobCtl
