/-
Liveness of the job controller, part 7: the kubelet sweep, the clock jump and the FAIR ROUND

    round orc s  =  deliverAll ; sweep orc ; deliverAll ; jump ; work ; deliverAll

(one rotation of "deliver — pass — deliver — kubelet — advance the clock"), each phase a composition of
existing `Action`s, so that `Steps ok j0 s (round orc s)` for every filter `ok` that admits controller
passes, informer deliveries, kubelet status writes and clock advances.  Core Lean only.
-/
import FurikoModel.Proofs.JobCtlLive6

set_option linter.unusedSimpArgs false
set_option linter.unusedVariables false

namespace Furiko.JobCtl.Live
open Furiko Furiko.JobCtl Furiko.WQ Furiko.StatusLemmas Furiko.JobCtlPlan

/-! ### the kubelet finishes every live pod -/

/-- what the kubelet makes of a pod that runs to completion -/
inductive Outcome where
  | succeed | fail
  deriving DecidableEq, Repr, Inhabited

def Outcome.phase : Outcome → PodPhase
  | .succeed => .succeeded
  | .fail => .failed

/-- the kubelet's terminal status write: only the phase changes -/
def finishPod (o : Outcome) (p : PodObj) : PodObj := { p with pod := { p.pod with phase := o.phase } }

/-- a finished pod is left alone; a live pod is finished as the oracle says -/
def sweepPod (orc : String → Outcome) (p : PodObj) : PodObj :=
  if p.pod.isFinished then p else finishPod (orc p.pod.name) p

def sweepOne (orc : String → Outcome) (s : Sys) (n : String) : Sys :=
  match findPod s.pods n with
  | some p => if p.pod.isFinished then s else step s (.kubelet (finishPod (orc n) p))
  | none => s

/-- the kubelet finishes every pod of the server that is not finished yet -/
def sweep (orc : String → Outcome) (s : Sys) : Sys := (podNames s.pods).foldl (sweepOne orc) s

theorem finishPod_finished (o : Outcome) (p : PodObj) : (finishPod o p).pod.isFinished = true := by
  cases o <;> simp [finishPod, Outcome.phase, Pod.isFinished]

theorem sweepPod_finished (orc : String → Outcome) (p : PodObj) : (sweepPod orc p).pod.isFinished = true := by
  unfold sweepPod
  split
  · assumption
  · exact finishPod_finished _ _

theorem sweepPod_name (orc : String → Outcome) (p : PodObj) : (sweepPod orc p).pod.name = p.pod.name := by
  unfold sweepPod finishPod; split <;> rfl

theorem sweepPod_idem (orc : String → Outcome) (p : PodObj) : sweepPod orc (sweepPod orc p) = sweepPod orc p := by
  have := sweepPod_finished orc p
  show (if (sweepPod orc p).pod.isFinished then sweepPod orc p else _) = _
  rw [if_pos this]

theorem kubeletOK_finish (o : Outcome) (p : PodObj) (h : p.pod.isFinished = false) : KubeletOK p (finishPod o p) := by
  refine ⟨rfl, rfl, rfl, rfl, rfl, rfl, rfl, rfl, ?_, ?_⟩
  · cases o <;> cases hp : p.pod.phase <;> simp [finishPod, Outcome.phase, phaseRank]
  · intro hf; rw [h] at hf; cases hf

/-- one step of the sweep, field by field -/
theorem sweepOne_spec (orc : String → Outcome) (s : Sys) (n : String) (hnd : (podNames s.pods).Nodup) :
    (sweepOne orc s n).pods = s.pods.map (fun x => if x.pod.name = n then sweepPod orc x else x) ∧
    (sweepOne orc s n).job = s.job ∧ (sweepOne orc s n).jobEvs = s.jobEvs ∧
    (sweepOne orc s n).jobCache = s.jobCache ∧ (sweepOne orc s n).podCache = s.podCache ∧
    (sweepOne orc s n).clock = s.clock ∧ (sweepOne orc s n).d = s.d ∧ (sweepOne orc s n).cfg = s.cfg ∧
    (sweepOne orc s n).faults = s.faults ∧ (sweepOne orc s n).q = s.q ∧
    (PSync s → PSync (sweepOne orc s n)) ∧
    ((∃ p ∈ s.pods, p.pod.name = n ∧ p.pod.isFinished = false) → (sweepOne orc s n).podEvs ≠ []) ∧
    (∀ p, PEv.upsert p ∈ (sweepOne orc s n).podEvs → PEv.upsert p ∈ s.podEvs ∨ ∃ p0 ∈ s.pods, p = finishPod (orc n) p0) := by
  unfold sweepOne
  cases hf : findPod s.pods n with
  | none =>
    dsimp only
    refine ⟨?_, rfl, rfl, rfl, rfl, rfl, rfl, rfl, rfl, rfl, id, ?_, fun p hp => Or.inl hp⟩
    · conv => lhs; rw [← List.map_id s.pods]
      apply List.map_congr_left
      intro x hx
      have := findPod_none hf x hx
      simp [this]
    · rintro ⟨p, hp, hn, _⟩
      exact absurd hn (findPod_none hf p hp)
  | some p =>
    have hpm := findPod_some hf
    dsimp only
    by_cases hfin : p.pod.isFinished = true
    · rw [if_pos hfin]
      refine ⟨?_, rfl, rfl, rfl, rfl, rfl, rfl, rfl, rfl, rfl, id, ?_, fun p hp => Or.inl hp⟩
      · conv => lhs; rw [← List.map_id s.pods]
        apply List.map_congr_left
        intro x hx
        by_cases hxn : x.pod.name = n
        · have : x = p := by
            have h1 := findPod_of_mem_nodup hnd hx
            rw [hxn, hf] at h1
            exact (Option.some.inj h1).symm
          subst this
          simp [hxn, sweepPod, hfin]
        · simp [hxn]
      · rintro ⟨p', hp', hn', hl⟩
        have : p' = p := by
          have h1 := findPod_of_mem_nodup hnd hp'
          rw [hn', hf] at h1
          exact (Option.some.inj h1).symm
        subst this
        rw [hfin] at hl; cases hl
    · rw [if_neg hfin]
      have hfin' : p.pod.isFinished = false := by simpa using hfin
      have hfound : findPod s.pods (finishPod (orc n) p).pod.name = some p := by
        show findPod s.pods p.pod.name = some p
        rw [hpm.2]; exact hf
      have hstep : step s (.kubelet (finishPod (orc n) p)) =
          { s with rv := s.rv + 1, pods := setPod s.pods (finishPod (orc n) p),
                   podEvs := s.podEvs ++ [.upsert (finishPod (orc n) p)] } := by
        show setPodState s _ = _
        unfold setPodState
        rw [hfound]
      rw [hstep]
      refine ⟨?_, rfl, rfl, rfl, rfl, rfl, rfl, rfl, rfl, rfl, ?_, fun _ => by simp, ?_⟩
      · show setPod s.pods (finishPod (orc n) p) = _
        unfold setPod
        have hany : s.pods.any (·.pod.name = (finishPod (orc n) p).pod.name) = true :=
          List.any_eq_true.mpr ⟨p, hpm.1, by simp [finishPod]⟩
        rw [if_pos hany]
        apply List.map_congr_left
        intro x hx
        show (if x.pod.name = p.pod.name then finishPod (orc n) p else x) = _
        rw [hpm.2]
        by_cases hxn : x.pod.name = n
        · have : x = p := by
            have h1 := findPod_of_mem_nodup hnd hx
            rw [hxn, hf] at h1
            exact (Option.some.inj h1).symm
          subst this
          simp [hxn, sweepPod, hfin', hpm.2]
        · simp [hxn]
      · intro hps
        unfold PSync at *
        show (s.podEvs ++ [PEv.upsert (finishPod (orc n) p)]).foldl applyPEv s.podCache = setPod s.pods _
        rw [List.foldl_append, hps]
        rfl
      · intro q hq
        rcases List.mem_append.mp hq with h | h
        · exact Or.inl h
        · simp only [List.mem_singleton, PEv.upsert.injEq] at h
          exact Or.inr ⟨p, hpm.1, h⟩

theorem sweepOne_steps {ok : Sys → Action → Prop} {j0 : JobObj} (hk : ∀ s p, ok s (.kubelet p))
    (orc : String → Outcome) (n : String) (s0 s : Sys) (h : Steps ok j0 s0 s) : Steps ok j0 s0 (sweepOne orc s n) := by
  unfold sweepOne
  cases hf : findPod s.pods n with
  | none => exact h
  | some p =>
    simp only
    by_cases hfin : p.pod.isFinished = true
    · rw [if_pos hfin]; exact h
    · rw [if_neg hfin]
      refine .step _ h (hk _ _) ?_
      show OptSat (findPod s.pods (finishPod (orc n) p).pod.name) _
      have : findPod s.pods (finishPod (orc n) p).pod.name = some p := by
        show findPod s.pods p.pod.name = some p
        rw [(findPod_some hf).2]; exact hf
      rw [this]
      exact kubeletOK_finish _ p (by simpa using hfin)

theorem foldl_sweepOne_steps {ok : Sys → Action → Prop} {j0 : JobObj} (hk : ∀ s p, ok s (.kubelet p))
    (orc : String → Outcome) : ∀ (L : List String) (s0 s : Sys), Steps ok j0 s0 s →
      Steps ok j0 s0 (L.foldl (sweepOne orc) s)
  | [], _, _, h => h
  | n :: rest, s0, s, h => foldl_sweepOne_steps hk orc rest s0 _ (sweepOne_steps hk orc n s0 s h)

theorem sweep_steps {ok : Sys → Action → Prop} {j0 : JobObj} (hk : ∀ s p, ok s (.kubelet p))
    (orc : String → Outcome) (s0 s : Sys) (h : Steps ok j0 s0 s) : Steps ok j0 s0 (sweep orc s) :=
  foldl_sweepOne_steps hk orc _ s0 s h

/-- the sweep over a list of names -/
theorem foldl_sweepOne_spec (orc : String → Outcome) : ∀ (L : List String) (s : Sys), (podNames s.pods).Nodup →
    (L.foldl (sweepOne orc) s).pods = s.pods.map (fun x => if x.pod.name ∈ L then sweepPod orc x else x) ∧
    (L.foldl (sweepOne orc) s).job = s.job ∧ (L.foldl (sweepOne orc) s).jobEvs = s.jobEvs ∧
    (L.foldl (sweepOne orc) s).jobCache = s.jobCache ∧ (L.foldl (sweepOne orc) s).podCache = s.podCache ∧
    (L.foldl (sweepOne orc) s).clock = s.clock ∧ (L.foldl (sweepOne orc) s).d = s.d ∧
    (L.foldl (sweepOne orc) s).cfg = s.cfg ∧ (L.foldl (sweepOne orc) s).faults = s.faults ∧
    (L.foldl (sweepOne orc) s).q = s.q ∧ (PSync s → PSync (L.foldl (sweepOne orc) s))
  | [], s, _ => by
    refine ⟨?_, rfl, rfl, rfl, rfl, rfl, rfl, rfl, rfl, rfl, id⟩
    simp
  | n :: rest, s, hnd => by
    obtain ⟨a1, a2, a3, a4, a5, a6, a7, a8, a9, a10, a11, _, _⟩ := sweepOne_spec orc s n hnd
    have hnd1 : (podNames (sweepOne orc s n).pods).Nodup := by
      rw [a1]
      unfold podNames
      rw [List.map_map]
      have : (fun x : PodObj => x.pod.name) ∘ (fun x => if x.pod.name = n then sweepPod orc x else x) = (·.pod.name) := by
        funext x
        simp only [Function.comp]
        split
        · exact sweepPod_name orc x
        · rfl
      rw [this]; exact hnd
    obtain ⟨b1, b2, b3, b4, b5, b6, b7, b8, b9, b10, b11⟩ := foldl_sweepOne_spec orc rest (sweepOne orc s n) hnd1
    simp only [List.foldl_cons]
    refine ⟨?_, b2.trans a2, b3.trans a3, b4.trans a4, b5.trans a5, b6.trans a6, b7.trans a7, b8.trans a8,
      b9.trans a9, b10.trans a10, fun h => b11 (a11 h)⟩
    rw [b1, a1, List.map_map]
    apply List.map_congr_left
    intro x hx
    simp only [Function.comp, List.mem_cons]
    by_cases hxn : x.pod.name = n
    · simp only [hxn, ↓reduceIte, true_or]
      have : (sweepPod orc x).pod.name = n := by rw [sweepPod_name, hxn]
      simp only [this]
      split
      · exact sweepPod_idem orc x
      · rfl
    · simp only [hxn, ↓reduceIte, false_or]

/-- **the sweep**: every pod is replaced by its finished version; nothing else on the server changes -/
theorem sweep_spec (orc : String → Outcome) (s : Sys) (hnd : (podNames s.pods).Nodup) :
    (sweep orc s).pods = s.pods.map (sweepPod orc) ∧
    (sweep orc s).job = s.job ∧ (sweep orc s).jobEvs = s.jobEvs ∧
    (sweep orc s).jobCache = s.jobCache ∧ (sweep orc s).podCache = s.podCache ∧
    (sweep orc s).clock = s.clock ∧ (sweep orc s).d = s.d ∧
    (sweep orc s).cfg = s.cfg ∧ (sweep orc s).faults = s.faults ∧
    (sweep orc s).q = s.q ∧ (PSync s → PSync (sweep orc s)) := by
  obtain ⟨b1, b2, b3, b4, b5, b6, b7, b8, b9, b10, b11⟩ := foldl_sweepOne_spec orc (podNames s.pods) s hnd
  refine ⟨?_, b2, b3, b4, b5, b6, b7, b8, b9, b10, b11⟩
  show ((podNames s.pods).foldl (sweepOne orc) s).pods = _
  rw [b1]
  apply List.map_congr_left
  intro x hx
  have : x.pod.name ∈ podNames s.pods := List.mem_map.mpr ⟨x, hx, rfl⟩
  simp [this]

/-! ### time passes until every armed timer has fired -/

/-- the latest of a base time and the deadlines of the work queue -/
def maxDl : List (String × Int) → Int → Int
  | [], m => m
  | e :: rest, m => maxDl rest (if m < e.2 then e.2 else m)

theorem maxDl_ge : ∀ (l : List (String × Int)) (m : Int), m ≤ maxDl l m ∧ ∀ e ∈ l, e.2 ≤ maxDl l m
  | [], m => ⟨Int.le_refl _, fun e he => by cases he⟩
  | x :: rest, m => by
    obtain ⟨h1, h2⟩ := maxDl_ge rest (if m < x.2 then x.2 else m)
    unfold maxDl
    by_cases hm : m < x.2
    · simp only [hm, ↓reduceIte] at h1 h2 ⊢
      refine ⟨by omega, ?_⟩
      intro e he
      rcases List.mem_cons.mp he with rfl | he
      · exact h1
      · exact h2 e he
    · simp only [hm, ↓reduceIte] at h1 h2 ⊢
      refine ⟨h1, ?_⟩
      intro e he
      rcases List.mem_cons.mp he with rfl | he
      · omega
      · exact h2 e he

def jobUnfinished (s : Sys) : Bool :=
  match s.job with
  | some j => j.job.status.condition.finished.isNone
  | none => false

/-- while the Job is not finished, the clock moves to the latest armed deadline -/
def jump (s : Sys) : Sys :=
  if jobUnfinished s then step s (.advance (maxDl s.q.delayed s.clock - s.clock).toNat) else s

theorem jump_eq (s : Sys) : jump s = if jobUnfinished s then { s with clock := maxDl s.q.delayed s.clock } else s := by
  unfold jump
  split
  · show ({ s with clock := s.clock + ((maxDl s.q.delayed s.clock - s.clock).toNat : Int) } : Sys) = _
    have := (maxDl_ge s.q.delayed s.clock).1
    have h : s.clock + ((maxDl s.q.delayed s.clock - s.clock).toNat : Int) = maxDl s.q.delayed s.clock := by omega
    rw [h]
  · rfl

theorem jump_steps {ok : Sys → Action → Prop} {j0 : JobObj} (ha : ∀ s d, ok s (.advance d))
    (s0 s : Sys) (h : Steps ok j0 s0 s) : Steps ok j0 s0 (jump s) := by
  unfold jump
  split
  · exact .step _ h (ha _ _) trivial
  · exact h

/-! ### the fair round -/

/-- the actions of a fair round: controller passes, informer deliveries, kubelet status writes, clock -/
def fairEnv (_ : Sys) (a : Action) : Prop :=
  match a with
  | .work | .deliverJob | .deliverPod | .advance _ | .kubelet _ => True
  | _ => False

instance (s : Sys) (a : Action) : Decidable (fairEnv s a) := by cases a <;> unfold fairEnv <;> infer_instance

/-- one fair round of environment and controller -/
def round (orc : String → Outcome) (s : Sys) : Sys :=
  deliverAll (step (jump (deliverAll (sweep orc (deliverAll s)))) .work)

def roundN (orc : String → Outcome) : Nat → Sys → Sys
  | 0, s => s
  | n + 1, s => roundN orc n (round orc s)

/-- a round is a path of the transition system -/
theorem round_steps {ok : Sys → Action → Prop} {j0 : JobObj} (hok : ∀ s a, fairEnv s a → ok s a)
    (orc : String → Outcome) (s0 s : Sys) (h : Steps ok j0 s0 s) : Steps ok j0 s0 (round orc s) := by
  have hj : ∀ s, ok s .deliverJob := fun s => hok s _ trivial
  have hp : ∀ s, ok s .deliverPod := fun s => hok s _ trivial
  have hk : ∀ s p, ok s (.kubelet p) := fun s p => hok s _ trivial
  have ha : ∀ s d, ok s (.advance d) := fun s d => hok s _ trivial
  unfold round
  refine deliverAll_steps hj hp s0 _ (.step .work ?_ (hok _ _ trivial) trivial)
  exact jump_steps ha s0 _ (deliverAll_steps hj hp s0 _ (sweep_steps hk orc s0 _ (deliverAll_steps hj hp s0 _ h)))

theorem roundN_steps {ok : Sys → Action → Prop} {j0 : JobObj} (hok : ∀ s a, fairEnv s a → ok s a)
    (orc : String → Outcome) : ∀ (n : Nat) (s0 s : Sys), Steps ok j0 s0 s → Steps ok j0 s0 (roundN orc n s)
  | 0, _, _, h => h
  | n + 1, s0, s, h => roundN_steps hok orc n s0 _ (round_steps hok orc s0 s h)

end Furiko.JobCtl.Live
