/-
Helpers for Props/C20Inst, part 4: the per-config pass of the job-queue controller
(`Model/Queue.lean`) followed by the explicit step "every watch event the pass produced is
delivered and both handlers have run" (`deliverAll`), on top of `Proofs/QueueSys.lean`,
`Proofs/QueueReach.lean`, `Props/C05.lean`, `Props/C06.lean`.  Core Lean only.
-/
import FurikoModel.Props.C05
import FurikoModel.Props.C06

set_option linter.unusedVariables false
set_option linter.unusedSimpArgs false

namespace Furiko.ConvQ
open Furiko Furiko.Queue Furiko.WQ

/-- `n` applications of `f` -/
def iter (f : Sys → Sys) : Nat → Sys → Sys
  | 0, s => s
  | n + 1, s => iter f n (f s)

/-- the explicit delivery step: every undelivered Job watch event is delivered to the cache, then
the store handler runs every pending notification, then the controller's handler does -/
def deliverAll (s : Sys) : Sys :=
  let s1 := iter deliverJob s.jobEvs.length s
  let s2 := iter notifyStore s1.storeQ.length s1
  iter notifyCtrl s2.ctrlQ.length s2

/-- one round: a per-config pass, then the delivery step -/
def qRound (s : Sys) : Sys := deliverAll (workConfig s).1

theorem iter_inv (f : Sys → Sys) (P : Sys → Prop) (hf : ∀ s, P s → P (f s)) :
    ∀ (n : Nat) (s : Sys), P s → P (iter f n s) := by
  intro n
  induction n with
  | zero => intro s h; exact h
  | succ n ih => intro s h; exact ih (f s) (hf s h)

/-- a projection that `f` leaves alone is left alone by `iter f n` -/
theorem iter_keep {α : Type} (f : Sys → Sys) (π : Sys → α) (hf : ∀ s, π (f s) = π s) (n : Nat) (s : Sys) :
    π (iter f n s) = π s := by
  induction n generalizing s with
  | zero => rfl
  | succ n ih => show π (iter f n (f s)) = π s; rw [ih, hf]

/-- a list that `f` pops is empty after as many steps as it is long -/
theorem iter_drain {α : Type} (f : Sys → Sys) (π : Sys → List α) (hf : ∀ s, π (f s) = (π s).tail) :
    ∀ (n : Nat) (s : Sys), (π s).length ≤ n → π (iter f n s) = [] := by
  intro n
  induction n with
  | zero => intro s h; exact List.eq_nil_of_length_eq_zero (Nat.le_zero.mp h)
  | succ n ih =>
    intro s h
    show π (iter f n (f s)) = []
    refine ih (f s) ?_
    rw [hf, List.length_tail]
    omega

/-! ### what the three delivery actions touch -/

theorem deliverJob_jobEvs (s : Sys) : (deliverJob s).jobEvs = s.jobEvs.tail := by
  unfold deliverJob
  cases h : s.jobEvs with
  | nil => show s.jobEvs = []; exact h
  | cons ev rest =>
    cases ev with
    | add j => rfl
    | update j => rfl
    | delete j =>
      simp only
      cases findJob s.jobCache j.name <;> rfl

theorem deliverJob_api (s : Sys) :
    (deliverJob s).jobs = s.jobs ∧ (deliverJob s).clock = s.clock ∧ (deliverJob s).faults = s.faults ∧
    (deliverJob s).rv = s.rv := by
  unfold deliverJob
  cases h : s.jobEvs with
  | nil => exact ⟨rfl, rfl, rfl, rfl⟩
  | cons ev rest =>
    cases ev with
    | add j => exact ⟨rfl, rfl, rfl, rfl⟩
    | update j => exact ⟨rfl, rfl, rfl, rfl⟩
    | delete j =>
      simp only
      cases findJob s.jobCache j.name <;> exact ⟨rfl, rfl, rfl, rfl⟩

theorem notifyStore_storeQ (s : Sys) : (notifyStore s).storeQ = s.storeQ.tail := by
  unfold notifyStore
  cases h : s.storeQ with
  | nil => show s.storeQ = []; exact h
  | cons n rest => rfl

theorem notifyStore_keep (s : Sys) :
    (notifyStore s).jobEvs = s.jobEvs ∧ (notifyStore s).jobs = s.jobs ∧ (notifyStore s).clock = s.clock ∧
    (notifyStore s).faults = s.faults ∧ (notifyStore s).rv = s.rv := by
  unfold notifyStore
  cases h : s.storeQ <;> exact ⟨rfl, rfl, rfl, rfl, rfl⟩

theorem ctrlNotify_keep (s : Sys) (j : JobV) :
    (ctrlNotify s j).jobEvs = s.jobEvs ∧ (ctrlNotify s j).storeQ = s.storeQ ∧ (ctrlNotify s j).ctrlQ = s.ctrlQ ∧
    (ctrlNotify s j).jobs = s.jobs ∧ (ctrlNotify s j).clock = s.clock ∧ (ctrlNotify s j).faults = s.faults ∧
    (ctrlNotify s j).rv = s.rv := by
  unfold ctrlNotify
  cases lookupOwner s.jcCache j with
  | none => exact ⟨rfl, rfl, rfl, rfl, rfl, rfl, rfl⟩
  | some o => cases o <;> exact ⟨rfl, rfl, rfl, rfl, rfl, rfl, rfl⟩

theorem notifyCtrl_ctrlQ (s : Sys) : (notifyCtrl s).ctrlQ = s.ctrlQ.tail := by
  unfold notifyCtrl
  cases h : s.ctrlQ with
  | nil => show s.ctrlQ = []; exact h
  | cons n rest => simp only; rw [(ctrlNotify_keep _ _).2.2.1]; rfl

theorem notifyCtrl_keep (s : Sys) :
    (notifyCtrl s).jobEvs = s.jobEvs ∧ (notifyCtrl s).storeQ = s.storeQ ∧ (notifyCtrl s).jobs = s.jobs ∧
    (notifyCtrl s).clock = s.clock ∧ (notifyCtrl s).faults = s.faults ∧ (notifyCtrl s).rv = s.rv := by
  unfold notifyCtrl
  cases h : s.ctrlQ with
  | nil => exact ⟨rfl, rfl, rfl, rfl, rfl, rfl⟩
  | cons n rest =>
    simp only
    obtain ⟨h1, h2, _, h4, h5, h6, h7⟩ := ctrlNotify_keep { s with ctrlQ := rest } (noteJob n)
    exact ⟨h1, h2, h4, h5, h6, h7⟩

/-! ### the delivery step -/

theorem deliverAll_reachable {s : Sys} (h : Reachable s) : Reachable (deliverAll s) := by
  unfold deliverAll
  simp only
  refine iter_inv notifyCtrl Reachable (fun s h => Reachable.step s .notifyCtrl h trivial) _ _ ?_
  refine iter_inv notifyStore Reachable (fun s h => Reachable.step s .notifyStore h trivial) _ _ ?_
  exact iter_inv deliverJob Reachable (fun s h => Reachable.step s .deliverJob h trivial) _ _ h

/-- after the delivery step nothing is undelivered and no notification is pending; the API objects,
the clock and the pending faults are untouched -/
theorem deliverAll_facts (s : Sys) :
    (deliverAll s).jobEvs = [] ∧ (deliverAll s).storeQ = [] ∧ (deliverAll s).ctrlQ = [] ∧
    (deliverAll s).jobs = s.jobs ∧ (deliverAll s).clock = s.clock ∧ (deliverAll s).faults = s.faults ∧
    (deliverAll s).rv = s.rv := by
  unfold deliverAll
  simp only
  have e1 : (iter deliverJob s.jobEvs.length s).jobEvs = [] :=
    iter_drain deliverJob (·.jobEvs) deliverJob_jobEvs _ s (Nat.le_refl _)
  generalize hs1 : iter deliverJob s.jobEvs.length s = s1 at e1
  have e2 : (iter notifyStore s1.storeQ.length s1).storeQ = [] :=
    iter_drain notifyStore (·.storeQ) notifyStore_storeQ _ s1 (Nat.le_refl _)
  have e2' : (iter notifyStore s1.storeQ.length s1).jobEvs = [] := by
    rw [iter_keep notifyStore (·.jobEvs) (fun s => (notifyStore_keep s).1)]; exact e1
  generalize hs2 : iter notifyStore s1.storeQ.length s1 = s2 at e2 e2'
  have e3 : (iter notifyCtrl s2.ctrlQ.length s2).ctrlQ = [] :=
    iter_drain notifyCtrl (·.ctrlQ) notifyCtrl_ctrlQ _ s2 (Nat.le_refl _)
  refine ⟨?_, ?_, e3, ?_, ?_, ?_, ?_⟩
  · rw [iter_keep notifyCtrl (·.jobEvs) (fun s => (notifyCtrl_keep s).1)]; exact e2'
  · rw [iter_keep notifyCtrl (·.storeQ) (fun s => (notifyCtrl_keep s).2.1)]; exact e2
  · rw [iter_keep notifyCtrl (·.jobs) (fun s => (notifyCtrl_keep s).2.2.1), ← hs2,
      iter_keep notifyStore (·.jobs) (fun s => (notifyStore_keep s).2.1), ← hs1,
      iter_keep deliverJob (·.jobs) (fun s => (deliverJob_api s).1)]
  · rw [iter_keep notifyCtrl (·.clock) (fun s => (notifyCtrl_keep s).2.2.2.1), ← hs2,
      iter_keep notifyStore (·.clock) (fun s => (notifyStore_keep s).2.2.1), ← hs1,
      iter_keep deliverJob (·.clock) (fun s => (deliverJob_api s).2.1)]
  · rw [iter_keep notifyCtrl (·.faults) (fun s => (notifyCtrl_keep s).2.2.2.2.1), ← hs2,
      iter_keep notifyStore (·.faults) (fun s => (notifyStore_keep s).2.2.2.1), ← hs1,
      iter_keep deliverJob (·.faults) (fun s => (deliverJob_api s).2.2.1)]
  · rw [iter_keep notifyCtrl (·.rv) (fun s => (notifyCtrl_keep s).2.2.2.2.2), ← hs2,
      iter_keep notifyStore (·.rv) (fun s => (notifyStore_keep s).2.2.2.2), ← hs1,
      iter_keep deliverJob (·.rv) (fun s => (deliverJob_api s).2.2.2)]

/-- a per-config pass started without pending faults ends without pending faults -/
theorem workConfig_faults_nil (s : Sys) (hf : s.faults = []) : (workConfig s).1.faults = [] := by
  cases hg : (s.cfgQ.advance s.clock).get with
  | none => rw [workConfig_idle hg]; exact hf
  | some p =>
    obtain ⟨k, q1⟩ := p
    cases hjc : findJC s.jcCache (keyName k) with
    | none => rw [workConfig_noJC hg hjc]; exact hf
    | some jc =>
      rw [workConfig_get hg]
      show (syncConfig (cfgPre s q1) (keyName k)).1.faults = []
      have hjc' : findJC (cfgPre s q1).jcCache (keyName k) = some jc := hjc
      obtain ⟨cs, hp⟩ := syncConfig_Pass hjc'
      refine Pass.preserve (P := fun x => x.faults = []) ?_ ?_ ?_ ?_ ?_ hp hf
      · intro s j h; exact h
      · intro s verb name res h; show s.faults.tail = []; rw [h]; rfl
      · intro s m j cur _ h; show s.faults.tail = []; rw [h]; rfl
      · intro s j cur _ h; show s.faults.tail = []; rw [h]; rfl
      · intro s c h; exact h

/-! ### concrete states for the examples of Props/C20Inst -/

namespace QEx
open Furiko.Props.C05

/-- JobConfig `c` (limit 1); Job `r` (Allow) is started and its start went through the pipeline;
then a Forbid Job `f` and an Allow Job `a` are created and announced: a reachable quiet state
with the key of `c` ready, one active Job, two queued ones -/
def hist : List Act :=
  [.addJC jcC, .deliverJC, .addJob (mkJob "r" true true 0 none)] ++ flush ++ [.workConfig] ++ flush ++
  [.addJob (mkJob "f" true true 1 none)] ++ flush ++ [.addJob (mkJob "a" true true 0 none)] ++ flush

def s0 : Sys := runActs {} hist

theorem s0_reachable : Reachable s0 := reachable_runB _ (by decide)

end QEx

end Furiko.ConvQ
