/-
`GetCondition` reads the recorded refs only through, per index hash, "how many refs, are all of them
finished, did one succeed", and through the latest finish time.  Consequently the result and the finish
time of a `Finished` condition do not change when finished refs are frozen and no ref is added.
Core Lean only.
-/
import FurikoModel.Proofs.JobCtlInvStabPure

set_option linter.unusedSimpArgs false
set_option linter.unusedVariables false

namespace Furiko.JobCtl
open Furiko Furiko.WQ Furiko.StatusLemmas

/-! ### the latest finish time is the maximum of a set -/

/-- `none` (unset) is below everything -/
def optLe : Option Time → Option Time → Prop
  | none, _ => True
  | some _, none => False
  | some a, some b => a ≤ b

theorem optLe_refl (a : Option Time) : optLe a a := by
  cases a with
  | none => trivial
  | some x => exact Int.le_refl x

theorem optLe_trans {a b c : Option Time} (h1 : optLe a b) (h2 : optLe b c) : optLe a c := by
  cases a with
  | none => trivial
  | some x =>
    cases b with
    | none => exact absurd h1 (by intro h; exact h)
    | some y =>
      cases c with
      | none => exact absurd h2 (by intro h; exact h)
      | some z => exact Int.le_trans (show x ≤ y from h1) (show y ≤ z from h2)

theorem optLe_antisymm {a b : Option Time} (h1 : optLe a b) (h2 : optLe b a) : a = b := by
  cases a with
  | none =>
    cases b with
    | none => rfl
    | some y => exact absurd h2 (by intro h; exact h)
  | some x =>
    cases b with
    | none => exact absurd h1 (by intro h; exact h)
    | some y => exact congrArg some (Int.le_antisymm (show x ≤ y from h1) (show y ≤ x from h2))

theorem timeMax_spec (a b : Option Time) :
    optLe a (timeMax a b) ∧ optLe b (timeMax a b) ∧ (timeMax a b = a ∨ timeMax a b = b) := by
  cases a with
  | none =>
    cases b with
    | none => exact ⟨trivial, trivial, Or.inl rfl⟩
    | some y => exact ⟨trivial, Int.le_refl y, Or.inr rfl⟩
  | some x =>
    cases b with
    | none => exact ⟨Int.le_refl x, trivial, Or.inl rfl⟩
    | some y =>
      by_cases h : x < y
      · have e : timeMax (some x) (some y) = some y := by unfold timeMax; simp [h]
        rw [e]
        exact ⟨show x ≤ y from Int.le_of_lt h, Int.le_refl y, Or.inr rfl⟩
      · have e : timeMax (some x) (some y) = some x := by unfold timeMax; simp [h]
        rw [e]
        exact ⟨Int.le_refl x, show y ≤ x from Int.not_lt.mp h, Or.inl rfl⟩

theorem foldl_timeMax_spec : ∀ (l : List (Option Time)) (acc : Option Time),
    optLe acc (l.foldl timeMax acc) ∧ (∀ x ∈ l, optLe x (l.foldl timeMax acc)) ∧
    (l.foldl timeMax acc = acc ∨ l.foldl timeMax acc ∈ l)
  | [], acc => ⟨optLe_refl _, ⟨fun x hx => (nomatch hx), Or.inl rfl⟩⟩
  | y :: rest, acc => by
    simp only [List.foldl_cons, List.mem_cons]
    obtain ⟨h1, h2, h3⟩ := foldl_timeMax_spec rest (timeMax acc y)
    obtain ⟨k1, k2, k3⟩ := timeMax_spec acc y
    refine ⟨optLe_trans k1 h1, ?_, ?_⟩
    · intro x hx
      rcases hx with rfl | hx
      · exact optLe_trans k2 h1
      · exact h2 x hx
    · rcases h3 with h3 | h3
      · rcases k3 with k3 | k3
        · left; rw [h3, k3]
        · right; left; rw [h3, k3]
      · right; right; exact h3

theorem latestFinished_eq_fold (l : List TaskRef) :
    latestFinished l = (l.map (·.finishTimestamp)).foldl timeMax none := by
  unfold latestFinished
  rw [List.foldl_map]

/-- two ref lists with the same set of finish timestamps have the same latest finish time -/
theorem latestFinished_congr (a b : List TaskRef)
    (h1 : ∀ x ∈ a.map (·.finishTimestamp), x ∈ b.map (·.finishTimestamp))
    (h2 : ∀ x ∈ b.map (·.finishTimestamp), x ∈ a.map (·.finishTimestamp)) :
    latestFinished a = latestFinished b := by
  rw [latestFinished_eq_fold, latestFinished_eq_fold]
  obtain ⟨_, a2, a3⟩ := foldl_timeMax_spec (a.map (·.finishTimestamp)) none
  obtain ⟨_, b2, b3⟩ := foldl_timeMax_spec (b.map (·.finishTimestamp)) none
  apply optLe_antisymm
  · rcases a3 with h | h
    · rw [h]; trivial
    · exact b2 _ (h1 _ h)
  · rcases b3 with h | h
    · rw [h]; trivial
    · exact a2 _ (h2 _ h)

/-! ### the status of an index whose refs are all finished -/

theorem countP_eq_length_of_all {α : Type} (p : α → Bool) (l : List α) (h : ∀ x ∈ l, p x = true) :
    l.countP p = l.length := by
  induction l with
  | nil => rfl
  | cons x rest ih =>
    rw [List.countP_cons_of_pos (h x List.mem_cons_self), ih (fun y hy => h y (List.mem_cons_of_mem _ hy))]
    rfl

theorem countP_eq_zero_of_none {α : Type} (p : α → Bool) (l : List α) (h : ∀ x ∈ l, p x = false) :
    l.countP p = 0 := by
  induction l with
  | nil => rfl
  | cons x rest ih =>
    rw [List.countP_cons_of_neg (by rw [h x List.mem_cons_self]; simp),
      ih (fun y hy => h y (List.mem_cons_of_mem _ hy))]

/-- all refs finished: the index status is a function of their number and of "one succeeded" -/
theorem getIndexStatus_congr (i : PIndex) (h : String) (a b : List TaskRef) (m : Int)
    (ha : ∀ r ∈ a, r.finishTimestamp.isSome = true) (hb : ∀ r ∈ b, r.finishTimestamp.isSome = true)
    (hlen : a.length = b.length) (hsucc : a.any refSucceeded = b.any refSucceeded) :
    getIndexStatus i h a m = getIndexStatus i h b m := by
  unfold getIndexStatus
  have t1 := countP_eq_length_of_all refTerminal a (fun r hr => ha r hr)
  have t2 := countP_eq_length_of_all refTerminal b (fun r hr => hb r hr)
  have r1 := countP_eq_zero_of_none refRunningNow a (fun r hr => by
    unfold refRunningNow; have := ha r hr; cases hf : r.finishTimestamp <;> simp_all)
  have r2 := countP_eq_zero_of_none refRunningNow b (fun r hr => by
    unfold refRunningNow; have := hb r hr; cases hf : r.finishTimestamp <;> simp_all)
  have s1 := countP_eq_zero_of_none refStartingNow a (fun r hr => by
    unfold refStartingNow; have := ha r hr; cases hf : r.finishTimestamp <;> simp_all)
  have s2 := countP_eq_zero_of_none refStartingNow b (fun r hr => by
    unfold refStartingNow; have := hb r hr; cases hf : r.finishTimestamp <;> simp_all)
  simp only [t1, t2, r1, r2, s1, s2, hlen, hsucc]

/-! ### `GetCondition` with its inputs made explicit -/

/-- the branches of `GetCondition` after "not yet started" -/
def condTail (now : Time) (rj : Job) (numIndexes : Int) (ps : ParallelStatus) (lc lr lf : Option Time) : Condition :=
  let counters := getParallelStatusCounters ps.indexes
  if isTimeSetAndEarlierOrEqual now rj.killTimestamp then
    if counters.terminated ≥ numIndexes then
      { finished := some {
          latestCreationTimestamp := lc
          latestRunningTimestamp := lr
          finishTimestamp := if lf.isSome then lf else rj.killTimestamp
          result := .killed } }
    else
      { waiting := some .deletingTasks }
  else if !ps.summary.complete then
    if counters.created < numIndexes then { waiting := some .pendingCreation }
    else if counters.retryBackoff > 0 then { waiting := some .retryBackoff }
    else if counters.starting > 0 then { waiting := some .waitingForTasks }
    else { running := some { latestCreationTimestamp := lc, latestRunningTimestamp := lr } }
  else if counters.terminated < numIndexes then
    { running := some { latestCreationTimestamp := lc, latestRunningTimestamp := lr,
                        terminatingTasks := numIndexes - counters.terminated } }
  else
    { finished := some {
        latestCreationTimestamp := lc
        latestRunningTimestamp := lr
        finishTimestamp := lf
        result := finishedResult rj ps.summary } }

theorem getCondition_eq_tail (now : Time) (d : PIndex) (rj : Job) (ha : rj.admissionError = false)
    (hs : rj.status.startTime.isSome = true) :
    getCondition now d rj = condTail now rj ((rj.indexes d).length : Int) (getParallelStatus d rj rj.status.tasks)
      (latestCreated rj.status.tasks) (latestRunning rj.status.tasks) (latestFinished rj.status.tasks) := by
  unfold getCondition condTail
  have hn : ¬ rj.status.startTime.isNone = true := by
    cases h : rj.status.startTime <;> simp_all
  simp only [ha, Bool.false_eq_true, ↓reduceIte, hn]

/-- what the stability clauses read off a condition -/
def finKey (c : Condition) : Option (JobResult × Option Time) := c.finished.map (fun f => (f.result, f.finishTimestamp))

theorem condTail_finKey (now : Time) (rj : Job) (n : Int) (ps : ParallelStatus) (lc lr lc' lr' lf : Option Time) :
    finKey (condTail now rj n ps lc lr lf) = finKey (condTail now rj n ps lc' lr' lf) := by
  unfold condTail finKey
  simp only
  split
  · split <;> rfl
  · split
    · split
      · rfl
      · split
        · rfl
        · split <;> rfl
    · split <;> rfl

/-- same spec, same per-index status, same latest finish time ⇒ same result and finish time -/
theorem getCondition_finKey_congr (now : Time) (d : PIndex) (a b : Job) (hadm : a.admissionError = false)
    (hadm' : b.admissionError = false) (hstart : a.status.startTime.isSome = true)
    (hstart' : b.status.startTime = a.status.startTime) (hkill : b.killTimestamp = a.killTimestamp)
    (htmpl : b.template = a.template)
    (hidx : ∀ i ∈ a.indexes d, getIndexStatus i i.hash (tasksOfHash d b.status.tasks i.hash) a.maxAttempts =
      getIndexStatus i i.hash (tasksOfHash d a.status.tasks i.hash) a.maxAttempts)
    (hlf : latestFinished b.status.tasks = latestFinished a.status.tasks) :
    finKey (getCondition now d b) = finKey (getCondition now d a) := by
  rw [getCondition_eq_tail now d a hadm hstart, getCondition_eq_tail now d b hadm' (by rw [hstart']; exact hstart)]
  have hi : b.indexes d = a.indexes d := indexes_of_template htmpl d
  have hm : b.maxAttempts = a.maxAttempts := maxAttempts_of_template htmpl
  have hstat : indexStatuses d b b.status.tasks = indexStatuses d a a.status.tasks := by
    unfold indexStatuses
    rw [hi, hm]
    apply List.map_congr_left
    intro i hi'
    exact hidx i hi'
  have hstrat : b.strategy = a.strategy := by
    unfold Job.strategy Job.parallelism; rw [htmpl]
  have hps : getParallelStatus d b b.status.tasks = getParallelStatus d a a.status.tasks := by
    unfold getParallelStatus getParallelTaskSummary
    rw [hstat, hi, hstrat]
  rw [hps, hi, hlf]
  have : condTail now b ((a.indexes d).length : Int) (getParallelStatus d a a.status.tasks)
      (latestCreated b.status.tasks) (latestRunning b.status.tasks) (latestFinished a.status.tasks) =
      condTail now a ((a.indexes d).length : Int) (getParallelStatus d a a.status.tasks)
      (latestCreated b.status.tasks) (latestRunning b.status.tasks) (latestFinished a.status.tasks) := by
    unfold condTail finishedResult
    rw [hkill]
  rw [this]
  exact condTail_finKey now a _ _ _ _ _ _ _

/-! ### the stored condition is the computed one -/

/-- `GetCondition` reads, besides the refs: admission error, start time, kill timestamp, template,
start policy (and the old finish time only under an admission error) -/
theorem getCondition_congr_fields (now : Time) (d : PIndex) (a b : Job) (ha : a.admissionError = false)
    (hadm : b.admissionError = a.admissionError) (hstart : b.status.startTime = a.status.startTime)
    (htasks : b.status.tasks = a.status.tasks) (hkill : b.killTimestamp = a.killTimestamp)
    (htmpl : b.template = a.template) (hsp : b.startPolicy = a.startPolicy) :
    getCondition now d b = getCondition now d a := by
  have hi : b.indexes d = a.indexes d := indexes_of_template htmpl d
  have hm : b.maxAttempts = a.maxAttempts := maxAttempts_of_template htmpl
  have hstrat : b.strategy = a.strategy := by unfold Job.strategy Job.parallelism; rw [htmpl]
  have hps : ∀ ts, getParallelStatus d b ts = getParallelStatus d a ts := by
    intro ts
    unfold getParallelStatus getParallelTaskSummary indexStatuses
    rw [hi, hm, hstrat]
  have hq : queueReason b = queueReason a := by unfold queueReason; rw [hsp]
  unfold getCondition
  simp only [hadm, ha, hstart, hkill, hps, hi, htasks, hq, Bool.false_eq_true, ↓reduceIte]
  unfold finishedResult
  rw [hkill]

/-- the stored `Finished` condition of a Job that is not being deleted is what `GetCondition` computes
from the stored refs (for some clock reading) -/
def Coh (d : PIndex) (j : Job) : Prop :=
  j.deletionTimestamp = none → ∀ f, j.status.condition.finished = some f →
    j.status.startTime.isSome = true ∧ ∃ t, finKey (getCondition t d j) = some (f.result, f.finishTimestamp)

theorem updateJobStatusFromTaskRefs_coh {now : Time} {d : PIndex} {rj nj : Job}
    (h : updateJobStatusFromTaskRefs now d rj = some nj) (hadm : rj.admissionError = false) : Coh d nj := by
  unfold updateJobStatusFromTaskRefs updateJobStatusFromTaskRefsWith at h
  cases ht : rj.template with
  | none => simp [ht] at h
  | some tm =>
    simp only [ht, Option.some.injEq] at h
    subst h
    intro hdel f hf
    have hdel' : rj.deletionTimestamp = none := hdel
    -- not being deleted: no deletion override, the stored condition is `getCondition now d rj`
    have hcond : (statusBeforePhase false now d rj tm).condition = getCondition now d rj := by
      unfold statusBeforePhase deletionOverrides
      simp [hdel']
    have hf' : (getCondition now d rj).finished = some f := by
      have : (statusBeforePhase false now d rj tm).condition.finished = some f := hf
      rw [hcond] at this; exact this
    have hstart : rj.status.startTime.isSome = true := by
      rcases ConditionLemmas.getCondition_finished now d rj f hf' with h1 | h1
      · rw [hadm] at h1; cases h1.1
      · exact h1.2.1
    have hst : (statusBeforePhase false now d rj tm).startTime = rj.status.startTime := by
      unfold statusBeforePhase; rfl
    refine ⟨by show (statusBeforePhase false now d rj tm).startTime.isSome = true; rw [hst]; exact hstart, now, ?_⟩
    rw [getCondition_congr_fields now d rj _ hadm ?_ ?_ ?_ ?_ ?_ ?_]
    · unfold finKey
      rw [hf']
      rfl
    all_goals first | rfl | exact ht.symm

/-- … exactly: for a Job that is not being deleted (and carries no admission error) the stored condition
is `GetCondition` of the stored Job at the clock of the pass -/
theorem updateJobStatusFromTaskRefs_condEq {now : Time} {d : PIndex} {rj nj : Job}
    (h : updateJobStatusFromTaskRefs now d rj = some nj) (hadm : rj.admissionError = false)
    (hdel : nj.deletionTimestamp = none) : nj.status.condition = getCondition now d nj := by
  unfold updateJobStatusFromTaskRefs updateJobStatusFromTaskRefsWith at h
  cases ht : rj.template with
  | none => simp [ht] at h
  | some tm =>
    simp only [ht, Option.some.injEq] at h
    subst h
    have hdel' : rj.deletionTimestamp = none := hdel
    have hcond : (statusBeforePhase false now d rj tm).condition = getCondition now d rj := by
      unfold statusBeforePhase deletionOverrides
      simp [hdel']
    show (statusBeforePhase false now d rj tm).condition = _
    rw [hcond]
    refine (getCondition_congr_fields now d rj _ hadm ?_ ?_ ?_ ?_ ?_ ?_).symm
    all_goals first | rfl | exact ht.symm

theorem syncJobStatusFromTaskRefs_snd {s : Sys} {key : String} {rj newRj : Job}
    (hu : updateJobStatusFromTaskRefs s.clock s.d rj = some newRj) :
    (syncJobStatusFromTaskRefs s key rj).2 = newRj := by
  unfold syncJobStatusFromTaskRefs
  simp only [hu]
  split
  · split
    · split <;> rfl
    · rfl
  · rfl

theorem syncJobStatusFromTaskRefs_condEq (s : Sys) (key : String) (rj : Job) (htm : rj.template.isSome = true)
    (hadm : rj.admissionError = false) (hdel : (syncJobStatusFromTaskRefs s key rj).2.deletionTimestamp = none) :
    (syncJobStatusFromTaskRefs s key rj).2.status.condition =
      getCondition s.clock s.d (syncJobStatusFromTaskRefs s key rj).2 := by
  cases hu : updateJobStatusFromTaskRefs s.clock s.d rj with
  | none =>
    exfalso
    unfold updateJobStatusFromTaskRefs updateJobStatusFromTaskRefsWith at hu
    cases ht : rj.template with
    | none => rw [ht] at htm; cases htm
    | some t => simp [ht] at hu
  | some newRj =>
    rw [syncJobStatusFromTaskRefs_snd hu] at hdel ⊢
    exact updateJobStatusFromTaskRefs_condEq hu hadm hdel

theorem syncJobStatusFromTaskRefs_coh (s : Sys) (key : String) (rj : Job) (htm : rj.template.isSome = true)
    (hadm : rj.admissionError = false) : Coh s.d (syncJobStatusFromTaskRefs s key rj).2 := by
  unfold syncJobStatusFromTaskRefs
  cases hu : updateJobStatusFromTaskRefs s.clock s.d rj with
  | none =>
    exfalso
    unfold updateJobStatusFromTaskRefs updateJobStatusFromTaskRefsWith at hu
    cases ht : rj.template with
    | none => rw [ht] at htm; cases htm
    | some t => simp [ht] at hu
  | some newRj =>
    have hc := updateJobStatusFromTaskRefs_coh hu hadm
    simp only
    split
    · split
      · split <;> exact hc
      · exact hc
    · exact hc

end Furiko.JobCtl
