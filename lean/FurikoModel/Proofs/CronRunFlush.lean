/-
Runs of several ticks with an arbitrary channel: keys that stay silent.
-/
import FurikoModel.Proofs.CronRunWork
import FurikoModel.Proofs.CronFlush

namespace Furiko.Cron
open Furiko

/-- a key that is neither in the heap nor pending in the channel stays silent and out of the
heap for any number of ticks (any fuel) -/
theorem runTicks_absent (cap : Int) (flushLimit fuel : Nat) (k : String) :
    ∀ (ts : List Int) (w : Worker), Heap.Inv w.heap → ListerOK w.lister →
      (∀ jc ∈ w.chan, jc.key ≠ k) → Heap.search w.heap k = none →
      (∀ l ∈ (runTicks cap flushLimit fuel w ts).2.1, outk l k = []) ∧
      Heap.search (runTicks cap flushLimit fuel w ts).1.heap k = none := by
  intro ts
  induction ts with
  | nil => intro w _ _ _ he; exact ⟨fun l hl => by simp [runTicks] at hl, he⟩
  | cons now rest ih =>
    intro w h1 h2 h3 he
    have a := work_absent_general (now := now) (cap := cap) flushLimit fuel h1 h2 h3 he
    have b := ih (work w now cap flushLimit fuel).1 a.1 h2 a.2.2.2 a.2.2.1
    simp only [runTicks]
    refine ⟨fun l hl => ?_, b.2⟩
    rcases List.mem_cons.1 hl with rfl | hl
    · exact a.2.1
    · exact b.1 l hl

/-- a key without lister entry stays silent for any number of ticks, whatever the heap and the
channel contain (any fuel) -/
theorem runTicks_missing (cap : Int) (flushLimit fuel : Nat) (k : String) :
    ∀ (ts : List Int) (w : Worker), Heap.Inv w.heap → ListerOK w.lister →
      lookup w.lister k = none →
      ∀ l ∈ (runTicks cap flushLimit fuel w ts).2.1, outk l k = [] := by
  intro ts
  induction ts with
  | nil => intro w _ _ _ l hl; simp [runTicks] at hl
  | cons now rest ih =>
    intro w h1 h2 hlk l hl
    have a := work_missing_general (now := now) (cap := cap) flushLimit fuel h1 h2 hlk
    have hi := work_inv_general (now := now) (cap := cap) flushLimit fuel h1 h2
    simp only [runTicks] at hl
    rcases List.mem_cons.1 hl with rfl | hl
    · exact a
    · exact ih (work w now cap flushLimit fuel).1 hi h2 hlk l hl

end Furiko.Cron
