/-
Preservation of `Inv` by the environment steps (everything except the two controller passes).
-/
import FurikoModel.Proofs.QueueInv

set_option linter.unusedSimpArgs false
set_option linter.unusedVariables false

namespace Furiko.Queue
open Furiko.WQ

theorem nodup_names_eq {l : List JobV} (h : (names l).Nodup) {a b : JobV} (ha : a ∈ l) (hb : b ∈ l)
    (hn : a.name = b.name) : a = b := by
  induction l with
  | nil => simp at ha
  | cons x rest ih =>
    simp only [names, List.map_cons, List.nodup_cons, List.mem_map, not_exists, not_and] at h
    obtain ⟨hx, hrest⟩ := h
    rcases List.mem_cons.mp ha with rfl | ha' <;> rcases List.mem_cons.mp hb with rfl | hb'
    · rfl
    · exact absurd hn.symm (hx b hb')
    · exact absurd hn (hx a ha')
    · exact ih hrest ha' hb'

/-! ### restart -/

theorem Inv.apiOK {s : Sys} (h : Inv s) : ApiOK s :=
  ⟨h.jobsNodup, fun j hj => h.verRv j (Or.inl hj), fun j hj => h.verWf j (Or.inl hj)⟩

/-- `restart` re-establishes the invariant from ANY state whose API part is sane -/
theorem Inv_restart {s : Sys} (h : ApiOK s) : Inv (restart s) := by
  obtain ⟨hnd, hrv, hwf⟩ := h
  have hver : ∀ j, Ver (restart s) j → j ∈ s.jobs := by
    intro j hj
    unfold Ver restart at hj
    simp only [List.not_mem_nil, false_and, exists_false, or_false, or_self] at hj
    exact hj
  refine ⟨hnd, hnd, rfl, ?_, ?_, ?_, ?_, ?_, ?_, ?_⟩
  · intro uid
    simp only [restart, pending, futureNotes, List.append_nil, sumDelta_nil, Int.add_zero]
    exact recover_counts s.jobs uid
  · intro n hn; simp [restart, pending, futureNotes] at hn
  · intro j hj; exact hwf j (hver j hj)
  · intro j hj; exact hrv j (hver j hj)
  · intro j1 j2 h1 h2 hn
    have := nodup_names_eq hnd (hver j1 h1) (hver j2 h2) hn
    subst this; exact ⟨sameFixed_refl _, fun _ => rfl⟩
  · intro k hk; simp [restart, WQ.keys] at hk
  · intro f hf; simp [restart] at hf

/-! ### delivery of a watch event -/

theorem mem_applyEv {cache : List JobV} {e : Ev} {x : JobV} (h : x ∈ applyEv cache e) :
    x ∈ cache ∨ x = e.job := by
  cases e with
  | add j => exact mem_setJob h
  | update j => exact mem_setJob h
  | delete j =>
    simp only [applyEv] at h
    split at h
    · exact Or.inl h
    · exact Or.inl (mem_delJob h)

theorem mem_noteOf {cache : List JobV} {e : Ev} {n : Note} (h : noteOf cache e = some n) {x : JobV}
    (hx : x ∈ n.jobs) : x ∈ cache ∨ x = e.job := by
  cases e with
  | add j =>
    simp only [noteOf, Option.some.injEq] at h
    split at h
    · rename_i old hf; subst h
      simp only [Note.jobs, List.mem_cons, List.not_mem_nil, or_false] at hx
      rcases hx with rfl | rfl
      · exact Or.inl (findJob_some_mem hf)
      · exact Or.inr rfl
    · subst h; simp only [Note.jobs, List.mem_singleton] at hx; exact Or.inr hx
  | update j =>
    simp only [noteOf, Option.some.injEq] at h
    split at h
    · rename_i old hf; subst h
      simp only [Note.jobs, List.mem_cons, List.not_mem_nil, or_false] at hx
      rcases hx with rfl | rfl
      · exact Or.inl (findJob_some_mem hf)
      · exact Or.inr rfl
    · subst h; simp only [Note.jobs, List.mem_singleton] at hx; exact Or.inr hx
  | delete j =>
    simp only [noteOf] at h
    split at h
    · simp at h
    · rename_i old hf
      simp only [Option.some.injEq] at h; subst h
      simp only [Note.jobs, List.mem_singleton] at hx; subst hx
      exact Or.inl (findJob_some_mem hf)

theorem nodup_names_applyEv {cache : List JobV} (e : Ev) (h : (names cache).Nodup) :
    (names (applyEv cache e)).Nodup := by
  cases e with
  | add j => exact nodup_names_setJob h
  | update j => exact nodup_names_setJob h
  | delete j =>
    simp only [applyEv]
    split
    · exact h
    · exact nodup_names_delJob h

theorem Inv_deliver_core {s s' : Sys} (h : Inv s) {e : Ev} {rest : List Ev}
    (hevs : s.jobEvs = e :: rest)
    (e_rv : s'.rv = s.rv) (e_jobs : s'.jobs = s.jobs) (e_evs : s'.jobEvs = rest)
    (e_cache : s'.jobCache = applyEv s.jobCache e)
    (e_sq : s'.storeQ = s.storeQ ++ (noteOf s.jobCache e).toList)
    (e_cq : s'.ctrlQ = s.ctrlQ ++ (noteOf s.jobCache e).toList)
    (e_ctr : s'.counter = s.counter) (e_ind : s'.indQ = s.indQ) (e_faults : s'.faults = s.faults) :
    Inv s' := by
  have hpend : pending s' = pending s := by
    simp only [pending, e_sq, e_cache, e_evs, hevs, futureNotes, List.append_assoc]
  have hej : Ver s e.job := Or.inr (Or.inr (Or.inl ⟨e, by rw [hevs]; simp, rfl⟩))
  have hver : ∀ j, Ver s' j → Ver s j := by
    intro j hj
    have hnote : ∀ n, n ∈ (noteOf s.jobCache e).toList → j ∈ n.jobs → Ver s j := by
      intro n hn hjn
      simp only [Option.mem_toList] at hn
      rcases mem_noteOf hn hjn with hc | rfl
      · exact Or.inr (Or.inl hc)
      · exact hej
    unfold Ver at hj
    rw [e_jobs, e_evs, e_cache, e_sq, e_cq] at hj
    rcases hj with hj | hj | ⟨e', he', hej'⟩ | ⟨n, hn, hjn⟩ | ⟨n, hn, hjn⟩
    · exact Or.inl hj
    · rcases mem_applyEv hj with hc | rfl
      · exact Or.inr (Or.inl hc)
      · exact hej
    · exact Or.inr (Or.inr (Or.inl ⟨e', by rw [hevs]; simp [he'], hej'⟩))
    · rcases List.mem_append.mp hn with hn | hn
      · exact Or.inr (Or.inr (Or.inr (Or.inl ⟨n, hn, hjn⟩)))
      · exact hnote n hn hjn
    · rcases List.mem_append.mp hn with hn | hn
      · exact Or.inr (Or.inr (Or.inr (Or.inr ⟨n, hn, hjn⟩)))
      · exact hnote n hn hjn
  refine ⟨?_, ?_, ?_, ?_, ?_, ?_, ?_, ?_, ?_, ?_⟩
  · rw [e_jobs]; exact h.jobsNodup
  · rw [e_cache]; exact nodup_names_applyEv e h.cacheNodup
  · have := h.pipe; rw [hevs] at this; rw [e_cache, e_evs, e_jobs]; exact this
  · intro uid; rw [hpend, e_ctr, e_jobs]; exact h.ctr uid
  · rw [hpend]; exact h.good
  · intro j hj; exact h.verWf j (hver j hj)
  · intro j hj; rw [e_rv]; exact h.verRv j (hver j hj)
  · intro j1 j2 h1 h2; exact h.verFn j1 j2 (hver j1 h1) (hver j2 h2)
  · intro k hk j hj hn; rw [e_ind] at hk; exact h.ind k hk j (hver j hj) hn
  · rw [e_faults]; exact h.faultsOk

theorem Inv_deliverJob {s : Sys} (h : Inv s) : Inv (deliverJob s) := by
  cases hevs : s.jobEvs with
  | nil => unfold deliverJob; rw [hevs]; exact h
  | cons e rest =>
    rw [deliverJob_eq hevs]
    exact Inv_deliver_core h hevs rfl rfl rfl rfl rfl rfl rfl rfl rfl

/-! ### the store handler runs one notification -/

theorem Inv_notifyStore_core {s s' : Sys} (h : Inv s) {n : Note} {rest : List Note}
    (hq : s.storeQ = n :: rest)
    (e_rv : s'.rv = s.rv) (e_jobs : s'.jobs = s.jobs) (e_evs : s'.jobEvs = s.jobEvs)
    (e_cache : s'.jobCache = s.jobCache) (e_sq : s'.storeQ = rest) (e_cq : s'.ctrlQ = s.ctrlQ)
    (e_ctr : s'.counter = storeNotify s.counter n) (e_ind : s'.indQ = s.indQ)
    (e_faults : s'.faults = s.faults) : Inv s' := by
  have hver : ∀ j, Ver s' j → Ver s j := by
    intro j hj
    unfold Ver at hj ⊢
    rw [e_jobs, e_evs, e_cache, e_sq, e_cq] at hj
    rcases hj with hj | hj | hj | ⟨m, hm, hjm⟩ | hj
    · exact Or.inl hj
    · exact Or.inr (Or.inl hj)
    · exact Or.inr (Or.inr (Or.inl hj))
    · exact Or.inr (Or.inr (Or.inr (Or.inl ⟨m, by rw [hq]; simp [hm], hjm⟩)))
    · exact Or.inr (Or.inr (Or.inr (Or.inr hj)))
  have hpend : pending s = n :: pending s' := by
    simp [pending, hq, e_sq, e_cache, e_evs]
  refine ⟨?_, ?_, ?_, ?_, ?_, ?_, ?_, ?_, ?_, ?_⟩
  · rw [e_jobs]; exact h.jobsNodup
  · rw [e_cache]; exact h.cacheNodup
  · rw [e_cache, e_evs, e_jobs]; exact h.pipe
  · intro uid
    have := h.ctr uid
    rw [hpend, sumDelta_cons] at this
    rw [e_ctr, store_delta, e_jobs]
    omega
  · intro m hm; exact h.good m (by rw [hpend]; simp [hm])
  · intro j hj; exact h.verWf j (hver j hj)
  · intro j hj; rw [e_rv]; exact h.verRv j (hver j hj)
  · intro j1 j2 h1 h2; exact h.verFn j1 j2 (hver j1 h1) (hver j2 h2)
  · intro k hk j hj hn; rw [e_ind] at hk; exact h.ind k hk j (hver j hj) hn
  · rw [e_faults]; exact h.faultsOk

theorem Inv_notifyStore {s : Sys} (h : Inv s) : Inv (notifyStore s) := by
  unfold notifyStore
  cases hq : s.storeQ with
  | nil => exact h
  | cons n rest => exact Inv_notifyStore_core h hq rfl rfl rfl rfl rfl rfl rfl rfl rfl

/-! ### the queue controller's handler runs one notification -/

theorem lookupOwner_some_none {jcCache : List JCV} {j : JobV}
    (h : lookupOwner jcCache j = some none) : j.ownerName = none := by
  unfold lookupOwner at h
  split at h
  · assumption
  · split at h
    · simp at h
    · split at h
      · simp at h
      · split at h <;> simp at h

theorem noteJob_mem_jobs (n : Note) : noteJob n ∈ n.jobs := by
  cases n <;> simp [noteJob, Note.jobs]

theorem Inv_notifyCtrl {s : Sys} (h : Inv s) : Inv (notifyCtrl s) := by
  unfold notifyCtrl
  cases hq : s.ctrlQ with
  | nil => exact h
  | cons n rest =>
    simp only
    have hvn : Ver s (noteJob n) :=
      Or.inr (Or.inr (Or.inr (Or.inr ⟨n, by rw [hq]; simp, noteJob_mem_jobs n⟩)))
    have hcq : ∀ m ∈ rest, m ∈ s.ctrlQ := fun m hm => by rw [hq]; simp [hm]
    unfold ctrlNotify
    simp only
    cases hl : lookupOwner s.jcCache (noteJob n) with
    | none =>
      exact Inv_congr h (Nat.le_refl _) rfl rfl rfl rfl hcq (fun _ => rfl)
        (h.ind_of_sub (fun k hk => hk)) (fun f hf => Or.inl hf)
    | some o =>
      cases o with
      | some jc =>
        exact Inv_congr h (Nat.le_refl _) rfl rfl rfl rfl hcq (fun _ => rfl)
          (h.ind_of_sub (fun k hk => hk)) (fun f hf => Or.inl hf)
      | none =>
        have hown := lookupOwner_some_none hl
        have hlab : (noteJob n).label = none := (h.verWf _ hvn).1 hown
        refine Inv_congr h (Nat.le_refl _) rfl rfl rfl rfl hcq (fun _ => rfl) ?_
          (fun f hf => Or.inl hf)
        intro k hk j hj hname
        simp only at hk
        rcases mem_keys_add hk with hk | rfl
        · exact h.ind k hk j hj hname
        · rw [keyName_ns] at hname
          rw [(h.verFn j (noteJob n) hj hvn hname).1.1]; exact hlab

/-! ### resync -/

theorem updDelta_self (j : JobV) : updDelta j j = 0 := by
  unfold updDelta; cases j.isActive <;> cases j.isStarted <;> simp

theorem sumDelta_resync (l : List JobV) (uid : String) :
    sumDelta (l.map (fun j => Note.update j j)) uid = 0 := by
  induction l with
  | nil => simp
  | cons j rest ih => simp [noteDelta, updDelta_self, ih]

theorem Inv_resync_core {s s' : Sys} (h : Inv s)
    (e_rv : s'.rv = s.rv) (e_jobs : s'.jobs = s.jobs) (e_evs : s'.jobEvs = s.jobEvs)
    (e_cache : s'.jobCache = s.jobCache)
    (e_sq : s'.storeQ = s.storeQ ++ s.jobCache.map (fun j => Note.update j j))
    (e_cq : s'.ctrlQ = s.ctrlQ ++ s.jobCache.map (fun j => Note.update j j))
    (e_ctr : s'.counter = s.counter) (e_ind : s'.indQ = s.indQ)
    (e_faults : s'.faults = s.faults) : Inv s' := by
  have hver : ∀ j, Ver s' j → Ver s j := by
    intro j hj
    have hnote : ∀ n, n ∈ s.jobCache.map (fun j => Note.update j j) → j ∈ n.jobs → Ver s j := by
      intro n hn hjn
      simp only [List.mem_map] at hn
      obtain ⟨x, hx, rfl⟩ := hn
      simp only [Note.jobs, List.mem_cons, List.not_mem_nil, or_false, or_self] at hjn
      subst hjn; exact Or.inr (Or.inl hx)
    unfold Ver at hj
    rw [e_jobs, e_evs, e_cache, e_sq, e_cq] at hj
    rcases hj with hj | hj | hj | ⟨n, hn, hjn⟩ | ⟨n, hn, hjn⟩
    · exact Or.inl hj
    · exact Or.inr (Or.inl hj)
    · exact Or.inr (Or.inr (Or.inl hj))
    · rcases List.mem_append.mp hn with hn | hn
      · exact Or.inr (Or.inr (Or.inr (Or.inl ⟨n, hn, hjn⟩)))
      · exact hnote n hn hjn
    · rcases List.mem_append.mp hn with hn | hn
      · exact Or.inr (Or.inr (Or.inr (Or.inr ⟨n, hn, hjn⟩)))
      · exact hnote n hn hjn
  have hpend : pending s' = s.storeQ ++ s.jobCache.map (fun j => Note.update j j)
      ++ futureNotes s.jobCache s.jobEvs := by
    simp only [pending, e_sq, e_cache, e_evs]
  refine ⟨?_, ?_, ?_, ?_, ?_, ?_, ?_, ?_, ?_, ?_⟩
  · rw [e_jobs]; exact h.jobsNodup
  · rw [e_cache]; exact h.cacheNodup
  · rw [e_cache, e_evs, e_jobs]; exact h.pipe
  · intro uid
    have := h.ctr uid
    rw [hpend, e_ctr, e_jobs]
    simp only [pending, sumDelta_append, sumDelta_resync] at this ⊢
    omega
  · intro n hn
    rw [hpend] at hn
    simp only [List.mem_append] at hn
    rcases hn with (hn | hn) | hn
    · exact h.good n (by simp [pending, hn])
    · simp only [List.mem_map] at hn
      obtain ⟨x, _, rfl⟩ := hn
      exact fun hx => hx
    · exact h.good n (by simp [pending, hn])
  · intro j hj; exact h.verWf j (hver j hj)
  · intro j hj; rw [e_rv]; exact h.verRv j (hver j hj)
  · intro j1 j2 h1 h2; exact h.verFn j1 j2 (hver j1 h1) (hver j2 h2)
  · intro k hk j hj hn; rw [e_ind] at hk; exact h.ind k hk j (hver j hj) hn
  · rw [e_faults]; exact h.faultsOk

theorem Inv_resync {s : Sys} (h : Inv s) : Inv (resync s) :=
  Inv_resync_core h rfl rfl rfl rfl rfl rfl rfl rfl rfl

/-! ### user / job-controller actions on Jobs -/

theorem Inv_addJob {s : Sys} (h : Inv s) {j : JobV} (ha : Allowed s (.addJob j)) :
    Inv (userAddJob s j) := by
  obtain ⟨hfresh, hst, hterm, _, hown, hpol⟩ := ha
  unfold userAddJob
  split
  · exact h
  · refine Inv_add (nj := { j with rv := s.rv + 1, created := s.clock / 1000000000 }) h hfresh ?_ rfl ?_
      rfl rfl rfl rfl rfl rfl rfl rfl rfl
    · refine ⟨fun hn => ?_, hpol⟩
      simp only at hn ⊢
      cases hl : j.label with
      | none => rfl
      | some uid =>
        obtain ⟨_, jc, _, _, hon⟩ := (hown uid).mp hl
        rw [hn] at hon; simp at hon
    · simp [JobV.isActive, JobV.isStarted, hst]

theorem Inv_finish {s : Sys} (h : Inv s) (n : String) : Inv (mutateJob s n finish) := by
  unfold mutateJob
  cases hf : findJob s.jobs n with
  | none => exact h
  | some cur =>
    simp only
    have hname : cur.name = n := findJob_some_name hf
    refine Inv_update (cur := cur) (nj := { finish cur with rv := s.rv + 1 }) h ?_ ?_ rfl ?_
      rfl rfl rfl rfl rfl rfl ?_ rfl (fun f hf => hf)
    · simp only [finish, hname, hf]
    · simp [sameSpec, finish]
    · intro _; rfl
    · intro uid
      have : bonus cur { finish cur with rv := s.rv + 1 } = 0 := by
        simp [bonus, finish, JobV.isActive]
      simp [this]

/-- the user edits `startAfter` of an authoritatively unstarted Job with a start policy: a new
version with the same fixed spec; well-formed because `hasPolicy = true`; the store's counter is
not concerned (the Job stays unstarted) -/
theorem Inv_editStartAfter {s : Sys} (h : Inv s) (n : String) (t : Option Int) :
    Inv (editStartAfter s n t) := by
  unfold editStartAfter
  cases hf : findJob s.jobs n with
  | none => exact h
  | some cur =>
    simp only
    split
    · rename_i hg
      simp only [Bool.and_eq_true, Bool.not_eq_true'] at hg
      obtain ⟨hp, hst⟩ := hg
      unfold mutateJob
      rw [hf]
      simp only
      have hname : cur.name = n := findJob_some_name hf
      have hwfc := h.verWf cur (Or.inl (findJob_some_mem hf))
      refine Inv_update' (cur := cur) (nj := { cur with startAfter := t, rv := s.rv + 1 }) h ?_ ?_ ?_ rfl
        ?_ rfl rfl rfl rfl rfl rfl ?_ rfl (fun f hf => hf)
      · simp only [hname, hf]
      · simp [sameFixed]
      · exact ⟨hwfc.1, fun hx => by simp [hp] at hx⟩
      · intro hx; exact hx
      · intro uid
        have : bonus cur { cur with startAfter := t, rv := s.rv + 1 } = 0 := by
          simp only [bonus, JobV.isActive, JobV.isStarted] at hst ⊢
          simp [hst]
        simp [this]
    · exact h

theorem Inv_removeJob {s : Sys} (h : Inv s) (n : String) : Inv (removeJob s n) := by
  unfold removeJob
  cases hf : findJob s.jobs n with
  | none => exact h
  | some cur =>
    exact Inv_remove h hf rfl rfl rfl rfl rfl rfl rfl rfl rfl

/-! ### steps that do not touch what the invariant reads -/

theorem Inv_addJC {s : Sys} (h : Inv s) (jc : JCV) : Inv (userAddJC s jc) := by
  unfold userAddJC
  split
  · exact h
  · exact Inv_congr h (Nat.le_succ _) rfl rfl rfl rfl (fun _ hn => hn) (fun _ => rfl)
      (h.ind_of_sub (fun k hk => hk)) (fun f hf => Or.inl hf)

theorem Inv_setMaxConc {s : Sys} (h : Inv s) (n : String) (m : Int) : Inv (setMaxConc s n m) := by
  unfold setMaxConc
  split
  · exact h
  · exact Inv_congr h (Nat.le_succ _) rfl rfl rfl rfl (fun _ hn => hn) (fun _ => rfl)
      (h.ind_of_sub (fun k hk => hk)) (fun f hf => Or.inl hf)

theorem Inv_deliverJC {s : Sys} (h : Inv s) : Inv (deliverJC s) := by
  unfold deliverJC
  split
  · exact h
  · exact Inv_congr h (Nat.le_refl _) rfl rfl rfl rfl (fun _ hn => hn) (fun _ => rfl)
      (h.ind_of_sub (fun k hk => hk)) (fun f hf => Or.inl hf)
  · exact Inv_congr h (Nat.le_refl _) rfl rfl rfl rfl (fun _ hn => hn) (fun _ => rfl)
      (h.ind_of_sub (fun k hk => hk)) (fun f hf => Or.inl hf)

theorem Inv_tick {s : Sys} (h : Inv s) (d : Int) : Inv { s with clock := s.clock + d } :=
  Inv_congr h (Nat.le_refl _) rfl rfl rfl rfl (fun _ hn => hn) (fun _ => rfl)
    (h.ind_of_sub (fun k hk => hk)) (fun f hf => Or.inl hf)

theorem Inv_fault {s : Sys} (h : Inv s) {f : String} (hf : okFault f) :
    Inv { s with faults := s.faults ++ [f] } := by
  refine Inv_congr h (Nat.le_refl _) rfl rfl rfl rfl (fun _ hn => hn) (fun _ => rfl)
    (h.ind_of_sub (fun k hk => hk)) ?_
  intro g hg
  simp only [List.mem_append, List.mem_singleton] at hg
  rcases hg with hg | rfl
  · exact Or.inl hg
  · exact Or.inr hf

end Furiko.Queue
