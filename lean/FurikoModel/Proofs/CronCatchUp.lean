/-
Start-up (`schedNew`) followed by the first tick: the heap built from the JobConfigs maps every
key to its `newItem` entry; composition with the per-key tick theorem.
-/
import FurikoModel.Proofs.CronInit
import FurikoModel.Proofs.CronKey
import FurikoModel.Proofs.CronRunFlush

namespace Furiko.Cron
open Furiko

/-- entry (if any) that `newItem` produces for `jc` -/
def itemEntry (jc : JC) (cfg dflt now : Int) : Option Int :=
  match newItem jc cfg dflt now with
  | .ok (some p) => some p.2
  | _ => none

theorem itemEntry_active {jc : JC} (hen : jc.sched.enabled = true)
    (hpe : jc.sched.parseErr = false) (cfg dflt now : Int) :
    itemEntry jc cfg dflt now = newEntry jc cfg dflt now := by
  unfold itemEntry
  rw [newItem_active hen hpe]
  cases newEntry jc cfg dflt now <;> rfl

theorem newItem_key {jc : JC} {cfg dflt now : Int} {p : String × Int}
    (h : newItem jc cfg dflt now = .ok (some p)) : p.1 = jc.key := by
  have hen : jc.sched.enabled = true := by
    cases he : jc.sched.enabled with
    | true => rfl
    | false => rw [newItem_disabled he] at h; cases h
  have hpe : jc.sched.parseErr = false := by
    cases hp : jc.sched.parseErr with
    | false => rfl
    | true =>
      have := (newItem_error_iff jc cfg dflt now).2 ⟨hen, hp⟩
      rw [this] at h; cases h
  rw [newItem_active hen hpe] at h
  cases hr : newEntry jc cfg dflt now with
  | none => rw [hr] at h; cases h
  | some n =>
    rw [hr] at h
    simp only [Option.map_some, Except.ok.injEq, Option.some.injEq] at h
    rw [← h]

theorem lookupItems_none_of_not_mem {its : List (String × Int)} {k : String}
    (h : k ∉ its.map Prod.fst) : Heap.lookupItems its k = none := by
  induction its with
  | nil => rfl
  | cons p t ih =>
    obtain ⟨n, q⟩ := p
    simp only [List.map_cons, List.mem_cons, not_or] at h
    simp only [Heap.lookupItems, h.1, if_false]
    exact ih h.2

theorem newItems_spec (cfg dflt now : Int) :
    ∀ (jcs : List JC) (its : List (String × Int)), (jcs.map (fun jc => jc.key)).Nodup →
      newItems jcs cfg dflt now = some its →
      (∀ k ∈ its.map Prod.fst, k ∈ jcs.map (fun jc => jc.key)) ∧ (its.map Prod.fst).Nodup ∧
      ∀ jc ∈ jcs, Heap.lookupItems its jc.key = itemEntry jc cfg dflt now := by
  intro jcs
  induction jcs with
  | nil =>
    intro its _ h
    simp only [newItems, Option.some.injEq] at h
    subst h
    exact ⟨fun k hk => (by cases hk), List.Pairwise.nil, fun jc hjc => (by cases hjc)⟩
  | cons jc0 rest ih =>
    intro its hnd h
    have hnd' := List.nodup_cons.1 hnd
    unfold newItems at h
    cases hni : newItem jc0 cfg dflt now with
    | error u => rw [hni] at h; cases h
    | ok it =>
      rw [hni] at h
      simp only [] at h
      cases hr : newItems rest cfg dflt now with
      | none => rw [hr] at h; cases h
      | some its' =>
        rw [hr] at h
        simp only [Option.some.injEq] at h
        obtain ⟨hsub, hnd2, hlook⟩ := ih its' hnd'.2 hr
        have hk0 : jc0.key ∉ its'.map Prod.fst := fun hm => hnd'.1 (hsub _ hm)
        cases it with
        | none =>
          simp only [] at h
          subst h
          refine ⟨fun k hk => List.mem_cons_of_mem _ (hsub k hk), hnd2, fun jc hjc => ?_⟩
          rcases List.mem_cons.1 hjc with rfl | hjc
          · rw [lookupItems_none_of_not_mem hk0]
            unfold itemEntry; rw [hni]
          · exact hlook jc hjc
        | some p =>
          simp only [] at h
          subst h
          have hpk := newItem_key hni
          obtain ⟨pk, pv⟩ := p
          simp only at hpk
          subst hpk
          refine ⟨fun k hk => ?_, ?_, fun jc hjc => ?_⟩
          · simp only [List.map_cons, List.mem_cons] at hk ⊢
            rcases hk with rfl | hk
            · exact Or.inl rfl
            · exact Or.inr (hsub k hk)
          · simp only [List.map_cons]
            exact List.nodup_cons.2 ⟨hk0, hnd2⟩
          · rcases List.mem_cons.1 hjc with rfl | hjc
            · simp only [Heap.lookupItems, if_true]
              unfold itemEntry; rw [hni]
            · have hne : jc.key ≠ jc0.key := by
                intro he
                exact hnd'.1 (List.mem_map.2 ⟨jc, hjc, he⟩)
              simp only [Heap.lookupItems, hne, if_false]
              exact hlook jc hjc

/-- the lister holding exactly the loaded JobConfigs -/
def listerOf (jcs : List JC) : List (String × JC) := jcs.map (fun jc => (jc.key, jc))

theorem lookup_listerOf : ∀ (jcs : List JC), (jcs.map (fun jc => jc.key)).Nodup →
    ∀ jc ∈ jcs, lookup (listerOf jcs) jc.key = some jc := by
  intro jcs
  induction jcs with
  | nil => intro _ jc hjc; cases hjc
  | cons jc0 rest ih =>
    intro hnd jc hjc
    have hnd' := List.nodup_cons.1 hnd
    simp only [listerOf, List.map_cons, lookup]
    rcases List.mem_cons.1 hjc with rfl | hjc
    · simp
    · have hne : jc0.key ≠ jc.key := by
        intro he
        exact hnd'.1 (List.mem_map.2 ⟨jc, hjc, he.symm⟩)
      simp only [hne, if_false]
      exact ih hnd'.2 jc hjc

theorem listerOf_ok {jcs : List JC} (hnd : (jcs.map (fun jc => jc.key)).Nodup)
    (hs : ∀ jc ∈ jcs, jc.SortedOK) : ListerOK (listerOf jcs) := by
  refine ⟨fun p hp => ?_, ?_⟩
  · obtain ⟨jc, hjc, rfl⟩ := List.mem_map.1 hp
    exact ⟨rfl, hs jc hjc⟩
  · unfold listerOf
    rw [List.map_map]
    exact hnd

/-- the heap built at start-up: invariant and contents -/
theorem schedNew_spec {jcs : List JC} {cfg dflt now : Int} {pq : Heap.PQ}
    (hnd : (jcs.map (fun jc => jc.key)).Nodup) (h : schedNew jcs cfg dflt now = some pq) :
    Heap.Inv pq ∧ ∀ jc ∈ jcs, Heap.search pq jc.key = itemEntry jc cfg dflt now := by
  unfold schedNew at h
  cases hr : newItems jcs cfg dflt now with
  | none => rw [hr] at h; cases h
  | some its =>
    rw [hr] at h
    simp only [Option.map_some, Option.some.injEq] at h
    subst h
    obtain ⟨_, hnd2, hlook⟩ := newItems_spec cfg dflt now jcs its hnd hr
    exact ⟨Heap.inv_new its hnd2, fun jc hjc => by rw [Heap.search_new its hnd2]; exact hlook jc hjc⟩

/-- First tick after start-up, key-wise: the requests are the first `cap` elements of the
strictly increasing list `D` of all eligible times that have arrived. -/
theorem catch_up_lemma {jcs : List JC} {cfg dflt now : Int} {pq : Heap.PQ}
    (hnd : (jcs.map (fun jc => jc.key)).Nodup) (hs : ∀ jc ∈ jcs, jc.SortedOK)
    (h : schedNew jcs cfg dflt now = some pq) {n1 cap : Int} {flushLimit fuel : Nat}
    (hdone : (work ⟨pq, listerOf jcs, []⟩ n1 cap flushLimit fuel).2.2 = true)
    {jc : JC} (hjc : jc ∈ jcs) (hact : jc.Active) :
    ∃ D : List Int, SortedStrict D ∧
      (∀ m, m ∈ D ↔ Eligible jc cfg dflt now m ∧ m ≤ floorSec n1) ∧
      outk (work ⟨pq, listerOf jcs, []⟩ n1 cap flushLimit fuel).2.1 jc.key
        = D.take cap.toNat := by
  obtain ⟨hInv, hsearch⟩ := schedNew_spec hnd h
  have hL := listerOf_ok hnd hs
  have hlk := lookup_listerOf jcs hnd jc hjc
  have hent := hsearch jc hjc
  rw [itemEntry_active hact.1 hact.2] at hent
  have hspec := newEntry_spec (hs jc hjc) cfg dflt now
  have hsp := JC.nextAfter_spec (hs jc hjc)
  cases hne : newEntry jc cfg dflt now with
  | none =>
    rw [hne] at hent
    have := work_key_absent (w := ⟨pq, listerOf jcs, []⟩) (now := n1) (cap := cap) flushLimit fuel
      hInv hL rfl hent
    refine ⟨[], List.Pairwise.nil, fun m => ?_, by rw [this.1]; simp⟩
    constructor
    · intro hm; cases hm
    · intro hm; exact absurd hm.1 (hspec.2 hne m)
  | some e =>
    rw [hne] at hent
    have hl := (work_key_stream_lemma (w := ⟨pq, listerOf jcs, []⟩) (now := n1) (cap := cap)
      flushLimit fuel hInv hL rfl hdone hlk hact hent).1
    have hd := dueList_spec hsp (floorSec n1) e
    have he := hspec.1 e hne
    refine ⟨dueList jc.nextAfter (floorSec n1) e, hd.1, fun m => ?_, hl⟩
    rw [hd.2 m]
    constructor
    · rintro ⟨h1, h2, h3⟩
      refine ⟨?_, h2⟩
      rcases h3 with rfl | h3
      · exact he.1
      · have := he.1
        exact ⟨h3, by have := this.2.1; omega, fun nbf hn => by have := this.2.2 nbf hn; omega⟩
    · rintro ⟨h1, h2⟩
      exact ⟨he.2 m h1, h2, Or.inr h1.1⟩

theorem lowerNs_ge_ls {jc : JC} {ls : Int} (hls : jc.lastScheduled = some ls)
    (cfg dflt now : Int) : ls * 1000000000 ≤ lowerNs jc cfg dflt now := by
  unfold lowerNs
  rw [hls]
  cases jc.sched.lastUpdated <;> simp only [] <;> omega

/-- after a restart no time at or before `lastScheduled` is ever requested again -/
theorem never_rerequest_run_lemma {jcs : List JC} {cfg dflt now : Int} {pq : Heap.PQ}
    (hnd : (jcs.map (fun jc => jc.key)).Nodup) (hs : ∀ jc ∈ jcs, jc.SortedOK)
    (h : schedNew jcs cfg dflt now = some pq) {cap : Int} {flushLimit fuel : Nat}
    (ts : List Int) (hts : List.Pairwise (· ≤ ·) ts)
    (hdone : (runTicks cap flushLimit fuel ⟨pq, listerOf jcs, []⟩ ts).2.2 = true)
    {jc : JC} (hjc : jc ∈ jcs) {ls : Int} (hls : jc.lastScheduled = some ls) :
    ∀ t, (jc.key, t) ∈ (runTicks cap flushLimit fuel ⟨pq, listerOf jcs, []⟩ ts).2.1.flatten →
      ls < t := by
  intro t ht
  obtain ⟨hInv, hsearch⟩ := schedNew_spec hnd h
  have hL := listerOf_ok hnd hs
  have hlk := lookup_listerOf jcs hnd jc hjc
  have hent := hsearch jc hjc
  obtain ⟨l, hl, hlt⟩ := List.mem_flatten.1 ht
  have habsent : Heap.search pq jc.key = none → False := by
    intro hnone
    have := (runTicks_absent cap flushLimit fuel jc.key ts ⟨pq, listerOf jcs, []⟩ hInv hL
      (fun _ h => by cases h) hnone).1 l hl
    have hm : t ∈ outk l jc.key := mem_outk.2 hlt
    rw [this] at hm; cases hm
  cases hen : jc.sched.enabled with
  | false =>
    exfalso; apply habsent
    rw [hent]; unfold itemEntry; rw [newItem_disabled hen]
  | true =>
    have hpe : jc.sched.parseErr = false := by
      cases hp : jc.sched.parseErr with
      | false => rfl
      | true =>
        have := (schedNew_none_iff jcs cfg dflt now).2 ⟨jc, hjc, hen, hp⟩
        rw [this] at h; cases h
    rw [itemEntry_active hen hpe] at hent
    cases hne : newEntry jc cfg dflt now with
    | none => exfalso; apply habsent; rw [hent, hne]
    | some e =>
      rw [hne] at hent
      have hr := (run_stream_inv cap flushLimit fuel (w := ⟨pq, listerOf jcs, []⟩) hInv hL rfl hlk
        ⟨hen, hpe⟩ hent ts hts hdone).2.1
      have hge := (hr.sound t (mem_outk.2 ht)).1
      have hel := ((newEntry_spec (hs jc hjc) cfg dflt now).1 e hne).1.2.1
      have := lowerNs_ge_ls hls cfg dflt now
      omega

end Furiko.Cron
