/-
Plan-level lemmas, fifth part: consequences of the call-origin theorems for a whole pass —
what justifies a create call and what justifies a delete call of `syncJobTasks` / `sync` /
`syncOne`, in terms of the ORIGINAL state and cached Job.  Core Lean only.
-/
import FurikoModel.Proofs.JobCtlPlanSync
import FurikoModel.Proofs.StatusLemmas

namespace Furiko.JobCtlPlan
open Furiko Furiko.JobCtl Furiko.WQ

theorem getPendingTimeout_congr {a b : Job} (h : b.template = a.template) (cfg : ExecConfig) :
    getPendingTimeout b cfg = getPendingTimeout a cfg := by
  unfold getPendingTimeout; rw [h]

theorem forbidsForce_congr {a b : Job} (h : b.template = a.template) : forbidsForce b = forbidsForce a := by
  unfold forbidsForce; rw [h]

/-- the kill timestamp has passed: set and not after the clock -/
def KillPassed (clk : Int) (rj : Job) : Prop := ∃ k : Int, rj.killTimestamp = some k ∧ k ≤ clk

theorem killPassed_iff (clk : Int) (rj : Job) :
    isTimeSetAndEarlierOrEqual clk rj.killTimestamp = true ↔ KillPassed clk rj := by
  unfold isTimeSetAndEarlierOrEqual KillPassed
  cases rj.killTimestamp with
  | none => simp
  | some t =>
    simp only [Bool.or_eq_true, decide_eq_true_eq, Option.some.injEq, exists_eq_left']
    exact Int.le_iff_lt_or_eq.symm

/-- `shouldKillJob`, exactly: kill timestamp passed, or the parallel completion strategy is
decided against the remaining tasks, or the admission-error annotation is present -/
theorem shouldKillJob_iff (clk : Int) (rj : Job) :
    shouldKillJob clk rj = true ↔
      KillPassed clk rj ∨ shouldKillJobForParallel rj = true ∨ rj.admissionError = true := by
  unfold shouldKillJob
  rw [← killPassed_iff]
  cases isTimeSetAndEarlierOrEqual clk rj.killTimestamp <;> cases shouldKillJobForParallel rj <;>
    cases rj.admissionError <;> simp

/-- why a delete call of a `syncJobTasks` pass was issued, in terms of the original state `s`,
the cached Job `rj`, and a task `t` of the task list after the creation step -/
inductive DeleteReason (s : Sys) (rj rj1 : Job) (tasks1 : List Task) (c : Call) (t : Task) : Prop
  | pendingTimeout (T : Int) (rj2 : Job) : c.force = false → getPendingTimeout rj s.cfg = some T → 0 < T →
      -- `rj2`: the Job after the status refresh that precedes the step; the task is judged by the ref
      -- recorded there under its name (`pendRef`), the task's own ref only when none is recorded
      rj2.status.tasks = generateTaskRefs s.clock rj1.status.tasks tasks1 →
      isPending (pendRef rj2 t) = true → pendDeadline T (pendRef rj2 t) ≤ s.clock → t.deletionTimestamp = none →
      DeleteReason s rj rj1 tasks1 c t
  | kill (rj' : Job) : c.force = false → isTaskFinished t = false → t.deletionTimestamp = none →
      SameSpec rj1 rj' → shouldKillJob s.clock rj' = true → DeleteReason s rj rj1 tasks1 c t
  | forceDelete (dts : Int) : c.force = true → 0 < getForceDeleteTimeout s.cfg → forbidsForce rj = false →
      t.deletionTimestamp = some dts → dts + getForceDeleteTimeout s.cfg ≤ s.clock → DeleteReason s rj rj1 tasks1 c t

/-- … and shows no more than the task and the ref recorded before together -/
theorem getTaskRef_sub (e : Option TaskRef) (t : Task) :
    ((getTaskRef e t).finishTimestamp = none →
      t.ref.finishTimestamp = none ∧ ∀ ex, e = some ex → ex.finishTimestamp = none) ∧
    ((getTaskRef e t).runningTimestamp = none →
      t.ref.runningTimestamp = none ∧ ∀ ex, e = some ex → ex.runningTimestamp = none) := by
  unfold getTaskRef
  cases e with
  | none =>
    simp only
    split <;> exact ⟨fun h => ⟨h, fun _ h' => by cases h'⟩, fun h => ⟨h, fun _ h' => by cases h'⟩⟩
  | some ex =>
    simp only
    cases hf : t.ref.finishTimestamp <;> cases hr : t.ref.runningTimestamp <;>
      cases hxf : ex.finishTimestamp <;> cases hxr : ex.runningTimestamp <;>
      simp [hf, hr, hxf, hxr] <;> (try split) <;> simp_all

/-- what a pending verdict on the RECORDED ref says (repair of F32).  `rj2` is the Job after the status
refresh over the task list `tasks` (refs before: `ex`), `t` a listed task the step judged pending.  Then the
ref it was judged by is the `GetTaskRef` of a listed task `t'` of the same name — so `t'` itself, as read from
its pod in this pass, reports neither a running nor a finish timestamp — and the ref that was recorded under
that name BEFORE the refresh (if any) shows neither. -/
theorem pending_judged (now : Time) (ex : List TaskRef) (tasks : List Task) (rj2 : Job) (t : Task)
    (hok : ∀ x ∈ tasks, x.ref.name = x.name) (hts : rj2.status.tasks = generateTaskRefs now ex tasks)
    (ht : t ∈ tasks) (hp : isPending (pendRef rj2 t) = true) :
    ∃ t' ∈ tasks, t'.name = t.name ∧ t'.ref.runningTimestamp = none ∧ t'.ref.finishTimestamp = none ∧
      (pendRef rj2 t).creationTimestamp = t'.ref.creationTimestamp ∧
      ∀ e, lookupRef ex t.name = some e → e.runningTimestamp = none ∧ e.finishTimestamp = none := by
  unfold isPending at hp
  simp only [Bool.and_eq_true, Option.isNone_iff_eq_none] at hp
  have hmem : getTaskRef (lookupRef ex t.name) t ∈ rj2.status.tasks := by
    rw [hts]; unfold generateTaskRefs
    rw [StatusLemmas.mem_sortTaskRefs]
    exact List.mem_append_left _ (List.mem_map.mpr ⟨t, ht, rfl⟩)
  unfold pendRef findTaskRef at hp ⊢
  cases hfind : rj2.status.tasks.find? (fun r => r.name == t.name) with
  | none =>
    exfalso
    have := List.find?_eq_none.mp hfind _ hmem
    simp only [StatusLemmas.getTaskRef_name, hok t ht, beq_self_eq_true, not_true_eq_false] at this
  | some r =>
    simp only [hfind, Option.getD_some] at hp ⊢
    have hr : r ∈ rj2.status.tasks := List.mem_of_find?_eq_some hfind
    have hn : r.name = t.name := by simpa using List.find?_some hfind
    rw [hts] at hr
    unfold generateTaskRefs at hr
    rw [StatusLemmas.mem_sortTaskRefs] at hr
    rcases List.mem_append.mp hr with h | h
    · obtain ⟨t', ht', rfl⟩ := List.mem_map.mp h
      rw [StatusLemmas.getTaskRef_name, hok t' ht'] at hn
      obtain ⟨s1, s2⟩ := getTaskRef_sub (lookupRef ex t'.name) t'
      obtain ⟨f1, f2⟩ := s1 hp.1
      obtain ⟨r1, r2⟩ := s2 hp.2
      refine ⟨t', ht', hn, r1, f1, ?_, ?_⟩
      · unfold getTaskRef
        cases lookupRef ex t'.name <;> simp only <;> repeat' split
        all_goals rfl
      · intro e he
        rw [← hn] at he
        exact ⟨r2 e he, f2 e he⟩
    · exfalso
      obtain ⟨e, he, rfl⟩ := List.mem_map.mp h
      have hnot := (List.mem_filter.mp he).2
      have hname : (lostRef now e).name = e.name := by
        unfold lostRef
        cases e.finishTimestamp <;> cases e.deletedStatus <;> rfl
      rw [hname] at hn
      simp only [Bool.not_eq_true', ← Bool.not_eq_true] at hnot
      rw [List.contains_iff_mem] at hnot
      exact hnot (List.mem_map.mpr ⟨t, ht, hn.symm⟩)

/-- a create call of a `syncJobTasks` pass: creation was allowed, the refreshed summary was not
complete, and the call is for a due request of `computeMissingIndexesForCreation` on the cached
refs -/
theorem taskOrigin_create (s : Sys) (jo : JobObj) (rj : Job) (c : Call) (ho : TaskCallOrigin s jo rj c)
    (hv : c.verb = "create") :
    c.res = "pods" ∧ canCreateTask rj = true ∧ (refreshedSummary s rj (tasks0 s jo rj)).complete = false ∧
      ∃ reqs, computeMissingIndexesForCreation s.d rj (rj.indexes s.d) = some reqs ∧
        ∃ r ∈ reqs, c.name = taskName jo.name r.index.hash r.retryIndex ∧ reqDueNow s.clock r := by
  cases ho with
  | create h =>
    obtain ⟨l, e, _, _, hall, _⟩ := syncCreateTasks_ext s jo rj (tasks0 s jo rj)
    rw [e.newCalls] at h
    obtain ⟨_, hr, _, hcan, hcomp, hreq⟩ := hall c h
    exact ⟨hr, hcan, hcomp, hreq⟩
  | pending s1 rj1 tasks1 s' rj' l _ _ _ _ _ h =>
    obtain ⟨l', e, hall, _⟩ := handlePendingTasks_ext s' jo rj' tasks1
    rw [e.newCalls] at h
    rw [(hall c h).1] at hv; simp at hv
  | kill s1 rj1 tasks1 s' rj' l _ _ _ _ h =>
    obtain ⟨l', e, _, hall, _⟩ := handleKillJob_ext s' jo rj' tasks1
    rw [e.newCalls] at h
    rw [(hall c h).1] at hv; simp at hv
  | force s1 rj1 tasks1 s' rj' l _ _ _ _ h =>
    obtain ⟨l', e, hall, _⟩ := handleForceDelete_ext s' jo rj' tasks1
    rw [e.newCalls] at h
    rw [(hall c h).1] at hv; simp at hv

/-- every call of a `syncJobTasks` pass is a pod create or a pod delete -/
theorem taskOrigin_verb (s : Sys) (jo : JobObj) (rj : Job) (c : Call) (ho : TaskCallOrigin s jo rj c) :
    c.res = "pods" ∧ (c.verb = "create" ∨ c.verb = "delete") := by
  cases ho with
  | create h =>
    obtain ⟨l, e, _, _, hall, _⟩ := syncCreateTasks_ext s jo rj (tasks0 s jo rj)
    rw [e.newCalls] at h
    exact ⟨(hall c h).2.1, Or.inl (hall c h).1⟩
  | pending s1 rj1 tasks1 s' rj' l _ _ _ _ _ h =>
    obtain ⟨l', e, hall, _⟩ := handlePendingTasks_ext s' jo rj' tasks1
    rw [e.newCalls] at h
    exact ⟨(hall c h).2.1, Or.inr (hall c h).1⟩
  | kill s1 rj1 tasks1 s' rj' l _ _ _ _ h =>
    obtain ⟨l', e, _, hall, _⟩ := handleKillJob_ext s' jo rj' tasks1
    rw [e.newCalls] at h
    exact ⟨(hall c h).2.1, Or.inr (hall c h).1⟩
  | force s1 rj1 tasks1 s' rj' l _ _ _ _ h =>
    obtain ⟨l', e, hall, _⟩ := handleForceDelete_ext s' jo rj' tasks1
    rw [e.newCalls] at h
    exact ⟨(hall c h).2.1, Or.inr (hall c h).1⟩

/-- a delete call of a `syncJobTasks` pass is a pod delete for a task of the list after the
creation step, justified by the pending timeout, the kill condition, or the force-delete gate -/
theorem taskOrigin_delete (s : Sys) (jo : JobObj) (rj : Job) (c : Call) (ho : TaskCallOrigin s jo rj c)
    (hv : c.verb = "delete") :
    c.res = "pods" ∧ ∃ s1 rj1 tasks1, syncCreateTasks s jo rj (tasks0 s jo rj) = (s1, some (rj1, tasks1)) ∧
      SpecLe rj rj1 ∧ ∃ t ∈ tasks1, t.name = c.name ∧ DeleteReason s rj rj1 tasks1 c t := by
  cases ho with
  | create h =>
    obtain ⟨l, e, _, _, hall, _⟩ := syncCreateTasks_ext s jo rj (tasks0 s jo rj)
    rw [e.newCalls] at h
    rw [(hall c h).1] at hv; simp at hv
  | pending s1 rj1 tasks1 s' rj' l hcr hext hle hss hts h =>
    obtain ⟨l', e, hall, _⟩ := handlePendingTasks_ext s' jo rj' tasks1
    rw [e.newCalls] at h
    obtain ⟨_, hr, hf, T, hT, hpos, t, ht, hn, hp, hd, hdt⟩ := hall c h
    refine ⟨hr, s1, rj1, tasks1, hcr, hle, t, ht, hn, .pendingTimeout T rj' hf ?_ hpos hts hp ?_ hdt⟩
    · rw [← hT, hext.cfg]
      exact (getPendingTimeout_congr (hss.template.trans hle.template) _).symm
    · rw [← hext.clock]; exact hd
  | kill s1 rj1 tasks1 s' rj' l hcr hext hle hss h =>
    obtain ⟨l', e, _, hall, _⟩ := handleKillJob_ext s' jo rj' tasks1
    rw [e.newCalls] at h
    obtain ⟨_, hr, hf, hk, t, ht, hn, hfin, hdt⟩ := hall c h
    exact ⟨hr, s1, rj1, tasks1, hcr, hle, t, ht, hn, .kill rj' hf hfin hdt hss (by rw [← hext.clock]; exact hk)⟩
  | force s1 rj1 tasks1 s' rj' l hcr hext hle hss h =>
    obtain ⟨l', e, hall, _⟩ := handleForceDelete_ext s' jo rj' tasks1
    rw [e.newCalls] at h
    obtain ⟨_, hr, hf, hpos, hfb, t, ht, hn, dts, hdt, hd⟩ := hall c h
    refine ⟨hr, s1, rj1, tasks1, hcr, hle, t, ht, hn, .forceDelete dts hf ?_ ?_ hdt ?_⟩
    · rw [← hext.cfg]; exact hpos
    · rw [← hfb]; exact (forbidsForce_congr (hss.template.trans hle.template)).symm
    · rw [← hext.cfg, ← hext.clock]; exact hd

/-- a create call of `sync` exists only for a started, not-deleting Job whose cached spec allows
creation (no kill timestamp, no admission error) -/
theorem syncOrigin_create (s : Sys) (jo : JobObj) (c : Call) (ho : SyncCallOrigin s jo c) (hv : c.verb = "create") :
    isStarted jo.job = true ∧ isDeleted jo.job = false ∧ TaskCallOrigin s jo jo.job c := by
  cases ho with
  | tasks h1 h2 h3 => exact ⟨h1, h2, h3⟩
  | ttl s' rj' l _ _ h =>
    obtain ⟨l', e, _, _, hall⟩ := handleTTL_ext s' jo rj'
    rw [e.newCalls] at h
    rw [(hall c h).1] at hv; simp at hv
  | finalizer s' rj' l _ _ h =>
    obtain ⟨l', e, hall, _⟩ := handleFinalizer_ext s' jo rj' jo.finalizer
    rw [e.newCalls] at h
    rw [(hall c h).1] at hv; simp at hv

-- ---------------------------------------------------------------- the refreshed status

/-- the Job `syncJobStatusFromTaskRefs` returns -/
theorem syncJobStatus_snd (s : Sys) (key : String) (rj : Job) :
    (syncJobStatusFromTaskRefs s key rj).2 = (updateJobStatusFromTaskRefs s.clock s.d rj).getD rj := by
  unfold syncJobStatusFromTaskRefs
  cases updateJobStatusFromTaskRefs s.clock s.d rj with
  | none => rfl
  | some nj =>
    simp only [Option.getD_some]
    repeat' split
    all_goals rfl

/-- for a parallel Job the refreshed Job carries the parallel status computed from the refreshed
refs (`generateTaskRefs` of the cached refs and the task list) -/
theorem refreshed_parallelStatus (s : Sys) (key : String) (rj : Job) (tasks : List Task) (t : Template) (spec : ParSpec)
    (ht : rj.template = some t) (hp : t.parallelism = some spec) :
    (updateTaskRefStatus s key rj tasks).2.status.parallelStatus =
      some (getParallelStatus s.d (updateJobTaskRefs s.clock rj tasks) (generateTaskRefs s.clock rj.status.tasks tasks)) := by
  unfold updateTaskRefStatus
  rw [syncJobStatus_snd]
  unfold updateJobStatusFromTaskRefs updateJobStatusFromTaskRefsWith
  have : (updateJobTaskRefs s.clock rj tasks).template = some t := ht
  rw [this]
  simp only [Option.getD_some, statusBeforePhase, hp]
  rfl

/-- `shouldKillJobForParallel` reads only the template and the recorded parallel status -/
theorem shouldKillJobForParallel_congr {a b : Job} (h1 : b.template = a.template)
    (h2 : b.status.parallelStatus = a.status.parallelStatus) :
    shouldKillJobForParallel b = shouldKillJobForParallel a := by
  unfold shouldKillJobForParallel; rw [h1, h2]

/-- `shouldKillJobForParallel`, exactly: parallel Job whose recorded summary is complete and
decided AGAINST continuing — AllSuccessful already failed, or AnySuccessful already succeeded -/
theorem shouldKillJobForParallel_iff (rj : Job) :
    shouldKillJobForParallel rj = true ↔
      ∃ t spec st b, rj.template = some t ∧ t.parallelism = some spec ∧ rj.status.parallelStatus = some st ∧
        st.summary.complete = true ∧ st.summary.successful = some b ∧
        ((spec.strategy.get = .allSuccessful ∧ b = false) ∨ (spec.strategy.get = .anySuccessful ∧ b = true)) := by
  unfold shouldKillJobForParallel
  cases hT : rj.template with
  | none => simp
  | some t =>
    cases hP : t.parallelism with
    | none => simp [hP]
    | some spec =>
      cases hS : rj.status.parallelStatus with
      | none => simp [hP]
      | some st =>
        cases hB : st.summary.successful with
        | none => simp [hP, hB]
        | some b =>
          cases hC : st.summary.complete <;> cases hG : spec.strategy.get <;> cases b <;> simp [hP, hB, hC, hG]

end Furiko.JobCtlPlan
