/-
Tie between hand-written `match`es of the taskfn model and the tables regenerated from the Go
source (`Generated/Facts.lean`): each model function is shown equal, for every input, to the
interpretation of the regenerated table.  If the source's case order / increments / mapping
change, these stop compiling (a broken tie, handled like a broken proof).  Core Lean only.
-/
import FurikoModel.Model.JobStatus
namespace Furiko.TaskfnFacts
open Furiko

-- ---------------------------------------------------------------- getJobStateFromCondition

def memberSet (c : Condition) (m : String) : Bool :=
  if m = "Queueing" then c.queueing.isSome
  else if m = "Waiting" then c.waiting.isSome
  else if m = "Running" then c.running.isSome
  else if m = "Finished" then c.finished.isSome
  else false

def jobStateOfStr (s : String) : JobState :=
  if s = "Queued" then .queued else if s = "Waiting" then .waiting
  else if s = "Running" then .running else if s = "Finished" then .finished else .empty

/-- a tagless switch read as data: first case whose member is set, else the default -/
def evalStateCases (cases : List (String × String)) (dflt : String) (c : Condition) : JobState :=
  match cases.find? (fun p => memberSet c p.1) with
  | some p => jobStateOfStr p.2
  | none => jobStateOfStr dflt

theorem getJobStateFromCondition_agrees (c : Condition) :
    getJobStateFromCondition c = evalStateCases Facts.jobStateCases Facts.jobStateDefault c := by
  obtain ⟨q, w, r, f⟩ := c
  cases q <;> cases w <;> cases r <;> cases f <;> rfl

-- ---------------------------------------------------------------- GetParallelStatusCounters

def incrField (c : Counters) (f : String) : Counters :=
  if f = "Created" then { c with created := c.created + 1 }
  else if f = "Starting" then { c with starting := c.starting + 1 }
  else if f = "Running" then { c with running := c.running + 1 }
  else if f = "RetryBackoff" then { c with retryBackoff := c.retryBackoff + 1 }
  else if f = "Terminated" then { c with terminated := c.terminated + 1 }
  else if f = "Succeeded" then { c with succeeded := c.succeeded + 1 }
  else if f = "Failed" then { c with failed := c.failed + 1 }
  else c

def indexStateStr : IndexState → String
  | .empty => "" | .notCreated => "NotCreated" | .retryBackoff => "RetryBackoff"
  | .starting => "Starting" | .running => "Running" | .terminated => "Terminated"
def taskResultStr : TaskResult → String
  | .none => "" | .succeeded => "Succeeded" | .failed => "Failed" | .killed => "Killed"

def evalIncr (table : List (String × List String)) (key : String) (c : Counters) : Counters :=
  ((table.lookup key).getD []).foldl incrField c

theorem countersAdd_agrees (c : Counters) (s : IndexStatus) :
    c.add s = evalIncr Facts.counterIncrByResult (taskResultStr s.result)
                (evalIncr Facts.counterIncrByState (indexStateStr s.state) c) := by
  unfold Counters.add
  cases s.state <;> cases s.result <;> rfl

-- ---------------------------------------------------------------- PodTask.GetState / GetResult

def podPhaseStr : PodPhase → String
  | .pending => "Pending" | .running => "Running" | .succeeded => "Succeeded" | .failed => "Failed"
  | .unknown => "Unknown" | .other => ""
def taskStateOfStr (s : String) : TaskState :=
  if s = "Starting" then .starting else if s = "Running" then .running else if s = "Killing" then .killing
  else if s = "Terminated" then .terminated else if s = "DeletedFinalStateUnknown" then .deletedFinalStateUnknown else .empty
def taskResultOfStr (s : String) : TaskResult :=
  if s = "Succeeded" then .succeeded else if s = "Failed" then .failed else if s = "Killed" then .killed else .none

theorem podState_agrees (p : Pod) :
    p.state = if p.deletionTimestamp.isSome && !p.isFinished then .killing
              else taskStateOfStr ((Facts.podStateByPhase.lookup (podPhaseStr p.phase)).getD Facts.podStateDefault) := by
  unfold Pod.state
  cases p.phase <;> rfl

theorem podResult_agrees (p : Pod) :
    p.result = if p.isOOMKilled then .failed
               else taskResultOfStr ((Facts.podResultByPhase.lookup (podPhaseStr p.phase)).getD "") := by
  unfold Pod.result
  cases p.phase <;> rfl

/-- the phase names the model returns below the head switch exist as JobPhase constants, and the
terminal ones are exactly the values of the head switch -/
theorem phase_names_known :
    (∀ p ∈ [phaseKilling, phaseTerminating, phaseRunning, phaseStarting, phaseRetryBackoff, phaseRetrying,
             phasePending, phaseQueued], p ∈ Facts.allPhases) ∧
    (∀ p ∈ Facts.terminalPhases, p ∈ Facts.resultToPhase.map (·.2) ++ [Facts.resultDefaultPhase]) ∧
    (∀ r : JobResult, r ≠ .other → r.str ∈ Facts.allResults) := by
  refine ⟨by decide, by decide, ?_⟩
  intro r hr
  cases r <;> first | decide | exact absurd rfl hr

end Furiko.TaskfnFacts
