/-
Liveness of the job controller, part 28: API calls and the creation stage of a pass UNDER ANY FAULT
LIST (`Sys.faults`: one entry consumed per call; `err` / `timeout` / `conflict` = not applied and
reported failed, `applied-err` = applied but reported failed, anything else = applied and reported).
* `apiCreatePod_cases`, `apiCreatePod_taken_cases`, `apiUpdateJobStatus_cases`: the outcomes of a call;
* `syncCreateTasks_created` / `_existing` / `_failed`: the creation stage of a simple Job given the
  outcome of its one create call.
Core Lean only.
-/
import FurikoModel.Proofs.JobCtlLive27

set_option linter.unusedSimpArgs false
set_option linter.unusedVariables false

namespace Furiko.JobCtl.Live
open Furiko Furiko.JobCtl Furiko.WQ Furiko.StatusLemmas Furiko.JobCtlPlan Furiko.Conv

/-- the state after a call consumed its fault -/
def faultTail (s : Sys) : Sys := { s with faults := s.faults.tail, delRun := none }

theorem nextFault_eq' (s : Sys) : nextFault s = (s.faults.headD "", faultTail s) := by
  unfold nextFault popFault faultTail
  cases h : s.faults with
  | nil => simp [h]
  | cons f rest => rfl

/-- the state after a call that was not applied -/
def notApplied (s : Sys) (c : Call) : Sys := { faultTail s with calls := s.calls ++ [c] }

/-- the state after a pod create that was applied -/
def createdF (s : Sys) (jo : JobObj) (idx : PIndex) (retry : Int) : Sys :=
  { faultTail s with rv := s.rv + 1, pods := s.pods ++ [newPod jo idx retry (nowT s)],
                     podEvs := s.podEvs ++ [.upsert (newPod jo idx retry (nowT s))],
                     calls := s.calls ++ [⟨"create", "pods", taskName jo.name idx.hash retry, "ok", false, false⟩] }

/-- the state after a status update that was applied -/
def statusF (s : Sys) (jo : JobObj) (rjF : Job) : Sys :=
  { faultTail s with rv := s.rv + 1, job := some (written jo rjF (s.rv + 1)),
                     jobEvs := s.jobEvs ++ [.upsert (written jo rjF (s.rv + 1))],
                     calls := s.calls ++ [⟨"update", "jobs", jo.name, "ok", true, false⟩] }

/-- a pod create of a free name under any fault list: not applied (reported failed), applied but reported
failed, or applied and reported -/
theorem apiCreatePod_cases (s : Sys) (jo : JobObj) (idx : PIndex) (retry : Int)
    (hn : findPod s.pods (taskName jo.name idx.hash retry) = none) :
    (∃ c, apiCreatePod s jo idx retry = (notApplied s c, .err)) ∨
    apiCreatePod s jo idx retry = (createdF s jo idx retry, .err) ∨
    apiCreatePod s jo idx retry = (createdF s jo idx retry, .ok (newPod jo idx retry (nowT s))) := by
  unfold apiCreatePod
  rw [nextFault_eq']
  generalize s.faults.headD "" = f
  by_cases hf : isFailFault f = true
  · left
    simp only [hf, ↓reduceIte, log]
    exact ⟨_, rfl⟩
  · right
    have hn' : findPod (faultTail s).pods (taskName jo.name idx.hash retry) = none := hn
    simp only [hf, Bool.false_eq_true, ↓reduceIte, hn', Option.isSome_none, log]
    by_cases ha : f = "applied-err"
    · left; simp [ha, newPod, faultTail, nowT, nowSec, createdF]
    · right; simp [ha, newPod, faultTail, nowT, nowSec, createdF]

/-- … of a name that is taken: not applied and reported failed, or answered AlreadyExists -/
theorem apiCreatePod_taken_cases (s : Sys) (jo : JobObj) (idx : PIndex) (retry : Int) (p : PodObj)
    (hn : findPod s.pods (taskName jo.name idx.hash retry) = some p) :
    (∃ c, apiCreatePod s jo idx retry = (notApplied s c, .err)) ∨
    (∃ c, apiCreatePod s jo idx retry = (notApplied s c, .exists)) := by
  unfold apiCreatePod
  rw [nextFault_eq']
  by_cases hf : isFailFault (s.faults.headD "") = true
  · left
    simp only [hf, ↓reduceIte, log]
    exact ⟨_, rfl⟩
  · right
    have hn' : findPod (faultTail s).pods (taskName jo.name idx.hash retry) = some p := hn
    simp only [hf, Bool.false_eq_true, ↓reduceIte, hn', Option.isSome_some, log]
    exact ⟨_, rfl⟩

/-- a status update with the authoritative version in hand under any fault list: not applied and reported
failed, or applied (reported either way) -/
theorem apiUpdateJobStatus_cases (s : Sys) (jo : JobObj) (newJob : Job) (hj : s.job = some jo)
    (hne : newJob.status ≠ jo.job.status) :
    (∃ c, apiUpdateJobStatus s jo { jo with job := newJob } = (notApplied s c, false)) ∨
    (∃ b, apiUpdateJobStatus s jo { jo with job := newJob } = (statusF s jo newJob, b)) := by
  unfold apiUpdateJobStatus
  rw [nextFault_eq']
  generalize s.faults.headD "" = f
  by_cases hf : isFailFault f = true
  · left
    simp only [hf, ↓reduceIte, log]
    exact ⟨_, rfl⟩
  · right
    have hj' : (faultTail s).job = some jo := hj
    have hno : ¬ ({ ({ jo with job := { jo.job with status := newJob.status }, rv := s.rv + 1 } : JobObj) with rv := jo.rv } = jo) := by
      intro e
      have := congrArg (fun j => j.job.status) e
      exact hne this
    simp only [hf, Bool.false_eq_true, ↓reduceIte, hj', log]
    refine ⟨decide (f ≠ "applied-err"), ?_⟩
    simp [hno, statusF, written, faultTail]

/-! ### the creation stage, given the outcome of the create call -/

/-- the create call was applied and reported: the task is recorded by this pass -/
theorem syncCreateTasks_created (s X : Sys) (jo : JobObj) (T : List Task) (h : SimpleSpec jo.job)
    (hc : (getParallelTaskSummary s.d jo.job (generateTaskRefs s.clock jo.job.status.tasks T)).complete = false)
    (hf : jo.job.status.tasks.any refActiveOrSuccessful = false)
    (hlt : nextRetryIndex s.d jo.job.status.tasks s.d.hash < jo.job.maxAttempts)
    (hdue : DueReq s.clock (theReq s.d jo.job).earliest)
    (hcr : apiCreatePod s jo s.d (theReq s.d jo.job).retryIndex =
      (X, .ok (newPod jo s.d (theReq s.d jo.job).retryIndex (nowT s)))) :
    syncCreateTasks s jo jo.job T =
      ((updateTaskRefStatus (armEarliest X (jobKey jo) (theReq s.d jo.job).earliest) (jobKey jo) jo.job
          (T ++ [newTask jo s.d (theReq s.d jo.job).retryIndex (nowT s)])).1,
       some ((updateTaskRefStatus (armEarliest X (jobKey jo) (theReq s.d jo.job).earliest) (jobKey jo) jo.job
          (T ++ [newTask jo s.d (theReq s.d jo.job).retryIndex (nowT s)])).2,
         T ++ [newTask jo s.d (theReq s.d jo.job).retryIndex (nowT s)])) := by
  unfold syncCreateTasks
  have hm := reqs_single s.d jo.job h hf hlt
  have hidx : (theReq s.d jo.job).index = s.d := rfl
  have hskip := skip_false s _ hdue
  simp only [canCreate_simple h, Bool.not_true, Bool.false_eq_true, ↓reduceIte, hc, hm, createLoop, hskip,
    syncCreateTask, hidx]
  rw [hcr]
  simp only [podTask_newPod, Option.map_some, createLoop]
  by_cases hz : (theReq s.d jo.job).earliest = zeroTime
  · simp only [hz, ↓reduceIte, armEarliest, newTask]
  · simp only [hz, ↓reduceIte, armEarliest, newTask]

/-- the create call was answered AlreadyExists: the task of that name is adopted -/
theorem syncCreateTasks_existing (s X : Sys) (jo : JobObj) (T : List Task) (h : SimpleSpec jo.job)
    (hc : (getParallelTaskSummary s.d jo.job (generateTaskRefs s.clock jo.job.status.tasks T)).complete = false)
    (hf : jo.job.status.tasks.any refActiveOrSuccessful = false)
    (hlt : nextRetryIndex s.d jo.job.status.tasks s.d.hash < jo.job.maxAttempts)
    (hdue : DueReq s.clock (theReq s.d jo.job).earliest) (p : PodObj) (t : Task)
    (hcr : apiCreatePod s jo s.d (theReq s.d jo.job).retryIndex = (X, .exists))
    (hfind : findPod X.podCache (taskName jo.name s.d.hash (theReq s.d jo.job).retryIndex) = some p)
    (hown : p.ownerUid = some jo.uid) (ht : podTask s.clock p = some t) :
    syncCreateTasks s jo jo.job T =
      ((updateTaskRefStatus (armEarliest X (jobKey jo) (theReq s.d jo.job).earliest) (jobKey jo) jo.job (T ++ [t])).1,
       some ((updateTaskRefStatus (armEarliest X (jobKey jo) (theReq s.d jo.job).earliest) (jobKey jo) jo.job
          (T ++ [t])).2, T ++ [t])) := by
  unfold syncCreateTasks
  have hm := reqs_single s.d jo.job h hf hlt
  have hidx : (theReq s.d jo.job).index = s.d := rfl
  have hskip := skip_false s _ hdue
  simp only [canCreate_simple h, Bool.not_true, Bool.false_eq_true, ↓reduceIte, hc, hm, createLoop, hskip,
    syncCreateTask, hidx]
  rw [hcr]
  simp only [hfind, hown, ↓reduceIte, ht, Option.map_some, createLoop]
  by_cases hz : (theReq s.d jo.job).earliest = zeroTime
  · simp only [hz, ↓reduceIte, armEarliest]
  · simp only [hz, ↓reduceIte, armEarliest]

/-- the create call was reported failed: the creation stage returns the error -/
theorem syncCreateTasks_failed (s X : Sys) (jo : JobObj) (T : List Task) (h : SimpleSpec jo.job)
    (hc : (getParallelTaskSummary s.d jo.job (generateTaskRefs s.clock jo.job.status.tasks T)).complete = false)
    (hf : jo.job.status.tasks.any refActiveOrSuccessful = false)
    (hlt : nextRetryIndex s.d jo.job.status.tasks s.d.hash < jo.job.maxAttempts)
    (hdue : DueReq s.clock (theReq s.d jo.job).earliest)
    (hcr : apiCreatePod s jo s.d (theReq s.d jo.job).retryIndex = (X, .err)) :
    syncCreateTasks s jo jo.job T = (X, none) := by
  unfold syncCreateTasks
  have hm := reqs_single s.d jo.job h hf hlt
  have hidx : (theReq s.d jo.job).index = s.d := rfl
  have hskip := skip_false s _ hdue
  simp only [canCreate_simple h, Bool.not_true, Bool.false_eq_true, ↓reduceIte, hc, hm, createLoop, hskip,
    syncCreateTask, hidx]
  rw [hcr]

/-- the creation stage failed: `Reconciler.sync` returns the error with the Job as it got it, and `SyncOne`
writes nothing -/
theorem syncOne_failed (sp X : Sys) (jo : JobObj) (hc : sp.jobCache = some jo) (hjo : SimpleSpec jo.job)
    (hcreate : syncCreateTasks sp jo jo.job (tasksForRefs sp jo jo.job.status.tasks) = (X, none)) :
    syncOne sp = (X, false) := by
  have hsync : sync sp jo = (X, jo.job, jo.finalizer, false, false) := by
    rw [sync_eq]
    have hstage : syncTasksStage sp jo = (X, none) := by
      unfold syncTasksStage
      have h1 : isStarted jo.job = true := hjo.started
      have h2 : isDeleted jo.job = false := by unfold isDeleted; rw [hjo.del]; rfl
      simp only [h1, h2, Bool.not_false, Bool.and_self, ↓reduceIte]
      unfold syncJobTasks
      simp only [hcreate]
    simp only [hstage]
  unfold syncOne
  simp only [hc, hsync, ne_eq, not_true_eq_false, decide_false, Bool.or_self, Bool.false_eq_true, ↓reduceIte,
    Bool.not_true]

end Furiko.JobCtl.Live
