/-
`refreshUpdatedJobConfigs` (`refresh`): each flush is Delete + Bump(now) of the lister's version; frame properties;
reduction of a tick with a non-empty channel to a tick with an empty one; informer handlers.
-/
import FurikoModel.Proofs.CronKey

namespace Furiko.Cron
open Furiko

theorem schedBump_frame {pq : Heap.PQ} (h : Heap.Inv pq) (jc : JC) (fromNs : Int) :
    Heap.Inv (schedBump pq jc fromNs).1 ∧
    ∀ k, k ≠ jc.key → Heap.search (schedBump pq jc fromNs).1 k = Heap.search pq k := by
  by_cases hen : jc.sched.enabled = true
  · by_cases hpe : jc.sched.parseErr = true
    · have : schedBump pq jc fromNs = (pq, true) := by unfold schedBump; simp [hen, hpe]
      rw [this]
      exact ⟨h, fun _ _ => rfl⟩
    · unfold schedBump
      simp only [hen, hpe, Bool.not_true, Bool.false_eq_true, if_false]
      cases hn : getNext jc.nxt jc.sched.notBefore jc.sched.notAfter fromNs with
      | none =>
        refine ⟨schedDelete_inv h _, fun k hk => ?_⟩
        simp only []
        rw [schedDelete_search h, if_neg hk]
      | some n =>
        simp only []
        by_cases hgt : n * 1000000000 > fromNs
        · simp only [hgt, decide_true, Bool.not_true, Bool.false_eq_true, if_false]
          cases hsr : Heap.search pq jc.key with
          | some p =>
            have hne : Heap.search pq jc.key ≠ none := by rw [hsr]; simp
            refine ⟨Heap.inv_update h _ _, fun k hk => ?_⟩
            simp only []
            rw [Heap.search_update h _ _ hne, if_neg hk]
          | none =>
            refine ⟨Heap.inv_push h _ _ hsr, fun k hk => ?_⟩
            simp only []
            rw [Heap.search_push h _ _ hsr, if_neg hk]
        · rw [if_pos (by simp [hgt])]
          exact ⟨h, fun _ _ => rfl⟩
  · have hen' : jc.sched.enabled = false := by simpa using hen
    have : schedBump pq jc fromNs = (schedDelete pq jc.key, false) := by
      unfold schedBump; simp [hen']
    rw [this]
    refine ⟨schedDelete_inv h _, fun k hk => ?_⟩
    simp only []
    rw [schedDelete_search h, if_neg hk]

/-- entry that a Bump at second `s` gives the lister's current version of key `k`
(none if the key is gone from the lister) -/
def listerEnt (lister : List (String × JC)) (k : String) (s : Int) : Option Int :=
  match lookup lister k with
  | none => none
  | some cur => bumpEnt cur s

/-- one flush: `Delete(key)`, then `Bump(cur, now)` of the lister's current version -/
def flushOne (heap : Heap.PQ) (lister : List (String × JC)) (jc : JC) (now : Int) : Heap.PQ :=
  match lookup lister jc.key with
  | none => schedDelete heap jc.key
  | some cur => (schedBump (schedDelete heap jc.key) cur now).1

theorem flushOne_frame {heap : Heap.PQ} {lister : List (String × JC)} (h : Heap.Inv heap)
    (hL : ListerOK lister) (jc : JC) (now : Int) :
    Heap.Inv (flushOne heap lister jc now) ∧
    ∀ k, k ≠ jc.key → Heap.search (flushOne heap lister jc now) k = Heap.search heap k := by
  unfold flushOne
  cases hlk : lookup lister jc.key with
  | none =>
    refine ⟨schedDelete_inv h _, fun k hk => ?_⟩
    simp only []
    rw [schedDelete_search h, if_neg hk]
  | some cur =>
    have hkey := (lookup_ok hL hlk).1
    have a := schedBump_frame (schedDelete_inv h jc.key) cur now
    refine ⟨a.1, fun k hk => ?_⟩
    simp only []
    rw [a.2 k (by rw [hkey]; exact hk), schedDelete_search h, if_neg hk]

theorem flushOne_spec {heap : Heap.PQ} {lister : List (String × JC)} (h : Heap.Inv heap)
    (hL : ListerOK lister) (jc : JC) (now : Int) :
    Heap.search (flushOne heap lister jc now) jc.key = listerEnt lister jc.key (floorSec now) := by
  unfold flushOne listerEnt
  cases hlk : lookup lister jc.key with
  | none =>
    simp only []
    rw [schedDelete_search h, if_pos rfl]
  | some cur =>
    obtain ⟨hkey, hs⟩ := lookup_ok hL hlk
    have a := schedBump_spec (schedDelete_inv h jc.key) cur hs now
    simp only []
    rw [a.2, if_pos hkey.symm, hkey, schedDelete_search h, if_pos rfl, bumpEntry_none]

theorem refresh_cons (heap : Heap.PQ) (lister : List (String × JC)) (jc : JC) (rest : List JC)
    (now : Int) (limit : Nat) :
    refresh heap lister (jc :: rest) now (limit + 1)
      = refresh (flushOne heap lister jc now) lister rest now limit := by
  unfold flushOne
  cases hlk : lookup lister jc.key <;> simp [refresh, hlk]

theorem refresh_frame {lister : List (String × JC)} (hL : ListerOK lister) (now : Int) :
    ∀ (limit : Nat) (heap : Heap.PQ) (chan : List JC),
    Heap.Inv heap →
    Heap.Inv (refresh heap lister chan now limit).1 ∧
    (refresh heap lister chan now limit).2 = chan.drop limit ∧
    ∀ k, (∀ jc ∈ chan.take limit, jc.key ≠ k) →
      Heap.search (refresh heap lister chan now limit).1 k = Heap.search heap k := by
  intro limit
  induction limit with
  | zero =>
    intro heap chan h
    have : refresh heap lister chan now 0 = (heap, chan) := by simp [refresh]
    rw [this]
    exact ⟨h, rfl, fun _ _ => rfl⟩
  | succ limit ih =>
    intro heap chan h
    cases chan with
    | nil => exact ⟨h, rfl, fun _ _ => rfl⟩
    | cons jc rest =>
      rw [refresh_cons]
      have a := flushOne_frame h hL jc now
      have b := ih (flushOne heap lister jc now) rest a.1
      refine ⟨b.1, b.2.1, fun k hk => ?_⟩
      rw [b.2.2 k (fun jc' hjc' => hk jc' (by simp [List.take_succ_cons, hjc']))]
      exact a.2 k (fun hkk => hk jc (by simp [List.take_succ_cons]) hkk.symm)

/-- The last flush for a key within the flush limit re-bases the key to the LISTER's current
version (whatever object sits in the channel). -/
theorem refresh_rebases {lister : List (String × JC)} (hL : ListerOK lister) (now : Int)
    {jc : JC} {post : List JC} (hpost : ∀ jc' ∈ post, jc'.key ≠ jc.key) :
    ∀ (pre : List JC) (heap : Heap.PQ) (limit : Nat), Heap.Inv heap → pre.length + 1 ≤ limit →
      Heap.Inv (refresh heap lister (pre ++ [jc] ++ post) now limit).1 ∧
      Heap.search (refresh heap lister (pre ++ [jc] ++ post) now limit).1 jc.key
        = listerEnt lister jc.key (floorSec now) := by
  intro pre
  induction pre with
  | nil =>
    intro heap limit h hl
    obtain ⟨l, rfl⟩ : ∃ l, limit = l + 1 := ⟨limit - 1, by omega⟩
    simp only [List.nil_append, List.singleton_append]
    rw [refresh_cons]
    have a := flushOne_frame h hL jc now
    have b := refresh_frame hL now l (flushOne heap lister jc now) post a.1
    refine ⟨b.1, ?_⟩
    rw [b.2.2 jc.key (fun jc' hjc' => hpost jc' (List.mem_of_mem_take hjc'))]
    exact flushOne_spec h hL jc now
  | cons p pre ih =>
    intro heap limit h hl
    obtain ⟨l, rfl⟩ : ∃ l, limit = l + 1 := ⟨limit - 1, by simp at hl; omega⟩
    simp only [List.cons_append]
    rw [refresh_cons]
    have := ih (flushOne heap lister p now) l (flushOne_frame h hL p now).1 (by simp at hl; omega)
    simpa using this

/-- the worker at the start of the pop loop -/
def afterRefresh (w : Worker) (now : Int) (flushLimit : Nat) : Worker :=
  { w with heap := (refresh w.heap w.lister w.chan now flushLimit).1, chan := [] }

/-- a tick with pending flushes = the flushes, then a tick with an empty channel -/
theorem work_refresh (w : Worker) (now : Int) (cap : Int) (flushLimit fuel : Nat) :
    work w now cap flushLimit fuel =
      ({ (work (afterRefresh w now flushLimit) now cap flushLimit fuel).1 with
          chan := (refresh w.heap w.lister w.chan now flushLimit).2 },
       (work (afterRefresh w now flushLimit) now cap flushLimit fuel).2) := by
  rw [work_eq (afterRefresh w now flushLimit) now cap flushLimit fuel rfl]
  rfl

theorem work_fired_eq (w : Worker) (now : Int) (cap : Int) (flushLimit fuel : Nat) :
    (work w now cap flushLimit fuel).2
      = (work (afterRefresh w now flushLimit) now cap flushLimit fuel).2 := by
  rw [work_refresh]

theorem work_heap_eq (w : Worker) (now : Int) (cap : Int) (flushLimit fuel : Nat) :
    (work w now cap flushLimit fuel).1.heap
      = (work (afterRefresh w now flushLimit) now cap flushLimit fuel).1.heap := by
  rw [work_refresh]

theorem work_lister_eq (w : Worker) (now : Int) (cap : Int) (flushLimit fuel : Nat) :
    (work w now cap flushLimit fuel).1.lister = w.lister := rfl

theorem work_chan_eq (w : Worker) (now : Int) (cap : Int) (flushLimit fuel : Nat)
    (hInv : Heap.Inv w.heap) (hL : ListerOK w.lister) :
    (work w now cap flushLimit fuel).1.chan = w.chan.drop flushLimit := by
  rw [work_refresh]
  exact (refresh_frame hL now flushLimit w.heap w.chan hInv).2.1

/-! ### a key that is out of the heap stays out until it is flushed -/

theorem work_absent_general {w : Worker} {now : Int} {cap : Int} (flushLimit fuel : Nat)
    (hInv : Heap.Inv w.heap) (hL : ListerOK w.lister) {k : String}
    (hchan : ∀ jc ∈ w.chan, jc.key ≠ k) (he : Heap.search w.heap k = none) :
    Heap.Inv (work w now cap flushLimit fuel).1.heap ∧
    outk (work w now cap flushLimit fuel).2.1 k = [] ∧
    Heap.search (work w now cap flushLimit fuel).1.heap k = none ∧
    (∀ jc ∈ (work w now cap flushLimit fuel).1.chan, jc.key ≠ k) := by
  have hr := refresh_frame hL now flushLimit w.heap w.chan hInv
  have he' : Heap.search (afterRefresh w now flushLimit).heap k = none := by
    show Heap.search (refresh w.heap w.lister w.chan now flushLimit).1 k = none
    rw [hr.2.2 k (fun jc hjc => hchan jc (List.mem_of_mem_take hjc))]; exact he
  have ha := work_key_absent (w := afterRefresh w now flushLimit) (now := now) (cap := cap)
    flushLimit fuel hr.1 hL rfl he'
  have hi := (work_keywise (w := afterRefresh w now flushLimit) (now := now) (cap := cap)
    flushLimit fuel hr.1 hL rfl (fun _ _ => True) (fun _ _ _ _ _ _ => trivial)
    (fun _ => trivial)).1
  rw [work_fired_eq, work_heap_eq, work_chan_eq _ _ _ _ _ hInv hL]
  exact ⟨hi, ha.1, ha.2, fun jc hjc => hchan jc (List.mem_of_mem_drop hjc)⟩

theorem work_inv_general {w : Worker} {now : Int} {cap : Int} (flushLimit fuel : Nat)
    (hInv : Heap.Inv w.heap) (hL : ListerOK w.lister) :
    Heap.Inv (work w now cap flushLimit fuel).1.heap := by
  have hr := refresh_frame hL now flushLimit w.heap w.chan hInv
  rw [work_heap_eq]
  exact (work_inv (w := afterRefresh w now flushLimit) (now := now) (cap := cap) flushLimit fuel
    hr.1 hL rfl).1

/-- a key without lister entry never fires, whatever is in the heap or the channel -/
theorem work_missing_general {w : Worker} {now : Int} {cap : Int} (flushLimit fuel : Nat)
    (hInv : Heap.Inv w.heap) (hL : ListerOK w.lister) {k : String}
    (hlk : lookup w.lister k = none) :
    outk (work w now cap flushLimit fuel).2.1 k = [] := by
  have hr := refresh_frame hL now flushLimit w.heap w.chan hInv
  rw [work_fired_eq]
  exact work_key_missing_silent (w := afterRefresh w now flushLimit) (now := now) (cap := cap)
    flushLimit fuel hr.1 hL rfl hlk

theorem bumpEnt_gt {jc : JC} (hs : jc.SortedOK) (s e : Int) (h : bumpEnt jc s = some e) :
    s < e := by
  unfold bumpEnt at h
  split at h
  · exact ((JC.nextAfter_spec hs s).1 e h).1
  · cases h

theorem listerEnt_gt {lister : List (String × JC)} (hL : ListerOK lister) (k : String)
    (s e : Int) (h : listerEnt lister k s = some e) : s < e := by
  unfold listerEnt at h
  cases hlk : lookup lister k with
  | none => rw [hlk] at h; cases h
  | some cur => rw [hlk] at h; exact bumpEnt_gt (lookup_ok hL hlk).2 s e h

/-- The tick that processes the (last) flush for `jc.key`: the key is re-based to `Next(now)` of
the lister's current version (or removed), and nothing is requested for it in this tick — in
particular an overdue entry of the old schedule is dropped unfired.  Any fuel. -/
theorem flush_tick {w : Worker} {now : Int} {cap : Int} (flushLimit fuel : Nat)
    (hInv : Heap.Inv w.heap) (hL : ListerOK w.lister) {jc : JC}
    {pre post : List JC} (hchan : w.chan = pre ++ [jc] ++ post)
    (hpost : ∀ jc' ∈ post, jc'.key ≠ jc.key) (hlim : pre.length + 1 ≤ flushLimit) :
    Heap.search (refresh w.heap w.lister w.chan now flushLimit).1 jc.key
      = listerEnt w.lister jc.key (floorSec now) ∧
    outk (work w now cap flushLimit fuel).2.1 jc.key = [] ∧
    Heap.search (work w now cap flushLimit fuel).1.heap jc.key
      = listerEnt w.lister jc.key (floorSec now) ∧
    (∀ jc' ∈ (work w now cap flushLimit fuel).1.chan, jc'.key ≠ jc.key) := by
  have hr := refresh_rebases hL now hpost pre w.heap flushLimit hInv hlim
  rw [← hchan] at hr
  have hdrop : ∀ jc' ∈ w.chan.drop flushLimit, jc'.key ≠ jc.key := by
    intro jc' hm
    rw [hchan, List.drop_append] at hm
    have hnil : List.drop flushLimit (pre ++ [jc]) = [] :=
      List.drop_eq_nil_iff.2 (by simp; omega)
    rw [hnil, List.nil_append] at hm
    exact hpost jc' (List.mem_of_mem_drop hm)
  rw [work_fired_eq, work_heap_eq, work_chan_eq _ _ _ _ _ hInv hL]
  refine ⟨hr.2, ?_, ?_, hdrop⟩
  · cases hb : listerEnt w.lister jc.key (floorSec now) with
    | none =>
      exact (work_key_absent (w := afterRefresh w now flushLimit) (now := now) (cap := cap)
        flushLimit fuel hr.1 hL rfl (hr.2.trans hb)).1
    | some e =>
      exact (work_key_not_due (w := afterRefresh w now flushLimit) (now := now) (cap := cap)
        flushLimit fuel hr.1 hL rfl (hr.2.trans hb) (listerEnt_gt hL _ _ _ hb)).1
  · cases hb : listerEnt w.lister jc.key (floorSec now) with
    | none =>
      exact (work_key_absent (w := afterRefresh w now flushLimit) (now := now) (cap := cap)
        flushLimit fuel hr.1 hL rfl (hr.2.trans hb)).2
    | some e =>
      exact (work_key_not_due (w := afterRefresh w now flushLimit) (now := now) (cap := cap)
        flushLimit fuel hr.1 hL rfl (hr.2.trans hb) (listerEnt_gt hL _ _ _ hb)).2

/-- the entry a flush at `now` leaves for a JobConfig version `cur` -/
def flushEntryOf (cur : JC) (now : Int) : Option Int :=
  if cur.sched.enabled && !cur.sched.parseErr then
    getNext cur.nxt cur.sched.notBefore cur.sched.notAfter now
  else none

/-- the entry a flush at `now` leaves for key `k`: computed from the lister's current version -/
def flushEntry (lister : List (String × JC)) (k : String) (now : Int) : Option Int :=
  match lookup lister k with
  | none => none
  | some cur => flushEntryOf cur now

theorem flushEntryOf_eq (cur : JC) (now : Int) :
    flushEntryOf cur now = bumpEnt cur (floorSec now) := by
  unfold flushEntryOf bumpEnt
  rw [getNext_eq_nextAfter]

theorem flushEntry_eq (lister : List (String × JC)) (k : String) (now : Int) :
    flushEntry lister k now = listerEnt lister k (floorSec now) := by
  unfold flushEntry listerEnt
  cases lookup lister k with
  | none => rfl
  | some cur => exact flushEntryOf_eq cur now

theorem flushEntry_of_lookup {lister : List (String × JC)} {k : String} {cur : JC}
    (h : lookup lister k = some cur) (now : Int) :
    flushEntry lister k now = flushEntryOf cur now := by
  unfold flushEntry; rw [h]

theorem flushEntry_of_missing {lister : List (String × JC)} {k : String}
    (h : lookup lister k = none) (now : Int) : flushEntry lister k now = none := by
  unfold flushEntry; rw [h]

theorem flushEntryOf_active {cur : JC} (hen : cur.sched.enabled = true)
    (hpe : cur.sched.parseErr = false) (now : Int) :
    flushEntryOf cur now = getNext cur.nxt cur.sched.notBefore cur.sched.notAfter now := by
  simp [flushEntryOf, hen, hpe]

theorem flushEntryOf_off {cur : JC} (h : cur.sched.enabled = false ∨ cur.sched.parseErr = true)
    (now : Int) : flushEntryOf cur now = none := by
  unfold flushEntryOf
  rcases h with h | h <;> simp [h]

/-! ### lister updates -/

theorem lookup_listerSet (l : List (String × JC)) (k : String) (v : JC) (k' : String) :
    lookup (listerSet l k v) k' = if k' = k then some v else lookup l k' := by
  induction l with
  | nil =>
    by_cases h : k' = k
    · simp [listerSet, lookup, h]
    · have : ¬ k = k' := fun e => h e.symm
      simp [listerSet, lookup, h, this]
  | cons p t ih =>
    obtain ⟨k0, v0⟩ := p
    unfold listerSet
    by_cases h0 : k0 = k
    · simp only [h0, if_true]
      unfold lookup
      by_cases h : k' = k
      · simp [h]
      · have : ¬ k = k' := fun e => h e.symm
        simp [h, this]
    · simp only [h0, if_false]
      unfold lookup
      by_cases h1 : k0 = k'
      · have : ¬ k' = k := fun e => h0 (h1.trans e)
        simp [h1, this]
      · simp only [h1, if_false]; exact ih

theorem listerSet_mem (l : List (String × JC)) (k : String) (v : JC) :
    ∀ p ∈ listerSet l k v, p = (k, v) ∨ p ∈ l := by
  induction l with
  | nil => intro p hp; simp [listerSet] at hp; exact Or.inl hp
  | cons q t ih =>
    obtain ⟨k0, v0⟩ := q
    intro p hp
    unfold listerSet at hp
    by_cases h0 : k0 = k
    · simp only [h0, if_true] at hp
      rcases List.mem_cons.1 hp with rfl | hp
      · exact Or.inl rfl
      · exact Or.inr (List.mem_cons_of_mem _ hp)
    · simp only [h0, if_false] at hp
      rcases List.mem_cons.1 hp with rfl | hp
      · exact Or.inr (by simp)
      · rcases ih p hp with h | h
        · exact Or.inl h
        · exact Or.inr (List.mem_cons_of_mem _ h)

theorem listerOK_set {l : List (String × JC)} (hl : ListerOK l) {v : JC} (hv : v.SortedOK) :
    ListerOK (listerSet l v.key v) := by
  induction l with
  | nil =>
    refine ⟨fun p hp => ?_, by simp [listerSet]⟩
    simp [listerSet] at hp; subst hp; exact ⟨rfl, hv⟩
  | cons q t ih =>
    obtain ⟨k0, v0⟩ := q
    have ht : ListerOK t :=
      ⟨fun p hp => hl.1 p (List.mem_cons_of_mem _ hp), (List.nodup_cons.1 hl.2).2⟩
    have hk0 : k0 ∉ t.map Prod.fst := (List.nodup_cons.1 hl.2).1
    unfold listerSet
    by_cases h0 : k0 = v.key
    · simp only [h0, if_true]
      refine ⟨fun p hp => ?_, ?_⟩
      · rcases List.mem_cons.1 hp with rfl | hp
        · exact ⟨rfl, hv⟩
        · exact ht.1 p hp
      · simp only [List.map_cons]
        exact List.nodup_cons.2 ⟨h0 ▸ hk0, ht.2⟩
    · simp only [h0, if_false]
      have ih := ih ht
      refine ⟨fun p hp => ?_, ?_⟩
      · rcases List.mem_cons.1 hp with rfl | hp
        · exact hl.1 _ (by simp)
        · exact ih.1 p hp
      · simp only [List.map_cons]
        refine List.nodup_cons.2 ⟨fun hmem => ?_, ih.2⟩
        obtain ⟨p, hp, hpk⟩ := List.mem_map.1 hmem
        rcases listerSet_mem t v.key v p hp with rfl | hp'
        · exact h0 hpk.symm
        · exact hk0 (List.mem_map.2 ⟨p, hp', hpk⟩)

theorem lookup_listerDel (l : List (String × JC)) (k k' : String) :
    lookup (listerDel l k) k' = if k' = k then none else lookup l k' := by
  induction l with
  | nil => simp [listerDel, lookup]
  | cons p t ih =>
    obtain ⟨k0, v0⟩ := p
    unfold listerDel at ih ⊢
    by_cases h0 : k0 = k
    · simp only [List.filter_cons, h0, ne_eq, not_true_eq_false, decide_false, Bool.false_eq_true,
        if_false]
      rw [ih]
      by_cases h : k' = k
      · simp [h]
      · have : ¬ k = k' := fun e => h e.symm
        simp [lookup, h, this]
    · simp only [List.filter_cons, h0, ne_eq, not_false_eq_true, decide_true, if_true]
      unfold lookup
      by_cases h1 : k0 = k'
      · have : ¬ k' = k := fun e => h0 (h1.trans e)
        simp [h1, this]
      · simp only [h1, if_false]; exact ih

theorem listerOK_del {l : List (String × JC)} (hl : ListerOK l) (k : String) :
    ListerOK (listerDel l k) := by
  unfold listerDel
  refine ⟨fun p hp => hl.1 p (List.mem_filter.1 hp).1, ?_⟩
  exact List.Pairwise.sublist (List.Sublist.map _ (List.filter_sublist)) hl.2

end Furiko.Cron
