/-
`refreshUpdatedJobConfigs` (`refresh`): each flush is Delete + Bump(now); frame properties;
reduction of a tick with a non-empty channel to a tick with an empty one; informer handlers.
-/
import FurikoModel.Proofs.CronKey

namespace Furiko.Cron
open Furiko

theorem schedBump_frame {pq : Heap.PQ} (h : Heap.Inv pq) (jc : JC) (fromNs : Int) :
    Heap.Inv (schedBump pq jc fromNs).1 ∧
    ∀ k, k ≠ jc.key → Heap.search (schedBump pq jc fromNs).1 k = Heap.search pq k := by
  by_cases hen : jc.sched.enabled = true
  · by_cases hpe : jc.sched.parseErr = true
    · have : schedBump pq jc fromNs = (pq, true) := by unfold schedBump; simp [hen, hpe]
      rw [this]
      exact ⟨h, fun _ _ => rfl⟩
    · unfold schedBump
      simp only [hen, hpe, Bool.not_true, Bool.false_eq_true, if_false]
      cases hn : getNext jc.nxt jc.sched.notAfter fromNs with
      | none =>
        refine ⟨schedDelete_inv h _, fun k hk => ?_⟩
        simp only []
        rw [schedDelete_search h, if_neg hk]
      | some n =>
        simp only []
        by_cases hgt : n * 1000000000 > fromNs
        · simp only [hgt, decide_true, Bool.not_true, Bool.false_eq_true, if_false]
          cases hsr : Heap.search pq jc.key with
          | some p =>
            have hne : Heap.search pq jc.key ≠ none := by rw [hsr]; simp
            refine ⟨Heap.inv_update h _ _, fun k hk => ?_⟩
            simp only []
            rw [Heap.search_update h _ _ hne, if_neg hk]
          | none =>
            refine ⟨Heap.inv_push h _ _ hsr, fun k hk => ?_⟩
            simp only []
            rw [Heap.search_push h _ _ hsr, if_neg hk]
        · rw [if_pos (by simp [hgt])]
          exact ⟨h, fun _ _ => rfl⟩
  · have hen' : jc.sched.enabled = false := by simpa using hen
    have : schedBump pq jc fromNs = (schedDelete pq jc.key, false) := by
      unfold schedBump; simp [hen']
    rw [this]
    refine ⟨schedDelete_inv h _, fun k hk => ?_⟩
    simp only []
    rw [schedDelete_search h, if_neg hk]

/-- one flush: `Delete(key)` then `Bump(jc, now)` -/
def flushOne (heap : Heap.PQ) (jc : JC) (now : Int) : Heap.PQ :=
  (schedBump (schedDelete heap jc.key) jc now).1

theorem flushOne_frame {heap : Heap.PQ} (h : Heap.Inv heap) (jc : JC) (now : Int) :
    Heap.Inv (flushOne heap jc now) ∧
    ∀ k, k ≠ jc.key → Heap.search (flushOne heap jc now) k = Heap.search heap k := by
  have a := schedBump_frame (schedDelete_inv h jc.key) jc now
  refine ⟨a.1, fun k hk => ?_⟩
  unfold flushOne
  rw [a.2 k hk, schedDelete_search h, if_neg hk]

theorem flushOne_spec {heap : Heap.PQ} (h : Heap.Inv heap) (jc : JC) (hs : jc.SortedOK)
    (now : Int) :
    Heap.search (flushOne heap jc now) jc.key = bumpEnt jc (floorSec now) := by
  have a := schedBump_spec (schedDelete_inv h jc.key) jc hs now
  unfold flushOne
  rw [a.2, if_pos rfl, schedDelete_search h, if_pos rfl, bumpEntry_none]

theorem refresh_cons (heap : Heap.PQ) (jc : JC) (rest : List JC) (now : Int) (limit : Nat) :
    refresh heap (jc :: rest) now (limit + 1) = refresh (flushOne heap jc now) rest now limit :=
  rfl

theorem refresh_frame (now : Int) : ∀ (limit : Nat) (heap : Heap.PQ) (chan : List JC),
    Heap.Inv heap →
    Heap.Inv (refresh heap chan now limit).1 ∧
    (refresh heap chan now limit).2 = chan.drop limit ∧
    ∀ k, (∀ jc ∈ chan.take limit, jc.key ≠ k) →
      Heap.search (refresh heap chan now limit).1 k = Heap.search heap k := by
  intro limit
  induction limit with
  | zero =>
    intro heap chan h
    have : refresh heap chan now 0 = (heap, chan) := by simp [refresh]
    rw [this]
    exact ⟨h, rfl, fun _ _ => rfl⟩
  | succ limit ih =>
    intro heap chan h
    cases chan with
    | nil => exact ⟨h, rfl, fun _ _ => rfl⟩
    | cons jc rest =>
      rw [refresh_cons]
      have a := flushOne_frame h jc now
      have b := ih (flushOne heap jc now) rest a.1
      refine ⟨b.1, b.2.1, fun k hk => ?_⟩
      rw [b.2.2 k (fun jc' hjc' => hk jc' (by simp [List.take_succ_cons, hjc']))]
      exact a.2 k (fun hkk => hk jc (by simp [List.take_succ_cons]) hkk.symm)

/-- The last flush for a key within the flush limit determines the key's entry. -/
theorem refresh_rebases (now : Int) {jc : JC} (hs : jc.SortedOK) {post : List JC}
    (hpost : ∀ jc' ∈ post, jc'.key ≠ jc.key) :
    ∀ (pre : List JC) (heap : Heap.PQ) (limit : Nat), Heap.Inv heap → pre.length + 1 ≤ limit →
      Heap.Inv (refresh heap (pre ++ [jc] ++ post) now limit).1 ∧
      Heap.search (refresh heap (pre ++ [jc] ++ post) now limit).1 jc.key
        = bumpEnt jc (floorSec now) := by
  intro pre
  induction pre with
  | nil =>
    intro heap limit h hl
    obtain ⟨l, rfl⟩ : ∃ l, limit = l + 1 := ⟨limit - 1, by omega⟩
    simp only [List.nil_append, List.singleton_append]
    rw [refresh_cons]
    have a := flushOne_frame h jc now
    have b := refresh_frame now l (flushOne heap jc now) post a.1
    refine ⟨b.1, ?_⟩
    rw [b.2.2 jc.key (fun jc' hjc' => hpost jc' (List.mem_of_mem_take hjc'))]
    exact flushOne_spec h jc hs now
  | cons p pre ih =>
    intro heap limit h hl
    obtain ⟨l, rfl⟩ : ∃ l, limit = l + 1 := ⟨limit - 1, by simp at hl; omega⟩
    simp only [List.cons_append]
    rw [refresh_cons]
    have := ih (flushOne heap p now) l (flushOne_frame h p now).1 (by simp at hl; omega)
    simpa using this

/-- a tick with pending flushes = the flushes, then a tick with an empty channel -/
theorem work_refresh (w : Worker) (now : Int) (clk : Nat → Int) (cap : Int)
    (flushLimit fuel : Nat) :
    work w now clk cap flushLimit fuel =
      ({ (work { w with heap := (refresh w.heap w.chan now flushLimit).1, chan := [] }
            now clk cap flushLimit fuel).1 with
          chan := (refresh w.heap w.chan now flushLimit).2 },
       (work { w with heap := (refresh w.heap w.chan now flushLimit).1, chan := [] }
            now clk cap flushLimit fuel).2) := by
  rw [work_eq { w with heap := (refresh w.heap w.chan now flushLimit).1, chan := [] } now clk cap
    flushLimit fuel rfl]
  rfl

/-- the worker at the start of the pop loop -/
def afterRefresh (w : Worker) (now : Int) (flushLimit : Nat) : Worker :=
  { w with heap := (refresh w.heap w.chan now flushLimit).1, chan := [] }

theorem work_fired_eq (w : Worker) (now : Int) (clk : Nat → Int) (cap : Int)
    (flushLimit fuel : Nat) :
    (work w now clk cap flushLimit fuel).2
      = (work (afterRefresh w now flushLimit) now clk cap flushLimit fuel).2 := by
  rw [work_refresh]; rfl

theorem work_heap_eq (w : Worker) (now : Int) (clk : Nat → Int) (cap : Int)
    (flushLimit fuel : Nat) :
    (work w now clk cap flushLimit fuel).1.heap
      = (work (afterRefresh w now flushLimit) now clk cap flushLimit fuel).1.heap := by
  rw [work_refresh]; rfl

theorem work_lister_eq (w : Worker) (now : Int) (clk : Nat → Int) (cap : Int)
    (flushLimit fuel : Nat) : (work w now clk cap flushLimit fuel).1.lister = w.lister := rfl

theorem work_chan_eq (w : Worker) (now : Int) (clk : Nat → Int) (cap : Int)
    (flushLimit fuel : Nat) (hInv : Heap.Inv w.heap) :
    (work w now clk cap flushLimit fuel).1.chan = w.chan.drop flushLimit := by
  rw [work_refresh]
  exact (refresh_frame now flushLimit w.heap w.chan hInv).2.1

/-! ### a key that is out of the heap stays out until it is flushed -/

theorem work_absent_general {w : Worker} {now : Int} {cap : Int} (flushLimit fuel : Nat)
    (hInv : Heap.Inv w.heap) (hL : ListerOK w.lister) {k : String}
    (hchan : ∀ jc ∈ w.chan, jc.key ≠ k) (he : Heap.search w.heap k = none) :
    Heap.Inv (work w now (fun _ => now) cap flushLimit fuel).1.heap ∧
    outk (work w now (fun _ => now) cap flushLimit fuel).2.1 k = [] ∧
    Heap.search (work w now (fun _ => now) cap flushLimit fuel).1.heap k = none ∧
    (∀ jc ∈ (work w now (fun _ => now) cap flushLimit fuel).1.chan, jc.key ≠ k) := by
  have hr := refresh_frame now flushLimit w.heap w.chan hInv
  have he' : Heap.search (afterRefresh w now flushLimit).heap k = none := by
    show Heap.search (refresh w.heap w.chan now flushLimit).1 k = none
    rw [hr.2.2 k (fun jc hjc => hchan jc (List.mem_of_mem_take hjc))]; exact he
  have ha := work_key_absent (w := afterRefresh w now flushLimit) (now := now) (cap := cap)
    flushLimit fuel hr.1 hL rfl he'
  have hi := (work_keywise (w := afterRefresh w now flushLimit) (now := now) (cap := cap)
    flushLimit fuel hr.1 hL rfl (fun _ _ => True) (fun _ _ _ _ _ _ => trivial)
    (fun _ => trivial)).1
  rw [work_fired_eq, work_heap_eq, work_chan_eq _ _ _ _ _ _ hInv]
  exact ⟨hi, ha.1, ha.2, fun jc hjc => hchan jc (List.mem_of_mem_drop hjc)⟩

theorem work_inv_general {w : Worker} {now : Int} {cap : Int} (flushLimit fuel : Nat)
    (hInv : Heap.Inv w.heap) (hL : ListerOK w.lister) :
    Heap.Inv (work w now (fun _ => now) cap flushLimit fuel).1.heap := by
  have hr := refresh_frame now flushLimit w.heap w.chan hInv
  rw [work_heap_eq]
  exact (work_inv (w := afterRefresh w now flushLimit) (now := now) (cap := cap) flushLimit fuel
    hr.1 hL rfl).1

/-- a key without lister entry never fires, whatever is in the heap or the channel -/
theorem work_missing_general {w : Worker} {now : Int} {cap : Int} (flushLimit fuel : Nat)
    (hInv : Heap.Inv w.heap) (hL : ListerOK w.lister) {k : String}
    (hlk : lookup w.lister k = none) :
    outk (work w now (fun _ => now) cap flushLimit fuel).2.1 k = [] := by
  have hr := refresh_frame now flushLimit w.heap w.chan hInv
  rw [work_fired_eq]
  exact work_key_missing_silent (w := afterRefresh w now flushLimit) (now := now) (cap := cap)
    flushLimit fuel hr.1 hL rfl hlk

theorem bumpEnt_gt {jc : JC} (hs : jc.SortedOK) (s e : Int) (h : bumpEnt jc s = some e) :
    s < e := by
  unfold bumpEnt at h
  split at h
  · exact ((JC.nextAfter_spec hs s).1 e h).1
  · cases h

/-- The tick that processes the (last) flush of `jc`: the key is re-based to `Next(now)` (or
removed), and nothing is requested for it in this tick — in particular an overdue entry of the
old schedule is dropped unfired.  No assumption on the lister; any fuel. -/
theorem flush_tick {w : Worker} {now : Int} {cap : Int} (flushLimit fuel : Nat)
    (hInv : Heap.Inv w.heap) (hL : ListerOK w.lister) {jc : JC} (hs : jc.SortedOK)
    {pre post : List JC} (hchan : w.chan = pre ++ [jc] ++ post)
    (hpost : ∀ jc' ∈ post, jc'.key ≠ jc.key) (hlim : pre.length + 1 ≤ flushLimit) :
    Heap.search (refresh w.heap w.chan now flushLimit).1 jc.key = bumpEnt jc (floorSec now) ∧
    outk (work w now (fun _ => now) cap flushLimit fuel).2.1 jc.key = [] ∧
    Heap.search (work w now (fun _ => now) cap flushLimit fuel).1.heap jc.key
      = bumpEnt jc (floorSec now) ∧
    (∀ jc' ∈ (work w now (fun _ => now) cap flushLimit fuel).1.chan, jc'.key ≠ jc.key) := by
  have hr := refresh_rebases now hs hpost pre w.heap flushLimit hInv hlim
  rw [← hchan] at hr
  have hdrop : ∀ jc' ∈ w.chan.drop flushLimit, jc'.key ≠ jc.key := by
    intro jc' hm
    rw [hchan, List.drop_append] at hm
    have hnil : List.drop flushLimit (pre ++ [jc]) = [] :=
      List.drop_eq_nil_iff.2 (by simp; omega)
    rw [hnil, List.nil_append] at hm
    exact hpost jc' (List.mem_of_mem_drop hm)
  rw [work_fired_eq, work_heap_eq, work_chan_eq _ _ _ _ _ _ hInv]
  refine ⟨hr.2, ?_, ?_, hdrop⟩
  · cases hb : bumpEnt jc (floorSec now) with
    | none =>
      exact (work_key_absent (w := afterRefresh w now flushLimit) (now := now) (cap := cap)
        flushLimit fuel hr.1 hL rfl (hr.2.trans hb)).1
    | some e =>
      exact (work_key_not_due (w := afterRefresh w now flushLimit) (now := now) (cap := cap)
        flushLimit fuel hr.1 hL rfl (hr.2.trans hb) (bumpEnt_gt hs _ _ hb)).1
  · cases hb : bumpEnt jc (floorSec now) with
    | none =>
      exact (work_key_absent (w := afterRefresh w now flushLimit) (now := now) (cap := cap)
        flushLimit fuel hr.1 hL rfl (hr.2.trans hb)).2
    | some e =>
      exact (work_key_not_due (w := afterRefresh w now flushLimit) (now := now) (cap := cap)
        flushLimit fuel hr.1 hL rfl (hr.2.trans hb) (bumpEnt_gt hs _ _ hb)).2

/-- the entry a flush of `jc` at `now` leaves for `jc.key` -/
def flushEntry (jc : JC) (now : Int) : Option Int :=
  if jc.sched.enabled && !jc.sched.parseErr then getNext jc.nxt jc.sched.notAfter now else none

theorem flushEntry_eq (jc : JC) (now : Int) : flushEntry jc now = bumpEnt jc (floorSec now) := rfl

/-! ### lister updates -/

theorem lookup_listerSet (l : List (String × JC)) (k : String) (v : JC) (k' : String) :
    lookup (listerSet l k v) k' = if k' = k then some v else lookup l k' := by
  induction l with
  | nil =>
    by_cases h : k' = k
    · simp [listerSet, lookup, h]
    · have : ¬ k = k' := fun e => h e.symm
      simp [listerSet, lookup, h, this]
  | cons p t ih =>
    obtain ⟨k0, v0⟩ := p
    unfold listerSet
    by_cases h0 : k0 = k
    · simp only [h0, if_true]
      unfold lookup
      by_cases h : k' = k
      · simp [h]
      · have : ¬ k = k' := fun e => h e.symm
        simp [h, this]
    · simp only [h0, if_false]
      unfold lookup
      by_cases h1 : k0 = k'
      · have : ¬ k' = k := fun e => h0 (h1.trans e)
        simp [h1, this]
      · simp only [h1, if_false]; exact ih

theorem listerSet_mem (l : List (String × JC)) (k : String) (v : JC) :
    ∀ p ∈ listerSet l k v, p = (k, v) ∨ p ∈ l := by
  induction l with
  | nil => intro p hp; simp [listerSet] at hp; exact Or.inl hp
  | cons q t ih =>
    obtain ⟨k0, v0⟩ := q
    intro p hp
    unfold listerSet at hp
    by_cases h0 : k0 = k
    · simp only [h0, if_true] at hp
      rcases List.mem_cons.1 hp with rfl | hp
      · exact Or.inl rfl
      · exact Or.inr (List.mem_cons_of_mem _ hp)
    · simp only [h0, if_false] at hp
      rcases List.mem_cons.1 hp with rfl | hp
      · exact Or.inr (by simp)
      · rcases ih p hp with h | h
        · exact Or.inl h
        · exact Or.inr (List.mem_cons_of_mem _ h)

theorem listerOK_set {l : List (String × JC)} (hl : ListerOK l) {v : JC} (hv : v.SortedOK) :
    ListerOK (listerSet l v.key v) := by
  induction l with
  | nil =>
    refine ⟨fun p hp => ?_, by simp [listerSet]⟩
    simp [listerSet] at hp; subst hp; exact ⟨rfl, hv⟩
  | cons q t ih =>
    obtain ⟨k0, v0⟩ := q
    have ht : ListerOK t :=
      ⟨fun p hp => hl.1 p (List.mem_cons_of_mem _ hp), (List.nodup_cons.1 hl.2).2⟩
    have hk0 : k0 ∉ t.map Prod.fst := (List.nodup_cons.1 hl.2).1
    unfold listerSet
    by_cases h0 : k0 = v.key
    · simp only [h0, if_true]
      refine ⟨fun p hp => ?_, ?_⟩
      · rcases List.mem_cons.1 hp with rfl | hp
        · exact ⟨rfl, hv⟩
        · exact ht.1 p hp
      · simp only [List.map_cons]
        exact List.nodup_cons.2 ⟨h0 ▸ hk0, ht.2⟩
    · simp only [h0, if_false]
      have ih := ih ht
      refine ⟨fun p hp => ?_, ?_⟩
      · rcases List.mem_cons.1 hp with rfl | hp
        · exact hl.1 _ (by simp)
        · exact ih.1 p hp
      · simp only [List.map_cons]
        refine List.nodup_cons.2 ⟨fun hmem => ?_, ih.2⟩
        obtain ⟨p, hp, hpk⟩ := List.mem_map.1 hmem
        rcases listerSet_mem t v.key v p hp with rfl | hp'
        · exact h0 hpk.symm
        · exact hk0 (List.mem_map.2 ⟨p, hp', hpk⟩)

theorem lookup_listerDel (l : List (String × JC)) (k k' : String) :
    lookup (listerDel l k) k' = if k' = k then none else lookup l k' := by
  induction l with
  | nil => simp [listerDel, lookup]
  | cons p t ih =>
    obtain ⟨k0, v0⟩ := p
    unfold listerDel at ih ⊢
    by_cases h0 : k0 = k
    · simp only [List.filter_cons, h0, ne_eq, not_true_eq_false, decide_false, Bool.false_eq_true,
        if_false]
      rw [ih]
      by_cases h : k' = k
      · simp [h]
      · have : ¬ k = k' := fun e => h e.symm
        simp [lookup, h, this]
    · simp only [List.filter_cons, h0, ne_eq, not_false_eq_true, decide_true, if_true]
      unfold lookup
      by_cases h1 : k0 = k'
      · have : ¬ k' = k := fun e => h0 (h1.trans e)
        simp [h1, this]
      · simp only [h1, if_false]; exact ih

theorem listerOK_del {l : List (String × JC)} (hl : ListerOK l) (k : String) :
    ListerOK (listerDel l k) := by
  unfold listerDel
  refine ⟨fun p hp => hl.1 p (List.mem_filter.1 hp).1, ?_⟩
  exact List.Pairwise.sublist (List.Sublist.map _ (List.filter_sublist)) hl.2

end Furiko.Cron
