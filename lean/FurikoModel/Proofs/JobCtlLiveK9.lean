/-
Liveness of the job controller, kill part 9: CONVERGENCE OF A KILL.  `kill_core`: from a `KState` whose key
is ready, at most two rounds `roundK` (cooperative kubelet) reach a state whose Job is `Finished`/`Killed`
and whose pods are all finished — the pods that were finished before; every pod that was alive is gone;
`kill_final_stable`: further rounds keep it.  `kill_stage`: the user setting the kill timestamp in any state
of the fair rounds of a single-task Job (`Canon`) leads, once delivered, to such a `KState`.
Core Lean only.
-/
import FurikoModel.Proofs.JobCtlLiveK8
import FurikoModel.Proofs.JobCtlLive15

set_option linter.unusedSimpArgs false
set_option linter.unusedVariables false

namespace Furiko.JobCtl.Live
open Furiko Furiko.JobCtl Furiko.WQ Furiko.StatusLemmas Furiko.JobCtlPlan Furiko.Conv

/-- the Job is `Finished` with result `Killed`, every pod left on the server is finished -/
structure KDone (jo : JobObj) (s : Sys) : Prop where
  killed : ∃ f, jo.job.status.condition.finished = some f ∧ f.result = .killed
  podsFin : ∀ p ∈ s.pods, p.pod.isFinished = true

/-- **a kill converges within two rounds** -/
theorem kill_core {jo : JobObj} {kt : Time} {F0 : Int} {s : Sys} (h : KState jo kt F0 s) (hq : s.q.queue ≠ []) :
    ∃ k, 1 ≤ k ∧ k ≤ 2 ∧ ∃ jo', KState jo' kt F0 (roundKN k s) ∧ jo'.name = jo.name ∧ jo'.uid = jo.uid ∧
      KDone jo' (roundKN k s) ∧ (roundKN k s).clock = s.clock ∧
      ∀ p' ∈ (roundKN k s).pods, ∃ p ∈ s.pods, p.pod.name = p'.pod.name ∧ p.pod.isFinished = true ∧
        p.pod.deletionTimestamp = none := by
  by_cases hA : ∃ p ∈ s.pods, p.pod.deletionTimestamp = none ∧ p.pod.isFinished = false
  · obtain ⟨jo1, h1, hn1, hu1, hc1, hp1, hq1, _⟩ := roundK_spec h hq
    have hB : ∀ p ∈ (roundK s).pods, p.pod.deletionTimestamp = none → p.pod.isFinished = true := by
      intro p' hp' hd'
      obtain ⟨p, _, _, _, hf, hm⟩ := hp1 p' hp'
      cases hfp : p.pod.isFinished with
      | true => rw [hf, hfp]
      | false =>
        have := hm hfp
        rw [hd'] at this; cases this
    obtain ⟨jo2, h2, hn2, hu2, hc2, hp2, _, hfin2⟩ := roundK_spec h1 (hq1 hA)
    obtain ⟨hk2, hpf2⟩ := hfin2 hB
    refine ⟨2, by omega, Nat.le_refl _, jo2, h2, hn2.trans hn1, hu2.trans hu1, ⟨hk2, hpf2⟩, hc2.trans hc1, ?_⟩
    intro p'' hp''
    obtain ⟨p', hp', hd', hn', hf', _⟩ := hp2 p'' hp''
    obtain ⟨p, hp, hd, hn, hf, _⟩ := hp1 p' hp'
    refine ⟨p, hp, (hn'.trans hn).symm, ?_, hd⟩
    rw [← hf, ← hf']; exact hpf2 p'' hp''
  · have hB : ∀ p ∈ s.pods, p.pod.deletionTimestamp = none → p.pod.isFinished = true := by
      intro p hp hd
      cases hfp : p.pod.isFinished with
      | true => rfl
      | false => exact absurd ⟨p, hp, hd, hfp⟩ hA
    obtain ⟨jo1, h1, hn1, hu1, hc1, hp1, _, hfin1⟩ := roundK_spec h hq
    obtain ⟨hk1, hpf1⟩ := hfin1 hB
    refine ⟨1, Nat.le_refl _, by omega, jo1, h1, hn1, hu1, ⟨hk1, hpf1⟩, hc1, ?_⟩
    intro p' hp'
    obtain ⟨p, hp, hd, hn, hf, _⟩ := hp1 p' hp'
    exact ⟨p, hp, hn.symm, by rw [← hf]; exact hpf1 p' hp', hd⟩

/-- a final state stays final under a further round that runs a pass -/
theorem kill_final_stable {jo : JobObj} {kt : Time} {F0 : Int} {s : Sys} (h : KState jo kt F0 s) (hd : KDone jo s)
    (hq : s.q.queue ≠ []) : ∃ jo', KState jo' kt F0 (roundK s) ∧ jo'.name = jo.name ∧ KDone jo' (roundK s) := by
  obtain ⟨jo1, h1, hn1, _, _, _, _, hfin1⟩ := roundK_spec h hq
  obtain ⟨hk1, hpf1⟩ := hfin1 (fun p hp _ => hd.podsFin p hp)
  exact ⟨jo1, h1, hn1, hk1, hpf1⟩

/-! ### the user sets the kill timestamp during the run of a single-task Job -/

/-- the state once the kill timestamp `t` set by the user has reached the controller's cache -/
def killAt (t : Time) (s : Sys) : Sys := deliverAll (step s (.kill t))

/-- the Job with the kill timestamp, as the server stores it -/
def killedObj (jo : JobObj) (t : Time) (rv : Nat) : JobObj :=
  { jo with job := { jo.job with killTimestamp := some t }, rv := rv }

/-- the state right after the user's update -/
def afterKill (s : Sys) (jo : JobObj) (t : Time) : Sys :=
  { s with rv := s.rv + 1, job := some (killedObj jo t (s.rv + 1)),
           jobEvs := s.jobEvs ++ [.upsert (killedObj jo t (s.rv + 1))] }

theorem killAt_steps {ok : Sys → Action → Prop} {j0 : JobObj} (hj : ∀ s, ok s .deliverJob) (hp : ∀ s, ok s .deliverPod)
    (hk : ∀ s t, ok s (.kill t)) (t : Time) (s0 s : Sys) (h : Steps ok j0 s0 s) : Steps ok j0 s0 (killAt t s) :=
  deliverAll_steps hj hp s0 _ (.step _ h (hk _ _) trivial)

/-- **the kill timestamp set in a state of the fair rounds** gives a `KState` with the key ready -/
theorem kill_stage {ok : Sys → Action → Prop} {j0 jo : JobObj} {F0 : Int} {s : Sys} (h : Canon ok j0 jo F0 s) (t : Time)
    (ht : t ≤ s.clock) (hF : F0 ≤ t) (httl : s.clock < F0 + getTTLAfterFinished jo.job s.cfg) :
    KState (killedObj jo t (s.rv + 1)) t F0 (killAt t s) ∧ (killAt t s).q.queue ≠ [] ∧
    (killAt t s).pods = s.pods ∧ (killAt t s).clock = s.clock ∧ (killAt t s).cfg = s.cfg := by
  have hstep : step s (.kill t) = afterKill s jo t := by
    show mutateJobObj s _ = _
    unfold mutateJobObj
    rw [h.fresh.job]
    rfl
  have hev : (step s (.kill t)).jobEvs = [.upsert (killedObj jo t (s.rv + 1))] := by
    rw [hstep]; show s.jobEvs ++ _ = _; rw [h.fresh.jobEvs]; rfl
  have hps : PSync (step s (.kill t)) := by
    rw [hstep]; unfold PSync
    show s.podEvs.foldl applyPEv s.podCache = s.pods
    rw [h.fresh.podEvs, h.fresh.podCache]; rfl
  have hjs : JSync (step s (.kill t)) := by
    unfold JSync
    rw [hev, hstep]
    rfl
  have hwf0 : Retry.WF (step s (.kill t)).q := by rw [hstep]; exact h.wf
  obtain ⟨d1, d2, d3, d4, d5, d6⟩ := deliverAll_spec (step s (.kill t)) hps hjs
  have hjob : (step s (.kill t)).job = some (killedObj jo t (s.rv + 1)) := by rw [hstep]; rfl
  have hpods0 : (step s (.kill t)).pods = s.pods := by rw [hstep]; rfl
  have hclock0 : (step s (.kill t)).clock = s.clock := by rw [hstep]; rfl
  have hcfg0 : (step s (.kill t)).cfg = s.cfg := by rw [hstep]; rfl
  have hflt0 : (step s (.kill t)).faults = s.faults := by rw [hstep]; rfl
  have hpods : (killAt t s).pods = s.pods := by unfold killAt; rw [d5.pods, hpods0]
  have hclock : (killAt t s).clock = s.clock := by unfold killAt; rw [d5.clock, hclock0]
  have hcfg : (killAt t s).cfg = s.cfg := by unfold killAt; rw [d5.cfg, hcfg0]
  obtain ⟨tm, htm, _⟩ := h.spec.tmpl
  refine ⟨⟨?_, ?_, by rw [hclock]; exact ht, ?_, d6.wf hwf0, hF, h.lbRefs, ?_, ?_⟩,
    deliverAll_ready _ _ [] hev hwf0, hpods, hclock, hcfg⟩
  · unfold killAt
    exact ⟨by rw [d3, hjob], by rw [d5.job, hjob], by rw [d4, d5.pods], d1, d2, by rw [d5.faults, hflt0]; exact h.fresh.faults⟩
  · exact ⟨by show jo.job.template.isSome = true; rw [htm]; rfl, rfl, h.spec.adm, h.spec.del, h.spec.started⟩
  · refine ⟨?_, ?_, ?_⟩
    · intro p hp; rw [hpods] at hp; exact h.pods.owned p hp
    · intro p hp; rw [hpods] at hp; exact h.pods.sane p hp
    · rw [hpods]; exact h.pods.nodup
  · intro p hp f hf
    rw [hpods] at hp
    exact podFinLB_raw (h.lbPods p hp) hf
  · rw [hclock, hcfg]
    exact httl

end Furiko.JobCtl.Live
