/-
Liveness of the job controller, force-delete part 5: THE ROUND WITH A DEAD KUBELET

    roundD adv s  =  deliverAll ; advance adv ; work ; deliverAll

(no kubelet action at all: a pod that carries a deletion timestamp never terminates; between two passes
`adv` nanoseconds pass) and CONVERGENCE OF A KILL BY FORCE DELETION (`kill_core_dead`): with a positive
force-delete timeout `≤ adv`, force deletion not forbidden, from a `KState` without a pod being deleted and
with the key ready, at most three rounds reach `Finished`/`Killed` with the unfinished pods force-deleted.
Core Lean only.
-/
import FurikoModel.Proofs.JobCtlLiveF4

set_option linter.unusedSimpArgs false
set_option linter.unusedVariables false

namespace Furiko.JobCtl.Live
open Furiko Furiko.JobCtl Furiko.WQ Furiko.StatusLemmas Furiko.JobCtlPlan Furiko.Conv

/-- the actions of a round with a dead kubelet: controller passes, informer deliveries, the clock -/
def deadEnv (_ : Sys) (a : Action) : Prop :=
  match a with
  | .work | .deliverJob | .deliverPod | .advance _ => True
  | _ => False

instance (s : Sys) (a : Action) : Decidable (deadEnv s a) := by cases a <;> unfold deadEnv <;> infer_instance

/-- one round with a dead kubelet; `adv` nanoseconds pass before the pass -/
def roundD (adv : Nat) (s : Sys) : Sys := deliverAll (step (step (deliverAll s) (.advance adv)) .work)

def roundDN (adv : Nat) : Nat → Sys → Sys
  | 0, s => s
  | n + 1, s => roundDN adv n (roundD adv s)

theorem roundD_steps {ok : Sys → Action → Prop} {j0 : JobObj} (hok : ∀ s a, deadEnv s a → ok s a) (adv : Nat)
    (s0 s : Sys) (h : Steps ok j0 s0 s) : Steps ok j0 s0 (roundD adv s) := by
  have hj : ∀ s, ok s .deliverJob := fun s => hok s _ trivial
  have hp : ∀ s, ok s .deliverPod := fun s => hok s _ trivial
  unfold roundD
  refine deliverAll_steps hj hp s0 _ (.step .work ?_ (hok _ _ trivial) trivial)
  exact .step _ (deliverAll_steps hj hp s0 _ h) (hok _ _ trivial) trivial

theorem roundDN_steps {ok : Sys → Action → Prop} {j0 : JobObj} (hok : ∀ s a, deadEnv s a → ok s a) (adv : Nat) :
    ∀ (n : Nat) (s0 s : Sys), Steps ok j0 s0 s → Steps ok j0 s0 (roundDN adv n s)
  | 0, _, _, h => h
  | n + 1, s0, s, h => roundDN_steps hok adv n s0 _ (roundD_steps hok adv s0 s h)

theorem nowT_le (s : Sys) : nowT s ≤ s.clock := by
  unfold nowT nowSec secs nsPerSec
  exact Int.ediv_mul_le s.clock (by decide)

/-- the key is ready in the state a pass starts in -/
theorem ready_after_adv {s : Sys} (hwf : Retry.WF s.q) (hq : s.q.queue ≠ []) (adv : Nat) :
    ∃ k rest, ((step s (.advance adv)).q.advance (step s (.advance adv)).clock).queue = k :: rest := by
  obtain ⟨_, _, _, _, a5, _, _⟩ := Retry.advance_facts s.q (s.clock + adv) hwf
  cases hqq : s.q.queue with
  | nil => exact absurd hqq hq
  | cons x r =>
    have hx := a5 x (by rw [hqq]; exact List.mem_cons_self)
    show ∃ k rest, (s.q.advance (s.clock + adv)).queue = k :: rest
    cases hqa : (s.q.advance (s.clock + adv)).queue with
    | nil => rw [hqa] at hx; cases hx
    | cons k rest => exact ⟨k, rest, rfl⟩

/-- **a round that marks** (no pod is being deleted yet): every unfinished pod gets the deletion timestamp -/
theorem roundD_mark {jo : JobObj} {kt : Time} {F0 : Int} {s : Sys} (h : KState jo kt F0 s) (hq : s.q.queue ≠ [])
    (hnodel : ∀ p ∈ s.pods, p.pod.deletionTimestamp = none) (adv : Nat)
    (httl : s.clock + adv < F0 + getTTLAfterFinished jo.job s.cfg) :
    ∃ jo', KState jo' kt F0 (roundD adv s) ∧ jo'.name = jo.name ∧ jo'.job.template = jo.job.template ∧
      jo'.job.ttlSecondsAfterFinished = jo.job.ttlSecondsAfterFinished ∧
      (roundD adv s).clock = s.clock + adv ∧ (roundD adv s).cfg = s.cfg ∧
      (∀ p' ∈ (roundD adv s).pods, ∃ p ∈ s.pods, p.pod.name = p'.pod.name ∧ p'.pod.isFinished = p.pod.isFinished ∧
        ((p.pod.isFinished = true ∧ p'.pod.deletionTimestamp = none) ∨
         (p.pod.isFinished = false ∧ ∃ D, p'.pod.deletionTimestamp = some D ∧ D ≤ s.clock + adv))) ∧
      ((∃ p ∈ s.pods, p.pod.isFinished = false) → (roundD adv s).q.queue ≠ []) ∧
      ((∀ p ∈ s.pods, p.pod.isFinished = true) →
        ∃ f, jo'.job.status.condition.finished = some f ∧ f.result = .killed) := by
  have hidle : deliverAll s = s := deliverAll_idle s h.fresh.jobEvs h.fresh.podEvs
  have h1 := adv_stage h adv httl
  obtain ⟨k, rest, hqk⟩ := ready_after_adv h.wf hq adv
  have hround : roundD adv s = deliverAll (work (step s (.advance adv))).1 := by unfold roundD; rw [hidle]; rfl
  obtain ⟨jo', N, hj, hname, huid, hspec', httl', htm', hlb', hjs, hps, hpc, hpodsw, hN, hclk, hd, hcfg, hflt, hwf, hevs, hfin⟩ :=
    work_kill h1 hnodel k rest hqk
  have hNfin : ∀ p ∈ s.pods, p.pod.isFinished = true → markDts (nowT (step s (.advance adv))) N p = p := by
    intro p hp hf
    unfold markDts
    have : ¬ p.pod.name ∈ N := by
      intro hn
      obtain ⟨p2, hp2, hn2, hf2⟩ := (hN p.pod.name).mp hn
      have e1 := findPod_of_mem_nodup h.pods.nodup hp
      have e2 := findPod_of_mem_nodup h.pods.nodup hp2
      rw [hn2, e1] at e2
      have : p = p2 := Option.some.inj e2
      subst this
      rw [hf] at hf2; cases hf2
    simp [this]
  have hmark : ∀ p ∈ s.pods, p.pod.isFinished = false →
      (markDts (nowT (step s (.advance adv))) N p).pod.deletionTimestamp = some (nowT (step s (.advance adv))) := by
    intro p hp hf
    have hn : p.pod.name ∈ N := (hN p.pod.name).mpr ⟨p, hp, rfl, hf⟩
    unfold markDts
    simp [hn, hnodel p hp]
  obtain ⟨hks, hpodsR, hclockR, hcfgR, hgrow⟩ := kstate_after h1 hj hname huid hspec' httl' hlb' hjs hps hclk hcfg hflt hwf
    (by
      intro p' hp'
      rw [hpodsw] at hp'
      obtain ⟨p0, hp0, rfl⟩ := List.mem_map.mp hp'
      obtain ⟨f1, f2, f3, _, _, f6, f7, f8⟩ := markDts_fields (nowT (step s (.advance adv))) N p0
      exact ⟨p0, hp0, f1, f2, f3, f6, f7, f8⟩)
    (by rw [hpodsw, podNames_markDts]; exact h.pods.nodup)
  rw [← hround] at hks hpodsR hclockR hcfgR hgrow
  refine ⟨jo', hks, hname, htm', httl', hclockR, hcfgR, ?_, ?_, hfin⟩
  · intro p' hp'
    rw [hpodsR, hpodsw] at hp'
    obtain ⟨p0, hp0, rfl⟩ := List.mem_map.mp hp'
    obtain ⟨_, _, _, f4, f5, _⟩ := markDts_fields (nowT (step s (.advance adv))) N p0
    refine ⟨p0, hp0, f4.symm, f5, ?_⟩
    cases hf : p0.pod.isFinished with
    | true => exact Or.inl ⟨rfl, by rw [hNfin p0 hp0 hf]; exact hnodel p0 hp0⟩
    | false => exact Or.inr ⟨rfl, _, hmark p0 hp0 hf, nowT_le (step s (.advance adv))⟩
  · rintro ⟨p, hp, hfn⟩
    have hne : (work (step s (.advance adv))).1.podEvs ≠ [] := by
      intro hnil
      have hsync := hps
      unfold PSync at hsync
      rw [hnil, hpc, hpodsw] at hsync
      have := map_eq_self _ _ hsync.symm p hp
      have hm := hmark p hp hfn
      rw [this, hnodel p hp] at hm
      cases hm
    cases hev : (work (step s (.advance adv))).1.podEvs with
    | nil => exact absurd hev hne
    | cons e rest' =>
      obtain ⟨p0, hp0, pe, e1, e2, e3⟩ := hevs e (by rw [hev]; exact List.mem_cons_self)
      subst e1
      have ho := h.pods.owned p0 hp0
      rw [hround]
      exact deliverAll_ready_pod _ jo' pe rest' hev hjs hj (by rw [e2, huid]; exact ho.1) (by rw [e3, hname]; exact ho.2.1) hwf

/-- **a round that force-deletes**: the unfinished pods, all being deleted since before the round, are removed -/
theorem roundD_force {jo : JobObj} {kt : Time} {F0 : Int} {s : Sys} (h : KState jo kt F0 s) (hq : s.q.queue ≠ [])
    (hF : 0 < getForceDeleteTimeout s.cfg)
    (hforb : (jo.job.template.map (·.forbidTaskForceDeletion)).getD false = false)
    (hpods : ∀ p ∈ s.pods, (p.pod.isFinished = true ∧ p.pod.deletionTimestamp = none) ∨
      (p.pod.isFinished = false ∧ ∃ D, p.pod.deletionTimestamp = some D ∧ D ≤ s.clock))
    (adv : Nat) (hadv : getForceDeleteTimeout s.cfg ≤ adv)
    (httl : s.clock + adv < F0 + getTTLAfterFinished jo.job s.cfg) :
    ∃ jo', KState jo' kt F0 (roundD adv s) ∧ jo'.name = jo.name ∧
      jo'.job.ttlSecondsAfterFinished = jo.job.ttlSecondsAfterFinished ∧
      (roundD adv s).clock = s.clock + adv ∧ (roundD adv s).cfg = s.cfg ∧
      (∀ p' ∈ (roundD adv s).pods, p' ∈ s.pods ∧ p'.pod.isFinished = true ∧ p'.pod.deletionTimestamp = none) ∧
      ((∃ p ∈ s.pods, p.pod.isFinished = false) → (roundD adv s).q.queue ≠ []) ∧
      ((∀ p ∈ s.pods, p.pod.isFinished = true) →
        ∃ f, jo'.job.status.condition.finished = some f ∧ f.result = .killed) := by
  have hidle : deliverAll s = s := deliverAll_idle s h.fresh.jobEvs h.fresh.podEvs
  have h1 := adv_stage h adv httl
  obtain ⟨k, rest, hqk⟩ := ready_after_adv h.wf hq adv
  have hround : roundD adv s = deliverAll (work (step s (.advance adv))).1 := by unfold roundD; rw [hidle]; rfl
  obtain ⟨jo', M, hj, hname, huid, hspec', httl', htm', hlb', hjs, hps, hpc, hpodsw, hM, hclk, hd, hcfg, hflt, hwf, hevs, hfin⟩ :=
    work_force h1 hF hforb (by
      intro p hp
      rcases hpods p hp with hx | ⟨hf, D, hD, hle⟩
      · exact Or.inl hx
      · refine Or.inr ⟨hf, D, hD, ?_⟩
        show D + getForceDeleteTimeout s.cfg ≤ s.clock + (adv : Int)
        exact Int.add_le_add hle hadv) k rest hqk
  have hsub : ∀ p' ∈ (work (step s (.advance adv))).1.pods, p' ∈ s.pods ∧ p'.pod.isFinished = true ∧
      p'.pod.deletionTimestamp = none := by
    intro p' hp'
    rw [hpodsw] at hp'
    obtain ⟨hp0, hkeep⟩ := List.mem_filter.mp hp'
    refine ⟨hp0, ?_⟩
    rcases hpods p' hp0 with hx | ⟨hf, _⟩
    · exact hx
    · exfalso
      have : p'.pod.name ∈ M := (hM p'.pod.name).mpr ⟨p', hp0, rfl, hf⟩
      unfold keepPod at hkeep
      simp [this] at hkeep
  obtain ⟨hks, hpodsR, hclockR, hcfgR, hgrow⟩ := kstate_after h1 hj hname huid hspec' httl' hlb' hjs hps hclk hcfg hflt hwf
    (by
      intro p' hp'
      exact ⟨p', (hsub p' hp').1, rfl, rfl, rfl, rfl, rfl, id⟩)
    (by rw [hpodsw]; exact podNames_filter_nodup _ h.pods.nodup)
  rw [← hround] at hks hpodsR hclockR hcfgR hgrow
  refine ⟨jo', hks, hname, httl', hclockR, hcfgR, ?_, ?_, hfin⟩
  · intro p' hp'
    rw [hpodsR] at hp'
    exact hsub p' hp'
  · rintro ⟨p, hp, hfn⟩
    have hne : (work (step s (.advance adv))).1.podEvs ≠ [] := by
      intro hnil
      have hsync := hps
      unfold PSync at hsync
      rw [hnil, hpc, hpodsw] at hsync
      have hmem : p ∈ s.pods.filter (keepPod M) := by
        have hsync' : s.pods = s.pods.filter (keepPod M) := hsync
        rw [← hsync']; exact hp
      have hkeep := (List.mem_filter.mp hmem).2
      have : p.pod.name ∈ M := (hM p.pod.name).mpr ⟨p, hp, rfl, hfn⟩
      unfold keepPod at hkeep
      simp [this] at hkeep
    cases hev : (work (step s (.advance adv))).1.podEvs with
    | nil => exact absurd hev hne
    | cons e rest' =>
      obtain ⟨p0, hp0, e1⟩ := hevs e (by rw [hev]; exact List.mem_cons_self)
      subst e1
      have ho := h.pods.owned p0 hp0
      rw [hround]
      exact deliverAll_ready_pod_delete _ jo' p0 rest' hev hjs hj (by rw [hpc]; exact findPod_of_mem_nodup h.pods.nodup hp0)
        (by rw [huid]; exact ho.1) (by rw [hname]; exact ho.2.1) hwf

/-- **a kill converges by force deletion when the kubelet is dead**: at most three rounds -/
theorem kill_core_dead {jo : JobObj} {kt : Time} {F0 : Int} {s : Sys} (h : KState jo kt F0 s) (hq : s.q.queue ≠ [])
    (hnodel : ∀ p ∈ s.pods, p.pod.deletionTimestamp = none)
    (hF : 0 < getForceDeleteTimeout s.cfg)
    (hforb : (jo.job.template.map (·.forbidTaskForceDeletion)).getD false = false)
    (adv : Nat) (hadv : getForceDeleteTimeout s.cfg ≤ adv)
    (httl : s.clock + 3 * adv < F0 + getTTLAfterFinished jo.job s.cfg) :
    ∃ k, 1 ≤ k ∧ k ≤ 3 ∧ ∃ jo', KState jo' kt F0 (roundDN adv k s) ∧ jo'.name = jo.name ∧
      KDone jo' (roundDN adv k s) ∧
      ∀ p' ∈ (roundDN adv k s).pods, ∃ p ∈ s.pods, p.pod.name = p'.pod.name ∧ p.pod.isFinished = true := by
  have hadv0 : (0 : Int) ≤ adv := Int.natCast_nonneg adv
  have httl1 : s.clock + adv < F0 + getTTLAfterFinished jo.job s.cfg := by
    have : s.clock + adv ≤ s.clock + 3 * adv := by omega
    exact Int.lt_of_le_of_lt this httl
  by_cases hall : ∀ p ∈ s.pods, p.pod.isFinished = true
  · obtain ⟨jo1, h1, hn1, _, _, _, _, hp1, _, hfin1⟩ := roundD_mark h hq hnodel adv httl1
    refine ⟨1, Nat.le_refl _, by omega, jo1, h1, hn1, ⟨hfin1 hall, ?_⟩, ?_⟩
    · intro p' hp'
      obtain ⟨p, hp, _, hf, _⟩ := hp1 p' hp'
      rw [hf]; exact hall p hp
    · intro p' hp'
      obtain ⟨p, hp, hn, _, _⟩ := hp1 p' hp'
      exact ⟨p, hp, hn, hall p hp⟩
  · have hex : ∃ p ∈ s.pods, p.pod.isFinished = false := by
      apply Classical.byContradiction
      intro hno
      apply hall
      intro p hp
      cases hf : p.pod.isFinished with
      | true => rfl
      | false => exact absurd ⟨p, hp, hf⟩ hno
    -- round 1: mark
    obtain ⟨jo1, h1, hn1, htm1, httlf1, hc1, hcfg1, hp1, hq1, _⟩ := roundD_mark h hq hnodel adv httl1
    have hTTL1 : getTTLAfterFinished jo1.job (roundD adv s).cfg = getTTLAfterFinished jo.job s.cfg := by
      unfold getTTLAfterFinished; rw [httlf1, hcfg1]
    have hpods1 : ∀ p ∈ (roundD adv s).pods, (p.pod.isFinished = true ∧ p.pod.deletionTimestamp = none) ∨
        (p.pod.isFinished = false ∧ ∃ D, p.pod.deletionTimestamp = some D ∧ D ≤ (roundD adv s).clock) := by
      intro p' hp'
      obtain ⟨p, _, _, hf, hcase⟩ := hp1 p' hp'
      rcases hcase with ⟨hfin, hd⟩ | ⟨hfin, D, hD, hle⟩
      · exact Or.inl ⟨by rw [hf]; exact hfin, hd⟩
      · exact Or.inr ⟨by rw [hf]; exact hfin, D, hD, by rw [hc1]; exact hle⟩
    have hex1 : ∃ p ∈ (roundD adv s).pods, p.pod.isFinished = false := by
      -- the pods keep their names and phases; count via the KState of round 1 is not needed: use the event argument
      obtain ⟨p, hp, hfn⟩ := hex
      -- p is still there, marked
      have hq1' := hq1 ⟨p, hp, hfn⟩
      -- find its image: the pod list of round 1 is the image of the old one (same length); use the names
      apply Classical.byContradiction
      intro hno
      -- every pod of round 1 finished: then every old pod is finished, since the marks keep phases and all old pods survive
      -- survival: the pods of round 1 are `map markDts` of the old pods
      exact hno (by
        have hlen : ∃ p' ∈ (roundD adv s).pods, p'.pod.name = p.pod.name := by
          -- from the work_kill facts inside `roundD_mark` we only kept the converse direction; rederive
          have hidle : deliverAll s = s := deliverAll_idle s h.fresh.jobEvs h.fresh.podEvs
          have hk1 := adv_stage h adv httl1
          obtain ⟨k, rest, hqk⟩ := ready_after_adv h.wf hq adv
          obtain ⟨jo', N, _, _, _, _, _, _, _, hjs, hps, _, hpodsw, _⟩ := work_kill hk1 hnodel k rest hqk
          obtain ⟨_, _, _, _, d5, _⟩ := deliverAll_spec (work (step s (.advance adv))).1 hps hjs
          have hround : roundD adv s = deliverAll (work (step s (.advance adv))).1 := by unfold roundD; rw [hidle]; rfl
          refine ⟨markDts (nowT (step s (.advance adv))) N p, ?_, markDts_name _ _ _⟩
          rw [hround, d5.pods, hpodsw]
          exact List.mem_map.mpr ⟨p, hp, rfl⟩
        obtain ⟨p', hp', hn'⟩ := hlen
        obtain ⟨p0, hp0, hn0, hf0, _⟩ := hp1 p' hp'
        have : p0 = p := by
          have e1 := findPod_of_mem_nodup h.pods.nodup hp0
          have e2 := findPod_of_mem_nodup h.pods.nodup hp
          rw [hn0, hn', e2] at e1
          exact (Option.some.inj e1).symm
        subst this
        exact ⟨p', hp', by rw [hf0]; exact hfn⟩)
    -- round 2: force delete
    have httl2 : (roundD adv s).clock + adv < F0 + getTTLAfterFinished jo1.job (roundD adv s).cfg := by
      rw [hTTL1, hc1]
      have : s.clock + adv + adv ≤ s.clock + 3 * adv := by omega
      exact Int.lt_of_le_of_lt this httl
    obtain ⟨jo2, h2, hn2, httlf2, hc2, hcfg2, hp2, hq2, _⟩ := roundD_force h1 (hq1 hex) (by rw [hcfg1]; exact hF)
      (by rw [htm1]; exact hforb) hpods1 adv (by rw [hcfg1]; exact hadv) httl2
    have hTTL2 : getTTLAfterFinished jo2.job (roundD adv (roundD adv s)).cfg = getTTLAfterFinished jo.job s.cfg := by
      unfold getTTLAfterFinished at hTTL1 ⊢; rw [httlf2, hcfg2]; exact hTTL1
    -- round 3: record
    have httl3 : (roundD adv (roundD adv s)).clock + adv < F0 + getTTLAfterFinished jo2.job (roundD adv (roundD adv s)).cfg := by
      rw [hTTL2, hc2, hc1]
      have : s.clock + adv + adv + adv ≤ s.clock + 3 * adv := by omega
      exact Int.lt_of_le_of_lt this httl
    obtain ⟨jo3, h3, hn3, _, _, _, _, hp3, _, hfin3⟩ := roundD_mark h2 (hq2 hex1) (fun p hp => (hp2 p hp).2.2) adv httl3
    have hall2 : ∀ p ∈ (roundD adv (roundD adv s)).pods, p.pod.isFinished = true := fun p hp => (hp2 p hp).2.1
    refine ⟨3, by omega, Nat.le_refl _, jo3, h3, (hn3.trans hn2).trans hn1, ⟨hfin3 hall2, ?_⟩, ?_⟩
    · intro p' hp'
      obtain ⟨p, hp, _, hf, _⟩ := hp3 p' hp'
      rw [hf]; exact hall2 p hp
    · intro p' hp'
      obtain ⟨p2, hp2m, hn', _, _⟩ := hp3 p' hp'
      obtain ⟨hp1m, hf2, _⟩ := hp2 p2 hp2m
      obtain ⟨p0, hp0, hn0, hf0, _⟩ := hp1 p2 hp1m
      exact ⟨p0, hp0, hn0.trans hn', by rw [← hf0]; exact hf2⟩

end Furiko.JobCtl.Live
