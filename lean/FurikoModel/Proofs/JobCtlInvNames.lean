/-
Fourth (light) walk through `Reconciler.sync`: where the NAMES of the recorded refs come from — every
name in the status a pass computes was recorded before, or is the name of a creation request computed
from the cached Job, or is the name of a pod in the pod cache that is controlled by the Job.  Core Lean
only.
-/
import FurikoModel.Proofs.JobCtlInvRefsInv

set_option linter.unusedSimpArgs false
set_option linter.unusedVariables false

namespace Furiko.JobCtl
open Furiko Furiko.WQ Furiko.StatusLemmas Furiko.ParallelLemmas

/-- every recorded name is in `N` -/
def NOK (N : List String) (rj : Job) : Prop := ∀ n ∈ refNames rj, n ∈ N

theorem updateJobTaskRefs_nok {N : List String} (now : Time) (a : Job) (T : List Task) (ha : NOK N a)
    (hT : ∀ t ∈ T, TaskOK t ∧ t.name ∈ N) : NOK N (updateJobTaskRefs now a T) := by
  intro n hn
  obtain ⟨r, hr, rfl⟩ := List.mem_map.mp hn
  rcases mem_generateTaskRefs hr with ⟨t, ht, rfl⟩ | ⟨ex, hex, _, rfl⟩
  · rw [getTaskRef_name, (hT t ht).1]; exact (hT t ht).2
  · rw [(lostRef_fields now ex).1]; exact ha _ (List.mem_map_of_mem hex)

theorem NOK.of_tasks {N : List String} {a b : Job} (ha : NOK N a) (e : b.status.tasks = a.status.tasks) : NOK N b := by
  intro n hn; unfold refNames at hn; rw [e] at hn; exact ha n hn

theorem syncJobStatusFromTaskRefs_nok {N : List String} (s : Sys) (key : String) (a : Job) (ha : NOK N a) :
    NOK N (syncJobStatusFromTaskRefs s key a).2 :=
  ha.of_tasks (syncJobStatusFromTaskRefs_tasks s key a)

theorem updateTaskRefStatus_nok {N : List String} (s : Sys) (key : String) (a : Job) (T : List Task) (ha : NOK N a)
    (hT : ∀ t ∈ T, TaskOK t ∧ t.name ∈ N) : NOK N (updateTaskRefStatus s key a T).2 := by
  unfold updateTaskRefStatus
  exact syncJobStatusFromTaskRefs_nok s key _ (updateJobTaskRefs_nok s.clock a T ha hT)

theorem markDeleted_nok {N : List String} (a : Job) (names : List String) (f : TaskRef → TaskRef)
    (hf : ∀ r, (f r).name = r.name) (ha : NOK N a) : NOK N (markDeleted a names f) := by
  intro n hn
  unfold refNames markDeleted at hn
  simp only [List.map_map] at hn
  obtain ⟨r, hr, rfl⟩ := List.mem_map.mp hn
  have : (if names.contains r.name = true then f r else r).name = r.name := by
    split
    · exact hf r
    · rfl
  show (if names.contains r.name = true then f r else r).name ∈ N
  rw [this]
  exact ha _ (List.mem_map_of_mem hr)

theorem deletedStatusIfNotSet_nok {N : List String} (a : Job) (name : String) (st : TaskStatus) (ha : NOK N a) :
    NOK N (updateTaskRefDeletedStatusIfNotSet a name st) := by
  intro n hn
  unfold refNames updateTaskRefDeletedStatusIfNotSet at hn
  simp only [List.map_map] at hn
  obtain ⟨r, hr, rfl⟩ := List.mem_map.mp hn
  have : (if (r.name == name && r.deletedStatus.isNone) = true then { r with deletedStatus := some st } else r).name =
      r.name := by split <;> rfl
  show (if (r.name == name && r.deletedStatus.isNone) = true then { r with deletedStatus := some st } else r).name ∈ N
  rw [this]
  exact ha _ (List.mem_map_of_mem hr)

theorem foldl_deletedStatus_nok {N : List String} (st : TaskStatus) (tasks : List Task) : ∀ (a : Job), NOK N a →
    NOK N (tasks.foldl (fun acc t => updateTaskRefDeletedStatusIfNotSet acc t.name st) a) := by
  induction tasks with
  | nil => intro a ha; exact ha
  | cons t rest ih => intro a ha; exact ih _ (deletedStatusIfNotSet_nok a t.name st ha)

/-- the names of the creation requests computed from the cached Job -/
def reqNamesOf (d : PIndex) (jo : JobObj) : List String :=
  match computeMissingIndexesForCreation d jo.job (jo.job.indexes d) with
  | some reqs => reqs.map (reqName jo)
  | none => []

/-- the names of the cached pods that are controlled by the Job -/
def ownedNames (cache : List PodObj) (jo : JobObj) : List String :=
  podNames (cache.filter (fun p => decide (p.ownerUid = some jo.uid)))

theorem mem_ownedNames {cache : List PodObj} {jo : JobObj} {p : PodObj} (hp : p ∈ cache)
    (ho : p.ownerUid = some jo.uid) : p.pod.name ∈ ownedNames cache jo := by
  unfold ownedNames podNames
  exact List.mem_map_of_mem (List.mem_filter.mpr ⟨hp, by simpa using ho⟩)

theorem ownedNames_mem {cache : List PodObj} {jo : JobObj} {n : String} (h : n ∈ ownedNames cache jo) :
    ∃ p ∈ cache, p.ownerUid = some jo.uid ∧ p.pod.name = n := by
  unfold ownedNames podNames at h
  obtain ⟨p, hp, hn⟩ := List.mem_map.mp h
  have := List.mem_filter.mp hp
  exact ⟨p, this.1, by simpa using this.2, hn⟩

/-- the names of the creation requests computed from the cached Job that are FREE on the server when the
pass starts (the pass's own create call then makes the pod, controlled by the Job — or fails; a
requested name that is occupied is only ever adopted from a cached pod controlled by the Job) -/
def freshReqNames (sp : Sys) (jo : JobObj) : List String :=
  (reqNamesOf sp.d jo).filter (fun n => decide (n ∉ podNames sp.pods))

/-- the allowed names of a pass: recorded before; requested and free on the server; or the name of a
cached pod that is controlled by the Job -/
def allowedNames (sp : Sys) (jo : JobObj) : List String :=
  refNames jo.job ++ freshReqNames sp jo ++ ownedNames sp.podCache jo

theorem mem_allowed_old {sp : Sys} {jo : JobObj} {n : String} (h : n ∈ refNames jo.job) : n ∈ allowedNames sp jo :=
  List.mem_append_left _ (List.mem_append_left _ h)
theorem mem_allowed_req {sp : Sys} {jo : JobObj} {n : String} (h : n ∈ reqNamesOf sp.d jo)
    (hf : n ∉ podNames sp.pods) : n ∈ allowedNames sp jo :=
  List.mem_append_left _ (List.mem_append_right _ (List.mem_filter.mpr ⟨h, by simpa using hf⟩))
theorem mem_allowed_cache {sp : Sys} {jo : JobObj} {n : String} (h : n ∈ ownedNames sp.podCache jo) :
    n ∈ allowedNames sp jo := List.mem_append_right _ h

/-- result of a step that may fail -/
def OutNOK (N : List String) (o : Option Job) : Prop := ∀ b, o = some b → NOK N b

theorem ite_some_none_nok {N : List String} {b : Job} (ok : Bool) (h : NOK N b) :
    OutNOK N (if ok = true then some b else none) := by
  intro c hc
  cases ok with
  | true => simp only [↓reduceIte, Option.some.injEq] at hc; subst hc; exact h
  | false => simp at hc

theorem some_nok {N : List String} {a : Job} (h : NOK N a) : OutNOK N (some a) := by
  intro b hb; cases hb; exact h

theorem handlePendingTasks_nok {N : List String} (s : Sys) (jo : JobObj) (rj : Job) (tasks : List Task)
    (h : NOK N rj) : OutNOK N (handlePendingTasks s jo rj tasks).2 := by
  unfold handlePendingTasks
  cases getPendingTimeout rj s.cfg with
  | none => exact some_nok h
  | some pt =>
    (try simp only)
    split
    · exact some_nok h
    · generalize List.foldl _ (s, ([] : List Task)) tasks = r
      obtain ⟨s1, needDelete⟩ := r
      (try simp only)
      split
      · exact some_nok h
      · generalize deleteTasks s1 needDelete false = r2
        obtain ⟨s2, ok⟩ := r2
        (try simp only)
        exact ite_some_none_nok ok (markDeleted_nok rj _ _ (fun r => rfl) h)

theorem handleKillJob_nok {N : List String} (s : Sys) (jo : JobObj) (rj : Job) (tasks : List Task) (h : NOK N rj) :
    OutNOK N (handleKillJob s jo rj tasks).2 := by
  unfold handleKillJob
  split
  · split <;> exact some_nok h
  · (try simp only)
    split
    · exact some_nok h
    · generalize deleteTasks s (tasks.filter (fun t => !isTaskFinished t && t.deletionTimestamp.isNone)) false = r2
      obtain ⟨s2, ok⟩ := r2
      (try simp only)
      exact ite_some_none_nok ok (markDeleted_nok rj _ _ (fun r => rfl) h)

theorem handleForceDelete_nok {N : List String} (s : Sys) (jo : JobObj) (rj : Job) (tasks : List Task)
    (h : NOK N rj) (hT : ∀ t ∈ tasks, TaskOK t ∧ t.name ∈ N) : OutNOK N (handleForceDelete s jo rj tasks).2 := by
  unfold handleForceDelete
  (try simp only)
  split
  · exact some_nok h
  · split
    · exact some_nok h
    · generalize List.foldl _ (s, ([] : List Task)) tasks = r
      obtain ⟨s1, needDelete⟩ := r
      (try simp only)
      split
      · exact some_nok h
      · generalize deleteTasks s1 needDelete true = r2
        obtain ⟨s2, ok⟩ := r2
        (try simp only)
        refine ite_some_none_nok ok ?_
        exact updateJobTaskRefs_nok s1.clock _ tasks (markDeleted_nok rj _ _ (fun r => rfl) h) hT

theorem adoptUnrecordedTasks_names (s : Sys) (jo : JobObj) (tasks : List Task) (N : List String)
    (hT : ∀ t ∈ tasks, TaskOK t ∧ t.name ∈ N) (hc : ∀ n ∈ ownedNames s.podCache jo, n ∈ N) :
    ∀ t ∈ adoptUnrecordedTasks s jo tasks, TaskOK t ∧ t.name ∈ N := by
  intro t hm
  unfold adoptUnrecordedTasks at hm
  rcases List.mem_append.mp hm with h | h
  · exact hT t h
  · obtain ⟨p, hpf, hp⟩ := List.mem_filterMap.mp h
    have hpm : p ∈ s.podCache := (sortPods_perm s.podCache).subset (List.mem_filter.mp hpf).1
    have hown : p.ownerUid = some jo.uid := by
      have := (List.mem_filter.mp hpf).2
      simp only [Bool.and_eq_true, Bool.not_eq_true', decide_eq_true_eq] at this
      exact this.2
    have := podTask_ok hp
    exact ⟨this.1, by rw [this.2]; exact hc _ (mem_ownedNames hpm hown)⟩

theorem syncCreateTasks_nok {j0 : JobObj} (s : Sys) (jo : JobObj) (tasks : List Task) (hwf : WF2 j0 s.d)
    (hp : PodsGood j0 s) (hjo : VerOK j0 jo) (hg : Good j0 s.d jo.job)
    (hst : isStarted jo.job = true) (hdel : isDeleted jo.job = false) (ht : TasksGood j0 s.d tasks)
    (hsub : ∀ n ∈ tasks.map (·.name), n ∈ refNames jo.job) :
    ∀ rj1 tasks1, (syncCreateTasks s jo jo.job tasks).2 = some (rj1, tasks1) →
      NOK (allowedNames s jo) rj1 ∧ ∀ t ∈ tasks1, TaskOK t ∧ t.name ∈ allowedNames s jo := by
  have hjoN : NOK (allowedNames s jo) jo.job := fun n hn => mem_allowed_old hn
  have hT0 : ∀ t ∈ tasks, TaskOK t ∧ t.name ∈ allowedNames s jo :=
    fun t h => ⟨(ht.ok t h).1, mem_allowed_old (hsub _ (List.mem_map_of_mem h))⟩
  intro rj1 tasks1
  unfold syncCreateTasks
  by_cases hcan : canCreateTask jo.job = true
  · simp only [hcan, Bool.not_true, Bool.false_eq_true, ↓reduceIte]
    split
    · intro h
      simp only [Option.some.injEq, Prod.mk.injEq] at h
      obtain ⟨rfl, rfl⟩ := h
      exact ⟨hjoN, adoptUnrecordedTasks_names s jo tasks _ hT0 (fun n hn => mem_allowed_cache hn)⟩
    · cases hreqs : computeMissingIndexesForCreation s.d jo.job (jo.job.indexes s.d) with
      | none => (try simp only); intro h; cases h
      | some reqs =>
        (try simp only)
        have hnames := reqs_names hwf hjo hg.refs hreqs
        have hreq : ∀ r ∈ reqs, CreateReq s.d jo r.index r.retryIndex :=
          fun r hr => ⟨hst, hdel, hcan, reqs, r.earliest, hreqs, hr⟩
        have h1 := createLoop_good jo s.d s.podCache (podNames s.pods) hjo reqs s jo.job tasks none rfl rfl (fun _ h => h) hp hreq ht hnames.1
          (fun r hr hmem => hnames.2 r hr (hsub _ hmem))
        generalize createLoop jo reqs s jo.job tasks none = res at h1 ⊢
        obtain ⟨s1, o⟩ := res
        cases o with
        | none => (try simp only); intro h; cases h
        | some v =>
          obtain ⟨rj', tasks', minE⟩ := v
          (try simp only)
          obtain ⟨hrj, ht', hnew, _⟩ := h1 rj' tasks' minE rfl
          have hjoN' : NOK (allowedNames s jo) rj' := hjoN.of_tasks (by rw [hrj.status])
          have hT' : ∀ t ∈ tasks', TaskOK t ∧ t.name ∈ allowedNames s jo := by
            intro t htm
            refine ⟨(ht'.ok t htm).1, ?_⟩
            rcases hnew t htm with h | h
            · exact (hT0 t h).2
            · obtain ⟨hn, p, _, hpt, hsrc⟩ := h
              have hpn := (podTask_ok hpt).2
              rcases hsrc with ⟨_, hfr⟩ | ⟨hpc, hpo⟩
              · refine mem_allowed_req ?_ (by rw [hpn]; exact hfr)
                unfold reqNamesOf
                rw [hreqs]
                exact hn
              · rw [hpn]; exact mem_allowed_cache (mem_ownedNames hpc hpo)
          have fin : ∀ s2, NOK (allowedNames s jo) (updateTaskRefStatus s2 (jobKey jo) rj' tasks').2 :=
            fun s2 => updateTaskRefStatus_nok s2 (jobKey jo) rj' tasks' hjoN' hT'
          cases minE with
          | none =>
            (try simp only)
            intro h
            simp only [Option.some.injEq, Prod.mk.injEq] at h
            obtain ⟨rfl, rfl⟩ := h
            exact ⟨fin _, hT'⟩
          | some t =>
            (try simp only)
            intro h
            simp only [Option.some.injEq, Prod.mk.injEq] at h
            obtain ⟨rfl, rfl⟩ := h
            exact ⟨fin _, hT'⟩
  · simp only [hcan, Bool.not_false, ↓reduceIte]
    intro h
    simp only [Option.some.injEq, Prod.mk.injEq] at h
    obtain ⟨rfl, rfl⟩ := h
    exact ⟨hjoN, adoptUnrecordedTasks_names s jo tasks _ hT0 (fun n hn => mem_allowed_cache hn)⟩

theorem syncJobTasks_nok {j0 : JobObj} (s : Sys) (jo : JobObj) (hwf : WF2 j0 s.d) (hp : PodsGood j0 s)
    (hjo : VerOK j0 jo) (hg : Good j0 s.d jo.job) (hst : isStarted jo.job = true) (hdel : isDeleted jo.job = false) :
    OutNOK (allowedNames s jo) (syncJobTasks s jo jo.job).2 := by
  unfold syncJobTasks
  (try simp only)
  have htf := tasksForRefs_good (jo := jo) hp hjo.uid jo.job.status.tasks hg.nodup
  have h1 := syncCreateTasks_nok s jo (tasksForRefs s jo jo.job.status.tasks) hwf hp hjo hg hst hdel htf.1 htf.2
  generalize syncCreateTasks s jo jo.job (tasksForRefs s jo jo.job.status.tasks) = r1 at h1 ⊢
  obtain ⟨s1, o1⟩ := r1
  cases o1 with
  | none => (try simp only); intro _ h; cases h
  | some v =>
    obtain ⟨rj1, tasks1⟩ := v
    obtain ⟨hn1, hT1⟩ := h1 rj1 tasks1 rfl
    (try simp only)
    have h2 := updateTaskRefStatus_nok s1 (jobKey jo) rj1 tasks1 hn1 hT1
    generalize updateTaskRefStatus s1 (jobKey jo) rj1 tasks1 = r2 at h2 ⊢
    obtain ⟨s2, rj2⟩ := r2
    (try simp only)
    have h3 := handlePendingTasks_nok s2 jo rj2 tasks1 h2
    generalize handlePendingTasks s2 jo rj2 tasks1 = r3 at h3 ⊢
    obtain ⟨s3, o3⟩ := r3
    cases o3 with
    | none => (try simp only); intro _ h; cases h
    | some rj3 =>
      (try simp only)
      have h4 := handleKillJob_nok s3 jo rj3 tasks1 (h3 rj3 rfl)
      generalize handleKillJob s3 jo rj3 tasks1 = r4 at h4 ⊢
      obtain ⟨s4, o4⟩ := r4
      cases o4 with
      | none => (try simp only); intro _ h; cases h
      | some rj4 =>
        (try simp only)
        have h5 := handleForceDelete_nok s4 jo rj4 tasks1 (h4 rj4 rfl) hT1
        generalize handleForceDelete s4 jo rj4 tasks1 = r5 at h5 ⊢
        obtain ⟨s5, o5⟩ := r5
        cases o5 with
        | none => (try simp only); intro _ h; cases h
        | some rj5 =>
          (try simp only)
          have h6 := updateTaskRefStatus_nok s5 (jobKey jo) rj5 tasks1 (h5 rj5 rfl) hT1
          generalize updateTaskRefStatus s5 (jobKey jo) rj5 tasks1 = r6 at h6 ⊢
          obtain ⟨s6, rj6⟩ := r6
          (try simp only)
          intro b h
          simp only [Option.some.injEq] at h
          subst h
          exact h6

theorem tasksForRefsConfirmed_names (s : Sys) (jo : JobObj) (refs : List TaskRef) :
    ∀ t ∈ tasksForRefsConfirmed s jo refs, TaskOK t ∧ t.name ∈ refs.map (·.name) := by
  intro t ht
  unfold tasksForRefsConfirmed at ht
  obtain ⟨r, hr, hg⟩ := List.mem_filterMap.mp ht
  have := getTaskForRefConfirmed_ok hg
  exact ⟨this.1, by rw [this.2]; exact List.mem_map_of_mem hr⟩

theorem handleFinalizer_nok {N : List String} (s : Sys) (jo : JobObj) (rj : Job) (fz : Bool) (h : NOK N rj)
    (hc : ∀ n ∈ ownedNames s.podCache jo, n ∈ N) :
    ∀ rj1 fz1, (handleFinalizer s jo rj fz).2 = some (rj1, fz1) → NOK N rj1 := by
  intro rj1 fz1
  unfold handleFinalizer
  split
  · intro hh; cases hh; exact h
  · split
    · intro hh; cases hh; exact h
    · (try simp only)
      have hT : ∀ t ∈ finalizerTasks s jo rj, TaskOK t ∧ t.name ∈ N := by
        unfold finalizerTasks
        refine adoptUnrecordedTasks_names s { jo with job := rj } _ N ?_ hc
        intro t ht
        have := tasksForRefsConfirmed_names s jo rj.status.tasks t ht
        exact ⟨this.1, h _ this.2⟩
      split
      · have h1 := updateTaskRefStatus_nok s (jobKey jo) _ (finalizerTasks s jo rj)
          (foldl_deletedStatus_nok (N := N) { state := .terminated, result := .killed, reason := "JobDeleted" }
            (finalizerTasks s jo rj) rj h) hT
        generalize updateTaskRefStatus s (jobKey jo) _ (finalizerTasks s jo rj) = r1 at h1 ⊢
        obtain ⟨s1, rj2⟩ := r1
        (try simp only)
        generalize deleteTasks s1 (finalizerTasks s jo rj) false = r2
        obtain ⟨s2, ok⟩ := r2
        (try simp only)
        intro hh
        cases ok with
        | false => simp at hh
        | true =>
          simp only [↓reduceIte, Option.some.injEq, Prod.mk.injEq] at hh
          obtain ⟨rfl, _⟩ := hh
          exact h1
      · have h1 := updateTaskRefStatus_nok s (jobKey jo) rj [] h (by intro t ht; cases ht)
        generalize updateTaskRefStatus s (jobKey jo) rj [] = r1 at h1 ⊢
        obtain ⟨s1, rj1'⟩ := r1
        (try simp only)
        intro hh
        simp only [Option.some.injEq, Prod.mk.injEq] at hh
        obtain ⟨rfl, _⟩ := hh
        exact h1

/-- every name in the status `sync` computes is an allowed name of the pass -/
theorem sync_nok {j0 : JobObj} (s : Sys) (jo : JobObj) (hwf : WF2 j0 s.d) (hp : PodsGood j0 s)
    (hjo : VerOK j0 jo) (hg : Good j0 s.d jo.job) : NOK (allowedNames s jo) (sync s jo).2.1 := by
  have hjoN : NOK (allowedNames s jo) jo.job := fun n hn => mem_allowed_old hn
  unfold sync
  (try simp only)
  have h1 : OutNOK (allowedNames s jo) (if (isStarted jo.job && !isDeleted jo.job) = true then syncJobTasks s jo jo.job
      else (s, some jo.job)).2 := by
    split
    · rename_i hc
      simp only [Bool.and_eq_true, Bool.not_eq_true'] at hc
      exact syncJobTasks_nok s jo hwf hp hjo hg hc.1 hc.2
    · exact some_nok hjoN
  have hm1 : Micros jo s s (if (isStarted jo.job && !isDeleted jo.job) = true then syncJobTasks s jo jo.job
      else (s, some jo.job)).1 := by
    split
    · rename_i hc
      simp only [Bool.and_eq_true, Bool.not_eq_true'] at hc
      exact (syncJobTasks_spec s jo s hc.1 hc.2 (CreatePhase.refl _)).1
    · exact .refl s
  generalize (if (isStarted jo.job && !isDeleted jo.job) = true then syncJobTasks s jo jo.job
      else (s, some jo.job)) = r1 at h1 hm1 ⊢
  obtain ⟨s1, o1⟩ := r1
  cases o1 with
  | none => (try simp only); exact hjoN
  | some rj1 =>
    (try simp only)
    have h2 := syncJobStatusFromTaskRefs_nok s1 (jobKey jo) rj1 (h1 rj1 rfl)
    have hf2 := (syncJobStatusFromTaskRefs_spec s1 (jobKey jo) rj1).1
    generalize syncJobStatusFromTaskRefs s1 (jobKey jo) rj1 = r2 at h2 hf2 ⊢
    obtain ⟨s2, rj2⟩ := r2
    (try simp only at h2 hf2 ⊢)
    have hm3 := handleTTL_micros s2 jo s rj2
    generalize handleTTL s2 jo rj2 = r3 at hm3 ⊢
    obtain ⟨s3, ok3⟩ := r3
    cases ok3 with
    | false => (try simp only); exact h2
    | true =>
      (try simp only)
      have hc3 : s3.podCache = s.podCache := ((hm1.trans (.frame hf2)).trans hm3).static.podCache
      have h4 := handleFinalizer_nok s3 jo rj2 jo.finalizer h2
        (fun n hn => mem_allowed_cache (by rw [← hc3]; exact hn))
      generalize handleFinalizer s3 jo rj2 jo.finalizer = r4 at h4 ⊢
      obtain ⟨s4, o4⟩ := r4
      cases o4 with
      | none => (try simp only); exact h2
      | some v =>
        obtain ⟨rj3, fz⟩ := v
        (try simp only)
        exact h4 rj3 fz rfl

end Furiko.JobCtl
