/- Helper lemmas for Props/C19.lean (dynamic configuration). Core Lean only. -/
import FurikoModel.Model.Config
import FurikoModel.Spec.ConfigSpec

namespace Furiko.Config

/-- keys of a `Config` map are distinct (it is a Go map) -/
def WF (m : CMap) : Prop := (m.map Prod.fst).Nodup

theorem lookup_set (m : CMap) (k k' : String) (v : Val) :
    lookup (set m k v) k' = if k = k' then some v else lookup m k' := by
  induction m with
  | nil => simp [set, lookup]
  | cons hd tl ih =>
    obtain ⟨a, b⟩ := hd
    simp only [set]
    by_cases h : a = k
    · subst h
      simp only [if_true, lookup]
      split <;> simp_all
    · simp only [h, if_false, lookup, ih]
      by_cases h1 : a = k'
      · subst h1
        have : ¬ k = a := fun e => h e.symm
        simp [this]
      · simp [h1]

theorem mergeVal_nonobj (d : Option Val) (v : Val) (h : v.isObj = false) : mergeVal d v = v := by
  cases v <;> simp_all [mergeVal, Val.isObj]

theorem mergeVal_none (v : Val) : mergeVal none v = v := by
  cases v <;> simp [mergeVal]

theorem lookup_mergeKey (dst : CMap) (k : String) (v : Val) (k' : String) :
    lookup (mergeKey dst (k, v)) k' =
      if k = k' then some (mergeVal (lookup dst k) v) else lookup dst k' := by
  cases v with
  | null => simp [mergeKey, lookup_set, mergeVal]
  | atom r e => simp [mergeKey, lookup_set, mergeVal]
  | obj r e =>
    simp only [mergeKey]
    cases hd : lookup dst k with
    | none => simp [lookup_set, mergeVal]
    | some d =>
      by_cases he : d.isEmpty = true
      · simp [he, lookup_set, mergeVal]
      · simp only [he, mergeVal]
        by_cases hk : k = k'
        · subst hk; simp [hd]
        · simp [hk]

theorem lookup_of_not_mem (m : CMap) (k : String) (h : k ∉ m.map Prod.fst) : lookup m k = none := by
  induction m with
  | nil => rfl
  | cons hd tl ih =>
    obtain ⟨a, b⟩ := hd
    simp only [List.map_cons, List.mem_cons, not_or] at h
    have : ¬ a = k := fun e => h.1 e.symm
    simp [lookup, this, ih h.2]

/-- the map loop of mergo, seen through one key (the iteration order of the Go map does not matter) -/
theorem lookup_mergeMap (dst src : CMap) (hs : WF src) (k : String) :
    lookup (mergeMap dst src) k =
      match lookup src k with
      | none => lookup dst k
      | some v => some (mergeVal (lookup dst k) v) := by
  induction src generalizing dst with
  | nil => simp [mergeMap, lookup]
  | cons hd tl ih =>
    obtain ⟨a, b⟩ := hd
    have hnd : a ∉ tl.map Prod.fst ∧ WF tl := by
      simpa [WF, List.nodup_cons] using hs
    have ih' := ih (mergeKey dst (a, b)) hnd.2
    simp only [mergeMap, List.foldl_cons] at ih' ⊢
    rw [ih']
    by_cases h : a = k
    · subst h
      simp [lookup, lookup_of_not_mem tl a hnd.1, lookup_mergeKey]
    · simp only [lookup, h, if_false, lookup_mergeKey]

/-- per-key view of one layer -/
def keyStep (k : String) (d : Option Val) (l : CMap) : Option Val :=
  match lookup l k with
  | none => d
  | some v => some (mergeVal d v)

theorem lookup_foldl_mergeMap (layers : List CMap) (acc : CMap) (hw : ∀ l ∈ layers, WF l) (k : String) :
    lookup (layers.foldl mergeMap acc) k = layers.foldl (keyStep k) (lookup acc k) := by
  induction layers generalizing acc with
  | nil => rfl
  | cons l rest ih =>
    simp only [List.foldl_cons]
    rw [ih (mergeMap acc l) (fun x hx => hw x (List.mem_cons_of_mem _ hx))]
    congr 1
    rw [lookup_mergeMap acc l (hw l List.mem_cons_self) k]
    simp only [keyStep]

theorem foldl_keyStep_unbound (layers : List CMap) (k : String) (d : Option Val)
    (h : ∀ l ∈ layers, lookup l k = none) : layers.foldl (keyStep k) d = d := by
  induction layers generalizing d with
  | nil => rfl
  | cons l rest ih =>
    simp only [List.foldl_cons]
    have : keyStep k d l = d := by simp [keyStep, h l List.mem_cons_self]
    rw [this]
    exact ih d (fun x hx => h x (List.mem_cons_of_mem _ hx))

/-! loaders -/

theorem unmarshalAll_none (es : List Entry) (h : ∃ e ∈ es, e.2 = none) : unmarshalAll es = none := by
  induction es with
  | nil => obtain ⟨e, he, _⟩ := h; cases he
  | cons hd tl ih =>
    obtain ⟨n, p⟩ := hd
    cases p with
    | none => simp [unmarshalAll]
    | some c =>
      obtain ⟨e, he, hn⟩ := h
      have : ∃ e ∈ tl, e.2 = none := by
        cases he with
        | head => simp at hn
        | tail _ h' => exact ⟨e, h', hn⟩
      simp [unmarshalAll, ih this]

theorem unmarshalAll_some (es : List Entry) (h : ∀ e ∈ es, e.2 ≠ none) :
    unmarshalAll es = some (es.map fun e => (e.1, e.2.getD [])) := by
  induction es with
  | nil => rfl
  | cons hd tl ih =>
    obtain ⟨n, p⟩ := hd
    cases p with
    | none => exact absurd rfl (h (n, none) List.mem_cons_self)
    | some c =>
      simp [unmarshalAll, ih (fun e he => h e (List.mem_cons_of_mem _ he))]

/-! last-known-good cache -/

theorem lkgLookup_store {T} (c : List (String × T)) (n n' : String) (t : T) :
    lkgLookup (lkgStore c n t) n' = if n = n' then some t else lkgLookup c n' := by
  induction c with
  | nil => simp [lkgStore, lkgLookup]
  | cons hd tl ih =>
    obtain ⟨a, b⟩ := hd
    simp only [lkgStore]
    by_cases h : a = n
    · subst h
      simp only [if_true, lkgLookup]
      split <;> simp_all
    · simp only [h, if_false, lkgLookup, ih]
      by_cases h1 : a = n'
      · subst h1
        have : ¬ n = a := fun e => h e.symm
        simp [this]
      · simp [h1]

/-- the part of the manager that reads cannot change -/
def SrcEq {T} (m m' : Mgr T) : Prop :=
  m.started = m'.started ∧ m.defaults = m'.defaults ∧ m.cm = m'.cm ∧ m.sec = m'.sec

theorem SrcEq.refl {T} (m : Mgr T) : SrcEq m m := ⟨rfl, rfl, rfl, rfl⟩

theorem loadAndDecode_srcEq {T} (decode : String → CMap → Option T) (m m' : Mgr T) (h : SrcEq m m')
    (name : String) : m.loadAndDecode decode name = m'.loadAndDecode decode name := by
  obtain ⟨h1, h2, h3, h4⟩ := h
  have hl : ∀ l, m.loaderLoad l name = m'.loaderLoad l name := by
    intro l; cases l <;> simp [Mgr.loaderLoad, h2, h3, h4]
  simp [Mgr.loadAndDecode, Mgr.loadConfig, Mgr.loadConfigWith, h1, hl]

theorem read_srcEq {T} (decode : String → CMap → Option T) (m : Mgr T) (name : String) :
    SrcEq (m.read decode name).1 m := by
  simp only [Mgr.read]
  split
  · exact ⟨rfl, rfl, rfl, rfl⟩
  · split <;> exact SrcEq.refl m

theorem applyEv_srcEq {T} (m m' : Mgr T) (h : SrcEq m m') (s : Src) (k : EvKind) (t : Bool) (es : List Entry) :
    SrcEq (m.applyEv s k t es) (m'.applyEv s k t es) := by
  obtain ⟨h1, h2, h3, h4⟩ := h
  cases s <;> simp [Mgr.applyEv, SrcEq, h1, h2, h3, h4]

theorem applyEv_lkg {T} (m : Mgr T) (s : Src) (k : EvKind) (t : Bool) (es : List Entry) :
    (m.applyEv s k t es).lkg = m.lkg := by
  cases s <;> rfl

/-- the manager's cache always equals the specification's register, and reads never touch the sources -/
theorem lkg_invariant {T} (decode : String → CMap → Option T) (name : String) (ops : List Op) :
    ∀ (m m' : Mgr T), SrcEq m m' →
      lkgLookup (m.run decode ops).lkg name = lastGood decode name m' (lkgLookup m.lkg name) ops ∧
      SrcEq (m.run decode ops) (ops.foldl srcStep m') := by
  induction ops with
  | nil => intro m m' h; exact ⟨rfl, h⟩
  | cons op ops ih =>
    intro m m' h
    simp only [Mgr.run, List.foldl_cons] at ih ⊢
    cases op with
    | ev s k t es =>
      have := ih (m.applyEv s k t es) (m'.applyEv s k t es) (applyEv_srcEq m m' h s k t es)
      simpa [Mgr.step, lastGood, srcStep, applyEv_lkg] using this
    | read n =>
      have hsrc : SrcEq (m.read decode n).1 m' := by
        have h1 := read_srcEq decode m n
        exact ⟨h1.1.trans h.1, h1.2.1.trans h.2.1, h1.2.2.1.trans h.2.2.1, h1.2.2.2.trans h.2.2.2⟩
      have := ih (m.read decode n).1 m' hsrc
      simp only [Mgr.step, lastGood, srcStep]
      refine ⟨?_, this.2⟩
      rw [this.1]
      congr 1
      rw [← loadAndDecode_srcEq decode m m' h name]
      simp only [Mgr.read]
      by_cases hn : n = name
      · subst hn
        cases hd : m.loadAndDecode decode n with
        | some t => simp [lkgLookup_store]
        | none => cases hl : lkgLookup m.lkg n <;> simp [hl]
      · simp only [hn, if_false]
        cases hd : m.loadAndDecode decode n with
        | some t => simp [lkgLookup_store, hn]
        | none => cases hl : lkgLookup m.lkg n <;> simp

end Furiko.Config
