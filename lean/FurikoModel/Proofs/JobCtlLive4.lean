/-
Liveness of the job controller, part 4: the creation stage of a pass (`syncCreateTasks`) on a simple
Job when no fault is pending, case by case — the refreshed summary is complete (nothing is created,
unrecorded tasks are adopted); no creation request; the request is not due (a timer is armed); the
request is due and the name is free (the task is created) or taken by a task of the Job (adopted) —
and the exact effect of a successful pod create / status update on the API simulation.  Core Lean only.
-/
import FurikoModel.Proofs.JobCtlLive3

set_option linter.unusedSimpArgs false
set_option linter.unusedVariables false

namespace Furiko.JobCtl.Live
open Furiko Furiko.JobCtl Furiko.WQ Furiko.StatusLemmas Furiko.JobCtlPlan

/-! ### API calls that succeed -/

/-- no fault is queued and no delete batch is open (the state a pass starts in once calls succeed again) -/
def Quiet (s : Sys) : Prop := s.faults = [] ∧ s.delRun = none

theorem nextFault_quiet (s : Sys) (h : Quiet s) : nextFault s = ("", s) := by
  obtain ⟨h1, h2⟩ := h
  unfold nextFault popFault
  rw [h1]
  simp only
  cases s
  simp_all

theorem apiCreatePod_fresh (s : Sys) (jo : JobObj) (idx : PIndex) (retry : Int) (h : Quiet s)
    (hn : findPod s.pods (taskName jo.name idx.hash retry) = none) :
    apiCreatePod s jo idx retry =
      ({ s with rv := s.rv + 1, pods := s.pods ++ [newPod jo idx retry (nowT s)],
                podEvs := s.podEvs ++ [.upsert (newPod jo idx retry (nowT s))],
                calls := s.calls ++ [⟨"create", "pods", taskName jo.name idx.hash retry, "ok", false, false⟩] },
       .ok (newPod jo idx retry (nowT s))) := by
  unfold apiCreatePod
  rw [nextFault_quiet s h]
  simp only [isFailFault, hn, Option.isSome_none, Bool.false_eq_true, ↓reduceIte, log, newPod]
  simp

theorem apiCreatePod_taken (s : Sys) (jo : JobObj) (idx : PIndex) (retry : Int) (h : Quiet s) (p : PodObj)
    (hn : findPod s.pods (taskName jo.name idx.hash retry) = some p) :
    apiCreatePod s jo idx retry =
      ({ s with calls := s.calls ++ [⟨"create", "pods", taskName jo.name idx.hash retry, "exists", false, false⟩] },
       .exists) := by
  unfold apiCreatePod
  rw [nextFault_quiet s h]
  simp [isFailFault, hn, log]

/-- the version a successful status update of a pass writes -/
def written (jo : JobObj) (newJob : Job) (rv : Nat) : JobObj :=
  { jo with job := { jo.job with status := newJob.status }, rv := rv }

theorem apiUpdateJobStatus_fresh (s : Sys) (jo : JobObj) (newJob : Job) (h : Quiet s) (hj : s.job = some jo)
    (hne : newJob.status ≠ jo.job.status) :
    apiUpdateJobStatus s jo { jo with job := newJob } =
      ({ s with rv := s.rv + 1, job := some (written jo newJob (s.rv + 1)),
                jobEvs := s.jobEvs ++ [.upsert (written jo newJob (s.rv + 1))],
                calls := s.calls ++ [⟨"update", "jobs", jo.name, "ok", true, false⟩] }, true) := by
  unfold apiUpdateJobStatus
  rw [nextFault_quiet s h]
  have hno : ¬ ({ ({ jo with job := { jo.job with status := newJob.status }, rv := s.rv + 1 } : JobObj) with rv := jo.rv } = jo) := by
    intro e
    have := congrArg (fun j => j.job.status) e
    exact hne this
  simp only [isFailFault, hj, log, written]
  simp [hno]

/-! ### the pod a create makes -/

theorem podTask_newPod {now : Time} (jo : JobObj) (idx : PIndex) (retry : Int) (t : Time) :
    podTask now (newPod jo idx retry t) = some
      { name := taskName jo.name idx.hash retry,
        ref := { name := taskName jo.name idx.hash retry, creationTimestamp := some t,
                 status := { state := .starting, result := .none, reason := "" },
                 retryIndex := retry, parallelIndex := some idx },
        deletionTimestamp := none } := by
  rfl

/-- the task of the pod a create makes -/
def newTask (jo : JobObj) (idx : PIndex) (retry : Int) (t : Time) : Task :=
  { name := taskName jo.name idx.hash retry,
    ref := { name := taskName jo.name idx.hash retry, creationTimestamp := some t,
             status := { state := .starting, result := .none, reason := "" },
             retryIndex := retry, parallelIndex := some idx },
    deletionTimestamp := none }

/-! ### creation requests of a simple Job -/

theorem hashesIdx_single (d : PIndex) (h : String) : hashesIdx [d] h = 0 := by
  unfold hashesIdx hashesIdxFrom hashesIdxFrom
  split <;> rfl

/-- `ComputeMissingIndexesForCreation` of a simple Job: no request while a ref is active or succeeded or
`maxAttempts` retry numbers are used up; otherwise one request for the next retry number, not before
the latest finish time plus the retry delay -/
theorem computeMissing_simple (d : PIndex) (rj : Job) (h : SimpleSpec rj) :
    computeMissingIndexesForCreation d rj (rj.indexes d) = some (
      if rj.status.tasks.any refActiveOrSuccessful then []
      else if nextRetryIndex d rj.status.tasks d.hash ≥ rj.maxAttempts then []
      else [⟨d, nextRetryIndex d rj.status.tasks d.hash, latestFinishTime d rj.status.tasks d.hash + rj.retryDelay⟩]) := by
  rw [h.indexes d]
  unfold computeMissingIndexesForCreation
  simp only [List.isEmpty_cons, Bool.false_and, Bool.false_eq_true, ↓reduceIte, missingFrom, foundAt,
    hashesIdx_single, BEq.rfl, Bool.and_true]

/-- the request's earliest time has come (Go's zero time counts as unset) -/
def DueReq (clk : Int) (e : Time) : Prop := e = zeroTime ∨ e ≤ clk

instance (clk : Int) (e : Time) : Decidable (DueReq clk e) := by unfold DueReq; infer_instance

/-- the timer `syncCreateTasks` arms for the earliest request time -/
def armEarliest (s : Sys) (key : String) (e : Time) : Sys := if e = zeroTime then s else enqueueAfter s key e

theorem armEarliest_timersOnly (s : Sys) (key : String) (e : Time) : TimersOnly key s (armEarliest s key e) := by
  unfold armEarliest
  split
  · exact TimersOnly.refl key s
  · exact enqueueAfter_timersOnly s key e

/-! ### `syncCreateTasks`, case by case -/

theorem canCreate_simple {rj : Job} (h : SimpleSpec rj) : canCreateTask rj = true := by
  unfold canCreateTask; simp [h.kill, h.adm]

/-- the refreshed summary is complete: nothing is created; unrecorded tasks are adopted -/
theorem syncCreateTasks_complete (s : Sys) (jo : JobObj) (T : List Task) (h : SimpleSpec jo.job)
    (hc : (getParallelTaskSummary s.d jo.job (generateTaskRefs s.clock jo.job.status.tasks T)).complete = true) :
    syncCreateTasks s jo jo.job T = (s, some (jo.job, adoptUnrecordedTasks s jo T)) := by
  unfold syncCreateTasks
  simp [canCreate_simple h, hc]

/-- no pod of the cache is unrecorded: nothing to adopt -/
theorem adopt_none (s : Sys) (jo : JobObj) (T : List Task)
    (h : ∀ p ∈ s.podCache, p.pod.name ∈ refNames jo.job) : adoptUnrecordedTasks s jo T = T := by
  unfold adoptUnrecordedTasks
  have : (sortPods s.podCache).filter (fun p =>
      p.jobLabel = some jo.uid && !(T.any (·.name = p.pod.name)) &&
      !(jo.job.status.tasks.any (·.name = p.pod.name)) && p.ownerUid = some jo.uid) = [] := by
    apply List.filter_eq_nil_iff.mpr
    intro p hp
    have hp' : p ∈ s.podCache := (JobCtlPlan.mem_sortPods p s.podCache).mp hp
    obtain ⟨r, hr, hn⟩ := List.mem_map.mp (h p hp')
    have : jo.job.status.tasks.any (·.name = p.pod.name) = true :=
      List.any_eq_true.mpr ⟨r, hr, by simpa using hn⟩
    simp [this]
  simp only [this, List.filterMap_nil, List.append_nil]

/-- not complete, no creation request: the refs are refreshed, nothing else -/
theorem syncCreateTasks_noreq (s : Sys) (jo : JobObj) (T : List Task) (h : SimpleSpec jo.job)
    (hc : (getParallelTaskSummary s.d jo.job (generateTaskRefs s.clock jo.job.status.tasks T)).complete = false)
    (hreq : jo.job.status.tasks.any refActiveOrSuccessful = true ∨
      nextRetryIndex s.d jo.job.status.tasks s.d.hash ≥ jo.job.maxAttempts) :
    syncCreateTasks s jo jo.job T =
      ((updateTaskRefStatus s (jobKey jo) jo.job T).1, some ((updateTaskRefStatus s (jobKey jo) jo.job T).2, T)) := by
  unfold syncCreateTasks
  have hm := computeMissing_simple s.d jo.job h
  have : (if jo.job.status.tasks.any refActiveOrSuccessful then []
      else if nextRetryIndex s.d jo.job.status.tasks s.d.hash ≥ jo.job.maxAttempts then []
      else [(⟨s.d, nextRetryIndex s.d jo.job.status.tasks s.d.hash,
        latestFinishTime s.d jo.job.status.tasks s.d.hash + jo.job.retryDelay⟩ : CreationRequest)]) = [] := by
    rcases hreq with hx | hx
    · simp [hx]
    · simp [hx]
  rw [this] at hm
  simp only [canCreate_simple h, Bool.not_true, Bool.false_eq_true, ↓reduceIte, hc, hm, createLoop]

/-- the one request of a simple Job whose refs are all finished without success -/
def theReq (d : PIndex) (rj : Job) : CreationRequest :=
  ⟨d, nextRetryIndex d rj.status.tasks d.hash, latestFinishTime d rj.status.tasks d.hash + rj.retryDelay⟩

theorem reqs_single (d : PIndex) (rj : Job) (h : SimpleSpec rj)
    (hf : rj.status.tasks.any refActiveOrSuccessful = false)
    (hlt : nextRetryIndex d rj.status.tasks d.hash < rj.maxAttempts) :
    computeMissingIndexesForCreation d rj (rj.indexes d) = some [theReq d rj] := by
  rw [computeMissing_simple d rj h]
  have : ¬ nextRetryIndex d rj.status.tasks d.hash ≥ rj.maxAttempts := by omega
  simp [hf, this, theReq]

theorem minE_arm (s : Sys) (key : String) (e : Time) :
    (match (if e = zeroTime then (none : Option Time) else some e) with
      | some t => enqueueAfter s key t
      | none => s) = armEarliest s key e := by
  unfold armEarliest
  by_cases hz : e = zeroTime
  · simp only [hz, ↓reduceIte]
  · simp only [hz, ↓reduceIte]

/-- not complete, the request is not due: the timer for its earliest time is armed, the refs refreshed -/
theorem syncCreateTasks_notdue (s : Sys) (jo : JobObj) (T : List Task) (h : SimpleSpec jo.job)
    (hc : (getParallelTaskSummary s.d jo.job (generateTaskRefs s.clock jo.job.status.tasks T)).complete = false)
    (hf : jo.job.status.tasks.any refActiveOrSuccessful = false)
    (hlt : nextRetryIndex s.d jo.job.status.tasks s.d.hash < jo.job.maxAttempts)
    (hnd : ¬ DueReq s.clock (theReq s.d jo.job).earliest) :
    syncCreateTasks s jo jo.job T =
      ((updateTaskRefStatus (enqueueAfter s (jobKey jo) (theReq s.d jo.job).earliest) (jobKey jo) jo.job T).1,
       some ((updateTaskRefStatus (enqueueAfter s (jobKey jo) (theReq s.d jo.job).earliest) (jobKey jo) jo.job T).2, T)) := by
  unfold syncCreateTasks
  have hm := reqs_single s.d jo.job h hf hlt
  unfold DueReq at hnd
  have h1 : ¬ (theReq s.d jo.job).earliest = zeroTime := fun e => hnd (Or.inl e)
  have h2 : (theReq s.d jo.job).earliest > s.clock := by
    have : ¬ (theReq s.d jo.job).earliest ≤ s.clock := fun e => hnd (Or.inr e)
    exact Int.not_le.mp this
  simp only [canCreate_simple h, Bool.not_true, Bool.false_eq_true, ↓reduceIte, hc, hm, createLoop, h1,
    Option.isSome_some, h2, decide_true, Bool.and_self]

/-- the state right after the create call of a pass succeeded -/
def afterCreate (s : Sys) (jo : JobObj) (m : Int) : Sys :=
  { s with rv := s.rv + 1, pods := s.pods ++ [newPod jo s.d m (nowT s)],
           podEvs := s.podEvs ++ [.upsert (newPod jo s.d m (nowT s))],
           calls := s.calls ++ [⟨"create", "pods", taskName jo.name s.d.hash m, "ok", false, false⟩] }

/-- the state right after the create call of a pass was answered AlreadyExists -/
def afterExists (s : Sys) (jo : JobObj) (m : Int) : Sys :=
  { s with calls := s.calls ++ [⟨"create", "pods", taskName jo.name s.d.hash m, "exists", false, false⟩] }

theorem skip_false (s : Sys) (e : Time) (hdue : DueReq s.clock e) :
    ((if e = zeroTime then (none : Option Time) else some e).isSome && decide (e > s.clock)) = false := by
  rcases hdue with hz | hle
  · simp [hz]
  · have : ¬ e > s.clock := Int.not_lt.mpr hle
    simp [this]

/-- not complete, the request is due and the task name is free: the task is created and recorded -/
theorem syncCreateTasks_create (s : Sys) (jo : JobObj) (T : List Task) (h : SimpleSpec jo.job) (hq : Quiet s)
    (hc : (getParallelTaskSummary s.d jo.job (generateTaskRefs s.clock jo.job.status.tasks T)).complete = false)
    (hf : jo.job.status.tasks.any refActiveOrSuccessful = false)
    (hlt : nextRetryIndex s.d jo.job.status.tasks s.d.hash < jo.job.maxAttempts)
    (hdue : DueReq s.clock (theReq s.d jo.job).earliest)
    (hfree : findPod s.pods (taskName jo.name s.d.hash (theReq s.d jo.job).retryIndex) = none) :
    syncCreateTasks s jo jo.job T =
      ((updateTaskRefStatus (armEarliest (afterCreate s jo (theReq s.d jo.job).retryIndex) (jobKey jo)
          (theReq s.d jo.job).earliest) (jobKey jo) jo.job
          (T ++ [newTask jo s.d (theReq s.d jo.job).retryIndex (nowT s)])).1,
       some ((updateTaskRefStatus (armEarliest (afterCreate s jo (theReq s.d jo.job).retryIndex) (jobKey jo)
          (theReq s.d jo.job).earliest) (jobKey jo) jo.job
          (T ++ [newTask jo s.d (theReq s.d jo.job).retryIndex (nowT s)])).2,
         T ++ [newTask jo s.d (theReq s.d jo.job).retryIndex (nowT s)])) := by
  unfold syncCreateTasks
  have hm := reqs_single s.d jo.job h hf hlt
  have hcr := apiCreatePod_fresh s jo s.d (theReq s.d jo.job).retryIndex hq hfree
  have hidx : (theReq s.d jo.job).index = s.d := rfl
  have hskip := skip_false s _ hdue
  simp only [canCreate_simple h, Bool.not_true, Bool.false_eq_true, ↓reduceIte, hc, hm, createLoop, hskip,
    syncCreateTask, hidx]
  rw [hcr]
  simp only [podTask_newPod, Option.map_some, createLoop]
  by_cases hz : (theReq s.d jo.job).earliest = zeroTime
  · simp only [hz, ↓reduceIte, armEarliest, afterCreate, newTask]
  · simp only [hz, ↓reduceIte, armEarliest, afterCreate, newTask]

/-- not complete, the request is due and a task of the Job already has the name (created by a pass that
failed before recording it): AlreadyExists, the task is adopted and recorded -/
theorem syncCreateTasks_adopt (s : Sys) (jo : JobObj) (T : List Task) (h : SimpleSpec jo.job) (hq : Quiet s)
    (hc : (getParallelTaskSummary s.d jo.job (generateTaskRefs s.clock jo.job.status.tasks T)).complete = false)
    (hf : jo.job.status.tasks.any refActiveOrSuccessful = false)
    (hlt : nextRetryIndex s.d jo.job.status.tasks s.d.hash < jo.job.maxAttempts)
    (hdue : DueReq s.clock (theReq s.d jo.job).earliest) (p : PodObj) (t : Task)
    (htaken : findPod s.pods (taskName jo.name s.d.hash (theReq s.d jo.job).retryIndex) = some p)
    (hcache : s.podCache = s.pods) (hown : p.ownerUid = some jo.uid) (ht : podTask s.clock p = some t) :
    syncCreateTasks s jo jo.job T =
      ((updateTaskRefStatus (armEarliest (afterExists s jo (theReq s.d jo.job).retryIndex) (jobKey jo)
          (theReq s.d jo.job).earliest) (jobKey jo) jo.job (T ++ [t])).1,
       some ((updateTaskRefStatus (armEarliest (afterExists s jo (theReq s.d jo.job).retryIndex) (jobKey jo)
          (theReq s.d jo.job).earliest) (jobKey jo) jo.job (T ++ [t])).2, T ++ [t])) := by
  unfold syncCreateTasks
  have hm := reqs_single s.d jo.job h hf hlt
  have hcr := apiCreatePod_taken s jo s.d (theReq s.d jo.job).retryIndex hq p htaken
  have hidx : (theReq s.d jo.job).index = s.d := rfl
  have hskip := skip_false s _ hdue
  have hfind : findPod (afterExists s jo (theReq s.d jo.job).retryIndex).podCache
      (taskName jo.name s.d.hash (theReq s.d jo.job).retryIndex) = some p := by
    show findPod s.podCache _ = some p
    rw [hcache]; exact htaken
  simp only [canCreate_simple h, Bool.not_true, Bool.false_eq_true, ↓reduceIte, hc, hm, createLoop, hskip,
    syncCreateTask, hidx]
  rw [hcr]
  unfold afterExists at hfind
  simp only [hfind, hown, ↓reduceIte, ht, Option.map_some, createLoop]
  by_cases hz : (theReq s.d jo.job).earliest = zeroTime
  · simp only [hz, ↓reduceIte, armEarliest, afterExists]
  · simp only [hz, ↓reduceIte, armEarliest, afterExists]

end Furiko.JobCtl.Live
