/-
The walk through `Reconciler.sync` / `SyncOne` / `work`: the pass is a sequence of micro-steps
(`Micros`), and the Job value it writes is `JobLe`-above the cached one.  Core Lean only.
-/
import FurikoModel.Proofs.JobCtlInvMicro

set_option linter.unusedSimpArgs false
set_option linter.unusedVariables false

namespace Furiko.JobCtl
open Furiko Furiko.WQ

/-! ### generic folds -/

theorem foldl_frame {α : Type} {β : Type} (f : Sys × β → α → Sys × β)
    (hf : ∀ acc a, Frame acc.1 (f acc a).1) : ∀ (l : List α) (acc : Sys × β), Frame acc.1 (l.foldl f acc).1 := by
  intro l
  induction l with
  | nil => intro acc; exact Frame.refl _
  | cons a rest ih => intro acc; exact (hf acc a).trans (ih (f acc a))

theorem foldl_micros {jo : JobObj} {sp : Sys} {α : Type} {β : Type} (f : Sys × β → α → Sys × β)
    (hf : ∀ acc a, Micros jo sp acc.1 (f acc a).1) : ∀ (l : List α) (acc : Sys × β), Micros jo sp acc.1 (l.foldl f acc).1 := by
  intro l
  induction l with
  | nil => intro acc; exact Micros.refl _
  | cons a rest ih => intro acc; exact (hf acc a).trans (ih (f acc a))

/-! ### tasks found for the recorded refs -/

theorem liveGetTask_owned {s : Sys} {jo : JobObj} {n : String} {t : Task} (h : liveGetTask s jo n = some t) :
    ∃ p, findPod s.pods n = some p ∧ podTask s.clock p = some t ∧ p.ownerUid = some jo.uid := by
  unfold liveGetTask isControlledByJob at h
  cases hp : findPod s.pods n with
  | none => simp [hp] at h
  | some p =>
    simp only [hp] at h
    by_cases ho : p.ownerUid = some jo.uid
    · simp only [ho, decide_true, Bool.not_true, Bool.false_eq_true, ↓reduceIte] at h
      exact ⟨p, rfl, h, ho⟩
    · simp [ho] at h

theorem liveGetTask_some {s : Sys} {jo : JobObj} {n : String} {t : Task} (h : liveGetTask s jo n = some t) :
    ∃ p, findPod s.pods n = some p ∧ podTask s.clock p = some t := by
  obtain ⟨p, h1, h2, _⟩ := liveGetTask_owned h
  exact ⟨p, h1, h2⟩

/-- where the task `getTaskForRef` returns comes from: a pod of the pod cache or of the server that
carries the ref's name and is CONTROLLED BY THE JOB (repair of F22) -/
theorem getTaskForRef_owned {s : Sys} {jo : JobObj} {ref : TaskRef} {t : Task} (h : getTaskForRef s jo ref = some t) :
    ∃ p, (findPod s.podCache ref.name = some p ∨ findPod s.pods ref.name = some p) ∧ podTask s.clock p = some t ∧
      p.ownerUid = some jo.uid := by
  unfold getTaskForRef isControlledByJob at h
  cases hc : findPod s.podCache ref.name with
  | some p =>
    simp only [hc] at h
    by_cases ho : p.ownerUid = some jo.uid
    · simp only [ho, decide_true, Bool.not_true, Bool.false_eq_true, ↓reduceIte] at h
      cases hpt : podTask s.clock p with
      | none => simp [hpt] at h
      | some t0 =>
        simp only [hpt] at h
        split at h
        · simp only [Option.some.injEq] at h; subst h; exact ⟨p, Or.inl rfl, hpt, ho⟩
        · obtain ⟨q, hq, hqt, hqo⟩ := liveGetTask_owned h
          exact ⟨q, Or.inr hq, hqt, hqo⟩
    · simp only [ho, decide_false, Bool.not_false, ↓reduceIte] at h
      split at h
      · cases h
      · obtain ⟨q, hq, hqt, hqo⟩ := liveGetTask_owned h
        exact ⟨q, Or.inr hq, hqt, hqo⟩
  | none =>
    simp only [hc] at h
    split at h
    · cases h
    · obtain ⟨q, hq, hqt, hqo⟩ := liveGetTask_owned h
      exact ⟨q, Or.inr hq, hqt, hqo⟩

theorem getTaskForRef_src {s : Sys} {jo : JobObj} {ref : TaskRef} {t : Task} (h : getTaskForRef s jo ref = some t) :
    ∃ p, (findPod s.podCache ref.name = some p ∨ findPod s.pods ref.name = some p) ∧ podTask s.clock p = some t := by
  obtain ⟨p, h1, h2, _⟩ := getTaskForRef_owned h
  exact ⟨p, h1, h2⟩

theorem getTaskForRef_ok {s : Sys} {jo : JobObj} {ref : TaskRef} {t : Task} (h : getTaskForRef s jo ref = some t) :
    TaskOK t ∧ t.name = ref.name := by
  obtain ⟨p, hp, hpt⟩ := getTaskForRef_src h
  have := podTask_ok hpt
  rcases hp with hp | hp
  · exact ⟨this.1, this.2.trans (findPod_some hp).2⟩
  · exact ⟨this.1, this.2.trans (findPod_some hp).2⟩

theorem tasksForRefs_ok (s : Sys) (jo : JobObj) (refs : List TaskRef) : ∀ t ∈ tasksForRefs s jo refs, TaskOK t := by
  intro t ht
  unfold tasksForRefs at ht
  obtain ⟨r, _, hr⟩ := List.mem_filterMap.mp ht
  exact (getTaskForRef_ok hr).1

theorem getTaskForRefConfirmed_owned {s : Sys} {jo : JobObj} {ref : TaskRef} {t : Task}
    (h : getTaskForRefConfirmed s jo ref = some t) :
    ∃ p, (findPod s.podCache ref.name = some p ∨ findPod s.pods ref.name = some p) ∧ podTask s.clock p = some t ∧
      p.ownerUid = some jo.uid := by
  unfold getTaskForRefConfirmed at h
  cases hg : getTaskForRef s jo ref with
  | some t0 =>
    simp only [hg, Option.some.injEq] at h
    subst h
    exact getTaskForRef_owned hg
  | none =>
    simp only [hg] at h
    obtain ⟨q, hq, hqt, hqo⟩ := liveGetTask_owned h
    exact ⟨q, Or.inr hq, hqt, hqo⟩

theorem getTaskForRefConfirmed_src {s : Sys} {jo : JobObj} {ref : TaskRef} {t : Task}
    (h : getTaskForRefConfirmed s jo ref = some t) :
    ∃ p, (findPod s.podCache ref.name = some p ∨ findPod s.pods ref.name = some p) ∧ podTask s.clock p = some t := by
  obtain ⟨p, h1, h2, _⟩ := getTaskForRefConfirmed_owned h
  exact ⟨p, h1, h2⟩

theorem getTaskForRefConfirmed_ok {s : Sys} {jo : JobObj} {ref : TaskRef} {t : Task}
    (h : getTaskForRefConfirmed s jo ref = some t) :
    TaskOK t ∧ t.name = ref.name := by
  obtain ⟨p, hp, hpt⟩ := getTaskForRefConfirmed_src h
  have := podTask_ok hpt
  rcases hp with hp | hp
  · exact ⟨this.1, this.2.trans (findPod_some hp).2⟩
  · exact ⟨this.1, this.2.trans (findPod_some hp).2⟩

theorem tasksForRefsConfirmed_ok (s : Sys) (jo : JobObj) (refs : List TaskRef) :
    ∀ t ∈ tasksForRefsConfirmed s jo refs, TaskOK t := by
  intro t ht
  unfold tasksForRefsConfirmed at ht
  obtain ⟨r, _, hr⟩ := List.mem_filterMap.mp ht
  exact (getTaskForRefConfirmed_ok hr).1

theorem adoptUnrecordedTasks_ok (s : Sys) (jo : JobObj) (tasks : List Task) (ht : ∀ t ∈ tasks, TaskOK t) :
    ∀ t ∈ adoptUnrecordedTasks s jo tasks, TaskOK t := by
  intro t hm
  unfold adoptUnrecordedTasks at hm
  rcases List.mem_append.mp hm with h | h
  · exact ht t h
  · obtain ⟨p, _, hp⟩ := List.mem_filterMap.mp h
    exact (podTask_ok hp).1

theorem finalizerTasks_ok (s : Sys) (jo : JobObj) (rj : Job) : ∀ t ∈ finalizerTasks s jo rj, TaskOK t := by
  unfold finalizerTasks
  exact adoptUnrecordedTasks_ok s _ _ (tasksForRefsConfirmed_ok s jo rj.status.tasks)

/-! ### status recomputation -/

theorem syncJobStatusFromTaskRefs_spec (s : Sys) (key : String) (rj : Job) :
    Frame s (syncJobStatusFromTaskRefs s key rj).1 ∧ JobLe rj (syncJobStatusFromTaskRefs s key rj).2 := by
  unfold syncJobStatusFromTaskRefs
  cases h : updateJobStatusFromTaskRefs s.clock s.d rj with
  | none => exact ⟨Frame.refl s, JobLe.refl rj⟩
  | some newRj =>
    have hle := updateJobStatusFromTaskRefs_le h
    (try simp only)
    split
    · split
      · split
        · exact ⟨enqueueAfter_frame _ _ _, hle⟩
        · exact ⟨Frame.refl s, hle⟩
      · exact ⟨Frame.refl s, hle⟩
    · exact ⟨Frame.refl s, hle⟩

theorem updateTaskRefStatus_spec (s : Sys) (key : String) (rj : Job) (tasks : List Task)
    (ht : ∀ t ∈ tasks, TaskOK t) :
    Frame s (updateTaskRefStatus s key rj tasks).1 ∧ JobLe rj (updateTaskRefStatus s key rj tasks).2 := by
  unfold updateTaskRefStatus
  have := syncJobStatusFromTaskRefs_spec s key (updateJobTaskRefs s.clock rj tasks)
  exact ⟨this.1, (updateJobTaskRefs_le s.clock rj tasks ht).trans this.2⟩

/-! ### task creation -/

/-- result of a step that may fail: when it succeeds the Job is `JobLe`-above and the tasks are fine -/
def OutOK (rj : Job) (o : Option (Job × List Task)) : Prop :=
  ∀ rj1 tasks1, o = some (rj1, tasks1) → JobLe rj rj1 ∧ ∀ t ∈ tasks1, TaskOK t

theorem syncCreateTask_spec (s : Sys) (jo : JobObj) (sp : Sys) (rj : Job) (tasks : List Task) (idx : PIndex) (retry : Int)
    (hreq : CreateReq s.d jo idx retry) (ht : ∀ t ∈ tasks, TaskOK t)
    (hsup : CreatePhase sp s) :
    Micros jo sp s (syncCreateTask s jo rj tasks idx retry).1 ∧
    OutOK rj (syncCreateTask s jo rj tasks idx retry).2 := by
  unfold syncCreateTask
  have hm : Micro jo sp s (apiCreatePod s jo idx retry).1 := .create s idx retry hreq hsup
  generalize apiCreatePod s jo idx retry = r at hm ⊢
  obtain ⟨s1, res⟩ := r
  have tasks_app : ∀ (p : PodObj) (t : Task), podTask s.clock p = some t → ∀ x ∈ tasks ++ [t], TaskOK x := by
    intro p t hp x hx
    rcases List.mem_append.mp hx with h | h
    · exact ht x h
    · simp only [List.mem_singleton] at h; subst h; exact (podTask_ok hp).1
  cases res with
  | ok p =>
    (try simp only)
    refine ⟨.single hm, ?_⟩
    intro rj1 tasks1 h
    cases hp : podTask s.clock p with
    | none => simp [hp] at h
    | some t =>
      simp only [hp, Option.map_some, Option.some.injEq, Prod.mk.injEq] at h
      obtain ⟨rfl, rfl⟩ := h
      exact ⟨JobLe.refl _, tasks_app p t hp⟩
  | err => (try simp only); exact ⟨.single hm, by intro _ _ h; cases h⟩
  | «exists» =>
    (try simp only)
    cases hc : findPod s1.podCache (taskName jo.name idx.hash retry) with
    | none => (try simp only); exact ⟨.single hm, by intro _ _ h; cases h⟩
    | some p =>
      (try simp only)
      split
      · refine ⟨.single hm, ?_⟩
        intro rj1 tasks1 h
        cases hp : podTask s.clock p with
        | none => simp [hp] at h
        | some t =>
          simp only [hp, Option.map_some, Option.some.injEq, Prod.mk.injEq] at h
          obtain ⟨rfl, rfl⟩ := h
          exact ⟨JobLe.refl _, tasks_app p t hp⟩
      · refine ⟨.single hm, ?_⟩
        intro rj1 tasks1 h
        simp only [Option.some.injEq, Prod.mk.injEq] at h
        obtain ⟨rfl, rfl⟩ := h
        exact ⟨adm_le rj, ht⟩

theorem syncCreateTask_fst (s : Sys) (jo : JobObj) (rj : Job) (tasks : List Task) (idx : PIndex) (retry : Int) :
    (syncCreateTask s jo rj tasks idx retry).1 = (apiCreatePod s jo idx retry).1 := by
  unfold syncCreateTask
  generalize apiCreatePod s jo idx retry = r
  obtain ⟨s1, res⟩ := r
  cases res with
  | ok p => rfl
  | err => rfl
  | «exists» =>
    simp only
    split
    · rfl
    · split <;> rfl

def OutOK3 (rj : Job) (o : Option (Job × List Task × Option Time)) : Prop :=
  ∀ rj1 tasks1 m, o = some (rj1, tasks1, m) → JobLe rj rj1 ∧ ∀ t ∈ tasks1, TaskOK t

/-- `minEarliest` after request `r` -/
def nextMinE (r : CreationRequest) (minE : Option Time) : Option Time :=
  match (if r.earliest = zeroTime then none else some r.earliest : Option Time), minE with
  | none, m => m
  | some a, none => some a
  | some a, some b => some (if b < a then b else a)

/-- the request is not yet due -/
def skipReq (r : CreationRequest) (s : Sys) : Bool :=
  (if r.earliest = zeroTime then none else some r.earliest : Option Time).isSome && decide (r.earliest > s.clock)

theorem createLoop_cons (jo : JobObj) (r : CreationRequest) (rest : List CreationRequest) (s : Sys) (rj : Job)
    (tasks : List Task) (minE : Option Time) :
    createLoop jo (r :: rest) s rj tasks minE =
      if skipReq r s = true then createLoop jo rest s rj tasks (nextMinE r minE)
      else match syncCreateTask s jo rj tasks r.index r.retryIndex with
        | (s1, none) => (s1, none)
        | (s1, some (rj1, tasks1)) => createLoop jo rest s1 rj1 tasks1 (nextMinE r minE) := by
  conv => lhs; unfold createLoop
  rfl

theorem createLoop_spec (jo : JobObj) (sp : Sys) (d : PIndex) : ∀ (reqs : List CreationRequest) (s : Sys) (rj : Job)
    (tasks : List Task) (minE : Option Time), s.d = d → CreatePhase sp s →
    (∀ r ∈ reqs, CreateReq d jo r.index r.retryIndex) → (∀ t ∈ tasks, TaskOK t) →
    Micros jo sp s (createLoop jo reqs s rj tasks minE).1 ∧ OutOK3 rj (createLoop jo reqs s rj tasks minE).2 := by
  intro reqs
  induction reqs with
  | nil =>
    intro s rj tasks minE _ _ _ ht
    unfold createLoop
    refine ⟨.refl s, ?_⟩
    intro rj1 tasks1 m h
    simp only [Option.some.injEq, Prod.mk.injEq] at h
    obtain ⟨rfl, rfl, _⟩ := h
    exact ⟨JobLe.refl _, ht⟩
  | cons r rest ih =>
    intro s rj tasks minE hd hsup hreq ht
    rw [createLoop_cons]
    by_cases hsk : skipReq r s = true
    · rw [if_pos hsk]
      exact ih s rj tasks _ hd hsup (fun x hx => hreq x (List.mem_cons_of_mem _ hx)) ht
    · rw [if_neg hsk]
      have h1 := syncCreateTask_spec s jo sp rj tasks r.index r.retryIndex
        (by rw [hd]; exact hreq r (List.mem_cons_self)) ht hsup
      have hsup1 : CreatePhase sp (syncCreateTask s jo rj tasks r.index r.retryIndex).1 := by
        rw [syncCreateTask_fst]
        exact apiCreatePod_createPhase hsup jo _ _
      generalize syncCreateTask s jo rj tasks r.index r.retryIndex = res at h1 hsup1 ⊢
      obtain ⟨s1, o⟩ := res
      cases o with
      | none => exact ⟨h1.1, by intro _ _ _ h; cases h⟩
      | some v =>
        obtain ⟨rj1, tasks1⟩ := v
        obtain ⟨hle, ht1⟩ := h1.2 rj1 tasks1 rfl
        have h2 := ih s1 rj1 tasks1 (nextMinE r minE) (h1.1.static.d.trans hd) hsup1
          (fun x hx => hreq x (List.mem_cons_of_mem _ hx)) ht1
        refine ⟨h1.1.trans h2.1, ?_⟩
        intro rj2 tasks2 m h
        obtain ⟨hle2, ht2⟩ := h2.2 rj2 tasks2 m h
        exact ⟨hle.trans hle2, ht2⟩

theorem syncCreateTasks_spec (s : Sys) (jo : JobObj) (sp : Sys) (tasks : List Task)
    (hst : isStarted jo.job = true) (hdel : isDeleted jo.job = false) (ht : ∀ t ∈ tasks, TaskOK t)
    (hsup : CreatePhase sp s) :
    Micros jo sp s (syncCreateTasks s jo jo.job tasks).1 ∧ OutOK jo.job (syncCreateTasks s jo jo.job tasks).2 := by
  unfold syncCreateTasks
  by_cases hcan : canCreateTask jo.job = true
  · simp only [hcan, Bool.not_true, Bool.false_eq_true, ↓reduceIte]
    split
    · refine ⟨.refl s, ?_⟩
      intro rj1 tasks1 h
      simp only [Option.some.injEq, Prod.mk.injEq] at h
      obtain ⟨rfl, rfl⟩ := h
      exact ⟨JobLe.refl _, adoptUnrecordedTasks_ok s jo tasks ht⟩
    · cases hreqs : computeMissingIndexesForCreation s.d jo.job (jo.job.indexes s.d) with
      | none => (try simp only); exact ⟨.refl s, by intro _ _ h; cases h⟩
      | some reqs =>
        (try simp only)
        have h1 := createLoop_spec jo sp s.d reqs s jo.job tasks none rfl hsup
          (fun r hr => ⟨hst, hdel, hcan, reqs, r.earliest, hreqs, hr⟩) ht
        generalize createLoop jo reqs s jo.job tasks none = res at h1 ⊢
        obtain ⟨s1, o⟩ := res
        cases o with
        | none => (try simp only); exact ⟨h1.1, by intro _ _ h; cases h⟩
        | some v =>
          obtain ⟨rj1, tasks1, minE⟩ := v
          (try simp only)
          obtain ⟨hle, ht1⟩ := h1.2 rj1 tasks1 minE rfl
          have fin : ∀ s2, Frame s1 s2 →
              Micros jo sp s (updateTaskRefStatus s2 (jobKey jo) rj1 tasks1).1 ∧
              OutOK jo.job (some ((updateTaskRefStatus s2 (jobKey jo) rj1 tasks1).2, tasks1)) := by
            intro s2 hfr
            have h3 := updateTaskRefStatus_spec s2 (jobKey jo) rj1 tasks1 ht1
            refine ⟨(h1.1.trans (.frame hfr)).trans (.frame h3.1), ?_⟩
            intro rj' tasks' h
            simp only [Option.some.injEq, Prod.mk.injEq] at h
            obtain ⟨rfl, rfl⟩ := h
            exact ⟨hle.trans h3.2, ht1⟩
          cases minE with
          | none => exact fin s1 (Frame.refl _)
          | some t => exact fin _ (enqueueAfter_frame _ _ _)
  · simp only [hcan, Bool.not_false, ↓reduceIte]
    refine ⟨.refl s, ?_⟩
    intro rj1 tasks1 h
    simp only [Option.some.injEq, Prod.mk.injEq] at h
    obtain ⟨rfl, rfl⟩ := h
    exact ⟨JobLe.refl _, adoptUnrecordedTasks_ok s jo tasks ht⟩

/-! ### deletes -/

theorem deleteTasks_micros (jo : JobObj) (sp : Sys) (s : Sys) (tasks : List Task) (force : Bool) :
    Micros jo sp s (deleteTasks s tasks force).1 := by
  unfold deleteTasks
  (try simp only)
  refine foldl_micros (jo := jo) (sp := sp) _ ?_ _ (s, true)
  intro acc n
  exact .single (.delPod acc.1 n force)

/-- result of a handler that may fail -/
def OutLe (rj : Job) (o : Option Job) : Prop := ∀ rj1, o = some rj1 → JobLe rj rj1

theorem ite_some_none_le {rj newRj : Job} (ok : Bool) (h : JobLe rj newRj) :
    OutLe rj (if ok = true then some newRj else none) := by
  intro rj1 h1
  cases ok with
  | true => simp only [↓reduceIte, Option.some.injEq] at h1; subst h1; exact h
  | false => simp at h1

theorem handlePendingTasks_spec (s : Sys) (jo : JobObj) (sp : Sys) (rj : Job) (tasks : List Task) :
    Micros jo sp s (handlePendingTasks s jo rj tasks).1 ∧ OutLe rj (handlePendingTasks s jo rj tasks).2 := by
  unfold handlePendingTasks
  cases getPendingTimeout rj s.cfg with
  | none => exact ⟨.refl s, by intro _ h; cases h; exact JobLe.refl _⟩
  | some pt =>
    (try simp only)
    split
    · exact ⟨.refl s, by intro _ h; cases h; exact JobLe.refl _⟩
    · generalize hr : List.foldl _ (s, ([] : List Task)) tasks = r
      have hfold : Frame s r.1 := by
        rw [← hr]
        refine foldl_frame _ ?_ tasks (s, [])
        intro acc t
        (try simp only)
        split
        · exact Frame.refl _
        · split
          · exact Frame.refl _
          · split
            · exact enqueueAfter_frame _ _ _
            · split
              · exact Frame.refl _
              · exact Frame.refl _
      clear hr
      obtain ⟨s1, needDelete⟩ := r
      (try simp only at hfold ⊢)
      split
      · exact ⟨.frame hfold, by intro _ h; cases h; exact JobLe.refl _⟩
      · have hd := deleteTasks_micros jo sp s1 needDelete false
        generalize deleteTasks s1 needDelete false = r2 at hd ⊢
        obtain ⟨s2, ok⟩ := r2
        (try simp only)
        exact ⟨(Micros.frame hfold).trans hd, ite_some_none_le ok (markDeleted_le rj _ _ (fun r => rfl))⟩

theorem handleKillJob_spec (s : Sys) (jo : JobObj) (sp : Sys) (rj : Job) (tasks : List Task) :
    Micros jo sp s (handleKillJob s jo rj tasks).1 ∧ OutLe rj (handleKillJob s jo rj tasks).2 := by
  unfold handleKillJob
  split
  · split
    · exact ⟨.frame (enqueueAfter_frame _ _ _), by intro _ h; cases h; exact JobLe.refl _⟩
    · exact ⟨.refl s, by intro _ h; cases h; exact JobLe.refl _⟩
  · (try simp only)
    split
    · exact ⟨.refl s, by intro _ h; cases h; exact JobLe.refl _⟩
    · have hd := deleteTasks_micros jo sp s
        (tasks.filter (fun t => !isTaskFinished t && t.deletionTimestamp.isNone)) false
      generalize deleteTasks s (tasks.filter (fun t => !isTaskFinished t && t.deletionTimestamp.isNone)) false = r2 at hd ⊢
      obtain ⟨s2, ok⟩ := r2
      (try simp only)
      exact ⟨hd, ite_some_none_le ok (markDeleted_le rj _ _ (fun r => rfl))⟩

theorem handleForceDelete_spec (s : Sys) (jo : JobObj) (sp : Sys) (rj : Job) (tasks : List Task)
    (ht : ∀ t ∈ tasks, TaskOK t) :
    Micros jo sp s (handleForceDelete s jo rj tasks).1 ∧ OutLe rj (handleForceDelete s jo rj tasks).2 := by
  unfold handleForceDelete
  (try simp only)
  split
  · exact ⟨.refl s, by intro _ h; cases h; exact JobLe.refl _⟩
  · split
    · exact ⟨.refl s, by intro _ h; cases h; exact JobLe.refl _⟩
    · generalize hr : List.foldl _ (s, ([] : List Task)) tasks = r
      have hfold : Frame s r.1 := by
        rw [← hr]
        refine foldl_frame _ ?_ tasks (s, [])
        intro acc t
        (try simp only)
        split
        · exact Frame.refl _
        · split
          · exact Frame.refl _
          · exact enqueueAfter_frame _ _ _
      clear hr
      obtain ⟨s1, needDelete⟩ := r
      (try simp only at hfold ⊢)
      split
      · exact ⟨.frame hfold, by intro _ h; cases h; exact JobLe.refl _⟩
      · have hd := deleteTasks_micros jo sp s1 needDelete true
        generalize deleteTasks s1 needDelete true = r2 at hd ⊢
        obtain ⟨s2, ok⟩ := r2
        (try simp only)
        refine ⟨(Micros.frame hfold).trans hd, ite_some_none_le ok ?_⟩
        refine JobLe.trans (b := markDeleted rj _ _) ?_ (updateJobTaskRefs_le _ _ _ ht)
        apply markDeleted_le
        intro r; rfl

/-! ### `syncJobTasks`, TTL, finalizer, `sync` -/

theorem syncJobTasks_spec (s : Sys) (jo : JobObj) (sp : Sys)
    (hst : isStarted jo.job = true) (hdel : isDeleted jo.job = false)
    (hsup : CreatePhase sp s) :
    Micros jo sp s (syncJobTasks s jo jo.job).1 ∧ OutLe jo.job (syncJobTasks s jo jo.job).2 := by
  unfold syncJobTasks
  (try simp only)
  have h1 := syncCreateTasks_spec s jo sp (tasksForRefs s jo jo.job.status.tasks) hst hdel (tasksForRefs_ok s jo _) hsup
  generalize syncCreateTasks s jo jo.job (tasksForRefs s jo jo.job.status.tasks) = r1 at h1 ⊢
  obtain ⟨s1, o1⟩ := r1
  cases o1 with
  | none => (try simp only); exact ⟨h1.1, by intro _ h; cases h⟩
  | some v =>
    obtain ⟨rj1, tasks1⟩ := v
    obtain ⟨hle1, ht1⟩ := h1.2 rj1 tasks1 rfl
    (try simp only)
    have h2 := updateTaskRefStatus_spec s1 (jobKey jo) rj1 tasks1 ht1
    generalize updateTaskRefStatus s1 (jobKey jo) rj1 tasks1 = r2 at h2 ⊢
    obtain ⟨s2, rj2⟩ := r2
    (try simp only)
    have h3 := handlePendingTasks_spec s2 jo sp rj2 tasks1
    generalize handlePendingTasks s2 jo rj2 tasks1 = r3 at h3 ⊢
    obtain ⟨s3, o3⟩ := r3
    have m3 : Micros jo sp s s3 := (h1.1.trans (.frame h2.1)).trans h3.1
    cases o3 with
    | none => (try simp only); exact ⟨m3, by intro _ h; cases h⟩
    | some rj3 =>
      (try simp only)
      have hle3 : JobLe jo.job rj3 := (hle1.trans h2.2).trans (h3.2 rj3 rfl)
      have h4 := handleKillJob_spec s3 jo sp rj3 tasks1
      generalize handleKillJob s3 jo rj3 tasks1 = r4 at h4 ⊢
      obtain ⟨s4, o4⟩ := r4
      cases o4 with
      | none => (try simp only); exact ⟨m3.trans h4.1, by intro _ h; cases h⟩
      | some rj4 =>
        (try simp only)
        have h5 := handleForceDelete_spec s4 jo sp rj4 tasks1 ht1
        generalize handleForceDelete s4 jo rj4 tasks1 = r5 at h5 ⊢
        obtain ⟨s5, o5⟩ := r5
        cases o5 with
        | none => (try simp only); exact ⟨(m3.trans h4.1).trans h5.1, by intro _ h; cases h⟩
        | some rj5 =>
          (try simp only)
          have h6 := updateTaskRefStatus_spec s5 (jobKey jo) rj5 tasks1 ht1
          generalize updateTaskRefStatus s5 (jobKey jo) rj5 tasks1 = r6 at h6 ⊢
          obtain ⟨s6, rj6⟩ := r6
          (try simp only)
          refine ⟨((m3.trans h4.1).trans h5.1).trans (.frame h6.1), ?_⟩
          intro rj' h
          simp only [Option.some.injEq] at h
          subst h
          exact ((hle3.trans (h4.2 rj4 rfl)).trans (h5.2 rj5 rfl)).trans h6.2

theorem handleTTL_micros (s : Sys) (jo : JobObj) (sp : Sys) (rj : Job) : Micros jo sp s (handleTTL s jo rj).1 := by
  unfold handleTTL
  (try simp only)
  split
  · exact .refl s
  · split
    · exact .refl s
    · split
      · exact .frame (enqueueAfter_frame _ _ _)
      · exact .single (.delJob s)

theorem handleFinalizer_spec (s : Sys) (jo : JobObj) (sp : Sys) (rj : Job) (fin : Bool) :
    Micros jo sp s (handleFinalizer s jo rj fin).1 ∧
    ∀ rj1 fin1, (handleFinalizer s jo rj fin).2 = some (rj1, fin1) → JobLe rj rj1 := by
  unfold handleFinalizer
  split
  · exact ⟨.refl s, by intro _ _ h; cases h; exact JobLe.refl _⟩
  · split
    · exact ⟨.refl s, by intro _ _ h; cases h; exact JobLe.refl _⟩
    · (try simp only)
      split
      · have ht := finalizerTasks_ok s jo rj
        have h1 := updateTaskRefStatus_spec s (jobKey jo)
          ((finalizerTasks s jo rj).foldl (fun acc t => updateTaskRefDeletedStatusIfNotSet acc t.name
            { state := .terminated, result := .killed, reason := "JobDeleted" }) rj)
          (finalizerTasks s jo rj) ht
        generalize updateTaskRefStatus s (jobKey jo) _ (finalizerTasks s jo rj) = r1 at h1 ⊢
        obtain ⟨s1, rj2⟩ := r1
        (try simp only)
        have hd := deleteTasks_micros jo sp s1 (finalizerTasks s jo rj) false
        generalize deleteTasks s1 (finalizerTasks s jo rj) false = r2 at hd ⊢
        obtain ⟨s2, ok⟩ := r2
        (try simp only)
        refine ⟨(Micros.frame h1.1).trans hd, ?_⟩
        intro rj1 fin1 h
        cases ok with
        | false => simp at h
        | true =>
          simp only [↓reduceIte, Option.some.injEq, Prod.mk.injEq] at h
          obtain ⟨rfl, _⟩ := h
          exact (foldl_deletedStatus_le _ _ rj).trans h1.2
      · have h1 := updateTaskRefStatus_spec s (jobKey jo) rj [] (by intro t ht; cases ht)
        generalize updateTaskRefStatus s (jobKey jo) rj [] = r1 at h1 ⊢
        obtain ⟨s1, rj1⟩ := r1
        (try simp only)
        refine ⟨.frame h1.1, ?_⟩
        intro rj' fin' h
        simp only [Option.some.injEq, Prod.mk.injEq] at h
        obtain ⟨rfl, _⟩ := h
        exact h1.2

theorem sync_spec (s : Sys) (jo : JobObj) (sp : Sys) (hsup : CreatePhase sp s) :
    Micros jo sp s (sync s jo).1 ∧ JobLe jo.job (sync s jo).2.1 := by
  unfold sync
  (try simp only)
  have h1 : Micros jo sp s (if (isStarted jo.job && !isDeleted jo.job) = true then syncJobTasks s jo jo.job
      else (s, some jo.job)).1 ∧
      OutLe jo.job (if (isStarted jo.job && !isDeleted jo.job) = true then syncJobTasks s jo jo.job
      else (s, some jo.job)).2 := by
    split
    · rename_i hc
      simp only [Bool.and_eq_true, Bool.not_eq_true'] at hc
      exact syncJobTasks_spec s jo sp hc.1 hc.2 hsup
    · exact ⟨.refl s, by intro _ h; cases h; exact JobLe.refl _⟩
  generalize (if (isStarted jo.job && !isDeleted jo.job) = true then syncJobTasks s jo jo.job
      else (s, some jo.job)) = r1 at h1 ⊢
  obtain ⟨s1, o1⟩ := r1
  cases o1 with
  | none => (try simp only); exact ⟨h1.1, JobLe.refl _⟩
  | some rj1 =>
    (try simp only)
    have hle1 := h1.2 rj1 rfl
    have h2 := syncJobStatusFromTaskRefs_spec s1 (jobKey jo) rj1
    generalize syncJobStatusFromTaskRefs s1 (jobKey jo) rj1 = r2 at h2 ⊢
    obtain ⟨s2, rj2⟩ := r2
    (try simp only)
    have h3 := handleTTL_micros s2 jo sp rj2
    generalize handleTTL s2 jo rj2 = r3 at h3 ⊢
    obtain ⟨s3, ok3⟩ := r3
    have m3 : Micros jo sp s s3 := (h1.1.trans (.frame h2.1)).trans h3
    have hle2 : JobLe jo.job rj2 := hle1.trans h2.2
    cases ok3 with
    | false => (try simp only); exact ⟨m3, hle2⟩
    | true =>
      (try simp only)
      have h4 := handleFinalizer_spec s3 jo sp rj2 jo.finalizer
      generalize handleFinalizer s3 jo rj2 jo.finalizer = r4 at h4 ⊢
      obtain ⟨s4, o4⟩ := r4
      cases o4 with
      | none => (try simp only); exact ⟨m3.trans h4.1, hle2⟩
      | some v =>
        obtain ⟨rj3, fin⟩ := v
        (try simp only)
        exact ⟨m3.trans h4.1, hle2.trans (h4.2 rj3 fin rfl)⟩

/-! ### `SyncOne`, `work` -/

theorem syncOne_micros (s : Sys) (jo : JobObj) (hc : s.jobCache = some jo) : Micros jo s s (syncOne s).1 := by
  unfold syncOne
  simp only [hc]
  have h1 := (sync_spec s jo s (CreatePhase.refl _)).1
  generalize hs : sync s jo = r1 at h1 ⊢
  obtain ⟨s1, newJob, newFin, syncOk, nullTime⟩ := r1
  have e0 : s1 = (sync s jo).1 := by rw [hs]
  have e1 : newJob = (sync s jo).2.1 := by rw [hs]
  have e2 : newFin = (sync s jo).2.2.1 := by rw [hs]
  simp only at h1 ⊢
  by_cases hsd : (newJob.admissionError ≠ jo.job.admissionError || newFin ≠ jo.finalizer) = true
  · -- metadata differ: `Update`, then the status write on top of the object it returned
    simp only [hsd, ↓reduceIte, statusBase]
    have h2 : Micros jo s s1 (apiUpdateJob s1 jo { jo with job := newJob, finalizer := newFin }).1 := by
      rw [e1, e2]; exact .single (.updJob s1 e0)
    have hokeq : ∀ b, (apiUpdateJob s1 jo { jo with job := newJob, finalizer := newFin }).2 = b →
        (apiUpdateJob s1 jo { jo with job := (sync s jo).2.1, finalizer := (sync s jo).2.2.1 }).2 = b := by
      intro b hb; rw [← e1, ← e2]; exact hb
    have hseq : (apiUpdateJob s1 jo { jo with job := newJob, finalizer := newFin }).1 =
        (apiUpdateJob s1 jo { jo with job := (sync s jo).2.1, finalizer := (sync s jo).2.2.1 }).1 := by
      rw [← e1, ← e2]
    generalize hr2 : apiUpdateJob s1 jo { jo with job := newJob, finalizer := newFin } = r2 at h2 hokeq hseq ⊢
    obtain ⟨s2, ok1⟩ := r2
    simp only at h2 hokeq hseq ⊢
    cases ok1 with
    | false => simp only [Bool.not_false, ↓reduceIte]; exact h1.trans h2
    | true =>
      simp only [Bool.not_true, Bool.false_eq_true, ↓reduceIte]
      have h3 : Micros jo s s2 (if (decide (newJob.status ≠ jo.job.status) || nullTime) = true then
          apiUpdateJobStatus s2 { jo with rv := updatedRv s2 jo } { jo with job := newJob } else (s2, true)).1 := by
        split
        · rw [e1]; exact .single (.updStatusOn s2 s1 e0 hseq (hokeq true rfl))
        · exact .refl s2
      generalize (if (decide (newJob.status ≠ jo.job.status) || nullTime) = true then
          apiUpdateJobStatus s2 { jo with rv := updatedRv s2 jo } { jo with job := newJob } else (s2, true)) = r3
        at h3 ⊢
      obtain ⟨s3, ok2⟩ := r3
      simp only at h3 ⊢
      cases ok2 <;> exact (h1.trans h2).trans h3
  · -- nothing to `Update`: the status write carries the cached resourceVersion
    simp only [hsd, Bool.false_eq_true, ↓reduceIte, statusBase, Bool.not_true]
    have h3 : Micros jo s s1 (if (decide (newJob.status ≠ jo.job.status) || nullTime) = true then
        apiUpdateJobStatus s1 jo { jo with job := newJob } else (s1, true)).1 := by
      split
      · rw [e1]; exact .single (.updStatus s1)
      · exact .refl s1
    generalize (if (decide (newJob.status ≠ jo.job.status) || nullTime) = true then
        apiUpdateJobStatus s1 jo { jo with job := newJob } else (s1, true)) = r3 at h3 ⊢
    obtain ⟨s3, ok2⟩ := r3
    simp only at h3 ⊢
    cases ok2 <;> exact h1.trans h3

theorem syncOne_frame (s : Sys) (hc : s.jobCache = none) : syncOne s = (s, true) := by
  unfold syncOne
  simp only [hc]

/-- One pass: bookkeeping, then the micro-steps of `SyncOne` started in `sp` (the state after the key
was popped), then bookkeeping. -/
theorem work_micros (s : Sys) (jo : JobObj) (hc : s.jobCache = some jo) :
    ∃ sp, Frame s sp ∧ Micros jo sp sp (work s).1 := by
  unfold work
  simp only
  have hf0 : Frame s { s with q := s.q.advance s.clock, calls := [], delRun := none } :=
    ⟨⟨rfl, rfl, rfl, rfl, rfl⟩, rfl, rfl, rfl, rfl, rfl⟩
  cases hg : (s.q.advance s.clock).get with
  | none => (try simp only); exact ⟨_, hf0, .refl _⟩
  | some v =>
    obtain ⟨k, q1⟩ := v
    (try simp only)
    have hf1 : Frame s { s with q := q1, calls := [], delRun := none } :=
      ⟨⟨rfl, rfl, rfl, rfl, rfl⟩, rfl, rfl, rfl, rfl, rfl⟩
    have h1 := syncOne_micros { s with q := q1, calls := [], delRun := none } jo hc
    refine ⟨_, hf1, ?_⟩
    generalize syncOne { s with q := q1, calls := [], delRun := none } = r at h1 ⊢
    obtain ⟨s1, ok⟩ := r
    simp only at h1 ⊢
    refine h1.trans (.frame ?_)
    exact ⟨⟨rfl, rfl, rfl, rfl, rfl⟩, rfl, rfl, rfl, rfl, rfl⟩

/-- an idle pass (empty queue) only does bookkeeping -/
theorem work_idle (s : Sys) (h : (s.q.advance s.clock).get = none) : Frame s (work s).1 := by
  unfold work
  simp only [h]
  exact ⟨⟨rfl, rfl, rfl, rfl, rfl⟩, rfl, rfl, rfl, rfl, rfl⟩

theorem work_frame (s : Sys) (hc : s.jobCache = none) : Frame s (work s).1 := by
  unfold work
  simp only
  cases hg : (s.q.advance s.clock).get with
  | none => (try simp only); exact ⟨⟨rfl, rfl, rfl, rfl, rfl⟩, rfl, rfl, rfl, rfl, rfl⟩
  | some v =>
    obtain ⟨k, q1⟩ := v
    (try simp only)
    have hso := syncOne_frame { s with q := q1, calls := [], delRun := none } hc
    rw [hso]
    exact ⟨⟨rfl, rfl, rfl, rfl, rfl⟩, rfl, rfl, rfl, rfl, rfl⟩

end Furiko.JobCtl
