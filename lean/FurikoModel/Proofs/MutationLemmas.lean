/-
Helper lemmas for C16 (admission defaulting): association-list maps, fixed points of the
defaulting functions, and the success characterisation of `mutateCreateJob`.
-/
import FurikoModel.Model.Mutation

namespace Furiko.MutationLemmas
open Furiko Furiko.Options Furiko.Mutation

/-! ### facts about the regenerated constants (break if the source makes a default empty) -/

theorem defaultJobType_ne : Facts.admDefaultJobType ≠ [] := by decide
theorem defaultRestartPolicy_ne : Facts.admDefaultRestartPolicy ≠ [] := by decide
theorem defaultCompletionStrategy_ne : Facts.admDefaultCompletionStrategy ≠ [] := by decide
theorem boolFormatDefault_ne : Facts.boolFormatDefault ≠ [] := by decide

/-! ### maps -/

theorem mget_nil (k : Str) : mget [] k = none := rfl

theorem mget_cons (m : SMap) (k v q : Str) :
    mget ((k, v) :: m) q = if k = q then some v else mget m q := by
  simp [mget, lookupS]

theorem mget_mset (m : SMap) (k v q : Str) :
    mget (mset m k v) q = if k = q then some v else mget m q := mget_cons m k v q

theorem mget_append (a b : SMap) (k : Str) :
    mget (a ++ b) k = match mget a k with
      | some v => some v
      | none => mget b k := by
  induction a with
  | nil => simp [mget, lookupS]
  | cons e rest ih =>
    obtain ⟨k', v'⟩ := e
    simp only [List.cons_append, mget_cons]
    by_cases h : k' = k
    · simp [h]
    · simp [h, ih]

theorem mget_mmerge (lo hi : SMap) (k : Str) :
    mget (mmerge lo hi) k = match mget hi k with
      | some v => some v
      | none => mget lo k := mget_append hi lo k

theorem MapEq.refl (m : SMap) : MapEq m m := fun _ => rfl
theorem MapEq.symm {a b : SMap} (h : MapEq a b) : MapEq b a := fun k => (h k).symm
theorem MapEq.trans {a b c : SMap} (h₁ : MapEq a b) (h₂ : MapEq b c) : MapEq a c :=
  fun k => (h₁ k).trans (h₂ k)

/-- writing a binding that is already the map's value changes nothing -/
theorem mset_same (m : SMap) (k v : Str) : MapEq (mset (mset m k v) k v) (mset m k v) := by
  intro q
  simp only [mget_mset]
  split <;> rfl

/-- merging a lower-priority map a second time under a map that already contains it -/
theorem merge_absorb (x e c : SMap) :
    MapEq (mmerge c (mmerge e (mmerge c (mmerge e x)))) (mmerge c (mmerge e x)) := by
  intro k
  simp only [mget_mmerge]
  cases mget x k <;> cases mget e k <;> cases mget c k <;> rfl

/-! ### finalizers -/

theorem contains_mergeFinalizers_left (f1 f2 : List Str) (f : Str) (h : f ∈ f1) :
    f ∈ mergeFinalizers f1 f2 := by
  simp [mergeFinalizers, h]

theorem mem_mergeFinalizers_of_right (f1 f2 : List Str) (f : Str) (h : f ∈ f2) :
    f ∈ mergeFinalizers f1 f2 := by
  simp only [mergeFinalizers, List.mem_append, List.mem_filter]
  by_cases h1 : f ∈ f1
  · exact Or.inl h1
  · right
    refine ⟨h, ?_⟩
    simp [h1]

theorem containsFinalizer_iff (fs : List Str) (f : Str) : containsFinalizer fs f = true ↔ f ∈ fs := by
  simp [containsFinalizer]

/-! ### template defaults -/

/-- a template on which `MutateJobTemplateSpec` has nothing left to do -/
structure TemplateDefaulted (cfg : Cfg) (mutateTask : Bool) (t : JobTemplate) : Prop where
  maxAttempts : t.maxAttempts.isSome = true
  pending : t.pendingTimeout.isNone = true → cfg.ok = true ∧ cfg.defaultPendingTimeout = none
  parallelism : ∀ p, t.parallelism = some p → p.completionStrategy ≠ []
  pod : mutateTask = true → ∀ p, t.pod = some p → p.restartPolicy ≠ []

theorem mutateParallelism_ne (p : Parallelism) : (mutateParallelism p).completionStrategy ≠ [] := by
  unfold mutateParallelism
  split
  · exact defaultCompletionStrategy_ne
  · assumption

theorem mutatePod_ne (p : PodTemplate) : (mutatePod p).restartPolicy ≠ [] := by
  unfold mutatePod
  split
  · exact defaultRestartPolicy_ne
  · assumption

theorem mutateParallelism_fixed (p : Parallelism) (h : p.completionStrategy ≠ []) : mutateParallelism p = p := by
  simp [mutateParallelism, h]

theorem mutatePod_fixed (p : PodTemplate) (h : p.restartPolicy ≠ []) : mutatePod p = p := by
  simp [mutatePod, h]

/-- a defaulted template is a fixed point, without errors -/
theorem mutateJobTemplateSpec_fixed (cfg : Cfg) (b : Bool) (t : JobTemplate)
    (h : TemplateDefaulted cfg b t) : mutateJobTemplateSpec cfg t b = (t, []) := by
  obtain ⟨hm, hp, hpar, hpod⟩ := h
  obtain ⟨pod, par, ma, rd, pt, fb⟩ := t
  simp only at hm hp hpar hpod
  have hpar' : ∀ p, par = some p → mutateParallelism p = p :=
    fun p hp' => mutateParallelism_fixed p (hpar p hp')
  have hpod' : b = true → ∀ p, pod = some p → mutatePod p = p :=
    fun hb p hp' => mutatePod_fixed p (hpod hb p hp')
  cases ma with
  | none => simp at hm
  | some m =>
    cases pt with
    | some v =>
      cases par <;> cases pod <;> cases b <;> simp_all [mutateJobTemplateSpec]
    | none =>
      obtain ⟨hok, hdef⟩ := hp rfl
      cases par <;> cases pod <;> cases b <;> simp_all [mutateJobTemplateSpec]

/-- whatever `MutateJobTemplateSpec` returns without error is defaulted -/
theorem mutateJobTemplateSpec_defaulted (cfg : Cfg) (b : Bool) (t : JobTemplate)
    (h : (mutateJobTemplateSpec cfg t b).2 = []) :
    TemplateDefaulted cfg b (mutateJobTemplateSpec cfg t b).1 := by
  obtain ⟨pod, par, ma, rd, pt, fb⟩ := t
  have hp := mutateParallelism_ne
  have hq := mutatePod_ne
  constructor
  · cases ma <;> cases pt <;> cases par <;> cases pod <;> cases b <;> cases hok : cfg.ok <;>
      simp_all [mutateJobTemplateSpec]
  · cases ma <;> cases pt <;> cases par <;> cases pod <;> cases b <;> cases hok : cfg.ok <;>
      simp_all [mutateJobTemplateSpec]
  · intro p
    cases ma <;> cases pt <;> cases par <;> cases pod <;> cases b <;> cases hok : cfg.ok <;>
      simp_all [mutateJobTemplateSpec] <;> (intro hpe; subst hpe; exact hp _)
  · intro hb p
    subst hb
    cases ma <;> cases pt <;> cases par <;> cases pod <;> cases hok : cfg.ok <;>
      simp_all [mutateJobTemplateSpec] <;> (intro hpe; subst hpe; exact hq _)

/-- given values survive `MutateJobTemplateSpec`; absent ones get the documented default -/
theorem mutateJobTemplateSpec_values (cfg : Cfg) (b : Bool) (t : JobTemplate) :
    let r := (mutateJobTemplateSpec cfg t b).1
    r.maxAttempts = some (t.maxAttempts.getD Facts.admDefaultMaxAttempts) ∧
    (∀ v, t.pendingTimeout = some v → r.pendingTimeout = some v) ∧
    (t.pendingTimeout = none → cfg.ok = true → r.pendingTimeout = cfg.defaultPendingTimeout) ∧
    r.retryDelaySeconds = t.retryDelaySeconds ∧ r.forbidForceDeletion = t.forbidForceDeletion ∧
    r.parallelism = t.parallelism.map mutateParallelism ∧
    r.pod = (if b then t.pod.map mutatePod else t.pod) := by
  obtain ⟨pod, par, ma, rd, pt, fb⟩ := t
  cases ma <;> cases pt <;> cases par <;> cases pod <;> cases b <;> cases hok : cfg.ok <;>
    simp_all [mutateJobTemplateSpec]

/-! ### `MutateJob` -/

/-- a Job on which `MutateJob` has nothing left to do -/
structure JobDefaulted (env : Env) (j : Job) : Prop where
  cfgOk : env.cfg.ok = true
  type_ : j.type_ ≠ []
  ttl : j.ttl.isNone = true → env.cfg.defaultTTL = none
  template : ∃ t, j.template = some t ∧ TemplateDefaulted env.cfg Facts.admJobMutatesTaskTemplate t

/-- `MutateJob` touches `type`, `ttlSecondsAfterFinished` and `template` only -/
theorem mutateJob_obj (env : Env) (j : Job) :
    ∃ ty ttl t, (mutateJob env j).obj = { j with type_ := ty, ttl := ttl, template := t } := by
  unfold mutateJob
  by_cases hok : env.cfg.ok = true
  · simp only [hok, Bool.not_true, Bool.false_eq_true, if_false]
    by_cases h1 : j.type_ = [] <;> by_cases h2 : j.ttl.isNone = true <;> simp [h1, h2] <;>
      exact ⟨_, _, _, rfl⟩
  · simp only [hok, Bool.not_eq_true] at *
    simp only [hok, Bool.not_false, if_true]
    exact ⟨j.type_, j.ttl, j.template, by cases j; rfl⟩

theorem mutateJob_defaulted (env : Env) (j : Job) (h : (mutateJob env j).errors = []) :
    JobDefaulted env (mutateJob env j).obj := by
  unfold mutateJob at h ⊢
  by_cases hok : env.cfg.ok = true
  · simp only [hok, Bool.not_true, Bool.false_eq_true, if_false] at h ⊢
    refine ⟨hok, ?_, ?_, ?_⟩
    · by_cases h1 : j.type_ = [] <;> by_cases h2 : j.ttl.isNone = true <;> simp [h1, h2]
      all_goals first | exact defaultJobType_ne | exact h1
    · by_cases h1 : j.type_ = [] <;> by_cases h2 : j.ttl.isNone = true <;> simp [h1, h2] <;>
        (intro h3; simp_all)
    · exact ⟨_, rfl, mutateJobTemplateSpec_defaulted _ _ _ h⟩
  · simp only [Bool.not_eq_true] at hok
    simp [hok] at h

theorem mutateJob_fixed (env : Env) (j : Job) (h : JobDefaulted env j) :
    mutateJob env j = { obj := j, errors := [], warnings := [] } := by
  obtain ⟨hok, hty, httl, t, ht, htd⟩ := h
  have hfix := mutateJobTemplateSpec_fixed _ _ _ htd
  obtain ⟨ns, ct, fins, labels, anns, owners, cn, ty, sp, tmpl, ov, subs, ttl, rest⟩ := j
  simp only at hty httl ht
  subst ht
  cases ttl with
  | none =>
    have := httl rfl
    simp [mutateJob, hok, hty, this, hfix]
  | some v => simp [mutateJob, hok, hty, hfix]

/-- `JobDefaulted` looks at `type`, `ttl` and `template` only -/
theorem JobDefaulted.congr {env : Env} {j j' : Job} (h : JobDefaulted env j)
    (h1 : j'.type_ = j.type_) (h2 : j'.ttl = j.ttl) (h3 : j'.template = j.template) : JobDefaulted env j' :=
  ⟨h.cfgOk, h1 ▸ h.type_, h2 ▸ h.ttl, h3 ▸ h.template⟩

/-! ### `MutateCreateJob` -/

/-- the finalizer phase of `MutateCreateJob` -/
def addFinalizer (j : Job) : Job :=
  if !containsFinalizer j.finalizers Facts.admFinalizer then
    { j with finalizers := mergeFinalizers j.finalizers [Facts.admFinalizer] }
  else j

/-- the context-variable phase of `MutateCreateJob` -/
def mergeCtx (rjc : Option JobConfig) (j : Job) : Job :=
  match rjc with
  | some c => { j with substitutions := mmerge (jobConfigVars c) j.substitutions }
  | none => j

/-- shape of a successful `MutateCreateJob`: the five phases in source order -/
theorem mutateCreateJob_ok (env : Env) (j : Job) (h : (mutateCreateJob env j).errors = []) :
    ∃ rjc,
      (evaluateConfigName env (addFinalizer j)).errors = [] ∧
      validateLookupJobOwner env.store (evaluateConfigName env (addFinalizer j)).obj = .ok rjc ∧
      (evaluateOptionValues env (evaluateConfigName env (addFinalizer j)).obj rjc).errors = [] ∧
      (mutateCreateJob env j).obj =
        mergeCtx rjc (evaluateOptionValues env (evaluateConfigName env (addFinalizer j)).obj rjc).obj := by
  unfold mutateCreateJob at h ⊢
  simp only [Facts.admCreateJobSteps, List.foldl, createStep, CreateSt.merge] at h ⊢
  have hadd : (if (!containsFinalizer j.finalizers Facts.admFinalizer) = true then
      ({ job := { j with finalizers := mergeFinalizers j.finalizers [Facts.admFinalizer] } } : CreateSt)
      else { job := j }) = { job := addFinalizer j } := by
    unfold addFinalizer; split <;> rfl
  simp only [Bool.false_eq_true, if_false, hadd] at h ⊢
  generalize evaluateConfigName env (addFinalizer j) = r1 at h ⊢
  cases hv : validateLookupJobOwner env.store r1.obj with
  | error e => simp [hv] at h
  | ok rjc =>
    simp only [hv, Bool.false_eq_true, if_false, List.nil_append] at h ⊢
    refine ⟨rjc, ?_, rfl, ?_, ?_⟩
    · cases rjc <;> simp_all
    · cases rjc <;> simp_all
    · cases rjc <;> simp [mergeCtx]

/-! ### patchers and `admitted` -/

theorem admitted_some {α : Type} (r : Result α) (x : α) : admitted r = some x ↔ r.errors = [] ∧ r.obj = x := by
  unfold admitted
  split <;> simp_all

theorem patchCreateJob_eq (env : Env) (j : Job) :
    patchCreateJob env j =
      { obj := (mutateJob env (mutateCreateJob env j).obj).obj,
        errors := (mutateCreateJob env j).errors ++ (mutateJob env (mutateCreateJob env j).obj).errors,
        warnings := (mutateCreateJob env j).warnings ++ (mutateJob env (mutateCreateJob env j).obj).warnings } := by
  simp [patchCreateJob, Facts.admJobPatchCreate, Result.andThen, runJobCall]

theorem patchUpdateJob_eq (env : Env) (j : Job) :
    patchUpdateJob env j =
      { obj := (mutateJob env j).obj, errors := (mutateJob env j).errors, warnings := (mutateJob env j).warnings } := by
  simp [patchUpdateJob, Facts.admJobPatchUpdate, Result.andThen, runJobCall]

theorem patchCreateJobConfig_eq (env : Env) (c : JobConfig) :
    patchCreateJobConfig env c =
      { obj := (mutateJobConfig env (mutateCreateJobConfig env c).obj).obj,
        errors := (mutateCreateJobConfig env c).errors ++ (mutateJobConfig env (mutateCreateJobConfig env c).obj).errors,
        warnings := (mutateCreateJobConfig env c).warnings ++ (mutateJobConfig env (mutateCreateJobConfig env c).obj).warnings } := by
  simp [patchCreateJobConfig, Facts.admJobConfigPatchCreate, Result.andThen, runJobConfigCall]

theorem patchUpdateJobConfig_eq (env : Env) (old c : JobConfig) :
    patchUpdateJobConfig env old c =
      { obj := (mutateUpdateJobConfig env old (mutateJobConfig env c).obj).obj,
        errors := (mutateJobConfig env c).errors ++ (mutateUpdateJobConfig env old (mutateJobConfig env c).obj).errors,
        warnings := (mutateJobConfig env c).warnings ++ (mutateUpdateJobConfig env old (mutateJobConfig env c).obj).warnings } := by
  simp [patchUpdateJobConfig, Facts.admJobConfigPatchUpdate, Result.andThen, runJobConfigCall]

/-! ### JobConfig mutators -/

theorem defaultingOption_idem (o : Opt) : defaultingOption (defaultingOption o) = defaultingOption o := by
  unfold defaultingOption
  cases ht : o.type <;> simp only [ht]
  -- Bool
  cases hb : o.bool with
  | none => simp [boolFormatDefault_ne]
  | some b =>
    by_cases hf : b.format.isEmpty = true
    · simp [hf, boolFormatDefault_ne]
    · simp [hf]

theorem map_defaultingOption_idem (os : List Opt) :
    (os.map defaultingOption).map defaultingOption = os.map defaultingOption := by
  simp [List.map_map, Function.comp_def, defaultingOption_idem]

theorem mutateCreateJobConfig_eq (env : Env) (c : JobConfig) :
    mutateCreateJobConfig env c = { obj := { c with schedule := c.schedule.map (stamp env) } } := by
  unfold mutateCreateJobConfig
  cases hs : c.schedule <;> simp
  cases c; simp_all

/-- what `MutateUpdateJobConfig` does to the schedule -/
def updateSchedule (env : Env) (old : Option Schedule) (s : Schedule) : Schedule :=
  if scheduleChanged old s then stamp env s else s

theorem mutateUpdateJobConfig_eq (env : Env) (old c : JobConfig) :
    mutateUpdateJobConfig env old c =
      { obj := { c with schedule := c.schedule.map (updateSchedule env old.schedule) } } := by
  unfold mutateUpdateJobConfig updateSchedule
  cases hs : c.schedule with
  | none => simp; cases c; simp_all
  | some s =>
    by_cases hc : scheduleChanged old.schedule s = true
    · simp [hc]
    · simp [hc]; cases c; simp_all

theorem mutateJobConfig_obj (env : Env) (c : JobConfig) :
    (mutateJobConfig env c).obj =
      { c with option := c.option.map (fun os => os.map defaultingOption),
               template := (mutateJobTemplateSpec env.cfg c.template Facts.admJobConfigMutatesTaskTemplate).1 } := by
  obtain ⟨ns, name, uid, tl, ta, tmpl, pol, sched, opt, hash, rest⟩ := c
  cases opt <;> rfl

theorem mutateJobConfig_errors (env : Env) (c : JobConfig) :
    (mutateJobConfig env c).errors = (mutateJobTemplateSpec env.cfg c.template Facts.admJobConfigMutatesTaskTemplate).2 := by
  obtain ⟨ns, name, uid, tl, ta, tmpl, pol, sched, opt, hash, rest⟩ := c
  cases opt <;> rfl

theorem mutateJobConfig_warnings (env : Env) (c : JobConfig) : (mutateJobConfig env c).warnings = [] := by
  obtain ⟨ns, name, uid, tl, ta, tmpl, pol, sched, opt, hash, rest⟩ := c
  cases opt <;> rfl

/-- `MutateJobConfig` is idempotent (schedule untouched) -/
theorem mutateJobConfig_idem (env : Env) (c : JobConfig) (h : (mutateJobConfig env c).errors = []) (s : Option Schedule) :
    (mutateJobConfig env { (mutateJobConfig env c).obj with schedule := s }).errors = [] ∧
    (mutateJobConfig env { (mutateJobConfig env c).obj with schedule := s }).obj =
      { (mutateJobConfig env c).obj with schedule := s } := by
  rw [mutateJobConfig_errors] at h
  have hd := mutateJobTemplateSpec_defaulted _ _ _ h
  have hfix := mutateJobTemplateSpec_fixed _ _ _ hd
  simp only [mutateJobConfig_errors, mutateJobConfig_obj, hfix, true_and]
  cases hopt : c.option with
  | none => simp
  | some os =>
    simp
    intro a _
    exact defaultingOption_idem a

theorem floorSec_not_later (now : Int) : isTimeSetAndLaterThan (some (floorSec now)) now = false := by
  unfold isTimeSetAndLaterThan floorSec
  simp only [Bool.and_eq_false_imp, bne_iff_ne, ne_eq, decide_eq_false_iff_not]
  intro _
  omega

theorem stamp_idem (env : Env) (s : Schedule) : stamp env (stamp env s) = stamp env s := by
  unfold stamp
  by_cases h : isTimeSetAndLaterThan s.lastUpdated env.nowNs = true
  · simp [h]
  · simp only [Bool.not_eq_true] at h
    simp [h, floorSec_not_later]

/-- `stamp` writes `lastUpdated` only -/
theorem stamp_fields (env : Env) (s : Schedule) (lu : Option Int) :
    { stamp env s with lastUpdated := lu } = { s with lastUpdated := lu } := by
  unfold stamp
  split <;> rfl

theorem scheduleChanged_stamp (env : Env) (old : Option Schedule) (s : Schedule) :
    scheduleChanged old (stamp env s) = scheduleChanged old s := by
  unfold scheduleChanged
  cases old with
  | none =>
    cases h1 : ((none : Option Schedule) != some (stamp env s)) <;>
      cases h2 : ((none : Option Schedule) != some s) <;> simp_all
  | some os => simp only [stamp_fields]

theorem updateSchedule_idem (env : Env) (old : Option Schedule) (s : Schedule) :
    updateSchedule env old (updateSchedule env old s) = updateSchedule env old s := by
  unfold updateSchedule
  by_cases hc : scheduleChanged old s = true
  · simp [hc, scheduleChanged_stamp, stamp_idem]
  · simp [hc]

/-! ### `evaluateConfigName`, owner lookup, `evaluateOptionValues` -/

/-- the JSON / YAML library contract the idempotence of Job creation rests on: normalised
option values are non-empty text and parse to themselves (sampled by the harness on every
string it sends) -/
structure ParseStable (parseOV : Str → Option OVParse) : Prop where
  nonempty : ∀ s p, parseOV s = some p → p.normalised ≠ []
  stable : ∀ s p, parseOV s = some p →
    ∃ p', parseOV p.normalised = some p' ∧ p'.normalised = p.normalised ∧ p'.values = p.values

theorem addFinalizer_mem (j : Job) : Facts.admFinalizer ∈ (addFinalizer j).finalizers := by
  unfold addFinalizer
  by_cases h : containsFinalizer j.finalizers Facts.admFinalizer = true
  · simp only [h, Bool.not_true, Bool.false_eq_true, if_false]
    exact (containsFinalizer_iff _ _).1 h
  · simp only [Bool.not_eq_true] at h
    simp only [h, Bool.not_false, if_true]
    exact mem_mergeFinalizers_of_right _ _ _ (by simp)

theorem addFinalizer_fixed (j : Job) (h : Facts.admFinalizer ∈ j.finalizers) : addFinalizer j = j := by
  unfold addFinalizer
  simp [(containsFinalizer_iff _ _).2 h]

/-- a successful `evaluateConfigName` either did nothing (no configName) or expanded -/
theorem evaluateConfigName_ok (env : Env) (j : Job) (h : (evaluateConfigName env j).errors = []) :
    (j.configName = [] ∧ evaluateConfigName env j = { obj := j }) ∨
    (j.configName ≠ [] ∧ ∃ c base, lookupJobConfig env.store j.namespace_ j.configName = some c ∧
      newJobFromJobConfig c j.type_ j.createTime = some base ∧
      (evaluateConfigName env j).obj =
        { j with
          labels := mset (mmerge base.labels j.labels) Facts.admLabelUID ((mget base.labels Facts.admLabelUID).getD []),
          annotations := mmerge base.annotations j.annotations,
          finalizers := mergeFinalizers base.finalizers j.finalizers,
          owners := base.owners,
          template := some base.template,
          startPolicy := some (if (j.startPolicy.getD {}).concurrencyPolicy = [] then
              { (j.startPolicy.getD {}) with concurrencyPolicy := c.policy } else j.startPolicy.getD {}),
          configName := [] }) := by
  unfold evaluateConfigName at h ⊢
  by_cases hc : j.configName = []
  · left; simp [hc]
  · right
    refine ⟨hc, ?_⟩
    simp only [hc, if_false] at h ⊢
    cases hl : lookupJobConfig env.store j.namespace_ j.configName with
    | none => simp [hl] at h
    | some c =>
      simp only [hl] at h ⊢
      cases hn : newJobFromJobConfig c j.type_ j.createTime with
      | none => simp [hn] at h
      | some base => exact ⟨c, base, rfl, hn, rfl⟩

theorem evaluateConfigName_configName (env : Env) (j : Job) (h : (evaluateConfigName env j).errors = []) :
    (evaluateConfigName env j).obj.configName = [] := by
  rcases evaluateConfigName_ok env j h with ⟨hc, he⟩ | ⟨_, c, base, _, _, he⟩
  · rw [he]; exact hc
  · rw [he]

theorem evaluateConfigName_finalizer (env : Env) (j : Job) (h : (evaluateConfigName env j).errors = [])
    (hf : Facts.admFinalizer ∈ j.finalizers) : Facts.admFinalizer ∈ (evaluateConfigName env j).obj.finalizers := by
  rcases evaluateConfigName_ok env j h with ⟨_, he⟩ | ⟨_, c, base, _, _, he⟩
  · rw [he]; exact hf
  · rw [he]; exact mem_mergeFinalizers_of_right _ _ _ hf

theorem evaluateConfigName_nil (env : Env) (j : Job) (h : j.configName = []) :
    evaluateConfigName env j = { obj := j } := by
  simp [evaluateConfigName, h]

theorem validateLookupJobOwner_congr (store : List JobConfig) (a b : Job) (h1 : a.owners = b.owners)
    (h2 : a.namespace_ = b.namespace_) (h3 : MapEq a.labels b.labels) :
    validateLookupJobOwner store a = validateLookupJobOwner store b := by
  unfold validateLookupJobOwner
  rw [h1, h2, h3 Facts.admLabelUID]

/-- `evaluateOptionValues` writes `optionValues`, `annotations`, `substitutions` only -/
theorem evaluateOptionValues_frame (env : Env) (j : Job) (rjc : Option JobConfig) :
    ∃ ov ann subs, (evaluateOptionValues env j rjc).obj =
      { j with optionValues := ov, annotations := ann, substitutions := subs } := by
  unfold evaluateOptionValues
  cases rjc with
  | none => exact ⟨j.optionValues, j.annotations, j.substitutions, by cases j; rfl⟩
  | some c =>
    simp only
    by_cases hov : j.optionValues = []
    · simp only [hov, ne_eq, not_true_eq_false, if_false]
      split
      · exact ⟨j.optionValues, j.annotations, j.substitutions, by cases j; simp_all⟩
      · exact ⟨j.optionValues, j.annotations, mmerge (evaluateOptions env.date [] c.option).1 j.substitutions,
          by cases j; simp_all⟩
    · simp only [ne_eq, hov, not_false_eq_true, if_true]
      cases hp : env.parseOV j.optionValues with
      | none => exact ⟨j.optionValues, j.annotations, j.substitutions, by cases j; rfl⟩
      | some p =>
        simp only
        split
        · exact ⟨_, _, _, rfl⟩
        · exact ⟨_, _, _, rfl⟩

theorem evaluateOptionValues_none (env : Env) (j : Job) : (evaluateOptionValues env j none).obj = j := rfl

/-- the option values a Job submits, as the evaluators see them -/
def submittedValues (env : Env) (j : Job) : List (Str × Value) :=
  if j.optionValues = [] then [] else
  match env.parseOV j.optionValues with
  | some p => p.values
  | none => []

/-- a successful `evaluateOptionValues` under a parent JobConfig -/
theorem evaluateOptionValues_some_ok (env : Env) (j : Job) (c : JobConfig)
    (h : (evaluateOptionValues env j (some c)).errors = []) :
    (evaluateOptions env.date (submittedValues env j) c.option).2 = [] ∧
    ((j.optionValues = [] ∧
      (evaluateOptionValues env j (some c)).obj =
        { j with substitutions := mmerge (evaluateOptions env.date (submittedValues env j) c.option).1 j.substitutions }) ∨
     (j.optionValues ≠ [] ∧ ∃ p, env.parseOV j.optionValues = some p ∧
      (evaluateOptionValues env j (some c)).obj =
        { j with optionValues := p.normalised,
                 annotations := mset j.annotations Facts.admAnnOptionSpecHash c.optionHash,
                 substitutions := mmerge (evaluateOptions env.date (submittedValues env j) c.option).1 j.substitutions })) := by
  unfold evaluateOptionValues at h ⊢
  unfold submittedValues
  by_cases hov : j.optionValues = []
  · simp only [hov, ne_eq, not_true_eq_false, if_false, if_true] at h ⊢
    by_cases he : (evaluateOptions env.date [] c.option).2 = []
    · simp [he]
    · simp [he] at h
  · simp only [ne_eq, hov, not_false_eq_true, if_true, if_false] at h ⊢
    cases hp : env.parseOV j.optionValues with
    | none => simp [hp] at h
    | some p =>
      simp only [hp] at h ⊢
      by_cases he : (evaluateOptions env.date p.values c.option).2 = []
      · simp [he]
      · simp [he] at h

/-! ### projections used by the property theorems -/

theorem addFinalizer_frame (j : Job) :
    addFinalizer j = { j with finalizers := (addFinalizer j).finalizers } := by
  unfold addFinalizer
  split
  · rfl
  · cases j; rfl

theorem addFinalizer_keeps (j : Job) (f : Str) (h : f ∈ j.finalizers) : f ∈ (addFinalizer j).finalizers := by
  unfold addFinalizer
  split
  · exact contains_mergeFinalizers_left _ _ _ h
  · exact h

/-- annotations of the base Job built by `NewJobFromJobConfig` -/
def baseAnnotations (c : JobConfig) (jobType : Str) (createTime : Int) : SMap :=
  if jobType = Facts.admJobTypeScheduled then
    mset c.tmplAnnotations Facts.admAnnScheduleTime (Subst.itoa createTime)
  else c.tmplAnnotations

theorem newJobFromJobConfig_some (c : JobConfig) (ty : Str) (ct : Int) (base : BaseJob)
    (h : newJobFromJobConfig c ty ct = some base) :
    base.labels = mset c.tmplLabels Facts.admLabelUID c.uid ∧
    base.annotations = baseAnnotations c ty ct ∧
    base.finalizers = [Facts.admFinalizer] ∧ base.owners = [controllerRef c] ∧ base.template = c.template := by
  unfold newJobFromJobConfig at h
  cases hm : makeDefaultOptions c.option with
  | none => simp [hm] at h
  | some d =>
    simp only [hm, Option.some.injEq] at h
    subst h
    exact ⟨rfl, rfl, rfl, rfl, rfl⟩

/-- a successful `MutateJob`, field by field -/
theorem mutateJob_ok (env : Env) (j : Job) (h : (mutateJob env j).errors = []) :
    env.cfg.ok = true ∧
    (mutateJob env j).obj =
      { j with type_ := if j.type_ = [] then Facts.admDefaultJobType else j.type_,
               ttl := if j.ttl.isNone then env.cfg.defaultTTL else j.ttl,
               template := some (mutateJobTemplateSpec env.cfg (j.template.getD {}) Facts.admJobMutatesTaskTemplate).1 } := by
  unfold mutateJob at h ⊢
  by_cases hok : env.cfg.ok = true
  · refine ⟨hok, ?_⟩
    simp only [hok, Bool.not_true, Bool.false_eq_true, if_false]
    by_cases h1 : j.type_ = [] <;> by_cases h2 : j.ttl.isNone = true <;> simp [h1, h2]
  · simp only [Bool.not_eq_true] at hok
    simp [hok] at h

/-- the hash annotation is the only annotation `evaluateOptionValues` writes -/
theorem evaluateOptionValues_annotations (env : Env) (j : Job) (rjc : Option JobConfig) (k : Str)
    (hk : k ≠ Facts.admAnnOptionSpecHash) :
    mget (evaluateOptionValues env j rjc).obj.annotations k = mget j.annotations k := by
  unfold evaluateOptionValues
  cases rjc with
  | none => rfl
  | some c =>
    simp only
    by_cases hov : j.optionValues = []
    · simp only [hov, ne_eq, not_true_eq_false, if_false]
      split <;> rfl
    · simp only [ne_eq, hov, not_false_eq_true, if_true]
      cases hp : env.parseOV j.optionValues with
      | none => rfl
      | some p =>
        simp only
        split <;> simp [mget_mset, Ne.symm hk]

/-- shape of an accepted Job creation: the phases of `MutateCreateJob`, then `MutateJob` -/
theorem patchCreateJob_ok (env : Env) (j j' : Job) (h : admitted (patchCreateJob env j) = some j') :
    ∃ rjc j2 j3,
      (evaluateConfigName env (addFinalizer j)).errors = [] ∧
      (evaluateConfigName env (addFinalizer j)).obj = j2 ∧
      validateLookupJobOwner env.store j2 = .ok rjc ∧
      (evaluateOptionValues env j2 rjc).errors = [] ∧
      (evaluateOptionValues env j2 rjc).obj = j3 ∧
      env.cfg.ok = true ∧
      j' = { mergeCtx rjc j3 with
             type_ := if j3.type_ = [] then Facts.admDefaultJobType else j3.type_,
             ttl := if j3.ttl.isNone then env.cfg.defaultTTL else j3.ttl,
             template := some (mutateJobTemplateSpec env.cfg (j3.template.getD {}) Facts.admJobMutatesTaskTemplate).1 } := by
  rw [admitted_some, patchCreateJob_eq] at h
  obtain ⟨he, ho⟩ := h
  simp only [List.append_eq_nil_iff] at he ho
  obtain ⟨he1, he2⟩ := he
  obtain ⟨rjc, hcn, hown, hov, hobj⟩ := mutateCreateJob_ok env j he1
  obtain ⟨hok, hmj⟩ := mutateJob_ok env _ he2
  refine ⟨rjc, _, _, hcn, rfl, hown, hov, rfl, hok, ?_⟩
  rw [← ho, hmj, hobj]
  cases rjc <;> rfl

end Furiko.MutationLemmas
