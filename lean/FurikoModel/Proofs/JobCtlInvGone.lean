/-
How the authoritative Job object can disappear: for a Job that carries the delete-dependents
finalizer only through the `Update` of a pass that found no task (`goneSpec`), taken as the first and
only change of that pass.  Core Lean only.
-/
import FurikoModel.Proofs.JobCtlInvJob

set_option linter.unusedSimpArgs false
set_option linter.unusedVariables false

namespace Furiko.JobCtl
open Furiko Furiko.WQ

/-- why the object went -/
def GoneCause (s : Sys) (a : Action) (j : JobObj) : Prop :=
  a = .work ∧ s.jobCache = some j ∧ j.job.deletionTimestamp.isSome = true ∧
  ∃ sp, Frame s sp ∧ (sync sp j).2.2.1 = false

theorem jobMoves_from_finalized {j0 : JobObj} {s : Sys} {a : Action} {j : JobObj} (hb : Base j0 s)
    (hj : s.job = some j) (hfin : j.finalizer = true) {o : Option JobObj} (hm : JobMoves s a (some j) o) :
    o = some j ∨ (∃ x, o = some x ∧ s.rv < x.rv ∧ x.finalizer = true) ∨ (o = none ∧ GoneCause s a j) := by
  have hjrv : j.rv ≤ s.rv := (hb.jobOK j hj).2
  suffices hgen : ∀ src o, JobMoves s a src o → src = some j →
      (o = some j ∨ (∃ x, o = some x ∧ s.rv < x.rv ∧ x.finalizer = true) ∨ (o = none ∧ GoneCause s a j)) from
    hgen _ _ hm rfl
  intro src o hm
  induction hm with
  | refl => intro hsrc; exact Or.inl hsrc
  | tail hms hmv ih =>
    intro hsrc
    rcases ih hsrc with h | ⟨x, hx, hxrv, hxf⟩ | ⟨h, _⟩
    · -- first move, from `j` itself
      subst h
      cases hmv with
      | goneUser cur _ hf => rw [hf] at hfin; cases hfin
      | goneTTL cur _ hf => rw [hf] at hfin; cases hfin
      | goneSpec jo sp ha hc hf _ hd hfz => exact Or.inr (Or.inr ⟨rfl, ha, hc, hd, sp, hf, hfz⟩)
      | delMark cur t rv _ _ _ hrv => exact Or.inr (Or.inl ⟨_, rfl, hrv, hfin⟩)
      | kill cur t rv _ hrv => exact Or.inr (Or.inl ⟨_, rfl, hrv, hfin⟩)
      | ctlSpec jo sp rv _ _ _ hrv hnot =>
        refine Or.inr (Or.inl ⟨_, rfl, hrv, ?_⟩)
        show (sync sp j).2.2.1 = true
        cases hd : j.job.deletionTimestamp with
        | none => rw [sync_fin_not_deleted sp j hd]; exact hfin
        | some t =>
          cases hz : (sync sp j).2.2.1 with
          | true => rfl
          | false => exact absurd ⟨by rw [hd]; rfl, hz⟩ hnot
      | ctlStatus jo sp rv _ _ _ hrv => exact Or.inr (Or.inl ⟨_, rfl, hrv, hfin⟩)
      | ctlStatusOn jo sp rv0 rv _ _ _ hrv => exact Or.inr (Or.inl ⟨_, rfl, hrv, hfin⟩)
    · -- a later move, from a version written during this step
      subst hx
      cases hmv with
      | goneUser cur _ hf => rw [hf] at hxf; cases hxf
      | goneTTL cur _ hf => rw [hf] at hxf; cases hxf
      | goneSpec jo sp _ _ _ hj0 _ _ =>
        rw [hj] at hj0; cases hj0
        omega
      | delMark cur t rv _ _ _ hrv => exact Or.inr (Or.inl ⟨_, rfl, hrv, hxf⟩)
      | kill cur t rv _ hrv => exact Or.inr (Or.inl ⟨_, rfl, hrv, hxf⟩)
      | ctlSpec jo sp rv _ hc _ _ _ =>
        have := (hb.seenOK x (mem_seenVers_cache hc)).2
        omega
      | ctlStatus jo sp rv _ hc _ _ =>
        have := (hb.seenOK x (mem_seenVers_cache hc)).2
        omega
      | ctlStatusOn jo sp rv0 rv _ _ _ hrv => exact Or.inr (Or.inl ⟨_, rfl, hrv, hxf⟩)
    · subst h; cases hmv

/-- job-API calls leave the pods alone -/
theorem apiUpdateJob_pods (s : Sys) (c n : JobObj) : (apiUpdateJob s c n).1.pods = s.pods := by
  rcases apiUpdateJob_spec s c n with h | ⟨_, _, _, h | h⟩
  · exact h.pods
  · exact h.1.pods
  · exact h.1.pods

theorem apiUpdateJobStatus_pods (s : Sys) (c n : JobObj) : (apiUpdateJobStatus s c n).1.pods = s.pods := by
  rcases apiUpdateJobStatus_spec s c n with h | ⟨_, _, _, h⟩
  · exact h.pods
  · exact h.pods

/-- a pass whose `sync` only did bookkeeping issues no pod call -/
theorem syncOne_pods (s : Sys) (jo : JobObj) (hc : s.jobCache = some jo) (hfr : Frame s (sync s jo).1) :
    (syncOne s).1.pods = s.pods := by
  unfold syncOne
  simp only [hc]
  generalize sync s jo = r1 at hfr ⊢
  obtain ⟨s1, newJob, newFin, syncOk, nullTime⟩ := r1
  simp only at hfr ⊢
  have h2 : (if (newJob.admissionError ≠ jo.job.admissionError || newFin ≠ jo.finalizer) = true then
        apiUpdateJob s1 jo { jo with job := newJob, finalizer := newFin } else (s1, true)).1.pods = s.pods := by
    split
    · rw [apiUpdateJob_pods]; exact hfr.pods
    · exact hfr.pods
  generalize (if (newJob.admissionError ≠ jo.job.admissionError || newFin ≠ jo.finalizer) = true then
        apiUpdateJob s1 jo { jo with job := newJob, finalizer := newFin } else (s1, true)) = r2 at h2 ⊢
  obtain ⟨s2, ok1⟩ := r2
  simp only at h2 ⊢
  cases ok1 with
  | false => simp only [Bool.not_false, ↓reduceIte]; exact h2
  | true =>
    simp only [Bool.not_true, Bool.false_eq_true, ↓reduceIte]
    have h3 : (if (decide (newJob.status ≠ jo.job.status) || nullTime) = true then
        apiUpdateJobStatus s2 (statusBase s2 jo (newJob.admissionError ≠ jo.job.admissionError || newFin ≠ jo.finalizer))
          { jo with job := newJob } else (s2, true)).1.pods = s.pods := by
      split
      · rw [apiUpdateJobStatus_pods]; exact h2
      · exact h2
    generalize (if (decide (newJob.status ≠ jo.job.status) || nullTime) = true then
        apiUpdateJobStatus s2 (statusBase s2 jo (newJob.admissionError ≠ jo.job.admissionError || newFin ≠ jo.finalizer))
          { jo with job := newJob } else (s2, true)) = r3 at h3 ⊢
    obtain ⟨s3, ok2⟩ := r3
    simp only at h3 ⊢
    cases ok2 <;> exact h3

theorem work_pods (s : Sys) (jo : JobObj) (hc : s.jobCache = some jo)
    (hfr : ∀ sp, Frame s sp → Frame sp (sync sp jo).1) : (work s).1.pods = s.pods := by
  unfold work
  simp only
  cases hg : (s.q.advance s.clock).get with
  | none => rfl
  | some v =>
    obtain ⟨k, q1⟩ := v
    (try simp only)
    have hf1 : Frame s { s with q := q1, calls := [], delRun := none } :=
      ⟨⟨rfl, rfl, rfl, rfl, rfl⟩, rfl, rfl, rfl, rfl, rfl⟩
    have := syncOne_pods { s with q := q1, calls := [], delRun := none } jo hc (hfr _ hf1)
    generalize syncOne { s with q := q1, calls := [], delRun := none } = r at this ⊢
    obtain ⟨s1, ok⟩ := r
    exact this

/-- A Job that carries the finalizer leaves the API only through a pass that runs on exactly this
object, finds it being deleted, and finds none of `finalizerTasks`: no task of its status — neither
in the pod cache nor, by a live GET for EVERY listed task, on the server — and no unrecorded task
of the Job in the pod cache; that pass issues no pod call. -/
theorem gone_only_when_no_task {j0 : JobObj} {s : Sys} (hb : Base j0 s) (a : Action) (hal : Allowed j0 s a)
    (j : JobObj) (hj : s.job = some j) (hfin : j.finalizer = true) (hgone : (step s a).job = none) :
    a = .work ∧ s.jobCache = some j ∧ j.job.deletionTimestamp.isSome = true ∧
    finalizerTasks s j j.job = [] ∧ (step s a).pods = s.pods := by
  have hm := job_moves hb a hal
  rw [hj, hgone] at hm
  rcases jobMoves_from_finalized hb hj hfin hm with h | ⟨x, h, _⟩ | ⟨_, ha, hc, hd, sp, hf, hz⟩
  · cases h
  · cases h
  · have hnone : finalizerTasks s j j.job = [] := by
      rcases sync_fin_deleted sp j hd with hk | hk
      · rw [hk.1, hfin] at hz; cases hz
      · rw [← finalizerTasks_frame hf]; exact hk.2.2.1
    refine ⟨ha, hc, hd, hnone, ?_⟩
    subst ha
    show (work s).1.pods = s.pods
    refine work_pods s j hc ?_
    intro sp' hf'
    exact (sync_deleted_no_tasks sp' j hd hfin (by rw [finalizerTasks_frame hf']; exact hnone)).2

/-- … and until then the finalizer stays on the object -/
theorem finalizer_kept {j0 : JobObj} {s : Sys} (hb : Base j0 s) (a : Action) (hal : Allowed j0 s a)
    (j j' : JobObj) (hj : s.job = some j) (hfin : j.finalizer = true) (hj' : (step s a).job = some j') :
    j'.finalizer = true := by
  have hm := job_moves hb a hal
  rw [hj, hj'] at hm
  rcases jobMoves_from_finalized hb hj hfin hm with h | ⟨x, h, _, hx⟩ | ⟨h, _⟩
  · cases h; exact hfin
  · cases h; exact hx
  · cases h

end Furiko.JobCtl
