/-
`Run`: the state-free projection of a pass over its call log, and the pure list reasoning on it
(one call per Job in list order, abort on error, FIFO for Enqueue, completeness of an ok pass).
-/
import FurikoModel.Proofs.QueuePass

set_option linter.unusedSimpArgs false
set_option linter.unusedVariables false

namespace Furiko.Queue
open Furiko.WQ

/-- `Run jc clock rjs ac cs ok acf`: a pass over `rjs` starting with active count `ac` logs the
calls `cs`, returns `ok` and ends with active count `acf`. -/
inductive Run (jc : JCV) (clock : Int) : List JobV → Int → List Call → Bool → Int → Prop
  | nil (ac : Int) : Run jc clock [] ac [] true ac
  | defer {j : JobV} {rest : List JobV} {ac : Int} {cs : List Call} {ok : Bool} {acf : Int} :
      j.hasPolicy = true → startAfterLater j clock = true →
      Run jc clock rest ac cs ok acf → Run jc clock (j :: rest) ac cs ok acf
  | wait {j : JobV} {rest : List JobV} {ac : Int} {cs : List Call} {ok : Bool} {acf : Int} :
      j.hasPolicy = true → startAfterLater j clock = false → j.policy = 2 → overLimit jc ac →
      Run jc clock rest ac cs ok acf → Run jc clock (j :: rest) ac cs ok acf
  | rejectOk {j : JobV} {rest : List JobV} {ac : Int} {cs : List Call} {ok : Bool} {acf : Int} :
      j.hasPolicy = true → startAfterLater j clock = false → j.policy = 1 → overLimit jc ac →
      Run jc clock rest ac cs ok acf →
      Run jc clock (j :: rest) ac (⟨"reject", j.name, "ok"⟩ :: cs) ok acf
  /-- includes the fault `applied-err`: `res = "ok"` but the pass aborts -/
  | rejectFail {j : JobV} {rest : List JobV} {ac : Int} (res : String) :
      j.hasPolicy = true → startAfterLater j clock = false → j.policy = 1 → overLimit jc ac →
      Run jc clock (j :: rest) ac [⟨"reject", j.name, res⟩] false ac
  | startOk {j : JobV} {rest : List JobV} {ac : Int} {cs : List Call} {ok : Bool} {acf : Int} :
      startVerdict jc clock j ac → Run jc clock rest (ac + 1) cs ok acf →
      Run jc clock (j :: rest) ac (⟨"start", j.name, "ok"⟩ :: cs) ok acf
  | startFail {j : JobV} {rest : List JobV} {ac : Int} (res : String) :
      startVerdict jc clock j ac → Run jc clock (j :: rest) ac [⟨"start", j.name, res⟩] false ac
  | casFail {j : JobV} {rest : List JobV} {ac : Int} :
      startVerdict jc clock j ac → Run jc clock (j :: rest) ac [] false ac

/-- forgetting the states of a `Pass` -/
theorem Pass.toRun {jc : JCV} {rjs : List JobV} {s : Sys} {ac : Int} {cs : List Call} {s' : Sys}
    {ok : Bool} (h : Pass jc rjs s ac cs s' ok) :
    ∃ acf, Run jc s.clock rjs ac cs ok acf ∧
      (ac = getCtr s.counter jc.uid → acf = getCtr s'.counter jc.uid) := by
  induction h with
  | nil s ac => exact ⟨ac, Run.nil ac, id⟩
  | defer h1 h2 _ ih =>
    obtain ⟨acf, hr, hc⟩ := ih
    exact ⟨acf, Run.defer h1 h2 hr, hc⟩
  | wait h1 h2 h3 h4 _ ih =>
    obtain ⟨acf, hr, hc⟩ := ih
    exact ⟨acf, Run.wait h1 h2 h3 h4 hr, hc⟩
  | rejectFail res h1 h2 h3 h4 _ _ => exact ⟨_, Run.rejectFail res h1 h2 h3 h4, id⟩
  | rejectOk cur h1 h2 h3 h4 _ _ _ _ _ ih =>
    obtain ⟨acf, hr, hc⟩ := ih
    exact ⟨acf, Run.rejectOk h1 h2 h3 h4 hr, hc⟩
  | rejectLost cur h1 h2 h3 h4 _ _ _ _ => exact ⟨_, Run.rejectFail "ok" h1 h2 h3 h4, id⟩
  | rejectNoop cur h1 h2 h3 h4 _ _ _ _ _ _ ih =>
    obtain ⟨acf, hr, hc⟩ := ih
    exact ⟨acf, Run.rejectOk h1 h2 h3 h4 hr, hc⟩
  | rejectNoopLost cur h1 h2 h3 h4 _ _ _ _ _ => exact ⟨_, Run.rejectFail "ok" h1 h2 h3 h4, id⟩
  | casFail hv _ => exact ⟨_, Run.casFail hv, id⟩
  | startFail res hv hcas _ _ =>
    refine ⟨_, Run.startFail res hv, fun h => ?_⟩
    simp only [getCtr_rollback hcas]; exact h
  | startOk cur hv hcas _ _ _ _ _ ih =>
    obtain ⟨acf, hr, hc⟩ := ih
    refine ⟨acf, Run.startOk hv hr, fun _ => hc ?_⟩
    simp [getCtr_setCtr]
  | startLost cur hv hcas _ _ _ _ =>
    refine ⟨_, Run.startFail "ok" hv, fun h => ?_⟩
    simp only [getCtr_rollback hcas]; exact h

variable {jc : JCV} {clock : Int}

/-- the calls of a pass name Jobs of the list, each at most once, in list order -/
theorem Run.sublist {rjs : List JobV} {ac : Int} {cs : List Call} {ok : Bool} {acf : Int}
    (h : Run jc clock rjs ac cs ok acf) : (cs.map (·.job)).Sublist (rjs.map (·.name)) := by
  induction h with
  | nil => simp
  | defer _ _ _ ih => exact List.Sublist.cons _ ih
  | wait _ _ _ _ _ ih => exact List.Sublist.cons _ ih
  | rejectOk _ _ _ _ _ ih => exact List.Sublist.cons_cons _ ih
  | rejectFail => simp
  | startOk _ _ ih => exact List.Sublist.cons_cons _ ih
  | startFail => simp
  | casFail => simp

/-- the active count only grows during a pass -/
theorem Run.mono {rjs : List JobV} {ac : Int} {cs : List Call} {ok : Bool} {acf : Int}
    (h : Run jc clock rjs ac cs ok acf) : ac ≤ acf := by
  induction h with
  | nil => omega
  | defer _ _ _ ih => exact ih
  | wait _ _ _ _ _ ih => exact ih
  | rejectOk _ _ _ _ _ ih => exact ih
  | rejectFail => omega
  | startOk _ _ ih => omega
  | startFail => omega
  | casFail => omega

theorem Run.job_mem {rjs : List JobV} {ac : Int} {cs : List Call} {ok : Bool} {acf : Int}
    (h : Run jc clock rjs ac cs ok acf) {c : Call} (hc : c ∈ cs) : c.job ∈ rjs.map (·.name) :=
  h.sublist.subset (List.mem_map_of_mem hc)

theorem eq_of_nodup_map {α β : Type} (f : α → β) {l : List α} (h : (l.map f).Nodup) {a b : α}
    (ha : a ∈ l) (hb : b ∈ l) (hab : f a = f b) : a = b := by
  induction l with
  | nil => simp at ha
  | cons x rest ih =>
    simp only [List.map_cons, List.nodup_cons, List.mem_map, not_exists, not_and] at h
    rcases List.mem_cons.mp ha with rfl | ha' <;> rcases List.mem_cons.mp hb with rfl | hb'
    · rfl
    · exact absurd hab.symm (h.1 b hb')
    · exact absurd hab (h.1 a ha')
    · exact ih h.2 ha' hb'

/-- with distinct names every Job gets at most one call -/
theorem Run.one_call {rjs : List JobV} {ac : Int} {cs : List Call} {ok : Bool} {acf : Int}
    (h : Run jc clock rjs ac cs ok acf) (hnd : (rjs.map (·.name)).Nodup) {c1 c2 : Call}
    (h1 : c1 ∈ cs) (h2 : c2 ∈ cs) (hj : c1.job = c2.job) : c1 = c2 :=
  eq_of_nodup_map (·.job) (h.sublist.nodup hnd) h1 h2 hj

/-- what each call says about its Job -/
theorem Run.call_spec {rjs : List JobV} {ac : Int} {cs : List Call} {ok : Bool} {acf : Int}
    (h : Run jc clock rjs ac cs ok acf) :
    ∀ c ∈ cs, ∃ j ∈ rjs, c.job = j.name ∧ ∃ ac', ac ≤ ac' ∧
      ((c.verb = "reject" ∧ j.hasPolicy = true ∧ j.policy = 1 ∧
          startAfterLater j clock = false ∧ overLimit jc ac') ∨
       (c.verb = "start" ∧ startVerdict jc clock j ac')) := by
  induction h with
  | nil => simp
  | defer _ _ _ ih =>
    intro c hc; obtain ⟨j, hj, r⟩ := ih c hc; exact ⟨j, List.mem_cons_of_mem _ hj, r⟩
  | wait _ _ _ _ _ ih =>
    intro c hc; obtain ⟨j, hj, r⟩ := ih c hc; exact ⟨j, List.mem_cons_of_mem _ hj, r⟩
  | @rejectOk j rest ac cs ok acf h1 h2 h3 h4 _ ih =>
    intro c hc
    rcases List.mem_cons.mp hc with rfl | hc
    · exact ⟨j, by simp, rfl, ac, Int.le_refl _, Or.inl ⟨rfl, h1, h3, h2, h4⟩⟩
    · obtain ⟨j', hj, r⟩ := ih c hc; exact ⟨j', List.mem_cons_of_mem _ hj, r⟩
  | @rejectFail j rest ac res h1 h2 h3 h4 =>
    intro c hc; simp only [List.mem_singleton] at hc; subst hc
    exact ⟨j, by simp, rfl, ac, Int.le_refl _, Or.inl ⟨rfl, h1, h3, h2, h4⟩⟩
  | @startOk j rest ac cs ok acf hv _ ih =>
    intro c hc
    rcases List.mem_cons.mp hc with rfl | hc
    · exact ⟨j, by simp, rfl, ac, Int.le_refl _, Or.inr ⟨rfl, hv⟩⟩
    · obtain ⟨j', hj, hn, ac', hle, r⟩ := ih c hc
      exact ⟨j', List.mem_cons_of_mem _ hj, hn, ac', by omega, r⟩
  | @startFail j rest ac res hv =>
    intro c hc; simp only [List.mem_singleton] at hc; subst hc
    exact ⟨j, by simp, rfl, ac, Int.le_refl _, Or.inr ⟨rfl, hv⟩⟩
  | casFail => simp

/-- a call that is not `"ok"` is the last one -/
theorem Run.abort {rjs : List JobV} {ac : Int} {cs : List Call} {ok : Bool} {acf : Int}
    (h : Run jc clock rjs ac cs ok acf) :
    ∀ pre c post, cs = pre ++ c :: post → c.res ≠ "ok" → post = [] := by
  induction h with
  | nil => intro pre c post h; simp at h
  | defer _ _ _ ih => exact ih
  | wait _ _ _ _ _ ih => exact ih
  | rejectOk _ _ _ _ _ ih =>
    intro pre c post h hne
    cases pre with
    | nil => simp only [List.nil_append, List.cons.injEq] at h; rw [← h.1] at hne; exact absurd rfl hne
    | cons p pre' => simp only [List.cons_append, List.cons.injEq] at h; exact ih pre' c post h.2 hne
  | rejectFail =>
    intro pre c post h _
    cases pre with
    | nil => simp only [List.nil_append, List.cons.injEq] at h; exact h.2.symm
    | cons p pre' => simp at h
  | startOk _ _ ih =>
    intro pre c post h hne
    cases pre with
    | nil => simp only [List.nil_append, List.cons.injEq] at h; rw [← h.1] at hne; exact absurd rfl hne
    | cons p pre' => simp only [List.cons_append, List.cons.injEq] at h; exact ih pre' c post h.2 hne
  | startFail =>
    intro pre c post h _
    cases pre with
    | nil => simp only [List.nil_append, List.cons.injEq] at h; exact h.2.symm
    | cons p pre' => simp at h
  | casFail => intro pre c post h; simp at h

/-- a pass that returned nil logged only `"ok"` calls -/
theorem Run.ok_all {rjs : List JobV} {ac : Int} {cs : List Call} {ok : Bool} {acf : Int}
    (h : Run jc clock rjs ac cs ok acf) : ok = true → ∀ c ∈ cs, c.res = "ok" := by
  induction h with
  | nil => simp
  | defer _ _ _ ih => exact ih
  | wait _ _ _ _ _ ih => exact ih
  | rejectOk _ _ _ _ _ ih =>
    intro hok c hc
    rcases List.mem_cons.mp hc with rfl | hc
    · rfl
    · exact ih hok c hc
  | rejectFail => intro h; cases h
  | startOk _ _ ih =>
    intro hok c hc
    rcases List.mem_cons.mp hc with rfl | hc
    · rfl
    · exact ih hok c hc
  | startFail => intro h; cases h
  | casFail => intro h; cases h

/-- a pass that returned an error stopped at some Job `j`: the Jobs before it were processed by
an ok pass, and `j` contributed the last call (failed or lost write) or no call (CAS failure);
nothing after `j` was touched. -/
theorem Run.false_stop {rjs : List JobV} {ac : Int} {cs : List Call} {ok : Bool} {acf : Int}
    (h : Run jc clock rjs ac cs ok acf) : ok = false →
    ∃ l1 j l2 cs1, rjs = l1 ++ j :: l2 ∧ Run jc clock l1 ac cs1 true acf ∧
      ((cs = cs1 ∧ startVerdict jc clock j acf) ∨ ∃ v r, cs = cs1 ++ [⟨v, j.name, r⟩]) := by
  induction h with
  | nil => intro h; cases h
  | @defer j rest ac cs ok acf h1 h2 _ ih =>
    intro hok
    obtain ⟨l1, j', l2, cs1, hl, hr, hc⟩ := ih hok
    exact ⟨j :: l1, j', l2, cs1, by simp [hl], Run.defer h1 h2 hr, hc⟩
  | @wait j rest ac cs ok acf h1 h2 h3 h4 _ ih =>
    intro hok
    obtain ⟨l1, j', l2, cs1, hl, hr, hc⟩ := ih hok
    exact ⟨j :: l1, j', l2, cs1, by simp [hl], Run.wait h1 h2 h3 h4 hr, hc⟩
  | @rejectOk j rest ac cs ok acf h1 h2 h3 h4 _ ih =>
    intro hok
    obtain ⟨l1, j', l2, cs1, hl, hr, hc⟩ := ih hok
    refine ⟨j :: l1, j', l2, _ :: cs1, by simp [hl], Run.rejectOk h1 h2 h3 h4 hr, ?_⟩
    rcases hc with ⟨hc, hv⟩ | ⟨v, r, hc⟩
    · exact Or.inl ⟨by rw [hc], hv⟩
    · exact Or.inr ⟨v, r, by rw [hc]; rfl⟩
  | @rejectFail j rest ac res _ _ _ _ =>
    intro _; exact ⟨[], j, rest, [], rfl, Run.nil ac, Or.inr ⟨_, _, rfl⟩⟩
  | @startOk j rest ac cs ok acf hv _ ih =>
    intro hok
    obtain ⟨l1, j', l2, cs1, hl, hr, hc⟩ := ih hok
    refine ⟨j :: l1, j', l2, _ :: cs1, by simp [hl], Run.startOk hv hr, ?_⟩
    rcases hc with ⟨hc, hv⟩ | ⟨v, r, hc⟩
    · exact Or.inl ⟨by rw [hc], hv⟩
    · exact Or.inr ⟨v, r, by rw [hc]; rfl⟩
  | @startFail j rest ac res _ =>
    intro _; exact ⟨[], j, rest, [], rfl, Run.nil ac, Or.inr ⟨_, _, rfl⟩⟩
  | @casFail j rest ac hv =>
    intro _; exact ⟨[], j, rest, [], rfl, Run.nil ac, Or.inl ⟨rfl, hv⟩⟩

/-- an ok pass leaves no due Job behind: it was started, or it is Enqueue and the limit is
reached at the end of the pass, or it is Forbid and was rejected -/
theorem Run.complete {rjs : List JobV} {ac : Int} {cs : List Call} {ok : Bool} {acf : Int}
    (h : Run jc clock rjs ac cs ok acf) : ok = true → ∀ j ∈ rjs, due j clock →
      ⟨"start", j.name, "ok"⟩ ∈ cs ∨
      (j.hasPolicy = true ∧ j.policy = 2 ∧ overLimit jc acf) ∨
      (j.hasPolicy = true ∧ j.policy = 1 ∧ ⟨"reject", j.name, "ok"⟩ ∈ cs) := by
  induction h with
  | nil => simp
  | @defer j rest ac cs ok acf h1 h2 _ ih =>
    intro hok x hx hdue
    rcases List.mem_cons.mp hx with rfl | hx
    · exact absurd ⟨h1, h2⟩ hdue
    · exact ih hok x hx hdue
  | @wait j rest ac cs ok acf h1 h2 h3 h4 hr ih =>
    intro hok x hx hdue
    rcases List.mem_cons.mp hx with rfl | hx
    · have := hr.mono
      exact Or.inr (Or.inl ⟨h1, h3, by unfold overLimit at h4 ⊢; omega⟩)
    · exact ih hok x hx hdue
  | @rejectOk j rest ac cs ok acf h1 h2 h3 h4 _ ih =>
    intro hok x hx hdue
    rcases List.mem_cons.mp hx with rfl | hx
    · exact Or.inr (Or.inr ⟨h1, h3, by simp⟩)
    · rcases ih hok x hx hdue with h | h | ⟨ha, hb, hc⟩
      · exact Or.inl (List.mem_cons_of_mem _ h)
      · exact Or.inr (Or.inl h)
      · exact Or.inr (Or.inr ⟨ha, hb, List.mem_cons_of_mem _ hc⟩)
  | rejectFail => intro h; cases h
  | @startOk j rest ac cs ok acf hv _ ih =>
    intro hok x hx hdue
    rcases List.mem_cons.mp hx with rfl | hx
    · exact Or.inl (by simp)
    · rcases ih hok x hx hdue with h | h | ⟨ha, hb, hc⟩
      · exact Or.inl (List.mem_cons_of_mem _ h)
      · exact Or.inr (Or.inl h)
      · exact Or.inr (Or.inr ⟨ha, hb, List.mem_cons_of_mem _ hc⟩)
  | startFail => intro h; cases h
  | casFail => intro h; cases h

/-! ### FIFO among Enqueue Jobs -/

/-- if the Enqueue Job `B` further down the list is started, the limit was not reached at the
beginning -/
theorem Run.start_later_not_over {l2 l3 : List JobV} {B : JobV} {ac : Int} {cs : List Call}
    {ok : Bool} {acf : Int} (hB1 : B.hasPolicy = true) (hB2 : B.policy = 2)
    (hnd : ((l2 ++ B :: l3).map (·.name)).Nodup)
    (h : Run jc clock (l2 ++ B :: l3) ac cs ok acf) (hs : ⟨"start", B.name, "ok"⟩ ∈ cs) :
    ¬ overLimit jc ac := by
  induction l2 generalizing ac cs with
  | nil =>
    simp only [List.nil_append, List.map_cons, List.nodup_cons] at hnd h
    have hnot : ∀ {cs' ok' ac'}, Run jc clock l3 ac' cs' ok' acf → ⟨"start", B.name, "ok"⟩ ∈ cs' → False :=
      fun hr hm => hnd.1 (hr.job_mem hm)
    cases h with
    | defer _ _ hr => exact (hnot hr hs).elim
    | wait _ _ _ _ hr => exact (hnot hr hs).elim
    | rejectOk _ _ h3 _ hr => omega
    | rejectFail _ _ _ h3 => omega
    | startOk hv hr => exact fun hov => hv.2 ⟨hB1, Or.inr hB2, hov⟩
    | startFail _ hv => exact fun hov => hv.2 ⟨hB1, Or.inr hB2, hov⟩
    | casFail => simp at hs
  | cons x l2 ih =>
    simp only [List.cons_append, List.map_cons, List.nodup_cons] at hnd h
    have hne : x.name ≠ B.name := fun he => hnd.1 (by simp [he])
    have hcall : ∀ v r, (⟨"start", B.name, "ok"⟩ : Call) ≠ ⟨v, x.name, r⟩ := by
      intro v r he; exact hne (by injection he with _ h2 _; exact h2.symm)
    cases h with
    | defer _ _ hr => exact ih hnd.2 hr hs
    | wait _ _ _ _ hr => exact ih hnd.2 hr hs
    | rejectOk _ _ _ _ hr =>
      rcases List.mem_cons.mp hs with he | hs
      · exact (hcall _ _ he).elim
      · exact ih hnd.2 hr hs
    | rejectFail =>
      simp only [List.mem_singleton] at hs; exact (hcall _ _ hs).elim
    | startOk _ hr =>
      rcases List.mem_cons.mp hs with he | hs
      · exact (hcall _ _ he).elim
      · have := ih hnd.2 hr hs
        unfold overLimit at this ⊢; omega
    | startFail =>
      simp only [List.mem_singleton] at hs; exact (hcall _ _ hs).elim
    | casFail => simp at hs

/-- FIFO: a due Enqueue Job earlier in the list is started whenever a later Enqueue Job is -/
theorem Run.fifo {l1 l2 l3 : List JobV} {A B : JobV} {ac : Int} {cs : List Call}
    {ok : Bool} {acf : Int}
    (hA1 : A.hasPolicy = true) (hA2 : A.policy = 2) (hA3 : startAfterLater A clock = false)
    (hB1 : B.hasPolicy = true) (hB2 : B.policy = 2)
    (hnd : ((l1 ++ A :: l2 ++ B :: l3).map (·.name)).Nodup)
    (h : Run jc clock (l1 ++ A :: l2 ++ B :: l3) ac cs ok acf)
    (hs : ⟨"start", B.name, "ok"⟩ ∈ cs) : ⟨"start", A.name, "ok"⟩ ∈ cs := by
  induction l1 generalizing ac cs with
  | nil =>
    simp only [List.nil_append, List.cons_append, List.map_cons, List.nodup_cons] at hnd h
    have hne : A.name ≠ B.name := fun he => hnd.1 (by simp [he])
    have hcall : ∀ v r, (⟨"start", B.name, "ok"⟩ : Call) ≠ ⟨v, A.name, r⟩ := by
      intro v r he; exact hne (by injection he with _ h2 _; exact h2.symm)
    cases h with
    | defer _ h2 _ => rw [hA3] at h2; cases h2
    | wait _ _ _ hov hr => exact absurd hov (Run.start_later_not_over hB1 hB2 hnd.2 hr hs)
    | rejectOk _ _ h3 _ _ => omega
    | rejectFail _ _ _ h3 => omega
    | startOk _ _ => simp
    | startFail => simp only [List.mem_singleton] at hs; exact (hcall _ _ hs).elim
    | casFail => simp at hs
  | cons x l1 ih =>
    simp only [List.cons_append, List.map_cons, List.nodup_cons] at hnd h
    have hne : x.name ≠ B.name := fun he => hnd.1 (by simp [he])
    have hcall : ∀ v r, (⟨"start", B.name, "ok"⟩ : Call) ≠ ⟨v, x.name, r⟩ := by
      intro v r he; exact hne (by injection he with _ h2 _; exact h2.symm)
    have hnd' : ((l1 ++ A :: l2 ++ B :: l3).map (·.name)).Nodup := by
      simpa using hnd.2
    cases h with
    | defer _ _ hr => exact ih hnd' hr hs
    | wait _ _ _ _ hr => exact ih hnd' hr hs
    | rejectOk _ _ _ _ hr =>
      rcases List.mem_cons.mp hs with he | hs
      · exact (hcall _ _ he).elim
      · exact List.mem_cons_of_mem _ (ih hnd' hr hs)
    | rejectFail =>
      simp only [List.mem_singleton] at hs; exact (hcall _ _ hs).elim
    | startOk _ hr =>
      rcases List.mem_cons.mp hs with he | hs
      · exact (hcall _ _ he).elim
      · exact List.mem_cons_of_mem _ (ih hnd' hr hs)
    | startFail =>
      simp only [List.mem_singleton] at hs; exact (hcall _ _ hs).elim
    | casFail => simp at hs

end Furiko.Queue
