/- Helper lemmas: counters as `countP`, per-index status characterisations, the summary in terms
of refs, membership in the sorted ref list.  Core Lean only. -/
import FurikoModel.Model.JobStatus
namespace Furiko.StatusLemmas
open Furiko

-- ---------------------------------------------------------------- counters as countP

def isTermState (s : IndexStatus) : Bool :=
  s.state == .notCreated || s.state == .retryBackoff || s.state == .terminated
def isCreatedState (s : IndexStatus) : Bool :=
  s.state == .retryBackoff || s.state == .starting || s.state == .running || s.state == .terminated
def isSucc (s : IndexStatus) : Bool := s.result == .succeeded
def isFail (s : IndexStatus) : Bool := s.result == .failed

theorem counters_foldl (l : List IndexStatus) : ∀ (c : Counters),
    (l.foldl Counters.add c).terminated = c.terminated + (l.countP isTermState : Nat) ∧
    (l.foldl Counters.add c).succeeded = c.succeeded + (l.countP isSucc : Nat) ∧
    (l.foldl Counters.add c).failed = c.failed + (l.countP isFail : Nat) ∧
    (l.foldl Counters.add c).created = c.created + (l.countP isCreatedState : Nat) ∧
    (l.foldl Counters.add c).retryBackoff = c.retryBackoff + (l.countP (fun s => s.state == .retryBackoff) : Nat) ∧
    (l.foldl Counters.add c).starting = c.starting + (l.countP (fun s => s.state == .starting) : Nat) ∧
    (l.foldl Counters.add c).running = c.running + (l.countP (fun s => s.state == .running) : Nat) := by
  induction l with
  | nil => intro c; simp
  | cons s ss ih =>
    intro c
    simp only [List.foldl_cons, List.countP_cons]
    obtain ⟨h1, h2, h3, h4, h5, h6, h7⟩ := ih (c.add s)
    rw [h1, h2, h3, h4, h5, h6, h7]
    unfold Counters.add isTermState isCreatedState isSucc isFail
    cases hs : s.state <;> cases hr : s.result <;> simp <;> omega

theorem counters_eq (l : List IndexStatus) :
    (getParallelStatusCounters l).terminated = (l.countP isTermState : Nat) ∧
    (getParallelStatusCounters l).succeeded = (l.countP isSucc : Nat) ∧
    (getParallelStatusCounters l).failed = (l.countP isFail : Nat) ∧
    (getParallelStatusCounters l).created = (l.countP isCreatedState : Nat) := by
  have := counters_foldl l {}
  unfold getParallelStatusCounters
  simp only [Int.zero_add] at this
  exact ⟨this.1, this.2.1, this.2.2.1, this.2.2.2.1⟩

-- ---------------------------------------------------------------- getIndexStatus

theorem indexStatus_succeeded_iff (i : PIndex) (h : String) (ts : List TaskRef) (m : Int) :
    (getIndexStatus i h ts m).result = .succeeded ↔ ∃ t ∈ ts, t.status.result = .succeeded := by
  unfold getIndexStatus
  simp only
  by_cases hs : ts.any refSucceeded = true
  · simp only [hs, if_true, true_iff]
    obtain ⟨t, ht, hr⟩ := List.any_eq_true.mp hs
    exact ⟨t, ht, by simpa [refSucceeded] using hr⟩
  · have hs' : ts.any refSucceeded = false := by simpa using hs
    simp only [hs', Bool.false_eq_true, if_false]
    constructor
    · intro hx; split at hx <;> cases hx
    · rintro ⟨t, ht, hr⟩
      have : ts.any refSucceeded = true := List.any_eq_true.mpr ⟨t, ht, by simp [refSucceeded, hr]⟩
      rw [hs'] at this; cases this

theorem indexStatus_failed_iff (i : PIndex) (h : String) (ts : List TaskRef) (m : Int) :
    (getIndexStatus i h ts m).result = .failed ↔
      (¬ ∃ t ∈ ts, t.status.result = .succeeded) ∧ ((ts.countP refTerminal : Nat) : Int) ≥ m := by
  unfold getIndexStatus
  simp only
  by_cases hs : ts.any refSucceeded = true
  · simp only [hs, if_true, Bool.not_true, Bool.false_and]
    constructor
    · intro hx; cases hx
    · rintro ⟨hx, _⟩
      obtain ⟨t, ht, hr⟩ := List.any_eq_true.mp hs
      exact absurd ⟨t, ht, by simpa [refSucceeded] using hr⟩ hx
  · have hs' : ts.any refSucceeded = false := by simpa using hs
    have hno : ¬ ∃ t ∈ ts, t.status.result = .succeeded := by
      rintro ⟨t, ht, he⟩
      have : ts.any refSucceeded = true := List.any_eq_true.mpr ⟨t, ht, by simp [refSucceeded, he]⟩
      rw [hs'] at this; cases this
    simp only [hs', Bool.not_false, Bool.true_and, Bool.false_eq_true, if_false]
    by_cases hm : ((ts.countP refTerminal : Nat) : Int) ≥ m
    · simp only [hm, decide_true, if_true, true_iff, and_true]; exact hno
    · simp [hm]

/-- an index status is in a "terminated" state (NotCreated / RetryBackoff / Terminated — the
states that increment `Terminated`) exactly when every ref of the index is finished -/
theorem indexStatus_term_iff (i : PIndex) (h : String) (ts : List TaskRef) (m : Int) :
    isTermState (getIndexStatus i h ts m) = true ↔ ∀ t ∈ ts, t.finishTimestamp.isSome = true := by
  have hcl := List.countP_le_length (p := refTerminal) (l := ts)
  have hce := List.countP_eq_length (p := refTerminal) (l := ts)
  unfold refTerminal at hce
  rw [← hce]
  unfold getIndexStatus isTermState
  simp only
  by_cases h0 : ts.length = 0
  · have : ts = [] := List.eq_nil_of_length_eq_zero h0
    subst this
    simp
  · have h0' : (ts.length == 0) = false := by simpa using h0
    rw [if_neg (by simp [h0'])]
    by_cases hall : List.countP refTerminal ts = ts.length
    · have e : (((List.countP refTerminal ts : Nat) : Int) == (ts.length : Int)) = true := by
        simp only [beq_iff_eq]; omega
      simp only [e, Bool.true_and, if_true]
      have hall' : List.countP (fun t => t.finishTimestamp.isSome) ts = ts.length := hall
      simp only [hall', iff_true]
      split <;> simp
    · have e : (((List.countP refTerminal ts : Nat) : Int) == (ts.length : Int)) = false := by
        simp only [beq_eq_false_iff_ne, ne_eq]; omega
      simp only [e, Bool.false_and, Bool.false_eq_true, if_false]
      have hall' : ¬ List.countP (fun t => t.finishTimestamp.isSome) ts = ts.length := hall
      simp only [hall', iff_false]
      split
      · simp
      · split <;> simp

-- ---------------------------------------------------------------- summary in terms of refs

/-- some ref of index `i` has result Succeeded -/
def IndexSucceeded (d : PIndex) (tasks : List TaskRef) (i : PIndex) : Prop :=
  ∃ t ∈ tasks, t.hash d = i.hash ∧ t.status.result = .succeeded

/-- index `i` used up its attempts: no ref succeeded and at least `maxAttempts` refs finished -/
def IndexExhausted (d : PIndex) (tasks : List TaskRef) (m : Int) (i : PIndex) : Prop :=
  ¬ IndexSucceeded d tasks i ∧ (((tasksOfHash d tasks i.hash).countP refTerminal : Nat) : Int) ≥ m

/-- every ref of index `i` carries a finish timestamp -/
def IndexAllFinished (d : PIndex) (tasks : List TaskRef) (i : PIndex) : Prop :=
  ∀ t ∈ tasks, t.hash d = i.hash → t.finishTimestamp.isSome = true

theorem mem_tasksOfHash (d : PIndex) (tasks : List TaskRef) (h : String) (t : TaskRef) :
    t ∈ tasksOfHash d tasks h ↔ t ∈ tasks ∧ t.hash d = h := by
  unfold tasksOfHash
  simp [List.mem_filter]

theorem status_succ_iff (d : PIndex) (job : Job) (tasks : List TaskRef) (i : PIndex) :
    isSucc (getIndexStatus i i.hash (tasksOfHash d tasks i.hash) job.maxAttempts) = true ↔ IndexSucceeded d tasks i := by
  unfold isSucc IndexSucceeded
  rw [beq_iff_eq, indexStatus_succeeded_iff]
  constructor
  · rintro ⟨t, ht, hr⟩
    have := (mem_tasksOfHash d tasks i.hash t).mp ht
    exact ⟨t, this.1, this.2, hr⟩
  · rintro ⟨t, ht, hh, hr⟩
    exact ⟨t, (mem_tasksOfHash d tasks i.hash t).mpr ⟨ht, hh⟩, hr⟩

theorem status_fail_iff (d : PIndex) (job : Job) (tasks : List TaskRef) (i : PIndex) :
    isFail (getIndexStatus i i.hash (tasksOfHash d tasks i.hash) job.maxAttempts) = true ↔
      IndexExhausted d tasks job.maxAttempts i := by
  unfold isFail IndexExhausted IndexSucceeded
  rw [beq_iff_eq, indexStatus_failed_iff]
  constructor
  · rintro ⟨hn, hm⟩
    refine ⟨?_, hm⟩
    rintro ⟨t, ht, hh, hr⟩
    exact hn ⟨t, (mem_tasksOfHash d tasks i.hash t).mpr ⟨ht, hh⟩, hr⟩
  · rintro ⟨hn, hm⟩
    refine ⟨?_, hm⟩
    rintro ⟨t, ht, hr⟩
    have := (mem_tasksOfHash d tasks i.hash t).mp ht
    exact hn ⟨t, this.1, this.2, hr⟩

theorem status_term_iff (d : PIndex) (job : Job) (tasks : List TaskRef) (i : PIndex) :
    isTermState (getIndexStatus i i.hash (tasksOfHash d tasks i.hash) job.maxAttempts) = true ↔
      IndexAllFinished d tasks i := by
  rw [indexStatus_term_iff]
  unfold IndexAllFinished
  constructor
  · intro h t ht hh
    exact h t ((mem_tasksOfHash d tasks i.hash t).mpr ⟨ht, hh⟩)
  · intro h t ht
    have := (mem_tasksOfHash d tasks i.hash t).mp ht
    exact h t this.1 this.2

/-- counting over the per-index statuses = counting over the index list -/
theorem countP_statuses (d : PIndex) (job : Job) (tasks : List TaskRef) (p : IndexStatus → Bool) :
    (indexStatuses d job tasks).countP p =
      (job.indexes d).countP (fun i => p (getIndexStatus i i.hash (tasksOfHash d tasks i.hash) job.maxAttempts)) := by
  unfold indexStatuses
  rw [List.countP_map]
  rfl

theorem length_statuses (d : PIndex) (job : Job) (tasks : List TaskRef) :
    (indexStatuses d job tasks).length = (job.indexes d).length := by
  unfold indexStatuses; simp

/-- `countP p l ≥ length` as integers ↔ everything satisfies `p` -/
theorem countP_ge_length_iff {α} (p : α → Bool) (l : List α) :
    ((l.countP p : Nat) : Int) ≥ (l.length : Int) ↔ ∀ a ∈ l, p a = true := by
  have := List.countP_le_length (p := p) (l := l)
  rw [← List.countP_eq_length]
  omega

theorem countP_pos_int_iff {α} (p : α → Bool) (l : List α) :
    ((l.countP p : Nat) : Int) > 0 ↔ ∃ a ∈ l, p a = true := by
  rw [← List.countP_pos_iff]
  omega

/-- all indexes terminated ⇔ `counters.Terminated >= numIndexes` -/
theorem terminated_ge_iff (d : PIndex) (job : Job) (tasks : List TaskRef) :
    (getParallelStatusCounters (indexStatuses d job tasks)).terminated ≥ ((job.indexes d).length : Int) ↔
      ∀ i ∈ job.indexes d, IndexAllFinished d tasks i := by
  rw [(counters_eq _).1, countP_statuses, countP_ge_length_iff]
  constructor
  · intro h i hi; exact (status_term_iff d job tasks i).mp (h i hi)
  · intro h i hi; exact (status_term_iff d job tasks i).mpr (h i hi)

/-- the strategy is satisfied by refs whose result is Succeeded -/
def Satisfied (d : PIndex) (job : Job) (tasks : List TaskRef) : Prop :=
  match job.strategy with
  | .allSuccessful => ∀ i ∈ job.indexes d, IndexSucceeded d tasks i
  | .anySuccessful => ∃ i ∈ job.indexes d, IndexSucceeded d tasks i
  | _ => False

/-- the strategy can no longer be satisfied -/
def Unsatisfiable (d : PIndex) (job : Job) (tasks : List TaskRef) : Prop :=
  match job.strategy with
  | .allSuccessful => ∃ i ∈ job.indexes d, IndexExhausted d tasks job.maxAttempts i
  | .anySuccessful => ∀ i ∈ job.indexes d, IndexExhausted d tasks job.maxAttempts i
  | _ => False

theorem outcome_iff (d : PIndex) (job : Job) (tasks : List TaskRef) :
    ((strategyOutcome job.strategy (getParallelStatusCounters (indexStatuses d job tasks)) (job.indexes d).length).1 = true ↔
        Satisfied d job tasks) ∧
    ((strategyOutcome job.strategy (getParallelStatusCounters (indexStatuses d job tasks)) (job.indexes d).length).2 = true ↔
        Unsatisfiable d job tasks) := by
  have hc := counters_eq (indexStatuses d job tasks)
  unfold strategyOutcome Satisfied Unsatisfiable
  cases hst : job.strategy <;> simp only [Bool.false_eq_true, and_self, decide_eq_true_eq]
  · -- allSuccessful
    rw [hc.2.1, hc.2.2.1, countP_statuses, countP_statuses, countP_ge_length_iff, countP_pos_int_iff]
    constructor
    · constructor
      · intro h i hi; exact (status_succ_iff d job tasks i).mp (h i hi)
      · intro h i hi; exact (status_succ_iff d job tasks i).mpr (h i hi)
    · constructor
      · rintro ⟨i, hi, h⟩; exact ⟨i, hi, (status_fail_iff d job tasks i).mp h⟩
      · rintro ⟨i, hi, h⟩; exact ⟨i, hi, (status_fail_iff d job tasks i).mpr h⟩
  · -- anySuccessful
    rw [hc.2.1, hc.2.2.1, countP_statuses, countP_statuses, countP_ge_length_iff, countP_pos_int_iff]
    constructor
    · constructor
      · rintro ⟨i, hi, h⟩; exact ⟨i, hi, (status_succ_iff d job tasks i).mp h⟩
      · rintro ⟨i, hi, h⟩; exact ⟨i, hi, (status_succ_iff d job tasks i).mpr h⟩
    · constructor
      · intro h i hi; exact (status_fail_iff d job tasks i).mp (h i hi)
      · intro h i hi; exact (status_fail_iff d job tasks i).mpr (h i hi)

theorem not_satisfied_and_unsatisfiable (d : PIndex) (job : Job) (tasks : List TaskRef) :
    ¬ (Satisfied d job tasks ∧ Unsatisfiable d job tasks) := by
  unfold Satisfied Unsatisfiable
  cases job.strategy <;> simp only [and_false, not_false_eq_true]
  · rintro ⟨hs, i, hi, he⟩; exact he.1 (hs i hi)
  · rintro ⟨⟨i, hi, hs⟩, he⟩; exact (he i hi).1 hs

/-- the summary, stated on refs -/
theorem summary_iff (d : PIndex) (job : Job) (tasks : List TaskRef) :
    ((getParallelTaskSummary d job tasks).successful = some true ↔ Satisfied d job tasks) ∧
    ((getParallelTaskSummary d job tasks).successful = some false ↔ Unsatisfiable d job tasks) ∧
    ((getParallelTaskSummary d job tasks).complete = true ↔ Satisfied d job tasks ∨ Unsatisfiable d job tasks) ∧
    ((getParallelTaskSummary d job tasks).complete = true ↔ (getParallelTaskSummary d job tasks).successful ≠ none) := by
  have ho := outcome_iff d job tasks
  have hx := not_satisfied_and_unsatisfiable d job tasks
  unfold getParallelTaskSummary
  simp only
  generalize strategyOutcome job.strategy (getParallelStatusCounters (indexStatuses d job tasks)) (job.indexes d).length = o at ho
  obtain ⟨s, f⟩ := o
  simp only at ho
  cases s <;> cases f <;> simp_all

-- ---------------------------------------------------------------- sorted refs: same members

theorem mem_insertRef (x y : TaskRef) : ∀ (l : List TaskRef), y ∈ insertRef x l ↔ y = x ∨ y ∈ l
  | [] => by simp [insertRef]
  | z :: zs => by
    unfold insertRef
    split
    · simp
    · simp only [List.mem_cons, mem_insertRef x y zs]
      constructor
      · rintro (h | h | h) <;> simp [h]
      · rintro (h | h | h) <;> simp [h]

theorem mem_foldl_insertRef (y : TaskRef) : ∀ (l acc : List TaskRef),
    y ∈ l.foldl (fun acc x => insertRef x acc) acc ↔ y ∈ l ∨ y ∈ acc
  | [], acc => by simp
  | x :: xs, acc => by
    simp only [List.foldl_cons, mem_foldl_insertRef y xs, mem_insertRef, List.mem_cons]
    constructor
    · rintro (h | h | h) <;> simp [h]
    · rintro ((h | h) | h) <;> simp [h]

theorem mem_sortTaskRefs (y : TaskRef) (l : List TaskRef) : y ∈ sortTaskRefs l ↔ y ∈ l := by
  unfold sortTaskRefs
  rw [mem_foldl_insertRef]
  simp

theorem length_insertRef (x : TaskRef) : ∀ (l : List TaskRef), (insertRef x l).length = l.length + 1
  | [] => rfl
  | z :: zs => by
    unfold insertRef
    split
    · simp
    · simp [length_insertRef x zs]

theorem length_foldl_insertRef : ∀ (l acc : List TaskRef),
    (l.foldl (fun acc x => insertRef x acc) acc).length = l.length + acc.length
  | [], acc => by simp
  | x :: xs, acc => by
    simp only [List.foldl_cons, length_foldl_insertRef xs, length_insertRef, List.length_cons]
    omega

theorem length_sortTaskRefs (l : List TaskRef) : (sortTaskRefs l).length = l.length := by
  unfold sortTaskRefs
  rw [length_foldl_insertRef]
  simp

-- ---------------------------------------------------------------- lookupRef / getTaskRef

theorem find_of_nodup_names : ∀ (l : List TaskRef), (l.map (·.name)).Nodup → ∀ x ∈ l,
    l.find? (fun r => r.name == x.name) = some x
  | [], _, x, hx => by cases hx
  | y :: ys, hnd, x, hx => by
    simp only [List.map_cons, List.nodup_cons] at hnd
    rw [List.find?_cons]
    by_cases hyx : y.name = x.name
    · have : y = x := by
        rcases List.mem_cons.mp hx with h | h
        · exact h.symm
        · exact absurd (List.mem_map.mpr ⟨x, h, hyx.symm⟩) hnd.1
      simp [this]
    · have hne : (y.name == x.name) = false := by simpa using hyx
      rw [hne]
      rcases List.mem_cons.mp hx with h | h
      · exact absurd (by rw [h]) hyx
      · exact find_of_nodup_names ys hnd.2 x h

/-- with pairwise distinct names, `existingRefs[name]` is the ref of that name -/
theorem lookupRef_of_nodup (existing : List TaskRef) (hnd : (existing.map (·.name)).Nodup) (ex : TaskRef)
    (hex : ex ∈ existing) : lookupRef existing ex.name = some ex := by
  unfold lookupRef
  apply find_of_nodup_names
  · rw [List.map_reverse]
    unfold List.Nodup at *
    rw [List.pairwise_reverse]
    exact hnd.imp (fun h => Ne.symm h)
  · exact List.mem_reverse.mpr hex

theorem getTaskRef_name (e : Option TaskRef) (t : Task) : (getTaskRef e t).name = t.ref.name := by
  unfold getTaskRef
  cases e <;> simp only <;> repeat' split
  all_goals rfl

end Furiko.StatusLemmas
