/-
Plan-level lemmas, second part: the deleting handlers of `syncJobTasks`
(`handlePendingTasks`, `handleKillJob`, `handleForceDelete`), `handleTTL` and `handleFinalizer`:
which calls each appends, for which tasks, under which condition, and which timers it arms.
Core Lean only.
-/
import FurikoModel.Proofs.JobCtlPlan

namespace Furiko.JobCtlPlan
open Furiko Furiko.JobCtl Furiko.WQ

-- ---------------------------------------------------------------- markDeleted

theorem markDeleted_nil (rj : Job) (f : TaskRef → TaskRef) : markDeleted rj [] f = rj := by
  unfold markDeleted
  simp

/-- every ref of the marked Job whose name is in `names` is `f` of an original ref -/
theorem markDeleted_marked (rj : Job) (names : List String) (f : TaskRef → TaskRef) :
    ∀ r' ∈ (markDeleted rj names f).status.tasks, r'.name ∈ names → ∃ r ∈ rj.status.tasks, r' = f r := by
  intro r' hr' hn
  unfold markDeleted at hr'
  obtain ⟨r, hr, he⟩ := List.mem_map.mp hr'
  by_cases hc : names.contains r.name = true
  · simp only [hc, if_true] at he
    exact ⟨r, hr, he.symm⟩
  · simp only [hc, Bool.false_eq_true, if_false] at he
    subst he
    exact absurd (by simpa using hn) hc

/-- … and the refs keep their names and positions -/
theorem markDeleted_names (rj : Job) (names : List String) (f : TaskRef → TaskRef)
    (hf : ∀ r, (f r).name = r.name) :
    (markDeleted rj names f).status.tasks.map (·.name) = rj.status.tasks.map (·.name) := by
  unfold markDeleted
  simp only [List.map_map]
  apply List.map_congr_left
  intro r _
  simp only [Function.comp]
  split
  · exact hf r
  · rfl

-- ---------------------------------------------------------------- handleKillJob

/-- the tasks the kill step deletes: unfinished and without deletion timestamp -/
def killTargets (tasks : List Task) : List Task :=
  tasks.filter (fun t => !isTaskFinished t && t.deletionTimestamp.isNone)

/-- the marker the kill step writes -/
def killedStatus : TaskStatus := { state := .terminated, result := .killed, reason := "" }

/-- the Job the kill step returns when its deletes succeed -/
def killMark (rj : Job) (tasks : List Task) : Job :=
  markDeleted rj ((killTargets tasks).map (·.name)) (fun r => { r with deletedStatus := some killedStatus })

theorem mem_killTargets (tasks : List Task) (t : Task) :
    t ∈ killTargets tasks ↔ t ∈ tasks ∧ isTaskFinished t = false ∧ t.deletionTimestamp = none := by
  unfold killTargets
  rw [List.mem_filter]
  cases t.deletionTimestamp <;> cases isTaskFinished t <;> simp

theorem handleKillJob_eq (s : Sys) (jo : JobObj) (rj : Job) (tasks : List Task) :
    handleKillJob s jo rj tasks =
      if shouldKillJob s.clock rj = true then
        if (killTargets tasks).isEmpty = true then (s, some rj)
        else ((deleteTasks s (killTargets tasks) false).1,
              if (deleteTasks s (killTargets tasks) false).2 = true then some (killMark rj tasks) else none)
      else match rj.killTimestamp with
        | some ts => (enqueueAfter s (jobKey jo) ts, some rj)
        | none => (s, some rj) := by
  unfold handleKillJob
  cases shouldKillJob s.clock rj <;> rfl

/-- the kill step when the Job is not to be killed (yet): no call, the Job is returned as it is,
and a kill timestamp that is still in the future arms a timer for it -/
theorem handleKillJob_not (s : Sys) (jo : JobObj) (rj : Job) (tasks : List Task)
    (hk : shouldKillJob s.clock rj = false) :
    handleKillJob s jo rj tasks =
      (match rj.killTimestamp with
        | some ts => enqueueAfter s (jobKey jo) ts
        | none => s, some rj) := by
  rw [handleKillJob_eq, if_neg (by simp [hk])]
  cases rj.killTimestamp <;> rfl

/-- `handleKillJob`: the calls it appends are non-forced pod deletes, one per unfinished task
without deletion timestamp, issued only when `shouldKillJob` holds; it arms no timer then, and
when the Job is not to be killed its only effect is the timer for a future kill timestamp. -/
theorem handleKillJob_ext (s : Sys) (jo : JobObj) (rj : Job) (tasks : List Task) :
    ∃ l, Ext s (handleKillJob s jo rj tasks).1 l ∧
      (((shouldKillJob s.clock rj = true ∨ rj.killTimestamp = none) → (handleKillJob s jo rj tasks).1.q = s.q) ∧
        (shouldKillJob s.clock rj = false → ∀ ts, rj.killTimestamp = some ts →
          handleKillJob s jo rj tasks = (enqueueAfter s (jobKey jo) ts, some rj))) ∧
      (∀ c ∈ l, c.verb = "delete" ∧ c.res = "pods" ∧ c.force = false ∧ shouldKillJob s.clock rj = true ∧
        ∃ t ∈ tasks, t.name = c.name ∧ isTaskFinished t = false ∧ t.deletionTimestamp = none) ∧
      (shouldKillJob s.clock rj = true →
        (∀ t ∈ tasks, isTaskFinished t = false → t.deletionTimestamp = none → ∃ c ∈ l, c.name = t.name) ∧
        (∀ rj', (handleKillJob s jo rj tasks).2 = some rj' → rj' = killMark rj tasks) ∧
        (NoFault s → (handleKillJob s jo rj tasks).2 = some (killMark rj tasks) ∧
          ∀ c ∈ l, c.out = "ok" ∨ c.out = "notfound")) := by
  by_cases hk : shouldKillJob s.clock rj = true
  · rw [handleKillJob_eq, if_pos hk]
    have hq2 : ∀ x : Sys × Option Job, shouldKillJob s.clock rj = false → ∀ ts, rj.killTimestamp = some ts →
        x = (enqueueAfter s (jobKey jo) ts, some rj) := fun _ h => by rw [hk] at h; cases h
    by_cases he : (killTargets tasks).isEmpty = true
    · rw [if_pos he]
      have hnil : killTargets tasks = [] := by simpa using he
      have hmark : killMark rj tasks = rj := by
        unfold killMark; rw [hnil]; exact markDeleted_nil _ _
      refine ⟨[], Ext.refl s, ⟨fun _ => rfl, hq2 _⟩, by simp, fun _ => ⟨?_, ?_, ?_⟩⟩
      · intro t ht hf hd
        have : t ∈ killTargets tasks := (mem_killTargets tasks t).mpr ⟨ht, hf, hd⟩
        rw [hnil] at this; cases this
      · intro rj' h
        rw [hmark]
        exact (Option.some.inj h).symm
      · intro _
        rw [hmark]
        exact ⟨rfl, by simp⟩
    · rw [if_neg he]
      obtain ⟨l, hext, hall, hcov, hq, hnf⟩ := deleteTasks_ext s (killTargets tasks) false
      refine ⟨l, hext, ⟨fun _ => hq, hq2 _⟩, ?_, fun _ => ⟨?_, ?_, ?_⟩⟩
      · intro c hc
        obtain ⟨hv, hr, hf, t, ht, hn, _⟩ := hall c hc
        obtain ⟨ht1, ht2, ht3⟩ := (mem_killTargets tasks t).mp ht
        exact ⟨hv, hr, hf, hk, t, ht1, hn, ht2, ht3⟩
      · intro t ht hf hd
        refine hcov t ((mem_killTargets tasks t).mpr ⟨ht, hf, hd⟩) (Or.inr ?_)
        intro ts hts; rw [hd] at hts; cases hts
      · intro rj' h
        by_cases hok : (deleteTasks s (killTargets tasks) false).2 = true
        · rw [if_pos hok] at h; exact (Option.some.inj h).symm
        · rw [if_neg hok] at h; cases h
      · intro hno
        obtain ⟨hok, _, hout⟩ := hnf hno
        exact ⟨by rw [if_pos hok], hout⟩
  · have hk' : shouldKillJob s.clock rj = false := by simpa using hk
    rw [handleKillJob_not s jo rj tasks hk']
    cases hts : rj.killTimestamp with
    | none =>
      exact ⟨[], Ext.refl s, ⟨fun _ => rfl, fun _ ts h => (by cases h)⟩, by simp, fun h => absurd h hk⟩
    | some ts =>
      refine ⟨[], enqueueAfter_ext s (jobKey jo) ts, ⟨?_, fun _ ts' h => (by cases h; rfl)⟩, by simp, fun h => absurd h hk⟩
      rintro (h | h)
      · exact absurd h hk
      · cases h

theorem killMark_sameSpec (rj : Job) (tasks : List Task) : SameSpec rj (killMark rj tasks) :=
  markDeleted_sameSpec _ _ _

/-- in the Job returned by the kill step every ref named after a swept task carries
`deletedStatus = Killed` -/
theorem killMark_killed (rj : Job) (tasks : List Task) (t : Task) (ht : t ∈ tasks)
    (hf : isTaskFinished t = false) (hd : t.deletionTimestamp = none) :
    ∀ r' ∈ (killMark rj tasks).status.tasks, r'.name = t.name → r'.deletedStatus = some killedStatus := by
  intro r' hr' hn
  unfold killMark at hr'
  obtain ⟨r, _, he⟩ := markDeleted_marked rj _ _ r' hr' (by
    rw [hn]; exact List.mem_map.mpr ⟨t, (mem_killTargets tasks t).mpr ⟨ht, hf, hd⟩, rfl⟩)
  rw [he]

-- ---------------------------------------------------------------- collect-or-arm folds

/-- what one iteration of a "collect overdue tasks, arm a timer for future deadlines" loop does:
no call, pods and faults untouched, the task is collected iff `due`, and a timer is armed at the
deadline `armAt` gives -/
structure StepSpec (key : String) (due : Int → Task → Bool) (armAt : Int → Task → Option Int)
    (s0 : Sys) (nd : List Task) (t : Task) (r : Sys × List Task) : Prop where
  ext : Ext s0 r.1 []
  pods : r.1.pods = s0.pods
  nofault : NoFault s0 → NoFault r.1
  acc : r.2 = nd ++ (if due s0.clock t = true then [t] else [])
  timer : ∀ dl, armAt s0.clock t = some dl → TimerBy r.1.q key (dueAt s0 dl)
  quiet : armAt s0.clock t = none → r.1.q = s0.q

theorem fold_spec (key : String) (due : Int → Task → Bool) (armAt : Int → Task → Option Int)
    (step : Sys × List Task → Task → Sys × List Task)
    (hstep : ∀ s0 nd t, StepSpec key due armAt s0 nd t (step (s0, nd) t)) :
    ∀ (tasks : List Task) (s0 : Sys) (nd : List Task),
      Ext s0 (tasks.foldl step (s0, nd)).1 [] ∧ (tasks.foldl step (s0, nd)).1.pods = s0.pods ∧
      (NoFault s0 → NoFault (tasks.foldl step (s0, nd)).1) ∧
      (tasks.foldl step (s0, nd)).2 = nd ++ tasks.filter (due s0.clock) ∧
      (∀ t ∈ tasks, ∀ dl, armAt s0.clock t = some dl → TimerBy (tasks.foldl step (s0, nd)).1.q key (dueAt s0 dl)) ∧
      ((∀ t ∈ tasks, armAt s0.clock t = none) → (tasks.foldl step (s0, nd)).1.q = s0.q)
  | [], s0, nd => ⟨Ext.refl s0, rfl, fun h => h, by simp, by simp, fun _ => rfl⟩
  | t :: rest, s0, nd => by
    have h1 := hstep s0 nd t
    obtain ⟨e2, p2, n2, a2, t2, q2⟩ := fold_spec key due armAt step hstep rest (step (s0, nd) t).1 (step (s0, nd) t).2
    simp only [List.foldl_cons] at *
    refine ⟨(h1.ext.trans e2).cast (by simp), p2.trans h1.pods, fun h => n2 (h1.nofault h), ?_, ?_, ?_⟩
    · rw [a2, h1.acc, h1.ext.clock, List.filter_cons]
      split <;> simp
    · intro t' ht' dl hdl
      rcases List.mem_cons.mp ht' with rfl | hr
      · exact e2.timers _ _ (h1.timer dl hdl)
      · have := t2 t' hr dl (by rw [h1.ext.clock]; exact hdl)
        rwa [dueAt_of_ext h1.ext] at this
    · intro hq
      rw [q2 (fun t' ht' => by rw [h1.ext.clock]; exact hq t' (List.mem_cons_of_mem _ ht'))]
      exact h1.quiet (hq t List.mem_cons_self)

-- ---------------------------------------------------------------- handlePendingTasks

/-- the task is still pending as far as the ref `r` says (neither running nor finished); `r` is the ref
`handlePendingTasks` judges the task by, `pendRef rj t` -/
def isPending (r : TaskRef) : Bool := r.finishTimestamp.isNone && r.runningTimestamp.isNone

/-- the pending deadline of a task judged by `r`: creation time (Go zero time if unset) plus the timeout -/
def pendDeadline (T : Int) (r : TaskRef) : Int := (r.creationTimestamp.getD zeroTime : Int) + T

/-- one iteration of the loop of `handlePendingTasks` (pending timeout `T` nanoseconds) -/
def pendStep (key : String) (T : Int) (rj : Job) (acc : Sys × List Task) (t : Task) : Sys × List Task :=
  if (pendRef rj t).finishTimestamp.isSome then acc
  else if (pendRef rj t).runningTimestamp.isSome then acc
  else
    if pendDeadline T (pendRef rj t) > acc.1.clock then (enqueueAfter acc.1 key (pendDeadline T (pendRef rj t)), acc.2)
    else if t.deletionTimestamp.isSome then acc
    else (acc.1, acc.2 ++ [t])

/-- the task is reaped by the pending-timeout step at clock `clk` -/
def pendDue (rj : Job) (T : Int) (clk : Int) (t : Task) : Bool :=
  isPending (pendRef rj t) && decide (pendDeadline T (pendRef rj t) ≤ clk) && t.deletionTimestamp.isNone

/-- the deadline the pending-timeout step arms a timer for -/
def pendArm (rj : Job) (T : Int) (clk : Int) (t : Task) : Option Int :=
  if isPending (pendRef rj t) && decide (clk < pendDeadline T (pendRef rj t)) then some (pendDeadline T (pendRef rj t)) else none

theorem pendStep_spec (key : String) (T : Int) (rj : Job) (s0 : Sys) (nd : List Task) (t : Task) :
    StepSpec key (pendDue rj T) (pendArm rj T) s0 nd t (pendStep key T rj (s0, nd) t) := by
  by_cases hp : isPending (pendRef rj t) = true
  · have hp' := hp
    unfold isPending at hp'
    simp only [Bool.and_eq_true, Option.isNone_iff_eq_none] at hp'
    by_cases hd : s0.clock < pendDeadline T (pendRef rj t)
    · have he : pendStep key T rj (s0, nd) t = (enqueueAfter s0 key (pendDeadline T (pendRef rj t)), nd) := by
        unfold pendStep; simp [hp'.1, hp'.2, hd]
      have hnle : ¬ pendDeadline T (pendRef rj t) ≤ s0.clock := by omega
      rw [he]
      refine ⟨enqueueAfter_ext _ _ _, rfl, fun h => h, by simp [pendDue, hnle], ?_, by simp [pendArm, hp, hd]⟩
      intro dl hdl
      simp only [pendArm, hp, hd, decide_true, Bool.and_self, if_true, Option.some.injEq] at hdl
      subst hdl
      exact enqueueAfter_timer _ _ _
    · have hle : pendDeadline T (pendRef rj t) ≤ s0.clock := by omega
      have hngt : ¬ pendDeadline T (pendRef rj t) > s0.clock := by omega
      cases hdt : t.deletionTimestamp with
      | some dts =>
        have he : pendStep key T rj (s0, nd) t = (s0, nd) := by
          unfold pendStep; simp [hp'.1, hp'.2, hngt, hdt]
        rw [he]
        exact ⟨Ext.refl s0, rfl, fun h => h, by simp [pendDue, hdt], by simp [pendArm, hd], fun _ => rfl⟩
      | none =>
        have he : pendStep key T rj (s0, nd) t = (s0, nd ++ [t]) := by
          unfold pendStep; simp [hp'.1, hp'.2, hngt, hdt]
        rw [he]
        exact ⟨Ext.refl s0, rfl, fun h => h, by simp [pendDue, hp, hle, hdt], by simp [pendArm, hd], fun _ => rfl⟩
  · have he : pendStep key T rj (s0, nd) t = (s0, nd) := by
      unfold pendStep
      unfold isPending at hp
      cases hf : (pendRef rj t).finishTimestamp with
      | some f => simp
      | none =>
        cases hr : (pendRef rj t).runningTimestamp with
        | some r => simp
        | none => simp [hf, hr] at hp
    rw [he]
    exact ⟨Ext.refl s0, rfl, fun h => h, by simp [pendDue, hp], by simp [pendArm, hp], fun _ => rfl⟩

/-- the marker the pending-timeout step writes -/
def pendingStatus : TaskStatus := { state := .terminated, result := .killed, reason := "PendingTimeout" }

theorem handlePendingTasks_eq (s : Sys) (jo : JobObj) (rj : Job) (tasks : List Task) :
    handlePendingTasks s jo rj tasks =
      match getPendingTimeout rj s.cfg with
      | none => (s, some rj)
      | some T =>
        if T ≤ 0 then (s, some rj)
        else
          let r := tasks.foldl (pendStep (jobKey jo) T rj) (s, [])
          if r.2.isEmpty = true then (r.1, some rj)
          else ((deleteTasks r.1 r.2 false).1,
                if (deleteTasks r.1 r.2 false).2 = true then
                  some (markDeleted rj (r.2.map (·.name)) (fun x => { x with deletedStatus := some pendingStatus }))
                else none) := by
  unfold handlePendingTasks
  cases getPendingTimeout rj s.cfg with
  | none => rfl
  | some T => rfl

theorem mem_filter_pendDue (rj : Job) (T clk : Int) (tasks : List Task) (t : Task) :
    t ∈ tasks.filter (pendDue rj T clk) ↔
      t ∈ tasks ∧ isPending (pendRef rj t) = true ∧ pendDeadline T (pendRef rj t) ≤ clk ∧ t.deletionTimestamp = none := by
  rw [List.mem_filter]
  unfold pendDue
  cases t.deletionTimestamp <;> simp

/-- the Job the pending-timeout step returns when its deletes succeed -/
def pendMark (rj : Job) (T clk : Int) (tasks : List Task) : Job :=
  markDeleted rj ((tasks.filter (pendDue rj T clk)).map (·.name)) (fun x => { x with deletedStatus := some pendingStatus })

/-- `handlePendingTasks`: the calls it appends are non-forced pod deletes, exactly for the tasks
that are still pending (no running, no finish timestamp), whose `creation + T` is not after the
clock, and that carry no deletion timestamp, with `T > 0` the effective pending timeout; for
pending tasks whose deadline is in the future a timer is armed instead. -/
theorem handlePendingTasks_ext (s : Sys) (jo : JobObj) (rj : Job) (tasks : List Task) :
    ∃ l, Ext s (handlePendingTasks s jo rj tasks).1 l ∧
      (∀ c ∈ l, c.verb = "delete" ∧ c.res = "pods" ∧ c.force = false ∧
        ∃ T, getPendingTimeout rj s.cfg = some T ∧ 0 < T ∧
          ∃ t ∈ tasks, t.name = c.name ∧ isPending (pendRef rj t) = true ∧ pendDeadline T (pendRef rj t) ≤ s.clock ∧
            t.deletionTimestamp = none) ∧
      ((getPendingTimeout rj s.cfg = none ∨ ∃ T, getPendingTimeout rj s.cfg = some T ∧ T ≤ 0) →
        handlePendingTasks s jo rj tasks = (s, some rj)) ∧
      (∀ T, getPendingTimeout rj s.cfg = some T → 0 < T →
        (∀ t ∈ tasks, isPending (pendRef rj t) = true → pendDeadline T (pendRef rj t) ≤ s.clock → t.deletionTimestamp = none →
          ∃ c ∈ l, c.name = t.name) ∧
        (∀ t ∈ tasks, isPending (pendRef rj t) = true → s.clock < pendDeadline T (pendRef rj t) →
          TimerBy (handlePendingTasks s jo rj tasks).1.q (jobKey jo) (dueAt s (pendDeadline T (pendRef rj t)))) ∧
        (∀ rj', (handlePendingTasks s jo rj tasks).2 = some rj' → rj' = pendMark rj T s.clock tasks) ∧
        (NoFault s → (handlePendingTasks s jo rj tasks).2 = some (pendMark rj T s.clock tasks))) := by
  rw [handlePendingTasks_eq]
  cases hT : getPendingTimeout rj s.cfg with
  | none =>
    refine ⟨[], Ext.refl s, by simp, fun _ => rfl, ?_⟩
    intro T h; cases h
  | some T =>
    simp only
    by_cases hle : T ≤ 0
    · rw [if_pos hle]
      refine ⟨[], Ext.refl s, by simp, fun _ => rfl, ?_⟩
      intro T' h hpos
      cases h
      omega
    · rw [if_neg hle]
      have hpos : 0 < T := by omega
      obtain ⟨e1, p1, n1, a1, t1, _⟩ := fold_spec (jobKey jo) (pendDue rj T) (pendArm rj T) (pendStep (jobKey jo) T rj)
        (pendStep_spec (jobKey jo) T rj) tasks s []
      generalize List.foldl (pendStep (jobKey jo) T rj) (s, []) tasks = r at *
      obtain ⟨s1, nd⟩ := r
      simp only [List.nil_append] at a1
      simp only at e1 p1 n1 t1
      subst a1
      have htimer : ∀ s2 l2, Ext s1 s2 l2 → ∀ t ∈ tasks, isPending (pendRef rj t) = true → s.clock < pendDeadline T (pendRef rj t) →
          TimerBy s2.q (jobKey jo) (dueAt s (pendDeadline T (pendRef rj t))) := by
        intro s2 l2 e2 t ht hp hlt
        exact e2.timers _ _ (t1 t ht _ (by simp [pendArm, hp, hlt]))
      by_cases hemp : (tasks.filter (pendDue rj T s.clock)).isEmpty = true
      · rw [if_pos hemp]
        have hnil : tasks.filter (pendDue rj T s.clock) = [] := by simpa using hemp
        have hmark : pendMark rj T s.clock tasks = rj := by
          unfold pendMark; rw [hnil]; exact markDeleted_nil _ _
        refine ⟨[], e1, by simp, ?_, ?_⟩
        · rintro (h | ⟨T', h, hle'⟩)
          · cases h
          · cases h; omega
        · intro T' h _
          cases h
          refine ⟨?_, htimer s1 [] (Ext.refl s1), ?_, ?_⟩
          · intro t ht hp hd hdt
            have : t ∈ tasks.filter (pendDue rj T s.clock) := (mem_filter_pendDue _ _ _ _ _).mpr ⟨ht, hp, hd, hdt⟩
            rw [hnil] at this; cases this
          · intro rj' h; rw [hmark]; exact (Option.some.inj h).symm
          · intro _; rw [hmark]
      · rw [if_neg hemp]
        obtain ⟨l, e2, hall, hcov, _, hnf⟩ := deleteTasks_ext s1 (tasks.filter (pendDue rj T s.clock)) false
        refine ⟨l, (e1.trans e2).cast (by simp), ?_, ?_, ?_⟩
        · intro c hc
          obtain ⟨hv, hr, hf, t, ht, hn, _⟩ := hall c hc
          obtain ⟨h1, h2, h3, h4⟩ := (mem_filter_pendDue _ _ _ _ _).mp ht
          exact ⟨hv, hr, hf, T, rfl, hpos, t, h1, hn, h2, h3, h4⟩
        · rintro (h | ⟨T', h, hle'⟩)
          · cases h
          · cases h; omega
        · intro T' h _
          cases h
          refine ⟨?_, htimer _ l e2, ?_, ?_⟩
          · intro t ht hp hd hdt
            refine hcov t ((mem_filter_pendDue _ _ _ _ _).mpr ⟨ht, hp, hd, hdt⟩) (Or.inr ?_)
            intro ts hts; rw [hdt] at hts; cases hts
          · intro rj' h
            by_cases hok : (deleteTasks s1 (tasks.filter (pendDue rj T s.clock)) false).2 = true
            · rw [if_pos hok] at h; exact (Option.some.inj h).symm
            · rw [if_neg hok] at h; cases h
          · intro hno
            rw [if_pos (hnf (n1 hno)).1]
            rfl

theorem pendMark_sameSpec (rj : Job) (T clk : Int) (tasks : List Task) : SameSpec rj (pendMark rj T clk tasks) :=
  markDeleted_sameSpec _ _ _

theorem pendMark_parallelStatus (rj : Job) (T clk : Int) (tasks : List Task) :
    (pendMark rj T clk tasks).status.parallelStatus = rj.status.parallelStatus := rfl

-- ---------------------------------------------------------------- handleForceDelete

/-- the force-delete deadline of a task whose deletion timestamp is `dts` -/
def forceDeadline (F : Int) (dts : Int) : Int := dts + F

/-- one iteration of the loop of `handleForceDeleteKillingTasks` (timeout `F` nanoseconds) -/
def forceStep (key : String) (F : Int) (acc : Sys × List Task) (t : Task) : Sys × List Task :=
  match t.deletionTimestamp with
  | none => acc
  | some dts =>
    if !(decide (forceDeadline F dts > acc.1.clock)) then (acc.1, acc.2 ++ [t])
    else (enqueueAfter acc.1 key (forceDeadline F dts), acc.2)

/-- the task is force deleted at clock `clk`: deletion timestamp set and `+ F` not after the clock -/
def forceDue (F : Int) (clk : Int) (t : Task) : Bool :=
  match t.deletionTimestamp with
  | none => false
  | some dts => decide (forceDeadline F dts ≤ clk)

def forceArm (F : Int) (clk : Int) (t : Task) : Option Int :=
  match t.deletionTimestamp with
  | none => none
  | some dts => if clk < forceDeadline F dts then some (forceDeadline F dts) else none

theorem forceStep_spec (key : String) (F : Int) (s0 : Sys) (nd : List Task) (t : Task) :
    StepSpec key (forceDue F) (forceArm F) s0 nd t (forceStep key F (s0, nd) t) := by
  cases hdt : t.deletionTimestamp with
  | none =>
    have he : forceStep key F (s0, nd) t = (s0, nd) := by unfold forceStep; simp [hdt]
    rw [he]
    exact ⟨Ext.refl s0, rfl, fun h => h, by simp [forceDue, hdt], by simp [forceArm, hdt], fun _ => rfl⟩
  | some dts =>
    by_cases hd : forceDeadline F dts > s0.clock
    · have hlt : s0.clock < forceDeadline F dts := hd
      have hnle : ¬ forceDeadline F dts ≤ s0.clock := by omega
      have he : forceStep key F (s0, nd) t = (enqueueAfter s0 key (forceDeadline F dts), nd) := by
        unfold forceStep; simp [hdt, hd]
      rw [he]
      refine ⟨enqueueAfter_ext _ _ _, rfl, fun h => h, by simp [forceDue, hdt, hnle], ?_, by simp [forceArm, hdt, hlt]⟩
      intro dl hdl
      simp only [forceArm, hdt, hlt, if_true, Option.some.injEq] at hdl
      subst hdl
      exact enqueueAfter_timer _ _ _
    · have hnlt : ¬ s0.clock < forceDeadline F dts := by omega
      have hle : forceDeadline F dts ≤ s0.clock := by omega
      have he : forceStep key F (s0, nd) t = (s0, nd ++ [t]) := by
        unfold forceStep; simp [hdt, hd]
      rw [he]
      exact ⟨Ext.refl s0, rfl, fun h => h, by simp [forceDue, hdt, hle], by simp [forceArm, hdt, hnlt], fun _ => rfl⟩

theorem mem_filter_forceDue (F clk : Int) (tasks : List Task) (t : Task) :
    t ∈ tasks.filter (forceDue F clk) ↔
      t ∈ tasks ∧ ∃ dts : Int, t.deletionTimestamp = some dts ∧ dts + F ≤ clk := by
  rw [List.mem_filter]
  unfold forceDue forceDeadline
  cases t.deletionTimestamp <;> simp

/-- the marker function of the force-delete step -/
def forceMarkRef (r : TaskRef) : TaskRef :=
  { r with deletedStatus := some { (r.deletedStatus.getD { state := .terminated, result := .killed, reason := "" })
      with reason := "ForceDeleted" } }

/-- the Job the force-delete step returns when its deletes succeed -/
def forceMark (rj : Job) (F clk : Int) (tasks : List Task) : Job :=
  updateJobTaskRefs clk (markDeleted rj ((tasks.filter (forceDue F clk)).map (·.name)) forceMarkRef) tasks

/-- task force deletion is forbidden by the Job's template -/
def forbidsForce (rj : Job) : Bool := (rj.template.map (·.forbidTaskForceDeletion)).getD false

theorem handleForceDelete_eq (s : Sys) (jo : JobObj) (rj : Job) (tasks : List Task) :
    handleForceDelete s jo rj tasks =
      if getForceDeleteTimeout s.cfg ≤ 0 then (s, some rj)
      else if forbidsForce rj = true then (s, some rj)
      else
        let F := getForceDeleteTimeout s.cfg
        let r := tasks.foldl (forceStep (jobKey jo) F) (s, [])
        if r.2.isEmpty = true then (r.1, some rj)
        else ((deleteTasks r.1 r.2 true).1,
              if (deleteTasks r.1 r.2 true).2 = true then
                some (updateJobTaskRefs r.1.clock (markDeleted rj (r.2.map (·.name)) forceMarkRef) tasks)
              else none) := by
  unfold handleForceDelete
  rfl

/-- `handleForceDelete`: the calls it appends are FORCED pod deletes, exactly for the tasks whose
deletion timestamp `+ F` is not after the clock, only when `F > 0` (the configured force-delete
timeout) and the template does not forbid force deletion; deadlines in the future arm a timer. -/
theorem handleForceDelete_ext (s : Sys) (jo : JobObj) (rj : Job) (tasks : List Task) :
    ∃ l, Ext s (handleForceDelete s jo rj tasks).1 l ∧
      (∀ c ∈ l, c.verb = "delete" ∧ c.res = "pods" ∧ c.force = true ∧
        0 < getForceDeleteTimeout s.cfg ∧ forbidsForce rj = false ∧
        ∃ t ∈ tasks, t.name = c.name ∧
          ∃ dts : Int, t.deletionTimestamp = some dts ∧ dts + getForceDeleteTimeout s.cfg ≤ s.clock) ∧
      ((getForceDeleteTimeout s.cfg ≤ 0 ∨ forbidsForce rj = true) → handleForceDelete s jo rj tasks = (s, some rj)) ∧
      (0 < getForceDeleteTimeout s.cfg → forbidsForce rj = false →
        (∀ t ∈ tasks, ∀ dts : Int, t.deletionTimestamp = some dts → dts + getForceDeleteTimeout s.cfg ≤ s.clock →
          ∃ c ∈ l, c.name = t.name) ∧
        (∀ t ∈ tasks, ∀ dts : Int, t.deletionTimestamp = some dts → s.clock < dts + getForceDeleteTimeout s.cfg →
          TimerBy (handleForceDelete s jo rj tasks).1.q (jobKey jo) (dueAt s (dts + getForceDeleteTimeout s.cfg))) ∧
        (∀ rj', (handleForceDelete s jo rj tasks).2 = some rj' →
          rj' = rj ∨ rj' = forceMark rj (getForceDeleteTimeout s.cfg) s.clock tasks)) := by
  rw [handleForceDelete_eq]
  by_cases hle : getForceDeleteTimeout s.cfg ≤ 0
  · rw [if_pos hle]
    exact ⟨[], Ext.refl s, by simp, fun _ => rfl, fun h => by omega⟩
  · rw [if_neg hle]
    have hpos : 0 < getForceDeleteTimeout s.cfg := by omega
    by_cases hfb : forbidsForce rj = true
    · rw [if_pos hfb]
      exact ⟨[], Ext.refl s, by simp, fun _ => rfl, fun _ h => by rw [hfb] at h; cases h⟩
    · rw [if_neg hfb]
      have hfb' : forbidsForce rj = false := by simpa using hfb
      simp only
      generalize getForceDeleteTimeout s.cfg = F at *
      obtain ⟨e1, p1, n1, a1, t1, _⟩ := fold_spec (jobKey jo) (forceDue F) (forceArm F) (forceStep (jobKey jo) F)
        (forceStep_spec (jobKey jo) F) tasks s []
      generalize List.foldl (forceStep (jobKey jo) F) (s, []) tasks = r at *
      obtain ⟨s1, nd⟩ := r
      simp only [List.nil_append] at a1
      simp only at e1 p1 n1 t1
      subst a1
      have htimer : ∀ s2 l2, Ext s1 s2 l2 → ∀ t ∈ tasks, ∀ dts : Int, t.deletionTimestamp = some dts →
          s.clock < dts + F → TimerBy s2.q (jobKey jo) (dueAt s (dts + F)) := by
        intro s2 l2 e2 t ht dts hdt hlt
        exact e2.timers _ _ (t1 t ht _ (by simp [forceArm, forceDeadline, hdt, hlt]))
      have hbad : (F ≤ 0 ∨ forbidsForce rj = true) → False := by
        rintro (h | h)
        · omega
        · exact hfb h
      by_cases hemp : (tasks.filter (forceDue F s.clock)).isEmpty = true
      · rw [if_pos hemp]
        have hnil : tasks.filter (forceDue F s.clock) = [] := by simpa using hemp
        refine ⟨[], e1, by simp, fun h => (hbad h).elim, fun _ _ => ⟨?_, htimer s1 [] (Ext.refl s1), ?_⟩⟩
        · intro t ht dts hdt hd
          have : t ∈ tasks.filter (forceDue F s.clock) := (mem_filter_forceDue _ _ _ _).mpr ⟨ht, dts, hdt, hd⟩
          rw [hnil] at this; cases this
        · intro rj' h; exact Or.inl (Option.some.inj h).symm
      · rw [if_neg hemp]
        obtain ⟨l, e2, hall, hcov, _, _⟩ := deleteTasks_ext s1 (tasks.filter (forceDue F s.clock)) true
        refine ⟨l, (e1.trans e2).cast (by simp), ?_, fun h => (hbad h).elim, fun _ _ => ⟨?_, htimer _ l e2, ?_⟩⟩
        · intro c hc
          obtain ⟨hv, hr, hf, t, ht, hn, _⟩ := hall c hc
          obtain ⟨h1, dts, h2, h3⟩ := (mem_filter_forceDue _ _ _ _).mp ht
          exact ⟨hv, hr, hf, hpos, hfb', t, h1, hn, dts, h2, h3⟩
        · intro t ht dts hdt hd
          exact hcov t ((mem_filter_forceDue _ _ _ _).mpr ⟨ht, dts, hdt, hd⟩) (Or.inl rfl)
        · intro rj' h
          by_cases hok : (deleteTasks s1 (tasks.filter (forceDue F s.clock)) true).2 = true
          · rw [if_pos hok] at h
            right
            rw [← Option.some.inj h, e1.clock]
            rfl
          · rw [if_neg hok] at h; cases h

theorem forceMark_sameSpec (rj : Job) (F clk : Int) (tasks : List Task) : SameSpec rj (forceMark rj F clk tasks) :=
  (markDeleted_sameSpec _ _ _).trans (updateJobTaskRefs_sameSpec _ _ _)

-- ---------------------------------------------------------------- handleTTL

/-- `handleTTL`: at most one call, a Job delete, only for a finished, not-deleting Job whose
finish time plus the effective TTL is not after the clock; no pod change.  When the Job is
finished, not being deleted and NOT yet expired, its only effect is a timer for the expiry (finish
time plus the EFFECTIVE TTL); otherwise the queue is untouched. -/
theorem handleTTL_ext (s : Sys) (jo : JobObj) (rj : Job) :
    ∃ l, Ext s (handleTTL s jo rj).1 l ∧
      ((∀ fin, rj.status.condition.finished = some fin → isDeleted rj = false →
          fin.finishTimestamp.getD zeroTime + getTTLAfterFinished rj s.cfg > s.clock →
          handleTTL s jo rj =
            (enqueueAfter s (jobKey jo) (fin.finishTimestamp.getD zeroTime + getTTLAfterFinished rj s.cfg), true)) ∧
        ((isDeleted rj = true ∨ rj.status.condition.finished = none ∨
            ∃ fin, rj.status.condition.finished = some fin ∧
              ¬ (fin.finishTimestamp.getD zeroTime + getTTLAfterFinished rj s.cfg > s.clock)) →
          (handleTTL s jo rj).1.q = s.q)) ∧
      (handleTTL s jo rj).1.pods = s.pods ∧
      (∀ c ∈ l, c.verb = "delete" ∧ c.res = "jobs" ∧ c.name = jo.name ∧ isDeleted rj = false ∧
        ∃ fin, rj.status.condition.finished = some fin ∧
          ¬ (fin.finishTimestamp.getD zeroTime + getTTLAfterFinished rj s.cfg > s.clock)) := by
  unfold handleTTL
  simp only
  by_cases hd : isDeleted rj = true
  · rw [if_pos hd]
    exact ⟨[], Ext.refl s, ⟨fun _ _ h => (by rw [hd] at h; cases h), fun _ => rfl⟩, rfl, by simp⟩
  · rw [if_neg hd]
    cases hf : rj.status.condition.finished with
    | none => exact ⟨[], Ext.refl s, ⟨fun _ h => (by cases h), fun _ => rfl⟩, rfl, by simp⟩
    | some fin =>
      simp only
      by_cases ht : fin.finishTimestamp.getD zeroTime + getTTLAfterFinished rj s.cfg > s.clock
      · rw [if_pos ht]
        refine ⟨[], enqueueAfter_ext s _ _, ⟨fun fin' h _ _ => (by cases h; rfl), ?_⟩, rfl, by simp⟩
        rintro (h | h | ⟨fin', h, hn⟩)
        · exact absurd h hd
        · cases h
        · cases h; exact absurd ht hn
      · rw [if_neg ht]
        obtain ⟨c, hext, hv, hr, hn, hq, hp⟩ := apiDeleteJob_ext s jo
        refine ⟨[c], hext, ⟨fun fin' h _ h' => (by cases h; exact absurd h' ht), fun _ => hq⟩, hp, ?_⟩
        intro c' hc'
        rw [List.mem_singleton.mp hc']
        exact ⟨hv, hr, hn, by simpa using hd, fin, rfl, ht⟩

-- ---------------------------------------------------------------- handleFinalizer

/-- `handleFinalizer`: the calls it appends are non-forced pod deletes for `finalizerTasks`: the
tasks of the status that could still be found (cache, else live GET) and the unrecorded tasks of
the Job in the pod cache; only for a Job with deletion timestamp that carries the finalizer; the
finalizer is dropped only when none of them was found. -/
theorem handleFinalizer_ext (s : Sys) (jo : JobObj) (rj : Job) (fz : Bool) :
    ∃ l, Ext s (handleFinalizer s jo rj fz).1 l ∧
      (∀ c ∈ l, c.verb = "delete" ∧ c.res = "pods" ∧ c.force = false ∧
        rj.deletionTimestamp.isSome = true ∧ fz = true ∧
        ∃ t ∈ finalizerTasks s jo rj, t.name = c.name ∧ DelWanted s false t) ∧
      ((rj.deletionTimestamp = none ∨ fz = false) → handleFinalizer s jo rj fz = (s, some (rj, fz))) ∧
      (rj.deletionTimestamp.isSome = true → fz = true →
        (finalizerTasks s jo rj ≠ [] →
          (∀ t ∈ finalizerTasks s jo rj, DelWanted s false t → ∃ c ∈ l, c.name = t.name) ∧
          (∀ rj' f', (handleFinalizer s jo rj fz).2 = some (rj', f') → f' = true) ∧
          (NoFault s → ∃ rj', (handleFinalizer s jo rj fz).2 = some (rj', true))) ∧
        (finalizerTasks s jo rj = [] →
          l = [] ∧ ∃ rj', (handleFinalizer s jo rj fz).2 = some (rj', false))) := by
  unfold handleFinalizer
  cases hdt : rj.deletionTimestamp with
  | none =>
    simp only [Option.isNone_none, if_true]
    exact ⟨[], Ext.refl s, by simp, fun _ => trivial, fun h => by cases h⟩
  | some dts =>
    simp only [Option.isNone_some, Bool.false_eq_true, if_false]
    cases fz with
    | false =>
      simp only [Bool.not_false, if_true]
      exact ⟨[], Ext.refl s, by simp, fun _ => trivial, fun _ h => by cases h⟩
    | true =>
      simp only [Bool.not_true, Bool.false_eq_true, if_false]
      have hbad : (some dts = none ∨ true = false) → False := by rintro (h | h) <;> cases h
      generalize finalizerTasks s jo rj = ft
      by_cases hemp : ft.isEmpty = true
      · have hnil : ft = [] := by simpa using hemp
        simp only [hnil, List.isEmpty_nil, Bool.not_true, Bool.false_eq_true, if_false]
        obtain ⟨e1, _, _⟩ := updateTaskRefStatus_ext s (jobKey jo) rj []
        refine ⟨[], e1, by simp, fun h => (hbad h).elim, fun _ _ => ⟨fun h => absurd rfl h, fun _ => ⟨rfl, _, rfl⟩⟩⟩
      · simp only [hemp, Bool.not_false, if_true]
        generalize hrj1 : List.foldl (fun acc t => updateTaskRefDeletedStatusIfNotSet acc t.name
          { state := .terminated, result := .killed, reason := "JobDeleted" }) rj ft = rj1
        obtain ⟨e1, _, p1⟩ := updateTaskRefStatus_ext s (jobKey jo) rj1 ft
        have hnf1 : NoFault s → NoFault (updateTaskRefStatus s (jobKey jo) rj1 ft).1 := by
          intro h
          unfold updateTaskRefStatus syncJobStatusFromTaskRefs
          repeat' split
          all_goals first | exact h | (unfold enqueueAfter; exact h)
        obtain ⟨l, e2, hall, hcov, _, hnf⟩ := deleteTasks_ext
          (updateTaskRefStatus s (jobKey jo) rj1 ft).1 ft false
        have hw : ∀ t, DelWanted (updateTaskRefStatus s (jobKey jo) rj1 ft).1 false t ↔
            DelWanted s false t := by
          intro t; unfold DelWanted; rw [e1.clock]
        refine ⟨l, (e1.trans e2).cast (by simp), ?_, fun h => (hbad h).elim, fun _ _ => ⟨fun _ => ⟨?_, ?_, ?_⟩, ?_⟩⟩
        · intro c hc
          obtain ⟨hv, hr, hf, t, ht, hn, hwt⟩ := hall c hc
          exact ⟨hv, hr, hf, by simp, by simp, t, ht, hn, (hw t).mp hwt⟩
        · intro t ht hwt
          exact hcov t ht ((hw t).mpr hwt)
        · intro rj' f' h
          split at h
          · simp only [Option.some.injEq, Prod.mk.injEq] at h; exact h.2.symm
          · cases h
        · intro hno
          rw [if_pos (hnf (hnf1 hno)).1]
          exact ⟨_, rfl⟩
        · intro h
          exact absurd (by simp [h]) hemp

end Furiko.JobCtlPlan
