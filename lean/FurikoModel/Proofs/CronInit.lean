/-
Restart catch-up: `initialTime`, `newItem`, `newItems`, `schedNew`.
-/
import FurikoModel.Proofs.CronLemmas

namespace Furiko.Cron
open Furiko

/-- maximum downtime that is caught up, in nanoseconds -/
def downtimeNs (cfgDowntime defaultDowntime : Int) : Int :=
  (if cfgDowntime > 0 then cfgDowntime else defaultDowntime) * 1000000000

/-- exclusive lower bound (ns) of what is scheduled after a restart:
`max (ls*10^9) (now - D)` (or `now` if never scheduled), raised to `lu*10^9` if set. -/
def lowerNs (jc : JC) (cfgDowntime defaultDowntime now : Int) : Int :=
  let base : Int :=
    match jc.lastScheduled with
    | some ls => max (ls * 1000000000) (now - downtimeNs cfgDowntime defaultDowntime)
    | none => now
  match jc.sched.lastUpdated with
  | some lu => max base (lu * 1000000000)
  | none => base

/-- `initialTime` is `lowerNs`, except that it is `notBefore - 1ns` when `lowerNs` lies before
`notBefore` (which makes `notBefore` itself eligible). -/
theorem initialTime_eq (jc : JC) (cfg dflt now : Int) :
    initialTime jc cfg dflt now =
      match jc.sched.notBefore with
      | some nbf =>
        if lowerNs jc cfg dflt now < nbf * 1000000000 then nbf * 1000000000 - 1
        else lowerNs jc cfg dflt now
      | none => lowerNs jc cfg dflt now := by
  unfold initialTime lowerNs downtimeNs
  cases jc.lastScheduled <;> cases jc.sched.lastUpdated <;> cases jc.sched.notBefore <;>
    simp only [] <;> (repeat' split) <;> omega

/-- the entry `newItem` computes for a well-formed JobConfig -/
def newEntry (jc : JC) (cfg dflt now : Int) : Option Int :=
  getNext jc.nxt jc.sched.notBefore jc.sched.notAfter (initialTime jc cfg dflt now)

theorem newItem_active {jc : JC} (hen : jc.sched.enabled = true) (hpe : jc.sched.parseErr = false)
    (cfg dflt now : Int) :
    newItem jc cfg dflt now = .ok ((newEntry jc cfg dflt now).map (fun n => (jc.key, n))) := by
  unfold newItem newEntry
  simp only [hen, hpe, Bool.not_true, Bool.false_eq_true, if_false]
  cases getNext jc.nxt jc.sched.notBefore jc.sched.notAfter (initialTime jc cfg dflt now) <;> rfl

theorem newItem_disabled {jc : JC} (hen : jc.sched.enabled = false) (cfg dflt now : Int) :
    newItem jc cfg dflt now = .ok none := by
  unfold newItem; simp [hen]

theorem newItem_error_iff (jc : JC) (cfg dflt now : Int) :
    newItem jc cfg dflt now = .error () ↔ jc.sched.enabled = true ∧ jc.sched.parseErr = true := by
  unfold newItem
  cases h1 : jc.sched.enabled <;> cases h2 : jc.sched.parseErr <;> simp
  all_goals
    cases getNext jc.nxt jc.sched.notBefore jc.sched.notAfter (initialTime jc cfg dflt now) <;> simp

/-- "the least time satisfying `P`, or `none` if no time does" -/
def LeastSat (P : Int → Prop) (r : Option Int) : Prop :=
  (∀ m, r = some m → P m ∧ ∀ u, P u → m ≤ u) ∧ (r = none → ∀ u, ¬ P u)

/-- what may be scheduled first after a restart: matches, inside `notAfter`, strictly after
`lowerNs` as an instant, and not before `notBefore` -/
def Eligible (jc : JC) (cfg dflt now : Int) (m : Int) : Prop :=
  jc.M' m ∧ lowerNs jc cfg dflt now < m * 1000000000 ∧
  ∀ nbf, jc.sched.notBefore = some nbf → nbf ≤ m

theorem newEntry_spec {jc : JC} (hs : jc.SortedOK) (cfg dflt now : Int) :
    LeastSat (Eligible jc cfg dflt now) (newEntry jc cfg dflt now) := by
  have hsp := JC.nextAfter_spec hs
  unfold newEntry
  rw [getNext_eq_nextAfter]
  have hN := hsp (floorSec (initialTime jc cfg dflt now))
  -- eligibility is exactly "M' and strictly after floorSec (initialTime)"
  have hiff : ∀ m, Eligible jc cfg dflt now m ↔
      (jc.M' m ∧ floorSec (initialTime jc cfg dflt now) < m) := by
    intro m
    rw [initialTime_eq]
    unfold Eligible
    cases hnb : jc.sched.notBefore with
    | none =>
      simp only [floorSec_lt_iff]
      constructor
      · rintro ⟨h1, h2, _⟩; exact ⟨h1, h2⟩
      · rintro ⟨h1, h2⟩; exact ⟨h1, h2, fun _ h => by cases h⟩
    | some nbf =>
      simp only []
      by_cases hlt : lowerNs jc cfg dflt now < nbf * 1000000000
      · simp only [hlt, if_true, floorSec_lt_iff]
        constructor
        · rintro ⟨h1, h2, h3⟩
          have := h3 nbf rfl
          exact ⟨h1, by omega⟩
        · rintro ⟨h1, h2⟩
          refine ⟨h1, by omega, fun n hn => ?_⟩
          cases hn; omega
      · simp only [hlt, if_false, floorSec_lt_iff]
        constructor
        · rintro ⟨h1, h2, _⟩; exact ⟨h1, h2⟩
        · rintro ⟨h1, h2⟩
          refine ⟨h1, h2, fun n hn => ?_⟩
          cases hn; omega
  refine ⟨fun m hm => ?_, fun hn u hu => ?_⟩
  · have a := hN.1 m hm
    refine ⟨(hiff m).2 ⟨a.2.1, a.1⟩, fun u hu => ?_⟩
    have := (hiff u).1 hu
    exact a.2.2 u this.1 this.2
  · have := (hiff u).1 hu
    have := hN.2 hn u this.1
    omega

/-! ### `newItems` / `schedNew` -/

theorem newItems_none_iff (jcs : List JC) (cfg dflt now : Int) :
    newItems jcs cfg dflt now = none ↔
      ∃ jc ∈ jcs, jc.sched.enabled = true ∧ jc.sched.parseErr = true := by
  induction jcs with
  | nil => simp [newItems]
  | cons jc rest ih =>
    unfold newItems
    cases hni : newItem jc cfg dflt now with
    | error u =>
      cases u
      have := (newItem_error_iff jc cfg dflt now).1 hni
      simp only [true_iff]
      exact ⟨jc, by simp, this⟩
    | ok it =>
      have hne : ¬ (jc.sched.enabled = true ∧ jc.sched.parseErr = true) := by
        intro h
        have := (newItem_error_iff jc cfg dflt now).2 h
        rw [hni] at this; cases this
      simp only []
      cases hr : newItems rest cfg dflt now with
      | none =>
        simp only [true_iff]
        obtain ⟨jc', hm, h⟩ := ih.1 hr
        exact ⟨jc', List.mem_cons_of_mem _ hm, h⟩
      | some its =>
        simp only [false_iff, reduceCtorEq]
        rintro ⟨jc', hm, h⟩
        rcases List.mem_cons.1 hm with rfl | hm
        · exact hne h
        · have := ih.2 ⟨jc', hm, h⟩
          rw [hr] at this; cases this

theorem schedNew_none_iff (jcs : List JC) (cfg dflt now : Int) :
    schedNew jcs cfg dflt now = none ↔
      ∃ jc ∈ jcs, jc.sched.enabled = true ∧ jc.sched.parseErr = true := by
  unfold schedNew
  rw [Option.map_eq_none_iff]
  exact newItems_none_iff jcs cfg dflt now

end Furiko.Cron
