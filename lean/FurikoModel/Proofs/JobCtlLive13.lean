/-
Liveness of the job controller, part 13: facts shared by all cases of the pass of a fair round —
the state it starts in (`PState`: the invariant, every pod finished, every timer due, a key ready),
the tasks it finds, the refs it refreshes (`refP`), the earliest time of the next creation request.
Core Lean only.
-/
import FurikoModel.Proofs.JobCtlLive12

set_option linter.unusedSimpArgs false
set_option linter.unusedVariables false

namespace Furiko.JobCtl.Live
open Furiko Furiko.JobCtl Furiko.WQ Furiko.StatusLemmas Furiko.JobCtlPlan Furiko.Conv Furiko.ParallelLemmas

/-! ### latest finish times -/

theorem foldl_latest_attained (l : List TaskRef) : ∀ (a : Int),
    l.foldl latestStep a = a ∨ ∃ t ∈ l, t.finishTimestamp = some (l.foldl latestStep a) := by
  induction l with
  | nil => intro a; exact Or.inl rfl
  | cons y ys ih =>
    intro a
    simp only [List.foldl_cons, List.mem_cons]
    cases hy : y.finishTimestamp with
    | none =>
      rw [latestStep_none a y hy]
      rcases ih a with h | ⟨t, ht, hf⟩
      · exact Or.inl h
      · exact Or.inr ⟨t, Or.inr ht, hf⟩
    | some g =>
      rw [latestStep_some a y g hy]
      by_cases hc : a < g
      · rw [if_pos hc]
        rcases ih g with h | ⟨t, ht, hf⟩
        · exact Or.inr ⟨y, Or.inl rfl, by rw [h]; exact hy⟩
        · exact Or.inr ⟨t, Or.inr ht, hf⟩
      · rw [if_neg hc]
        rcases ih a with h | ⟨t, ht, hf⟩
        · exact Or.inl h
        · exact Or.inr ⟨t, Or.inr ht, hf⟩

/-- two ref lists with the same finish timestamps have the same latest finish time -/
theorem foldl_latest_congr (a b : List TaskRef) (z : Int)
    (h1 : ∀ x ∈ a.map (·.finishTimestamp), x ∈ b.map (·.finishTimestamp))
    (h2 : ∀ x ∈ b.map (·.finishTimestamp), x ∈ a.map (·.finishTimestamp)) :
    a.foldl latestStep z = b.foldl latestStep z := by
  obtain ⟨a1, a2⟩ := foldl_latest_ge a z
  obtain ⟨b1, b2⟩ := foldl_latest_ge b z
  apply Int.le_antisymm
  · rcases foldl_latest_attained a z with h | ⟨t, ht, hf⟩
    · rw [h]; exact b1
    · obtain ⟨t', ht', hf'⟩ := List.mem_map.mp (h1 _ (List.mem_map.mpr ⟨t, ht, rfl⟩))
      exact b2 t' ht' _ (hf'.trans hf)
  · rcases foldl_latest_attained b z with h | ⟨t, ht, hf⟩
    · rw [h]; exact a1
    · obtain ⟨t', ht', hf'⟩ := List.mem_map.mp (h2 _ (List.mem_map.mpr ⟨t, ht, rfl⟩))
      exact a2 t' ht' _ (hf'.trans hf)

/-- the latest finish time of a non-empty list of finished refs is at least each finish time -/
theorem latestFinished_ge (L : List TaskRef) (r : TaskRef) (hr : r ∈ L) (f : Time) (hf : r.finishTimestamp = some f) :
    ∃ g, latestFinished L = some g ∧ f ≤ g := by
  rw [latestFinished_eq_fold]
  obtain ⟨_, h2, _⟩ := foldl_timeMax_spec (L.map (·.finishTimestamp)) none
  have := h2 (some f) (List.mem_map.mpr ⟨r, hr, hf⟩)
  cases hg : (L.map (·.finishTimestamp)).foldl timeMax none with
  | none => rw [hg] at this; exact absurd this (by intro h; exact h)
  | some g => rw [hg] at this; exact ⟨g, rfl, this⟩

/-! ### the state a pass starts in -/

/-- the state right before the `work` step of a fair round: the invariant, every pod finished -/
structure PState (ok : Sys → Action → Prop) (j0 jo : JobObj) (F0 : Int) (s : Sys) : Prop where
  canon : Canon ok j0 jo F0 s
  podsFin : ∀ p ∈ s.pods, p.pod.isFinished = true

/-- every armed timer is due, and there is a ready key or a timer -/
structure Ready (s : Sys) : Prop where
  due : ∀ x ∈ s.q.delayed, x.2 ≤ s.clock
  armed : s.q.queue ≠ [] ∨ s.q.delayed ≠ []

section
variable {ok : Sys → Action → Prop} {j0 jo : JobObj} {F0 : Int} {s : Sys}

/-- a key is ready once the due timers have fired; no timer is left -/
theorem PState.ready (h0 : PState ok j0 jo F0 s) (h : Ready s) :
    Retry.WF (s.q.advance s.clock) ∧ (s.q.advance s.clock).delayed = [] ∧
    ∃ k rest, (s.q.advance s.clock).queue = k :: rest := by
  obtain ⟨a1, a2, a3, a4, a5, a6, a7⟩ := Retry.advance_facts s.q s.clock h0.canon.wf
  refine ⟨a1, ?_, ?_⟩
  · rw [a3]
    apply List.filter_eq_nil_iff.mpr
    intro x hx
    simp only [decide_not, Bool.not_eq_true', decide_eq_false_iff_not, Decidable.not_not]
    exact h.due x hx
  · have hne : (s.q.advance s.clock).queue ≠ [] := by
      rcases h.armed with hq | hd
      · cases hqq : s.q.queue with
        | nil => exact absurd hqq hq
        | cons x r =>
          have := a5 x (by rw [hqq]; exact List.mem_cons_self)
          intro he; rw [he] at this; cases this
      · cases hdd : s.q.delayed with
        | nil => exact absurd hdd hd
        | cons x r =>
          have hx : x ∈ s.q.delayed := by rw [hdd]; exact List.mem_cons_self
          have := a6 x hx (h.due x hx)
          intro he; rw [he] at this; cases this
    cases hqq : (s.q.advance s.clock).queue with
    | nil => exact absurd hqq hne
    | cons k rest => exact ⟨k, rest, rfl⟩

/-- the tasks a pass finds for the recorded refs -/
def foundTasks (s : Sys) (jo : JobObj) : List Task := jo.job.status.tasks.filterMap (fun r => lookTask s r.name)

theorem PState.tasks_eq (h : PState ok j0 jo F0 s) (q1 : WQ) :
    tasksForRefs (passStart s q1) jo jo.job.status.tasks = foundTasks s jo := by
  have := tasksForRefs_fresh (jo := jo) (s := passStart s q1) h.canon.fresh.podCache
    (fun p hp => (h.canon.pods.owned p hp).1) jo.job.status.tasks
  rw [this]; rfl

/-- every task the server shows is read from a finished pod in good shape -/
theorem PState.task_facts (h : PState ok j0 jo F0 s) {n : String} {t : Task} (ht : lookTask s n = some t) :
    TaskGood t ∧ t.ref.finishTimestamp.isSome = true ∧ t.deletionTimestamp = none ∧
    (∀ f, t.ref.finishTimestamp = some f → F0 ≤ f) ∧
    ∃ p ∈ s.pods, p.pod.name = n ∧ podTask s.clock p = some t := by
  obtain ⟨p, hp, hpt⟩ := lookTask_some ht
  have hpm := findPod_some hp
  have hc := (h.canon.pods.sane p hpm.1).2
  refine ⟨podTask_taskGood hc hpt, podTask_finished hc hpt (h.podsFin p hpm.1), ?_, ?_, p, hpm.1, hpm.2, hpt⟩
  · rw [(podTask_fields hpt).2.1]; exact h.canon.pods.nodel p hpm.1
  · intro f hf; exact podFinLB_self (h.canon.lbPods p hpm.1) h.canon.lbNow hpt hf

theorem PState.consistent (h : PState ok j0 jo F0 s) : Consistent s jo.job.status.tasks (foundTasks s jo) :=
  consistent_found s jo.job.status.tasks h.canon.nodupNames

theorem PState.found_facts (h : PState ok j0 jo F0 s) : ∀ t ∈ foundTasks s jo,
    TaskGood t ∧ t.ref.finishTimestamp.isSome = true ∧ t.deletionTimestamp = none := by
  intro t ht
  have := h.consistent.look t ht
  obtain ⟨a, b, c, _⟩ := h.task_facts this
  exact ⟨a, b, c⟩

/-- a refreshed ref, when every pod is finished: finished, bounded below; dead refs stay dead with their
finish time; a live ref ends dead or succeeded -/
theorem PState.refP_facts (h : PState ok j0 jo F0 s) {r : TaskRef} (hr : r ∈ jo.job.status.tasks) :
    (refP s r).finishTimestamp.isSome = true ∧ (refP s r).retryIndex = r.retryIndex ∧ (refP s r).name = r.name ∧
    (∀ f, (refP s r).finishTimestamp = some f → F0 ≤ f) ∧
    (Dead r → Dead (refP s r) ∧ (refP s r).finishTimestamp = r.finishTimestamp) ∧
    (LiveRef r → Dead (refP s r) ∨ (refP s r).status.result = .succeeded) := by
  unfold refP
  cases hl : lookTask s r.name with
  | none =>
    simp only
    have hfin : (lostRef s.clock r).finishTimestamp.isSome = true := by
      have := (Furiko.Props.C11.lostRef_retains s.clock r).2.2.1
      rw [this]
      split
      · assumption
      · rfl
    refine ⟨hfin, (lostRef_fields _ r).2.2.1, (lostRef_fields _ r).1, ?_, fun hd => dead_lostRef _ hd,
      fun hlv => Or.inl (live_lostRef _ hlv)⟩
    intro f hf
    have := (Furiko.Props.C11.lostRef_retains s.clock r).2.2.1
    rw [this] at hf
    split at hf
    · rename_i hs
      exact h.canon.lbRefs r hr f hf
    · cases hf
      have h1 := h.canon.lbClock
      have h2 : nowT s ≤ s.clock := by
        unfold nowT nowSec secs nsPerSec
        have := Int.ediv_mul_le s.clock (show (1000000000 : Int) ≠ 0 by decide)
        exact this
      exact Int.le_trans h1 h2
  | some t =>
    simp only
    obtain ⟨tg, tf, _, tlb, _⟩ := h.task_facts hl
    have hname : t.ref.name = r.name := by rw [tg.ok, lookTask_name hl]
    obtain ⟨g1, g2, g3, _⟩ := getTaskRef_fields (some r) t
    have hret := Furiko.Props.C11.getTaskRef_retains r t
    refine ⟨?_, ?_, by rw [g1, hname], ?_, fun hd => dead_getTaskRef hd tf, ?_⟩
    · cases hrf : r.finishTimestamp with
      | some f0 => exact hret.2.2.2 (by rw [hrf]; rfl)
      | none => exact (getTaskRef_some_fresh r t (by rw [hrf]; rfl) tf).2.1 ▸ tf
    · rw [g3]
      -- the task of a recorded ref carries the ref's retry number: both are named after it
      obtain ⟨_, _, _, _, p, hp, hpn, hpt⟩ := h.task_facts hl
      obtain ⟨retry, hn, _, hri⟩ := h.canon.podName hp
      have h1 : t.ref.retryIndex = retry := by
        unfold podTask Pod.task at hpt
        cases hr' : p.pod.taskRef s.clock with
        | none => simp [hr'] at hpt
        | some rr =>
          simp only [hr', Option.some.injEq] at hpt
          subst hpt
          unfold Pod.taskRef at hr'
          cases hf : p.pod.finishTimestamp with
          | none => simp [hf] at hr'
          | some fin =>
            simp only [hf, Option.some.injEq] at hr'
            subst hr'
            simp [hri]
      have h2 := (h.canon.refOK hr).2.1
      rw [← hpn, hn] at h2
      have := (taskName_inj h.canon.nodash h.canon.nodash h2).2
      rw [h1, this]
    · intro f hf
      cases hrf : r.finishTimestamp with
      | some f0 =>
        by_cases hfinal : isFinalTaskState r.status.state = true
        · have := (getTaskRef_some_frozen r t (by rw [hrf]; rfl) tf hfinal).2.1
          rw [this, hrf] at hf
          exact h.canon.lbRefs r hr f (hrf.trans hf)
        · -- not frozen: the task's own finish time
          have : (getTaskRef (some r) t).finishTimestamp = t.ref.finishTimestamp := by
            unfold getTaskRef
            cases htf : t.ref.finishTimestamp with
            | none => rw [htf] at tf; cases tf
            | some ff => cases hrr : t.ref.runningTimestamp <;> simp [htf, hrr, hrf, hfinal]
          rw [this] at hf
          exact tlb f hf
      | none =>
        have := (getTaskRef_some_fresh r t (by rw [hrf]; rfl) tf).2.1
        rw [this] at hf
        exact tlb f hf
    · intro hlv
      obtain ⟨_, k2, k3⟩ := live_getTaskRef hlv tg tf
      by_cases hs : t.ref.status.result = .succeeded
      · exact Or.inr (by rw [k2]; exact hs)
      · exact Or.inl (k3 hs)

/-- the index and retry number a pod's task reports are the pod's -/
theorem podTask_index {now : Time} {p : PodObj} {t : Task} (h : podTask now p = some t) :
    t.ref.parallelIndex = p.pod.parallelIndex ∧ t.ref.retryIndex = p.pod.retryIndex.getD 0 := by
  unfold podTask Pod.task at h
  cases hr : p.pod.taskRef now with
  | none => simp [hr] at h
  | some r =>
    simp only [hr, Option.some.injEq] at h
    subst h
    unfold Pod.taskRef at hr
    cases hf : p.pod.finishTimestamp with
    | none => simp [hf] at hr
    | some fin =>
      simp only [hf, Option.some.injEq] at hr
      subst hr
      exact ⟨rfl, rfl⟩

/-- a refreshed ref still belongs to the default index -/
theorem PState.refP_hash (h : PState ok j0 jo F0 s) {r : TaskRef} (hr : r ∈ jo.job.status.tasks) :
    (refP s r).hash s.d = s.d.hash := by
  unfold refP TaskRef.hash TaskRef.index
  cases hl : lookTask s r.name with
  | none =>
    simp only
    rw [(lostRef_fields _ r).2.1, (h.canon.refOK hr).1]; rfl
  | some t =>
    simp only
    obtain ⟨_, _, _, _, p, hp, _, hpt⟩ := h.task_facts hl
    obtain ⟨retry, _, hpi, _⟩ := h.canon.podName hp
    rw [(getTaskRef_fields (some r) t).2.1, (podTask_index hpt).1, hpi]; rfl

end

end Furiko.JobCtl.Live
