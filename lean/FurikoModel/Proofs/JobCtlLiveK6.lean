/-
Liveness of the job controller, kill part 6: the COOPERATIVE KUBELET.  `reap` lets the kubelet finish
terminating every pod that carries a deletion timestamp (one `Action.podGone` each): exactly those pods
disappear from the server (`reap_spec`), the caches stay in sync, and `reap` is a path (`reap_steps`).
A pending upsert of a pod of the Job makes the Job's key ready once the informers have delivered
(`deliverAll_ready_pod`).  Core Lean only.
-/
import FurikoModel.Proofs.JobCtlLiveK5
import FurikoModel.Proofs.JobCtlLive7

set_option linter.unusedSimpArgs false
set_option linter.unusedVariables false

namespace Furiko.JobCtl.Live
open Furiko Furiko.JobCtl Furiko.WQ Furiko.StatusLemmas Furiko.JobCtlPlan

/-- the pod stays on the server: it carries no deletion timestamp -/
def stays (p : PodObj) : Bool := p.pod.deletionTimestamp.isNone

def reapOne (s : Sys) (n : String) : Sys :=
  match findPod s.pods n with
  | some p => if p.pod.deletionTimestamp.isSome then step s (.podGone n) else s
  | none => s

/-- the kubelet finishes terminating every pod that carries a deletion timestamp -/
def reap (s : Sys) : Sys := (podNames s.pods).foldl reapOne s

theorem podNames_filter_nodup {l : List PodObj} (f : PodObj → Bool) (h : (podNames l).Nodup) :
    (podNames (l.filter f)).Nodup := by
  unfold podNames at *
  exact List.Nodup.sublist (List.Sublist.map _ List.filter_sublist) h

theorem reapOne_spec (s : Sys) (n : String) (hnd : (podNames s.pods).Nodup) :
    (reapOne s n).pods = s.pods.filter (fun x => !(decide (x.pod.name = n) && x.pod.deletionTimestamp.isSome)) ∧
    (reapOne s n).job = s.job ∧ (reapOne s n).jobEvs = s.jobEvs ∧
    (reapOne s n).jobCache = s.jobCache ∧ (reapOne s n).podCache = s.podCache ∧
    (reapOne s n).clock = s.clock ∧ (reapOne s n).d = s.d ∧ (reapOne s n).cfg = s.cfg ∧
    (reapOne s n).faults = s.faults ∧ (reapOne s n).q = s.q ∧
    (PSync s → PSync (reapOne s n)) := by
  unfold reapOne
  cases hf : findPod s.pods n with
  | none =>
    dsimp only
    refine ⟨?_, rfl, rfl, rfl, rfl, rfl, rfl, rfl, rfl, rfl, id⟩
    symm
    apply List.filter_eq_self.mpr
    intro x hx
    have := findPod_none hf x hx
    simp [this]
  | some p =>
    have hpm := findPod_some hf
    have huniq : ∀ x ∈ s.pods, x.pod.name = n → x = p := by
      intro x hx hxn
      have h1 := findPod_of_mem_nodup hnd hx
      rw [hxn, hf] at h1
      exact (Option.some.inj h1).symm
    dsimp only
    by_cases hd : p.pod.deletionTimestamp.isSome = true
    · rw [if_pos hd]
      have hstep : step s (.podGone n) = { s with pods := delPod s.pods n, podEvs := s.podEvs ++ [.delete p] } := by
        show removePod s n = _
        unfold removePod
        rw [hf]
      rw [hstep]
      refine ⟨?_, rfl, rfl, rfl, rfl, rfl, rfl, rfl, rfl, rfl, ?_⟩
      · show delPod s.pods n = _
        unfold delPod
        apply List.filter_congr
        intro x hx
        by_cases hxn : x.pod.name = n
        · have := huniq x hx hxn
          subst this
          simp [hxn, hd]
        · simp [hxn]
      · intro hps
        unfold PSync at *
        show (s.podEvs ++ [PEv.delete p]).foldl applyPEv s.podCache = delPod s.pods n
        rw [List.foldl_append, hps]
        show delPod s.pods p.pod.name = _
        rw [hpm.2]
    · rw [if_neg hd]
      refine ⟨?_, rfl, rfl, rfl, rfl, rfl, rfl, rfl, rfl, rfl, id⟩
      symm
      apply List.filter_eq_self.mpr
      intro x hx
      by_cases hxn : x.pod.name = n
      · have := huniq x hx hxn
        subst this
        simp only [Bool.not_eq_true] at hd
        simp [hxn, hd]
      · simp [hxn]

theorem foldl_reapOne_spec : ∀ (L : List String) (s : Sys), (podNames s.pods).Nodup →
    (L.foldl reapOne s).pods = s.pods.filter (fun x => !(decide (x.pod.name ∈ L) && x.pod.deletionTimestamp.isSome)) ∧
    (L.foldl reapOne s).job = s.job ∧ (L.foldl reapOne s).jobEvs = s.jobEvs ∧
    (L.foldl reapOne s).jobCache = s.jobCache ∧ (L.foldl reapOne s).podCache = s.podCache ∧
    (L.foldl reapOne s).clock = s.clock ∧ (L.foldl reapOne s).d = s.d ∧
    (L.foldl reapOne s).cfg = s.cfg ∧ (L.foldl reapOne s).faults = s.faults ∧
    (L.foldl reapOne s).q = s.q ∧ (PSync s → PSync (L.foldl reapOne s))
  | [], s, _ => by
    refine ⟨?_, rfl, rfl, rfl, rfl, rfl, rfl, rfl, rfl, rfl, id⟩
    symm
    apply List.filter_eq_self.mpr
    intro x _
    simp
  | n :: rest, s, hnd => by
    obtain ⟨a1, a2, a3, a4, a5, a6, a7, a8, a9, a10, a11⟩ := reapOne_spec s n hnd
    have hnd1 : (podNames (reapOne s n).pods).Nodup := by rw [a1]; exact podNames_filter_nodup _ hnd
    obtain ⟨b1, b2, b3, b4, b5, b6, b7, b8, b9, b10, b11⟩ := foldl_reapOne_spec rest (reapOne s n) hnd1
    simp only [List.foldl_cons]
    refine ⟨?_, b2.trans a2, b3.trans a3, b4.trans a4, b5.trans a5, b6.trans a6, b7.trans a7, b8.trans a8,
      b9.trans a9, b10.trans a10, fun h => b11 (a11 h)⟩
    rw [b1, a1, List.filter_filter]
    apply List.filter_congr
    intro x _
    by_cases hxn : x.pod.name = n
    · cases hdx : x.pod.deletionTimestamp.isSome <;> simp [hxn, hdx]
    · by_cases hxr : x.pod.name ∈ rest
      · cases hdx : x.pod.deletionTimestamp.isSome <;> simp [hxn, hxr, hdx]
      · simp [hxn, hxr]

/-- **the cooperative kubelet**: exactly the pods carrying a deletion timestamp disappear -/
theorem reap_spec (s : Sys) (hnd : (podNames s.pods).Nodup) :
    (reap s).pods = s.pods.filter stays ∧
    (reap s).job = s.job ∧ (reap s).jobEvs = s.jobEvs ∧
    (reap s).jobCache = s.jobCache ∧ (reap s).podCache = s.podCache ∧
    (reap s).clock = s.clock ∧ (reap s).d = s.d ∧
    (reap s).cfg = s.cfg ∧ (reap s).faults = s.faults ∧
    (reap s).q = s.q ∧ (PSync s → PSync (reap s)) := by
  obtain ⟨b1, b2, b3, b4, b5, b6, b7, b8, b9, b10, b11⟩ := foldl_reapOne_spec (podNames s.pods) s hnd
  refine ⟨?_, b2, b3, b4, b5, b6, b7, b8, b9, b10, b11⟩
  show ((podNames s.pods).foldl reapOne s).pods = _
  rw [b1]
  apply List.filter_congr
  intro x hx
  have : x.pod.name ∈ podNames s.pods := List.mem_map.mpr ⟨x, hx, rfl⟩
  unfold stays
  cases hdx : x.pod.deletionTimestamp <;> simp [this, hdx]

theorem reapOne_steps {ok : Sys → Action → Prop} {j0 : JobObj} (hk : ∀ s n, ok s (.podGone n))
    (n : String) (s0 s : Sys) (h : Steps ok j0 s0 s) : Steps ok j0 s0 (reapOne s n) := by
  unfold reapOne
  cases hf : findPod s.pods n with
  | none => exact h
  | some p =>
    simp only
    by_cases hd : p.pod.deletionTimestamp.isSome = true
    · rw [if_pos hd]
      refine .step _ h (hk _ _) ?_
      show OptSat (findPod s.pods n) _
      rw [hf]
      exact hd
    · rw [if_neg hd]; exact h

theorem foldl_reapOne_steps {ok : Sys → Action → Prop} {j0 : JobObj} (hk : ∀ s n, ok s (.podGone n)) :
    ∀ (L : List String) (s0 s : Sys), Steps ok j0 s0 s → Steps ok j0 s0 (L.foldl reapOne s)
  | [], _, _, h => h
  | n :: rest, s0, s, h => foldl_reapOne_steps hk rest s0 _ (reapOne_steps hk n s0 s h)

theorem reap_steps {ok : Sys → Action → Prop} {j0 : JobObj} (hk : ∀ s n, ok s (.podGone n))
    (s0 s : Sys) (h : Steps ok j0 s0 s) : Steps ok j0 s0 (reap s) :=
  foldl_reapOne_steps hk _ s0 s h

/-! ### a pod event makes the key ready -/

/-- a pending upsert of a pod of the Job, the Job in the cache once the Job events are delivered: the key
is ready after `deliverAll` -/
theorem deliverAll_ready_pod (s : Sys) (jo : JobObj) (p : PodObj) (rest : List PEv) (he : s.podEvs = .upsert p :: rest)
    (hjs : JSync s) (hj : s.job = some jo) (hu : p.ownerUid = some jo.uid) (hn : p.ownerName = some jo.name)
    (hwf : Retry.WF s.q) : (deliverAll s).q.queue ≠ [] := by
  unfold deliverAll
  obtain ⟨a1, a2, a3, a4, a5, a6⟩ := iter_deliverJob s.jobEvs.length s rfl
  have hjc : (iter .deliverJob s.jobEvs.length s).jobCache = some jo := by
    have := a6 hjs
    unfold JSync at this
    rw [a1, a2.job, hj] at this
    exact this
  rw [he]
  show (iter .deliverPod rest.length (step (iter .deliverJob s.jobEvs.length s) .deliverPod)).q.queue ≠ []
  have hev : (iter .deliverJob s.jobEvs.length s).podEvs = .upsert p :: rest := by rw [a5, he]
  have hwf1 : Retry.WF (iter .deliverJob s.jobEvs.length s).q := a3.wf hwf
  have h1 : jobKey jo ∈ (step (iter .deliverJob s.jobEvs.length s) .deliverPod).q.queue := by
    show jobKey jo ∈ (deliverPod (iter .deliverJob s.jobEvs.length s)).q.queue
    rw [deliverPod_upsert _ p rest hev]
    unfold podNotify
    simp only [hu, hn, hjc, and_self, decide_true, Bool.and_self, ↓reduceIte]
    exact Retry.mem_queue_add_self hwf1 _
  have hlen : (step (iter .deliverJob s.jobEvs.length s) .deliverPod).podEvs.length = rest.length := by
    show (deliverPod (iter .deliverJob s.jobEvs.length s)).podEvs.length = _
    rw [(deliverPod_srv _).2.2.2, hev]
    rfl
  obtain ⟨_, _, b3, _, _, _⟩ := iter_deliverPod rest.length _ hlen
  have := b3.mono _ h1
  intro hnil
  rw [hnil] at this
  cases this

end Furiko.JobCtl.Live
