/-
Second walk, continued: `syncCreateTasks`, the handlers, `syncJobTasks`, `handleFinalizer`, `sync`.
Result (`sync_good`): from a state whose pods controlled by the Job are well-formed (foreign pods are
unconstrained) and a cached Job with good refs, `sync` computes a Job with good refs that keeps every
recorded ref and timestamp.  Core Lean only.
-/
import FurikoModel.Proofs.JobCtlInvRefsWalk

set_option linter.unusedSimpArgs false
set_option linter.unusedVariables false

namespace Furiko.JobCtl
open Furiko Furiko.WQ Furiko.StatusLemmas Furiko.ParallelLemmas

theorem updateTaskRefStatus_gk' {j0 : JobObj} {d : PIndex} (s : Sys) (hd : s.d = d) (key : String) (rj : Job)
    (tasks : List Task) (h : Good j0 d rj) (ht : TasksGood j0 d tasks) :
    GK j0 d rj (updateTaskRefStatus s key rj tasks).2 := by
  subst hd; exact updateTaskRefStatus_gk s key rj tasks h ht

theorem markDeleted_gk' {j0 : JobObj} {d : PIndex} (rj : Job) (names : List String) (f : TaskRef → TaskRef)
    (hf : ∀ r, (f r).name = r.name ∧ (f r).parallelIndex = r.parallelIndex ∧ (f r).retryIndex = r.retryIndex ∧
      (f r).creationTimestamp = r.creationTimestamp ∧ (f r).runningTimestamp = r.runningTimestamp ∧
      (f r).finishTimestamp = r.finishTimestamp)
    (h : Good j0 d rj) : GK j0 d rj (markDeleted rj names f) := by
  unfold markDeleted
  refine ⟨h.map _ ?_, RefsKeep.of_map _ ?_⟩
  · intro r
    split
    · exact ⟨(hf r).1, (hf r).2.1, (hf r).2.2.1, (hf r).2.2.2.1⟩
    · exact ⟨rfl, rfl, rfl, rfl⟩
  · intro r
    split
    · obtain ⟨h1, _, _, h4, h5, h6⟩ := hf r
      exact ⟨h1, by rw [h4]; exact id, by rw [h5]; exact id, by rw [h6]; exact id⟩
    · exact ⟨rfl, id, id, id⟩

/-- result of a step that may fail, on good inputs -/
def OutGK (j0 : JobObj) (d : PIndex) (rj : Job) (o : Option Job) : Prop := ∀ rj1, o = some rj1 → GK j0 d rj rj1

theorem ite_some_none_gk {j0 : JobObj} {d : PIndex} {rj newRj : Job} (ok : Bool) (h : GK j0 d rj newRj) :
    OutGK j0 d rj (if ok = true then some newRj else none) := by
  intro rj1 h1
  cases ok with
  | true => simp only [↓reduceIte, Option.some.injEq] at h1; subst h1; exact h
  | false => simp at h1

theorem some_gk {j0 : JobObj} {d : PIndex} {rj : Job} (h : Good j0 d rj) : OutGK j0 d rj (some rj) := by
  intro rj1 h1; cases h1; exact GK.refl h

theorem syncCreateTasks_good {j0 : JobObj} (s : Sys) (jo : JobObj) (tasks : List Task) (hwf : WF2 j0 s.d)
    (hp : PodsGood j0 s) (hjo : VerOK j0 jo) (hg : Good j0 s.d jo.job)
    (hst : isStarted jo.job = true) (hdel : isDeleted jo.job = false) (ht : TasksGood j0 s.d tasks)
    (hsub : ∀ n ∈ tasks.map (·.name), n ∈ refNames jo.job) :
    ∀ rj1 tasks1, (syncCreateTasks s jo jo.job tasks).2 = some (rj1, tasks1) →
      GK j0 s.d jo.job rj1 ∧ TasksGood j0 s.d tasks1 := by
  intro rj1 tasks1
  unfold syncCreateTasks
  by_cases hcan : canCreateTask jo.job = true
  · simp only [hcan, Bool.not_true, Bool.false_eq_true, ↓reduceIte]
    split
    · intro h
      simp only [Option.some.injEq, Prod.mk.injEq] at h
      obtain ⟨rfl, rfl⟩ := h
      exact ⟨GK.refl hg, adoptUnrecordedTasks_good s jo tasks hp hjo.uid ht⟩
    · cases hreqs : computeMissingIndexesForCreation s.d jo.job (jo.job.indexes s.d) with
      | none => (try simp only); intro h; cases h
      | some reqs =>
        (try simp only)
        have hnames := reqs_names hwf hjo hg.refs hreqs
        have hreq : ∀ r ∈ reqs, CreateReq s.d jo r.index r.retryIndex :=
          fun r hr => ⟨hst, hdel, hcan, reqs, r.earliest, hreqs, hr⟩
        have h1 := createLoop_good jo s.d s.podCache (podNames s.pods) hjo reqs s jo.job tasks none rfl rfl (fun _ h => h) hp hreq ht hnames.1
          (fun r hr hmem => hnames.2 r hr (hsub _ hmem))
        have hm := (createLoop_spec jo s s.d reqs s jo.job tasks none rfl (CreatePhase.refl _) hreq (fun t h' => (ht.ok t h').1)).1
        generalize createLoop jo reqs s jo.job tasks none = res at h1 hm ⊢
        obtain ⟨s1, o⟩ := res
        cases o with
        | none => (try simp only); intro h; cases h
        | some v =>
          obtain ⟨rj', tasks', minE⟩ := v
          (try simp only)
          obtain ⟨hstat, ht', _, _⟩ := h1 rj' tasks' minE rfl
          have hgk1 : GK j0 s.d jo.job rj' := GK.of_status hg hstat.status
          have fin : ∀ s2, s2.d = s.d →
              GK j0 s.d jo.job (updateTaskRefStatus s2 (jobKey jo) rj' tasks').2 := by
            intro s2 hd2
            exact hgk1.trans (updateTaskRefStatus_gk' s2 hd2 (jobKey jo) rj' tasks' hgk1.1 ht')
          cases minE with
          | none =>
            (try simp only)
            intro h
            simp only [Option.some.injEq, Prod.mk.injEq] at h
            obtain ⟨rfl, rfl⟩ := h
            exact ⟨fin s1 hm.static.d, ht'⟩
          | some t =>
            (try simp only)
            intro h
            simp only [Option.some.injEq, Prod.mk.injEq] at h
            obtain ⟨rfl, rfl⟩ := h
            exact ⟨fin _ hm.static.d, ht'⟩
  · simp only [hcan, Bool.not_false, ↓reduceIte]
    intro h
    simp only [Option.some.injEq, Prod.mk.injEq] at h
    obtain ⟨rfl, rfl⟩ := h
    exact ⟨GK.refl hg, adoptUnrecordedTasks_good s jo tasks hp hjo.uid ht⟩

theorem handlePendingTasks_good {j0 : JobObj} {d : PIndex} (s : Sys) (jo : JobObj) (rj : Job) (tasks : List Task)
    (hg : Good j0 d rj) : OutGK j0 d rj (handlePendingTasks s jo rj tasks).2 := by
  unfold handlePendingTasks
  cases getPendingTimeout rj s.cfg with
  | none => exact some_gk hg
  | some pt =>
    (try simp only)
    split
    · exact some_gk hg
    · generalize List.foldl _ (s, ([] : List Task)) tasks = r
      obtain ⟨s1, needDelete⟩ := r
      (try simp only)
      split
      · exact some_gk hg
      · generalize deleteTasks s1 needDelete false = r2
        obtain ⟨s2, ok⟩ := r2
        (try simp only)
        exact ite_some_none_gk ok (markDeleted_gk' rj _ _ (fun r => ⟨rfl, rfl, rfl, rfl, rfl, rfl⟩) hg)

theorem handleKillJob_good {j0 : JobObj} {d : PIndex} (s : Sys) (jo : JobObj) (rj : Job) (tasks : List Task)
    (hg : Good j0 d rj) : OutGK j0 d rj (handleKillJob s jo rj tasks).2 := by
  unfold handleKillJob
  split
  · split <;> exact some_gk hg
  · (try simp only)
    split
    · exact some_gk hg
    · generalize deleteTasks s (tasks.filter (fun t => !isTaskFinished t && t.deletionTimestamp.isNone)) false = r2
      obtain ⟨s2, ok⟩ := r2
      (try simp only)
      exact ite_some_none_gk ok (markDeleted_gk' rj _ _ (fun r => ⟨rfl, rfl, rfl, rfl, rfl, rfl⟩) hg)

theorem handleForceDelete_good {j0 : JobObj} {d : PIndex} (s : Sys) (jo : JobObj) (rj : Job) (tasks : List Task)
    (hg : Good j0 d rj) (ht : TasksGood j0 d tasks) : OutGK j0 d rj (handleForceDelete s jo rj tasks).2 := by
  unfold handleForceDelete
  (try simp only)
  split
  · exact some_gk hg
  · split
    · exact some_gk hg
    · generalize List.foldl _ (s, ([] : List Task)) tasks = r
      obtain ⟨s1, needDelete⟩ := r
      (try simp only)
      split
      · exact some_gk hg
      · generalize deleteTasks s1 needDelete true = r2
        obtain ⟨s2, ok⟩ := r2
        (try simp only)
        refine ite_some_none_gk ok ?_
        have h1 := markDeleted_gk' rj (needDelete.map (·.name)) (fun r =>
            { r with deletedStatus := some { (r.deletedStatus.getD
              { state := .terminated, result := .killed, reason := "" }) with reason := "ForceDeleted" } })
          (fun r => ⟨rfl, rfl, rfl, rfl, rfl, rfl⟩) hg
        exact h1.trans (updateJobTaskRefs_good s1.clock _ tasks h1.1 ht)

theorem syncJobTasks_good {j0 : JobObj} (s : Sys) (jo : JobObj) (hwf : WF2 j0 s.d) (hp : PodsGood j0 s)
    (hjo : VerOK j0 jo) (hg : Good j0 s.d jo.job) (hst : isStarted jo.job = true) (hdel : isDeleted jo.job = false) :
    OutGK j0 s.d jo.job (syncJobTasks s jo jo.job).2 := by
  unfold syncJobTasks
  (try simp only)
  have htf := tasksForRefs_good (jo := jo) hp hjo.uid jo.job.status.tasks hg.nodup
  have h1 := syncCreateTasks_good s jo (tasksForRefs s jo jo.job.status.tasks) hwf hp hjo hg hst hdel htf.1 htf.2
  have hm1 := (syncCreateTasks_spec s jo s (tasksForRefs s jo jo.job.status.tasks) hst hdel (tasksForRefs_ok s jo _) (CreatePhase.refl _)).1
  generalize syncCreateTasks s jo jo.job (tasksForRefs s jo jo.job.status.tasks) = r1 at h1 hm1 ⊢
  obtain ⟨s1, o1⟩ := r1
  cases o1 with
  | none => (try simp only); intro _ h; cases h
  | some v =>
    obtain ⟨rj1, tasks1⟩ := v
    obtain ⟨hgk1, ht1⟩ := h1 rj1 tasks1 rfl
    (try simp only)
    have hd1 : s1.d = s.d := hm1.static.d
    have h2 := updateTaskRefStatus_gk' s1 hd1 (jobKey jo) rj1 tasks1 hgk1.1 ht1
    have hf2 := (updateTaskRefStatus_spec s1 (jobKey jo) rj1 tasks1 (fun t h' => (ht1.ok t h').1)).1
    generalize updateTaskRefStatus s1 (jobKey jo) rj1 tasks1 = r2 at h2 hf2 ⊢
    obtain ⟨s2, rj2⟩ := r2
    (try simp only)
    have h3 := handlePendingTasks_good s2 jo rj2 tasks1 h2.1
    have hm3 := (handlePendingTasks_spec s2 jo s rj2 tasks1).1
    generalize handlePendingTasks s2 jo rj2 tasks1 = r3 at h3 hm3 ⊢
    obtain ⟨s3, o3⟩ := r3
    cases o3 with
    | none => (try simp only); intro _ h; cases h
    | some rj3 =>
      (try simp only)
      have hgk3 : GK j0 s.d jo.job rj3 := (hgk1.trans h2).trans (h3 rj3 rfl)
      have h4 := handleKillJob_good s3 jo rj3 tasks1 hgk3.1
      have hm4 := (handleKillJob_spec s3 jo s rj3 tasks1).1
      generalize handleKillJob s3 jo rj3 tasks1 = r4 at h4 hm4 ⊢
      obtain ⟨s4, o4⟩ := r4
      cases o4 with
      | none => (try simp only); intro _ h; cases h
      | some rj4 =>
        (try simp only)
        have hgk4 := hgk3.trans (h4 rj4 rfl)
        have h5 := handleForceDelete_good s4 jo rj4 tasks1 hgk4.1 ht1
        have hm5 := (handleForceDelete_spec s4 jo s rj4 tasks1 (fun t h' => (ht1.ok t h').1)).1
        generalize handleForceDelete s4 jo rj4 tasks1 = r5 at h5 hm5 ⊢
        obtain ⟨s5, o5⟩ := r5
        cases o5 with
        | none => (try simp only); intro _ h; cases h
        | some rj5 =>
          (try simp only)
          have hgk5 := hgk4.trans (h5 rj5 rfl)
          have hd5 : s5.d = s.d :=
            hm5.static.d.trans (hm4.static.d.trans (hm3.static.d.trans (hf2.d.trans hd1)))
          have h6 := updateTaskRefStatus_gk' s5 hd5 (jobKey jo) rj5 tasks1 hgk5.1 ht1
          generalize updateTaskRefStatus s5 (jobKey jo) rj5 tasks1 = r6 at h6 ⊢
          obtain ⟨s6, rj6⟩ := r6
          (try simp only)
          intro rj' h
          simp only [Option.some.injEq] at h
          subst h
          exact hgk5.trans h6

theorem handleFinalizer_good {j0 : JobObj} (s : Sys) (jo : JobObj) (rj : Job) (fin : Bool)
    (hp : PodsGood j0 s) (hu : jo.uid = j0.uid) (hg : Good j0 s.d rj) :
    ∀ rj1 fin1, (handleFinalizer s jo rj fin).2 = some (rj1, fin1) → GK j0 s.d rj rj1 := by
  intro rj1 fin1
  unfold handleFinalizer
  split
  · intro h; cases h; exact GK.refl hg
  · split
    · intro h; cases h; exact GK.refl hg
    · (try simp only)
      have htf : TasksGood j0 s.d (finalizerTasks s jo rj) := by
        unfold finalizerTasks
        exact adoptUnrecordedTasks_good s _ _ hp hu (tasksForRefsConfirmed_good hp hu rj.status.tasks hg.nodup)
      split
      · have hk := foldl_deletedStatus_gk (j0 := j0) (d := s.d)
          { state := .terminated, result := .killed, reason := "JobDeleted" } (finalizerTasks s jo rj) rj hg
        have h1 := updateTaskRefStatus_gk s (jobKey jo) _ (finalizerTasks s jo rj) hk.1 htf
        generalize updateTaskRefStatus s (jobKey jo) _ (finalizerTasks s jo rj) = r1 at h1 ⊢
        obtain ⟨s1, rj2⟩ := r1
        (try simp only)
        generalize deleteTasks s1 (finalizerTasks s jo rj) false = r2
        obtain ⟨s2, ok⟩ := r2
        (try simp only)
        intro h
        cases ok with
        | false => simp at h
        | true =>
          simp only [↓reduceIte, Option.some.injEq, Prod.mk.injEq] at h
          obtain ⟨rfl, _⟩ := h
          exact hk.trans h1
      · have h1 := updateTaskRefStatus_gk s (jobKey jo) rj [] hg ⟨by simp, by intro t ht; cases ht⟩
        generalize updateTaskRefStatus s (jobKey jo) rj [] = r1 at h1 ⊢
        obtain ⟨s1, rj1'⟩ := r1
        (try simp only)
        intro h
        simp only [Option.some.injEq, Prod.mk.injEq] at h
        obtain ⟨rfl, _⟩ := h
        exact h1

/-- The Job value a pass computes has good refs and keeps every recorded ref and timestamp, provided
every pod of the Job the controller can see is well-formed and the cached Job's refs are good
(whatever foreign pods exist: no lookup reads them). -/
theorem sync_good {j0 : JobObj} (s : Sys) (jo : JobObj) (hwf : WF2 j0 s.d) (hp : PodsGood j0 s)
    (hjo : VerOK j0 jo) (hg : Good j0 s.d jo.job) : GK j0 s.d jo.job (sync s jo).2.1 := by
  unfold sync
  (try simp only)
  have h1 : OutGK j0 s.d jo.job (if (isStarted jo.job && !isDeleted jo.job) = true then syncJobTasks s jo jo.job
      else (s, some jo.job)).2 := by
    split
    · rename_i hc
      simp only [Bool.and_eq_true, Bool.not_eq_true'] at hc
      exact syncJobTasks_good s jo hwf hp hjo hg hc.1 hc.2
    · exact some_gk hg
  have hm1 : Micros jo s s (if (isStarted jo.job && !isDeleted jo.job) = true then syncJobTasks s jo jo.job
      else (s, some jo.job)).1 := by
    split
    · rename_i hc
      simp only [Bool.and_eq_true, Bool.not_eq_true'] at hc
      exact (syncJobTasks_spec s jo s hc.1 hc.2 (CreatePhase.refl _)).1
    · exact .refl s
  generalize (if (isStarted jo.job && !isDeleted jo.job) = true then syncJobTasks s jo jo.job
      else (s, some jo.job)) = r1 at h1 hm1 ⊢
  obtain ⟨s1, o1⟩ := r1
  cases o1 with
  | none => (try simp only); exact GK.refl hg
  | some rj1 =>
    (try simp only)
    have hgk1 := h1 rj1 rfl
    have hd1 : s1.d = s.d := hm1.static.d
    have h2 : GK j0 s.d rj1 (syncJobStatusFromTaskRefs s1 (jobKey jo) rj1).2 := by
      have := syncJobStatusFromTaskRefs_gk (j0 := j0) s1 (jobKey jo) rj1 (hd1 ▸ hgk1.1)
      rw [hd1] at this; exact this
    have hf2 := (syncJobStatusFromTaskRefs_spec s1 (jobKey jo) rj1).1
    generalize syncJobStatusFromTaskRefs s1 (jobKey jo) rj1 = r2 at h2 hf2 ⊢
    obtain ⟨s2, rj2⟩ := r2
    (try simp only)
    have hm3 := handleTTL_micros s2 jo s rj2
    generalize handleTTL s2 jo rj2 = r3 at hm3 ⊢
    obtain ⟨s3, ok3⟩ := r3
    have hgk2 := hgk1.trans h2
    cases ok3 with
    | false => (try simp only); exact hgk2
    | true =>
      (try simp only)
      have hms3 : Micros jo s s s3 := (hm1.trans (.frame hf2)).trans hm3
      have hp3 : PodsGood j0 s3 := hp.micros hjo hms3
      have hd3 : s3.d = s.d := hms3.static.d
      have h4 := handleFinalizer_good s3 jo rj2 jo.finalizer hp3 hjo.uid (hd3 ▸ hgk2.1)
      generalize handleFinalizer s3 jo rj2 jo.finalizer = r4 at h4 ⊢
      obtain ⟨s4, o4⟩ := r4
      cases o4 with
      | none => (try simp only); exact hgk2
      | some v =>
        obtain ⟨rj3, fin⟩ := v
        (try simp only)
        have := h4 rj3 fin rfl
        rw [hd3] at this
        exact hgk2.trans this

end Furiko.JobCtl
