/-
The per-JobConfig pass (`passLoop`) as a big-step relation `Pass` (with states) and its
state-free projection `Run` over the call log; `listQueued` facts (membership, distinct names,
sortedness).
-/
import FurikoModel.Proofs.QueueBasic
import FurikoModel.Proofs.QueueWQ

set_option linter.unusedSimpArgs false
set_option linter.unusedVariables false

namespace Furiko.Queue
open Furiko.WQ

deriving instance DecidableEq for Call

/-! ### `listQueued` -/

theorem insertByCreated_perm (j : JobV) (l : List JobV) : (insertByCreated j l).Perm (j :: l) := by
  induction l with
  | nil => simp [insertByCreated]
  | cons x rest ih =>
    simp only [insertByCreated]
    split
    · exact List.Perm.refl _
    · exact (List.Perm.cons x ih).trans (List.Perm.swap j x rest)

theorem foldl_insertByCreated_perm (l acc : List JobV) :
    (l.foldl (fun acc j => insertByCreated j acc) acc).Perm (l ++ acc) := by
  induction l generalizing acc with
  | nil => simp
  | cons x rest ih =>
    simp only [List.foldl_cons]
    refine (ih _).trans ?_
    refine (List.Perm.append_left rest (insertByCreated_perm x acc)).trans ?_
    simp only [List.cons_append]
    exact List.perm_middle

theorem listQueued_perm (cache : List JobV) (jc : JCV) :
    (listQueued cache jc).Perm (cache.filter (fun j => j.label = some jc.uid && j.isQueued)) := by
  unfold listQueued
  simpa using foldl_insertByCreated_perm (cache.filter (fun j => j.label = some jc.uid && j.isQueued)) []

theorem mem_listQueued {cache : List JobV} {jc : JCV} {j : JobV} :
    j ∈ listQueued cache jc ↔ j ∈ cache ∧ j.label = some jc.uid ∧ j.isQueued = true := by
  rw [(listQueued_perm cache jc).mem_iff]
  simp [List.mem_filter]

theorem nodup_names_listQueued {cache : List JobV} (jc : JCV) (h : (names cache).Nodup) :
    (names (listQueued cache jc)).Nodup := by
  unfold names
  rw [((listQueued_perm cache jc).map _).nodup_iff]
  exact (List.filter_sublist.map _).nodup h

theorem mem_insertByCreated {j x : JobV} {l : List JobV} :
    x ∈ insertByCreated j l ↔ x = j ∨ x ∈ l := by
  rw [(insertByCreated_perm j l).mem_iff]; simp

theorem insertByCreated_sorted (j : JobV) {l : List JobV}
    (h : l.Pairwise (fun a b => a.created ≤ b.created)) :
    (insertByCreated j l).Pairwise (fun a b => a.created ≤ b.created) := by
  induction l with
  | nil => simp [insertByCreated]
  | cons x rest ih =>
    simp only [insertByCreated]
    rw [List.pairwise_cons] at h
    split
    · rename_i hlt
      refine List.Pairwise.cons ?_ (List.Pairwise.cons h.1 h.2)
      intro b hb
      rcases List.mem_cons.mp hb with rfl | hb
      · omega
      · have := h.1 b hb; omega
    · rename_i hlt
      refine List.Pairwise.cons ?_ (ih h.2)
      intro b hb
      rcases mem_insertByCreated.mp hb with rfl | hb
      · omega
      · exact h.1 b hb

theorem foldl_insertByCreated_sorted (l : List JobV) {acc : List JobV}
    (h : acc.Pairwise (fun a b => a.created ≤ b.created)) :
    (l.foldl (fun acc j => insertByCreated j acc) acc).Pairwise (fun a b => a.created ≤ b.created) := by
  induction l generalizing acc with
  | nil => exact h
  | cons x rest ih => exact ih (insertByCreated_sorted x h)

theorem listQueued_sorted (cache : List JobV) (jc : JCV) :
    (listQueued cache jc).Pairwise (fun a b => a.created ≤ b.created) :=
  foldl_insertByCreated_sorted _ List.Pairwise.nil

theorem findJob_of_mem_nodup {l : List JobV} {j : JobV} (hnd : (names l).Nodup) (hj : j ∈ l) :
    findJob l j.name = some j := by
  induction l with
  | nil => simp at hj
  | cons x rest ih =>
    simp only [names, List.map_cons, List.nodup_cons, List.mem_map, not_exists, not_and] at hnd
    rw [findJob_cons]
    rcases List.mem_cons.mp hj with rfl | hm
    · simp
    · have : x.name ≠ j.name := fun h => hnd.1 j hm h.symm
      simp only [this, if_false]
      exact ih hnd.2 hm

/-- in a sorted list with distinct names, strictly earlier creation means earlier position -/
theorem split_of_created_lt {l : List JobV} {A B : JobV}
    (hs : l.Pairwise (fun a b => a.created ≤ b.created)) (hA : A ∈ l) (hB : B ∈ l)
    (hlt : A.created < B.created) : ∃ l1 l2 l3, l = l1 ++ A :: l2 ++ B :: l3 := by
  obtain ⟨l1, r, rfl⟩ := List.append_of_mem hA
  rw [List.pairwise_append] at hs
  obtain ⟨_, hr, hcross⟩ := hs
  rw [List.pairwise_cons] at hr
  have hBr : B ∈ r := by
    rcases List.mem_append.mp hB with h | h
    · have := hcross B h A (by simp); omega
    · rcases List.mem_cons.mp h with rfl | h
      · omega
      · exact h
  obtain ⟨l2, l3, rfl⟩ := List.append_of_mem hBr
  exact ⟨l1, l2, l3, by simp⟩

/-! ### the API write with reasons, for `startJob` -/

/-- why a write is refused -/
def writeRefused (s : Sys) (cached : JobV) : Prop :=
  faultBlocks s ∨ findJob s.jobs cached.name = none ∨
    ∃ cur, findJob s.jobs cached.name = some cur ∧ cur.rv ≠ cached.rv

/-- `startJob_cases` with the reason of a failed write kept -/
theorem startJob_cases' (s : Sys) (jc : JCV) (j : JobV) (old : Int) :
    (getCtr s.counter jc.uid ≠ old ∧ startJob s jc j old = (s, false)) ∨
    (getCtr s.counter jc.uid = old ∧ ∃ res, res ≠ "ok" ∧ writeRefused s j ∧
        startJob s jc j old =
          ({ failWrite s "start" j.name res with counter := rollback s.counter jc.uid old }, false)) ∨
    (getCtr s.counter jc.uid = old ∧ ∃ cur, findJob s.jobs j.name = some cur ∧ cur.rv = j.rv ∧
        ¬ faultBlocks s ∧
        ((nextFault s ≠ "applied-err" ∧ startJob s jc j old =
            ({ applyWrite s "start" j.name { startF s.clock j cur with rv := s.rv + 1 } with
                counter := setCtr s.counter jc.uid (old + 1) }, true)) ∨
         (nextFault s = "applied-err" ∧ startJob s jc j old =
            ({ applyWrite s "start" j.name { startF s.clock j cur with rv := s.rv + 1 } with
                counter := rollback s.counter jc.uid old }, false)))) := by
  unfold startJob
  by_cases hcas : getCtr s.counter jc.uid = old
  · right
    simp only [hcas, ne_eq, not_true_eq_false, if_false]
    rw [startJobWrite_eq]
    rcases apiWriteJob_cases { s with counter := setCtr s.counter jc.uid (old + 1) } "start" j
        (startF s.clock j) with ⟨res, hres, heq, hwhy⟩ | ⟨cur, hf, hrv, hnb, heq⟩
    · left
      refine ⟨trivial, res, hres, hwhy, ?_⟩
      rw [heq]; simp [failWrite, rollback]
    · right
      refine ⟨trivial, cur, hf, hrv, hnb, ?_⟩
      rw [heq]
      by_cases ha : nextFault s = "applied-err"
      · right; refine ⟨ha, ?_⟩
        have ha' : nextFault { s with counter := setCtr s.counter jc.uid (old + 1) } = "applied-err" := ha
        simp [ha', applyWrite, rollback]
      · left; refine ⟨ha, ?_⟩
        have ha' : ¬ nextFault { s with counter := setCtr s.counter jc.uid (old + 1) } = "applied-err" := ha
        simp [ha', applyWrite]
  · left; simp [hcas]

/-! ### the pass as a big-step relation -/

/-- state after `canStartJob` deferred a Job whose `startAfter` is in the future -/
def deferState (s : Sys) (jc : JCV) (j : JobV) : Sys :=
  { s with cfgQ := s.cfgQ.addAfter ("ns/" ++ jc.name) ((j.startAfter.getD 0) * 1000000000) s.clock }

/-- the message `canStartJob` formats into the admission-error annotation -/
def rejMsg (jc : JCV) (ac : Int) : String × Int := (jc.name, ac)

/-- the authoritative Job written by a successful reject / start -/
def rejectedJob (s : Sys) (m : String × Int) (j cur : JobV) : JobV :=
  { rejectF m j cur with rv := s.rv + 1 }
def startedJob (s : Sys) (j cur : JobV) : JobV := { startF s.clock j cur with rv := s.rv + 1 }

/-- `Pass jc rjs s ac cs s' ok`: running the loop over `rjs` from `s` with active count `ac`
appends the calls `cs`, ends in `s'` and returns `ok`. -/
inductive Pass (jc : JCV) : List JobV → Sys → Int → List Call → Sys → Bool → Prop
  | nil (s : Sys) (ac : Int) : Pass jc [] s ac [] s true
  | defer {j : JobV} {rest : List JobV} {s : Sys} {ac : Int} {cs : List Call} {s' : Sys} {ok : Bool} :
      j.hasPolicy = true → startAfterLater j s.clock = true →
      Pass jc rest (deferState s jc j) ac cs s' ok → Pass jc (j :: rest) s ac cs s' ok
  | wait {j : JobV} {rest : List JobV} {s : Sys} {ac : Int} {cs : List Call} {s' : Sys} {ok : Bool} :
      j.hasPolicy = true → startAfterLater j s.clock = false → j.policy = 2 → overLimit jc ac →
      Pass jc rest s ac cs s' ok → Pass jc (j :: rest) s ac cs s' ok
  | rejectFail {j : JobV} {rest : List JobV} {s : Sys} {ac : Int} (res : String) :
      j.hasPolicy = true → startAfterLater j s.clock = false → j.policy = 1 → overLimit jc ac →
      res ≠ "ok" → writeRefused s j →
      Pass jc (j :: rest) s ac [⟨"reject", j.name, res⟩] (failWrite s "reject" j.name res) false
  | rejectOk {j : JobV} {rest : List JobV} {s : Sys} {ac : Int} {cs : List Call} {s' : Sys} {ok : Bool}
      (cur : JobV) :
      j.hasPolicy = true → startAfterLater j s.clock = false → j.policy = 1 → overLimit jc ac →
      findJob s.jobs j.name = some cur → cur.rv = j.rv → ¬ faultBlocks s →
      nextFault s ≠ "applied-err" →
      Pass jc rest (applyWrite s "reject" j.name (rejectedJob s (rejMsg jc ac) j cur)) ac cs s' ok →
      Pass jc (j :: rest) s ac (⟨"reject", j.name, "ok"⟩ :: cs) s' ok
  | rejectLost {j : JobV} {rest : List JobV} {s : Sys} {ac : Int} (cur : JobV) :
      j.hasPolicy = true → startAfterLater j s.clock = false → j.policy = 1 → overLimit jc ac →
      findJob s.jobs j.name = some cur → cur.rv = j.rv → ¬ faultBlocks s →
      nextFault s = "applied-err" →
      Pass jc (j :: rest) s ac [⟨"reject", j.name, "ok"⟩]
        (applyWrite s "reject" j.name (rejectedJob s (rejMsg jc ac) j cur)) false
  /-- the reject write is a no-op (the authoritative Job already carries this very rejection):
  logged "ok", no new resourceVersion, no event; the pass goes on -/
  | rejectNoop {j : JobV} {rest : List JobV} {s : Sys} {ac : Int} {cs : List Call} {s' : Sys} {ok : Bool}
      (cur : JobV) :
      j.hasPolicy = true → startAfterLater j s.clock = false → j.policy = 1 → overLimit jc ac →
      findJob s.jobs j.name = some cur → cur.rv = j.rv → ¬ faultBlocks s →
      nextFault s ≠ "applied-err" → rejectF (rejMsg jc ac) j cur = cur →
      Pass jc rest (failWrite s "reject" j.name "ok") ac cs s' ok →
      Pass jc (j :: rest) s ac (⟨"reject", j.name, "ok"⟩ :: cs) s' ok
  /-- no-op reject write whose answer is lost (`applied-err`): the pass aborts -/
  | rejectNoopLost {j : JobV} {rest : List JobV} {s : Sys} {ac : Int} (cur : JobV) :
      j.hasPolicy = true → startAfterLater j s.clock = false → j.policy = 1 → overLimit jc ac →
      findJob s.jobs j.name = some cur → cur.rv = j.rv → ¬ faultBlocks s →
      nextFault s = "applied-err" → rejectF (rejMsg jc ac) j cur = cur →
      Pass jc (j :: rest) s ac [⟨"reject", j.name, "ok"⟩] (failWrite s "reject" j.name "ok") false
  | casFail {j : JobV} {rest : List JobV} {s : Sys} {ac : Int} :
      startVerdict jc s.clock j ac → getCtr s.counter jc.uid ≠ ac →
      Pass jc (j :: rest) s ac [] s false
  | startFail {j : JobV} {rest : List JobV} {s : Sys} {ac : Int} (res : String) :
      startVerdict jc s.clock j ac → getCtr s.counter jc.uid = ac → res ≠ "ok" → writeRefused s j →
      Pass jc (j :: rest) s ac [⟨"start", j.name, res⟩]
        { failWrite s "start" j.name res with counter := rollback s.counter jc.uid ac } false
  | startOk {j : JobV} {rest : List JobV} {s : Sys} {ac : Int} {cs : List Call} {s' : Sys} {ok : Bool}
      (cur : JobV) :
      startVerdict jc s.clock j ac → getCtr s.counter jc.uid = ac →
      findJob s.jobs j.name = some cur → cur.rv = j.rv → ¬ faultBlocks s →
      nextFault s ≠ "applied-err" →
      Pass jc rest { applyWrite s "start" j.name (startedJob s j cur) with
                      counter := setCtr s.counter jc.uid (ac + 1) } (ac + 1) cs s' ok →
      Pass jc (j :: rest) s ac (⟨"start", j.name, "ok"⟩ :: cs) s' ok
  | startLost {j : JobV} {rest : List JobV} {s : Sys} {ac : Int} (cur : JobV) :
      startVerdict jc s.clock j ac → getCtr s.counter jc.uid = ac →
      findJob s.jobs j.name = some cur → cur.rv = j.rv → ¬ faultBlocks s →
      nextFault s = "applied-err" →
      Pass jc (j :: rest) s ac [⟨"start", j.name, "ok"⟩]
        { applyWrite s "start" j.name (startedJob s j cur) with
            counter := rollback s.counter jc.uid ac } false

theorem passLoop_cons (jc : JCV) (j : JobV) (rest : List JobV) (s : Sys) (ac : Int) :
    passLoop jc (j :: rest) s ac =
      match canStartJob s jc j ac with
      | (s1, .error) => (s1, false)
      | (s1, .skip) => passLoop jc rest s1 ac
      | (s1, .start) =>
        match startJob s1 jc j ac with
        | (s2, false) => (s2, false)
        | (s2, true) => passLoop jc rest s2 (getCtr s2.counter jc.uid) := rfl

/-- the link: `passLoop` realises `Pass` -/
theorem passLoop_Pass (jc : JCV) (rjs : List JobV) (s : Sys) (ac : Int) :
    ∃ cs, Pass jc rjs s ac cs (passLoop jc rjs s ac).1 (passLoop jc rjs s ac).2 := by
  induction rjs generalizing s ac with
  | nil => exact ⟨[], Pass.nil s ac⟩
  | cons j rest ih =>
    rw [passLoop_cons]
    have hsv := canStartJob_start_iff s jc j ac
    rcases canStartJob_cases s jc j ac with ⟨h, heq⟩ | ⟨h, hl, heq⟩ | ⟨h, hl, hpol, hlim, heq⟩ |
        ⟨h, hl, hpol, hlim, heq⟩ | ⟨h, hl, hn, heq⟩
    · -- no policy: start
      rw [heq] at hsv ⊢
      have hv : startVerdict jc s.clock j ac := hsv.mp rfl
      simp only
      rcases startJob_cases' s jc j ac with ⟨hne, hst⟩ | ⟨hcas, res, hres, hwhy, hst⟩ |
          ⟨hcas, cur, hf, hrv, hnb, ⟨ha, hst⟩ | ⟨ha, hst⟩⟩
      · rw [hst]; exact ⟨[], Pass.casFail hv hne⟩
      · rw [hst]; exact ⟨_, Pass.startFail res hv hcas hres hwhy⟩
      · rw [hst]
        simp only [getCtr_setCtr, if_true]
        obtain ⟨cs, hcs⟩ := ih { applyWrite s "start" j.name (startedJob s j cur) with
                      counter := setCtr s.counter jc.uid (ac + 1) } (ac + 1)
        exact ⟨_, Pass.startOk cur hv hcas hf hrv hnb ha hcs⟩
      · rw [hst]; exact ⟨_, Pass.startLost cur hv hcas hf hrv hnb ha⟩
    · rw [heq]
      obtain ⟨cs, hcs⟩ := ih (deferState s jc j) ac
      exact ⟨cs, Pass.defer h hl hcs⟩
    · rw [heq]
      rcases rejectJobWrite_cases s j (jc.name, ac) with ⟨res, hres, hw, hwhy⟩ |
          ⟨cur, hf, hrv, hnb, _, hw⟩ | ⟨cur, hf, hrv, hnb, hnoop, hw⟩
      · rw [hw]; simp only [Bool.false_eq_true, if_false]
        exact ⟨_, Pass.rejectFail res h hl hpol hlim hres hwhy⟩
      · rw [hw]
        by_cases ha : nextFault s = "applied-err"
        · simp only [ha, ne_eq, not_true_eq_false, decide_false, Bool.false_eq_true, if_false]
          exact ⟨_, Pass.rejectLost cur h hl hpol hlim hf hrv hnb ha⟩
        · simp only [ha, ne_eq, not_false_eq_true, decide_true, if_true]
          obtain ⟨cs, hcs⟩ := ih (applyWrite s "reject" j.name (rejectedJob s (rejMsg jc ac) j cur)) ac
          exact ⟨_, Pass.rejectOk cur h hl hpol hlim hf hrv hnb ha hcs⟩
      · rw [hw]
        by_cases ha : nextFault s = "applied-err"
        · simp only [ha, ne_eq, not_true_eq_false, decide_false, Bool.false_eq_true, if_false]
          exact ⟨_, Pass.rejectNoopLost cur h hl hpol hlim hf hrv hnb ha hnoop⟩
        · simp only [ha, ne_eq, not_false_eq_true, decide_true, if_true]
          obtain ⟨cs, hcs⟩ := ih (failWrite s "reject" j.name "ok") ac
          exact ⟨_, Pass.rejectNoop cur h hl hpol hlim hf hrv hnb ha hnoop hcs⟩
    · rw [heq]
      obtain ⟨cs, hcs⟩ := ih s ac
      exact ⟨cs, Pass.wait h hl hpol hlim hcs⟩
    · rw [heq] at hsv ⊢
      have hv : startVerdict jc s.clock j ac := hsv.mp rfl
      simp only
      rcases startJob_cases' s jc j ac with ⟨hne, hst⟩ | ⟨hcas, res, hres, hwhy, hst⟩ |
          ⟨hcas, cur, hf, hrv, hnb, ⟨ha, hst⟩ | ⟨ha, hst⟩⟩
      · rw [hst]; exact ⟨[], Pass.casFail hv hne⟩
      · rw [hst]; exact ⟨_, Pass.startFail res hv hcas hres hwhy⟩
      · rw [hst]
        simp only [getCtr_setCtr, if_true]
        obtain ⟨cs, hcs⟩ := ih { applyWrite s "start" j.name (startedJob s j cur) with
                      counter := setCtr s.counter jc.uid (ac + 1) } (ac + 1)
        exact ⟨_, Pass.startOk cur hv hcas hf hrv hnb ha hcs⟩
      · rw [hst]; exact ⟨_, Pass.startLost cur hv hcas hf hrv hnb ha⟩

/-! ### generic consequences of `Pass` -/

theorem Pass.calls {jc : JCV} {rjs : List JobV} {s : Sys} {ac : Int} {cs : List Call} {s' : Sys}
    {ok : Bool} (h : Pass jc rjs s ac cs s' ok) : s'.calls = s.calls ++ cs := by
  induction h with
  | nil => simp
  | defer _ _ _ ih => simpa [deferState] using ih
  | wait _ _ _ _ _ ih => exact ih
  | rejectFail => simp [failWrite]
  | rejectOk _ _ _ _ _ _ _ _ _ _ ih => simpa [applyWrite] using ih
  | rejectLost => simp [applyWrite]
  | rejectNoop _ _ _ _ _ _ _ _ _ _ _ ih => simpa [failWrite] using ih
  | rejectNoopLost => simp [failWrite]
  | casFail => simp
  | startFail => simp [failWrite]
  | startOk _ _ _ _ _ _ _ _ ih => simpa [applyWrite] using ih
  | startLost => simp [applyWrite]

/-- anything preserved by the elementary steps is preserved by the pass -/
theorem Pass.preserve {jc : JCV} {P : Sys → Prop}
    (hdefer : ∀ s j, P s → P (deferState s jc j))
    (hfail : ∀ s verb name res, P s → P (failWrite s verb name res))
    (hrej : ∀ s m j cur, findJob s.jobs j.name = some cur → P s →
      P (applyWrite s "reject" j.name (rejectedJob s m j cur)))
    (hstart : ∀ s j cur, findJob s.jobs j.name = some cur → P s →
      P (applyWrite s "start" j.name (startedJob s j cur)))
    (hctr : ∀ s c, P s → P { s with counter := c })
    {rjs : List JobV} {s : Sys} {ac : Int} {cs : List Call} {s' : Sys}
    {ok : Bool} (h : Pass jc rjs s ac cs s' ok) : P s → P s' := by
  induction h with
  | nil => exact id
  | defer _ _ _ ih => exact fun hP => ih (hdefer _ _ hP)
  | wait _ _ _ _ _ ih => exact ih
  | rejectFail => exact fun hP => hfail _ _ _ _ hP
  | rejectOk cur _ _ _ _ hf _ _ _ _ ih => exact fun hP => ih (hrej _ _ _ _ hf hP)
  | rejectLost cur _ _ _ _ hf => exact fun hP => hrej _ _ _ _ hf hP
  | rejectNoop cur _ _ _ _ _ _ _ _ _ _ ih => exact fun hP => ih (hfail _ _ _ _ hP)
  | rejectNoopLost => exact fun hP => hfail _ _ _ _ hP
  | casFail => exact id
  | startFail => exact fun hP => hctr _ _ (hfail _ _ _ _ hP)
  | startOk cur _ _ hf _ _ _ _ ih => exact fun hP => ih (hctr _ _ (hstart _ _ _ hf hP))
  | startLost cur _ _ hf => exact fun hP => hctr _ _ (hstart _ _ _ hf hP)

/-- what a pass never touches -/
structure Frame (s s' : Sys) : Prop where
  clock : s'.clock = s.clock
  jobCache : s'.jobCache = s.jobCache
  jcCache : s'.jcCache = s.jcCache
  jcs : s'.jcs = s.jcs
  jcEvs : s'.jcEvs = s.jcEvs
  indQ : s'.indQ = s.indQ
  storeQ : s'.storeQ = s.storeQ
  ctrlQ : s'.ctrlQ = s.ctrlQ
  cfgQueue : s'.cfgQ.queue = s.cfgQ.queue
  cfgDirty : s'.cfgQ.dirty = s.cfgQ.dirty
  cfgProcessing : s'.cfgQ.processing = s.cfgQ.processing
  cfgRequeues : s'.cfgQ.requeues = s.cfgQ.requeues

theorem Frame.refl (s : Sys) : Frame s s := by constructor <;> rfl

theorem Pass.frame {jc : JCV} {rjs : List JobV} {s : Sys} {ac : Int} {cs : List Call} {s' : Sys}
    {ok : Bool} (h : Pass jc rjs s ac cs s' ok) : Frame s s' := by
  refine Pass.preserve (P := Frame s) ?_ ?_ ?_ ?_ ?_ h (Frame.refl s)
  · intro s1 j ⟨h1, h2, h3, h4, h5, h6, h7, h8, h9, h10, h11, h12⟩
    exact ⟨h1, h2, h3, h4, h5, h6, h7, h8, h9, h10, h11, h12⟩
  · intro s1 _ _ _ ⟨h1, h2, h3, h4, h5, h6, h7, h8, h9, h10, h11, h12⟩
    exact ⟨h1, h2, h3, h4, h5, h6, h7, h8, h9, h10, h11, h12⟩
  · intro s1 _ _ _ _ ⟨h1, h2, h3, h4, h5, h6, h7, h8, h9, h10, h11, h12⟩
    exact ⟨h1, h2, h3, h4, h5, h6, h7, h8, h9, h10, h11, h12⟩
  · intro s1 _ _ _ ⟨h1, h2, h3, h4, h5, h6, h7, h8, h9, h10, h11, h12⟩
    exact ⟨h1, h2, h3, h4, h5, h6, h7, h8, h9, h10, h11, h12⟩
  · intro s1 _ ⟨h1, h2, h3, h4, h5, h6, h7, h8, h9, h10, h11, h12⟩
    exact ⟨h1, h2, h3, h4, h5, h6, h7, h8, h9, h10, h11, h12⟩

/-- deadlines already set survive the pass -/
theorem Pass.deadline_mono {jc : JCV} {rjs : List JobV} {s : Sys} {ac : Int} {cs : List Call}
    {s' : Sys} {ok : Bool} (h : Pass jc rjs s ac cs s' ok) {k : String} {b : Int}
    (hd : HasDeadline s.cfgQ.delayed k b) : HasDeadline s'.cfgQ.delayed k b := by
  refine Pass.preserve (P := fun x => HasDeadline x.cfgQ.delayed k b) ?_ ?_ ?_ ?_ ?_ h hd
  · intro s1 j h1; exact hasDeadline_addAfter_mono h1 _ _ _
  · intro s1 _ _ _ h1; exact h1
  · intro s1 _ _ _ _ h1; exact h1
  · intro s1 _ _ _ h1; exact h1
  · intro s1 _ h1; exact h1

/-- the authoritative Job `c.job` carries the effect of the applied call `c` -/
def Written (s : Sys) (c : Call) : Prop :=
  ∃ a, findJob s.jobs c.job = some a ∧
    (c.verb = "start" → a.startTime = some (s.clock / 1000000000)) ∧
    (c.verb = "reject" → a.admErr = true)

theorem written_applyWrite_start {s : Sys} {c : Call} {j cur : JobV} (verb : String)
    (hf : findJob s.jobs j.name = some cur) (h : Written s c) :
    Written (applyWrite s verb j.name (startedJob s j cur)) c := by
  obtain ⟨a, ha, h1, h2⟩ := h
  have hn := findJob_some_name hf
  unfold Written
  simp only [applyWrite, findJob_setJob]
  by_cases hc : (startedJob s j cur).name = c.job
  · rw [if_pos hc]
    have : cur = a := by
      have hc' : j.name = c.job := by rw [← hc, ← hn]; rfl
      rw [hc'] at hf; rw [hf] at ha; exact Option.some.inj ha
    subst this
    exact ⟨_, rfl, fun _ => rfl, h2⟩
  · rw [if_neg hc]; exact ⟨a, ha, h1, h2⟩

theorem written_applyWrite_reject {s : Sys} {c : Call} {m : String × Int} {j cur : JobV} (verb : String)
    (hf : findJob s.jobs j.name = some cur) (h : Written s c) :
    Written (applyWrite s verb j.name (rejectedJob s m j cur)) c := by
  obtain ⟨a, ha, h1, h2⟩ := h
  have hn := findJob_some_name hf
  unfold Written
  simp only [applyWrite, findJob_setJob]
  by_cases hc : (rejectedJob s m j cur).name = c.job
  · rw [if_pos hc]
    have : cur = a := by
      have hc' : j.name = c.job := by rw [← hc, ← hn]; rfl
      rw [hc'] at hf; rw [hf] at ha; exact Option.some.inj ha
    subst this
    exact ⟨_, rfl, h1, fun _ => rfl⟩
  · rw [if_neg hc]; exact ⟨a, ha, h1, h2⟩

theorem Pass.written_mono {jc : JCV} {rjs : List JobV} {s : Sys} {ac : Int} {cs : List Call}
    {s' : Sys} {ok : Bool} (h : Pass jc rjs s ac cs s' ok) {c : Call} (hw : Written s c) :
    Written s' c := by
  refine Pass.preserve (P := fun x => Written x c) ?_ ?_ ?_ ?_ ?_ h hw
  · intro s1 j h1; exact h1
  · intro s1 _ _ _ h1; exact h1
  · intro s1 m j cur hf h1; exact written_applyWrite_reject _ hf h1
  · intro s1 j cur hf h1; exact written_applyWrite_start _ hf h1
  · intro s1 _ h1; exact h1

theorem written_start_self (s : Sys) (j cur : JobV) (hf : findJob s.jobs j.name = some cur)
    (r : String) : Written (applyWrite s "start" j.name (startedJob s j cur)) ⟨"start", j.name, r⟩ := by
  have hn := findJob_some_name hf
  unfold Written
  simp only [applyWrite, findJob_setJob]
  have : (startedJob s j cur).name = j.name := hn
  rw [if_pos this]
  exact ⟨_, rfl, fun _ => rfl, fun h => absurd h (by decide)⟩

theorem written_reject_self (s : Sys) (m : String × Int) (j cur : JobV)
    (hf : findJob s.jobs j.name = some cur) (r : String) :
    Written (applyWrite s "reject" j.name (rejectedJob s m j cur)) ⟨"reject", j.name, r⟩ := by
  have hn := findJob_some_name hf
  unfold Written
  simp only [applyWrite, findJob_setJob]
  have : (rejectedJob s m j cur).name = j.name := hn
  rw [if_pos this]
  exact ⟨_, rfl, fun h => absurd h (by decide), fun _ => rfl⟩

/-- a Job on which the reject write is a no-op already carries the annotation -/
theorem rejectF_fix_admErr {m : String × Int} {j cur : JobV} (h : rejectF m j cur = cur) :
    cur.admErr = true := by
  have := congrArg JobV.admErr h
  simpa [rejectF] using this.symm

theorem written_reject_noop (s : Sys) {m : String × Int} {j cur : JobV}
    (hf : findJob s.jobs j.name = some cur) (hnoop : rejectF m j cur = cur) (r : String) :
    Written (failWrite s "reject" j.name "ok") ⟨"reject", j.name, r⟩ :=
  ⟨cur, hf, fun h => absurd (show "reject" = "start" from h) (by decide),
    fun _ => rejectF_fix_admErr hnoop⟩

/-- every call logged `"ok"` during the pass is reflected in the final authoritative state -/
theorem Pass.ok_written {jc : JCV} {rjs : List JobV} {s : Sys} {ac : Int} {cs : List Call}
    {s' : Sys} {ok : Bool} (h : Pass jc rjs s ac cs s' ok) :
    ∀ c ∈ cs, c.res = "ok" → Written s' c := by
  induction h with
  | nil => simp
  | defer _ _ _ ih => exact ih
  | wait _ _ _ _ _ ih => exact ih
  | rejectFail res _ _ _ _ hres =>
    intro c hc hok; simp only [List.mem_singleton] at hc; subst hc; exact absurd hok hres
  | rejectOk cur _ _ _ _ hf _ _ _ hp ih =>
    intro c hc hok
    rcases List.mem_cons.mp hc with rfl | hc
    · exact hp.written_mono (written_reject_self _ _ _ _ hf _)
    · exact ih c hc hok
  | rejectLost cur _ _ _ _ hf =>
    intro c hc hok; simp only [List.mem_singleton] at hc; subst hc
    exact written_reject_self _ _ _ _ hf _
  | rejectNoop cur _ _ _ _ hf _ _ _ hnoop hp ih =>
    intro c hc hok
    rcases List.mem_cons.mp hc with rfl | hc
    · exact hp.written_mono (written_reject_noop _ hf hnoop _)
    · exact ih c hc hok
  | rejectNoopLost cur _ _ _ _ hf _ _ _ hnoop =>
    intro c hc hok; simp only [List.mem_singleton] at hc; subst hc
    exact written_reject_noop _ hf hnoop _
  | casFail => simp
  | startFail res _ _ hres =>
    intro c hc hok; simp only [List.mem_singleton] at hc; subst hc; exact absurd hok hres
  | startOk cur _ _ hf _ _ _ hp ih =>
    intro c hc hok
    rcases List.mem_cons.mp hc with rfl | hc
    · exact hp.written_mono (written_start_self _ _ _ hf _)
    · exact ih c hc hok
  | startLost cur _ _ hf =>
    intro c hc hok; simp only [List.mem_singleton] at hc; subst hc
    exact written_start_self _ _ _ hf _

end Furiko.Queue
