/-
Helper lemmas for the cron scheduler model (Model/Cron.lean): the `Next` contract (`NextSpec`),
`nextInList`, `multiNext`, `getNext`, `floorSec`, the due-list enumeration `dueList`, and
well-formedness predicates.  Core Lean only.
-/
import FurikoModel.Model.Cron
import FurikoModel.Proofs.HeapSpec

namespace Furiko.Cron
open Furiko

/-! ### Well-formedness predicates -/

/-- strictly increasing list -/
def SortedStrict (l : List Int) : Prop := l.Pairwise (· < ·)

/-- The lister is a function on keys, every entry is stored under its own key and every
expression's match list is strictly increasing. -/
def ListerOK (lister : List (String × JC)) : Prop :=
  (∀ p ∈ lister, p.2.key = p.1 ∧ ∀ l ∈ p.2.sched.exprs, SortedStrict l) ∧
  (lister.map Prod.fst).Nodup

/-! ### The `Next` contract -/

/-- `r` is the answer of a correct `Next` for the match set `M` asked at second `s`:
the least `M`-time strictly after `s`, or `none` if there is none. -/
def NextAt (M : Int → Prop) (s : Int) (r : Option Int) : Prop :=
  (∀ m, r = some m → s < m ∧ M m ∧ ∀ u, M u → s < u → m ≤ u) ∧
  (r = none → ∀ u, M u → u ≤ s)

/-- contract of `expr.Next` on whole seconds -/
def NextSpec (M : Int → Prop) (nxt : Int → Option Int) : Prop := ∀ s, NextAt M s (nxt s)

theorem NextAt.unique {M : Int → Prop} {s : Int} {r r' : Option Int}
    (h : NextAt M s r) (h' : NextAt M s r') : r = r' := by
  cases r with
  | none =>
    cases r' with
    | none => rfl
    | some m' =>
      have a := h'.1 m' rfl
      have b := h.2 rfl m' a.2.1
      omega
  | some m =>
    cases r' with
    | none =>
      have a := h.1 m rfl
      have b := h'.2 rfl m a.2.1
      omega
    | some m' =>
      have a := h.1 m rfl
      have a' := h'.1 m' rfl
      have b := a.2.2 m' a'.2.1 a'.1
      have b' := a'.2.2 m a.2.1 a.1
      congr 1; omega

theorem NextAt.congr {M M' : Int → Prop} {s : Int} {r : Option Int}
    (hM : ∀ t, M t ↔ M' t) (h : NextAt M s r) : NextAt M' s r := by
  refine ⟨fun m hm => ?_, fun hn u hu => h.2 hn u ((hM u).2 hu)⟩
  have a := h.1 m hm
  exact ⟨a.1, (hM m).1 a.2.1, fun u hu hs => a.2.2 u ((hM u).2 hu) hs⟩

/-! ### `nextInList` -/

theorem nextInList_spec {l : List Int} (hl : SortedStrict l) (s : Int) :
    (∀ m, nextInList l s = some m → s < m ∧ m ∈ l ∧ ∀ u ∈ l, s < u → m ≤ u) ∧
    (nextInList l s = none → ∀ u ∈ l, u ≤ s) := by
  induction l with
  | nil => simp [nextInList]
  | cons a t ih =>
    have ht : SortedStrict t := (List.pairwise_cons.1 hl).2
    have ha : ∀ u ∈ t, a < u := (List.pairwise_cons.1 hl).1
    have ih := ih ht
    unfold nextInList
    by_cases hs : s < a
    · simp only [hs, if_true]
      refine ⟨fun m hm => ?_, fun h => by cases h⟩
      cases hm
      refine ⟨hs, by simp, fun u hu _ => ?_⟩
      rcases List.mem_cons.1 hu with rfl | hu
      · exact Int.le_refl _
      · exact Int.le_of_lt (ha u hu)
    · simp only [hs, if_false]
      refine ⟨fun m hm => ?_, fun hn u hu => ?_⟩
      · have b := ih.1 m hm
        refine ⟨b.1, List.mem_cons_of_mem _ b.2.1, fun u hu hsu => ?_⟩
        rcases List.mem_cons.1 hu with rfl | hu
        · omega
        · exact b.2.2 u hu hsu
      · rcases List.mem_cons.1 hu with rfl | hu
        · omega
        · exact ih.2 hn u hu

theorem nextInList_NextSpec {l : List Int} (hl : SortedStrict l) :
    NextSpec (fun t => t ∈ l) (nextInList l) := fun s => nextInList_spec hl s

/-! ### `multiNext` (the in-repo `multiExpression.Next` fold) -/

theorem minNonZero_some_NextAt {M N : Int → Prop} {s n : Int} {acc : Option Int}
    (hn : NextAt N s (some n)) (hacc : NextAt M s acc) :
    NextAt (fun t => M t ∨ N t) s (minNonZero (some n) acc) := by
  have a := hn.1 n rfl
  cases acc with
  | none =>
    have b := hacc.2 rfl
    refine ⟨fun m hm => ?_, fun h => by cases h⟩
    simp only [minNonZero] at hm
    cases hm
    refine ⟨a.1, Or.inr a.2.1, fun u hu hs => ?_⟩
    rcases hu with hu | hu
    · have := b u hu; omega
    · exact a.2.2 u hu hs
  | some c =>
    have b := hacc.1 c rfl
    refine ⟨fun m hm => ?_, fun h => by simp [minNonZero] at h⟩
    simp only [minNonZero, Option.some.injEq] at hm
    by_cases hc : c < n
    · rw [if_pos hc] at hm; subst hm
      refine ⟨b.1, Or.inl b.2.1, fun u hu hs => ?_⟩
      rcases hu with hu | hu
      · exact b.2.2 u hu hs
      · have := a.2.2 u hu hs; omega
    · rw [if_neg hc] at hm; subst hm
      refine ⟨a.1, Or.inr a.2.1, fun u hu hs => ?_⟩
      rcases hu with hu | hu
      · have := b.2.2 u hu hs; omega
      · exact a.2.2 u hu hs

theorem multiNext_fold_NextAt (s : Int) :
    ∀ (ps : List ((Int → Prop) × (Int → Option Int))), (∀ p ∈ ps, NextSpec p.1 p.2) →
    ∀ (M0 : Int → Prop) (acc : Option Int), NextAt M0 s acc →
    NextAt (fun t => M0 t ∨ ∃ p ∈ ps, p.1 t) s
      ((ps.map Prod.snd).foldl (fun earliest e =>
        match e s with
        | none => earliest
        | some n => minNonZero (some n) earliest) acc) := by
  intro ps
  induction ps with
  | nil =>
    intro _ M0 acc hacc
    simpa using hacc
  | cons p ps ih =>
    intro hps M0 acc hacc
    obtain ⟨M, e⟩ := p
    have hMe : NextSpec M e := hps (M, e) (by simp)
    simp only [List.map_cons, List.foldl_cons]
    have step : NextAt (fun t => M0 t ∨ M t) s
        (match e s with
          | none => acc
          | some n => minNonZero (some n) acc) := by
      cases hes : e s with
      | none =>
        have hn := (hMe s).2 hes
        refine ⟨fun m hm => ?_, fun hnone u hu => ?_⟩
        · have a := hacc.1 m hm
          refine ⟨a.1, Or.inl a.2.1, fun u hu hs => ?_⟩
          rcases hu with hu | hu
          · exact a.2.2 u hu hs
          · have := hn u hu; omega
        · rcases hu with hu | hu
          · exact hacc.2 hnone u hu
          · exact hn u hu
      | some n =>
        have hn : NextAt M s (some n) := hes ▸ hMe s
        exact minNonZero_some_NextAt hn hacc
    refine NextAt.congr (fun t => ?_)
      (ih (fun q hq => hps q (List.mem_cons_of_mem _ hq)) _ _ step)
    constructor
    · rintro ((h | h) | ⟨q, hq, h⟩)
      · exact Or.inl h
      · exact Or.inr ⟨(M, e), by simp, h⟩
      · exact Or.inr ⟨q, List.mem_cons_of_mem _ hq, h⟩
    · rintro (h | ⟨q, hq, h⟩)
      · exact Or.inl (Or.inl h)
      · rcases List.mem_cons.1 hq with rfl | hq
        · exact Or.inl (Or.inr h)
        · exact Or.inr ⟨q, hq, h⟩

/-- If every member expression `eᵢ` meets the `Next` contract for `Mᵢ` (the list `ps` holds the
pairs `(Mᵢ, eᵢ)`), the `multiExpression` fold over the `eᵢ` meets it for the union `⋃ Mᵢ`. -/
theorem multiNext_spec {ps : List ((Int → Prop) × (Int → Option Int))}
    (h : ∀ p ∈ ps, NextSpec p.1 p.2) :
    NextSpec (fun t => ∃ p ∈ ps, p.1 t) (multiNext (ps.map Prod.snd)) := by
  intro s
  have h0 : NextAt (fun _ => False) s none :=
    ⟨fun m hm => (by cases hm), fun _ u hu => False.elim hu⟩
  refine NextAt.congr (fun t => ?_) (multiNext_fold_NextAt s ps h _ _ h0)
  simp

/-- match predicate of an expression set given by its sorted match lists -/
def MatchesAny (exprs : List (List Int)) (t : Int) : Prop := ∃ l ∈ exprs, t ∈ l

theorem multiNext_lists_spec {exprs : List (List Int)} (h : ∀ l ∈ exprs, SortedStrict l) :
    NextSpec (MatchesAny exprs) (multiNext (exprs.map nextInList)) := by
  have hf : ∀ p ∈ exprs.map (fun l => ((fun t => t ∈ l : Int → Prop), nextInList l)),
      NextSpec p.1 p.2 := by
    intro p hp
    obtain ⟨l, hl, rfl⟩ := List.mem_map.1 hp
    exact nextInList_NextSpec (h l hl)
  intro s
  have := multiNext_spec hf s
  rw [List.map_map] at this
  have hcomp : (Prod.snd ∘ fun l : List Int => ((fun t => t ∈ l : Int → Prop), nextInList l))
      = nextInList := rfl
  rw [hcomp] at this
  refine NextAt.congr (fun t => ?_) this
  unfold MatchesAny
  constructor
  · rintro ⟨p, hp, hpt⟩
    obtain ⟨l, hl, rfl⟩ := List.mem_map.1 hp
    exact ⟨l, hl, hpt⟩
  · rintro ⟨l, hl, hlt⟩
    exact ⟨_, List.mem_map.2 ⟨l, hl, rfl⟩, hlt⟩

/-! ### `floorSec` -/

theorem floorSec_mul (s : Int) : floorSec (s * 1000000000) = s := by
  unfold floorSec; omega

theorem floorSec_le (ns : Int) : floorSec ns * 1000000000 ≤ ns := by
  unfold floorSec; omega

theorem lt_floorSec_succ (ns : Int) : ns < (floorSec ns + 1) * 1000000000 := by
  unfold floorSec; omega

theorem floorSec_lt_iff (ns n : Int) : floorSec ns < n ↔ ns < n * 1000000000 := by
  unfold floorSec; omega

theorem le_floorSec_iff (ns n : Int) : n ≤ floorSec ns ↔ n * 1000000000 ≤ ns := by
  unfold floorSec; omega

theorem floorSec_mono {a b : Int} (h : a ≤ b) : floorSec a ≤ floorSec b := by
  unfold floorSec; omega

/-! ### `getNext` -/

/-- inside the `notAfter` window -/
def Within (notAfter : Option Int) (t : Int) : Prop := ∀ naf, notAfter = some naf → t ≤ naf

/-- not before `notBefore` -/
def NotBefore (notBefore : Option Int) (t : Int) : Prop := ∀ nbf, notBefore = some nbf → nbf ≤ t

/-- `applyNotBefore` on whole seconds: a reference second before `notBefore` becomes `nbf - 1` -/
def lowered (notBefore : Option Int) (s : Int) : Int :=
  match notBefore with
  | some nbf => if s < nbf then nbf - 1 else s
  | none => s

theorem floorSec_applyNotBefore (nbf : Option Int) (fromNs : Int) :
    floorSec (applyNotBefore nbf fromNs) = lowered nbf (floorSec fromNs) := by
  unfold applyNotBefore lowered floorSec
  cases nbf with
  | none => rfl
  | some n => simp only []; split <;> split <;> omega

theorem lowered_ge (nbf : Option Int) (s : Int) : s ≤ lowered nbf s := by
  unfold lowered
  cases nbf with
  | none => exact Int.le_refl _
  | some n => simp only []; split <;> omega

/-- `getNext` on whole seconds -/
def cutNext (nxt : Int → Option Int) (notBefore notAfter : Option Int) (s : Int) : Option Int :=
  match nxt (lowered notBefore s) with
  | none => none
  | some n =>
    match notAfter with
    | some naf => if n > naf then none else some n
    | none => some n

theorem getNext_eq_cutNext (nxt : Int → Option Int) (nbf naf : Option Int) (fromNs : Int) :
    getNext nxt nbf naf fromNs = cutNext nxt nbf naf (floorSec fromNs) := by
  unfold getNext cutNext
  rw [floorSec_applyNotBefore]
  cases nxt (lowered nbf (floorSec fromNs)) with
  | none => rfl
  | some n => cases naf <;> rfl

theorem cutNext_spec {M : Int → Prop} {nxt : Int → Option Int} (h : NextSpec M nxt)
    (nbf naf : Option Int) :
    NextSpec (fun t => M t ∧ NotBefore nbf t ∧ Within naf t) (cutNext nxt nbf naf) := by
  intro s
  have hlow : s ≤ lowered nbf s := lowered_ge nbf s
  have hnb : ∀ m, lowered nbf s < m → NotBefore nbf m := by
    intro m hm n hn
    subst hn
    simp only [lowered] at hm
    split at hm <;> omega
  have hgt : ∀ u, NotBefore nbf u → s < u → lowered nbf s < u := by
    intro u hu hs
    unfold lowered
    cases nbf with
    | none => exact hs
    | some n => have := hu n rfl; simp only []; split <;> omega
  unfold cutNext
  cases hn : nxt (lowered nbf s) with
  | none =>
    have a := (h (lowered nbf s)).2 hn
    refine ⟨fun m hm => (by cases hm), fun _ u hu => ?_⟩
    by_cases hs : s < u
    · have := a u hu.1; have := hgt u hu.2.1 hs; omega
    · omega
  | some n =>
    have a := (h (lowered nbf s)).1 n hn
    cases naf with
    | none =>
      refine ⟨fun m hm => ?_, fun hnone => by cases hnone⟩
      cases hm
      exact ⟨by omega, ⟨a.2.1, hnb n a.1, fun _ h => by cases h⟩,
        fun u hu hs => a.2.2 u hu.1 (hgt u hu.2.1 hs)⟩
    | some c =>
      by_cases hc : n > c
      · simp only [hc, if_true]
        refine ⟨fun m hm => (by cases hm), fun _ u hu => ?_⟩
        have hw := hu.2.2 c rfl
        by_cases hs : s < u
        · have := a.2.2 u hu.1 (hgt u hu.2.1 hs); omega
        · omega
      · simp only [hc, if_false]
        refine ⟨fun m hm => ?_, fun hnone => by cases hnone⟩
        cases hm
        refine ⟨by omega, ⟨a.2.1, hnb n a.1, fun c' hc' => ?_⟩,
          fun u hu hs => a.2.2 u hu.1 (hgt u hu.2.1 hs)⟩
        cases hc'; omega

/-- `getNext` meets the `Next` contract for `M ∩ [notBefore, notAfter]` relative to the whole
second `floorSec fromNs`. -/
theorem getNext_spec {M : Int → Prop} {nxt : Int → Option Int} (h : NextSpec M nxt)
    (nbf naf : Option Int) (fromNs : Int) :
    NextAt (fun t => M t ∧ NotBefore nbf t ∧ Within naf t) (floorSec fromNs)
      (getNext nxt nbf naf fromNs) := by
  rw [getNext_eq_cutNext]
  exact cutNext_spec h nbf naf (floorSec fromNs)

/-- the result of `getNext` is strictly after `fromNs` as an instant (so `Bump` never errors) -/
theorem getNext_after {M : Int → Prop} {nxt : Int → Option Int} (h : NextSpec M nxt)
    (nbf naf : Option Int) (fromNs n : Int) (hn : getNext nxt nbf naf fromNs = some n) :
    n * 1000000000 > fromNs := by
  have a := ((getNext_spec h nbf naf fromNs).1 n hn).1
  exact (floorSec_lt_iff _ _).1 a

/-! ### Per-JobConfig match predicate and `Next` -/

/-- `t` matches some expression of the JobConfig's schedule -/
def JC.M (jc : JC) (t : Int) : Prop := MatchesAny jc.sched.exprs t

/-- `t` matches and lies inside the `[notBefore, notAfter]` window -/
def JC.M' (jc : JC) (t : Int) : Prop :=
  jc.M t ∧ NotBefore jc.sched.notBefore t ∧ Within jc.sched.notAfter t

/-- next schedule time strictly after second `s` (what `getNext` computes) -/
def JC.nextAfter (jc : JC) (s : Int) : Option Int :=
  cutNext jc.nxt jc.sched.notBefore jc.sched.notAfter s

def JC.SortedOK (jc : JC) : Prop := ∀ l ∈ jc.sched.exprs, SortedStrict l

theorem JC.nxt_spec {jc : JC} (h : jc.SortedOK) : NextSpec jc.M jc.nxt :=
  multiNext_lists_spec h

theorem JC.nextAfter_spec {jc : JC} (h : jc.SortedOK) : NextSpec jc.M' jc.nextAfter :=
  cutNext_spec (JC.nxt_spec h) _ _

theorem getNext_eq_nextAfter (jc : JC) (fromNs : Int) :
    getNext jc.nxt jc.sched.notBefore jc.sched.notAfter fromNs
      = jc.nextAfter (floorSec fromNs) := getNext_eq_cutNext _ _ _ _

theorem getNext_sec_eq_nextAfter (jc : JC) (s : Int) :
    getNext jc.nxt jc.sched.notBefore jc.sched.notAfter (s * 1000000000) = jc.nextAfter s := by
  rw [getNext_eq_nextAfter, floorSec_mul]

end Furiko.Cron
