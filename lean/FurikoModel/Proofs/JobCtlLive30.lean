/-
Liveness of the job controller, part 30: the pass of a fair round UNDER ANY FAULT LIST, uniformly in what
the creation stage did.  From a `PState` `e` whose fault list was replaced by `fs` (`withFaults`):
* `pass_uniform_f` — the creation stage returned a task list: the status is recomputed as without faults;
  the status update (if one is needed) is not applied and the pass fails, or is applied (the pass
  succeeds or fails): the server carries the recomputed status or still the cached one;
* `pass_failed_f` — the creation stage returned an error: nothing is written, the pass fails;
in both cases the state after the step (unconsumed faults dropped) has the `PassOut` facts, and a failed
pass leaves a back-off timer.  Core Lean only.
-/
import FurikoModel.Proofs.JobCtlLive29

set_option linter.unusedSimpArgs false
set_option linter.unusedVariables false

namespace Furiko.JobCtl.Live
open Furiko Furiko.JobCtl Furiko.WQ Furiko.StatusLemmas Furiko.JobCtlPlan Furiko.Conv Furiko.ParallelLemmas

/-- the adversary replaces the fault list (`Action.setFaults`) -/
def withFaults (s : Sys) (fs : List String) : Sys := { s with faults := fs }

theorem withFaults_step (s : Sys) (fs : List String) : withFaults s fs = step s (.setFaults fs) := rfl

/-- the state `SyncOne` runs in during the `work` step of `withFaults e fs` that popped `k` -/
def spF (e : Sys) (fs : List String) (k : String) (rest : List String) : Sys :=
  passStart (withFaults e fs) (popQ ((withFaults e fs).q.advance (withFaults e fs).clock) k rest)

/-- the state after the creation stage of a pass under faults: the pass-start state plus the created pods;
fault list, delete batch and call log aside -/
structure CreateOutF (sp s1 : Sys) (created : List PodObj) : Prop where
  clock : s1.clock = sp.clock
  d : s1.d = sp.d
  cfg : s1.cfg = sp.cfg
  job : s1.job = sp.job
  jobEvs : s1.jobEvs = sp.jobEvs
  jobCache : s1.jobCache = sp.jobCache
  podCache : s1.podCache = sp.podCache
  q : s1.q = sp.q
  pods : s1.pods = sp.pods ++ created
  podEvs : s1.podEvs = sp.podEvs ++ created.map PEv.upsert

theorem CreateOutF.refl (sp : Sys) : CreateOutF sp sp [] :=
  ⟨rfl, rfl, rfl, rfl, rfl, rfl, rfl, rfl, by simp, by simp⟩

theorem createOutF_notApplied (sp : Sys) (c : Call) : CreateOutF sp (notApplied sp c) [] :=
  ⟨rfl, rfl, rfl, rfl, rfl, rfl, rfl, rfl, by simp [notApplied, faultTail], by simp [notApplied, faultTail]⟩

theorem createOutF_created (sp : Sys) (jo : JobObj) (idx : PIndex) (retry : Int) :
    CreateOutF sp (createdF sp jo idx retry) [newPod jo idx retry (nowT sp)] :=
  ⟨rfl, rfl, rfl, rfl, rfl, rfl, rfl, rfl, rfl, rfl⟩

section
variable {ok : Sys → Action → Prop} {j0 jo : JobObj} {F0 : Int} {e : Sys}

theorem PState.tasks_eq_f (h : PState ok j0 jo F0 e) (fs : List String) (q1 : WQ) :
    tasksForRefs (passStart (withFaults e fs) q1) jo jo.job.status.tasks = foundTasks e jo := by
  have := tasksForRefs_fresh (jo := jo) (s := passStart (withFaults e fs) q1) h.canon.fresh.podCache
    (fun p hp => (h.canon.pods.owned p hp).1) jo.job.status.tasks
  rw [this]; rfl

/-- the fields of `PassEnd` that a state reached from the pass-start state by the creation stage and
timers has -/
theorem passEnd_base (h : PState ok j0 jo F0 e) (fs : List String) (k : String) (rest : List String)
    (X s' : Sys) (created : List PodObj)
    (hX : CreateOutF (spF e fs k rest) X created)
    (hto : TimersOnly (jobKey jo) X s') :
    s'.job = some jo ∧ s'.jobEvs = [] ∧ s'.jobCache = some jo ∧ s'.pods = (withFaults e fs).pods ++ created ∧
    s'.podEvs = created.map PEv.upsert ∧ s'.podCache = (withFaults e fs).pods ∧ s'.clock = (withFaults e fs).clock ∧
    s'.d = (withFaults e fs).d ∧ s'.cfg = (withFaults e fs).cfg ∧ s'.q.queue = rest ∧
    s'.q.dirty = ((withFaults e fs).q.advance (withFaults e fs).clock).dirty.erase k ∧
    s'.q.processing = k :: ((withFaults e fs).q.advance (withFaults e fs).clock).processing := by
  have hc := h.canon
  have hst := hto.static
  obtain ⟨qq, hs'eq, tq1, tq2, tq3, _⟩ := hto
  have hqs : s'.q = qq := by rw [hs'eq]
  refine ⟨by rw [hst.2.2.2.2.2.1, hX.job]; exact hc.fresh.job, by rw [hst.2.2.2.2.2.2.2.1, hX.jobEvs]; exact hc.fresh.jobEvs,
    by rw [hst.2.2.2.2.2.2.1, hX.jobCache]; exact hc.fresh.jobCache, by rw [hst.2.2.2.1, hX.pods]; rfl, ?_,
    by rw [hst.2.2.2.2.1, hX.podCache]; exact hc.fresh.podCache, by rw [hst.1, hX.clock]; rfl,
    by rw [hst.2.1, hX.d]; rfl, by rw [hst.2.2.1, hX.cfg]; rfl, by rw [hqs, tq1, hX.q]; rfl,
    by rw [hqs, tq2, hX.q]; rfl, by rw [hqs, tq3, hX.q]; rfl⟩
  rw [hst.2.2.2.2.2.2.2.2.1, hX.podEvs]
  show e.podEvs ++ _ = _
  rw [hc.fresh.podEvs]; rfl

/-- **the creation stage failed**: the pass writes nothing and leaves a back-off timer -/
theorem pass_failed_f (h : PState ok j0 jo F0 e) (fs : List String) (k : String) (rest : List String)
    (hq : ((withFaults e fs).q.advance (withFaults e fs).clock).queue = k :: rest) (X : Sys) (created : List PodObj)
    (hX : CreateOutF (spF e fs k rest) X created)
    (hcreate : syncCreateTasks (spF e fs k rest)
      jo jo.job (foundTasks e jo) = (X, none))
    (hps : (created.map PEv.upsert).foldl applyPEv e.pods = e.pods ++ created) :
    PassOut jo (withFaults e fs) (dropFaults (work (withFaults e fs)).1) jo.job.status created ∧
    (dropFaults (work (withFaults e fs)).1).q.delayed ≠ [] := by
  have hc := h.canon
  have hwf := (Retry.advance_facts e.q e.clock hc.wf).1
  have hone := syncOne_failed (spF e fs k rest) X jo hc.fresh.jobCache hc.spec
    (by unfold spF; rw [h.tasks_eq_f]; exact hcreate)
  obtain ⟨b1, b2, b3, b4, b5, b6, b7, b8, b9, b10, b11, b12⟩ := passEnd_base h fs k rest X X created hX (TimersOnly.refl _ _)
  obtain ⟨po, pe, _⟩ := work_end (withFaults e fs) jo k rest X false jo.job.status created hwf hq hone
    ⟨Or.inl ⟨rfl, b1, b2⟩, b3, b4, b5, b6, b7, b8, b9, b10, b11, b12⟩ hps
  exact ⟨po, pe rfl⟩

/-- **the creation stage returned a task list**: the status is recomputed as without faults and written,
unless the status update is not applied -/
theorem pass_uniform_f (h : PState ok j0 jo F0 e) (fs : List String) (k : String) (rest : List String)
    (hq : ((withFaults e fs).q.advance (withFaults e fs).clock).queue = k :: rest) (X s1 : Sys)
    (created : List PodObj) (rjA : Job) (T1 : List Task)
    (hX : CreateOutF (spF e fs k rest) X created)
    (hs1 : TimersOnly (jobKey jo) X s1)
    (hcreate : syncCreateTasks (spF e fs k rest)
      jo jo.job (foundTasks e jo) = (s1, some (rjA, T1)))
    (hrjA : rjA = jo.job ∨ rjA = recompute e.clock e.d jo.job T1)
    (hT1nd : (T1.map (·.name)).Nodup) (hT1 : ∀ t ∈ T1, TaskGood t ∧ t.deletionTimestamp = none)
    (hquiet : ∀ pt, getPendingTimeout jo.job e.cfg = some pt → 0 < pt → ∀ t ∈ T1, PendQuiet e.clock pt t)
    (hhash : AllHash e.d (generateTaskRefs e.clock jo.job.status.tasks T1))
    (hlb : ∀ r ∈ generateTaskRefs e.clock jo.job.status.tasks T1, ∀ f, r.finishTimestamp = some f → F0 ≤ f)
    (hclockT : e.clock < F0 + getTTLAfterFinished jo.job e.cfg)
    (hps : (created.map PEv.upsert).foldl applyPEv e.pods = e.pods ++ created) :
    ∃ st, (st = (recompute e.clock e.d jo.job T1).status ∨ st = jo.job.status) ∧
      PassOut jo (withFaults e fs) (dropFaults (work (withFaults e fs)).1) st created ∧
      (st ≠ (recompute e.clock e.d jo.job T1).status → (dropFaults (work (withFaults e fs)).1).q.delayed ≠ []) ∧
      (s1.q.delayed ≠ [] → (dropFaults (work (withFaults e fs)).1).q.delayed ≠ []) := by
  have hc := h.canon
  have hwf := (Retry.advance_facts e.q e.clock hc.wf).1
  -- static facts about `s1`
  have hstX := hs1.static
  have hclk1 : s1.clock = e.clock := by rw [hstX.1, hX.clock]; rfl
  have hd1 : s1.d = e.d := by rw [hstX.2.1, hX.d]; rfl
  have hcfg1 : s1.cfg = e.cfg := by rw [hstX.2.2.1, hX.cfg]; rfl
  have hoks : ∀ t ∈ T1, TaskOK t := fun t ht => (hT1 t ht).1.ok
  have hfinal : ∀ t ∈ T1, TaskFinal t := fun t ht => (hT1 t ht).1.final
  have hgen0 := generateTaskRefs_idem_same e.clock e.clock jo.job.status.tasks T1 hc.nodupNames hT1nd hoks hfinal
  have hR : recompute e.clock e.d (recompute e.clock e.d jo.job T1) T1 = recompute e.clock e.d jo.job T1 :=
    recompute_idem e.clock e.clock e.d jo.job T1 T1 hc.spec hgen0
  have hA : SimpleSpec rjA := by
    rcases hrjA with e1 | e1
    · rw [e1]; exact hc.spec
    · rw [e1]; exact hc.spec.recompute _ _ _
  have hrjF : recompute s1.clock s1.d rjA T1 = recompute e.clock e.d jo.job T1 := by
    rw [hclk1, hd1]
    rcases hrjA with e1 | e1
    · rw [e1]
    · rw [e1]; exact hR
  have hgenA : generateTaskRefs s1.clock (generateTaskRefs s1.clock rjA.status.tasks T1) T1 =
      generateTaskRefs s1.clock rjA.status.tasks T1 := by
    rw [hclk1]
    rcases hrjA with e1 | e1
    · rw [e1]; exact hgen0
    · rw [e1, (recompute_sameSpec e.clock e.d jo.job T1).2.1]
      exact generateTaskRefs_idem_same e.clock e.clock _ T1
        (generateTaskRefs_names_nodup e.clock _ T1 hc.nodupNames hT1nd hoks) hT1nd hoks hfinal
  have hsameA : SameSpec jo.job rjA := by
    rcases hrjA with e1 | e1
    · rw [e1]; exact SameSpec.refl _
    · rw [e1]; exact (recompute_sameSpec _ _ _ _).1
  -- the TTL has not elapsed
  have httl : ∀ fin, (recompute s1.clock s1.d rjA T1).status.condition.finished = some fin →
      fin.finishTimestamp.getD zeroTime + getTTLAfterFinished (recompute s1.clock s1.d rjA T1) e.cfg > e.clock := by
    rw [hrjF]
    intro fin hfin
    have hsame := recompute_sameSpec e.clock e.d jo.job T1
    have httlEq : getTTLAfterFinished (recompute e.clock e.d jo.job T1) e.cfg = getTTLAfterFinished jo.job e.cfg := by
      unfold getTTLAfterFinished; rw [hsame.1.ttl]
    rw [httlEq]
    obtain ⟨c1, c2⟩ := recompute_condition e.clock e.d jo.job T1 hc.spec hhash
    by_cases hcomp : AllFin (generateTaskRefs e.clock jo.job.status.tasks T1) ∧
        (AnySucc (generateTaskRefs e.clock jo.job.status.tasks T1) ∨
          (((generateTaskRefs e.clock jo.job.status.tasks T1).countP refTerminal : Nat) : Int) ≥ jo.job.maxAttempts)
    · obtain ⟨f, hf, hft, _, _⟩ := c1 hcomp
      rw [hf] at hfin
      cases hfin
      have hne : ∃ r, r ∈ generateTaskRefs e.clock jo.job.status.tasks T1 := by
        rcases hcomp.2 with ⟨r, hr, _⟩ | hge
        · exact ⟨r, hr⟩
        · have hpos := hc.npos
          cases hl : generateTaskRefs e.clock jo.job.status.tasks T1 with
          | nil => rw [hl] at hge; simp at hge; omega
          | cons r _ => exact ⟨r, List.mem_cons_self⟩
      obtain ⟨r, hr⟩ := hne
      have hrf := hcomp.1 r hr
      cases hrff : r.finishTimestamp with
      | none => rw [hrff] at hrf; cases hrf
      | some f0 =>
        obtain ⟨g, hg, hle⟩ := latestFinished_ge _ r hr f0 hrff
        rw [hft, hg]
        have := hlb r hr f0 hrff
        simp only [Option.getD_some]
        have h1 : F0 ≤ g := Int.le_trans this hle
        exact Int.lt_of_lt_of_le hclockT (Int.add_le_add_right h1 _)
    · rw [c2 hcomp] at hfin; cases hfin
  -- the pass up to the status update
  have hcreate' : syncCreateTasks (spF e fs k rest) jo jo.job
      (tasksForRefs (spF e fs k rest) jo
        jo.job.status.tasks) = (s1, some (rjA, T1)) := by
    unfold spF; rw [h.tasks_eq_f]; exact hcreate
  obtain ⟨s', hsync, hto, _⟩ := sync_simple (hT1fn := TasksFn.of_nodup hT1nd (fun t ht => (hT1 t ht).1.ok)) (spF e fs k rest) jo s1 rjA T1 hc.spec hcreate' hA (by rw [hcfg1]; rfl) (by rw [hclk1]; rfl)
    (by
      intro pt hpt hpos t ht
      rw [hclk1]
      apply hquiet pt _ hpos t ht
      rw [← getPendingTimeout_sameSpec hsameA, ← hcfg1]; exact hpt)
    (fun t ht => (hT1 t ht).2) hgenA httl
  rw [hrjF] at hsync
  have hspec := eq_of_sameSpec (recompute_sameSpec e.clock e.d jo.job T1).1
  have hadm : (recompute e.clock e.d jo.job T1).admissionError = jo.job.admissionError := by rw [hspec]
  have hone := syncOne_simple (spF e fs k rest) jo s' (recompute e.clock e.d jo.job T1) hc.fresh.jobCache hsync hadm
  obtain ⟨b1, b2, b3, b4, b5, b6, b7, b8, b9, b10, b11, b12⟩ := passEnd_base h fs k rest X s' created hX (hs1.trans hto)
  have htimer : s1.q.delayed ≠ [] → s'.q.delayed ≠ [] := by
    intro hne
    obtain ⟨qq, hs'eq, _, _, _, _, _, tq6⟩ := hto
    cases hdd : s1.q.delayed with
    | nil => exact absurd hdd hne
    | cons x r =>
      obtain ⟨x', hx', _⟩ := tq6 x (by rw [hdd]; exact List.mem_cons_self)
      rw [hs'eq]
      intro hnil
      rw [hnil] at hx'; cases hx'
  by_cases hd : (recompute e.clock e.d jo.job T1).status = jo.job.status
  · -- no status update needed
    have hone' : syncOne (spF e fs k rest) =
        (s', true) := by rw [hone]; simp [hd]
    obtain ⟨po, _, pd⟩ := work_end (withFaults e fs) jo k rest s' true (recompute e.clock e.d jo.job T1).status created hwf hq
      hone' ⟨Or.inl ⟨hd, b1, b2⟩, b3, b4, b5, b6, b7, b8, b9, b10, b11, b12⟩ hps
    exact ⟨_, Or.inl rfl, po, fun hx => absurd rfl hx, fun hne => by rw [pd rfl]; exact htimer hne⟩
  · rcases apiUpdateJobStatus_cases s' jo (recompute e.clock e.d jo.job T1) b1 hd with ⟨c, hup⟩ | ⟨b, hup⟩
    · -- not applied: the pass fails, nothing written
      have hone' : syncOne (spF e fs k rest) =
          (notApplied s' c, false) := by
        rw [hone]; simp only [ne_eq, hd, not_false_eq_true, ↓reduceIte, hup]
      obtain ⟨po, pe, _⟩ := work_end (withFaults e fs) jo k rest (notApplied s' c) false jo.job.status created hwf hq
        hone' ⟨Or.inl ⟨rfl, b1, b2⟩, b3, b4, b5, b6, b7, b8, b9, b10, b11, b12⟩ hps
      exact ⟨_, Or.inr rfl, po, fun _ => pe rfl, fun _ => pe rfl⟩
    · -- applied (reported either way)
      have hone' : syncOne (spF e fs k rest) =
          (statusF s' jo (recompute e.clock e.d jo.job T1), b) := by
        rw [hone]; simp only [ne_eq, hd, not_false_eq_true, ↓reduceIte, hup]
      obtain ⟨po, pe, pd⟩ := work_end (withFaults e fs) jo k rest (statusF s' jo (recompute e.clock e.d jo.job T1)) b
        (recompute e.clock e.d jo.job T1).status created hwf hq hone'
        ⟨Or.inr ⟨written jo (recompute e.clock e.d jo.job T1) (s'.rv + 1), rfl, by show s'.jobEvs ++ _ = _; rw [b2]; rfl,
          rfl, rfl, rfl, rfl⟩, b3, b4, b5, b6, b7, b8, b9, b10, b11, b12⟩ hps
      refine ⟨_, Or.inl rfl, po, fun hx => absurd rfl hx, fun hne => ?_⟩
      cases b with
      | true => rw [pd rfl]; exact htimer hne
      | false => exact pe rfl

end

end Furiko.JobCtl.Live
