/-
Histories WITHOUT foreign pods (`noForeign`): every pod object anywhere (server, pod cache, undelivered
upserts) is controlled by the Job (`Owned`).  Then the ownership tests of the lookups (repair of F22)
always pass, and `getTaskForRef` / `liveGetTask` coincide with the lookups without the test
(`getTaskForRef0` / `liveGetTask0`, proof-internal).  Used by the walks behind the stability theorems,
whose envelope excludes foreign pods.  Core Lean only.
-/
import FurikoModel.Proofs.JobCtlInvRefsInv

set_option linter.unusedSimpArgs false
set_option linter.unusedVariables false

namespace Furiko.JobCtl
open Furiko Furiko.WQ

/-- every pod object anywhere is controlled by the Job -/
structure Owned (j0 : JobObj) (s : Sys) : Prop where
  pods : ∀ p ∈ s.pods, p.ownerUid = some j0.uid
  cache : ∀ p ∈ s.podCache, p.ownerUid = some j0.uid
  evs : ∀ p, PEv.upsert p ∈ s.podEvs → p.ownerUid = some j0.uid

theorem Owned.frame {j0 : JobObj} {s s' : Sys} (h : Owned j0 s) (hf : Frame s s') : Owned j0 s' :=
  ⟨by rw [hf.pods]; exact h.pods, by rw [hf.podCache]; exact h.cache, by rw [hf.podEvs]; exact h.evs⟩

/-- the pod side is untouched -/
theorem Owned.of_same {j0 : JobObj} {s s' : Sys} (h : Owned j0 s) (hpods : s'.pods = s.pods)
    (hcache : s'.podCache = s.podCache) (hevs : s'.podEvs = s.podEvs) : Owned j0 s' :=
  ⟨by rw [hpods]; exact h.pods, by rw [hcache]; exact h.cache, by rw [hevs]; exact h.evs⟩

theorem Owned.podChange {j0 : JobObj} {s s' : Sys} (h : Owned j0 s) (hst : Static s s')
    (hpods : ∀ p ∈ s'.pods, p.ownerUid = some j0.uid)
    (hevs : ∀ p, PEv.upsert p ∈ s'.podEvs → p.ownerUid = some j0.uid) : Owned j0 s' :=
  ⟨hpods, by rw [hst.podCache]; exact h.cache, hevs⟩

theorem Owned.podAdd {j0 : JobObj} {s s' : Sys} {p : PodObj} (h : Owned j0 s) (ha : PodAdd s s' p)
    (hp : p.ownerUid = some j0.uid) : Owned j0 s' := by
  refine h.podChange ha.static ?_ ?_
  · intro q hq; rw [ha.pods] at hq
    rcases List.mem_append.mp hq with hq | hq
    · exact h.pods q hq
    · simp only [List.mem_singleton] at hq; subst hq; exact hp
  · intro q hq; rw [ha.podEvs] at hq
    rcases List.mem_append.mp hq with hq | hq
    · exact h.evs q hq
    · simp only [List.mem_singleton, PEv.upsert.injEq] at hq; subst hq; exact hp

theorem Owned.podSet {j0 : JobObj} {s s' : Sys} {old p : PodObj} (h : Owned j0 s) (hs : PodSet s s' old p)
    (hp : p.ownerUid = some j0.uid) : Owned j0 s' := by
  refine h.podChange hs.static ?_ ?_
  · intro q hq; rw [hs.pods] at hq
    rcases mem_setPod hq with hq | hq
    · subst hq; exact hp
    · exact h.pods q hq
  · intro q hq; rw [hs.podEvs] at hq
    rcases List.mem_append.mp hq with hq | hq
    · exact h.evs q hq
    · simp only [List.mem_singleton, PEv.upsert.injEq] at hq; subst hq; exact hp

theorem Owned.podDel {j0 : JobObj} {s s' : Sys} {p : PodObj} (h : Owned j0 s) (hd : PodDel s s' p) : Owned j0 s' := by
  refine h.podChange hd.static ?_ ?_
  · intro q hq; rw [hd.pods] at hq; exact h.pods q (mem_delPod hq).1
  · intro q hq; rw [hd.podEvs] at hq
    rcases List.mem_append.mp hq with hq | hq
    · exact h.evs q hq
    · simp at hq

theorem Owned.micro {j0 jo : JobObj} {sp s s' : Sys} (h : Owned j0 s) (hu : jo.uid = j0.uid)
    (hm : Micro jo sp s s') : Owned j0 s' := by
  cases hm with
  | frame hf => exact h.frame hf
  | create idx retry hreq _ =>
    rcases apiCreatePod_spec s jo idx retry with hs | hs
    · exact h.frame hs.1
    · exact h.podAdd hs.1 (by show some jo.uid = _; rw [hu])
  | delPod name force =>
    rcases apiDeletePod_spec s name force with hs | ⟨p, _, hs, _⟩ | ⟨p, _, _, _, hs⟩
    · exact h.frame hs
    · exact h.podDel hs
    · exact h.podSet hs (h.pods p (findPod_some hs.found).1)
  | delJob =>
    rcases apiDeleteJob_spec s jo with hs | ⟨c, _, _, _, hs⟩ | ⟨c, _, _, hs⟩
    · exact h.frame hs
    · exact h.of_same hs.pods hs.static.podCache hs.podEvs
    · exact h.of_same hs.pods hs.static.podCache hs.podEvs
  | updJob _ =>
    rcases apiUpdateJob_spec s jo { jo with job := (sync sp jo).2.1, finalizer := (sync sp jo).2.2.1 } with
      hs | ⟨c, _, _, hs | hs⟩
    · exact h.frame hs
    · exact h.of_same hs.1.pods hs.1.static.podCache hs.1.podEvs
    · exact h.of_same hs.1.pods hs.1.static.podCache hs.1.podEvs
  | updStatus =>
    rcases apiUpdateJobStatus_spec s jo { jo with job := (sync sp jo).2.1 } with hs | ⟨c, _, _, hs⟩
    · exact h.frame hs
    · exact h.of_same hs.pods hs.static.podCache hs.podEvs
  | updStatusOn s1 hs1 hs hok =>
    rcases apiUpdateJobStatus_spec s { jo with rv := updatedRv s jo } { jo with job := (sync sp jo).2.1 } with hs | ⟨c, _, _, hs⟩
    · exact h.frame hs
    · exact h.of_same hs.pods hs.static.podCache hs.podEvs

theorem Owned.micros {j0 jo : JobObj} {sp s s' : Sys} (h : Owned j0 s) (hu : jo.uid = j0.uid)
    (hm : Micros jo sp s s') : Owned j0 s' := by
  induction hm with
  | refl => exact h
  | tail _ hm ih => exact ih.micro hu hm

theorem Owned.afterDeliverPod {j0 : JobObj} {s : Sys} (h : Owned j0 s) : Owned j0 (deliverPod s) := by
  have hf := deliverPod_fields s
  have hpod : (∀ p ∈ (deliverPod s).podCache, p.ownerUid = some j0.uid) ∧
      (∀ p, PEv.upsert p ∈ (deliverPod s).podEvs → p.ownerUid = some j0.uid) := by
    unfold JobCtl.deliverPod
    cases he : s.podEvs with
    | nil => exact ⟨h.cache, h.evs⟩
    | cons e rest =>
      have hrest : ∀ p, PEv.upsert p ∈ rest → p.ownerUid = some j0.uid := fun p hp =>
        h.evs p (by rw [he]; exact List.mem_cons_of_mem _ hp)
      cases e with
      | upsert p =>
        simp only
        have hfr := podNotify_frame { s with podEvs := rest, podCache := setPod s.podCache p } p
        refine ⟨?_, ?_⟩
        · rw [hfr.podCache]
          intro q hq
          rcases mem_setPod hq with hq | hq
          · subst hq; exact h.evs q (by rw [he]; exact List.mem_cons_self)
          · exact h.cache q hq
        · rw [hfr.podEvs]; exact hrest
      | delete p =>
        simp only
        cases hfp : findPod s.podCache p.pod.name with
        | none => exact ⟨h.cache, hrest⟩
        | some old =>
          simp only
          have hfr := podNotify_frame { s with podEvs := rest, podCache := delPod s.podCache p.pod.name } old
          refine ⟨?_, ?_⟩
          · rw [hfr.podCache]
            intro q hq; exact h.cache q (mem_delPod hq).1
          · rw [hfr.podEvs]; exact hrest
  exact ⟨by rw [hf.2.2.1]; exact h.pods, hpod.1, hpod.2⟩

theorem Owned.step {j0 : JobObj} {s : Sys} (hb : Base j0 s) (h : Owned j0 s) (a : Action)
    (hnf : noForeign s a) (hal : Allowed j0 s a) : Owned j0 (step s a) := by
  cases a with
  | setFaults fs => exact h.of_same rfl rfl rfl
  | work =>
    show Owned j0 (work s).1
    cases hc : s.jobCache with
    | none => exact h.frame (work_frame s hc)
    | some jo =>
      obtain ⟨sp, hf, hm⟩ := work_micros s jo hc
      exact (h.frame hf).micros (hb.seenOK jo (mem_seenVers_cache hc)).1.uid hm
  | deliverJob =>
    show Owned j0 (deliverJob s)
    have := deliverJob_fields s
    exact h.of_same this.2.2.1 this.2.2.2.2.2.1 this.2.2.2.2.1
  | deliverPod => exact h.afterDeliverPod
  | resync => exact h.frame (s' := resync s) (resync_frame s)
  | restart =>
    show Owned j0 (restart s)
    have hf : (restart s).pods = s.pods ∧ (restart s).podCache = s.pods ∧ (restart s).podEvs = [] := by
      unfold restart
      cases hj : s.job <;> simp
    exact ⟨by rw [hf.1]; exact h.pods, by rw [hf.2.1]; exact h.pods, by rw [hf.2.2]; intro p hp; cases hp⟩
  | advance d => exact h.of_same rfl rfl rfl
  | kubelet p =>
    show Owned j0 (setPodState s p)
    rcases setPodState_spec s p with hs | ⟨old, hs⟩
    · rw [hs]; exact h
    · have hk : KubeletOK old p := by
        obtain ⟨o, ho, hk⟩ := (optSat_iff _ _).mp hal
        rw [hs.found] at ho; cases ho; exact hk
      exact h.podSet hs (hk.1.trans (h.pods old (findPod_some hs.found).1))
  | podGone n =>
    show Owned j0 (removePod s n)
    rcases removePod_spec s n with hs | ⟨p, _, hs⟩
    · rw [hs]; exact h
    · exact h.podDel hs
  | externalDelete n =>
    show Owned j0 (removePod s n)
    rcases removePod_spec s n with hs | ⟨p, _, hs⟩
    · rw [hs]; exact h
    · exact h.podDel hs
  | kill t =>
    show Owned j0 (mutateJobObj s _)
    rcases mutateJobObj_spec s (fun j => { j with job := { j.job with killTimestamp := some t } }) with hs | ⟨c, hc, hs⟩
    · rw [hs.2]; exact h
    · exact h.of_same hs.pods hs.static.podCache hs.podEvs
  | userDelete =>
    show Owned j0 (userDeleteJob s)
    rcases userDeleteJob_spec s with hs | ⟨c, hc, _, _, hs⟩ | ⟨c, _, _, hs⟩
    · rw [hs]; exact h
    · exact h.of_same hs.pods hs.static.podCache hs.podEvs
    · exact h.of_same hs.pods hs.static.podCache hs.podEvs
  | createForeign p => exact absurd hnf (by simp [noForeign])

/-- `Owned` holds in every state reachable without foreign pods -/
theorem owned_of_reach {ok : Sys → Action → Prop} (hok : ∀ s a, ok s a → noForeign s a) {j0 : JobObj} {s : Sys}
    (hr : Reach ok j0 s) : Owned j0 s := by
  induction hr with
  | init c cfg d hw =>
    unfold initSys userCreateJob
    refine ⟨?_, ?_, ?_⟩
    · intro p hp; cases hp
    · intro p hp; cases hp
    · intro p hp; simp at hp
  | step a hr' hoka hal ih => exact ih.step (base_of_reach hr') a (hok _ a hoka) hal

/-! ### the lookups when every pod is the Job's -/

/-- `liveGetTask` without the ownership test -/
def liveGetTask0 (s : Sys) (name : String) : Option Task :=
  match findPod s.pods name with
  | some p => podTask s.clock p
  | none => none

/-- `getTaskForRef` without the ownership tests -/
def getTaskForRef0 (s : Sys) (ref : TaskRef) : Option Task :=
  match findPod s.podCache ref.name with
  | some p =>
    match podTask s.clock p with
    | none => none
    | some t =>
      if ref.finishTimestamp.isNone || t.ref.finishTimestamp.isSome then some t
      else liveGetTask0 s ref.name
  | none =>
    if ref.finishTimestamp.isSome then none
    else liveGetTask0 s ref.name

theorem liveGetTask_eq0 {j0 jo : JobObj} {s : Sys} (ho : Owned j0 s) (hu : jo.uid = j0.uid) (n : String) :
    liveGetTask s jo n = liveGetTask0 s n := by
  unfold liveGetTask liveGetTask0 isControlledByJob
  cases hp : findPod s.pods n with
  | none => rfl
  | some p =>
    have := ho.pods p (findPod_some hp).1
    simp [this, hu]

theorem getTaskForRef_eq0 {j0 jo : JobObj} {s : Sys} (ho : Owned j0 s) (hu : jo.uid = j0.uid) (ref : TaskRef) :
    getTaskForRef s jo ref = getTaskForRef0 s ref := by
  unfold getTaskForRef getTaskForRef0 isControlledByJob
  cases hp : findPod s.podCache ref.name with
  | none => simp only [liveGetTask_eq0 ho hu]
  | some p =>
    have := ho.cache p (findPod_some hp).1
    simp only [this, hu, decide_true, Bool.not_true, Bool.false_eq_true, ↓reduceIte, liveGetTask_eq0 ho hu]
    cases podTask s.clock p <;> rfl

end Furiko.JobCtl
