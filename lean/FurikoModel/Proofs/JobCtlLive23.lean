/-
Liveness of the job controller, part 23: FINAL STATES ARE FIXPOINTS of the fair round (`round_done`):
with the Job finished, every pod finished and recorded and the recorded status stable, a round changes
neither the Job nor the pods nor the resourceVersion counter nor the clock; its pass (if the key is
ready at all) issues no API call; the state is final again.  Core Lean only.
-/
import FurikoModel.Proofs.JobCtlLive22

set_option linter.unusedSimpArgs false
set_option linter.unusedVariables false

namespace Furiko.JobCtl.Live
open Furiko Furiko.JobCtl Furiko.WQ Furiko.StatusLemmas Furiko.JobCtlPlan Furiko.Conv Furiko.ParallelLemmas

/-- with every pod finished the kubelet has nothing to do -/
theorem sweep_idle (orc : String → Outcome) (s : Sys) (h : ∀ p ∈ s.pods, p.pod.isFinished = true) : sweep orc s = s := by
  unfold sweep
  have : ∀ (L : List String), L.foldl (sweepOne orc) s = s := by
    intro L
    induction L with
    | nil => rfl
    | cons n rest ih =>
      simp only [List.foldl_cons]
      have h1 : sweepOne orc s n = s := by
        unfold sweepOne
        cases hf : findPod s.pods n with
        | none => rfl
        | some p =>
          simp only
          rw [if_pos (h p (findPod_some hf).1)]
      rw [h1]; exact ih
  exact this _

section
variable {ok : Sys → Action → Prop} {j0 jo : JobObj} {F0 : Int} {s : Sys}

/-- **final states are fixpoints of the fair round** -/
theorem round_done (hok : ∀ s a, fairEnv s a → ok s a) (orc : String → Outcome) (h : Canon ok j0 jo F0 s)
    (hd : Done jo s) (hT : s.clock < F0 + getTTLAfterFinished jo.job s.cfg) :
    Canon ok j0 jo F0 (round orc s) ∧ Done jo (round orc s) ∧ (round orc s).job = s.job ∧
    (round orc s).pods = s.pods ∧ (round orc s).rv = s.rv ∧ (round orc s).clock = s.clock ∧
    (round orc s).cfg = s.cfg ∧ (work s).1.calls = [] ∧ round orc s = deliverAll (work s).1 := by
  obtain ⟨f, hf, _, _⟩ := hd.fin
  have hidle : deliverAll s = s := deliverAll_idle s h.fresh.jobEvs h.fresh.podEvs
  have henv : envState orc s = s := by unfold envState; rw [hidle, sweep_idle orc s hd.podsFin, hidle]
  have hjump : jump s = s := (jump_stage hok h).2.2.2.2.2.2.2 (by rw [hf]; rfl)
  have hround : round orc s = deliverAll (work s).1 := by
    show deliverAll (work (jump (envState orc s))).1 = _
    rw [henv, hjump]
  have hps : PState ok j0 jo F0 s := ⟨h, hd.podsFin⟩
  have hwfa := (Retry.advance_facts s.q s.clock h.wf).1
  have hsteps : Steps ok j0 s (deliverAll (work s).1) :=
    deliverAll_steps (fun s => hok s _ trivial) (fun s => hok s _ trivial) s _
      (.step .work (.refl s) (hok s _ trivial) trivial)
  rw [hround]
  cases hqq : (s.q.advance s.clock).queue with
  | nil =>
    -- nothing ready: the worker idles
    have hg : (s.q.advance s.clock).get = none := by unfold WQ.get; rw [hqq]
    have hw : (work s).1 = { s with q := s.q.advance s.clock, calls := [], delRun := none } := by rw [work_none s hg]
    have hdl : deliverAll (work s).1 = (work s).1 := by
      apply deliverAll_idle
      · rw [hw]; exact h.fresh.jobEvs
      · rw [hw]; exact h.fresh.podEvs
    have hreach := h.reach.steps hsteps
    rw [hdl] at hreach ⊢
    rw [hw] at hreach ⊢
    refine ⟨⟨hreach, h.nodash, ⟨h.fresh.jobCache, h.fresh.job, h.fresh.podCache, h.fresh.jobEvs, h.fresh.podEvs,
      h.fresh.faults⟩, h.spec, h.npos, ⟨h.pods.owned, h.pods.sane, h.pods.nodel, h.pods.nodup⟩, hwfa, h.retries,
      h.unrec, h.lbClock, h.lbRefs, h.lbPods⟩, ⟨hd.fin, hd.allFin, hd.complete, hd.podsFin, hd.recorded, hd.stable⟩,
      rfl, rfl, rfl, rfl, rfl, rfl, rfl⟩
  | cons k rest =>
    -- the pass recomputes the recorded status and writes nothing
    have hstab : recompute s.clock s.d jo.job (foundTasks s jo) = jo.job := hd.stable s.clock
    have htasksEq : generateTaskRefs s.clock jo.job.status.tasks (foundTasks s jo) = jo.job.status.tasks := by
      have := (recompute_sameSpec s.clock s.d jo.job (foundTasks s jo)).2.1
      rw [hstab] at this; exact this.symm
    have hcomp : (getParallelTaskSummary s.d jo.job
        (generateTaskRefs s.clock jo.job.status.tasks (foundTasks s jo))).complete = true := by
      rw [htasksEq]
      apply (simple_summary s.d jo.job _ h.spec h.allHash).2.2.mpr
      rcases hd.complete with hx | hx
      · exact Or.inl hx
      · right; rw [countP_terminal_of_allFin hd.allFin]; exact hx
    obtain ⟨a1, a2, a3, a4, a5, a6, a7, a8⟩ := after_found hps _ (gen_found hps)
    have hcreate : syncCreateTasks (passStart s (popQ (s.q.advance s.clock) k rest)) jo jo.job (foundTasks s jo) =
        (passStart s (popQ (s.q.advance s.clock) k rest), some (jo.job, foundTasks s jo)) := by
      rw [syncCreateTasks_complete (passStart s (popQ (s.q.advance s.clock) k rest)) jo (foundTasks s jo) h.spec hcomp]
      rw [adopt_none (passStart s (popQ (s.q.advance s.clock) k rest)) jo (foundTasks s jo) (by
        intro p hp
        have : p ∈ s.pods := by
          have : p ∈ s.podCache := hp
          rw [h.fresh.podCache] at this; exact this
        exact hd.recorded p this)]
    obtain ⟨s', hto, _, hpo, _, _, hnw⟩ := pass_uniform hps k rest hqq _ _ [] jo.job (foundTasks s jo) (CreateOut.refl _)
      (TimersOnly.refl _ _) hcreate (Or.inl rfl) hps.consistent.nodup
      (fun t ht => ⟨(hps.found_facts t ht).1, (hps.found_facts t ht).2.2⟩)
      (fun pt _ _ t ht => Or.inl (hps.found_facts t ht).2.1) a6 a5 hT (by simp)
    obtain ⟨n1, n2, n3, n4, n5⟩ := hnw (by rw [hstab])
    have hst := hto.static
    have hdl : deliverAll (work s).1 = (work s).1 := deliverAll_idle _ n3 (by rw [n5]; rfl)
    have hsame := recompute_sameSpec s.clock s.d jo.job (foundTasks s jo)
    obtain ⟨jo', hjob, hname, huid, hcan, _, hclk, hpods, hd', hcfg⟩ := canon_after hok hps _ [] hpo hsame.2.2 (Or.inl rfl)
      (by rw [hsame.2.1]; exact a2)
      (by
        intro p hp
        rw [List.append_nil] at hp
        left
        rw [hsame.2.1]
        exact (a3 _).mpr (hd.recorded p hp))
      (by rw [hsame.2.1]; exact a5)
    -- the authoritative Job is unchanged
    have hjobsame : (deliverAll (work s).1).job = some jo := by rw [hdl]; exact n1
    have hjoeq : jo' = jo := by
      have := hcan.fresh.job
      rw [hjobsame] at this
      exact (Option.some.inj this).symm
    subst hjoeq
    refine ⟨hcan, ?_, by rw [hjobsame, h.fresh.job], by rw [hpods, List.append_nil], ?_, hclk, hcfg, ?_, rfl⟩
    · refine ⟨hd.fin, hd.allFin, hd.complete, by rw [hpods, List.append_nil]; exact hd.podsFin,
        by rw [hpods, List.append_nil]; exact hd.recorded, ?_⟩
      intro c
      have hfound : foundTasks ({ (deliverAll (work s).1) with clock := c } : Sys) jo' =
          foundTasks ({ s with clock := c } : Sys) jo' := by
        have : (fun r : TaskRef => lookTask ({ (deliverAll (work s).1) with clock := c } : Sys) r.name) =
            (fun r => lookTask ({ s with clock := c } : Sys) r.name) := by
          funext r
          unfold lookTask
          show (findPod (deliverAll (work s).1).pods r.name).bind (podTask c) = (findPod s.pods r.name).bind (podTask c)
          rw [hpods, List.append_nil]
        unfold foundTasks
        rw [this]
      rw [hfound, hd']
      exact hd.stable c
    · rw [hdl, n2, hst.2.2.2.2.2.2.2.2.2.1]; rfl
    · rw [n4, hst.2.2.2.2.2.2.2.2.2.2.2.2]; rfl

end

end Furiko.JobCtl.Live
