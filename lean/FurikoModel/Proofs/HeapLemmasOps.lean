/-
Helper lemmas for Proofs/HeapSpec.lean: the container/heap operations (`heapPush`, `heapPop`,
`heapFix`, `heapRemove`, `heapInit`) preserve `WF'` and the heap order, and act on the abstract
map `search` as expected.
-/
import FurikoModel.Proofs.HeapLemmasOrd

namespace Furiko.Heap

def Inv' (pq : PQ) : Prop := WF' pq ∧ HeapFrom pq 0 pq.queue.size

/-! ### `arr[i]!` facts -/

theorem push_get_lt (a : Array Item) (x : Item) (m : Nat) (h : m < a.size) :
    (a.push x)[m]! = a[m]! := by grind

theorem push_get_eq (a : Array Item) (x : Item) : (a.push x)[a.size]! = x := by grind

theorem pop_get_lt (a : Array Item) (m : Nat) (h : m < a.size - 1) : (a.pop)[m]! = a[m]! := by
  grind

theorem set_get_eq (a : Array Item) (x : Item) (m : Nat) (h : m < a.size) :
    (a.setIfInBounds m x)[m]! = x := by grind

theorem set_get_ne (a : Array Item) (x : Item) (i m : Nat) (h : m ≠ i) :
    (a.setIfInBounds i x)[m]! = a[m]! := by grind

/-! ### pushRaw -/

theorem pushRaw_size (a : PQ) (k : String) (p : Int) :
    (a.pushRaw k p).queue.size = a.queue.size + 1 := by simp [PQ.pushRaw]

theorem pushRaw_get_lt (a : PQ) (k : String) (p : Int) (m : Nat) (h : m < a.queue.size) :
    (a.pushRaw k p).queue[m]! = a.queue[m]! := push_get_lt _ _ m h

theorem pushRaw_get_eq (a : PQ) (k : String) (p : Int) :
    (a.pushRaw k p).queue[a.queue.size]! = ⟨k, p, a.queue.size⟩ := push_get_eq _ _

theorem pushRaw_names (a : PQ) (k : String) (p : Int) (x : String) :
    (a.pushRaw k p).names x = if x = k then some a.queue.size else a.names x := rfl

theorem pushRaw_prio_lt (a : PQ) (k : String) (p : Int) (m : Nat) (h : m < a.queue.size) :
    prio (a.pushRaw k p) m = prio a m := by unfold prio; rw [pushRaw_get_lt a k p m h]

theorem pushRaw_wf {a : PQ} (h : WF' a) (k : String) (p : Int) (hk : a.names k = none) :
    WF' (a.pushRaw k p) := by
  constructor
  · intro m hm
    rw [pushRaw_size] at hm
    rw [pushRaw_names]
    by_cases e : m = a.queue.size
    · subst e
      rw [pushRaw_get_eq]
      exact ⟨rfl, if_pos rfl⟩
    · have hm' : m < a.queue.size := by omega
      rw [pushRaw_get_lt a k p m hm']
      refine ⟨(h.1 m hm').1, ?_⟩
      have := (h.1 m hm').2
      rw [if_neg]
      · exact this
      · intro e'; rw [e', hk] at this; cases this
  · intro x m hx
    rw [pushRaw_names] at hx
    rw [pushRaw_size]
    split at hx
    · next e =>
      have : a.queue.size = m := Option.some.inj hx
      subst this
      rw [pushRaw_get_eq]
      exact ⟨by omega, e.symm⟩
    · obtain ⟨hm, hx'⟩ := h.2 x m hx
      rw [pushRaw_get_lt a k p m hm]
      exact ⟨by omega, hx'⟩

theorem pushRaw_search {a : PQ} (h : WF' a) (k : String) (p : Int) (x : String) :
    search (a.pushRaw k p) x = if x = k then some p else search a x := by
  rw [search_eq, search_eq, pushRaw_names]
  split
  · rw [Option.map_some]
    unfold prio
    rw [pushRaw_get_eq]
  · rcases Option.eq_none_or_eq_some (a.names x) with hx | ⟨m, hx⟩
    · rw [hx, Option.map_none, Option.map_none]
    · rw [hx, Option.map_some, Option.map_some, pushRaw_prio_lt a k p m (h.2 x m hx).1]

/-! ### popRaw -/

theorem popRaw_size (a : PQ) : a.popRaw.1.queue.size = a.queue.size - 1 := by simp [PQ.popRaw]

theorem popRaw_get_lt (a : PQ) (m : Nat) (h : m < a.queue.size - 1) :
    a.popRaw.1.queue[m]! = a.queue[m]! := pop_get_lt _ m h

theorem popRaw_names (a : PQ) (x : String) :
    a.popRaw.1.names x =
      if x = (a.queue[a.queue.size - 1]!).name then none else a.names x := rfl

theorem popRaw_item (a : PQ) :
    a.popRaw.2 = { a.queue[a.queue.size - 1]! with index := -1 } := rfl

theorem popRaw_wf {a : PQ} (h : WF' a) (h0 : 0 < a.queue.size) : WF' a.popRaw.1 := by
  constructor
  · intro m hm
    rw [popRaw_size] at hm
    have hm' : m < a.queue.size := by omega
    rw [popRaw_get_lt a m hm, popRaw_names]
    refine ⟨(h.1 m hm').1, ?_⟩
    rw [if_neg]
    · exact (h.1 m hm').2
    · intro e
      have := h.inj hm' (by omega) e
      omega
  · intro x m hx
    rw [popRaw_names] at hx
    split at hx
    · cases hx
    · next e =>
      obtain ⟨hm, hx'⟩ := h.2 x m hx
      have : m ≠ a.queue.size - 1 := by rintro rfl; exact e hx'.symm
      have hm2 : m < a.queue.size - 1 := by omega
      rw [popRaw_size, popRaw_get_lt a m hm2]
      exact ⟨hm2, hx'⟩

theorem popRaw_search {a : PQ} (h : WF' a) (x : String) :
    search a.popRaw.1 x =
      if x = (a.queue[a.queue.size - 1]!).name then none else search a x := by
  rw [search_eq, search_eq, popRaw_names]
  split
  · rfl
  · next e =>
    rcases Option.eq_none_or_eq_some (a.names x) with hx | ⟨m, hx⟩
    · rw [hx, Option.map_none, Option.map_none]
    · obtain ⟨hm, hx'⟩ := h.2 x m hx
      have : m ≠ a.queue.size - 1 := by rintro rfl; exact e hx'.symm
      rw [hx, Option.map_some, Option.map_some]
      unfold prio
      rw [popRaw_get_lt a m (by omega)]

theorem popRaw_inv {a : PQ} (h : WF' a) (h0 : 0 < a.queue.size)
    (ho : HeapFrom a 0 (a.queue.size - 1)) : Inv' a.popRaw.1 := by
  refine ⟨popRaw_wf h h0, ?_⟩
  intro m hm0 hm hlo
  rw [popRaw_size] at hm
  unfold prio
  rw [popRaw_get_lt a m hm, popRaw_get_lt a _ (by omega)]
  exact ho m hm0 hm hlo

theorem HeapFrom.mono {a : PQ} {n n' : Nat} (h : HeapFrom a 0 n) (hn : n' ≤ n) :
    HeapFrom a 0 n' := fun m h0 hm hlo => h m h0 (by omega) hlo

/-- the root is minimal -/
theorem HeapFrom.root_le {a : PQ} {n : Nat} (h : HeapFrom a 0 n) :
    ∀ m, m < n → prio a 0 ≤ prio a m := by
  intro m
  induction m using Nat.strongRecOn with
  | ind m ih =>
    intro hm
    by_cases e : m = 0
    · subst e; exact Int.le_refl _
    · have a1 := h m (by omega) hm (Nat.zero_le _)
      have a2 := ih ((m - 1) / 2) (by omega) (by omega)
      omega

/-! ### heapPush -/

theorem heapPush_spec {a : PQ} (h : Inv' a) (k : String) (p : Int) (hk : a.names k = none) :
    Inv' (heapPush a k p) ∧ ∀ x, search (heapPush a k p) x = if x = k then some p else search a x := by
  have hwf := pushRaw_wf h.1 k p hk
  have hsz := pushRaw_size a k p
  have e : heapPush a k p = up (a.pushRaw k p) a.queue.size (a.queue.size + 1) := by
    unfold heapPush PQ.len
    simp only [hsz]; rfl
  have hs : Step (a.queue.size + 1) (a.pushRaw k p) (heapPush a k p) := by
    rw [e]; exact up_step _ _ hwf (by omega) (by omega)
  refine ⟨⟨hs.1, ?_⟩, fun x => by rw [hs.2.2.1 x, pushRaw_search h.1]⟩
  rw [hs.2.1, hsz, e]
  refine up_heap _ _ (by omega) (by omega) (Nat.le_refl _) ⟨fun m h0 hm hne => ?_, fun m h0 hm hp => ?_⟩
  · rw [pushRaw_prio_lt a k p m (by omega), pushRaw_prio_lt a k p _ (by omega)]
    exact h.2 m h0 (by omega) (Nat.zero_le _)
  · omega

/-! ### removing the last element after a rearrangement -/

theorem tail_spec {a b : PQ} {n : Nat} (hn : a.queue.size = n + 1) (hs : Step (n + 1) a b)
    (ho : HeapFrom b 0 n) :
    Inv' b.popRaw.1 ∧ b.popRaw.2 = { b.queue[n]! with index := -1 } ∧
      ∀ x, search b.popRaw.1 x = if x = (b.queue[n]!).name then none else search a x := by
  have hsz : b.queue.size = n + 1 := by rw [hs.2.1, hn]
  have e : b.queue.size - 1 = n := by omega
  refine ⟨popRaw_inv hs.1 (by omega) (by rw [e]; exact ho), by rw [popRaw_item, e], fun x => ?_⟩
  rw [popRaw_search hs.1, e, hs.2.2.1 x]

/-! ### heapPop -/

theorem heapPop_spec {a : PQ} (h : Inv' a) (h0 : 0 < a.queue.size) :
    Inv' (heapPop a).1 ∧ (heapPop a).2 = { a.queue[0]! with index := -1 } ∧
      ∀ x, search (heapPop a).1 x = if x = (a.queue[0]!).name then none else search a x := by
  obtain ⟨n, hn⟩ : ∃ n, a.queue.size = n + 1 := ⟨a.queue.size - 1, by omega⟩
  have e : heapPop a = ((down (a.swap 0 n) 0 n).1).popRaw := by
    unfold heapPop PQ.len; simp only [hn]; rfl
  have s1 : Step (n + 1) a (a.swap 0 n) := swap_step h.1 0 n (by omega) (by omega) (by omega)
  have hsz1 : (a.swap 0 n).queue.size = n + 1 := by rw [swap_size, hn]
  have s2 : Step n (a.swap 0 n) (down (a.swap 0 n) 0 n).1 := down_step 0 s1.1 (by omega)
  have ho : HeapFrom (down (a.swap 0 n) 0 n).1 0 n := by
    refine down_heap 0 (by omega) ⟨fun m hm0 hm _ hp => ?_, fun m _ _ _ hi => by omega⟩
    rw [swap_prio a 0 n _ (by omega) (by omega), swap_prio a 0 n _ (by omega) (by omega),
      if_neg (by omega), if_neg hp, if_neg (by omega), if_neg (by omega)]
    exact h.2 m hm0 (by omega) (Nat.zero_le _)
  have s3 : Step (n + 1) (a.swap 0 n) (down (a.swap 0 n) 0 n).1 :=
    ⟨s2.1, s2.2.1, s2.2.2.1, fun m hm => s2.2.2.2 m (by omega)⟩
  have ht := tail_spec hn (s1.trans s3) ho
  have hlast : (down (a.swap 0 n) 0 n).1.queue[n]! = { a.queue[0]! with index := n } := by
    rw [s2.2.2.2 n (Nat.le_refl _), swap_get_j a 0 n (by omega) (by omega)]
  rw [e]
  rw [hlast] at ht
  exact ht

/-! ### heapRemove -/

theorem heapRemove_spec {a : PQ} (h : Inv' a) (i : Nat) (hi : i < a.queue.size) :
    Inv' (heapRemove a i).1 ∧
      ∀ x, search (heapRemove a i).1 x = if x = (a.queue[i]!).name then none else search a x := by
  obtain ⟨n, hn⟩ : ∃ n, a.queue.size = n + 1 := ⟨a.queue.size - 1, by omega⟩
  have hlen : a.len - 1 = n := by unfold PQ.len; omega
  rw [heapRemove_eq, hlen]
  by_cases e : n = i
  · subst e
    have : (n != n) = false := by simp
    rw [this]
    simp only [Bool.false_eq_true, if_false]
    have ht := tail_spec hn (Step.refl h.1) (h.2.mono (by omega))
    exact ⟨ht.1, ht.2.2⟩
  · have : (n != i) = true := by simp [e]
    rw [this]
    simp only [if_true]
    have hin : i < n := by omega
    have s1 : Step (n + 1) a (a.swap i n) := swap_step h.1 i n (by omega) (by omega) (by omega)
    have hsz1 : (a.swap i n).queue.size = n + 1 := by rw [swap_size, hn]
    have s2 : Step n (a.swap i n) (fixN (a.swap i n) i n) := fixN_step i s1.1 hin (by omega)
    have hp : ∀ m, m < n → m ≠ i → prio (a.swap i n) m = prio a m := by
      intro m hm hmi
      rw [swap_prio a i n _ (by omega) (by omega), if_neg (by omega), if_neg hmi]
    have ho : HeapFrom (fixN (a.swap i n) i n) 0 n := by
      refine fixN_heap i (by omega) hin ⟨fun m hm0 hm hmi hpi => ?_, fun m hm0 hm hpi hi0 => ?_⟩
      · rw [hp m hm hmi, hp _ (by omega) hpi]
        exact h.2 m hm0 (by omega) (Nat.zero_le _)
      · rw [hp m hm (by omega), hp _ (by omega) (by omega)]
        have a1 := h.2 m hm0 (by omega) (Nat.zero_le _)
        have a2 := h.2 i hi0 (by omega) (Nat.zero_le _)
        rw [hpi] at a1
        omega
    have s3 : Step (n + 1) (a.swap i n) (fixN (a.swap i n) i n) :=
      ⟨s2.1, s2.2.1, s2.2.2.1, fun m hm => s2.2.2.2 m (by omega)⟩
    have ht := tail_spec hn (s1.trans s3) ho
    have hlast : (fixN (a.swap i n) i n).queue[n]! = { a.queue[i]! with index := n } := by
      rw [s2.2.2.2 n (Nat.le_refl _), swap_get_j a i n (by omega) (by omega)]
    rw [hlast] at ht
    exact ⟨ht.1, ht.2.2⟩

/-! ### update: set priority in place, then `heapFix` -/

def setPrio (a : PQ) (idx : Nat) (p : Int) : PQ :=
  { a with queue := a.queue.setIfInBounds idx { a.queue[idx]! with prio := p } }

theorem setPrio_size (a : PQ) (idx : Nat) (p : Int) :
    (setPrio a idx p).queue.size = a.queue.size := by simp [setPrio]

theorem setPrio_get_eq (a : PQ) (idx : Nat) (p : Int) (h : idx < a.queue.size) :
    (setPrio a idx p).queue[idx]! = { a.queue[idx]! with prio := p } := set_get_eq _ _ idx h

theorem setPrio_get_ne (a : PQ) (idx : Nat) (p : Int) (m : Nat) (h : m ≠ idx) :
    (setPrio a idx p).queue[m]! = a.queue[m]! := set_get_ne _ _ idx m h

theorem setPrio_prio_ne (a : PQ) (idx : Nat) (p : Int) (m : Nat) (h : m ≠ idx) :
    prio (setPrio a idx p) m = prio a m := by unfold prio; rw [setPrio_get_ne a idx p m h]

theorem setPrio_wf {a : PQ} (h : WF' a) (idx : Nat) (p : Int) (hi : idx < a.queue.size) :
    WF' (setPrio a idx p) := by
  have key : ∀ m : Nat, ((setPrio a idx p).queue[m]!).index = (a.queue[m]!).index ∧
      ((setPrio a idx p).queue[m]!).name = (a.queue[m]!).name := by
    intro m
    by_cases e : m = idx
    · subst e; rw [setPrio_get_eq a m p hi]; exact ⟨rfl, rfl⟩
    · rw [setPrio_get_ne a idx p m e]; exact ⟨rfl, rfl⟩
  constructor
  · intro m hm
    rw [setPrio_size] at hm
    rw [(key m).1, (key m).2]
    exact h.1 m hm
  · intro x m hx
    rw [setPrio_size, (key m).2]
    exact h.2 x m hx

theorem setPrio_search {a : PQ} (h : WF' a) (k : String) (idx : Nat) (p : Int)
    (hk : a.names k = some idx) (x : String) :
    search (setPrio a idx p) x = if x = k then some p else search a x := by
  obtain ⟨hi, hname⟩ := h.2 k idx hk
  rw [search_eq, search_eq]
  show Option.map _ (a.names x) = _
  split
  · next e =>
    rw [e, hk, Option.map_some]
    unfold prio
    rw [setPrio_get_eq a idx p hi]
  · next e =>
    rcases Option.eq_none_or_eq_some (a.names x) with hx | ⟨m, hx⟩
    · rw [hx, Option.map_none, Option.map_none]
    · rw [hx, Option.map_some, Option.map_some]
      have : m ≠ idx := by
        rintro rfl
        exact e ((h.2 x m hx).2.symm.trans hname)
      rw [setPrio_prio_ne a idx p m this]

theorem heapFix_setPrio_spec {a : PQ} (h : Inv' a) (k : String) (idx : Nat) (p : Int)
    (hk : a.names k = some idx) :
    Inv' (heapFix (setPrio a idx p) idx) ∧
      ∀ x, search (heapFix (setPrio a idx p) idx) x = if x = k then some p else search a x := by
  obtain ⟨hi, -⟩ := h.1.2 k idx hk
  have hwf := setPrio_wf h.1 idx p hi
  have hsz := setPrio_size a idx p
  rw [heapFix_eq]
  unfold PQ.len
  rw [hsz]
  have s := fixN_step (n := a.queue.size) idx hwf hi (by omega)
  refine ⟨⟨s.1, ?_⟩, fun x => by rw [s.2.2.1 x, setPrio_search h.1 k idx p hk]⟩
  rw [s.2.1, hsz]
  refine fixN_heap idx (by omega) hi ⟨fun m hm0 hm hmi hpi => ?_, fun m hm0 hm hpi hi0 => ?_⟩
  · rw [setPrio_prio_ne a idx p m hmi, setPrio_prio_ne a idx p _ hpi]
    exact h.2 m hm0 hm (Nat.zero_le _)
  · rw [setPrio_prio_ne a idx p m (by omega), setPrio_prio_ne a idx p _ (by omega)]
    have a1 := h.2 m hm0 hm (Nat.zero_le _)
    have a2 := h.2 idx hi0 hi (Nat.zero_le _)
    rw [hpi] at a1
    omega

/-! ### heapInit -/

theorem initLoop_step {n : Nat} (k : Nat) : ∀ {a : PQ}, WF' a → n ≤ a.queue.size →
    Step n a (initLoop a n k) := by
  induction k with
  | zero => intro a h _; exact Step.refl h
  | succ k ih =>
    intro a h hn
    have s1 := down_step k h hn
    exact s1.trans (ih s1.1 (by rw [s1.2.1]; exact hn))

theorem initLoop_heap {n : Nat} (k : Nat) : ∀ {a : PQ}, n ≤ a.queue.size → HeapFrom a k n →
    HeapFrom (initLoop a n k) 0 n := by
  induction k with
  | zero => intro a _ h; exact h
  | succ k ih =>
    intro a hn h
    refine ih (by unfold down; rw [downLoop_size]; exact hn) (down_heap k hn ?_)
    exact ⟨fun m hm0 hm hlo hp => h m hm0 hm (by omega), fun m _ _ _ hk0 hlo => by omega⟩

theorem heapInit_spec {a : PQ} (h : WF' a) :
    Inv' (heapInit a) ∧ ∀ x, search (heapInit a) x = search a x := by
  have s : Step a.queue.size a (heapInit a) := initLoop_step _ h (Nat.le_refl _)
  refine ⟨⟨s.1, ?_⟩, s.2.2.1⟩
  rw [s.2.1]
  have e : a.len = a.queue.size := rfl
  exact initLoop_heap (a.len / 2) (Nat.le_refl _) (fun m hm0 hm hlo => by omega)

/-! ### newPriorityQueue -/

theorem build_nil (i : Nat) (a : PQ) : new.build [] i a = a := rfl

theorem build_cons (nm : String) (p : Int) (rest : List (String × Int)) (a : PQ) :
    new.build ((nm, p) :: rest) a.queue.size a = new.build rest (a.queue.size + 1) (a.pushRaw nm p) :=
  rfl

theorem new_eq (items : List (String × Int)) : new items = heapInit (new.build items 0 default) :=
  rfl

theorem default_wf : WF' (default : PQ) := by
  constructor
  · intro i hi; exact absurd hi (Nat.not_lt_zero _)
  · intro k i hk; cases hk

theorem default_size : (default : PQ).queue.size = 0 := rfl

theorem default_search (x : String) : search (default : PQ) x = none := rfl

end Furiko.Heap
